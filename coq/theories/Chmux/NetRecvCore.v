(** Preservation of the composed invariant when Y consumes the oldest frame of the link [L] from X. *)
From Remoc Require Import Lib.Base Gen.Consts Chmux.Wire Chmux.Mux Chmux.Endpoint Chmux.EndpointLemmas Chmux.EndpointInv
  Chmux.EndpointSteps Chmux.Net Chmux.NetInv Chmux.NetFrame Chmux.NetLocal Chmux.NetLocal2.
From RecordUpdate Require Import RecordUpdate.

Lemma cnt_fin_split y L : cnt (m_fin y) L = 0 -> cnt (m_sf y) L = 0 /\ cnt (m_rf y) L = 0.
Proof.
  intros H. pose proof (cnt_le (m_sf y) (m_fin y) L). pose proof (cnt_le (m_rf y) (m_fin y) L).
  split; apply N.le_0_r; rewrite <- H; [apply H0|apply H1]; intros m E; unfold m_fin; rewrite E; auto using orb_true_r.
Qed.

(** a port of Y whose partner's number [p] is being reintroduced at the head of the link has
    received everything: it would have been released *)
Lemma no_stale PX PY OX L0 L' fr y2 c2 p :
  rx_clause PX PY OX (fr :: L0) L' y2 -> lookup y2 PY = Some (Connected c2) -> all4 c2 = false ->
  m_intro p (fst fr) = true -> m_fin y2 (fst fr) = false -> pstat PX L' p y2 = PGone ->
  remote c2 <> p.
Proof.
  intros Hy Hl Ha Hi Hf Hg E. unfold rx_clause in Hy. rewrite Hl, E in Hy. destruct Hy as (_ & _ & _ & _ & Hr & Ho).
  specialize (Ho Hg). rewrite Hg in Hr. pose proof (nafter_head _ _ _ _ Ho Hi) as Z.
  assert (Z' : cnt (m_fin y2) (fr :: L0) = 0) by (rewrite cnt_cons, Hf; cbn [b2n]; lia).
  destruct (cnt_fin_split _ _ Z') as [Z1 Z2]. pose proof (r_sf _ _ _ _ Hr) as S1. pose proof (r_rf _ _ _ _ Hr) as S2.
  destruct (r_gone _ _ _ _ Hr eq_refl) as [G1 G2]. rewrite Z1 in S1. rewrite Z2 in S2. cbn [txf rxf b2n] in S1, S2.
  unfold all4 in Ha. rewrite G1, G2 in Ha. destruct (rx_open c2), (rrx_dropped c2); cbn [negb b2n andb] in *; try lia; discriminate.
Qed.

(** what is known about the port addressed by the frame at the head of the link *)
Lemma head_other PX PY OX L0 L' fr y :
  rx_clause PX PY OX (fr :: L0) L' y -> m_other y (fst fr) = true -> m_po y (fst fr) = false ->
  exists cY, lookup y PY = Some (Connected cY).
Proof.
  intros Hy Ho Hp. unfold rx_clause in Hy. destruct (lookup y PY) as [[r|cY]|].
  - destruct Hy as (_ & H2 & H3 & _). exfalso. pose proof (nafter_head _ _ _ _ H2 Ho) as Z.
    rewrite !cnt_cons, Hp, Ho in H3. cbn [b2n] in H3. lia.
  - eauto.
  - destruct Hy as (H1 & _). rewrite cnt_cons in H1. rewrite (sub_other _ _ Ho) in H1. cbn [b2n] in H1. lia.
Qed.

(** * Receiver-side accounting when a frame is consumed *)
Lemma rxf_rxcf s : rxf s = true -> rxcf s = true.
Proof. destruct s; cbn [rxf rxcf]; auto. intros ->. apply orb_true_r. Qed.

Ltac pop_fin :=
  try lia; try congruence;
  try (let Hq := fresh "Hq" in intros Hq; repeat match goal with R : _ = _ -> _ |- _ => specialize (R Hq) end; first [lia|congruence]).
Ltac pop_counts :=
  rewrite ?cnt_cons in *; mev; rewrite ?N.add_0_l in *.

Lemma pop_sf cY cY' s y L0 pl :
  rx_open cY' = false -> rrx_closed cY' = rrx_closed cY -> rrx_dropped cY' = rrx_dropped cY ->
  tx_dropped cY' = tx_dropped cY -> rx_dropped cY' = rx_dropped cY ->
  rcl cY s y ((SendFinish y, pl) :: L0) -> rx_open cY = true /\ rcl cY' s y L0.
Proof.
  intros F1 F2 F3 F4 F5 [R1 R2 R3 R4 R5 R6 R7 R8 R9 R10].
  pose proof (nafter_head _ _ _ _ R4) as Hd. pose proof (nafter_tail _ _ _ _ R4) as T4. pose proof (nafter_tail _ _ _ _ R6) as T6.
  pop_counts. specialize (Hd eq_refl). pose proof (b2n_le1 (txf s)).
  assert (rx_open cY = true) by (destruct (rx_open cY); [reflexivity|cbn [negb b2n] in R1; lia]).
  split; [assumption|]. rewrite H0 in R1. cbn [negb b2n] in R1.
  constructor; rewrite ?F1, ?F2, ?F3, ?F4, ?F5; cbn [negb b2n]; auto; pop_fin.
Qed.

Lemma pop_rf cY cY' s y L0 pl :
  rx_open cY' = rx_open cY -> rrx_closed cY' = true -> rrx_dropped cY' = true ->
  tx_dropped cY' = tx_dropped cY -> rx_dropped cY' = rx_dropped cY ->
  rcl cY s y ((ReceiveFinish y, pl) :: L0) -> rcl cY' s y L0.
Proof.
  intros F1 F2 F3 F4 F5 [R1 R2 R3 R4 R5 R6 R7 R8 R9 R10].
  pose proof (nafter_head _ _ _ _ R6) as Hd. pose proof (nafter_tail _ _ _ _ R4) as T4. pose proof (nafter_tail _ _ _ _ R6) as T6.
  pop_counts. specialize (Hd eq_refl). pose proof (b2n_le1 (rxf s)).
  assert (Hx : rxf s = true) by (destruct (rxf s); [reflexivity|cbn [b2n] in R2; lia]).
  pose proof (rxf_rxcf _ Hx) as Hxc. rewrite Hx in R2. rewrite Hxc in *. cbn [b2n] in *.
  pose proof (cnt_le (m_rc y) (m_credrc y) L0) as Hle.
  assert (cnt (m_rc y) L0 = 0).
  { apply N.le_0_r. rewrite <- Hd. apply Hle. intros m E. unfold m_credrc. rewrite E. apply orb_true_r. }
  constructor; rewrite ?F1, ?F2, ?F3, ?F4, ?F5, ?Hx, ?Hxc; cbn [negb b2n]; auto; pop_fin.
Qed.

Lemma pop_rc cY cY' s y L0 pl :
  rx_open cY' = rx_open cY -> rrx_closed cY' = true -> rrx_dropped cY' = rrx_dropped cY ->
  tx_dropped cY' = tx_dropped cY -> rx_dropped cY' = rx_dropped cY ->
  rcl cY s y ((ReceiveClose y, pl) :: L0) -> rrx_closed cY = false /\ rcl cY' s y L0.
Proof.
  intros F1 F2 F3 F4 F5 [R1 R2 R3 R4 R5 R6 R7 R8 R9 R10].
  pose proof (nafter_tail _ _ _ _ R4) as T4. pose proof (nafter_tail _ _ _ _ R6) as T6.
  pop_counts. pose proof (b2n_le1 (rxcf s)).
  assert (Hc : rrx_closed cY = false) by (destruct (rrx_closed cY); [cbn [b2n] in R3; lia|reflexivity]).
  split; [exact Hc|]. rewrite Hc in *. cbn [b2n] in *.
  constructor; rewrite ?F1, ?F2, ?F3, ?F4, ?F5; cbn [negb b2n]; auto; pop_fin.
Qed.

(** data and credit frames change no flag *)
Lemma pop_data cY s y L0 fr :
  m_data y (fst fr) = true -> m_credrc y (fst fr) = false -> m_fin y (fst fr) = false ->
  rcl cY s y (fr :: L0) -> rx_open cY = true /\ rcl cY s y L0.
Proof.
  intros D1 D2 D3 [R1 R2 R3 R4 R5 R6 R7 R8 R9 R10].
  pose proof (nafter_tail _ _ _ _ R4) as T4. pose proof (nafter_tail _ _ _ _ R6) as T6.
  pose proof D2 as D2c. unfold m_credrc, m_fin in D2, D3. apply orb_false_iff in D2 as [D2 D2'], D3 as [D3 D3'].
  assert (Do : m_other y (fst fr) = true) by (unfold m_other; now rewrite D1).
  rewrite ?cnt_cons, ?D1, ?D2c, ?D2', ?D3, ?D3', ?Do in *. cbn [b2n] in *. rewrite ?N.add_0_l in *.
  assert (rx_open cY = true) by (destruct (rx_open cY); [reflexivity|specialize (R5 eq_refl); lia]).
  split; [assumption|]. constructor; auto; pop_fin.
Qed.
Lemma pop_cred cY s y L0 n pl :
  rcl cY s y ((PortCredits y n, pl) :: L0) -> rcl cY s y L0.
Proof.
  intros [R1 R2 R3 R4 R5 R6 R7 R8 R9 R10].
  pose proof (nafter_tail _ _ _ _ R4) as T4. pose proof (nafter_tail _ _ _ _ R6) as T6.
  pop_counts. constructor; auto; pop_fin.
Qed.

(** * Y consumes a frame addressed to its connected port [y]; the frame may carry requests [ps] *)
Section Pop.
  Variables (PX PY PY' : list (N * pstate)) (OX OY OY' : list N) (QX QY : list evt) (L0 L' : list frame).
  Variables (fr : frame) (y : N) (cY cY' : conn) (ps : list N).
  Hypothesis HC : Core PX PY OX OY QX QY (fr :: L0) L'.
  Hypothesis Hl : lookup y PY = Some (Connected cY).
  Hypothesis K1 : lookup y PY' = Some (Connected cY').
  Hypothesis K2 : forall k, k <> y -> lookup k PY' = lookup k PY.
  Hypothesis Er : remote cY' = remote cY.
  Hypothesis E4 : tx_dropped cY' = tx_dropped cY.
  Hypothesis E5 : rx_dropped cY' = rx_dropped cY.
  Hypothesis E6 : rx_closed cY' = rx_closed cY.
  Hypothesis Haddr : forall y0, y0 <> y -> m_addr y0 (fst fr) = false.
  Hypothesis Hpo : m_po y (fst fr) = false.
  Hypothesis Hrj : m_rj y (fst fr) = false.
  Hypothesis Hnf : forall k, mem k ps = true -> forall y2, m_fin y2 (fst fr) = false.
  Hypothesis Hreq : forall k, m_reqn k (fst fr) = occ k ps.
  Hypothesis Hsrv : forall k, m_srv k (fst fr) = false.
  Hypothesis O1 : forall k, mem k OY' = mem k ps || mem k OY.
  Hypothesis Hbuf : forall y2 c2, lookup y2 PY = Some (Connected c2) -> all4 c2 = false.
  Hypothesis Hstep : forall s, rcl cY s y (fr :: L0) -> rcl cY' s y L0.

  Lemma pop_conn k d : lookup k PY = Some (Connected d) ->
    exists d', lookup k PY' = Some (Connected d') /\ remote d' = remote d /\ tx_dropped d' = tx_dropped d /\ rx_dropped d' = rx_dropped d.
  Proof.
    intros H. destruct (N.eq_dec k y) as [->|Hne].
    - exists cY'. assert (d = cY) by congruence. subst d. auto.
    - exists d. rewrite (K2 _ Hne). auto.
  Qed.
  Lemma pop_conn' k d' : lookup k PY' = Some (Connected d') -> exists d, lookup k PY = Some (Connected d) /\ remote d = remote d'.
  Proof.
    intros H. destruct (N.eq_dec k y) as [->|Hne].
    - exists cY. assert (d' = cY') by congruence. subst d'. auto.
    - exists d'. rewrite <- (K2 _ Hne). auto.
  Qed.

  Lemma pop_pstat y0 x0 : pst_ok (pstat PY (fr :: L0) y0 x0) (pstat PY' L0 y0 x0).
  Proof.
    rewrite (pstat_link PY L0 (fr :: L0) y0 x0) by (apply cnt_pox_cons_nosrv, Hsrv).
    unfold pstat. destruct (N.eq_dec y0 y) as [->|Hne].
    - rewrite Hl, K1, Er. destruct (remote cY =? x0); [|apply pst_ok_refl].
      unfold pst_ok. cbn [txf rxf rxcf]. rewrite E4, E5, E6. repeat split; auto; try discriminate. intros c0 _. eauto.
    - rewrite (K2 _ Hne). apply pst_ok_refl.
  Qed.

  Lemma pop_req_conn k : mem k ps = true ->
    (exists r, lookup k PX = Some (Connecting r)) /\ occ k ps = 1 /\ reqcount k L0 = 0 /\ mem k OY = false /\
    cnt (m_po k) L' = 0 /\ cnt (m_rj k) L' = 0.
  Proof.
    intros Hm. apply occ_pos_mem in Hm. pose proof (c_yx _ _ _ _ _ _ _ _ HC k) as Hk.
    destruct (rx_req_connecting _ _ _ _ _ _ Hk) as (r & Hr); [rewrite reqcount_cons, Hreq; lia|].
    unfold rx_clause in Hk. rewrite Hr in Hk. destruct Hk as (H1 & _). rewrite reqcount_cons, Hreq in H1.
    destruct (mem k OY); cbn [b2n] in H1; repeat split; eauto; lia.
  Qed.

  Lemma core_pop : Core PX PY' OX OY' QX QY L0 L'.
  Proof.
    pose proof HC as [Hxy Hyx Hix Hiy Hox Hoy Hcx Hcy Hbx Hby]. constructor; auto.
    - intros y0. destruct (N.eq_dec y0 y) as [->|Hne].
      + pose proof (Hxy y) as Hy. unfold rx_clause in *. rewrite Hl in Hy. rewrite K1, Er.
        destruct Hy as (H1 & H2 & H3 & H4 & H5 & H6). rewrite cnt_cons, ?Hpo, ?Hrj in H1, H2. cbn [b2n] in H1, H2.
        split; [lia|split; [lia|split; [exact H3|split; [exact H4|split]]]].
        * now apply Hstep.
        * intros Hg. eapply nafter_tail. eauto.
      + eapply rx_frame; [apply Hxy|apply (K2 _ Hne)|apply leq_pop; auto|reflexivity|reflexivity|]. intros x0. apply pst_ok_refl.
    - intros x0. destruct (mem x0 ps) eqn:Em.
      + destruct (pop_req_conn _ Em) as ((r & Hr) & R1 & R2 & R3 & R4 & R5).
        pose proof (Hyx x0) as Hk. unfold rx_clause in *. rewrite Hr in *. destruct Hk as (H1 & H2 & H3 & H4).
        rewrite O1, Em, R2, R4, R5. cbn [orb b2n]. split; [lia|split; [exact H2|split; [intros _; apply H3; exact R4|]]].
        intros y0 Hy0. pose proof (cnt_pox_le_po x0 y0 L'). lia.
      + eapply rx_frame; [apply Hyx|reflexivity|apply leq_refl| | |].
        * rewrite O1, Em. reflexivity.
        * rewrite reqcount_cons, Hreq. apply occ_mem in Em. lia.
        * intros y0. apply pop_pstat.
    - eapply inj_ok_upd; [|exact Hiy]. apply pop_conn'.
    - intros y2 c2' H. destruct (pop_conn' _ _ H) as (c2 & D1 & D2). rewrite <- D2, O1, (Hoy _ _ D1), orb_false_r.
      destruct (mem (remote c2) ps) eqn:Em; [|reflexivity]. exfalso.
      destruct (pop_req_conn _ Em) as ((r & Hr) & R1 & R2 & R3 & R4 & R5).
      apply (no_stale PX PY OX L0 L' fr y2 c2 (remote c2)); [apply Hxy|exact D1|eapply Hbuf; eauto| | | |reflexivity].
      * unfold m_intro. rewrite Hreq, R1. reflexivity.
      * eapply Hnf; eauto.
      * unfold pstat. rewrite Hr. pose proof (cnt_pox_le_po (remote c2) y2 L').
        destruct (0 <? cnt (m_pox (remote c2) y2) L') eqn:El; [|reflexivity]. apply N.ltb_lt in El. lia.
    - eapply chq_ok_same_flags; [exact Hcy|apply pop_conn|apply pop_conn'].
    - rewrite cnt_cons in Hbx. lia.
  Qed.
End Pop.

(** * Y consumes a frame that addresses no port and introduces nothing *)
Lemma core_recv_plain PX PY OX OY QX QY L0 L' fr :
  Core PX PY OX OY QX QY (fr :: L0) L' ->
  (forall y, m_addr y (fst fr) = false) -> (forall x, m_intro x (fst fr) = false) ->
  Core PX PY OX OY QX QY L0 L'.
Proof.
  intros [Hxy Hyx Hix Hiy Hox Hoy Hcx Hcy Hbx Hby] Ha Hi. constructor; auto.
  - intros y. eapply rx_frame; [apply Hxy|reflexivity|apply leq_pop; auto|reflexivity|reflexivity|]. intros x. apply pst_ok_refl.
  - intros x. destruct (m_intro_false _ _ (Hi x)) as [I1 I2].
    eapply rx_frame; [apply Hyx|reflexivity|apply leq_refl|reflexivity| |].
    + rewrite reqcount_cons, I1. lia.
    + intros y. apply pst_ok_eq. apply pstat_link. symmetry. now apply cnt_pox_cons_nosrv.
  - rewrite cnt_cons in Hbx. lia.
Qed.

(** * Y consumes [OpenPort x]: the request becomes outstanding at Y *)
Lemma core_recv_open PX PY OX OY OY' QX QY L0 L' x w id pl :
  Core PX PY OX OY QX QY ((OpenPort x w id, pl) :: L0) L' ->
  (forall k, mem k OY' = (k =? x) || mem k OY) ->
  (forall y2 c2, lookup y2 PY = Some (Connected c2) -> all4 c2 = false) ->
  mem x OY = false /\ Core PX PY OX OY' QX QY L0 L'.
Proof.
  intros HC O1 Hbuf. pose proof HC as [Hxy Hyx Hix Hiy Hox Hoy Hcx Hcy Hbx Hby].
  assert (Hb0 : cnt m_bad L0 = 0) by (rewrite cnt_cons in Hbx; lia).
  pose proof (Hyx x) as Hk. destruct (rx_req_connecting _ _ _ _ _ _ Hk) as (r & Hr); [rewrite reqcount_cons; mev; lia|].
  unfold rx_clause in Hk. rewrite Hr in Hk. destruct Hk as (H1 & H2 & H3 & H4). rewrite reqcount_cons in H1. mev.
  assert (Hm : mem x OY = false) by (destruct (mem x OY); [cbn [b2n] in H1; lia|reflexivity]).
  rewrite Hm in H1. cbn [b2n] in H1. split; [exact Hm|]. constructor; auto.
  - intros y. eapply rx_frame; [apply Hxy|reflexivity|apply leq_pop; reflexivity|reflexivity|reflexivity|]. intros x0. apply pst_ok_refl.
  - intros x0. destruct (N.eq_dec x0 x) as [->|Hne].
    + unfold rx_clause. rewrite Hr, O1, N.eqb_refl. cbn [orb b2n]. split; [lia|split; [exact H2|split; [exact H3|]]].
      intros y0 Hy0. pose proof (cnt_pox_le_po x y0 L'). lia.
    + eapply rx_frame; [apply Hyx|reflexivity|apply leq_refl| | |].
      * rewrite O1. apply N.eqb_neq in Hne. now rewrite Hne.
      * rewrite reqcount_cons. mev. apply N.eqb_neq in Hne. rewrite N.eqb_sym, Hne. cbn [b2n]. lia.
      * intros y. apply pst_ok_eq. apply pstat_link. symmetry. apply cnt_pox_cons_nosrv. reflexivity.
  - intros y2 c2 H. rewrite O1, (Hoy _ _ H), orb_false_r. apply N.eqb_neq.
    apply (no_stale PX PY OX L0 L' (OpenPort x w id, pl) y2 c2 x); [apply Hxy|exact H|eapply Hbuf; eauto| | |].
    + mev. reflexivity.
    + reflexivity.
    + unfold pstat. rewrite Hr. pose proof (cnt_pox_le_po x y2 L').
      destruct (0 <? cnt (m_pox x y2) L') eqn:El; [|reflexivity]. apply N.ltb_lt in El. lia.
Qed.

Lemma cnt_addr_le y L : cnt (m_addr y) L <= cnt (m_po y) L + cnt (m_rj y) L + cnt (m_other y) L.
Proof.
  induction L as [|fr L IH]; [rewrite !cnt_nil; lia|]. rewrite !cnt_cons. unfold m_addr at 1.
  destruct (m_po y (fst fr)), (m_rj y (fst fr)), (m_other y (fst fr)); cbn [orb b2n]; lia.
Qed.

(** * Y consumes [Rejected y]: its [Connecting] entry disappears *)
Lemma core_recv_rj PX PY PY' OX OY QX QY L0 L' y np pl :
  Core PX PY OX OY QX QY ((Rejected y np, pl) :: L0) L' ->
  lookup y PY' = None -> (forall k, k <> y -> lookup k PY' = lookup k PY) ->
  (exists r, lookup y PY = Some (Connecting r)) /\ Core PX PY' OX OY QX QY L0 L'.
Proof.
  intros HC K1 K2. pose proof HC as [Hxy Hyx Hix Hiy Hox Hoy Hcx Hcy Hbx Hby].
  assert (Hb0 : cnt m_bad L0 = 0) by (rewrite cnt_cons in Hbx; lia).
  pose proof (Hxy y) as Hy. assert (Hr : exists r, lookup y PY = Some (Connecting r)).
  { unfold rx_clause in Hy. destruct (lookup y PY) as [[r|c]|]; [eauto| |].
    - destruct Hy as (_ & H2 & _). rewrite cnt_cons in H2. mev. lia.
    - destruct Hy as (H1 & _). rewrite cnt_cons in H1. mev. lia. }
  split; [exact Hr|]. destruct Hr as (r & Hr). unfold rx_clause in Hy. rewrite Hr in Hy. destruct Hy as (H1 & H2 & H3 & H4).
  rewrite !cnt_cons in H1, H3. mev. rewrite ?N.add_0_l in *.
  assert (Hconn : forall k d, lookup k PY' = Some (Connected d) <-> lookup k PY = Some (Connected d)).
  { intros k d. destruct (N.eq_dec k y) as [->|Hne]; [rewrite K1, Hr; split; discriminate|now rewrite (K2 _ Hne)]. }
  constructor; auto.
  - intros y0. destruct (N.eq_dec y0 y) as [->|Hne].
    + unfold rx_clause. rewrite K1. pose proof (cnt_addr_le y L0). repeat split; try lia.
      destruct (mem y OX); [cbn [b2n] in H1; lia|reflexivity].
    + eapply rx_frame; [apply Hxy|apply (K2 _ Hne)|apply leq_pop|reflexivity|reflexivity|].
      * mev. apply N.eqb_neq. congruence.
      * intros x0. apply pst_ok_refl.
  - intros x0. eapply rx_frame; [apply Hyx|reflexivity|apply leq_refl|reflexivity| |].
    + rewrite reqcount_cons. mev. lia.
    + intros y0. apply pst_ok_eq. rewrite (pstat_link PY L0 ((Rejected y np, pl) :: L0) y0 x0) by (apply (cnt_pox_cons_nosrv y0 x0 L0 (Rejected y np, pl)); reflexivity).
      destruct (N.eq_dec y0 y) as [->|Hne].
      * rewrite (pstat_none _ _ _ _ K1). unfold pstat. rewrite Hr. pose proof (cnt_pox_le_po y x0 L0).
        destruct (0 <? cnt (m_pox y x0) L0) eqn:El; [|reflexivity]. apply N.ltb_lt in El. lia.
      * unfold pstat. now rewrite (K2 _ Hne).
  - intros p1 p2 c1 c2 A B. apply Hconn in A, B. eauto.
  - intros p c A. apply Hconn in A. eauto.
  - eapply chq_ok_same_flags; [exact Hcy| |].
    + intros k d A. exists d. apply Hconn in A. auto.
    + intros k d A. exists d. apply Hconn in A. auto.
Qed.

(** * Y consumes [PortOpened y x]: its [Connecting] entry becomes connected to [x] *)
Section RecvPO.
  Variables (PX PY PY' : list (N * pstate)) (OX OY : list N) (QX QY : list evt) (L0 L' : list frame).
  Variables (x y : N) (c' : conn) (pl : option N).
  Hypothesis HC : Core PX PY OX OY QX QY ((PortOpened y x, pl) :: L0) L'.
  Hypothesis K1 : lookup y PY' = Some (Connected c').
  Hypothesis K2 : forall k, k <> y -> lookup k PY' = lookup k PY.
  Hypothesis Er : remote c' = x.
  Hypothesis F1 : rx_open c' = true.
  Hypothesis F2 : rrx_closed c' = false.
  Hypothesis F3 : rrx_dropped c' = false.
  Hypothesis F4 : tx_dropped c' = false.
  Hypothesis F5 : rx_dropped c' = false.
  Hypothesis F6 : rx_closed c' = false.
  Hypothesis Hbuf : forall y2 c2, lookup y2 PY = Some (Connected c2) -> all4 c2 = false.

  Let fr : frame := (PortOpened y x, pl).

  Lemma recv_po_connecting : exists r, lookup y PY = Some (Connecting r).
  Proof. apply (rx_po_connecting _ _ _ _ _ _ (c_xy _ _ _ _ _ _ _ _ HC y)). rewrite cnt_cons. mev. lia. Qed.

  Lemma core_recv_po : Core PX PY' OX OY QX QY L0 L'.
  Proof.
    pose proof HC as [Hxy Hyx Hix Hiy Hox Hoy Hcx Hcy Hbx Hby].
    assert (Hb0 : cnt m_bad L0 = 0) by (rewrite cnt_cons in Hbx; lia).
    destruct recv_po_connecting as (r & Hr).
    pose proof (Hxy y) as Hy. unfold rx_clause in Hy. rewrite Hr in Hy. destruct Hy as (H1 & H2 & H3 & H4).
    destruct (H4 x) as (cX & P1 & P2); [rewrite cnt_cons; mev; lia|].
    pose proof P1 as P1'. apply pstat_live in P1' as [Lx Rx].
    rewrite !cnt_cons in H1. mev. rewrite ?N.add_0_l in *.
    assert (Zpo : cnt (m_po y) L0 = 0) by lia. assert (Zrj : cnt (m_rj y) L0 = 0) by lia.
    assert (Zo : mem y OX = false) by (destruct (mem y OX); [cbn [b2n] in H1; lia|reflexivity]).
    assert (Zr : reqcount y L' = 0) by lia.
    (* no other port of Y is connected to x *)
    assert (Hstale : forall y2 c2, lookup y2 PY = Some (Connected c2) -> remote c2 <> x).
    { intros y2 c2 H. apply (no_stale PX PY OX L0 L' fr y2 c2 x); [apply Hxy|exact H|eapply Hbuf; eauto| | |].
      - unfold fr. mev. apply orb_true_r.
      - reflexivity.
      - apply (pstat_conn_other _ _ _ _ _ Lx). rewrite Rx. intros ->. congruence. }
    assert (Hconn : forall k d, k <> y -> lookup k PY' = Some (Connected d) <-> lookup k PY = Some (Connected d)).
    { intros k d Hne. now rewrite (K2 _ Hne). }
    constructor; auto.
    - intros y0. destruct (N.eq_dec y0 y) as [->|Hne].
      + unfold rx_clause. rewrite K1, Er, P1. split; [exact Zpo|split; [exact Zrj|split; [exact Zo|split; [exact Zr|split]]]].
        * apply (rcl_flags fresh_conn); [unfold flags_eq, fresh_conn; prj; auto 10|].
          eapply rcl_pop_irrel; [|exact P2]. reflexivity.
        * discriminate.
      + eapply rx_frame; [apply Hxy|apply (K2 _ Hne)|apply leq_pop|reflexivity|reflexivity|].
        * unfold fr. mev. apply N.eqb_neq. congruence.
        * intros x0. apply pst_ok_refl.
    - intros x0. eapply rx_frame; [apply Hyx|reflexivity|apply leq_refl|reflexivity| |].
      + rewrite reqcount_cons. mev. lia.
      + intros y0. destruct (N.eq_dec y0 y) as [->|Hne].
        * unfold pstat. rewrite Hr, K1, Er. rewrite cnt_cons. mev. destruct (x =? x0) eqn:Ex.
          -- cbn [b2n]. destruct (0 <? 1 + cnt (m_pox y x0) L0) eqn:El; [|apply N.ltb_ge in El; lia].
             unfold pst_ok. cbn [txf rxf rxcf]. rewrite F4, F5, F6. repeat split; auto; discriminate.
          -- cbn [b2n]. rewrite N.add_0_l. pose proof (cnt_pox_le_po y x0 L0).
             destruct (0 <? cnt (m_pox y x0) L0) eqn:El; [apply N.ltb_lt in El; lia|]. apply pst_ok_refl.
        * apply pst_ok_eq. unfold pstat. rewrite (K2 _ Hne), cnt_cons. mev.
          apply N.eqb_neq in Hne. rewrite (N.eqb_sym y y0), Hne. cbn [andb b2n]. now rewrite N.add_0_l.
    - intros p1 p2 c1 c2 A B Hrem. destruct (N.eq_dec p1 y) as [->|N1], (N.eq_dec p2 y) as [->|N2]; auto.
      + rewrite K1 in A. injection A as <-. apply Hconn in B; auto. exfalso. apply (Hstale _ _ B). congruence.
      + rewrite K1 in B. injection B as <-. apply Hconn in A; auto. exfalso. apply (Hstale _ _ A). congruence.
      + apply Hconn in A, B; auto. eauto.
    - intros p d A. destruct (N.eq_dec p y) as [->|N1].
      + rewrite K1 in A. injection A as <-. rewrite Er.
        pose proof (Hyx x) as Hx. unfold rx_clause in Hx. rewrite Lx in Hx. apply Hx.
      + apply Hconn in A; auto. eauto.
    - destruct Hcy as [C1 C2 C3]. constructor.
      + intros y0 Hy0. destruct (C1 y0 Hy0) as (x0 & c0 & A1 & A2 & A3). exists x0, c0. split; [|auto].
        rewrite K2; [exact A1|]. intros ->. congruence.
      + intros y0 Hy0. destruct (C2 y0 Hy0) as (x0 & c0 & A1 & A2 & A3). exists x0, c0. split; [|auto].
        rewrite K2; [exact A1|]. intros ->. congruence.
      + intros p d A. destruct (N.eq_dec p y) as [->|N1].
        * rewrite K1 in A. injection A as <-. rewrite Er. split; apply no_after_g0.
          -- destruct (N.eq_dec (count (ev_sends x) QY) 0) as [E|E]; [exact E|]. exfalso.
             destruct (C1 x) as (x0 & c0 & A1 & A2 & A3); [lia|]. eapply Hstale; eauto.
          -- destruct (N.eq_dec (count (ev_creds x) QY) 0) as [E|E]; [exact E|]. exfalso.
             destruct (C2 x) as (x0 & c0 & A1 & A2 & A3); [lia|]. eapply Hstale; eauto.
        * apply Hconn in A; eauto.
  Qed.
End RecvPO.
