(** Two invariants of every run of the composition, protocol errors or not: the all-clients-dropped
    marker is never lost, and a [Goodbye] that was sent is in flight or has been received. *)
From Remoc Require Import Lib.Base Gen.Consts Chmux.Wire Chmux.Mux Chmux.Endpoint Chmux.EndpointLemmas Chmux.EndpointInv
  Chmux.EndpointSteps Chmux.EndpointDisp Chmux.EndpointRecv Chmux.EndpointEffects Chmux.EndpointProofs Chmux.EndpointDeath
  Chmux.Net Chmux.NetInv Chmux.NetFrame Chmux.NetShape Chmux.NetQuiet.
From RecordUpdate Require Import RecordUpdate.

(** what a step does to the termination flags, the connect queue and the transport *)
Definition cl_val (e : ep) : N :=
  if clients_alive e then 1 else count is_acd (cq e) + b2n (all_clients_dropped (mx e)).
Definition cl_ok (e : ep) : Prop := 1 <= cl_val e.

Lemma finish_outcome e1 o :
  clients_alive (finish e1 o) = clients_alive e1 /\ cq (finish e1 o) = cq e1 /\
  match o with
  | Done m effs => mx (finish e1 o) = m /\ sent (finish e1 o) = sent e1 ++ emits effs
  | Proto _ effs => mx (finish e1 o) = mx e1 /\ sent (finish e1 o) = sent e1 ++ emits effs
  | Panic _ => mx (finish e1 o) = mx e1 /\ sent (finish e1 o) = sent e1
  end.
Proof.
  destruct o as [m effs|err effs|s]; cbn [finish].
  - destruct (apply_effs_misc effs (e1 <| mx := m |>)) as (M1 & M2 & _).
    destruct (goodbye_sent m && goodbye_received m); unfold resolve_waiting; prj; rewrite ?M1, ?M2, ?apply_effs_mx, ?apply_effs_sent; prj; auto.
  - destruct (apply_effs_misc effs e1) as (M1 & M2 & _). unfold resolve_waiting. prj.
    rewrite ?M1, ?M2, ?apply_effs_mx, ?apply_effs_sent. auto.
  - prj. auto.
Qed.

(** user and helper-task actions leave the flags and the transport alone *)
Lemma user_flags e a e' : step_opt e a = Some e' -> disp_outcome e a = None ->
  flags_of (mx e') = flags_of (mx e) /\ sent e' = sent e.
Proof.
  intros H Hd. open_step H. destruct a; cbn [disp_outcome] in Hd; try discriminate; cases; inj H; unfold flags_of, set_handle; prj; auto;
    repeat match goal with |- context [if ?b then _ else _] => destruct b end; prj; auto.
Qed.

Lemma user_cl e a e' : step_opt e a = Some e' -> disp_outcome e a = None -> cl_ok e -> cl_ok e'.
Proof.
  intros H Hd. unfold cl_ok, cl_val. open_step H.
  destruct a; cbn [disp_outcome] in Hd; try discriminate; cases; inj H; unfold set_handle; prj; auto;
    repeat match goal with |- context [if ?b then _ else _] => destruct b eqn:? end; prj; auto; try congruence;
    rewrite ?count_snoc; cbn [is_acd b2n]; try lia.
Qed.

Lemma recv_mux_flags e : flags_of (recv_mux e) = flags_of (mx e).
Proof. unfold recv_mux. destruct (listener_alive e); reflexivity. Qed.

Lemma flags_inj m m' : flags_of m' = flags_of m ->
  all_clients_dropped m' = all_clients_dropped m /\ listen_open m' = listen_open m /\ goodbye_sent m' = goodbye_sent m /\
  goodbye_received m' = goodbye_received m.
Proof. unfold flags_of. intros H. injection H. auto. Qed.

(** ** a received message *)
Lemma recv_flags e msg n e' : step_opt e (Recv msg n) = Some e' ->
  all_clients_dropped (mx e') = all_clients_dropped (mx e) /\ goodbye_sent (mx e') = goodbye_sent (mx e) /\
  goodbye_received (mx e') = goodbye_received (mx e) || m_gb msg /\ sent e' = sent e /\
  clients_alive e' = clients_alive e /\ cq e' = cq e.
Proof.
  intros H. open_step H. cbv zeta in H. fold (recv_mux e) in H. inj H.
  destruct (finish_outcome (e <| mx := recv_mux e |>) (handle_received (recv_mux e) msg n)) as (F1 & F2 & F3).
  rewrite F1, F2. prj. destruct (flags_inj _ _ (recv_mux_flags e)) as (A1 & A2 & A3 & A4).
  pose proof (hr_no_emit (recv_mux e) msg n) as Hne.
  destruct (handle_received (recv_mux e) msg n) as [m' effs|err effs|s] eqn:Hr; cbn [effs_of] in Hne; destruct F3 as [F3 F4]; rewrite F3, F4; prj.
  - destruct (hr_flags _ _ _ _ _ Hr) as (Hf & _). unfold flags_of in Hf. injection Hf as G1 G2 G3 G4.
    rewrite G1, G3, G4, A1, A3, A4, Hne, app_nil_r. auto 10.
  - rewrite A1, A3, A4, Hne, app_nil_r. assert (m_gb msg = false) as ->.
    { destruct msg; try reflexivity. cbn [handle_received] in Hr. discriminate. }
    rewrite orb_false_r. auto 10.
  - pose proof (handle_received_never_panics (recv_mux e) msg n) as Hp. rewrite Hr in Hp. contradiction.
Qed.

(** ** a dispatcher step *)
Lemma disp_flags e a e' : step_opt e a = Some e' -> is_recv a = false ->
  cnt m_gb (new_frames e e') + b2n (goodbye_sent (mx e)) = b2n (goodbye_sent (mx e')) /\
  goodbye_received (mx e') = goodbye_received (mx e) /\ (cl_ok e -> cl_ok e').
Proof.
  intros H Hr. destruct (disp_outcome e a) as [o|] eqn:Ho.
  2:{ destruct (user_flags _ _ _ H Ho) as [F1 F2]. destruct (flags_inj _ _ F1) as (A1 & A2 & A3 & A4).
      rewrite (new_frames_same _ _ F2), A3, A4. split; [reflexivity|split; [reflexivity|]]. eapply user_cl; eauto. }
  assert (Hgen : forall e1 ev,
            e' = finish e1 (handle_event (mx e) ev) -> mx e1 = mx e -> sent e1 = sent e -> clients_alive e1 = clients_alive e ->
            (is_gbe ev = true -> goodbye_sent (mx e) = false) ->
            (cl_ok e -> 1 <= (if clients_alive e then 1 else count is_acd (cq e1) + b2n (all_clients_dropped (mx e) || is_acd ev))) ->
            cnt m_gb (new_frames e e') + b2n (goodbye_sent (mx e)) = b2n (goodbye_sent (mx e')) /\
            goodbye_received (mx e') = goodbye_received (mx e) /\ (cl_ok e -> cl_ok e')).
  { intros e1 ev -> E1 E2 E3 Hg Hcl. destruct (finish_outcome e1 (handle_event (mx e) ev)) as (F1 & F2 & F3).
    unfold cl_ok, cl_val. rewrite F1, F2, E3.
    pose proof (handle_event_no_proto (mx e) ev) as Hnp.
    destruct (handle_event (mx e) ev) as [m effs|err effs|s] eqn:He; [|contradiction|].
    - destruct F3 as [F3 F4]. rewrite F3. rewrite (new_frames_app e _ (emits effs)) by (rewrite F4, E2; reflexivity).
      destruct (he_flags _ _ _ _ He) as (Hf & Hgb & _). unfold flags_of in Hf. injection Hf as G1 G2 G3 G4.
      rewrite Hgb, G1, G3, G4. split; [|split; [reflexivity|exact Hcl]].
      destruct (is_gbe ev); [rewrite (Hg eq_refl)|]; cbn [orb b2n]; rewrite ?orb_false_r; lia.
    - destruct F3 as [F3 F4]. rewrite F3, E1. rewrite (new_frames_same e _) by (rewrite F4, E2; reflexivity).
      split; [reflexivity|split; [reflexivity|]]. intros Hc. specialize (Hcl Hc).
      destruct (clients_alive e); [lia|]. assert (is_acd ev = false) as Hx by (destruct ev; try reflexivity; discriminate).
      rewrite Hx, orb_false_r in Hcl. exact Hcl. }
  open_step H. destruct a; cbn [disp_outcome] in Ho; try discriminate.
  - (* DPort *)
    destruct (negb (sending e)) eqn:Es; [discriminate|]. apply negb_false_iff in Es. unfold sending in Es. apply negb_true_iff in Es.
    destruct (chq e) as [|ev q] eqn:Eq; [discriminate|]. inj H.
    eapply Hgen; [reflexivity| | | |intros _; exact Es|]; try (destruct ev; try destruct (lookup p (handles e)); reflexivity).
    intros Hc. unfold cl_ok, cl_val in Hc.
    assert (cq (match ev with
                | ESenderDropped p => match lookup p (handles e) with Some h => set_handle (e <| chq := q |>) p (h <| h_tx := Gone |>) | None => e <| chq := q |> end
                | EReceiverDropped p => match lookup p (handles e) with Some h => set_handle (e <| chq := q |>) p (h <| h_rx := Gone |>) | None => e <| chq := q |> end
                | EReceiverClosed p => match lookup p (handles e) with Some h => set_handle (e <| chq := q |>) p (h <| h_rxc := Gone |>) | None => e <| chq := q |> end
                | EAccepted _ r | ERejected r _ => e <| chq := q |> <| requests := remove r (requests (e <| chq := q |>)) |>
                | _ => e <| chq := q |>
                end) = cq e) as -> by (destruct ev; try destruct (lookup p (handles e)); reflexivity).
    destruct (clients_alive e); [lia|]. destruct (all_clients_dropped (mx e)), (is_acd ev); cbn [orb b2n] in *; lia.
  - (* DConn *)
    destruct (negb (sending e)) eqn:Es; [discriminate|]. apply negb_false_iff in Es. unfold sending in Es. apply negb_true_iff in Es.
    destruct (cq e) as [|ev q] eqn:Eq; [discriminate|]. inj H.
    eapply Hgen; [reflexivity|reflexivity|reflexivity|reflexivity|intros _; exact Es|].
    intros Hc. unfold cl_ok, cl_val in Hc. rewrite Eq, count_cons in Hc. prj.
    destruct (clients_alive e); [lia|]. destruct (all_clients_dropped (mx e)), (is_acd ev); cbn [orb b2n] in *; lia.
  - destruct (sending e && negb (listener_alive e) && listen_open (mx e)); [|discriminate]. inj H.
    eapply Hgen; [reflexivity|reflexivity|reflexivity|reflexivity|discriminate|].
    intros Hc. unfold cl_ok, cl_val in Hc. cbn [is_acd]. rewrite orb_false_r. exact Hc.
  - destruct (negb (goodbye_sent (mx e)) && (should_terminate (mx e) || terminate_req e)) eqn:Eg; [|discriminate]. bools. inj H.
    eapply Hgen; [reflexivity|reflexivity|reflexivity|reflexivity|intros _; assumption|].
    intros Hc. unfold cl_ok, cl_val in Hc. cbn [is_acd]. rewrite orb_false_r. exact Hc.
Qed.

(** * The two invariants on the composition *)
Definition gb_ok (X Y : ep) (L : list frame) : Prop :=
  cnt m_gb L + b2n (goodbye_received (mx Y)) = b2n (goodbye_sent (mx X)).

Record Extra (n : net) : Prop := mk_Extra {
  x_cla : cl_ok (na n);
  x_clb : cl_ok (nb n);
  x_gab : gb_ok (na n) (nb n) (lab n);
  x_gba : gb_ok (nb n) (na n) (lba n)
}.

Lemma Extra_local X Y L L' a X' :
  cl_ok X -> gb_ok X Y L -> gb_ok Y X L' -> step_opt X a = Some X' -> is_recv a = false ->
  cl_ok X' /\ gb_ok X' Y (L ++ new_frames X X') /\ gb_ok Y X' L'.
Proof.
  unfold gb_ok. intros Hc G1 G2 H Hr. destruct (disp_flags _ _ _ H Hr) as (D1 & D2 & D3).
  split; [auto|split]; rewrite ?cnt_app, ?D2; lia.
Qed.

Lemma Extra_recv X Y L0 L' msg pl Y' :
  cl_ok Y -> gb_ok X Y ((msg, pl) :: L0) -> gb_ok Y X L' -> step_opt Y (Recv msg (paylen_of pl)) = Some Y' ->
  cl_ok Y' /\ gb_ok X Y' L0 /\ gb_ok Y' X L'.
Proof.
  unfold gb_ok, cl_ok, cl_val. intros Hc G1 G2 H. destruct (recv_flags _ _ _ _ H) as (R1 & R2 & R3 & R4 & R5 & R6).
  rewrite R1, R2, R3, R5, R6. rewrite cnt_cons in G1. cbn [fst] in G1.
  split; [exact Hc|split; [|exact G2]].
  pose proof (b2n_le1 (goodbye_sent (mx X))). destruct (m_gb msg), (goodbye_received (mx Y)); cbn [orb b2n] in *; lia.
Qed.

Lemma Extra_step n a : Extra n -> Extra (nstep n a).
Proof.
  intros [C1 C2 G1 G2]. destruct a as [[|] a|[|]]; cbn [nstep].
  - destruct (is_recv a) eqn:Er; [constructor; auto|]. destruct (step_opt (na n) a) as [e'|] eqn:E.
    + assert (step (na n) a = e') as -> by (unfold step; now rewrite E).
      destruct (Extra_local _ _ _ _ _ _ C1 G1 G2 E Er) as (A1 & A2 & A3). constructor; cbn [na nb lab lba set RecordSet.set]; auto.
    + assert (step (na n) a = na n) as -> by (unfold step; now rewrite E). unfold new_frames. rewrite skipn_all, app_nil_r.
      constructor; cbn [na nb lab lba set RecordSet.set]; auto.
  - destruct (is_recv a) eqn:Er; [constructor; auto|]. destruct (step_opt (nb n) a) as [e'|] eqn:E.
    + assert (step (nb n) a = e') as -> by (unfold step; now rewrite E).
      destruct (Extra_local _ _ _ _ _ _ C2 G2 G1 E Er) as (A1 & A2 & A3). constructor; cbn [na nb lab lba set RecordSet.set]; auto.
    + assert (step (nb n) a = nb n) as -> by (unfold step; now rewrite E). unfold new_frames. rewrite skipn_all, app_nil_r.
      constructor; cbn [na nb lab lba set RecordSet.set]; auto.
  - destruct (lab n) as [|[m pl] l] eqn:El; [constructor; auto; now rewrite El|].
    destruct (step_opt (nb n) (Recv m (paylen_of pl))) as [b'|] eqn:E; [|constructor; auto; now rewrite El].
    destruct (Extra_recv _ _ _ _ _ _ _ C2 G1 G2 E) as (A1 & A2 & A3). constructor; cbn [na nb lab lba set RecordSet.set]; auto.
  - destruct (lba n) as [|[m pl] l] eqn:El; [constructor; auto; now rewrite El|].
    destruct (step_opt (na n) (Recv m (paylen_of pl))) as [a'|] eqn:E; [|constructor; auto; now rewrite El].
    destruct (Extra_recv _ _ _ _ _ _ _ C1 G2 G1 E) as (A1 & A2 & A3). constructor; cbn [na nb lab lba set RecordSet.set]; auto.
Qed.

Lemma Extra_init c : Extra (net_init c).
Proof. constructor; unfold cl_ok, cl_val, gb_ok, net_init; cbn; lia. Qed.

Lemma Extra_run acts : forall n, Extra n -> Extra (nrun acts n).
Proof. induction acts as [|a acts IH]; intros n H; cbn [nrun fold_left]; [exact H|]. apply IH. now apply Extra_step. Qed.

Theorem Extra_reach c acts : Extra (nreach c acts).
Proof. apply Extra_run, Extra_init. Qed.

Theorem markers_reach c acts :
  let n := nreach c acts in
  (clients_alive (na n) = false -> 1 <= count is_acd (cq (na n)) + b2n (all_clients_dropped (mx (na n)))) /\
  (clients_alive (nb n) = false -> 1 <= count is_acd (cq (nb n)) + b2n (all_clients_dropped (mx (nb n)))) /\
  cnt m_gb (lab n) + b2n (goodbye_received (mx (nb n))) = b2n (goodbye_sent (mx (na n))) /\
  cnt m_gb (lba n) + b2n (goodbye_received (mx (na n))) = b2n (goodbye_sent (mx (nb n))).
Proof.
  intros n. destruct (Extra_reach c acts) as [C1 C2 G1 G2]. fold n in C1, C2, G1, G2.
  unfold cl_ok, cl_val in C1, C2. repeat split; auto; intros E; rewrite E in *; assumption.
Qed.
