(** Proofs about the wire codec. *)
From Remoc Require Import Lib.Base Gen.Consts Chmux.Wire Chmux.Spec3.

#[global] Arguments le : simpl never.
#[global] Arguments rd : simpl never.

(** evaluate closed comparisons *)
Ltac ceval :=
  repeat match goal with
  | |- context [N.eqb ?a ?b] =>
      let v := eval vm_compute in (N.eqb a b) in
      match v with true => idtac | false => idtac end;
      change (N.eqb a b) with v
  end.

(** ** little-endian integers *)
Lemma le_S k x : le (S k) x = x mod 256 :: le k (x / 256).
Proof. reflexivity. Qed.

Lemma le_length k x : length (le k x) = k.
Proof. revert x; induction k as [|k IH]; intros x; [reflexivity|]. rewrite le_S. cbn [length]. now rewrite IH. Qed.

Lemma le_bytes_ok k x : bytes_ok (le k x) = true.
Proof.
  revert x; induction k as [|k IH]; intros x; [reflexivity|].
  rewrite le_S. unfold bytes_ok in *. cbn [forallb]. rewrite IH.
  unfold is_byte. rewrite andb_true_r. apply N.ltb_lt. apply N.mod_lt. lia.
Qed.

Lemma le_val_le k x : x < 256 ^ N.of_nat k -> le_val (le k x) = x.
Proof.
  revert x; induction k as [|k IH]; intros x Hx.
  - change (256 ^ N.of_nat 0) with 1 in Hx. change (le 0 x) with (@nil N). cbn [le_val]. lia.
  - rewrite le_S. cbn [le_val]. rewrite IH.
    + pose proof (N.div_mod x 256). lia.
    + replace (N.of_nat (S k)) with (N.succ (N.of_nat k)) in Hx by lia.
      rewrite N.pow_succ_r' in Hx. apply N.div_lt_upper_bound; lia.
Qed.

Lemma firstn_app_exact {A} (l1 l2 : list A) k : length l1 = k -> firstn k (l1 ++ l2) = l1.
Proof. intros <-. rewrite firstn_app, Nat.sub_diag, firstn_all. cbn. now rewrite app_nil_r. Qed.
Lemma skipn_app_exact {A} (l1 l2 : list A) k : length l1 = k -> skipn k (l1 ++ l2) = l2.
Proof. intros <-. rewrite skipn_app, Nat.sub_diag, skipn_all. reflexivity. Qed.

Lemma rd_le k x r : x < 256 ^ N.of_nat k -> rd k (le k x ++ r) = Some (x, r).
Proof.
  intros Hx. unfold rd. rewrite app_length, le_length.
  destruct (Nat.ltb_spec (k + length r) k) as [H|H]; [lia|].
  rewrite firstn_app_exact, skipn_app_exact by apply le_length. now rewrite le_val_le.
Qed.

Lemma rd1 x r : u8 x = true -> rd 1 (x :: r) = Some (x, r).
Proof. intros H. unfold u8 in H. unfold rd. cbn. f_equal. f_equal. lia. Qed.
Lemma rd2_le x r : u16 x = true -> rd 2 (le 2 x ++ r) = Some (x, r).
Proof. intros H. apply rd_le. unfold u16 in H. change (256 ^ N.of_nat 2) with 65536. lia. Qed.
Lemma rd4_le x r : u32 x = true -> rd 4 (le 4 x ++ r) = Some (x, r).
Proof. intros H. apply rd_le. unfold u32 in H. change (256 ^ N.of_nat 4) with 4294967296. lia. Qed.
Lemma rd8_le x r : u64 x = true -> rd 8 (le 8 x ++ r) = Some (x, r).
Proof. intros H. apply rd_le. unfold u64 in H. change (256 ^ N.of_nat 8) with 18446744073709551616. lia. Qed.
Lemma rd4_le_nil x : u32 x = true -> rd 4 (le 4 x) = Some (x, []).
Proof. intros H. rewrite <- (app_nil_r (le 4 x)). now apply rd4_le. Qed.

Lemma rd_short k bs : (length bs < k)%nat -> rd k bs = None.
Proof. intros H. unfold rd. destruct (Nat.ltb_spec (length bs) k); [reflexivity|lia]. Qed.

Lemma rd_some k bs x r : rd k bs = Some (x, r) -> (k <= length bs)%nat /\ r = skipn k bs /\ x = le_val (firstn k bs).
Proof. unfold rd. destruct (Nat.ltb_spec (length bs) k); [discriminate|]. intros [= <- <-]. auto. Qed.

Lemma le_val_bound bs : bytes_ok bs = true -> le_val bs < 256 ^ N.of_nat (length bs).
Proof.
  induction bs as [|b bs IH]; intros H.
  - cbn. lia.
  - unfold bytes_ok in *. cbn [forallb] in H. apply andb_true_iff in H as [Hb Hbs]. unfold is_byte in Hb.
    specialize (IH Hbs). cbn [le_val length]. replace (N.of_nat (S (length bs))) with (N.succ (N.of_nat (length bs))) by lia.
    rewrite N.pow_succ_r'. lia.
Qed.

Lemma le_le_val bs : bytes_ok bs = true -> le (length bs) (le_val bs) = bs.
Proof.
  induction bs as [|b bs IH]; intros H; [reflexivity|].
  unfold bytes_ok in *. cbn [forallb] in H. apply andb_true_iff in H as [Hb Hbs]. unfold is_byte in Hb.
  cbn [length le_val]. rewrite le_S. f_equal.
  - rewrite (N.mul_comm 256), N.mod_add by lia. apply N.mod_small. lia.
  - rewrite (N.mul_comm 256), N.div_add by lia.
    rewrite N.div_small by lia. rewrite N.add_0_l. exact (IH Hbs).
Qed.

Lemma bytes_ok_app a b : bytes_ok (a ++ b) = bytes_ok a && bytes_ok b.
Proof. unfold bytes_ok. apply forallb_app. Qed.

Lemma bytes_ok_firstn k bs : bytes_ok bs = true -> bytes_ok (firstn k bs) = true.
Proof.
  unfold bytes_ok. rewrite !forallb_forall. intros H x Hx. apply H.
  rewrite <- (firstn_skipn k bs). apply in_or_app. now left.
Qed.
Lemma bytes_ok_skipn k bs : bytes_ok bs = true -> bytes_ok (skipn k bs) = true.
Proof.
  unfold bytes_ok. rewrite !forallb_forall. intros H x Hx. apply H.
  rewrite <- (firstn_skipn k bs). apply in_or_app. now right.
Qed.

(** reading from well-formed bytes yields a value in range and leaves well-formed bytes *)
Lemma rd_ok k bs x r : bytes_ok bs = true -> rd k bs = Some (x, r) ->
  x < 256 ^ N.of_nat k /\ bytes_ok r = true /\ (length r + k = length bs)%nat.
Proof.
  intros Hb H. apply rd_some in H as (Hk & -> & ->). split; [|split].
  - pose proof (le_val_bound (firstn k bs) (bytes_ok_firstn _ _ Hb)) as HB.
    rewrite firstn_length, Nat.min_l in HB by lia. exact HB.
  - now apply bytes_ok_skipn.
  - rewrite skipn_length. lia.
Qed.

Lemma rd_ok1 bs x r : bytes_ok bs = true -> rd 1 bs = Some (x, r) -> u8 x = true /\ bytes_ok r = true.
Proof. intros Hb H. destruct (rd_ok _ _ _ _ Hb H) as (Hx & Hr & _). change (256 ^ N.of_nat 1) with 256 in Hx. unfold u8. split; [lia|auto]. Qed.
Lemma rd_ok2 bs x r : bytes_ok bs = true -> rd 2 bs = Some (x, r) -> u16 x = true /\ bytes_ok r = true.
Proof. intros Hb H. destruct (rd_ok _ _ _ _ Hb H) as (Hx & Hr & _). change (256 ^ N.of_nat 2) with 65536 in Hx. unfold u16. split; [lia|auto]. Qed.
Lemma rd_ok4 bs x r : bytes_ok bs = true -> rd 4 bs = Some (x, r) -> u32 x = true /\ bytes_ok r = true.
Proof. intros Hb H. destruct (rd_ok _ _ _ _ Hb H) as (Hx & Hr & _). change (256 ^ N.of_nat 4) with 4294967296 in Hx. unfold u32. split; [lia|auto]. Qed.
Lemma rd_ok8 bs x r : bytes_ok bs = true -> rd 8 bs = Some (x, r) -> u64 x = true /\ bytes_ok r = true.
Proof. intros Hb H. destruct (rd_ok _ _ _ _ Hb H) as (Hx & Hr & _). change (256 ^ N.of_nat 8) with 18446744073709551616 in Hx. unfold u64. split; [lia|auto]. Qed.

(** ** generated constants agree with the version-3 table *)
Lemma codes_match :
  all_codes = Spec3.codes /\ MAGIC = Spec3.magic /\ PROTOCOL_VERSION = 3 /\
  PROTOCOL_VERSION_PORT_ID = Spec3.first_version_with_ids /\
  (MSG_OPEN_PORT_FLAG_WAIT, MSG_OPEN_PORT_FLAG_ID) = (1, 2) /\
  MSG_REJECTED_FLAG_NO_PORTS = 1 /\
  (MSG_DATA_FLAG_FIRST, MSG_DATA_FLAG_LAST) = (1, 2) /\
  (MSG_PORT_DATA_FLAG_FIRST, MSG_PORT_DATA_FLAG_LAST, MSG_PORT_DATA_FLAG_WAIT, MSG_PORT_DATA_FLAG_IDS) = (1, 2, 4, 8) /\
  MAX_MSG_LENGTH = 16 /\
  (XCFG_MIN_CHUNK_SIZE, XCFG_MIN_RECEIVE_BUFFER, XCFG_MIN_CONNECT_QUEUE) = (4, 4, 1).
Proof. repeat split; reflexivity. Qed.

(** ** the encoder produces the version-3 layout *)
Lemma le1_small x : u8 x = true -> le 1 x = [x].
Proof. intros H. unfold u8 in H. unfold le. f_equal. apply N.mod_small. lia. Qed.

Lemma enc_ports_layout ports : enc_ports ports = render (map F32 ports).
Proof. induction ports as [|p r IH]; [reflexivity|]. cbn [enc_ports map]. unfold render in *. cbn [flat_map render_field]. now rewrite IH. Qed.

Lemma enc_ports_ids_layout ports ids : enc_ports_ids ports ids = render (interleave ports ids).
Proof.
  revert ids; induction ports as [|p r IH]; intros [|i ri]; try reflexivity.
  cbn [enc_ports_ids interleave]. unfold render in *. cbn [flat_map render_field]. rewrite IH. now rewrite app_assoc.
Qed.

Lemma render_app a b : render (a ++ b) = render a ++ render b.
Proof. unfold render. apply flat_map_app. Qed.

Lemma timeout_millis_wire t : timeout_millis t = wire_timeout t.
Proof.
  unfold timeout_millis, wire_timeout, NS_PER_MS, U64_MAX. destruct t as [ns|]; [|reflexivity].
  cbv zeta. destruct (N.ltb_spec (ns / 1000000) 1); [lia|].
  destruct (N.ltb_spec (ns / 1000000) 18446744073709551615); lia.
Qed.

Theorem enc_layout3 m : wf m = true -> enc m = Some (render (layout3 m)).
Proof.
  destruct m as [|v c| |p w id|c s|c np|p f l|p f l w ports ids|p c|p|p|p| | |]; cbn [wf]; intros H; try reflexivity.
  - (* Hello *) apply andb_true_iff in H as [Hv _].
    unfold enc, layout3, render, enc_cfg. cbn [flat_map render_field]. rewrite (le1_small v Hv), timeout_millis_wire, app_nil_r.
    reflexivity.
  - (* OpenPort *) destruct w, id; reflexivity.
  - (* Rejected *) destruct np; reflexivity.
  - (* Data *) destruct f, l; reflexivity.
  - (* PortData *)
    destruct ids as [is|].
    + apply andb_true_iff in H as [_ H]. apply andb_true_iff in H as [_ H].
      unfold enc. rewrite H. unfold layout3. rewrite render_app, <- enc_ports_ids_layout.
      destruct f, l, w; reflexivity.
    + unfold enc, layout3. rewrite render_app, <- enc_ports_layout. destruct f, l, w; reflexivity.
Qed.

(** ** decoder after encoder *)
Ltac hasval :=
  repeat match goal with
  | |- context [has ?a ?b] => let v := eval vm_compute in (has a b) in change (has a b) with v
  end.
Ltac flagval :=
  match goal with
  | |- context [rd 1 (?f :: ?r)] => let v := eval vm_compute in f in change f with v
  end.

Lemma dec_ports_enc_noid ports fuel :
  forallb u32 ports = true -> (length (enc_ports ports) < fuel)%nat ->
  dec_ports fuel false (enc_ports ports) = POk ports [].
Proof.
  revert fuel; induction ports as [|p r IH]; intros fuel Hp Hf.
  - destruct fuel; [cbn in Hf; lia|]. reflexivity.
  - cbn [forallb] in Hp. apply andb_true_iff in Hp as [Hp Hr]. cbn [enc_ports] in *.
    rewrite app_length, le_length in Hf. destruct fuel as [|fuel]; [lia|].
    cbn [dec_ports]. rewrite rd4_le by assumption. rewrite IH by (auto; lia). reflexivity.
Qed.

Lemma dec_ports_enc_ids ports ids fuel :
  forallb u32 ports = true -> forallb u32 ids = true -> length ports = length ids ->
  (length (enc_ports_ids ports ids) < fuel)%nat ->
  dec_ports fuel true (enc_ports_ids ports ids) = POk ports ids.
Proof.
  revert ids fuel; induction ports as [|p r IH]; intros [|i ri] fuel Hp Hi Hl Hf; try discriminate.
  - destruct fuel; [cbn in Hf; lia|]. reflexivity.
  - cbn [forallb] in Hp, Hi. apply andb_true_iff in Hp as [Hp Hr]. apply andb_true_iff in Hi as [Hi Hri].
    cbn [enc_ports_ids] in *. rewrite !app_length, !le_length in Hf. destruct fuel as [|fuel]; [lia|].
    cbn [dec_ports]. rewrite rd4_le by assumption. rewrite rd4_le by assumption.
    rewrite IH; auto; cbn [length] in Hl; lia.
Qed.

(** what the decoder makes of an encoded configuration: the timeout truncated to whole
    milliseconds, and "none" if that is zero *)
Definition exchanged (c : xcfg) : xcfg :=
  {| x_timeout := let ms := timeout_millis (x_timeout c) in if ms =? 0 then None else Some (ms * NS_PER_MS);
     x_chunk := x_chunk c; x_buffer := x_buffer c; x_queue := x_queue c |}.

Lemma dec_cfg_enc c r :
  wf_cfg c = true ->
  dec_cfg (enc_cfg c ++ r) =
    if x_chunk c <? XCFG_MIN_CHUNK_SIZE then CInvalid
    else if x_buffer c <? XCFG_MIN_RECEIVE_BUFFER then CInvalid
    else if x_queue c <? XCFG_MIN_CONNECT_QUEUE then CInvalid
    else COk (exchanged c).
Proof.
  unfold wf_cfg. intros H. apply andb_true_iff in H as [H Hq]. apply andb_true_iff in H as [Hc Hb].
  unfold dec_cfg, enc_cfg. rewrite <- !app_assoc.
  rewrite rd8_le.
  2:{ unfold u64, timeout_millis, U64_MAX. destruct (x_timeout c); lia. }
  rewrite rd4_le by assumption. destruct (x_chunk c <? XCFG_MIN_CHUNK_SIZE); [reflexivity|].
  rewrite rd4_le by assumption. destruct (x_buffer c <? XCFG_MIN_RECEIVE_BUFFER); [reflexivity|].
  rewrite rd2_le by assumption. destruct (x_queue c <? XCFG_MIN_CONNECT_QUEUE); reflexivity.
Qed.

Lemma exchanged_exact c : exact_cfg c = true -> exchanged c = c.
Proof.
  unfold exact_cfg. intros H. repeat (apply andb_true_iff in H as [H ?]).
  destruct c as [t cs b q]. unfold exchanged. cbn [x_timeout x_chunk x_buffer x_queue] in *. f_equal.
  destruct t as [ns|]; [|reflexivity].
  repeat match goal with H : _ && _ = true |- _ => apply andb_true_iff in H as [H ?] end.
  unfold timeout_millis, NS_PER_MS, U64_MAX in *.
  assert (E : N.max 1 (N.min (ns / 1000000) 18446744073709551615) = ns / 1000000) by lia. rewrite E.
  destruct (N.eqb_spec (ns / 1000000) 0) as [E0|E0]; [lia|]. f_equal. lia.
Qed.

Theorem hello_exchange v c :
  u8 v = true -> wf_cfg c = true ->
  XCFG_MIN_CHUNK_SIZE <= x_chunk c -> XCFG_MIN_RECEIVE_BUFFER <= x_buffer c -> XCFG_MIN_CONNECT_QUEUE <= x_queue c ->
  exists bs, enc (Hello v c) = Some bs /\ dec bs = DOk (Hello v (exchanged c)).
Proof.
  intros Hv Hc H1 H2 H3. eexists. split; [reflexivity|].
  unfold dec. ceval. unfold MAGIC. cbn [app length Nat.ltb Nat.leb firstn skipn combine forallb fst snd]. ceval.
  cbn [andb negb]. rewrite rd1 by assumption. rewrite <- (app_nil_r (enc_cfg c)). rewrite dec_cfg_enc by assumption.
  - destruct (N.ltb_spec (x_chunk c) XCFG_MIN_CHUNK_SIZE); [lia|].
    destruct (N.ltb_spec (x_buffer c) XCFG_MIN_RECEIVE_BUFFER); [lia|].
    destruct (N.ltb_spec (x_queue c) XCFG_MIN_CONNECT_QUEUE); [lia|]. reflexivity.
Qed.

Theorem dec_enc m : wf m = true -> exists bs, enc m = Some bs /\ dec bs = DOk m.
Proof.
  destruct m as [|v c| |p w id|c s|c np|p f l|p f l w ports ids|p c|p|p|p| | |]; cbn [wf]; intros H;
    try (eexists; split; reflexivity).
  - (* Hello *)
    apply andb_true_iff in H as [Hv Hc]. pose proof Hc as Hex. unfold exact_cfg in Hc.
    apply andb_true_iff in Hc as [Hc _]. apply andb_true_iff in Hc as [Hc H3].
    apply andb_true_iff in Hc as [Hc H2]. apply andb_true_iff in Hc as [Hc H1].
    destruct (hello_exchange v c Hv Hc ltac:(lia) ltac:(lia) ltac:(lia)) as (bs & E & D).
    exists bs. split; [exact E|]. rewrite D. now rewrite exchanged_exact.
  - (* OpenPort *)
    apply andb_true_iff in H as [Hp Hi]. eexists. split; [reflexivity|].
    unfold dec. ceval. rewrite rd4_le by assumption.
    destruct w, id as [i|]; cbn [flag app]; flagval; rewrite rd1 by reflexivity; cbv beta iota; hasval; cbv iota;
      try rewrite rd4_le_nil by assumption; reflexivity.
  - (* PortOpened *)
    apply andb_true_iff in H as [Hc Hs]. eexists. split; [reflexivity|].
    unfold dec. ceval. rewrite rd4_le by assumption. rewrite rd4_le_nil by assumption. reflexivity.
  - (* Rejected *)
    eexists. split; [reflexivity|]. unfold dec. ceval. rewrite rd4_le by assumption.
    destruct np; cbn [flag]; flagval; rewrite rd1 by reflexivity; hasval; reflexivity.
  - (* Data *)
    eexists. split; [reflexivity|]. unfold dec. ceval. rewrite rd4_le by assumption.
    destruct f, l; cbn [flag]; flagval; rewrite rd1 by reflexivity; hasval; reflexivity.
  - (* PortData *)
    apply andb_true_iff in H as [H Hids]. apply andb_true_iff in H as [Hp Hports].
    destruct ids as [is|].
    + apply andb_true_iff in Hids as [His Hlen]. unfold enc. rewrite Hlen. apply Nat.eqb_eq in Hlen.
      eexists. split; [reflexivity|]. unfold dec. ceval. rewrite rd4_le by assumption.
      destruct f, l, w; cbn [flag app]; flagval; rewrite rd1 by reflexivity; cbv beta iota zeta; hasval; cbv iota;
        rewrite dec_ports_enc_ids by (auto; lia); reflexivity.
    + eexists. split; [reflexivity|]. unfold dec. ceval. rewrite rd4_le by assumption.
      destruct f, l, w; cbn [flag app]; flagval; rewrite rd1 by reflexivity; cbv beta iota zeta; hasval; cbv iota;
        rewrite dec_ports_enc_noid by (auto; lia); reflexivity.
  - (* PortCredits *)
    apply andb_true_iff in H as [Hp Hc]. eexists. split; [reflexivity|].
    unfold dec. ceval. rewrite rd4_le by assumption. rewrite rd4_le_nil by assumption. reflexivity.
  - eexists. split; [reflexivity|]. unfold dec, on_port. ceval. rewrite rd4_le_nil by assumption. reflexivity.
  - eexists. split; [reflexivity|]. unfold dec, on_port. ceval. rewrite rd4_le_nil by assumption. reflexivity.
  - eexists. split; [reflexivity|]. unfold dec, on_port. ceval. rewrite rd4_le_nil by assumption. reflexivity.
Qed.

(** ** totality: the fuel of the port loop is never exhausted *)
Lemma dec_ports_no_fuel fuel ids bs : (length bs < fuel)%nat -> dec_ports fuel ids bs <> PFuel.
Proof.
  revert bs; induction fuel as [|fuel IH]; intros bs Hf; [lia|].
  cbn [dec_ports]. destruct (rd 4 bs) as [[p r]|] eqn:E; [|discriminate].
  apply rd_some in E as (Hk & -> & _).
  destruct ids.
  - destruct (rd 4 (skipn 4 bs)) as [[i r']|] eqn:E2; [|discriminate].
    apply rd_some in E2 as (Hk2 & -> & _).
    specialize (IH (skipn 4 (skipn 4 bs))). rewrite !skipn_length in IH, Hk2.
    destruct (dec_ports fuel true (skipn 4 (skipn 4 bs))); try discriminate. apply IH. rewrite skipn_length. lia.
  - specialize (IH (skipn 4 bs)). rewrite skipn_length in IH.
    destruct (dec_ports fuel false (skipn 4 bs)); try discriminate. apply IH. lia.
Qed.

Theorem dec_no_fuel bs : dec bs <> DFuel.
Proof.
  unfold dec, on_port. destruct bs as [|c r]; [discriminate|].
  repeat match goal with
  | |- (if ?b then _ else _) <> _ => destruct b
  | |- match rd ?k ?x with _ => _ end <> _ => destruct (rd k x) as [[? ?]|]
  | |- match dec_cfg ?x with _ => _ end <> _ => destruct (dec_cfg x)
  | |- _ => discriminate
  end.
  match goal with |- context [dec_ports (S (length ?l)) ?i ?l] =>
    pose proof (dec_ports_no_fuel (S (length l)) i l ltac:(lia)); destruct (dec_ports (S (length l)) i l) end;
  congruence.
Qed.

(** ** what the decoder accepts is well-formed (on byte strings) *)
Lemma dec_ports_wf fuel ids bs ps is :
  bytes_ok bs = true -> dec_ports fuel ids bs = POk ps is ->
  forallb u32 ps = true /\ forallb u32 is = true /\ (if ids then length ps = length is else is = []).
Proof.
  revert bs ps is; induction fuel as [|fuel IH]; intros bs ps is Hb H; [discriminate|].
  cbn [dec_ports] in H. destruct (rd 4 bs) as [[p r]|] eqn:E.
  2:{ injection H as <- <-. destruct ids; auto. }
  destruct (rd_ok4 _ _ _ Hb E) as [Hp Hr].
  destruct ids.
  - destruct (rd 4 r) as [[i r']|] eqn:E2; [|discriminate].
    destruct (rd_ok4 _ _ _ Hr E2) as [Hi Hr'].
    destruct (dec_ports fuel true r') as [ps' is'| |] eqn:E3; try discriminate.
    injection H as <- <-. destruct (IH _ _ _ Hr' E3) as (A & B & C).
    cbn [forallb length]. rewrite Hp, Hi, A, B. auto.
  - destruct (dec_ports fuel false r) as [ps' is'| |] eqn:E3; try discriminate.
    injection H as <- <-. destruct (IH _ _ _ Hr E3) as (A & B & C).
    cbn [forallb]. rewrite Hp, A, B. auto.
Qed.

Lemma dec_cfg_wf bs c : bytes_ok bs = true -> dec_cfg bs = COk c -> exact_cfg c = true.
Proof.
  intros Hb H. unfold dec_cfg in H.
  destruct (rd 8 bs) as [[ms r1]|] eqn:E1; [|discriminate]. destruct (rd_ok8 _ _ _ Hb E1) as [Hms H1].
  destruct (rd 4 r1) as [[cs r2]|] eqn:E2; [|discriminate]. destruct (rd_ok4 _ _ _ H1 E2) as [Hcs H2].
  destruct (N.ltb_spec cs XCFG_MIN_CHUNK_SIZE) as [|Lc]; [discriminate|].
  destruct (rd 4 r2) as [[prb r3]|] eqn:E3; [|discriminate]. destruct (rd_ok4 _ _ _ H2 E3) as [Hprb H3].
  destruct (N.ltb_spec prb XCFG_MIN_RECEIVE_BUFFER) as [|Lb]; [discriminate|].
  destruct (rd 2 r3) as [[cq r4]|] eqn:E4; [|discriminate]. destruct (rd_ok2 _ _ _ H3 E4) as [Hcq H4].
  destruct (N.ltb_spec cq XCFG_MIN_CONNECT_QUEUE) as [|Lq]; [discriminate|].
  injection H as <-. unfold exact_cfg, wf_cfg. cbn [x_timeout x_chunk x_buffer x_queue].
  rewrite Hcs, Hprb, Hcq. cbn [andb].
  replace (XCFG_MIN_CHUNK_SIZE <=? cs) with true by lia.
  replace (XCFG_MIN_RECEIVE_BUFFER <=? prb) with true by lia.
  replace (XCFG_MIN_CONNECT_QUEUE <=? cq) with true by lia. cbn [andb].
  destruct (N.eqb_spec ms 0) as [E0|E0]; [reflexivity|].
  unfold NS_PER_MS, U64_MAX, u64 in *. rewrite N.mod_mul by lia. rewrite N.div_mul by lia.
  replace (0 =? 0) with true by reflexivity. cbn [andb]. apply andb_true_iff. split; lia.
Qed.

Theorem dec_wf bs m : bytes_ok bs = true -> dec bs = DOk m -> wf m = true.
Proof.
  intros Hb H. unfold dec, on_port in H. destruct bs as [|c r]; [discriminate|].
  unfold bytes_ok in Hb. cbn [forallb] in Hb. apply andb_true_iff in Hb as [Hc Hr]. fold (bytes_ok r) in Hr.
  repeat match type of H with
  | (if ?b then _ else _) = _ => destruct b eqn:?
  end; try (injection H as <-; reflexivity); try discriminate.
  - (* Hello *)
    destruct (rd 1 _) as [[v r']|] eqn:E1; [|discriminate].
    pose proof (bytes_ok_skipn (length MAGIC) r Hr) as Hs. destruct (rd_ok1 _ _ _ Hs E1) as [Hv Hr'].
    destruct (dec_cfg r') as [cfg| |] eqn:E2; try discriminate. injection H as <-.
    cbn [wf]. rewrite Hv. now rewrite (dec_cfg_wf _ _ Hr' E2).
  - (* OpenPort with id *)
    destruct (rd 4 r) as [[p r1]|] eqn:E1; [|discriminate]. destruct (rd_ok4 _ _ _ Hr E1) as [Hp H1].
    destruct (rd 1 r1) as [[fl r2]|] eqn:E2; [|discriminate]. destruct (rd_ok1 _ _ _ H1 E2) as [Hf H2].
    destruct (has fl MSG_OPEN_PORT_FLAG_ID).
    + destruct (rd 4 r2) as [[i r3]|] eqn:E3; [|discriminate]. destruct (rd_ok4 _ _ _ H2 E3) as [Hi H3].
      injection H as <-. cbn [wf]. now rewrite Hp, Hi.
    + injection H as <-. cbn [wf]. now rewrite Hp.
  - (* PortOpened *)
    destruct (rd 4 r) as [[p r1]|] eqn:E1; [|discriminate]. destruct (rd_ok4 _ _ _ Hr E1) as [Hp H1].
    destruct (rd 4 r1) as [[s r2]|] eqn:E2; [|discriminate]. destruct (rd_ok4 _ _ _ H1 E2) as [Hs H2].
    injection H as <-. cbn [wf]. now rewrite Hp, Hs.
  - (* Rejected *)
    destruct (rd 4 r) as [[p r1]|] eqn:E1; [|discriminate]. destruct (rd_ok4 _ _ _ Hr E1) as [Hp H1].
    destruct (rd 1 r1) as [[fl r2]|] eqn:E2; [|discriminate].
    injection H as <-. cbn [wf]. now rewrite Hp.
  - (* Data *)
    destruct (rd 4 r) as [[p r1]|] eqn:E1; [|discriminate]. destruct (rd_ok4 _ _ _ Hr E1) as [Hp H1].
    destruct (rd 1 r1) as [[fl r2]|] eqn:E2; [|discriminate].
    injection H as <-. cbn [wf]. now rewrite Hp.
  - (* PortData *)
    destruct (rd 4 r) as [[p r1]|] eqn:E1; [|discriminate]. destruct (rd_ok4 _ _ _ Hr E1) as [Hp H1].
    destruct (rd 1 r1) as [[fl r2]|] eqn:E2; [|discriminate]. destruct (rd_ok1 _ _ _ H1 E2) as [Hf H2].
    cbv zeta in H.
    destruct (dec_ports (S (length r2)) (has fl MSG_PORT_DATA_FLAG_IDS) r2) as [ps is| |] eqn:E3; try discriminate.
    injection H as <-. destruct (dec_ports_wf _ _ _ _ _ H2 E3) as (A & B & C).
    cbn [wf]. rewrite Hp, A. cbn [andb]. destruct (has fl MSG_PORT_DATA_FLAG_IDS); [|reflexivity].
    rewrite B, C. cbn [andb]. apply Nat.eqb_refl.
  - (* PortCredits *)
    destruct (rd 4 r) as [[p r1]|] eqn:E1; [|discriminate]. destruct (rd_ok4 _ _ _ Hr E1) as [Hp H1].
    destruct (rd 4 r1) as [[s r2]|] eqn:E2; [|discriminate]. destruct (rd_ok4 _ _ _ H1 E2) as [Hs H2].
    injection H as <-. cbn [wf]. now rewrite Hp, Hs.
  - destruct (rd 4 r) as [[p r1]|] eqn:E1; [|discriminate]. destruct (rd_ok4 _ _ _ Hr E1) as [Hp H1].
    injection H as <-. exact Hp.
  - destruct (rd 4 r) as [[p r1]|] eqn:E1; [|discriminate]. destruct (rd_ok4 _ _ _ Hr E1) as [Hp H1].
    injection H as <-. exact Hp.
  - destruct (rd 4 r) as [[p r1]|] eqn:E1; [|discriminate]. destruct (rd_ok4 _ _ _ Hr E1) as [Hp H1].
    injection H as <-. exact Hp.
Qed.

(** every accepted byte string decodes to a message whose own encoding decodes to the same
    message: the decoder is a retraction onto the canonical encodings. *)
Theorem dec_canonical bs m :
  bytes_ok bs = true -> dec bs = DOk m -> exists bs', enc m = Some bs' /\ dec bs' = DOk m.
Proof. intros Hb H. apply dec_enc. eapply dec_wf; eauto. Qed.

(** the encoder emits bytes *)
Lemma enc_ports_bytes ps : bytes_ok (enc_ports ps) = true.
Proof. induction ps as [|p r IH]; [reflexivity|]. cbn [enc_ports]. now rewrite bytes_ok_app, le_bytes_ok. Qed.
Lemma enc_ports_ids_bytes ps is : bytes_ok (enc_ports_ids ps is) = true.
Proof. revert is; induction ps as [|p r IH]; intros [|i ri]; try reflexivity. cbn [enc_ports_ids]. now rewrite !bytes_ok_app, !le_bytes_ok, IH. Qed.

Lemma bytes_ok_cons x l : bytes_ok (x :: l) = is_byte x && bytes_ok l.
Proof. reflexivity. Qed.
Lemma bytes_ok_nil : bytes_ok [] = true.
Proof. reflexivity. Qed.

Ltac bok := repeat (rewrite ?bytes_ok_cons, ?bytes_ok_app, ?le_bytes_ok, ?enc_ports_bytes, ?enc_ports_ids_bytes, ?bytes_ok_nil).

Opaque le.
Theorem enc_bytes m bs : wf m = true -> enc m = Some bs -> bytes_ok bs = true.
Proof.
  intros Hw H.
  destruct m as [|v c| |p w id|c s|c np|p f l|p f l w ports ids|p c|p|p|p| | |]; unfold enc in H;
    try (injection H as <-; bok; reflexivity).
  - (* Hello *) injection H as <-. cbn [wf] in Hw. apply andb_true_iff in Hw as [Hv _].
    unfold MAGIC, enc_cfg. bok. unfold is_byte at 8. unfold u8 in Hv. rewrite Hv. reflexivity.
  - (* OpenPort *) injection H as <-. destruct w, id; bok; reflexivity.
  - (* Rejected *) injection H as <-. destruct np; bok; reflexivity.
  - (* Data *) injection H as <-. destruct f, l; bok; reflexivity.
  - (* PortData *)
    destruct ids as [is|].
    + destruct (length ports =? length is)%nat; [|discriminate]. injection H as <-.
      destruct f, l, w; bok; reflexivity.
    + injection H as <-. destruct f, l, w; bok; reflexivity.
Qed.
Transparent le.

(** ** rejection *)
Theorem dec_empty : dec [] = DEof.
Proof. reflexivity. Qed.

Theorem dec_unknown_code c r : ~ In c Spec3.codes -> dec (c :: r) = DInvalid.
Proof.
  intros H. unfold dec.
  repeat match goal with
  | |- (if ?c =? ?k then _ else _) = _ =>
      destruct (N.eqb_spec c k) as [->|_]; [exfalso; apply H; vm_compute; tauto|]
  end. reflexivity.
Qed.

Theorem cfg_rejects v c :
  u8 v = true -> wf_cfg c = true ->
  (x_chunk c < 4 \/ x_buffer c < 4 \/ x_queue c < 1) ->
  exists bs, enc (Hello v c) = Some bs /\ dec bs = DInvalid.
Proof.
  intros Hv Hc H. eexists. split; [reflexivity|].
  unfold dec. ceval. unfold MAGIC. cbn [app length Nat.ltb Nat.leb firstn skipn combine forallb fst snd]. ceval.
  cbn [andb negb]. rewrite rd1 by assumption. rewrite <- (app_nil_r (enc_cfg c)). rewrite dec_cfg_enc by assumption.
  change XCFG_MIN_CHUNK_SIZE with 4. change XCFG_MIN_RECEIVE_BUFFER with 4. change XCFG_MIN_CONNECT_QUEUE with 1.
  destruct (N.ltb_spec (x_chunk c) 4); [reflexivity|].
  destruct (N.ltb_spec (x_buffer c) 4); [reflexivity|].
  destruct (N.ltb_spec (x_queue c) 1); [reflexivity|]. lia.
Qed.

Theorem bad_magic_rejected r :
  (length MAGIC <= length r)%nat -> firstn (length MAGIC) r <> MAGIC -> dec (MSG_HELLO :: r) = DInvalid.
Proof.
  intros Hl Hne. unfold dec. ceval.
  destruct (Nat.ltb_spec (length r) (length MAGIC)); [lia|].
  replace (forallb _ _) with false; [reflexivity|].
  symmetry. apply not_true_is_false. intros Hall. apply Hne.
  assert (Hlen : length (firstn (length MAGIC) r) = length MAGIC) by (rewrite firstn_length; lia).
  revert Hlen Hall. generalize (firstn (length MAGIC) r) as a. generalize MAGIC as b.
  induction b as [|y b IH]; intros [|x a] Hlen Hall; try discriminate; [reflexivity|].
  cbn [combine forallb fst snd] in Hall. apply andb_true_iff in Hall as [E Hall]. apply N.eqb_eq in E. subst.
  f_equal. apply IH; auto.
Qed.

(** ** framing *)
Theorem deframe_frame max payload rest :
  u32 (len payload) = true -> len payload <= max ->
  deframe max (frame payload ++ rest) = FOk payload rest.
Proof.
  intros Hu Hm. unfold deframe, frame. rewrite <- app_assoc. rewrite rd4_le by assumption.
  destruct (N.ltb_spec max (len payload)); [lia|].
  unfold len. rewrite Nat2N.id. rewrite app_length.
  destruct (Nat.ltb_spec (length payload + length rest) (length payload)); [lia|].
  now rewrite firstn_app_exact, skipn_app_exact.
Qed.

Theorem deframe_too_long max payload rest :
  u32 (len payload) = true -> max < len payload -> deframe max (frame payload ++ rest) = FTooLong.
Proof.
  intros Hu Hm. unfold deframe, frame. rewrite <- app_assoc. rewrite rd4_le by assumption.
  destruct (N.ltb_spec max (len payload)); [reflexivity|lia].
Qed.

(** every protocol message fits [MAX_MSG_LENGTH] except port data, which is bounded by the ports it carries *)
Definition fixed_size (m : msg) : bool := match m with PortData _ _ _ _ _ _ | Hello _ _ => false | _ => true end.

Theorem fixed_msg_length m bs : fixed_size m = true -> enc m = Some bs -> len bs <= MAX_MSG_LENGTH.
Proof.
  destruct m as [|v c| |p w id|c s|c np|p f l|p f l w ports ids|p c|p|p|p| | |]; cbn [fixed_size]; intros Hf H;
    try discriminate; injection H as <-; unfold len; cbn [length app]; rewrite ?app_length, ?le_length;
    cbn [length]; try (vm_compute; discriminate).
  destruct id; rewrite ?le_length; cbn [length]; vm_compute; discriminate.
Qed.

(** the hello message has a fixed length, the one the source states *)
Theorem hello_length v c bs : enc (Hello v c) = Some bs -> len bs = HELLO_MSG_LENGTH.
Proof.
  cbn [enc]. intros [= <-]. unfold len, enc_cfg. cbn [length app]. rewrite !app_length, !le_length. reflexivity.
Qed.

Lemma enc_ports_length ps : length (enc_ports ps) = (4 * length ps)%nat.
Proof. induction ps as [|p r IH]; [reflexivity|]. cbn [enc_ports length]. rewrite app_length, le_length, IH. lia. Qed.
Lemma enc_ports_ids_length ps : forall is, length ps = length is -> length (enc_ports_ids ps is) = (8 * length ps)%nat.
Proof.
  induction ps as [|p r IH]; intros [|i ri] Hl; try discriminate; [reflexivity|].
  cbn [enc_ports_ids length]. rewrite !app_length, !le_length, IH by (cbn [length] in Hl; lia). lia.
Qed.

(** what a peer may send to an endpoint that announced [chunk]: any message, with port batches limited
    to [chunk / 4] ports (the dispatcher rejects larger ones) *)
Definition admissible (chunk : N) (m : msg) : bool :=
  match m with PortData _ _ _ _ ports _ => 4 * len ports <=? chunk | _ => true end.

(** every admissible message that can be length-prefixed at all -- and every payload frame, which has at most
    [chunk] bytes -- fits the frame length the endpoint accepts on a stream transport *)
Theorem frames_fit chunk L m bs :
  max_frame_length chunk = Some L -> admissible chunk m = true -> enc m = Some bs -> u32 (len bs) = true ->
  len bs <= L /\ chunk <= L.
Proof.
  unfold max_frame_length. destruct (u32 (MAX_MSG_LENGTH + chunk)) eqn:Hu; [|discriminate]. intros [= <-] Ha He H32.
  unfold u32 in H32. apply N.ltb_lt in H32.
  assert (HM : MAX_MSG_LENGTH = 16) by reflexivity. assert (HH : HELLO_MSG_LENGTH = 26) by reflexivity.
  unfold u32 in Hu. apply N.ltb_lt in Hu. unfold sat32.
  destruct (fixed_size m) eqn:Hf.
  - pose proof (fixed_msg_length _ _ Hf He). lia.
  - destruct m as [|v c| |p w id|c s|c np|p f l|p f l w ports ids|p c|p|p|p| | |]; try discriminate.
    + apply hello_length in He. lia.
    + cbn [admissible] in Ha. apply N.leb_le in Ha. cbn [enc] in He.
      destruct ids as [ids|].
      * destruct (Nat.eqb_spec (length ports) (length ids)) as [Hl|]; [|discriminate].
        injection He as <-. unfold len in *. cbn [length app] in *.
        rewrite ?app_length, ?le_length in *. rewrite enc_ports_ids_length in * by assumption.
        cbn [length] in *. lia.
      * injection He as <-. unfold len in *. cbn [length app] in *.
        rewrite ?app_length, ?le_length, ?enc_ports_length in *.
        cbn [length] in *. lia.
Qed.

(** handshake bytes are the version-3 handshake *)
Theorem handshake_layout c : exact_cfg c = true -> handshake c = map Some (Spec3.handshake3 c).
Proof.
  intros H. unfold handshake, handshake3. cbn [map]. f_equal. f_equal.
  apply enc_layout3. cbn [wf]. now rewrite H.
Qed.

(** a configured timeout is never exchanged as "none" (and "none" never as a timeout) *)
Theorem timeout_presence_exchanged c :
  (x_timeout c = None <-> x_timeout (exchanged c) = None) /\
  (forall ns, x_timeout c = Some ns -> exists ms, 1 <= ms /\ x_timeout (exchanged c) = Some (ms * NS_PER_MS)).
Proof.
  unfold exchanged, timeout_millis, NS_PER_MS, U64_MAX. cbn [x_timeout].
  destruct (x_timeout c) as [ns|]; cbv zeta.
  - destruct (N.eqb_spec (N.max 1 (N.min (ns / 1000000) 18446744073709551615)) 0) as [E|E]; [lia|].
    split; [split; discriminate|]. intros ns' [= <-]. eexists. split; [|reflexivity]. lia.
  - change (0 =? 0) with true. cbv iota. split; [tauto|]. discriminate.
Qed.
