(** Preservation of the invariant by local API actions and helper tasks. *)
From Remoc Require Import Lib.Base Gen.Consts Chmux.Wire Chmux.Mux Chmux.Endpoint Chmux.EndpointLemmas Chmux.EndpointInv.
From RecordUpdate Require Import RecordUpdate.

Ltac prj :=
  cbn [mx max_ports alloc handles chq cq requests connects clients_alive listener_alive terminate_req dead panicked sent
       cfg_chunk cfg_buffer cfg_connect_queue rcfg_buffer remote_ver ports outstanding listen_open lq_wait lq_nowait
       all_clients_dropped remote_client_dropped remote_listener_dropped goodbye_sent goodbye_received
       remote pool pool_closed rx_open rxq rx_closed rx_dropped tx_dropped rrx_closed rrx_dropped
       h_tx h_rx h_rxc set RecordSet.set set_handle] in *.

Ltac deq1 a b :=
  let E := fresh "E" in
  destruct (a =? b) eqn:E; rewrite ?E in *;
  [apply N.eqb_eq in E; try subst a; try subst b | apply N.eqb_neq in E]; try congruence.
Ltac deq :=
  repeat match goal with
  | |- context [?a =? ?b] => deq1 a b
  | H : context [?a =? ?b] |- _ => deq1 a b
  end.

Ltac simp :=
  cbn [b2n isK orb andb negb is_some is_answered is_waiting is_queued is_gone is_connected app flat_map
       ev_nums ev_reqs st_reqs is_reply is_sd is_rd is_rc map fst snd] in *.
Ltac lists :=
  rewrite ?q_nums_app, ?q_reqs_app, ?q_nums_cons, ?q_reqs_cons, ?occ_app, ?occ_cons, ?occ_nil,
          ?count_snoc, ?count_cons, ?count_nil, ?lookup_insert, ?lookup_remove, ?mem_del, ?mem_cons, ?hget_insert in *.

Definition Good (e : ep) : Prop :=
  panicked e = None /\ dead e = None /\ NoDup (alloc e) /\ len (alloc e) <= max_ports e /\ Inv e.

Ltac cases :=
  repeat match goal with
  | H : match ?x with _ => _ end = Some _ |- _ => let E := fresh "E" in destruct x eqn:E; try discriminate
  | H : (if ?x then _ else _) = Some _ |- _ => let E := fresh "E" in destruct x eqn:E; try discriminate
  end.

Ltac bools :=
  repeat match goal with
  | H : _ && _ = true |- _ => apply andb_true_iff in H; destruct H
  | H : negb _ = true |- _ => apply negb_true_iff in H
  | H : negb _ = false |- _ => apply negb_false_iff in H
  end.

Lemma fresh_spec e p : fresh e p = true -> mem p (alloc e) = false /\ len (alloc e) < max_ports e.
Proof. unfold fresh. intros H. bools. apply N.ltb_lt in H0. auto. Qed.

Lemma step_UConnect e p id wait req e' :
  Good e -> step_opt e (UConnect p id wait req) = Some e' -> Good e'.
Proof.
  intros (Hp & Hd & Hnd & Hlen & [Hnum Hreq Hh Hbuf Hlq Hkeys Hconn]) H. unfold step_opt in H.
  cases. bools. apply fresh_spec in H2 as [Hm Hl]. injection H as <-.
  unfold Good. prj. repeat split; prj; auto.
  - constructor; [now apply mem_false_In|auto].
  - rewrite len_cons. lia.
  - intros p0. specialize (Hnum p0). lists. simp. lists. deq; simp; try lia. rewrite Hm in *. simp. lia.
  - intros r0. specialize (Hconn r0). lists. simp. lists. deq; simp; try lia.
    destruct (lookup r0 (connects e)); [discriminate|]. simp. lia.
Qed.
