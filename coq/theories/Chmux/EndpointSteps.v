(** Preservation of the invariant by local API actions and helper tasks. *)
From Remoc Require Import Lib.Base Gen.Consts Chmux.Wire Chmux.Mux Chmux.Endpoint Chmux.EndpointLemmas Chmux.EndpointInv.
From RecordUpdate Require Import RecordUpdate.

Ltac prj :=
  cbn [mx max_ports alloc handles chq cq requests connects clients_alive listener_alive terminate_req dead panicked sent
       cfg_chunk cfg_buffer cfg_connect_queue rcfg_buffer remote_ver ports outstanding listen_open lq_wait lq_nowait
       all_clients_dropped remote_client_dropped remote_listener_dropped goodbye_sent goodbye_received
       remote pool pool_closed rx_open rxq rx_closed rx_dropped tx_dropped rrx_closed rrx_dropped
       h_tx h_rx h_rxc lr_remote lr_id lr_wait set RecordSet.set set_handle] in *.

Ltac deq1 a b :=
  let E := fresh "E" in
  destruct (a =? b) eqn:E; rewrite ?E in *;
  [apply N.eqb_eq in E; try subst a; try subst b | apply N.eqb_neq in E]; try congruence.
Ltac deq :=
  repeat match goal with
  | |- context [?a =? ?b] => deq1 a b
  | H : context [?a =? ?b] |- _ => deq1 a b
  end.

Ltac simp :=
  cbn [b2n isK orb andb negb is_some is_answered is_waiting is_queued is_gone is_connected app flat_map
       ev_nums ev_reqs st_reqs is_reply is_sd is_rd is_rc map fst snd] in *.
Ltac lists1 :=
  rewrite ?N.eqb_refl, ?q_nums_app, ?q_reqs_app, ?q_nums_cons, ?q_reqs_cons, ?occ_app, ?occ_cons, ?occ_nil,
          ?count_snoc, ?count_cons, ?count_nil, ?lookup_insert, ?lookup_remove, ?mem_del, ?mem_cons, ?hget_insert in *.
Ltac lists := lists1.
Ltac lists2 := lists1; lists1.

Definition Good (e : ep) : Prop :=
  panicked e = None /\ dead e = None /\ NoDup (alloc e) /\ len (alloc e) <= max_ports e /\ Inv e.

Ltac cases :=
  repeat match goal with
  | H : match ?x with _ => _ end = Some _ |- _ => let E := fresh "E" in destruct x eqn:E; try discriminate
  | H : (if ?x then _ else _) = Some _ |- _ => let E := fresh "E" in destruct x eqn:E; try discriminate
  end.

Ltac bools :=
  repeat match goal with
  | H : _ && _ = true |- _ => apply andb_true_iff in H; destruct H
  | H : negb _ = true |- _ => apply negb_true_iff in H
  | H : negb _ = false |- _ => apply negb_false_iff in H
  end.

Lemma fresh_spec e p : fresh e p = true -> mem p (alloc e) = false /\ len (alloc e) < max_ports e.
Proof. unfold fresh. intros H. bools. apply N.ltb_lt in H0. auto. Qed.

Ltac neutral :=
  try assumption;
  try solve [apply qs_ok_push_chq; [reflexivity|assumption]];
  try solve [apply qs_ok_push_cq; [reflexivity|assumption]];
  try solve [apply req_ok_push; [reflexivity|assumption]];
  try solve [apply handle_ok_push; [intros; repeat split; reflexivity|assumption]];
  try solve [apply num_ok_push_chq; [reflexivity|assumption]];
  try solve [apply num_ok_push_cq; [reflexivity|assumption]];
  try solve [intros Hg; apply conn_ok_push_chq; [reflexivity|auto]];
  try solve [intros Hg; apply conn_ok_push_cq; [reflexivity|auto]].
Ltac good_split :=
  unfold Good; prj; split; [assumption|split; [assumption|split; [|split; [|constructor; prj]]]]; neutral.

Lemma step_UConnect e p id wait req e' :
  Good e -> step_opt e (UConnect p id wait req) = Some e' -> Good e'.
Proof.
  intros (Hp & Hd & Hnd & Hlen & [Hqs Hnum Hreq Hh Hpq Hbuf Hlq Hkeys Hconn]) H. unfold step_opt in H.
  cases. bools. apply fresh_spec in H2 as [Hm Hl]. injection H as <-.
  good_split.
  - constructor; [now apply mem_false_In|auto].
  - rewrite len_cons. lia.
  - intros p0. specialize (Hnum p0). lists. simp. lists. deq; simp; try lia. rewrite Hm in *. simp. lia.
  - intros Hg r0. specialize (Hconn Hg r0). lists. simp. lists. deq; simp; try lia.
    destruct (lookup r0 (connects e)); [discriminate|]. simp. lia.
Qed.

Ltac inv_intro :=
  intros (Hp & Hd & Hnd & Hlen & [Hqs Hnum Hreq Hh Hpq Hbuf Hlq Hkeys Hconn]) H; unfold step_opt in H.

Lemma neutral_SendPorts rp f l w ps p :
  is_sd p (ESendPorts rp f l w ps) = false /\ is_rd p (ESendPorts rp f l w ps) = false /\ is_rc p (ESendPorts rp f l w ps) = false.
Proof. auto. Qed.

Lemma step_USendPorts e via first last wait ps e' :
  Good e -> step_opt e (USendPorts via first last wait ps) = Some e' -> Good e'.
Proof.
  inv_intro. cases. bools. injection H as <-.
  destruct (all_fresh_spec e _ H0 Hnd Hlen) as (A1 & A2 & A3).
  good_split.
  - intros p0. specialize (Hnum p0). specialize (A3 p0). lists. simp. lists. lia.
  - intros Hg r0. specialize (Hconn Hg r0). lists. simp. lists.
    rewrite lookup_fold_insert. pose proof (nodupb_occ _ r0 H1) as Ho. rewrite Ho.
    destruct (mem r0 (map (fun x => snd x) ps)) eqn:Em; simp; [|lia].
    rewrite forallb_forall in H2. apply mem_In in Em. specialize (H2 _ Em).
    destruct (lookup r0 (connects e)); [discriminate|]. simp. lia.
Qed.

Lemma hget_some hs p h : lookup p hs = Some h -> hget hs p = h.
Proof. unfold hget. now intros ->. Qed.

Lemma portq_same_rx hs p h h' pt :
  lookup p hs = Some h -> is_alive (h_rx h') = is_alive (h_rx h) ->
  portq_reqs (insert p h' hs) pt = portq_reqs hs pt.
Proof.
  intros Hl Ha. apply tab_ext. intros k v _. unfold pq_ent. rewrite hget_insert.
  destruct (k =? p) eqn:E; [|reflexivity]. apply N.eqb_eq in E. subst k. rewrite (hget_some _ _ _ Hl), Ha. reflexivity.
Qed.

Ltac hsplit :=
  repeat match goal with
  | |- _ /\ _ => split
  | |- match ?x with _ => _ end => destruct x as [[?|?]|]
  end.
Ltac hfin := hsplit; try lia; try congruence; try tauto; try solve [intuition congruence].
Ltac hyp_split H :=
  let H1 := fresh "K" in let H2 := fresh "K" in let H3 := fresh "K" in let H4 := fresh "K" in
  let H5 := fresh "K" in let H6 := fresh "K" in
  destruct H as (H1 & H2 & H3 & H4 & H5 & H6).
Ltac neutral_other := intros ? ?; unfold neutral_h; simp; repeat split; try reflexivity; apply N.eqb_neq; congruence.
(** the old facts about handle [p], given [E0 : lookup p hs = Some h] *)
Ltac hold p E0 :=
  match goal with Hh : handle_ok _ _ _ |- _ =>
    let K := fresh "K" in pose proof (Hh p) as K; rewrite (hget_some _ _ _ E0) in K; unfold hok1 in K; hyp_split K end.

Lemma portq_ok_same_rx hs p h h' pt reqs :
  lookup p hs = Some h -> is_alive (h_rx h') = is_alive (h_rx h) ->
  portq_ok hs pt reqs -> portq_ok (insert p h' hs) pt reqs.
Proof. intros Hl Ha H r. rewrite (portq_same_rx _ _ _ _ _ Hl Ha). apply H. Qed.

Lemma step_UCloseRx e p e' : Good e -> step_opt e (UCloseRx p) = Some e' -> Good e'.
Proof.
  inv_intro. cases. injection H as <-. good_split.
  - hold p E0. apply handle_ok_set_push; [assumption|neutral_other|]. unfold hok1. prj. lists. simp. lists.
    rewrite E1, E2 in *. simp. hfin.
    apply no_after_snoc; [assumption|]. intros _. lia.
  - eapply portq_ok_same_rx; eauto.
Qed.

Definition queued_of (st : option pstate) : list N :=
  match st with Some (Connected c) => flat_map snd (rxq c) | _ => [] end.
Lemma pq_ent_alive hs k st : is_alive (h_rx (hget hs k)) = true -> pq_ent hs k st = queued_of st.
Proof. unfold pq_ent, queued_of. intros ->. reflexivity. Qed.
Lemma pq_ent_dead hs k st : is_alive (h_rx (hget hs k)) = false -> pq_ent hs k st = [].
Proof. unfold pq_ent. intros ->. now destruct st as [[|]|]. Qed.
Lemma pq_ent_other hs p h' k st : k <> p -> pq_ent hs k st = pq_ent (insert p h' hs) k st.
Proof. intros Hk. unfold pq_ent. rewrite hget_insert. apply N.eqb_neq in Hk. now rewrite Hk. Qed.

(** what a live receiver has queued is registered as [RPortQ], once *)
Lemma portq_queued hs pt reqs p r :
  NoDup (map fst pt) -> portq_ok hs pt reqs -> is_alive (h_rx (hget hs p)) = true ->
  occ r (queued_of (lookup p pt)) <= b2n (is_portq (lookup r reqs)).
Proof.
  intros Hn H Ha. specialize (H r). unfold portq_reqs in H.
  pose proof (tab_remove (pq_ent hs) r p pt Hn (pq_ent_None hs)) as T.
  rewrite (pq_ent_alive _ _ _ Ha) in T. lia.
Qed.

Lemma step_UDropRx e p e' : Good e -> step_opt e (UDropRx p) = Some e' -> Good e'.
Proof.
  inv_intro. cases. injection H as <-.
  assert (Ha : is_alive (h_rx (hget (handles e) p)) = true) by (rewrite (hget_some _ _ _ E0), E1; reflexivity).
  change (match lookup p (ports (mx e)) with Some (Connected c) => flat_map snd (rxq c) | _ => [] end)
    with (queued_of (lookup p (ports (mx e)))).
  good_split.
  - intros r. specialize (Hreq r). rewrite lookup_fold_insert.
    pose proof (portq_queued _ _ _ p r Hkeys Hpq Ha) as Q.
    destruct (mem r (queued_of (lookup p (ports (mx e))))) eqn:Em; [|exact Hreq].
    apply occ_pos_mem in Em. destruct (lookup r (requests e)) as [[]|]; simp; cbn [is_portq b2n] in Q; try lia. exact Hreq.
  - hold p E0. apply handle_ok_set; [assumption|]. unfold hok1. prj. rewrite E1 in *. simp. hfin.
  - intros r. rewrite lookup_fold_insert. pose proof (Hpq r) as Hr.
    pose proof (portq_queued _ _ _ p r Hkeys Hpq Ha) as Q. unfold portq_reqs in *.
    pose proof (tab_change (pq_ent (handles e)) (pq_ent (insert p (h <| h_rx := Dropped |>) (handles e))) r p _ Hkeys
                  (pq_ent_None _) (pq_ent_None _) (pq_ent_other _ _ _)) as T.
    rewrite (pq_ent_alive _ _ _ Ha) in T. rewrite pq_ent_dead in T by (rewrite hget_insert, N.eqb_refl; reflexivity).
    rewrite occ_nil in T.
    destruct (mem r (queued_of (lookup p (ports (mx e))))) eqn:Em.
    + apply occ_pos_mem in Em. cbn [is_portq b2n]. pose proof (b2n_le1 (is_portq (lookup r (requests e)))). lia.
    + apply occ_mem in Em. lia.
Qed.

Lemma step_UDropTx e p e' : Good e -> step_opt e (UDropTx p) = Some e' -> Good e'.
Proof.
  inv_intro. cases. injection H as <-. good_split.
  - hold p E0. apply handle_ok_set; [assumption|]. unfold hok1. prj. rewrite E1 in *. simp. hfin.
  - eapply portq_ok_same_rx; eauto.
Qed.

Lemma step_NTx e p e' : Good e -> step_opt e (NTx p) = Some e' -> Good e'.
Proof.
  inv_intro. cases. injection H as <-. good_split.
  - hold p E0. apply handle_ok_set_push; [assumption|neutral_other|]. unfold hok1. prj. lists. simp. lists.
    rewrite E1 in *. simp. hfin. apply no_after_snoc; [assumption|]. discriminate.
  - eapply portq_ok_same_rx; eauto.
Qed.

Lemma step_NRx e p e' : Good e -> step_opt e (NRx p) = Some e' -> Good e'.
Proof.
  inv_intro. cases. injection H as <-. good_split.
  - hold p E0. apply handle_ok_set_push; [assumption|neutral_other|]. unfold hok1. prj. lists. simp. lists.
    rewrite E1 in *. simp. hfin. apply no_after_snoc; [assumption|]. discriminate.
  - eapply portq_ok_same_rx; eauto. prj. now rewrite E1.
Qed.

Lemma step_UTerminate e e' : Good e -> step_opt e UTerminate = Some e' -> Good e'.
Proof. inv_intro. cases. injection H as <-. good_split. Qed.

Lemma step_UDropClients e e' : Good e -> step_opt e UDropClients = Some e' -> Good e'.
Proof. inv_intro. cases. injection H as <-. good_split. Qed.

Lemma step_USendData e p f l n e' : Good e -> step_opt e (USendData p f l n) = Some e' -> Good e'.
Proof. inv_intro. cases. injection H as <-. good_split. Qed.

Lemma step_UReturnCredits e p n e' : Good e -> step_opt e (UReturnCredits p n) = Some e' -> Good e'.
Proof. inv_intro. cases. injection H as <-. good_split. Qed.

(** * Requests *)
Lemma req_ok_set out reqs chq r s s' :
  lookup r reqs = Some s -> is_answered (Some s') = is_answered (Some s) ->
  req_ok out reqs chq -> req_ok out (insert r s' reqs) chq.
Proof.
  intros Hl Ha H r0. specialize (H r0). rewrite lookup_insert. destruct (r0 =? r) eqn:E; [|exact H].
  apply N.eqb_eq in E. subst r0. rewrite Hl in H. rewrite Ha. exact H.
Qed.
Lemma req_ok_answer out reqs chq r s ev :
  lookup r reqs = Some s -> is_answered (Some s) = false -> (forall r0, is_reply r0 ev = (r =? r0)) ->
  req_ok out reqs chq -> req_ok out (insert r RAnswered reqs) (chq ++ [ev]).
Proof.
  intros Hl Ha Hev H r0. specialize (H r0). rewrite lookup_insert, count_snoc, Hev, (N.eqb_sym r r0).
  destruct (r0 =? r) eqn:E; cbn [b2n]; [|rewrite N.add_0_r; exact H].
  apply N.eqb_eq in E. subst r0. rewrite Hl in H. rewrite Ha in H. cbn [is_answered is_some b2n] in *. split; [lia|tauto].
Qed.
Lemma portq_ok_set hs pt reqs r s s' :
  lookup r reqs = Some s -> is_portq (Some s) = false -> is_portq (Some s') = false ->
  portq_ok hs pt reqs -> portq_ok hs pt (insert r s' reqs).
Proof.
  intros Hl Ha Hb H r0. specialize (H r0). rewrite lookup_insert. destruct (r0 =? r) eqn:E; [|exact H].
  apply N.eqb_eq in E. subst r0. rewrite Hl, Ha in H. rewrite Hb. exact H.
Qed.

Lemma step_UListenerTake e r e' : Good e -> step_opt e (UListenerTake r) = Some e' -> Good e'.
Proof.
  inv_intro. cases. injection H as <-.
  match goal with E : lookup r _ = Some (RListenQ ?w) |- _ => rename w into b end.
  assert (lq_ok (if b then mx e <| lq_wait := lq_wait (mx e) - 1 |> else mx e <| lq_nowait := lq_nowait (mx e) - 1 |>)) as Hlq'.
  { destruct Hlq. destruct b; split; prj; lia. }
  destruct b; good_split; try (eapply req_ok_set; eauto); try (eapply portq_ok_set; eauto).
Qed.

Lemma step_UAccept e r p e' : Good e -> step_opt e (UAccept r p) = Some e' -> Good e'.
Proof.
  inv_intro. cases. apply fresh_spec in E2 as [Hm Hl]. injection H as <-. good_split.
  - constructor; [now apply mem_false_In|auto].
  - rewrite len_cons. lia.
  - intros p0. specialize (Hnum p0). lists. simp. lists. deq; simp; try lia. rewrite Hm in *. simp. lia.
  - eapply req_ok_answer; eauto.
  - eapply portq_ok_set; eauto.
Qed.

Lemma step_UReject e r np e' : Good e -> step_opt e (UReject r np) = Some e' -> Good e'.
Proof.
  inv_intro. cases. injection H as <-. good_split.
  - eapply req_ok_answer; eauto.
  - eapply portq_ok_set; eauto.
Qed.

Lemma step_NReq e r e' : Good e -> step_opt e (NReq r) = Some e' -> Good e'.
Proof.
  inv_intro. cases. injection H as <-. good_split.
  - eapply req_ok_answer; eauto.
  - eapply portq_ok_set; eauto.
Qed.

Lemma step_UDropRequest e r e' : Good e -> step_opt e (UDropRequest r) = Some e' -> Good e'.
Proof.
  inv_intro. cases. injection H as <-. good_split.
  - eapply req_ok_set; eauto.
  - eapply portq_ok_set; eauto.
Qed.

Definition drop_listenq (s : rlife) : rlife := match s with RListenQ _ => RDropped | s => s end.
Lemma lookup_map_drop r (l : list (N * rlife)) :
  lookup r (map (fun x => match snd x with RListenQ _ => (fst x, RDropped) | _ => x end) l) = option_map drop_listenq (lookup r l).
Proof.
  induction l as [|[k s] l IH]; cbn [map lookup fst snd option_map]; [reflexivity|].
  destruct s; cbn [lookup]; destruct (r =? k); cbn [option_map drop_listenq]; auto.
Qed.

Lemma step_UDropListener e e' : Good e -> step_opt e UDropListener = Some e' -> Good e'.
Proof.
  inv_intro. cases. injection H as <-. good_split.
  - intros r. specialize (Hreq r). rewrite lookup_map_drop. destruct (lookup r (requests e)) as [[]|]; exact Hreq.
  - intros r. specialize (Hpq r). rewrite lookup_map_drop. destruct (lookup r (requests e)) as [[]|]; exact Hpq.
  - split; prj; lia.
Qed.

Lemma count_zero_tail {A} (f : A -> bool) x l : count f l <= count f (x :: l).
Proof. rewrite count_cons. lia. Qed.

Lemma step_UConsume e p e' : Good e -> step_opt e (UConsume p) = Some e' -> Good e'.
Proof.
  inv_intro. cases. injection H as <-.
  match goal with E : rxq ?c = (?x, ?rs) :: ?q |- _ => rename c into c0; rename x into x0; rename rs into rs0; rename q into q0; rename E into Eq end.
  match goal with E : h_rx h = Alive |- _ => rename E into Erx end.
  assert (Ha : is_alive (h_rx (hget (handles e) p)) = true) by (rewrite (hget_some _ _ _ E0), Erx; reflexivity).
  assert (Hq : forall r, occ r rs0 + occ r (flat_map snd q0) <= b2n (is_portq (lookup r (requests e)))).
  { intros r. pose proof (portq_queued _ _ _ p r Hkeys Hpq Ha) as Q. rewrite E1 in Q. cbn [queued_of] in Q.
    rewrite Eq in Q. cbn [flat_map snd] in Q. rewrite occ_app in Q. exact Q. }
  good_split.
  - eapply num_ok_upd; eauto.
  - intros r. specialize (Hreq r). specialize (Hq r). rewrite lookup_fold_insert.
    destruct (mem r rs0) eqn:Em; [|exact Hreq].
    apply occ_pos_mem in Em. destruct (lookup r (requests e)) as [[]|]; simp; cbn [is_portq b2n] in Hq; try lia. exact Hreq.
  - eapply handle_ok_upd; eauto.
  - intros r. specialize (Hq r). rewrite lookup_fold_insert. pose proof (Hpq r) as Hr. unfold portq_reqs in *.
    pose proof (tab_insert (pq_ent (handles e)) r p (Connected (c0 <| rxq := q0 |>)) _ Hkeys (pq_ent_None _)) as T.
    rewrite !(pq_ent_alive _ _ _ Ha), E1 in T. cbn [queued_of] in T. prj. rewrite Eq in T. cbn [flat_map snd] in T.
    rewrite occ_app in T.
    destruct (mem r rs0) eqn:Em.
    + apply occ_pos_mem in Em. cbn [is_portq b2n]. pose proof (b2n_le1 (is_portq (lookup r (requests e)))). lia.
    + apply occ_mem in Em. lia.
  - apply buf_ok_upd; [assumption|]. destruct (Hbuf _ _ E1) as (B1 & B2 & B3). unfold used, all4 in *. prj.
    rewrite Eq in *. cbn [map fst sum] in B1. rewrite count_cons in B2. repeat split; try lia. exact B3.
  - now apply NoDup_keys_insert.
  - intros Hg. eapply conn_ok_upd; eauto.
Qed.
