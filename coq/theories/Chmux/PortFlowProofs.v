(** Invariants of the port-flow system, for every schedule. *)
From Remoc Require Import Lib.Base Gen.Consts Chmux.Parse Chmux.Recv Chmux.RecvProofs Chmux.PortFlow.
From RecordUpdate Require Import RecordUpdate.

Ltac prj :=
  cbn [cfg pool closed op tx_dropped evq link rxq cm rcv to_return ret_pending cred_evq cred_link dead cur emitted
       consumed completed delivered sent_cost granted set RecordSet.set finish_op emit assigned_of pend
       chunk limit cap_s cap_r] in *.

Lemma sum_snoc l x : sum (l ++ [x]) = sum l + x.
Proof. rewrite sum_app. cbn [sum]. lia. Qed.
Lemma costs_snoc l f : costs (l ++ [f]) = costs l + cost f.
Proof. rewrite costs_app. cbn [costs map sum]. unfold costs. cbn [map sum]. lia. Qed.

(** ** frames produced by [try_send] *)
Lemma len_firstn_min {A} (l : list A) (n : N) : len (firstn (N.to_nat (N.min (len l) n)) l) = N.min (len l) n.
Proof. unfold len. rewrite firstn_length. lia. Qed.
Lemma len_firstn_le {A} (l : list A) k : len (firstn k l) <= len l.
Proof. unfold len. rewrite firstn_length. lia. Qed.
Lemma len_firstn_skipn {A} (l : list A) k : len (firstn k l) + len (skipn k l) = len l.
Proof. rewrite <- len_app. now rewrite firstn_skipn. Qed.

Lemma cost_data_nonempty f l b : b <> [] -> cost (FData f l b) = len b.
Proof. intros H. cbn [cost]. destruct b; [congruence|]. rewrite len_cons. lia. Qed.

Lemma try_chunks_costs fuel ck data first slots :
  1 <= ck -> costs (fst (try_chunks fuel ck data first slots)) <= len data.
Proof.
  intros Hck. revert data first slots; induction fuel as [|fuel IH]; intros data first slots; cbn [try_chunks].
  - cbn. lia.
  - destruct data as [|x data']; [cbn; lia|]. set (data := x :: data') in *.
    destruct (slots =? 0); [cbn; lia|].
    set (k := N.to_nat (N.min (len data) ck)).
    specialize (IH (skipn k data) false (slots - 1)).
    destruct (try_chunks fuel ck (skipn k data) false (slots - 1)) as [fs ok]. cbn [fst] in *.
    rewrite costs_cons.
    assert (Hne : firstn k data <> []).
    { subst k data. rewrite len_cons. destruct (N.to_nat (N.min (1 + len data') ck)) eqn:E; [lia|]. cbn. congruence. }
    rewrite cost_data_nonempty by exact Hne. pose proof (len_firstn_skipn data k). lia.
Qed.

Lemma try_chunks_ok fuel ck data first slots :
  Forall (fun f => frame_ok ck f = true) (fst (try_chunks fuel ck data first slots)).
Proof.
  revert data first slots; induction fuel as [|fuel IH]; intros data first slots; cbn [try_chunks]; [constructor|].
  destruct data as [|x data']; [constructor|]. set (data := x :: data') in *.
  destruct (slots =? 0); [constructor|].
  set (k := N.to_nat (N.min (len data) ck)).
  specialize (IH (skipn k data) false (slots - 1)).
  destruct (try_chunks fuel ck (skipn k data) false (slots - 1)) as [fs ok]. cbn [fst] in *.
  constructor; [|exact IH]. cbn [frame_ok]. subst k. rewrite len_firstn_min. lia.
Qed.

(** ** numeric invariant: conservation of credits and everything that follows by arithmetic *)
Definition inv_num (s : st) : Prop :=
  cfg_ok (cfg s) /\
  dead s = None /\
  pool s + assigned_of (op s) + costs (evq s) + costs (link s) + costs (rxq s) + to_return s
    + pend (ret_pending s) + sum (cred_evq s) + sum (cred_link s) = limit (cfg s) /\
  to_return s < return_threshold (limit (cfg s)) /\
  sent_cost s = costs (consumed s) + costs (rxq s) + costs (link s) /\
  granted s + pend (ret_pending s) + sum (cred_evq s) + sum (cred_link s) + to_return s = costs (consumed s) /\
  Forall (fun f => frame_ok (chunk (cfg s)) f = true) (evq s ++ link s).

Lemma threshold_pos l : 1 <= return_threshold l.
Proof. unfold return_threshold. destruct (N.leb_spec 8 l); lia. Qed.

Lemma inv_num_init c md mp : cfg_ok c -> inv_num (init c md mp).
Proof.
  intros H. unfold inv_num, init; prj. split; [exact H|].
  pose proof (threshold_pos (limit c)).
  repeat split; auto; cbn [costs map sum app]; try lia. constructor.
Qed.

Lemma Forall_snoc {A} (P : A -> Prop) l x : Forall P l -> P x -> Forall P (l ++ [x]).
Proof. intros. apply Forall_app. split; auto. Qed.

Lemma Forall_mid {A} (P : A -> Prop) (a b : list A) x :
  Forall P ((x :: a) ++ b) -> Forall P (a ++ (b ++ [x])).
Proof.
  intros H. apply Forall_app in H as [Ha Hb]. inversion Ha; subst.
  apply Forall_app; split; auto. apply Forall_app; split; auto.
Qed.

Ltac cases :=
  repeat match goal with
  | H : match ?x with _ => _ end = Some _ |- _ =>
      let E := fresh "E" in destruct x eqn:E; try discriminate
  | H : (if ?x then _ else _) = Some _ |- _ =>
      let E := fresh "E" in destruct x eqn:E; try discriminate
  | H : (let '(_, _) := ?x in _) = Some _ |- _ =>
      let E := fresh "E" in destruct x eqn:E
  | H : Some _ = Some _ |- _ => injection H as <-
  end.

(** well-formed operation state: a data call with [empty = false] has data left, etc. *)
Definition op_wf (o : sop) : Prop :=
  match o with
  | SData _ rest empty _ _ _ => if empty then rest = [] else rest <> []
  | SPorts rest _ _ => rest <> []
  | _ => True
  end.

Definition inv_n (s : st) : Prop := inv_num s /\ op_wf (op s).

Ltac rw1 f :=
  try match goal with E : f ?s = _ |- _ => rewrite ?E in *; generalize E; clear E; rewrite ?E in *; intro end.
Ltac rw :=
  repeat match goal with
  | E : ?f ?s = ?v |- _ =>
      match f with op => idtac | evq => idtac | link => idtac | rxq => idtac | cred_evq => idtac
                 | cred_link => idtac | ret_pending => idtac end;
      match goal with
      | |- context [f s] => rewrite E
      | H : context [f s] |- _ => lazymatch H with E => fail | _ => rewrite E in H end
      end
  end.

Ltac num :=
  prj; unfold U32_MAX in *; rewrite ?costs_snoc, ?sum_snoc, ?costs_app, ?costs_cons, ?costs_nil in *; cbn [cost sum] in *;
  change (@len N []) with 0 in *; try lia.

Lemma len_pos_nonempty {A} (l : list A) : l <> [] -> 1 <= len l.
Proof. destruct l; [congruence|]. rewrite len_cons. lia. Qed.

Lemma skipn_nil_len {A} (l : list A) k : skipn k l = [] -> len (firstn k l) = len l.
Proof. intros H. pose proof (len_firstn_skipn l k). rewrite H, len_nil in *. lia. Qed.

Lemma inv_n_step s a s' : inv_n s -> step_opt s a = Some s' -> inv_n s'.
Proof.
  intros [(Hc & Hd & Hcons & Hth & Hsent & Hgr & Hok) Hwf] H.
  pose proof Hc as (Hc1 & Hc2 & Hc3 & Hc4 & Hc5 & Hc6).
  change CFG_MIN_CHUNK_SIZE with 4 in Hc1. change CFG_MIN_RECEIVE_BUFFER with 4 in Hc2. unfold U32_MAX in *.
  pose proof (threshold_pos (limit (cfg s))) as Hthp.
  destruct a; unfold step_opt in H.
  - (* USend *) cases. unfold inv_n, inv_num; prj; rw.
    repeat split; auto; num. destruct data; [reflexivity|congruence].
  - (* UTrySend *) cases; unfold inv_n, inv_num; prj; rw; try (repeat split; auto; num; fail).
    + (* empty message *)
      repeat split; auto; num.
      rewrite <- app_assoc. apply Forall_app in Hok as [Ha Hb]. apply Forall_app; split; auto.
      constructor; auto. cbn [frame_ok]. change (@len N []) with 0. lia.
    + (* chunks *)
      lazymatch goal with E : try_chunks ?f ?c ?d ?fi ?sl = (?fs, ?ok) |- _ =>
        pose proof (try_chunks_costs f c d fi sl ltac:(lia)) as Hcs;
        pose proof (try_chunks_ok f c d fi sl) as Hfs; rewrite E in Hcs, Hfs; cbn [fst] in Hcs, Hfs;
        assert (Hle : costs fs <= pool s) by (unfold U32_MAX in *; lia);
        destruct ok; prj; rw; (repeat split; auto; num;
          try (rewrite <- app_assoc; apply Forall_app in Hok as [Ha Hb]; apply Forall_app; split; auto; apply Forall_app; split; auto))
      end.
  - (* UChunkStart *) cases. unfold inv_n, inv_num; prj; rw. repeat split; auto; num.
  - (* UChunk *) cases. unfold inv_n, inv_num; prj; rw. repeat split; auto; num. destruct data; [reflexivity|congruence].
  - (* UConnect *) cases; unfold inv_n, inv_num; prj; rw; repeat split; auto; num. congruence.
  - (* UCancel *) cases; unfold inv_n, inv_num; prj; rw; repeat split; auto; num.
  - (* UDropTx *) cases. unfold inv_n, inv_num; prj; rw. repeat split; auto; num.
    rewrite <- app_assoc. apply Forall_app in Hok as [Ha Hb]. apply Forall_app; split; auto. constructor; auto.
  - (* TReq *) cases; unfold inv_n, inv_num; prj; rw; cbn [op_wf] in *; repeat split; auto; num.
  - (* TEmit *)
    destruct (slot_free s) eqn:Esf; [|discriminate].
    destruct (op s) as [|cs rest empty first a fin|first a|rest first a] eqn:Eop; try discriminate.
    + (* data *)
      destruct (a =? 0) eqn:Ea; [discriminate|]. cbn [op_wf] in Hwf.
      apply Forall_app in Hok as [Hoa Hob].
      destruct empty.
      * (* the single frame of an empty call *)
        assert (Hfo : Forall (fun f => frame_ok (chunk (cfg s)) f = true) ((evq s ++ [FData first fin []]) ++ link s)).
        { rewrite <- app_assoc. apply Forall_app; split; auto. constructor; auto. cbn [frame_ok]. change (@len N []) with 0. lia. }
        destruct cs; [destruct fin|]; injection H as <-; unfold inv_n, inv_num; prj; repeat split; auto; num.
      * set (m := N.min (N.min (len rest) (chunk (cfg s))) a) in *.
        pose proof (len_pos_nonempty rest Hwf) as Hr1.
        assert (Hlc : len (firstn (N.to_nat m) rest) = m) by (unfold len; rewrite firstn_length; unfold len in *; lia).
        assert (Hm1 : 1 <= m) by lia.
        assert (Hcost : forall f l, cost (FData f l (firstn (N.to_nat m) rest)) = m).
        { intros. cbn [cost]. rewrite Hlc. lia. }
        assert (Hfo : forall f l, Forall (fun f => frame_ok (chunk (cfg s)) f = true)
                          ((evq s ++ [FData f l (firstn (N.to_nat m) rest)]) ++ link s)).
        { intros. rewrite <- app_assoc. apply Forall_app; split; auto. constructor; auto. cbn [frame_ok]. rewrite Hlc. lia. }
        destruct (skipn (N.to_nat m) rest) as [|y r'] eqn:Esk.
        -- destruct cs; [destruct fin|]; injection H as <-; unfold inv_n, inv_num; prj;
             rewrite ?costs_snoc, ?Hcost, ?Hlc; repeat split; auto; try apply Hfo; num.
        -- injection H as <-. unfold inv_n, inv_num; prj. rewrite ?costs_snoc, ?Hcost, ?Hlc.
           repeat split; auto; try apply Hfo; num. cbn [op_wf]. congruence.
    + (* ports *)
      destruct (a <? 4) eqn:Ea; [discriminate|]. cbn [op_wf] in Hwf.
      apply Forall_app in Hok as [Hoa Hob].
      set (k := N.min (len rest) (N.min (chunk (cfg s)) a / 4)) in *.
      pose proof (len_pos_nonempty rest Hwf) as Hr1.
      assert (Hlc : len (firstn (N.to_nat k) rest) = k) by (unfold len; rewrite firstn_length; unfold len in *; lia).
      assert (Hk : 1 <= k /\ 4 * k <= a /\ 4 * k <= chunk (cfg s)) by lia.
      assert (Hcost : forall f l, cost (FPorts f l (firstn (N.to_nat k) rest)) = 4 * k).
      { intros. cbn [cost]. now rewrite Hlc. }
      assert (Hfo : forall f l, Forall (fun f => frame_ok (chunk (cfg s)) f = true)
                        ((evq s ++ [FPorts f l (firstn (N.to_nat k) rest)]) ++ link s)).
      { intros. rewrite <- app_assoc. apply Forall_app; split; auto. constructor; auto. cbn [frame_ok]. rewrite Hlc. lia. }
      destruct (skipn (N.to_nat k) rest) as [|y r'] eqn:Esk.
      * injection H as <-. unfold inv_n, inv_num; prj. rewrite ?costs_snoc, ?Hcost, ?Hlc.
        repeat split; auto; try apply Hfo; num.
      * injection H as <-. unfold inv_n, inv_num; prj. rewrite ?costs_snoc, ?Hcost, ?Hlc.
        repeat split; auto; try apply Hfo; num. cbn [op_wf]. congruence.
  - (* TMux *) cases. unfold inv_n, inv_num; prj; rw. repeat split; auto; num.
    apply (Forall_mid _ l (link s) f). exact Hok.
  - (* TLink *) cases; unfold inv_n, inv_num; prj; rw.
    + exfalso. apply Forall_app in Hok as [_ Hb]. inversion Hb; subst. rewrite H1 in E1. discriminate.
    + repeat split; auto; num. apply Forall_app in Hok as [Ha Hb]. inversion Hb; subst. apply Forall_app; split; auto.
    + exfalso. num.
  - (* RConsume *) cases; unfold inv_n, inv_num; prj; rw; repeat split; auto; num.
  - (* RFlush *) cases; unfold inv_n, inv_num; prj; rw; repeat split; auto; num.
  - (* TCredMux *) cases; unfold inv_n, inv_num; prj; rw; repeat split; auto; num.
  - (* TCredLink *) cases; unfold inv_n, inv_num; prj; rw.
    + repeat split; auto; num.
    + exfalso. num.
  - (* TClose *) cases; unfold inv_n, inv_num; prj; rw; repeat split; auto; num.
Qed.

(** ** structural invariants: FIFO transport, emitted frames parse to the completed sends,
       the receiver's results are a function of the consumed frames *)
Lemma parse_from_snoc s l f :
  parse_from s (l ++ [f]) =
  let '(s1, o1) := parse_from s l in let '(s2, o2) := parse_step s1 f in (s2, o1 ++ o2).
Proof.
  rewrite parse_from_app. destruct (parse_from s l) as [s1 o1]. cbn [parse_from].
  destruct (parse_step s1 f) as [s2 o2]. now rewrite app_nil_r.
Qed.

Lemma feed_all_snoc m r l f :
  feed_all m r (l ++ [f]) =
  let '(m1, r1, o1) := feed_all m r l in let '(m2, r2, o2) := feed m1 r1 f in (m2, r2, o1 ++ o2).
Proof.
  revert m r; induction l as [|x l IH]; intros m r; cbn [app feed_all].
  - destruct (feed m r f) as [[m2 r2] o2]. now rewrite app_nil_r.
  - destruct (feed m r x) as [[m1 r1] o1]. rewrite IH.
    destruct (feed_all m1 r1 l) as [[m2 r2] o2]. destruct (feed m2 r2 f) as [[m3 r3] o3]. now rewrite app_assoc.
Qed.

Definition op_parse (o : sop) (cu : list N) (ps : pst) (dropped : bool) : Prop :=
  (dropped = false -> ps <> PFin) /\ (dropped = true -> o = SIdle) /\
  match o with
  | SIdle => True
  | SData cs _ _ first _ fin => (if first then cu = [] else ps = PData cu) /\ (cs = false -> fin = true)
  | SChunkIdle first _ => if first then cu = [] else ps = PData cu
  | SPorts _ first _ => if first then cu = [] else ps = PPorts cu
  end.

Definition inv_str (md mp : N) (s : st) : Prop :=
  consumed s ++ rxq s ++ link s ++ evq s = emitted s /\
  (exists ps, parse_from PNone (emitted s) = (ps, completed s) /\ op_parse (op s) (cur s) ps (tx_dropped s)) /\
  feed_all CAny (rinit md mp) (consumed s) = (cm s, rcv s, delivered s).

Lemma inv_str_init c md mp : inv_str md mp (init c md mp).
Proof.
  unfold inv_str, init; prj. repeat split; auto. exists PNone. repeat split; auto; intros; discriminate.
Qed.

Lemma try_chunks_parse fuel ck : 1 <= ck -> forall (data : list N) (first : bool) (slots : N) (ps : pst) (acc : list N),
  (length data < fuel)%nat -> ps <> PFin -> data <> [] ->
  (if first then acc = [] else ps = PData acc) ->
  let '(fs, ok) := try_chunks fuel ck data first slots in
  exists ps', ps' <> PFin /\
    parse_from ps fs = (if ok then PNone else ps', if ok then [MData (acc ++ data)] else []).
Proof.
  intros Hck. induction fuel as [|fuel IH]; intros data first slots ps acc Hf Hps Hne Hfirst; [lia|].
  cbn [try_chunks]. destruct data as [|x data']; [congruence|]. set (data := x :: data') in *.
  destruct (slots =? 0).
  { exists ps. split; auto. }
  set (k := N.to_nat (N.min (len data) ck)).
  assert (Hk : (1 <= k <= length data)%nat) by (subst k data; rewrite len_cons; unfold len; cbn [length]; lia).
  assert (Hc : firstn k data <> []).
  { subst data. destruct k; [lia|]. cbn. congruence. }
  destruct (skipn k data) as [|y r'] eqn:Esk.
  - (* last chunk *)
    destruct fuel as [|fuel']; [cbn [length] in Hf; lia|]. cbn [try_chunks].
    exists PNone. split; [discriminate|].
    assert (Hall : firstn k data = data).
    { rewrite <- (firstn_skipn k data) at 2. rewrite Esk. now rewrite app_nil_r. }
    rewrite Hall. cbn [parse_from parse_step].
    destruct ps; try congruence; destruct first; subst; try discriminate; cbn [app]; try reflexivity.
    all: try (injection Hfirst as <-; reflexivity).
  - set (r := y :: r') in *.
    assert (Hrl : (length r < fuel)%nat).
    { assert (length r = length data - k)%nat by (rewrite <- Esk; apply skipn_length). lia. }
    assert (Hps' : (if first then PData [] else ps) = PData acc) by (destruct first; subst; auto).
    specialize (IH r false (slots - 1) (PData (acc ++ firstn k data)) (acc ++ firstn k data) Hrl
                  ltac:(discriminate) ltac:(subst r; discriminate) eq_refl).
    destruct (try_chunks fuel ck r false (slots - 1)) as [fs ok].
    destruct IH as (ps' & Hps'n & IH). exists ps'. split; auto.
    cbn [parse_from]. 
    assert (Hstep : parse_step ps (FData first false (firstn k data)) = (PData (acc ++ firstn k data), [])).
    { unfold parse_step. destruct ps; try congruence; rewrite Hps'; reflexivity. }
    rewrite Hstep, IH. cbn [app].
    destruct ok; [|reflexivity]. f_equal. f_equal. f_equal. rewrite <- app_assoc. f_equal.
    subst r. rewrite <- Esk. apply firstn_skipn.
Qed.

Lemma parse_emit ps cs f ps' o :
  parse_step ps f = (ps', o) ->
  forall fs, parse_from PNone fs = (ps, cs) -> parse_from PNone (fs ++ [f]) = (ps', cs ++ o).
Proof. intros H fs Hf. rewrite parse_from_snoc, Hf, H. reflexivity. Qed.

Lemma parse_emit0 ps cs f ps' :
  parse_step ps f = (ps', []) ->
  forall fs, parse_from PNone fs = (ps, cs) -> parse_from PNone (fs ++ [f]) = (ps', cs).
Proof. intros H fs Hf. rewrite <- (app_nil_r cs). eapply parse_emit; eauto. Qed.

Ltac cg := try tauto; try (intros; congruence); try (let Ht := fresh in intros Ht; match goal with H : _ = true -> _ = SIdle |- _ => specialize (H Ht) end; congruence).
Lemma parse_step_data (ps : pst) (cu : list N) (first last : bool) (c : list N) :
  ps <> PFin -> (if first then cu = [] else ps = PData cu) ->
  parse_step ps (FData first last c) = if last then (PNone, [MData (cu ++ c)]) else (PData (cu ++ c), []).
Proof. intros Hp H. unfold parse_step. destruct ps; try congruence; destruct first; subst; try discriminate; try reflexivity; injection H as <-; reflexivity. Qed.

Lemma parse_step_ports (ps : pst) (cu : list N) (first last : bool) (c : list N) :
  ps <> PFin -> (if first then cu = [] else ps = PPorts cu) ->
  parse_step ps (FPorts first last c) = if last then (PNone, [MPorts (cu ++ c)]) else (PPorts (cu ++ c), []).
Proof. intros Hp H. unfold parse_step. destruct ps; try congruence; destruct first; subst; try discriminate; try reflexivity; injection H as <-; reflexivity. Qed.

Ltac sfin := unfold inv_str; prj; rw; repeat split; auto; rewrite <- ?app_assoc; cbn [app]; auto.

Lemma inv_str_step md mp s a s' :
  inv_n s -> inv_str md mp s -> step_opt s a = Some s' -> inv_str md mp s'.
Proof.
  intros Hn (Hfifo & (ps & Hpar & Hdr & Hdr2 & Hop) & Hfeed) H.
  assert (Hdead : dead s' = None) by (destruct (inv_n_step _ _ _ Hn H) as [(_ & Hd' & _) _]; exact Hd').
  destruct Hn as [(Hc & _) Hwf].
  pose proof Hc as (Hc1 & _). change CFG_MIN_CHUNK_SIZE with 4 in Hc1.
  destruct a; unfold step_opt in H.
  - (* USend *) cases. sfin. exists ps. repeat split; auto; cg.
  - (* UTrySend *)
    cases; try (sfin; exists ps; repeat split; auto; fail).
    + (* empty *)
      unfold inv_str; prj. repeat split; auto.
      * rewrite <- Hfifo. now rewrite !app_assoc.
      * exists PNone. split.
        -- eapply parse_emit; eauto. unfold parse_step. destruct ps; try reflexivity. exfalso. now apply Hdr.
        -- rewrite E in *. repeat split; auto. discriminate.
    + (* chunks *)
      match goal with E : try_chunks ?f ?c ?d ?fi ?sl = (?fs, ?ok) |- _ =>
        pose proof (try_chunks_parse f c ltac:(lia) d fi sl ps [] ltac:(cbn [length]; lia) (Hdr eq_refl)
                      ltac:(discriminate) eq_refl) as Hp; rewrite E in Hp; destruct Hp as (ps' & Hps' & Hp)
      end.
      assert (Hfi : forall X, consumed s ++ rxq s ++ link s ++ evq s ++ X = emitted s ++ X).
      { intros. rewrite <- Hfifo. now rewrite <- !app_assoc. }
      destruct b; unfold inv_str; prj; (repeat split; auto).
      * exists PNone. rewrite parse_from_app, Hpar, Hp. cbn [app]. split; auto. rewrite E in *. repeat split; auto. discriminate.
      * exists ps'. rewrite parse_from_app, Hpar, Hp. rewrite app_nil_r. split; auto. rewrite E in *. repeat split; auto.
  - (* UChunkStart *) cases. sfin. exists ps. repeat split; auto; cg.
  - (* UChunk *) cases. sfin. exists ps. repeat split; auto; cg.
  - (* UConnect *) cases; sfin; exists ps; repeat split; auto; cg.
  - (* UCancel *) cases; sfin; exists ps; repeat split; auto.
  - (* UDropTx *) cases. unfold inv_str; prj. repeat split; auto.
    + rewrite <- Hfifo. now rewrite !app_assoc.
    + exists PFin. split.
      * rewrite <- (app_nil_r (completed s)). eapply parse_emit; eauto. unfold parse_step. destruct ps; reflexivity.
      * unfold op_parse. rewrite E. repeat split; auto; discriminate.
  - (* TReq *) cases; sfin; exists ps; repeat split; auto; cg.
  - (* TEmit *)
    destruct (slot_free s) eqn:Esf; [|discriminate].
    assert (Hfi : forall f, consumed s ++ rxq s ++ link s ++ evq s ++ [f] = emitted s ++ [f]).
    { intros. rewrite <- Hfifo. now rewrite <- !app_assoc. }
    destruct (op s) as [|cs rest empty first a fin|first a|rest first a] eqn:Eop; try discriminate.
    + (* data *)
      destruct (a =? 0); [discriminate|]. destruct Hop as [Hop Hcs].
      assert (Htd : tx_dropped s = false) by (destruct (tx_dropped s); auto; specialize (Hdr2 eq_refl); discriminate).
      specialize (Hdr Htd).
      destruct empty.
      * pose proof (parse_step_data ps (cur s) first fin [] Hdr Hop) as Hps. rewrite app_nil_r in Hps.
        destruct cs; [destruct fin|rewrite (Hcs eq_refl) in *]; injection H as <-; unfold inv_str; prj;
          (repeat split; auto; eexists; (split; [first [eapply parse_emit0; now eauto | eapply parse_emit; now eauto]|]));
          rewrite ?app_nil_r; unfold op_parse; repeat split; auto; try discriminate; cg.
      * set (m := N.to_nat (N.min (N.min (len rest) (chunk (cfg s))) a)) in *.
        destruct (skipn m rest) as [|y r'] eqn:Esk.
        -- pose proof (parse_step_data ps (cur s) first (true && fin) (firstn m rest) Hdr Hop) as Hps.
           destruct cs; [destruct fin|rewrite (Hcs eq_refl) in *]; cbn [andb] in *; injection H as <-; unfold inv_str; prj;
             (repeat split; auto; eexists; (split; [first [eapply parse_emit0; now eauto | eapply parse_emit; now eauto]|]));
             rewrite ?app_nil_r; unfold op_parse; repeat split; auto; try discriminate; cg.
        -- pose proof (parse_step_data ps (cur s) first (false && fin) (firstn m rest) Hdr Hop) as Hps.
           cbn [andb] in *. injection H as <-. unfold inv_str; prj.
           repeat split; auto; eexists; (split; [first [eapply parse_emit0; now eauto | eapply parse_emit; now eauto]|]);
             rewrite ?app_nil_r; unfold op_parse; repeat split; auto; try discriminate; cg.
    + (* ports *)
      destruct (a <? 4); [discriminate|].
      assert (Htd : tx_dropped s = false) by (destruct (tx_dropped s); auto; specialize (Hdr2 eq_refl); discriminate).
      specialize (Hdr Htd).
      set (k := N.to_nat (N.min (len rest) (N.min (chunk (cfg s)) a / 4))) in *.
      destruct (skipn k rest) as [|y r'] eqn:Esk.
      * pose proof (parse_step_ports ps (cur s) first true (firstn k rest) Hdr Hop) as Hps.
        injection H as <-. unfold inv_str; prj.
        repeat split; auto; eexists; (split; [first [eapply parse_emit0; now eauto | eapply parse_emit; now eauto]|]);
          rewrite ?app_nil_r; unfold op_parse; repeat split; auto; try discriminate; cg.
      * pose proof (parse_step_ports ps (cur s) first false (firstn k rest) Hdr Hop) as Hps.
        injection H as <-. unfold inv_str; prj.
        repeat split; auto; eexists; (split; [first [eapply parse_emit0; now eauto | eapply parse_emit; now eauto]|]);
          rewrite ?app_nil_r; unfold op_parse; repeat split; auto; try discriminate; cg.
  - (* TMux *) cases. unfold inv_str; prj; rw. repeat split; auto; [|exists ps; repeat split; auto].
    rewrite <- Hfifo. rewrite <- !app_assoc. reflexivity.
  - (* TLink *) cases; prj; try discriminate.
    unfold inv_str; prj; rw. repeat split; auto; [|exists ps; repeat split; auto].
    rewrite <- Hfifo; rewrite <- ?app_assoc; cbn [app]; auto.
  - (* RConsume *)
    cases; unfold inv_str; prj; rw;
      (repeat split; auto; [rewrite <- Hfifo; rewrite <- ?app_assoc; reflexivity | exists ps; repeat split; auto
                           | rewrite feed_all_snoc, Hfeed; match goal with E : feed _ _ _ = _ |- _ => rewrite E end; reflexivity]).
  - (* RFlush *) cases; sfin; exists ps; repeat split; auto.
  - (* TCredMux *) cases; sfin; exists ps; repeat split; auto.
  - (* TCredLink *) cases; sfin; exists ps; repeat split; auto.
  - (* TClose *) cases; sfin; exists ps; repeat split; auto.
Qed.

(** ** every reachable state satisfies the invariants *)
Definition Inv (md mp : N) (s : st) : Prop := inv_n s /\ inv_str md mp s.

Lemma Inv_step md mp s a : Inv md mp s -> Inv md mp (step s a).
Proof.
  intros [Hn Hs]. unfold step. destruct (step_opt s a) as [s'|] eqn:E; [|split; auto].
  split; [eapply inv_n_step; eauto|eapply inv_str_step; eauto].
Qed.

Lemma Inv_run c md mp acts : cfg_ok c -> Inv md mp (run acts (init c md mp)).
Proof.
  intros Hc. unfold run.
  assert (H0 : Inv md mp (init c md mp)).
  { split; [split; [now apply inv_num_init|exact I]|apply inv_str_init]. }
  revert H0. generalize (init c md mp) as s. induction acts as [|a acts IH]; intros s H0; cbn [fold_left]; auto.
  apply IH. now apply Inv_step.
Qed.

Lemma filter_prefix {A} (f : A -> bool) l1 l2 : prefix l1 l2 -> prefix (filter f l1) (filter f l2).
Proof. intros [r ->]. exists (filter f r). apply filter_app. Qed.

(** C01: what the receiver has obtained is a prefix of the completed sends *)
Lemma delivery_prefix md mp s :
  Inv md mp s -> prefix (data_of (delivered_msgs (delivered s))) (data_of (completed s)).
Proof.
  intros [_ (Hfifo & (ps & Hpar & _) & Hfeed)].
  pose proof (recv_refines_parse md mp (consumed s)) as Hr. rewrite Hfeed in Hr. rewrite Hr.
  apply filter_prefix.
  replace (completed s) with (parse (emitted s)) by (unfold parse; now rewrite Hpar).
  rewrite <- Hfifo. apply parse_prefix.
Qed.

(** C01: everything handed over by completed sends and consumed by the receiver has been obtained *)
Lemma delivery_complete md mp s :
  Inv md mp s -> rxq s = [] -> link s = [] -> evq s = [] ->
  (op s = SIdle \/ exists f a, op s = SChunkIdle f a) ->
  data_of (delivered_msgs (delivered s)) = data_of (completed s).
Proof.
  intros [_ (Hfifo & (ps & Hpar & _) & Hfeed)] H1 H2 H3 _.
  pose proof (recv_refines_parse md mp (consumed s)) as Hr. rewrite Hfeed in Hr. rewrite Hr.
  rewrite H1, H2, H3, !app_nil_r in Hfifo. rewrite Hfifo. unfold parse. now rewrite Hpar.
Qed.

(** C02 *)
Lemma wire_bound md mp s : Inv md mp s -> sent_cost s <= granted s + limit (cfg s) /\ dead s = None.
Proof. intros [[(Hc & Hd & Hcons & Hth & Hsent & Hgr & Hok) _] _]. split; [lia|exact Hd]. Qed.

Lemma chunk_bound md mp s : Inv md mp s -> Forall (fun f => frame_ok (chunk (cfg s)) f = true) (link s).
Proof. intros [[(Hc & Hd & Hcons & Hth & Hsent & Hgr & Hok) _] _]. apply Forall_app in Hok. tauto. Qed.

Lemma grant_bound md mp s : Inv md mp s -> granted s <= costs (consumed s).
Proof. intros [[(Hc & Hd & Hcons & Hth & Hsent & Hgr & Hok) _] _]. lia. Qed.

(** C03: conservation = no leak *)
Lemma conservation md mp s :
  Inv md mp s ->
  pool s + assigned_of (op s) + costs (evq s) + costs (link s) + costs (rxq s) + to_return s
    + pend (ret_pending s) + sum (cred_evq s) + sum (cred_link s) = limit (cfg s).
Proof. intros [[(Hc & Hd & Hcons & _) _] _]. exact Hcons. Qed.

Definition quiet (s : st) : Prop :=
  evq s = [] /\ link s = [] /\ rxq s = [] /\ ret_pending s = None /\ cred_evq s = [] /\ cred_link s = [].

Lemma threshold_lemma md mp s : Inv md mp s -> quiet s -> 4 <= pool s + assigned_of (op s).
Proof.
  intros [[(Hc & Hd & Hcons & Hth & _) _] _] (H1 & H2 & H3 & H4 & H5 & H6).
  destruct Hc as (_ & Hc2 & _). change CFG_MIN_RECEIVE_BUFFER with 4 in Hc2.
  rewrite H1, H2, H3, H4, H5, H6 in Hcons. cbn [costs map sum pend] in Hcons.
  unfold return_threshold in Hth. destruct (N.leb_spec 8 (limit (cfg s))); lia.
Qed.

(** an internal action that moves a frame or credits *)
Definition internal : list act := [TMux; TLink; RConsume; RFlush; TCredMux; TCredLink].

Lemma not_quiet_enabled md mp s :
  Inv md mp s -> ~ quiet s -> exists a s', In a internal /\ step_opt s a = Some s'.
Proof.
  intros [[(Hc & Hd & Hcons & Hth & Hsent & Hgr & Hok) _] _] Hnq.
  destruct Hc as (_ & _ & Hl & _ & _ & Hcr). unfold U32_MAX in *.
  destruct (evq s) as [|f q] eqn:E1.
  2:{ exists TMux. eexists. split; [cbn; auto|]. cbn [step_opt]. now rewrite E1. }
  destruct (cred_evq s) as [|c q] eqn:E5.
  2:{ exists TCredMux. eexists. split; [cbn; auto 10|]. cbn [step_opt]. now rewrite E5. }
  destruct (cred_link s) as [|c q] eqn:E6.
  2:{ exists TCredLink. eexists. split; [cbn; auto 10|]. cbn [step_opt]. rewrite E6, Hd.
      cbn [sum] in Hcons. destruct (N.leb_spec (pool s + c) U32_MAX); unfold U32_MAX in *; [reflexivity|lia]. }
  destruct (ret_pending s) as [c|] eqn:E4.
  { exists RFlush. eexists. split; [cbn; auto 10|]. cbn [step_opt]. rewrite E4, E5.
    change (@len N []) with 0. destruct (N.ltb_spec 0 (cap_r (cfg s))); [reflexivity|lia]. }
  destruct (link s) as [|f q] eqn:E2.
  2:{ exists TLink. apply Forall_app in Hok as [_ Hob]. rewrite ?E2 in Hob. inversion Hob; subst.
      match goal with H : frame_ok _ f = true |- _ => rename H into Hf end.
      eexists. split; [cbn; auto|]. cbn [step_opt]. rewrite E2, Hd, Hf. cbn [negb].
      rewrite costs_cons in Hcons.
      destruct (N.leb_spec (costs (rxq s) + cost f) (limit (cfg s))); [reflexivity|lia]. }
  destruct (rxq s) as [|f q] eqn:E3.
  { exfalso. apply Hnq. unfold quiet. rewrite E1, E2, E3, E4, E5, E6. tauto. }
  exists RConsume. cbn [step_opt]. rewrite E3, E4.
  destruct (feed (cm s) (rcv s) f) as [[m' r'] o].
  destruct (return_threshold (limit (cfg s)) <=? to_return s + cost f);
    [destruct (len (cred_evq s) <? cap_r (cfg s))|]; eexists; (split; [cbn; auto 10|reflexivity]).
Qed.

Lemma classic_quiet s : quiet s \/ ~ quiet s.
Proof.
  unfold quiet.
  destruct (evq s); [|right; intros (H & _); discriminate].
  destruct (link s); [|right; intros (_ & H & _); discriminate].
  destruct (rxq s); [|right; intros (_ & _ & H & _); discriminate].
  destruct (ret_pending s); [right; intros (_ & _ & _ & H & _); discriminate|].
  destruct (cred_evq s); [|right; intros (_ & _ & _ & _ & H & _); discriminate].
  destruct (cred_link s); [|right; intros (_ & _ & _ & _ & _ & H); discriminate].
  left. tauto.
Qed.

(** the operation in progress lacks the credits for its next frame *)
Definition needs_credit (o : sop) : bool :=
  match o with
  | SData _ _ _ _ a _ => a =? 0
  | SPorts _ _ a => a <? 4
  | _ => false
  end.
Definition running (o : sop) : bool :=
  match o with SData _ _ _ _ _ _ | SPorts _ _ _ => true | _ => false end.

(** C03: no deadlock, no lost credit: a running operation can always take its next step unless
    frames or credits are still on their way (in which case an internal action is enabled). *)
Lemma progress md mp s :
  Inv md mp s -> running (op s) = true -> closed s = None ->
  (exists a s', In a internal /\ step_opt s a = Some s') \/
  (needs_credit (op s) = true /\ exists s', step_opt s TReq = Some s' /\ needs_credit (op s') = false /\ running (op s') = true) \/
  (needs_credit (op s) = false /\ exists s', step_opt s TEmit = Some s').
Proof.
  intros HI Hrun Hcl.
  destruct (classic_quiet s) as [Hq|Hnq].
  2:{ left. eapply not_quiet_enabled; eauto. }
  right. pose proof (threshold_lemma _ _ _ HI Hq) as Hth.
  destruct HI as [[(Hc & Hd & Hcons & _) Hwf] _]. destruct Hq as (H1 & _).
  destruct Hc as (_ & _ & _ & _ & Hcs & _).
  assert (Hsf : slot_free s = true).
  { unfold slot_free. rewrite H1. change (@len frame []) with 0. lia. }
  destruct (op s) as [|cs rest empty first a fin|first a|rest first a] eqn:Eop; try discriminate; cbn [needs_credit assigned_of op_wf] in *.
  - destruct (N.eqb_spec a 0) as [->|Ha].
    + left. split; [reflexivity|]. cbn [step_opt]. rewrite Eop, Hcl.
      destruct (N.leb_spec 1 (pool s)); [|lia]. eexists. split; [reflexivity|]. prj. cbn [needs_credit running].
      split; [|reflexivity]. destruct empty; [lia|]. pose proof (len_pos_nonempty rest Hwf). unfold U32_MAX. lia.
    + right. split; [reflexivity|]. cbn [step_opt]. rewrite Hsf, Eop.
      destruct (N.eqb_spec a 0); [lia|].
      destruct empty; [destruct cs; [destruct fin|]|]; try (eexists; reflexivity).
      destruct (skipn _ rest); [destruct cs; [destruct fin|]|]; eexists; reflexivity.
  - destruct (N.ltb_spec a 4) as [Ha|Ha].
    + left. split; [reflexivity|]. cbn [step_opt]. rewrite Eop, Hcl.
      destruct (N.ltb_spec a 4); [|lia]. destruct (N.leb_spec 4 (pool s + a)); [|lia].
      eexists. split; [reflexivity|]. prj. cbn [needs_credit running]. split; [|reflexivity].
      pose proof (len_pos_nonempty rest Hwf). unfold U32_MAX. lia.
    + right. split; [reflexivity|]. cbn [step_opt]. rewrite Hsf, Eop.
      destruct (N.ltb_spec a 4); [lia|]. destruct (skipn _ rest); eexists; reflexivity.
Qed.

(** ** termination measure: no operation emits frames forever *)
Definition mu (o : sop) : N :=
  match o with
  | SData _ rest empty _ a _ => 2 * (len rest + (if empty then 1 else 0)) + (if a =? 0 then 1 else 0)
  | SPorts rest _ a => 2 * len rest + (if a <? 4 then 1 else 0)
  | _ => 0
  end.

Lemma emit_decreases md mp s s' : Inv md mp s -> step_opt s TEmit = Some s' -> mu (op s') < mu (op s).
Proof.
  intros [[(Hc & _) Hwf] _] H. destruct Hc as (Hc1 & _). change CFG_MIN_CHUNK_SIZE with 4 in Hc1.
  cbn [step_opt] in H. destruct (slot_free s); [|discriminate].
  destruct (op s) as [|cs rest empty first a fin|first a|rest first a] eqn:Eop; try discriminate; cbn [op_wf mu] in *.
  - destruct (N.eqb_spec a 0) as [|Ha]; [discriminate|].
    destruct empty.
    + subst rest. destruct cs; [destruct fin|]; injection H as <-; prj; cbn [mu]; change (@len N []) with 0; lia.
    + set (m := N.min (N.min (len rest) (chunk (cfg s))) a) in *.
      pose proof (len_pos_nonempty rest Hwf) as Hr1.
      pose proof (len_firstn_skipn rest (N.to_nat m)) as Hfs.
      assert (Hlc : len (firstn (N.to_nat m) rest) = m) by (unfold len; rewrite firstn_length; unfold len in *; lia).
      destruct (skipn (N.to_nat m) rest) as [|y r'] eqn:Esk.
      * destruct cs; [destruct fin|]; injection H as <-; prj; cbn [mu]; lia.
      * injection H as <-. prj. cbn [mu]. destruct (a - len (firstn (N.to_nat m) rest) =? 0); lia.
  - destruct (N.ltb_spec a 4) as [|Ha]; [discriminate|].
    set (k := N.min (len rest) (N.min (chunk (cfg s)) a / 4)) in *.
    pose proof (len_pos_nonempty rest Hwf) as Hr1.
    pose proof (len_firstn_skipn rest (N.to_nat k)) as Hfs.
    assert (Hlc : len (firstn (N.to_nat k) rest) = k) by (unfold len; rewrite firstn_length; unfold len in *; lia).
    destruct (skipn (N.to_nat k) rest) as [|y r'] eqn:Esk.
    + injection H as <-. prj. cbn [mu]. lia.
    + injection H as <-. prj. cbn [mu]. destruct (a - 4 * len (firstn (N.to_nat k) rest) <? 4); lia.
Qed.

Lemma req_decreases s s' :
  step_opt s TReq = Some s' -> running (op s') = true -> needs_credit (op s') = false -> mu (op s') < mu (op s).
Proof.
  intros H Hr Hn. cbn [step_opt] in H.
  destruct (op s) as [|cs rest empty first a fin|first a|rest first a] eqn:Eop; try discriminate.
  - destruct a; try discriminate. destruct (closed s); [injection H as <-; prj; discriminate|].
    destruct (1 <=? pool s); [|discriminate]. injection H as <-. prj. cbn [mu needs_credit] in *.
    rewrite Hn. change (0 =? 0) with true. cbv iota. lia.
  - destruct (N.ltb_spec a 4) as [Ha|]; [|discriminate].
    destruct (closed s); [injection H as <-; prj; discriminate|].
    destruct (4 <=? pool s + a); injection H as <-; prj; cbn [mu needs_credit] in *; [|discriminate].
    rewrite Hn. destruct (N.ltb_spec a 4); lia.
Qed.

Lemma emitted_parse md mp s : Inv md mp s -> parse (emitted s) = completed s.
Proof. intros [_ (_ & (ps & Hpar & _) & _)]. unfold parse. now rewrite Hpar. Qed.

(** fail-stop at the port: once the credit pool is closed (the remote receiver closed or dropped, or the
    dispatcher and with it the pool is gone) an operation waiting for credits is woken and ends with an
    error instead of waiting forever *)
Lemma closed_wakes_waiter s g :
  closed s = Some g -> running (op s) = true -> needs_credit (op s) = true ->
  exists s', step_opt s TReq = Some s' /\ op s' = SIdle.
Proof.
  intros Hc Hr Hn. cbn [step_opt].
  destruct (op s) as [|cs rest empty first a fin|first a|rest first a] eqn:Eop; try discriminate; cbn [needs_credit] in Hn.
  - apply N.eqb_eq in Hn. subst a. rewrite Hc. eexists. split; [reflexivity|]. reflexivity.
  - rewrite Hn, Hc. eexists. split; [reflexivity|]. reflexivity.
Qed.

(** ** end-of-stream: the [Finished] marker travels the same FIFO as the data *)
Lemma frame_eq_fin f : f = FFin \/ f <> FFin.
Proof. destruct f; [right|right|left]; congruence. Qed.

Lemma handle_any_finished r f : f <> FFin -> finished (fst (handle_any r f)) = finished r.
Proof.
  intros Hf. destruct f as [fi la b|fi la ps|]; [| |congruence]; unfold handle_any.
  - destruct (if fi then RData [] 0 else rcving r); try reflexivity.
    repeat match goal with |- context [if ?b then _ else _] => destruct b end; reflexivity.
  - destruct (if fi then RReq [] else rcving r); try reflexivity.
    repeat match goal with |- context [if ?b then _ else _] => destruct b end; reflexivity.
Qed.

Lemma handle_chunk_finished r f : f <> FFin -> finished (fst (handle_chunk r f)) = finished r.
Proof.
  intros Hf. destruct f as [fi la b|fi la ps|]; [| |congruence]; unfold handle_chunk.
  - destruct (rcving r), fi; reflexivity.
  - destruct (rcving r); reflexivity.
Qed.

Lemma drain_finished acc r : finished (snd (fst (drain acc r))) = finished r.
Proof. unfold drain. destruct (rcving r) as [| | q c|]; try reflexivity. destruct c; reflexivity. Qed.

Lemma feed_any_finished r f : f <> FFin -> finished (snd (fst (feed_any r f))) = finished r.
Proof.
  intros Hf. unfold feed_any. pose proof (handle_any_finished r f Hf) as H.
  destruct (handle_any r f) as [r1 o1]. cbn [fst] in H.
  destruct o1 as [[]|]; cbn [fst snd]; try exact H. rewrite drain_finished. exact H.
Qed.

Lemma feed_finished_frame m r f m' r' o :
  feed m r f = (m', r', o) -> finished r = false -> finished r' = true -> f = FFin.
Proof.
  intros H Hf Hf'. destruct (frame_eq_fin f) as [->|Hne]; [reflexivity|]. exfalso.
  assert (Hx : finished r' = false); [|congruence].
  replace r' with (snd (fst (feed m r f))) by now rewrite H.
  unfold feed. rewrite Hf. destruct m as [|acc]; [now rewrite feed_any_finished|].
  pose proof (handle_chunk_finished r f Hne) as Hc.
  destruct (handle_chunk r f) as [r1 o1]. cbn [fst] in Hc. rewrite Hf in Hc.
  destruct o1 as [[]|]; cbn [fst snd]; try exact Hc.
  - rewrite drain_finished. exact Hc.
  - destruct (restarted r1) as [[b0 l0]|]; [|exact Hc].
    rewrite feed_any_finished by discriminate. cbn [finished set_restarted]. exact Hc.
Qed.

Definition inv_fin (s : st) : Prop :=
  (finished (rcv s) = true -> In FFin (consumed s)) /\
  (tx_dropped s = false -> ~ In FFin (emitted s)) /\
  (tx_dropped s = true -> exists l, emitted s = l ++ [FFin] /\ ~ In FFin l).

Lemma inv_fin_init c md mp : inv_fin (init c md mp).
Proof. unfold inv_fin, init; prj. cbn. repeat split; intros; try discriminate; auto. Qed.

Lemma try_chunks_no_fin fuel ck data first slots : ~ In FFin (fst (try_chunks fuel ck data first slots)).
Proof.
  revert data first slots; induction fuel as [|fuel IH]; intros data first slots; cbn [try_chunks]; [cbn; tauto|].
  destruct data as [|x d]; [cbn; tauto|]. destruct (slots =? 0); [cbn; tauto|].
  match goal with |- context [try_chunks fuel ck ?d ?f ?sl] => specialize (IH d f sl); destruct (try_chunks fuel ck d f sl) as [fs ok] end.
  cbn [fst] in *. intros [H|H]; [discriminate|tauto].
Qed.

Lemma in_snoc_not {A} (x y : A) l : ~ In x l -> x <> y -> ~ In x (l ++ [y]).
Proof. intros H1 H2 H. apply in_app_or in H as [H|[H|[]]]; auto. Qed.

Lemma inv_fin_step md mp s a s' :
  inv_str md mp s -> inv_fin s -> step_opt s a = Some s' -> inv_fin s'.
Proof.
  intros (_ & (ps & _ & _ & Hdr2 & _) & _) (Hfin & Hnd & Hd) H.
  (* what can change: [emitted]/[tx_dropped] (sending side) and [consumed]/[rcv] (RConsume) *)
  assert (Hkeep : emitted s' = emitted s -> tx_dropped s' = tx_dropped s -> consumed s' = consumed s -> rcv s' = rcv s -> inv_fin s').
  { intros E1 E2 E3 E4. unfold inv_fin. rewrite E1, E2, E3, E4. auto. }
  destruct (tx_dropped s) eqn:Et.
  - (* the sender is gone: nothing is emitted any more *)
    pose proof (Hdr2 eq_refl) as Hop.
    destruct a; unfold step_opt in H; rewrite ?Hop, ?Et in H; try discriminate;
      try solve [cases; apply Hkeep; prj; auto].
    (* RConsume *)
    destruct (rxq s) as [|f q]; [discriminate|]. destruct (ret_pending s); [discriminate|].
    destruct (feed (cm s) (rcv s) f) as [[m' r'] o] eqn:Ef.
    assert (Hc : finished r' = true -> In FFin (consumed s ++ [f])).
    { intros Hf'. destruct (finished (rcv s)) eqn:Ef0.
      - apply in_or_app. left. auto.
      - rewrite (feed_finished_frame _ _ _ _ _ _ Ef Ef0 Hf'). apply in_or_app. right. now left. }
    cases; unfold inv_fin; prj; rewrite Et; repeat split; auto; intros; discriminate.
  - specialize (Hnd eq_refl).
    assert (Hemit : forall f, f <> FFin -> ~ In FFin (emitted s ++ [f])) by (intros; apply in_snoc_not; auto).
    destruct a; unfold step_opt in H; rewrite ?Et in H.
    all: try solve [cases; apply Hkeep; prj; auto].
    + (* UTrySend *)
      cases; try solve [apply Hkeep; prj; auto].
      * unfold inv_fin; prj. rewrite Et. repeat split; auto; [intros _; apply Hemit; discriminate|intros; discriminate].
      * match goal with E : try_chunks ?f ?c ?d ?fi ?sl = (?fs, ?ok) |- _ =>
          pose proof (try_chunks_no_fin f c d fi sl) as Hnf; rewrite E in Hnf; cbn [fst] in Hnf end.
        destruct b; unfold inv_fin; prj; rewrite Et; (repeat split; auto;
          [intros _ Hin; apply in_app_or in Hin as [Hin|Hin]; [now apply Hnd|now apply Hnf] | intros; discriminate]).
    + (* UDropTx *)
      cases. unfold inv_fin; prj. repeat split; auto; [intros; discriminate|]. intros _. exists (emitted s). split; auto.
    + (* TEmit *)
      destruct (slot_free s); [|discriminate].
      destruct (op s) as [|cs rest empty first a0 fin|first a0|rest first a0]; try discriminate.
      * destruct (a0 =? 0); [discriminate|].
        destruct empty; [destruct cs; [destruct fin|]|];
          try (injection H as <-; unfold inv_fin; prj; rewrite Et; repeat split; auto;
               [intros _; apply Hemit; discriminate | intros; discriminate]).
        destruct (skipn _ rest); [destruct cs; [destruct fin|]|]; injection H as <-; unfold inv_fin; prj; rewrite Et;
          (repeat split; auto; [intros _; apply Hemit; discriminate | intros; discriminate]).
      * destruct (a0 <? 4); [discriminate|].
        destruct (skipn _ rest); injection H as <-; unfold inv_fin; prj; rewrite Et;
          (repeat split; auto; [intros _; apply Hemit; discriminate | intros; discriminate]).
    + (* RConsume *)
      destruct (rxq s) as [|f q]; [discriminate|]. destruct (ret_pending s); [discriminate|].
      destruct (feed (cm s) (rcv s) f) as [[m' r'] o] eqn:Ef.
      assert (Hc : finished r' = true -> In FFin (consumed s ++ [f])).
      { intros Hf'. destruct (finished (rcv s)) eqn:Ef0.
        - apply in_or_app. left. auto.
        - rewrite (feed_finished_frame _ _ _ _ _ _ Ef Ef0 Hf'). apply in_or_app. right. now left. }
      cases; unfold inv_fin; prj; rewrite Et; repeat split; auto; intros; discriminate.
Qed.

Lemma fin_last_unique {A} (x : A) (a b l : list A) :
  a ++ b = l ++ [x] -> In x a -> ~ In x l -> b = [].
Proof.
  revert a b. induction l as [|y l IH]; intros a b H Hin Hnl.
  - destruct a as [|a0 a]; [destruct Hin|]. cbn in H. injection H as -> H.
    destruct a; [exact H|discriminate].
  - destruct a as [|a0 a]; [destruct Hin|]. cbn in H. injection H as -> H.
    destruct Hin as [->|Hin]; [exfalso; apply Hnl; now left|].
    apply (IH a b H Hin). intros Hx. apply Hnl. now right.
Qed.

(** C11: when the receiver sees end-of-stream it has obtained every completed send *)
Lemma eos_complete md mp s :
  Inv md mp s -> inv_fin s -> finished (rcv s) = true ->
  data_of (delivered_msgs (delivered s)) = data_of (completed s) /\ rxq s = [] /\ link s = [] /\ evq s = [].
Proof.
  intros HI (Hfin & Hnd & Hd) Hf. pose proof HI as [_ (Hfifo & (ps & Hpar & Hdr & Hdr2 & _) & Hfeed)].
  specialize (Hfin Hf).
  destruct (tx_dropped s) eqn:Et.
  2:{ exfalso. apply (Hnd eq_refl). rewrite <- Hfifo. apply in_or_app. now left. }
  destruct (Hd eq_refl) as (l & Hl & Hnl).
  assert (Hrest : rxq s ++ link s ++ evq s = []).
  { eapply fin_last_unique; [|exact Hfin|exact Hnl]. rewrite <- Hl. exact Hfifo. }
  apply app_eq_nil in Hrest as [H1 Hrest]. apply app_eq_nil in Hrest as [H2 H3].
  split; [|auto]. apply (delivery_complete md mp s HI H1 H2 H3). left. now apply Hdr2.
Qed.

Lemma inv_fin_run c md mp acts : cfg_ok c -> inv_fin (run acts (init c md mp)).
Proof.
  intros Hc. unfold run.
  assert (H0 : Inv md mp (init c md mp) /\ inv_fin (init c md mp)).
  { split; [|apply inv_fin_init]. split; [split; [now apply inv_num_init|exact I]|apply inv_str_init]. }
  revert H0. generalize (init c md mp) as s. induction acts as [|a acts IH]; intros s [HI Hf]; cbn [fold_left]; auto.
  apply IH. split; [now apply Inv_step|].
  unfold step. destruct (step_opt s a) as [s'|] eqn:E; auto.
  destruct HI as [_ Hs]. eapply inv_fin_step; eauto.
Qed.

(** after the pool is closed no new send completes: it is started, woken and ends with an error *)
Lemma send_after_close_fails s g data :
  closed s = Some g -> op s = SIdle -> tx_dropped s = false -> data <> [] ->
  let s' := run [USend data; TReq] s in
  op s' = SIdle /\ completed s' = completed s /\ emitted s' = emitted s /\ pool s' = pool s.
Proof.
  intros Hc Ho Ht Hd. destruct data as [|x d]; [congruence|].
  set (s1 := s <| op := SData false (x :: d) false true 0 true |> <| cur := [] |>).
  assert (E1 : step s (USend (x :: d)) = s1).
  { unfold step. cbn [step_opt]. now rewrite Ho, Ht. }
  assert (E2 : step s1 TReq = finish_op s1 0 None).
  { unfold step. cbn [step_opt]. subst s1. prj. now rewrite Hc. }
  unfold run. cbn [fold_left]. rewrite E1, E2. subst s1. prj. repeat split; try reflexivity. lia.
Qed.
