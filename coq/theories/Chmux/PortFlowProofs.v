(** Invariants of the port-flow system, for every schedule. *)
From Remoc Require Import Lib.Base Gen.Consts Chmux.Parse Chmux.Recv Chmux.RecvProofs Chmux.PortFlow.
From RecordUpdate Require Import RecordUpdate.

Ltac prj :=
  cbn [cfg pool closed op tx_dropped evq link rxq cm rcv to_return ret_pending cred_evq cred_link dead cur emitted
       consumed completed delivered sent_cost granted set RecordSet.set finish_op emit assigned_of pend
       chunk limit cap_s cap_r] in *.

Lemma sum_snoc l x : sum (l ++ [x]) = sum l + x.
Proof. rewrite sum_app. cbn [sum]. lia. Qed.
Lemma costs_snoc l f : costs (l ++ [f]) = costs l + cost f.
Proof. rewrite costs_app. cbn [costs map sum]. unfold costs. cbn [map sum]. lia. Qed.

(** ** frames produced by [try_send] *)
Lemma len_firstn_min {A} (l : list A) (n : N) : len (firstn (N.to_nat (N.min (len l) n)) l) = N.min (len l) n.
Proof. unfold len. rewrite firstn_length. lia. Qed.
Lemma len_firstn_le {A} (l : list A) k : len (firstn k l) <= len l.
Proof. unfold len. rewrite firstn_length. lia. Qed.
Lemma len_firstn_skipn {A} (l : list A) k : len (firstn k l) + len (skipn k l) = len l.
Proof. rewrite <- len_app. now rewrite firstn_skipn. Qed.

Lemma cost_data_nonempty f l b : b <> [] -> cost (FData f l b) = len b.
Proof. intros H. cbn [cost]. destruct b; [congruence|]. rewrite len_cons. lia. Qed.

Lemma try_chunks_costs fuel ck data first slots :
  1 <= ck -> costs (fst (try_chunks fuel ck data first slots)) <= len data.
Proof.
  intros Hck. revert data first slots; induction fuel as [|fuel IH]; intros data first slots; cbn [try_chunks].
  - cbn. lia.
  - destruct data as [|x data']; [cbn; lia|]. set (data := x :: data') in *.
    destruct (slots =? 0); [cbn; lia|].
    set (k := N.to_nat (N.min (len data) ck)).
    specialize (IH (skipn k data) false (slots - 1)).
    destruct (try_chunks fuel ck (skipn k data) false (slots - 1)) as [fs ok]. cbn [fst] in *.
    rewrite costs_cons.
    assert (Hne : firstn k data <> []).
    { subst k data. rewrite len_cons. destruct (N.to_nat (N.min (1 + len data') ck)) eqn:E; [lia|]. cbn. congruence. }
    rewrite cost_data_nonempty by exact Hne. pose proof (len_firstn_skipn data k). lia.
Qed.

Lemma try_chunks_ok fuel ck data first slots :
  Forall (fun f => frame_ok ck f = true) (fst (try_chunks fuel ck data first slots)).
Proof.
  revert data first slots; induction fuel as [|fuel IH]; intros data first slots; cbn [try_chunks]; [constructor|].
  destruct data as [|x data']; [constructor|]. set (data := x :: data') in *.
  destruct (slots =? 0); [constructor|].
  set (k := N.to_nat (N.min (len data) ck)).
  specialize (IH (skipn k data) false (slots - 1)).
  destruct (try_chunks fuel ck (skipn k data) false (slots - 1)) as [fs ok]. cbn [fst] in *.
  constructor; [|exact IH]. cbn [frame_ok]. subst k. rewrite len_firstn_min. lia.
Qed.

(** ** numeric invariant: conservation of credits and everything that follows by arithmetic *)
Definition inv_num (s : st) : Prop :=
  cfg_ok (cfg s) /\
  dead s = None /\
  pool s + assigned_of (op s) + costs (evq s) + costs (link s) + costs (rxq s) + to_return s
    + pend (ret_pending s) + sum (cred_evq s) + sum (cred_link s) = limit (cfg s) /\
  to_return s < return_threshold (limit (cfg s)) /\
  sent_cost s = costs (consumed s) + costs (rxq s) + costs (link s) /\
  granted s + pend (ret_pending s) + sum (cred_evq s) + sum (cred_link s) + to_return s = costs (consumed s) /\
  Forall (fun f => frame_ok (chunk (cfg s)) f = true) (evq s ++ link s).

Lemma threshold_pos l : 1 <= return_threshold l.
Proof. unfold return_threshold. destruct (N.leb_spec 8 l); lia. Qed.

Lemma inv_num_init c md mp : cfg_ok c -> inv_num (init c md mp).
Proof.
  intros H. unfold inv_num, init; prj. split; [exact H|].
  pose proof (threshold_pos (limit c)).
  repeat split; auto; cbn [costs map sum app]; try lia. constructor.
Qed.

Lemma Forall_snoc {A} (P : A -> Prop) l x : Forall P l -> P x -> Forall P (l ++ [x]).
Proof. intros. apply Forall_app. split; auto. Qed.

Lemma Forall_mid {A} (P : A -> Prop) (a b : list A) x :
  Forall P ((x :: a) ++ b) -> Forall P (a ++ (b ++ [x])).
Proof.
  intros H. apply Forall_app in H as [Ha Hb]. inversion Ha; subst.
  apply Forall_app; split; auto. apply Forall_app; split; auto.
Qed.

Ltac cases :=
  repeat match goal with
  | H : match ?x with _ => _ end = Some _ |- _ =>
      let E := fresh "E" in destruct x eqn:E; try discriminate
  | H : (if ?x then _ else _) = Some _ |- _ =>
      let E := fresh "E" in destruct x eqn:E; try discriminate
  | H : (let '(_, _) := ?x in _) = Some _ |- _ =>
      let E := fresh "E" in destruct x eqn:E
  | H : Some _ = Some _ |- _ => injection H as <-
  end.

(** well-formed operation state: a data call with [empty = false] has data left, etc. *)
Definition op_wf (o : sop) : Prop :=
  match o with
  | SData _ rest empty _ _ _ => if empty then rest = [] else rest <> []
  | SPorts rest _ _ => rest <> []
  | _ => True
  end.

Definition inv_n (s : st) : Prop := inv_num s /\ op_wf (op s).

Ltac rw1 f :=
  try match goal with E : f ?s = _ |- _ => rewrite ?E in *; generalize E; clear E; rewrite ?E in *; intro end.
Ltac rw :=
  repeat match goal with
  | E : ?f ?s = ?v |- _ =>
      match f with op => idtac | evq => idtac | link => idtac | rxq => idtac | cred_evq => idtac
                 | cred_link => idtac | ret_pending => idtac end;
      match goal with
      | |- context [f s] => rewrite E
      | H : context [f s] |- _ => lazymatch H with E => fail | _ => rewrite E in H end
      end
  end.

Ltac num :=
  prj; unfold U32_MAX in *; rewrite ?costs_snoc, ?sum_snoc, ?costs_app, ?costs_cons, ?costs_nil in *; cbn [cost sum] in *;
  change (@len N []) with 0 in *; try lia.

Lemma len_pos_nonempty {A} (l : list A) : l <> [] -> 1 <= len l.
Proof. destruct l; [congruence|]. rewrite len_cons. lia. Qed.

Lemma skipn_nil_len {A} (l : list A) k : skipn k l = [] -> len (firstn k l) = len l.
Proof. intros H. pose proof (len_firstn_skipn l k). rewrite H, len_nil in *. lia. Qed.

Lemma inv_n_step s a s' : inv_n s -> step_opt s a = Some s' -> inv_n s'.
Proof.
  intros [(Hc & Hd & Hcons & Hth & Hsent & Hgr & Hok) Hwf] H.
  pose proof Hc as (Hc1 & Hc2 & Hc3 & Hc4 & Hc5 & Hc6).
  change CFG_MIN_CHUNK_SIZE with 4 in Hc1. change CFG_MIN_RECEIVE_BUFFER with 4 in Hc2. unfold U32_MAX in *.
  pose proof (threshold_pos (limit (cfg s))) as Hthp.
  destruct a; unfold step_opt in H.
  - (* USend *) cases. unfold inv_n, inv_num; prj; rw.
    repeat split; auto; num. destruct data; [reflexivity|congruence].
  - (* UTrySend *) cases; unfold inv_n, inv_num; prj; rw; try (repeat split; auto; num; fail).
    + (* empty message *)
      repeat split; auto; num.
      rewrite <- app_assoc. apply Forall_app in Hok as [Ha Hb]. apply Forall_app; split; auto.
      constructor; auto. cbn [frame_ok]. change (@len N []) with 0. lia.
    + (* chunks *)
      lazymatch goal with E : try_chunks ?f ?c ?d ?fi ?sl = (?fs, ?ok) |- _ =>
        pose proof (try_chunks_costs f c d fi sl ltac:(lia)) as Hcs;
        pose proof (try_chunks_ok f c d fi sl) as Hfs; rewrite E in Hcs, Hfs; cbn [fst] in Hcs, Hfs;
        assert (Hle : costs fs <= pool s) by (unfold U32_MAX in *; lia);
        destruct ok; prj; rw; (repeat split; auto; num;
          try (rewrite <- app_assoc; apply Forall_app in Hok as [Ha Hb]; apply Forall_app; split; auto; apply Forall_app; split; auto))
      end.
  - (* UChunkStart *) cases. unfold inv_n, inv_num; prj; rw. repeat split; auto; num.
  - (* UChunk *) cases. unfold inv_n, inv_num; prj; rw. repeat split; auto; num. destruct data; [reflexivity|congruence].
  - (* UConnect *) cases; unfold inv_n, inv_num; prj; rw; repeat split; auto; num. congruence.
  - (* UCancel *) cases; unfold inv_n, inv_num; prj; rw; repeat split; auto; num.
  - (* UDropTx *) cases. unfold inv_n, inv_num; prj; rw. repeat split; auto; num.
    rewrite <- app_assoc. apply Forall_app in Hok as [Ha Hb]. apply Forall_app; split; auto. constructor; auto.
  - (* TReq *) cases; unfold inv_n, inv_num; prj; rw; cbn [op_wf] in *; repeat split; auto; num.
  - (* TEmit *)
    destruct (slot_free s) eqn:Esf; [|discriminate].
    destruct (op s) as [|cs rest empty first a fin|first a|rest first a] eqn:Eop; try discriminate.
    + (* data *)
      destruct (a =? 0) eqn:Ea; [discriminate|]. cbn [op_wf] in Hwf.
      apply Forall_app in Hok as [Hoa Hob].
      destruct empty.
      * (* the single frame of an empty call *)
        assert (Hfo : Forall (fun f => frame_ok (chunk (cfg s)) f = true) ((evq s ++ [FData first fin []]) ++ link s)).
        { rewrite <- app_assoc. apply Forall_app; split; auto. constructor; auto. cbn [frame_ok]. change (@len N []) with 0. lia. }
        destruct cs; [destruct fin|]; injection H as <-; unfold inv_n, inv_num; prj; repeat split; auto; num.
      * set (m := N.min (N.min (len rest) (chunk (cfg s))) a) in *.
        pose proof (len_pos_nonempty rest Hwf) as Hr1.
        assert (Hlc : len (firstn (N.to_nat m) rest) = m) by (unfold len; rewrite firstn_length; unfold len in *; lia).
        assert (Hm1 : 1 <= m) by lia.
        assert (Hcost : forall f l, cost (FData f l (firstn (N.to_nat m) rest)) = m).
        { intros. cbn [cost]. rewrite Hlc. lia. }
        assert (Hfo : forall f l, Forall (fun f => frame_ok (chunk (cfg s)) f = true)
                          ((evq s ++ [FData f l (firstn (N.to_nat m) rest)]) ++ link s)).
        { intros. rewrite <- app_assoc. apply Forall_app; split; auto. constructor; auto. cbn [frame_ok]. rewrite Hlc. lia. }
        destruct (skipn (N.to_nat m) rest) as [|y r'] eqn:Esk.
        -- destruct cs; [destruct fin|]; injection H as <-; unfold inv_n, inv_num; prj;
             rewrite ?costs_snoc, ?Hcost, ?Hlc; repeat split; auto; try apply Hfo; num.
        -- injection H as <-. unfold inv_n, inv_num; prj. rewrite ?costs_snoc, ?Hcost, ?Hlc.
           repeat split; auto; try apply Hfo; num. cbn [op_wf]. congruence.
    + (* ports *)
      destruct (a <? 4) eqn:Ea; [discriminate|]. cbn [op_wf] in Hwf.
      apply Forall_app in Hok as [Hoa Hob].
      set (k := N.min (len rest) (N.min (chunk (cfg s)) a / 4)) in *.
      pose proof (len_pos_nonempty rest Hwf) as Hr1.
      assert (Hlc : len (firstn (N.to_nat k) rest) = k) by (unfold len; rewrite firstn_length; unfold len in *; lia).
      assert (Hk : 1 <= k /\ 4 * k <= a /\ 4 * k <= chunk (cfg s)) by lia.
      assert (Hcost : forall f l, cost (FPorts f l (firstn (N.to_nat k) rest)) = 4 * k).
      { intros. cbn [cost]. now rewrite Hlc. }
      assert (Hfo : forall f l, Forall (fun f => frame_ok (chunk (cfg s)) f = true)
                        ((evq s ++ [FPorts f l (firstn (N.to_nat k) rest)]) ++ link s)).
      { intros. rewrite <- app_assoc. apply Forall_app; split; auto. constructor; auto. cbn [frame_ok]. rewrite Hlc. lia. }
      destruct (skipn (N.to_nat k) rest) as [|y r'] eqn:Esk.
      * injection H as <-. unfold inv_n, inv_num; prj. rewrite ?costs_snoc, ?Hcost, ?Hlc.
        repeat split; auto; try apply Hfo; num.
      * injection H as <-. unfold inv_n, inv_num; prj. rewrite ?costs_snoc, ?Hcost, ?Hlc.
        repeat split; auto; try apply Hfo; num. cbn [op_wf]. congruence.
  - (* TMux *) cases. unfold inv_n, inv_num; prj; rw. repeat split; auto; num.
    apply (Forall_mid _ l (link s) f). exact Hok.
  - (* TLink *) cases; unfold inv_n, inv_num; prj; rw.
    + exfalso. apply Forall_app in Hok as [_ Hb]. inversion Hb; subst. rewrite H1 in E1. discriminate.
    + repeat split; auto; num. apply Forall_app in Hok as [Ha Hb]. inversion Hb; subst. apply Forall_app; split; auto.
    + exfalso. num.
  - (* RConsume *) cases; unfold inv_n, inv_num; prj; rw; repeat split; auto; num.
  - (* RFlush *) cases; unfold inv_n, inv_num; prj; rw; repeat split; auto; num.
  - (* TCredMux *) cases; unfold inv_n, inv_num; prj; rw; repeat split; auto; num.
  - (* TCredLink *) cases; unfold inv_n, inv_num; prj; rw.
    + repeat split; auto; num.
    + exfalso. num.
  - (* TClose *) cases; unfold inv_n, inv_num; prj; rw; repeat split; auto; num.
Qed.
