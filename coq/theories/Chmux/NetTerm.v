(** C07 for the composed system: once no user object is left on either side, the remaining enabled
    actions (helper tasks, dispatcher steps, deliveries) each decrease a measure, and when none is
    enabled both dispatchers have ended successfully (Goodbye sent and received). *)
From Remoc Require Import Lib.Base Gen.Consts Chmux.Wire Chmux.Mux Chmux.Endpoint Chmux.EndpointLemmas Chmux.EndpointInv
  Chmux.EndpointSteps Chmux.EndpointDisp Chmux.EndpointRecv Chmux.EndpointEffects Chmux.EndpointProofs Chmux.EndpointDeath
  Chmux.Net Chmux.NetInv Chmux.NetFrame Chmux.NetShape Chmux.NetSteps Chmux.NetRecvStep Chmux.NetProofs Chmux.NetQuiet Chmux.NetQuiet2 Chmux.NetQuiet3.
From RecordUpdate Require Import RecordUpdate.

(** * Searching an association list through [lookup] *)
Lemma length_remove {A} k (l : list (N * A)) : (length (remove k l) <= length l)%nat.
Proof. induction l as [|[k1 v] l IH]; cbn [remove length]; [lia|]. destruct (k =? k1); cbn [length]; lia. Qed.

Lemma lookup_search {A} (P : A -> bool) : forall (fuel : nat) (l : list (N * A)), (length l <= fuel)%nat ->
  (exists k v, lookup k l = Some v /\ P v = true) \/ (forall k v, lookup k l = Some v -> P v = false).
Proof.
  induction fuel as [|fuel IH]; intros l Hl.
  - destruct l; [|cbn [length] in Hl; lia]. right. intros k v H. discriminate.
  - destruct l as [|[k0 v0] r]; [right; intros k v H; discriminate|].
    destruct (P v0) eqn:Ep.
    + left. exists k0, v0. cbn [lookup]. now rewrite N.eqb_refl.
    + cbn [length] in Hl. pose proof (length_remove k0 r). destruct (IH (remove k0 r)) as [(k & v & H1 & H2)|Hall]; [lia| |].
      * left. exists k, v. split; [|exact H2]. rewrite lookup_remove in H1. cbn [lookup]. destruct (k =? k0); [discriminate|exact H1].
      * right. intros k v Hk. cbn [lookup] in Hk. destruct (k =? k0) eqn:E; [congruence|]. apply (Hall k v). now rewrite lookup_remove, E.
Qed.
Lemma lookup_dec {A} (P : A -> bool) (l : list (N * A)) :
  (exists k v, lookup k l = Some v /\ P v = true) \/ (forall k v, lookup k l = Some v -> P v = false).
Proof. apply (lookup_search P (length l)). lia. Qed.

(** * The composed state without user objects, the measure, the system actions *)
Definition nquiet (n : net) : Prop :=
  equiet (na n) /\ equiet (nb n) /\ cnt m_ispo (lab n) = 0 /\ cnt m_ispo (lba n) = 0.
Definition mu (n : net) : N :=
  w_ep (na n) + w_ep (nb n) + sum (map w_frame (lab n)) + sum (map w_frame (lba n)).
Definition sys_act (a : act) : bool :=
  match a with NTx _ | NRx _ | NReq _ | DPort | DConn | DListenerDropped | DGoodbye => true | _ => false end.
Definition sys_nact (a : nact) : bool := match a with Loc _ a => sys_act a | Deliver _ => true end.

Definition finished_ok (e : ep) : Prop :=
  dead e = None /\ goodbye_sent (mx e) = true /\ goodbye_received (mx e) = true.

(** one system action of an endpoint *)
Lemma local_dec e a e' : sys_act a = true -> step_opt e a = Some e' -> equiet e -> WF e ->
  equiet e' /\ w_ep e' + sum (map w_frame (new_frames e e')) + 1 <= w_ep e /\ cnt m_ispo (new_frames e e') = 0 /\ dead e' = dead e.
Proof.
  intros Hs H Hq Hw. pose proof (wf_nopanic _ (WF_step _ _ _ Hw H)) as Hp. destruct a; try discriminate.
  - destruct (q_NTx _ _ _ H Hq) as (A1 & A2 & A3 & A4 & A5). rewrite (new_frames_same _ _ A4). cbn [map sum]. split; [exact A1|split; [lia|split; [reflexivity|exact A5]]].
  - destruct (q_NRx _ _ _ H Hq) as (A1 & A2 & A3 & A4 & A5). rewrite (new_frames_same _ _ A4). cbn [map sum]. split; [exact A1|split; [lia|split; [reflexivity|exact A5]]].
  - destruct (q_NReq _ _ _ H Hq) as (A1 & A2 & A3 & A4 & A5). rewrite (new_frames_same _ _ A4). cbn [map sum]. split; [exact A1|split; [lia|split; [reflexivity|exact A5]]].
  - now apply q_DPort.
  - now apply q_DConn.
  - now apply q_DListenerDropped.
  - now apply q_DGoodbye.
Qed.

(** * The good states, seen from one side *)
Record OkS (X Y : ep) (L L' : list frame) : Prop := mk_OkS {
  o_dx : dead X = None; o_dy : dead Y = None;
  o_sys : Sys X Y L L';
  o_clx : cl_ok X; o_cly : cl_ok Y;
  o_gxy : gb_ok X Y L; o_gyx : gb_ok Y X L';
  o_qx : equiet X; o_qy : equiet Y;
  o_px : cnt m_ispo L = 0; o_py : cnt m_ispo L' = 0
}.
Definition muS (X Y : ep) (L L' : list frame) : N := w_ep X + w_ep Y + sum (map w_frame L) + sum (map w_frame L').

Lemma OkS_sym X Y L L' : OkS X Y L L' -> OkS Y X L' L.
Proof. intros [A1 A2 A3 A4 A5 A6 A7 A8 A9 A10 A11]. constructor; auto. now apply Sys_sym. Qed.
Lemma muS_sym X Y L L' : muS Y X L' L = muS X Y L L'.
Proof. unfold muS. lia. Qed.

Lemma okS_local X Y L L' a X' :
  OkS X Y L L' -> sys_act a = true -> step_opt X a = Some X' ->
  OkS X' Y (L ++ new_frames X X') L' /\ muS X' Y (L ++ new_frames X X') L' < muS X Y L L'.
Proof.
  intros [A1 A2 A3 A4 A5 A6 A7 A8 A9 A10 A11] Hs H.
  assert (Hr : is_recv a = false) by (destruct a; try discriminate; reflexivity).
  pose proof A3 as (Hwx & _ & _).
  destruct (local_dec _ _ _ Hs H A8 Hwx) as (B1 & B2 & B3 & B4).
  destruct (sys_local _ _ _ _ _ _ A3 Hr H) as [C1 _].
  destruct (Extra_local _ _ _ _ _ _ A4 A6 A7 H Hr) as (D1 & D2 & D3).
  split.
  - constructor; auto; try congruence. rewrite cnt_app. lia.
  - unfold muS. rewrite map_app, sum_app. lia.
Qed.

Lemma okS_recv X Y L0 L' msg pl Y' :
  OkS X Y ((msg, pl) :: L0) L' -> step_opt Y (Recv msg (paylen_of pl)) = Some Y' -> dead Y' = None ->
  OkS X Y' L0 L' /\ muS X Y' L0 L' < muS X Y ((msg, pl) :: L0) L'.
Proof.
  intros [A1 A2 A3 A4 A5 A6 A7 A8 A9 A10 A11] H Hd.
  destruct (sys_recv _ _ _ _ _ _ _ A3 H) as [C1 _]. specialize (C1 Hd).
  destruct (Extra_recv _ _ _ _ _ _ _ A5 A6 A7 H) as (D1 & D2 & D3).
  rewrite cnt_cons in A10. cbn [fst] in A10.
  assert (Hpo : m_ispo msg = false) by (destruct (m_ispo msg); [cbn [b2n] in A10; lia|reflexivity]).
  destruct (q_Recv _ _ _ _ H A9 Hpo Hd) as (B1 & B2 & B3).
  split.
  - constructor; auto. rewrite Hpo in A10. cbn [b2n] in A10. lia.
  - unfold muS. cbn [map sum]. change (w_frame (msg, pl)) with (w_msg msg). lia.
Qed.

(** * Enabledness *)
Lemma alive_iff e : dead e = None -> panicked e = None ->
  alive e = negb (goodbye_sent (mx e) && goodbye_received (mx e)).
Proof. intros H1 H2. unfold alive. now rewrite H1, H2. Qed.

Lemma en_Recv e msg n : alive e = true -> exists e', step_opt e (Recv msg n) = Some e'.
Proof. intros Ha. unfold step_opt. rewrite Ha. cbn [negb]. eauto. Qed.
Lemma en_NTx e p h : alive e = true -> lookup p (handles e) = Some h -> h_tx h = Dropped -> exists e', step_opt e (NTx p) = Some e'.
Proof. intros Ha Hl Hh. unfold step_opt. rewrite Ha, Hl, Hh. cbn [negb]. eauto. Qed.
Lemma en_NRx e p h : alive e = true -> lookup p (handles e) = Some h -> h_rx h = Dropped -> exists e', step_opt e (NRx p) = Some e'.
Proof. intros Ha Hl Hh. unfold step_opt. rewrite Ha, Hl, Hh. cbn [negb]. eauto. Qed.
Lemma en_NReq e r : alive e = true -> lookup r (requests e) = Some RDropped -> exists e', step_opt e (NReq r) = Some e'.
Proof. intros Ha Hl. unfold step_opt. rewrite Ha, Hl. cbn [negb]. eauto. Qed.
Lemma en_DPort e ev q : alive e = true -> goodbye_sent (mx e) = false -> chq e = ev :: q -> exists e', step_opt e DPort = Some e'.
Proof. intros Ha Hg Hq. unfold step_opt, sending. rewrite Ha, Hg, Hq. cbn [negb]. eauto. Qed.
Lemma en_DConn e ev q : alive e = true -> goodbye_sent (mx e) = false -> cq e = ev :: q -> exists e', step_opt e DConn = Some e'.
Proof. intros Ha Hg Hq. unfold step_opt, sending. rewrite Ha, Hg, Hq. cbn [negb]. eauto. Qed.
Lemma en_DListenerDropped e : alive e = true -> goodbye_sent (mx e) = false -> listener_alive e = false -> listen_open (mx e) = true ->
  exists e', step_opt e DListenerDropped = Some e'.
Proof. intros Ha Hg Hl Ho. unfold step_opt, sending. rewrite Ha, Hg, Hl, Ho. cbn [negb andb]. eauto. Qed.
Lemma en_DGoodbye e : alive e = true -> goodbye_sent (mx e) = false -> should_terminate (mx e) = true ->
  exists e', step_opt e DGoodbye = Some e'.
Proof. intros Ha Hg Ho. unfold step_opt. rewrite Ha, Hg, Ho. cbn [negb andb orb]. eauto. Qed.

(** nothing left to do at X *)
Record stuck (X : ep) (L' : list frame) : Prop := mk_stuck {
  st_link : L' = [];
  st_h : forall p h, lookup p (handles X) = Some h -> h_tx h <> Dropped /\ h_rx h <> Dropped;
  st_r : forall r s, lookup r (requests X) = Some s -> s <> RDropped;
  st_d : goodbye_sent (mx X) = false ->
         chq X = [] /\ cq X = [] /\ listen_open (mx X) = false /\ should_terminate (mx X) = false
}.

Definition is_dropped (l : life) : bool := match l with Dropped => true | _ => false end.

Lemma side_progress X L' : alive X = true -> listener_alive X = false ->
  (exists a X', sys_act a = true /\ step_opt X a = Some X') \/ (exists fr L0, L' = fr :: L0) \/ stuck X L'.
Proof.
  intros Ha Hli. destruct L' as [|fr L0]; [|right; left; eauto].
  destruct (lookup_dec (fun h => is_dropped (h_tx h)) (handles X)) as [(p & h & H1 & H2)|Htx].
  { left. destruct (en_NTx X p h Ha H1) as (e' & He); [destruct (h_tx h); try discriminate; reflexivity|]. exists (NTx p), e'. auto. }
  destruct (lookup_dec (fun h => is_dropped (h_rx h)) (handles X)) as [(p & h & H1 & H2)|Hrx].
  { left. destruct (en_NRx X p h Ha H1) as (e' & He); [destruct (h_rx h); try discriminate; reflexivity|]. exists (NRx p), e'. auto. }
  destruct (lookup_dec (fun s => match s with RDropped => true | _ => false end) (requests X)) as [(r & s & H1 & H2)|Hrq].
  { left. destruct s; try discriminate. destruct (en_NReq X r Ha H1) as (e' & He). exists (NReq r), e'. auto. }
  assert (Hh : forall p h, lookup p (handles X) = Some h -> h_tx h <> Dropped /\ h_rx h <> Dropped).
  { intros p h Hl. specialize (Htx _ _ Hl). specialize (Hrx _ _ Hl). cbv beta in *. split; intros E; rewrite E in *; discriminate. }
  assert (Hr : forall r s, lookup r (requests X) = Some s -> s <> RDropped).
  { intros r s Hl E. specialize (Hrq _ _ Hl). cbv beta in Hrq. rewrite E in Hrq. discriminate. }
  destruct (goodbye_sent (mx X)) eqn:Eg.
  { right. right. constructor; auto. intros E. congruence. }
  destruct (chq X) as [|ev q] eqn:Eq.
  2:{ left. destruct (en_DPort X ev q Ha Eg Eq) as (e' & He). exists DPort, e'. auto. }
  destruct (cq X) as [|ev q] eqn:Ec.
  2:{ left. destruct (en_DConn X ev q Ha Eg Ec) as (e' & He). exists DConn, e'. auto. }
  destruct (listen_open (mx X)) eqn:Elo.
  { left. destruct (en_DListenerDropped X Ha Eg Hli Elo) as (e' & He). exists DListenerDropped, e'. auto. }
  destruct (should_terminate (mx X)) eqn:Est.
  { left. destruct (en_DGoodbye X Ha Eg Est) as (e' & He). exists DGoodbye, e'. auto. }
  right. right. constructor; auto.
Qed.

(** * When nothing is enabled both dispatchers have ended *)
Lemma mem_all_false l : (forall r, mem r l = false) -> l = [].
Proof. destruct l as [|x l]; [auto|]. intros H. specialize (H x). cbn [mem] in H. rewrite N.eqb_refl in H. discriminate. Qed.

(** an endpoint that still sends but has nothing to do: all halves gone, no requests, table not empty *)
Lemma sending_stuck X L' :
  WF X -> dead X = None -> equiet X -> cl_ok X -> stuck X L' -> goodbye_sent (mx X) = false ->
  outstanding (mx X) = [] /\
  (forall p c, lookup p (ports (mx X)) = Some (Connected c) -> tx_dropped c = true /\ rx_dropped c = true) /\
  goodbye_received (mx X) = false /\ ports (mx X) <> [].
Proof.
  intros Hw Hd [Q1 Q2 Q3 Q4 Q5 Q6] Hc [S1 S2 S3 S4] Hg. destruct (S4 Hg) as (Eq & Ec & Elo & Est).
  pose proof (wf_inv _ Hw Hd) as Hi.
  assert (Hout : outstanding (mx X) = []).
  { apply mem_all_false. intros r. destruct (inv_req _ Hi r) as [R1 R2]. rewrite R2. rewrite Eq in R1. cbn [count] in R1.
    destruct (lookup r (requests X)) as [s|] eqn:El; [|reflexivity]. exfalso.
    destruct (Q4 _ _ El) as [->| ->]; [apply (S3 _ _ El); reflexivity|cbn [is_answered b2n] in R1; lia]. }
  assert (Hfl : forall p c, lookup p (ports (mx X)) = Some (Connected c) -> tx_dropped c = true /\ rx_dropped c = true).
  { intros p c Hl. pose proof (inv_h _ Hi p) as Hh. unfold hok1 in Hh. rewrite Hl, Eq in Hh. cbn [count] in Hh.
    destruct Hh as (H1 & H2 & _ & _ & _ & Hhas & T1 & T2 & _).
    destruct (lookup p (handles X)) as [h|] eqn:Eh; [|discriminate]. rewrite (hget_some _ _ _ Eh) in *.
    destruct (Q3 _ _ Eh) as [N1 N2]. destruct (S2 _ _ Eh) as [N3 N4]. rewrite T1, T2.
    destruct (h_tx h), (h_rx h); cbn [is_queued is_gone b2n] in *; try congruence; try lia; auto. }
  unfold cl_ok, cl_val in Hc. rewrite Q1, Ec in Hc. cbn [count] in Hc.
  assert (Hacd : all_clients_dropped (mx X) = true) by (destruct (all_clients_dropped (mx X)); [reflexivity|cbn [b2n] in Hc; lia]).
  unfold should_terminate in Est. rewrite Hout, Hacd, Elo, Hg in Est. cbn [negb orb andb] in Est.
  split; [exact Hout|split; [exact Hfl|]].
  destruct (ports (mx X)) eqn:Ep; cbn [orb andb] in Est; [discriminate|]. split; [|discriminate].
  destruct (goodbye_received (mx X)); [discriminate|reflexivity].
Qed.

Lemma alive_contra X Y L L' :
  OkS X Y L L' -> stuck X L' -> (alive Y = true -> stuck Y L) -> alive X = true -> False.
Proof.
  intros [A1 A2 A3 A4 A5 A6 A7 A8 A9 A10 A11] Sx Sy Hax. pose proof A3 as (Hwx & Hwy & HC).
  pose proof (wf_nopanic _ Hwx) as Px. pose proof (wf_nopanic _ Hwy) as Py.
  rewrite (alive_iff _ A1 Px) in Hax. rewrite (alive_iff _ A2 Py) in Sy. apply negb_true_iff in Hax.
  pose proof (st_link _ _ Sx) as El'. subst L'. unfold gb_ok in A6, A7. cbn [cnt count] in A7.
  destruct (goodbye_sent (mx X)) eqn:Egx.
  - (* Goodbye sent, not yet received *)
    cbn [andb] in Hax. rewrite Hax in A7. cbn [b2n] in A7, A6.
    assert (Egy : goodbye_sent (mx Y) = false) by (destruct (goodbye_sent (mx Y)); [cbn [b2n] in A7; lia|reflexivity]).
    rewrite Egy in Sy. cbn [andb negb] in Sy. specialize (Sy eq_refl). pose proof (st_link _ _ Sy) as El. subst L. cbn [cnt count] in A6.
    assert (Egr : goodbye_received (mx Y) = true) by (destruct (goodbye_received (mx Y)); [reflexivity|cbn [b2n] in A6; lia]).
    destruct (st_d _ _ Sy Egy) as (_ & _ & _ & Est). unfold should_terminate in Est. rewrite Egr in Est.
    rewrite !orb_true_r in Est. discriminate.
  - (* still sending *)
    destruct (sending_stuck _ _ Hwx A1 A8 A4 Sx Egx) as (Ox & Fx & Grx & Ptx).
    cbn [b2n] in A6. assert (Gry : goodbye_received (mx Y) = false) by (destruct (goodbye_received (mx Y)); [cbn [b2n] in A6; lia|reflexivity]).
    rewrite Gry, andb_false_r in Sy. specialize (Sy eq_refl). pose proof (st_link _ _ Sy) as El. subst L.
    rewrite Grx in A7. cbn [b2n] in A7. assert (Egy : goodbye_sent (mx Y) = false) by (destruct (goodbye_sent (mx Y)); [cbn [b2n] in A7; lia|reflexivity]).
    destruct (sending_stuck _ _ Hwy A2 A9 A5 Sy Egy) as (Oy & Fy & _ & _).
    assert (Hex : exists x st, lookup x (ports (mx X)) = Some st).
    { destruct (ports (mx X)) as [|[x st] rest]; [congruence|]. exists x, st. cbn [lookup]. now rewrite N.eqb_refl. }
    destruct Hex as (x & st & Hl).
    pose proof (c_yx _ _ _ _ _ _ _ _ HC x) as Hx. unfold rx_clause in Hx. rewrite Hl in Hx. destruct st as [r|c].
    + destruct Hx as (H1 & _). rewrite Oy in H1. cbn [reqcount map sum mem b2n cnt count] in H1. lia.
    + destruct Hx as (_ & _ & _ & _ & Hr & _). destruct (Fx _ _ Hl) as [T1 T2].
      pose proof (r_sf _ _ _ _ Hr) as S1. pose proof (r_rf _ _ _ _ Hr) as S2. cbn [cnt count] in S1, S2.
      assert (Hs : txf (pstat (ports (mx Y)) [] (remote c) x) = true /\ rxf (pstat (ports (mx Y)) [] (remote c) x) = true).
      { destruct (pstat (ports (mx Y)) [] (remote c) x) as [| |cY] eqn:Es; cbn [txf rxf]; auto.
        - apply pstat_pend in Es as [_ Hc]. cbn [cnt count] in Hc. lia.
        - apply pstat_live in Es as [Ly _]. apply (Fy _ _ Ly). }
      destruct Hs as [Hs1 Hs2]. rewrite Hs1 in S1. rewrite Hs2 in S2. cbn [b2n] in S1, S2.
      pose proof (wf_buf _ Hwx _ _ Hl) as (_ & _ & Hall). unfold all4 in Hall. rewrite T1, T2 in Hall.
      destruct (rx_open c), (rrx_dropped c); cbn [negb b2n andb] in *; try lia; discriminate.
Qed.

(** * The composed system *)
Definition Ok (n : net) : Prop := OkS (na n) (nb n) (lab n) (lba n).
Definition nfinished (n : net) : Prop := finished_ok (na n) /\ finished_ok (nb n).
Definition flow_error (n : net) : Prop :=
  exists err, (dead (na n) = Some err \/ dead (nb n) = Some err) /\ flow_class err = true.

Lemma Ok_intro c acts : healthy (nreach c acts) -> nquiet (nreach c acts) -> Ok (nreach c acts).
Proof.
  intros [H1 H2] (Q1 & Q2 & Q3 & Q4). pose proof (NetInv_reach c acts (conj H1 H2)) as Hi. destruct (Extra_reach c acts) as [E1 E2 E3 E4].
  constructor; auto.
Qed.

Lemma Ok_facts n : Ok n -> healthy n /\ NetInv n.
Proof. intros [A1 A2 A3 _ _ _ _ _ _ _ _]. split; [split; assumption|exact A3]. Qed.

Lemma not_alive_finished e : WF e -> dead e = None -> alive e = false -> finished_ok e.
Proof.
  intros Hw Hd Ha. rewrite (alive_iff _ Hd (wf_nopanic _ Hw)) in Ha. apply negb_false_iff in Ha. apply andb_true_iff in Ha as [G1 G2].
  repeat split; assumption.
Qed.

(** a system action of A / a delivery to A, in a good state *)
Lemma step_A n a A' : Ok n -> sys_act a = true -> step_opt (na n) a = Some A' ->
  Ok (nstep n (Loc SA a)) /\ mu (nstep n (Loc SA a)) < mu n.
Proof.
  intros Ho Hs H. assert (Hr : is_recv a = false) by (destruct a; try discriminate; reflexivity).
  cbn [nstep]. rewrite Hr. assert (step (na n) a = A') as -> by (unfold step; now rewrite H).
  destruct (okS_local _ _ _ _ _ _ Ho Hs H) as [B1 B2]. unfold Ok, mu. cbn [na nb lab lba set RecordSet.set]. split; [exact B1|exact B2].
Qed.
Lemma step_B n a B' : Ok n -> sys_act a = true -> step_opt (nb n) a = Some B' ->
  Ok (nstep n (Loc SB a)) /\ mu (nstep n (Loc SB a)) < mu n.
Proof.
  intros Ho Hs H. assert (Hr : is_recv a = false) by (destruct a; try discriminate; reflexivity).
  cbn [nstep]. rewrite Hr. assert (step (nb n) a = B') as -> by (unfold step; now rewrite H).
  destruct (okS_local _ _ _ _ _ _ (OkS_sym _ _ _ _ Ho) Hs H) as [B1 B2]. unfold Ok, mu. cbn [na nb lab lba set RecordSet.set].
  split; [apply OkS_sym; exact B1|]. unfold muS in B2. lia.
Qed.
Lemma deliver_to_B n fr L0 : Ok n -> lab n = fr :: L0 -> alive (nb n) = true ->
  flow_error (nstep n (Deliver SA)) \/ (Ok (nstep n (Deliver SA)) /\ mu (nstep n (Deliver SA)) < mu n).
Proof.
  intros Ho El Ha. destruct fr as [m pl]. destruct (en_Recv (nb n) m (paylen_of pl) Ha) as (b' & E).
  destruct (Ok_facts _ Ho) as [Hh Hi]. destruct (NetInv_step n (Deliver SA) Hi) as [_ Herr].
  cbn [nstep] in *. rewrite El, E in *. cbn [na nb lab lba set RecordSet.set] in *.
  destruct (dead b') as [err|] eqn:Ed.
  - left. exists err. cbn [na nb set RecordSet.set]. split; [right; exact Ed|]. apply Herr; auto.
  - right. unfold Ok in Ho. rewrite El in Ho. destruct (okS_recv _ _ _ _ _ _ _ Ho E Ed) as [B1 B2].
    unfold Ok, mu. cbn [na nb lab lba set RecordSet.set]. split; [exact B1|]. unfold muS in B2. rewrite El. exact B2.
Qed.
Lemma deliver_to_A n fr L0 : Ok n -> lba n = fr :: L0 -> alive (na n) = true ->
  flow_error (nstep n (Deliver SB)) \/ (Ok (nstep n (Deliver SB)) /\ mu (nstep n (Deliver SB)) < mu n).
Proof.
  intros Ho El Ha. destruct fr as [m pl]. destruct (en_Recv (na n) m (paylen_of pl) Ha) as (a' & E).
  destruct (Ok_facts _ Ho) as [Hh Hi]. destruct (NetInv_step n (Deliver SB) Hi) as [_ Herr].
  cbn [nstep] in *. rewrite El, E in *. cbn [na nb lab lba set RecordSet.set] in *.
  destruct (dead a') as [err|] eqn:Ed.
  - left. exists err. cbn [na nb set RecordSet.set]. split; [left; exact Ed|]. apply Herr; auto.
  - right. unfold Ok in Ho. apply OkS_sym in Ho. rewrite El in Ho. destruct (okS_recv _ _ _ _ _ _ _ Ho E Ed) as [B1 B2].
    unfold Ok, mu. cbn [na nb lab lba set RecordSet.set]. split; [apply OkS_sym; exact B1|]. unfold muS in B2. rewrite El. cbn [map sum] in B2 |- *. lia.
Qed.

(** in a good state either both dispatchers have ended successfully, or some system action is
    enabled -- and it ends in a quantity error or leads to a good state with a smaller measure *)
Theorem progress n : Ok n ->
  nfinished n \/ exists a, sys_nact a = true /\ (flow_error (nstep n a) \/ (Ok (nstep n a) /\ mu (nstep n a) < mu n)).
Proof.
  intros Ho. pose proof Ho as [A1 A2 A3 A4 A5 A6 A7 A8 A9 A10 A11]. pose proof A3 as (Hwa & Hwb & _).
  assert (PA : alive (na n) = true ->
           (exists a, sys_nact a = true /\ (flow_error (nstep n a) \/ (Ok (nstep n a) /\ mu (nstep n a) < mu n))) \/ stuck (na n) (lba n)).
  { intros Ha. destruct (side_progress (na n) (lba n) Ha (q_li _ A8)) as [(a & A' & Hs & H)|[(fr & L0 & El)|Hst]]; [left|left|right; exact Hst].
    - exists (Loc SA a). split; [exact Hs|right]. eapply step_A; eauto.
    - exists (Deliver SB). split; [reflexivity|]. eapply deliver_to_A; eauto. }
  assert (PB : alive (nb n) = true ->
           (exists a, sys_nact a = true /\ (flow_error (nstep n a) \/ (Ok (nstep n a) /\ mu (nstep n a) < mu n))) \/ stuck (nb n) (lab n)).
  { intros Hb. destruct (side_progress (nb n) (lab n) Hb (q_li _ A9)) as [(a & B' & Hs & H)|[(fr & L0 & El)|Hst]]; [left|left|right; exact Hst].
    - exists (Loc SB a). split; [exact Hs|right]. eapply step_B; eauto.
    - exists (Deliver SA). split; [reflexivity|]. eapply deliver_to_B; eauto. }
  destruct (alive (na n)) eqn:Ea, (alive (nb n)) eqn:Eb.
  - destruct (PA eq_refl) as [H|Sa]; [right; exact H|]. destruct (PB eq_refl) as [H|Sb]; [right; exact H|].
    exfalso. apply (alive_contra _ _ _ _ Ho Sa); auto.
  - destruct (PA eq_refl) as [H|Sa]; [right; exact H|]. exfalso. apply (alive_contra _ _ _ _ Ho Sa); [|exact Ea]. intros E. congruence.
  - destruct (PB eq_refl) as [H|Sb]; [right; exact H|]. exfalso. apply (alive_contra _ _ _ _ (OkS_sym _ _ _ _ Ho) Sb); [|exact Eb]. intros E. congruence.
  - left. split; apply not_alive_finished; auto.
Qed.

(** * Both dispatchers terminate *)
Theorem terminates_from : forall k n, mu n < k -> Ok n ->
  exists acts, forallb sys_nact acts = true /\ (nfinished (nrun acts n) \/ flow_error (nrun acts n)).
Proof.
  induction k as [|k IH] using N.peano_ind; intros n Hk Ho; [lia|].
  destruct (progress n Ho) as [Hf|(a & Hs & [He|[Ho' Hm]])].
  - exists []. split; [reflexivity|left; exact Hf].
  - exists [a]. split; [cbn [forallb]; now rewrite Hs|right; exact He].
  - destruct (IH (nstep n a)) as (acts & Ha & Hr); [lia|exact Ho'|]. exists (a :: acts). split; [cbn [forallb]; now rewrite Hs|exact Hr].
Qed.

Theorem both_terminate c acts :
  let n := nreach c acts in
  healthy n -> nquiet n ->
  exists acts', forallb sys_nact acts' = true /\ (nfinished (nrun acts' n) \/ flow_error (nrun acts' n)).
Proof. intros n Hh Hq. apply (terminates_from (N.succ (mu n))); [lia|]. now apply Ok_intro. Qed.

(** every enabled system action from a good state decreases the measure (or is the first quantity error) *)
Theorem system_action_decreases n a : Ok n -> sys_nact a = true ->
  nstep n a = n \/ flow_error (nstep n a) \/ (Ok (nstep n a) /\ mu (nstep n a) < mu n).
Proof.
  intros Ho Hs. destruct n as [A B Lab Lba]. destruct a as [[|] a|[|]]; cbn [sys_nact] in Hs.
  - destruct (step_opt A a) as [A'|] eqn:E.
    + right. right. eapply (step_A (mk_net A B Lab Lba)); eauto.
    + left. assert (Hr : is_recv a = false) by (destruct a; try discriminate; reflexivity).
      cbn [nstep]. rewrite Hr. cbn [na nb lab lba set RecordSet.set]. unfold step. rewrite E. unfold new_frames. now rewrite skipn_all, app_nil_r.
  - destruct (step_opt B a) as [B'|] eqn:E.
    + right. right. eapply (step_B (mk_net A B Lab Lba)); eauto.
    + left. assert (Hr : is_recv a = false) by (destruct a; try discriminate; reflexivity).
      cbn [nstep]. rewrite Hr. cbn [na nb lab lba set RecordSet.set]. unfold step. rewrite E. unfold new_frames. now rewrite skipn_all, app_nil_r.
  - destruct Lab as [|[m pl] L0]; [left; reflexivity|]. destruct (alive B) eqn:Ea.
    + right. eapply (deliver_to_B (mk_net A B ((m, pl) :: L0) Lba)); eauto. reflexivity.
    + left. cbn [nstep lab nb]. now rewrite (not_alive_absorbing _ _ Ea).
  - destruct Lba as [|[m pl] L0]; [left; reflexivity|]. destruct (alive A) eqn:Ea.
    + right. eapply (deliver_to_A (mk_net A B Lab ((m, pl) :: L0))); eauto. reflexivity.
    + left. cbn [nstep lba na]. now rewrite (not_alive_absorbing _ _ Ea).
Qed.

(** when no system action is enabled both dispatchers have ended successfully *)
Theorem stuck_is_finished n : Ok n -> (forall a, sys_nact a = true -> nstep n a = n) -> nfinished n.
Proof.
  intros Ho Hst. destruct (progress n Ho) as [Hf|(a & Hs & H)]; [exact Hf|]. exfalso. rewrite (Hst a Hs) in H.
  destruct (Ok_facts _ Ho) as [[H1 H2] _]. destruct H as [(err & [E|E] & _)|[_ Hm]]; try congruence. lia.
Qed.

(** * A decidable form of "no user object left" (for concrete states) *)
Lemma lookup_In {A} k (v : A) l : lookup k l = Some v -> In (k, v) l.
Proof.
  induction l as [|[k1 v1] l IH]; cbn [lookup]; [discriminate|]. destruct (k =? k1) eqn:E.
  - intros [= ->]. apply N.eqb_eq in E. subst. now left.
  - intros H. right. auto.
Qed.
Definition equietb (e : ep) : bool :=
  negb (clients_alive e) && negb (listener_alive e) &&
  forallb (fun x => negb (is_alive (h_tx (snd x))) && negb (is_alive (h_rx (snd x)))) (handles e) &&
  forallb (fun x => match snd x with RDropped | RAnswered => true | _ => false end) (requests e) &&
  (count is_acc (chq e) =? 0) && (count is_acc (cq e) =? 0).
Definition nquietb (n : net) : bool :=
  equietb (na n) && equietb (nb n) && (cnt m_ispo (lab n) =? 0) && (cnt m_ispo (lba n) =? 0).

Lemma equietb_sound e : equietb e = true -> equiet e.
Proof.
  unfold equietb. intros H. bools. apply N.eqb_eq in H0, H1. rewrite forallb_forall in H2, H3. constructor; auto.
  - intros p h Hl. specialize (H3 _ (lookup_In _ _ _ Hl)). cbn [snd] in H3. bools.
    split; intros E; rewrite E in *; discriminate.
  - intros r s Hl. specialize (H2 _ (lookup_In _ _ _ Hl)). cbn [snd] in H2. destruct s; try discriminate; auto.
Qed.
Lemma nquietb_sound n : nquietb n = true -> nquiet n.
Proof. unfold nquietb, nquiet. intros H. bools. apply N.eqb_eq in H0, H1. auto using equietb_sound. Qed.
