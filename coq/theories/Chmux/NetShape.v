(** What one step of an endpoint does to the parts of its state the composed invariant looks at:
    the port table, the outstanding remote requests, the event queue [chq] and the frames handed
    to the transport. *)
From Remoc Require Import Lib.Base Gen.Consts Chmux.Wire Chmux.Mux Chmux.Endpoint Chmux.EndpointLemmas Chmux.EndpointInv
  Chmux.EndpointSteps Chmux.EndpointDisp Chmux.EndpointRecv Chmux.EndpointEffects Chmux.EndpointProofs Chmux.EndpointDeath
  Chmux.Net.
From RecordUpdate Require Import RecordUpdate.

(** the frames among the effects of a dispatcher step *)
Fixpoint emits (effs : list eff) : list frame :=
  match effs with
  | [] => []
  | Emit m pl :: r => (m, pl) :: emits r
  | _ :: r => emits r
  end.

Lemma apply_effs_chq effs : forall e, chq (apply_effs e effs) = chq e.
Proof.
  induction effs as [|f r IH]; intros e; cbn [apply_effs]; [reflexivity|]. rewrite IH.
  destruct f; cbn; unfold set_handle; cbn;
    repeat match goal with |- context [if ?b then _ else _] => destruct b end; reflexivity.
Qed.
Lemma apply_effs_sent effs : forall e, sent (apply_effs e effs) = sent e ++ emits effs.
Proof.
  induction effs as [|f r IH]; intros e; cbn [apply_effs emits]; [now rewrite app_nil_r|]. rewrite IH.
  destruct f; cbn [emits]; prj; try reflexivity.
  - now rewrite <- app_assoc.
  - destruct (listener_alive e); reflexivity.
Qed.

Lemma finish_Done_view e1 m effs :
  mx (finish e1 (Done m effs)) = m /\ chq (finish e1 (Done m effs)) = chq e1 /\
  sent (finish e1 (Done m effs)) = sent e1 ++ emits effs /\ dead (finish e1 (Done m effs)) = dead e1.
Proof.
  cbn [finish]. destruct (goodbye_sent m && goodbye_received m); unfold resolve_waiting; prj;
    rewrite ?apply_effs_mx, ?apply_effs_chq, ?apply_effs_sent, ?apply_effs_dead; prj; auto.
Qed.
Lemma finish_Panic_panicked e1 s : panicked (finish e1 (Panic s)) = Some s.
Proof. reflexivity. Qed.

Lemma new_frames_app e e' fs : sent e' = sent e ++ fs -> new_frames e e' = fs.
Proof.
  intros H. unfold new_frames. rewrite H. rewrite skipn_app, skipn_all, Nat.sub_diag. reflexivity.
Qed.
Lemma new_frames_same e e' : sent e' = sent e -> new_frames e e' = [].
Proof. intros H. apply new_frames_app. now rewrite app_nil_r. Qed.

(** the parts of an endpoint the composed invariant reads *)
Definition same_view (e e' : ep) : Prop :=
  ports (mx e') = ports (mx e) /\ outstanding (mx e') = outstanding (mx e) /\ chq e' = chq e /\ sent e' = sent e /\
  dead e' = dead e.
Definition push_view (e e' : ep) (ev : evt) : Prop :=
  ports (mx e') = ports (mx e) /\ outstanding (mx e') = outstanding (mx e) /\ chq e' = chq e ++ [ev] /\ sent e' = sent e /\
  dead e' = dead e.

Ltac open_step H :=
  unfold step_opt in H;
  match type of H with (if negb (alive ?e) then _ else _) = _ => destruct (negb (alive e)); [discriminate|] end.

(** * Local API actions and helper tasks that leave the view alone *)
Lemma view_UConnect e p id w req e' : step_opt e (UConnect p id w req) = Some e' -> same_view e e'.
Proof. intros H. open_step H. cases. inj H. unfold same_view. prj. auto. Qed.
Lemma view_UDropClients e e' : step_opt e UDropClients = Some e' -> same_view e e'.
Proof. intros H. open_step H. cases. inj H. unfold same_view. prj. auto. Qed.
Lemma view_UDropListener e e' : step_opt e UDropListener = Some e' -> same_view e e'.
Proof. intros H. open_step H. cases. inj H. unfold same_view. prj. auto. Qed.
Lemma view_UListenerTake e r e' : step_opt e (UListenerTake r) = Some e' -> same_view e e'.
Proof.
  intros H. open_step H. cases; inj H; unfold same_view; prj;
    repeat match goal with |- context [if ?b then _ else _] => destruct b end; prj; auto.
Qed.
Lemma view_UDropRequest e r e' : step_opt e (UDropRequest r) = Some e' -> same_view e e'.
Proof. intros H. open_step H. cases. inj H. unfold same_view. prj. auto. Qed.
Lemma view_UDropRx e p e' : step_opt e (UDropRx p) = Some e' -> same_view e e'.
Proof. intros H. open_step H. cases; inj H; unfold same_view; prj; auto. Qed.
Lemma view_UDropTx e p e' : step_opt e (UDropTx p) = Some e' -> same_view e e'.
Proof. intros H. open_step H. cases. inj H. unfold same_view. prj. auto. Qed.
Lemma view_UTerminate e e' : step_opt e UTerminate = Some e' -> same_view e e'.
Proof. intros H. open_step H. cases. inj H. unfold same_view. prj. auto. Qed.

(** [UConsume] only shortens a receive queue *)
Lemma view_UConsume e p e' : step_opt e (UConsume p) = Some e' ->
  exists c q x, lookup p (ports (mx e)) = Some (Connected c) /\ rxq c = x :: q /\
    ports (mx e') = insert p (Connected (c <| rxq := q |>)) (ports (mx e)) /\
    outstanding (mx e') = outstanding (mx e) /\ chq e' = chq e /\ sent e' = sent e /\ dead e' = dead e.
Proof.
  intros H. open_step H. cases. inj H. prj. subst. exists c, l, (n, l0). prj. auto 10.
Qed.

(** * Actions that queue an event *)
Lemma view_USendPorts e via f l w ps e' : step_opt e (USendPorts via f l w ps) = Some e' ->
  exists h c, lookup via (handles e) = Some h /\ h_tx h = Alive /\ lookup via (ports (mx e)) = Some (Connected c) /\
    push_view e e' (ESendPorts (remote c) f l w ps).
Proof.
  intros H. open_step H. unfold remote_of in H. cases. inj H. inj E0. exists h, c. unfold push_view. prj. repeat split; auto.
Qed.
Lemma view_USendData e p f l n e' : step_opt e (USendData p f l n) = Some e' ->
  exists h c, lookup p (handles e) = Some h /\ h_tx h = Alive /\ lookup p (ports (mx e)) = Some (Connected c) /\
    push_view e e' (ESendData (remote c) f l n).
Proof.
  intros H. open_step H. unfold remote_of in H. cases. inj H. inj E0. exists h, c. unfold push_view. prj. repeat split; auto.
Qed.
Lemma view_UReturnCredits e p n e' : step_opt e (UReturnCredits p n) = Some e' ->
  exists h c, lookup p (handles e) = Some h /\ h_rx h = Alive /\ lookup p (ports (mx e)) = Some (Connected c) /\
    push_view e e' (EReturnCredits (remote c) n).
Proof.
  intros H. open_step H. unfold remote_of in H. cases. inj H. inj E0. exists h, c. unfold push_view. prj. repeat split; auto.
Qed.
Lemma view_UAccept e r p e' : step_opt e (UAccept r p) = Some e' -> push_view e e' (EAccepted p r).
Proof. intros H. open_step H. cases. inj H. unfold push_view. prj. auto. Qed.
Lemma view_UReject e r np e' : step_opt e (UReject r np) = Some e' -> push_view e e' (ERejected r np).
Proof. intros H. open_step H. cases. inj H. unfold push_view. prj. auto. Qed.
Lemma view_NReq e r e' : step_opt e (NReq r) = Some e' -> push_view e e' (ERejected r false).
Proof. intros H. open_step H. cases. inj H. unfold push_view. prj. auto. Qed.
Lemma view_UCloseRx e p e' : step_opt e (UCloseRx p) = Some e' -> push_view e e' (EReceiverClosed p).
Proof. intros H. open_step H. cases. inj H. unfold push_view. prj. auto. Qed.
Lemma view_NTx e p e' : step_opt e (NTx p) = Some e' -> push_view e e' (ESenderDropped p).
Proof. intros H. open_step H. cases. inj H. unfold push_view. prj. auto. Qed.
Lemma view_NRx e p e' : step_opt e (NRx p) = Some e' -> push_view e e' (EReceiverDropped p).
Proof. intros H. open_step H. cases. inj H. unfold push_view. prj. auto. Qed.

(** * Dispatcher steps: the view after the step is that of the dispatcher function's result *)
Definition disp_view (e e' : ep) (ev : evt) (q : list evt) : Prop :=
  match handle_event (mx e) ev with
  | Done m effs => mx e' = m /\ chq e' = q /\ sent e' = sent e ++ emits effs /\ dead e' = dead e
  | Proto _ _ => False
  | Panic s => panicked e' = Some s
  end.

Lemma handle_event_no_proto m ev : match handle_event m ev with Proto _ _ => False | _ => True end.
Proof.
  destruct ev; try rewrite ins_ports_eq; cbn [handle_event];
    repeat match goal with
    | |- match (match ?x with _ => _ end) with _ => _ end => destruct x
    | |- match (if ?x then _ else _) with _ => _ end => destruct x
    | |- match (let (_, _) := ?x in _) with _ => _ end => destruct x
    end; exact I.
Qed.

Lemma finish_disp_view e1 e ev q :
  mx e1 = mx e -> chq e1 = q -> sent e1 = sent e -> dead e1 = dead e ->
  disp_view e (finish e1 (handle_event (mx e) ev)) ev q.
Proof.
  intros E1 E2 E3 E4. unfold disp_view. pose proof (handle_event_no_proto (mx e) ev) as Hn.
  destruct (handle_event (mx e) ev) as [m effs|err effs|s]; [|contradiction|reflexivity].
  destruct (finish_Done_view e1 m effs) as (F1 & F2 & F3 & F4). rewrite F1, F2, F3, F4, E2, E3, E4. auto.
Qed.

Lemma view_DPort e e' : step_opt e DPort = Some e' -> exists ev q, chq e = ev :: q /\ disp_view e e' ev q.
Proof.
  intros H. open_step H. destruct (negb (sending e)); [discriminate|]. destruct (chq e) as [|ev q] eqn:Eq; [discriminate|].
  inj H. exists ev, q. split; [reflexivity|]. apply finish_disp_view; destruct ev; try destruct (lookup p (handles e)); prj; auto.
Qed.
Lemma view_DConn e e' : step_opt e DConn = Some e' -> exists ev q, cq e = ev :: q /\ disp_view e e' ev (chq e).
Proof.
  intros H. open_step H. destruct (negb (sending e)); [discriminate|]. destruct (cq e) as [|ev q] eqn:Eq; [discriminate|].
  inj H. exists ev, q. split; [reflexivity|]. apply finish_disp_view; prj; auto.
Qed.
Lemma view_DListenerDropped e e' : step_opt e DListenerDropped = Some e' -> disp_view e e' EListenerDropped (chq e).
Proof. intros H. open_step H. cases. inj H. apply finish_disp_view; auto. Qed.
Lemma view_DGoodbye e e' : step_opt e DGoodbye = Some e' -> disp_view e e' EGoodbye (chq e).
Proof. intros H. open_step H. cases. inj H. apply finish_disp_view; auto. Qed.

Lemma disp_done e e' ev q :
  disp_view e e' ev q -> panicked e' = None ->
  exists m effs, handle_event (mx e) ev = Done m effs /\ mx e' = m /\ chq e' = q /\ sent e' = sent e ++ emits effs /\ dead e' = dead e.
Proof.
  unfold disp_view. destruct (handle_event (mx e) ev) as [m effs|err effs|s]; [|contradiction|congruence].
  intros (H1 & H2 & H3 & H4) _. exists m, effs. auto.
Qed.

(** * Receiving: the handler runs on [recv_mux e], which has the table and the requests of [mx e] *)
Lemma recv_mux_view e : ports (recv_mux e) = ports (mx e) /\ outstanding (recv_mux e) = outstanding (mx e).
Proof. unfold recv_mux. destruct (listener_alive e); prj; auto. Qed.

Definition recv_view (e e' : ep) (m : msg) (n : N) : Prop :=
  match handle_received (recv_mux e) m n with
  | Done m' effs => mx e' = m' /\ chq e' = chq e /\ sent e' = sent e /\ dead e' = dead e
  | Proto err _ => dead e' = Some err
  | Panic s => panicked e' = Some s
  end.

Lemma hr_no_emit m msg n : emits (effs_of (handle_received m msg n)) = [].
Proof.
  destruct msg; try rewrite hr_PortData; cbn [handle_received];
    repeat match goal with
    | |- context [match ?x with _ => _ end] => destruct x eqn:?
    end; cbn [effs_of emits]; try reflexivity;
    repeat match goal with Hm : maybe_free _ _ = Some (_, _) |- _ => apply maybe_free_effs in Hm as [->| ->] end; reflexivity.
Qed.

Lemma view_Recv e m n e' : step_opt e (Recv m n) = Some e' -> recv_view e e' m n.
Proof.
  intros H. open_step H. cbv zeta in H. fold (recv_mux e) in H. inj H. unfold recv_view.
  pose proof (hr_no_emit (recv_mux e) m n) as He.
  destruct (handle_received (recv_mux e) m n) as [m' effs|err effs|s]; cbn [effs_of] in He.
  - destruct (finish_Done_view (e <| mx := recv_mux e |>) m' effs) as (F1 & F2 & F3 & F4).
    rewrite F1, F2, F3, F4, He, app_nil_r. prj. auto.
  - reflexivity.
  - reflexivity.
Qed.

(** death is permanent, and only a received message can cause it *)
Lemma step_dead_mono e a : dead (step e a) = None -> dead e = None.
Proof.
  unfold step. destruct (step_opt e a) eqn:E; [|auto]. intros H.
  destruct (dead e) eqn:Ed; [|reflexivity]. rewrite dead_absorbing in E; [discriminate|congruence].
Qed.
