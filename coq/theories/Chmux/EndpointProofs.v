(** Main results about one chmux endpoint ([Mux.v], [Endpoint.v]): the well-formedness invariant [WF]
    holds in every reachable state, under every interleaving of local API actions, helper-task steps,
    dispatcher steps and arbitrary received messages; consequences for C07, C08, C10. *)
From Remoc Require Import Lib.Base Gen.Consts Chmux.Wire Chmux.Mux Chmux.Endpoint Chmux.EndpointLemmas Chmux.EndpointInv
  Chmux.EndpointSteps Chmux.EndpointDisp Chmux.EndpointRecv Chmux.EndpointEffects.
From RecordUpdate Require Import RecordUpdate.

(** * The invariant is inductive *)
Lemma Good_WF e : Good e -> WF e.
Proof. intros (H1 & H2 & H3 & H4 & H5). constructor; auto; apply H5. Qed.
Lemma Fin_WF e : Fin e -> WF e.
Proof.
  intros [H|(H1 & H2 & H3 & H4 & H5 & H6)]; [now apply Good_WF|]. constructor; auto. intros Hd. congruence.
Qed.
Lemma alive_spec e : alive e = true ->
  dead e = None /\ panicked e = None /\ goodbye_sent (mx e) && goodbye_received (mx e) = false.
Proof. unfold alive. destruct (dead e), (panicked e); try discriminate. intros H. apply negb_true_iff in H. auto. Qed.
Lemma step_alive e a e' : step_opt e a = Some e' -> alive e = true.
Proof. unfold step_opt. destruct (alive e); [reflexivity|discriminate]. Qed.
Lemma WF_Good e : WF e -> alive e = true -> Good e.
Proof. intros [H1 H2 H3 Hb Hq H4] Ha. destruct (alive_spec _ Ha) as (Hd & _ & _). unfold Good. split; [|split; [|split; [|split]]]; auto. Qed.

Theorem WF_init ch bu cq rb ver maxp : WF (ep_init (mux_init ch bu cq rb ver) maxp).
Proof.
  constructor.
  - reflexivity.
  - constructor.
  - change (0 <= maxp). lia.
  - intros p c. discriminate.
  - split; unfold ep_init, mux_init; prj; lia.
  - intros _. constructor; unfold ep_init, mux_init; prj.
    + split; reflexivity.
    + intros p. cbn. lia.
    + intros r. cbn. auto.
    + intros p. unfold hok1, hget. cbn. repeat split; auto; discriminate.
    + intros r. reflexivity.
    + intros p c. discriminate.
    + split; prj; lia.
    + constructor.
    + intros _ r. reflexivity.
Qed.

Theorem WF_step e a e' : WF e -> step_opt e a = Some e' -> WF e'.
Proof.
  intros Hw H. pose proof (WF_Good _ Hw (step_alive _ _ _ H)) as HG. destruct a.
  - apply Good_WF. eapply step_UConnect; eauto.
  - apply Good_WF. eapply step_USendPorts; eauto.
  - apply Good_WF. eapply step_UDropClients; eauto.
  - apply Good_WF. eapply step_UDropListener; eauto.
  - apply Good_WF. eapply step_UListenerTake; eauto.
  - apply Good_WF. eapply step_UAccept; eauto.
  - apply Good_WF. eapply step_UReject; eauto.
  - apply Good_WF. eapply step_UDropRequest; eauto.
  - apply Good_WF. eapply step_USendData; eauto.
  - apply Good_WF. eapply step_UConsume; eauto.
  - apply Good_WF. eapply step_UReturnCredits; eauto.
  - apply Good_WF. eapply step_UCloseRx; eauto.
  - apply Good_WF. eapply step_UDropRx; eauto.
  - apply Good_WF. eapply step_UDropTx; eauto.
  - apply Good_WF. eapply step_UTerminate; eauto.
  - apply Good_WF. eapply step_NTx; eauto.
  - apply Good_WF. eapply step_NRx; eauto.
  - apply Good_WF. eapply step_NReq; eauto.
  - apply Fin_WF. eapply step_DPort; eauto.
  - apply Fin_WF. eapply step_DConn; eauto.
  - apply Fin_WF. eapply step_DListenerDropped; eauto.
  - apply Fin_WF. eapply step_DGoodbye; eauto.
  - apply Fin_WF. eapply step_Recv; eauto.
Qed.

Lemma WF_stepf e a : WF e -> WF (step e a).
Proof. intros H. unfold step. destruct (step_opt e a) eqn:E; [eapply WF_step; eauto|exact H]. Qed.
Theorem WF_run acts : forall e, WF e -> WF (run acts e).
Proof. induction acts as [|a acts IH]; intros e H; cbn [run fold_left]; [exact H|]. apply IH. now apply WF_stepf. Qed.

(** * C08: no panic site of the dispatcher is reachable *)
Theorem no_panic ch bu cq rb ver maxp acts :
  panicked (run acts (ep_init (mux_init ch bu cq rb ver) maxp)) = None.
Proof. apply WF_run, WF_init. Qed.

(** * C08: a received message keeps the invariant or terminates the connection; a terminated
      endpoint takes no further step *)
Lemma dead_absorbing e a : dead e <> None -> step_opt e a = None.
Proof. intros H. unfold step_opt, alive. destruct (dead e); [reflexivity|congruence]. Qed.
Lemma not_alive_absorbing e a : alive e = false -> step_opt e a = None.
Proof. intros H. unfold step_opt. now rewrite H. Qed.

Theorem classified e m n e' :
  WF e -> step_opt e (Recv m n) = Some e' ->
  (dead e' = None /\ Inv e') \/ (exists err, dead e' = Some err /\ forall a, step_opt e' a = None).
Proof.
  intros Hw H. pose proof (WF_Good _ Hw (step_alive _ _ _ H)) as HG.
  destruct (step_Recv _ _ _ _ HG H) as [(_ & Hd & _ & _ & Hi)|(_ & Hd & _)]; [left; auto|right].
  destruct (dead e') as [err|] eqn:E; [|congruence]. exists err. split; [reflexivity|].
  intros a. apply dead_absorbing. congruence.
Qed.

(** * C08: buffers are bounded *)
Lemma len_le_used (l : list (N * list N)) : len l <= sum (map fst l) + count (fun x => fst x =? 0) l.
Proof.
  induction l as [|x l IH]; cbn [map sum]; [rewrite len_nil, count_nil; lia|].
  rewrite len_cons, count_cons. destruct (fst x =? 0) eqn:E; cbn [b2n]; [lia|]. apply N.eqb_neq in E. lia.
Qed.

Theorem buffer_bounds e :
  WF e ->
  (forall p c, lookup p (ports (mx e)) = Some (Connected c) ->
     used c <= cfg_buffer (mx e) /\ len (rxq c) <= used c + 1) /\
  lq_wait (mx e) <= cfg_connect_queue (mx e) + 1 /\ lq_nowait (mx e) <= cfg_connect_queue (mx e) + 1.
Proof.
  intros [_ _ _ Hb [L1 L2] _]. split; [|auto]. intros p c Hl. destruct (Hb _ _ Hl) as (B1 & B2 & _).
  split; [exact B1|]. pose proof (len_le_used (rxq c)) as H. pose proof (b2n_le1 (negb (rx_open c))). unfold used. lia.
Qed.

(** * C07: port numbers *)
Theorem numbers e :
  WF e ->
  NoDup (alloc e) /\ len (alloc e) <= max_ports e /\
  (dead e = None -> forall p, lookup p (ports (mx e)) <> None -> In p (alloc e)).
Proof.
  intros [_ H1 H2 _ _ Hi]. repeat split; auto. intros Hd p Hl. specialize (Hi Hd). destruct Hi as [_ Hn _ _ _ _ _ _ _].
  specialize (Hn p). apply mem_In. destruct (lookup p (ports (mx e))); [|congruence]. cbn [isK] in Hn.
  destruct (mem p (alloc e)); [reflexivity|]. cbn [b2n] in Hn. lia.
Qed.

Theorem should_terminate_spec m :
  should_terminate m = true <->
  (ports m = [] /\ (all_clients_dropped m = true \/ remote_listener_dropped m = true) /\
   (listen_open m = false \/ remote_client_dropped m = true) /\ outstanding m = [])
  \/ goodbye_sent m = true \/ goodbye_received m = true.
Proof.
  unfold should_terminate. rewrite !orb_true_iff, !andb_true_iff, !orb_true_iff, negb_true_iff.
  destruct (ports m), (outstanding m); intuition (try discriminate; try congruence).
Qed.

(** * C07: a connected entry leaves the table exactly when all four flags hold, and its number is
      released exactly then *)
Lemma finish_Done_mx e1 m effs : mx (finish e1 (Done m effs)) = m.
Proof.
  cbn [finish]. destruct (apply_effs_frame effs (e1 <| mx := m |>)) as (_ & _ & Hm & _).
  destruct (goodbye_sent m && goodbye_received m); unfold resolve_waiting; prj; rewrite Hm; reflexivity.
Qed.
Lemma finish_Done_alloc e1 m effs : alloc (finish e1 (Done m effs)) = alloc (apply_effs (e1 <| mx := m |>) effs).
Proof. cbn [finish]. destruct (goodbye_sent m && goodbye_received m); reflexivity. Qed.
Lemma finish_Proto_dead e1 err effs : dead (finish e1 (Proto err effs)) = Some err.
Proof. reflexivity. Qed.

(** a step whose result is neither dead nor panicked ran a dispatcher function that returned [Done] *)
Lemma disp_Done e a e' o :
  WF e -> step_opt e a = Some e' -> dead e' = None -> disp_outcome e a = Some o ->
  exists m' effs e1, o = Done m' effs /\ e' = finish e1 o /\ mx e' = m' /\ mx e1 = mx e /\ alloc e1 = alloc e /\
                     connects e1 = connects e.
Proof.
  intros Hw H Hd Ho. pose proof (WF_step _ _ _ Hw H) as Hw'.
  destruct (step_disp _ _ _ _ H Ho) as (e1 & -> & E1 & E2 & E3 & E4 & E5).
  destruct o as [m' effs|err effs|site].
  - exists m', effs, e1. repeat split; auto. apply finish_Done_mx.
  - rewrite finish_Proto_dead in Hd. discriminate.
  - destruct Hw' as [Hp _ _ _ _ _]. cbn [finish] in Hp. prj. discriminate.
Qed.

Lemma disp_free e a m' effs p c :
  disp_outcome e a = Some (Done m' effs) -> lookup p (ports (mx e)) = Some (Connected c) ->
  is_connected (lookup p (ports m')) = false -> freed_by (mx e) m' effs p c.
Proof.
  intros Ho Hl Hn. destruct a; cbn [disp_outcome] in Ho; try discriminate.
  - destruct (chq e) as [|ev q]; [discriminate|]. injection Ho as Ho. eapply he_free; eauto.
  - destruct (cq e) as [|ev q]; [discriminate|]. injection Ho as Ho. eapply he_free; eauto.
  - assert (Ho' : handle_event (mx e) EListenerDropped = Done m' effs) by congruence. eapply he_free; eauto.
  - assert (Ho' : handle_event (mx e) EGoodbye = Done m' effs) by congruence. eapply he_free; eauto.
  - assert (Ho' : handle_received (mx e) m paylen = Done m' effs) by congruence. eapply hr_free; eauto.
Qed.

Theorem free_iff e a e' p c :
  WF e -> step_opt e a = Some e' -> dead e' = None -> lookup p (ports (mx e)) = Some (Connected c) ->
  match lookup p (ports (mx e')) with
  | Some (Connected c') => all4 c' = false /\ In p (alloc e')
  | _ => ~ In p (alloc e') /\
         exists effs, disp_outcome e a = Some (Done (mx e') effs) /\ freed_by (mx e) (mx e') effs p c
  end.
Proof.
  intros Hw H Hd Hl. pose proof (WF_step _ _ _ Hw H) as Hw'.
  destruct (lookup p (ports (mx e'))) as [[r|c']|] eqn:El'.
  2:{ split.
      - destruct Hw' as [_ _ _ Hb _ _]. apply (Hb _ _ El').
      - apply (numbers _ Hw'); [exact Hd|congruence]. }
  all: assert (Hn : is_connected (lookup p (ports (mx e'))) = false) by (rewrite El'; reflexivity).
  all: destruct (disp_outcome e a) as [o|] eqn:Ho;
    [|destruct (step_user _ _ _ H Ho) as (_ & _ & Hc & _); rewrite (Hc _ _ Hl) in Hn; discriminate].
  all: destruct (disp_Done _ _ _ _ Hw H Hd Ho) as (m' & effs & e1 & -> & He' & Hm & E1 & E2 & E3).
  all: rewrite Hm in *; pose proof (disp_free _ _ _ _ _ _ Ho Hl Hn) as Hf.
  all: split; [|exists effs; split; [reflexivity|exact Hf]].
  all: rewrite He', finish_Done_alloc; apply apply_effs_dropped; apply Hf.
Qed.

(** * C10: local connect requests *)
Definition resolve_st (gone : bool) (s : cstate) : cstate :=
  match s with CWaiting => CResolved (if gone then RListenerGone else RChMux) | s => s end.
Lemma lookup_resolve e req :
  lookup req (connects (resolve_waiting e)) = option_map (resolve_st (remote_listener_dropped (mx e))) (lookup req (connects e)).
Proof.
  unfold resolve_waiting. prj. induction (connects e) as [|[k s] l IH]; cbn [map lookup fst snd option_map]; [reflexivity|].
  destruct s; cbn [lookup]; destruct (req =? k); cbn [option_map resolve_st]; auto.
Qed.

Lemma port_reqs_connecting pt p req :
  NoDup (map fst pt) -> lookup p pt = Some (Connecting req) -> 1 <= occ req (port_reqs pt).
Proof.
  intros Hn Hl. pose proof (tab_remove (fun _ s => st_reqs s) req p pt Hn st_reqs_None) as T. cbv beta in T.
  rewrite Hl in T. cbn [st_reqs] in T. rewrite occ_cons, N.eqb_refl in T. cbn [b2n] in T. unfold port_reqs. lia.
Qed.
Lemma port_reqs_exists pt req :
  1 <= occ req (port_reqs pt) -> exists p, In (p, Connecting req) pt.
Proof.
  induction pt as [|[k s] pt IH]; unfold port_reqs, tab in *; cbn [flat_map fst snd].
  - rewrite occ_nil. lia.
  - rewrite occ_app. intros H. destruct s as [r|c].
    + change (st_reqs (Some (Connecting r))) with [r] in H.
      rewrite occ_cons, occ_nil in H. destruct (r =? req) eqn:E.
      * apply N.eqb_eq in E. subst r. exists k. now left.
      * cbn [b2n] in H. destruct IH as [p Hp]; [lia|]. exists p. now right.
    + change (st_reqs (Some (Connected c))) with (@nil N) in H. rewrite occ_nil in H. destruct IH as [p Hp]; [lia|]. exists p. now right.
Qed.

(** the carriers of a waiting request: exactly one (queued event or [Connecting] entry) *)
Theorem pending_unique e req :
  WF e -> alive e = true ->
  occ req (q_reqs (cq e)) + occ req (q_reqs (chq e)) + occ req (port_reqs (ports (mx e))) =
  if is_waiting (lookup req (connects e)) then 1 else 0.
Proof.
  intros Hw Ha. destruct (WF_Good _ Hw Ha) as (_ & _ & _ & _ & [_ _ _ _ _ _ _ _ Hc]).
  exact (Hc (alive_goodbye _ Ha) req).
Qed.

(** a [Respond] effect addresses a request that is still waiting *)
Theorem respond_only_waiting e a e' o req r :
  WF e -> step_opt e a = Some e' -> disp_outcome e a = Some o -> In (Respond req r) (effs_of o) ->
  lookup req (connects e) = Some CWaiting.
Proof.
  intros Hw H Ho Hin. pose proof (step_alive _ _ _ H) as Ha. pose proof (pending_unique e req Hw Ha) as Hu.
  destruct (WF_Good _ Hw Ha) as (_ & _ & _ & _ & [_ _ _ _ _ _ _ Hkeys _]).
  assert (Hw1 : 1 <= occ req (q_reqs (cq e)) + occ req (q_reqs (chq e)) + occ req (port_reqs (ports (mx e))) ->
                lookup req (connects e) = Some CWaiting).
  { intros H1. destruct (lookup req (connects e)) as [[|]|]; cbn [is_waiting] in Hu; try lia. reflexivity. }
  apply Hw1. clear Hw1 Hu.
  destruct a; cbn [disp_outcome] in Ho; try discriminate.
  - destruct (chq e) as [|ev q] eqn:Eq; [discriminate|]. inj Ho. apply he_respond in Hin as (p & id & w & -> & _).
    rewrite q_reqs_cons. cbn [ev_reqs app]. rewrite occ_cons, N.eqb_refl. cbn [b2n]. lia.
  - destruct (cq e) as [|ev q] eqn:Eq; [discriminate|]. inj Ho. apply he_respond in Hin as (p & id & w & -> & _).
    rewrite q_reqs_cons. cbn [ev_reqs app]. rewrite occ_cons, N.eqb_refl. cbn [b2n]. lia.
  - inj Ho. apply he_respond in Hin as (p & id & w & Hx & _). discriminate.
  - inj Ho. apply he_respond in Hin as (p & id & w & Hx & _). discriminate.
  - inj Ho. apply hr_respond in Hin as [(p & np & _ & Hl & _)|(p & q & _ & Hl & _)];
      pose proof (port_reqs_connecting _ _ _ Hkeys Hl); lia.
Qed.

(** a resolved reply cell is never written again *)
Theorem resolved_stable e a e' req r :
  WF e -> step_opt e a = Some e' -> lookup req (connects e) = Some (CResolved r) ->
  lookup req (connects e') = Some (CResolved r).
Proof.
  intros Hw H Hl. destruct (disp_outcome e a) as [o|] eqn:Ho.
  2:{ destruct (step_user _ _ _ H Ho) as (_ & _ & _ & Hc). now apply Hc. }
  assert (Hno : forall r0, ~ In (Respond req r0) (effs_of o)).
  { intros r0 Hin. pose proof (respond_only_waiting _ _ _ _ _ _ Hw H Ho Hin). congruence. }
  destruct (step_disp _ _ _ _ H Ho) as (e1 & -> & E1 & E2 & E3 & E4 & E5).
  destruct o as [m effs|err effs|site]; cbn [finish effs_of] in *.
  - assert (Hk : lookup req (connects (apply_effs (e1 <| mx := m |>) effs)) = Some (CResolved r)).
    { rewrite apply_effs_connects_keep by exact Hno. prj. now rewrite E3. }
    destruct (goodbye_sent m && goodbye_received m); [|exact Hk]. now rewrite lookup_resolve, Hk.
  - rewrite lookup_resolve. prj. rewrite apply_effs_connects_keep by exact Hno. now rewrite E3, Hl.
  - prj. now rewrite E3.
Qed.

(** the reason recorded in a reply cell is the cause of the step that wrote it *)
Definition cause (e : ep) (a : act) (e' : ep) (req : N) (r : cresp) : Prop :=
  match r with
  | RRejected np =>
      (exists p n, a = Recv (Rejected p np) n /\ lookup p (ports (mx e)) = Some (Connecting req)) \/
      (np = false /\ a = DConn /\ remote_listener_dropped (mx e) = true /\
       exists p id w q, cq e = EConnectReq p id w req :: q)
  | RAccepted p q =>
      exists n, a = Recv (PortOpened p q) n /\ lookup p (ports (mx e)) = Some (Connecting req) /\
                exists c, lookup p (ports (mx e')) = Some (Connected c) /\ remote c = q
  | RChMux => alive e' = false /\ remote_listener_dropped (mx e') = false
  | RListenerGone => alive e' = false /\ remote_listener_dropped (mx e') = true
  end.

Lemma respond_cause e a e' o req r :
  WF e -> step_opt e a = Some e' -> disp_outcome e a = Some o -> In (Respond req r) (effs_of o) ->
  (forall m' effs, o = Done m' effs -> mx e' = m') ->
  cause e a e' req r.
Proof.
  intros Hw H Ho Hin Hmx. pose proof (step_alive _ _ _ H) as Ha.
  destruct (WF_Good _ Hw Ha) as (_ & _ & _ & _ & [Hqs _ _ _ _ _ _ _ _]).
  destruct a; cbn [disp_outcome] in Ho; try discriminate.
  - destruct (chq e) as [|ev q] eqn:Eq; [discriminate|]. inj Ho. apply he_respond in Hin as (p & id & w & -> & _).
    destruct Hqs as [_ Hq]. cbn [forallb chq_ev andb] in Hq. discriminate.
  - destruct (cq e) as [|ev q] eqn:Eq; [discriminate|]. inj Ho. apply he_respond in Hin as (p & id & w & -> & Hr & ->).
    cbn [cause]. right. repeat split; auto. eauto.
  - inj Ho. apply he_respond in Hin as (p & id & w & Hx & _). discriminate.
  - inj Ho. apply he_respond in Hin as (p & id & w & Hx & _). discriminate.
  - inj Ho. apply hr_respond in Hin as [(p & np & -> & Hl & ->)|(p & q & -> & Hl & -> & Hd)].
    + cbn [cause]. left. eauto.
    + cbn [cause]. exists paylen. repeat split; auto. rewrite (Hmx _ _ Hd). prj. rewrite lookup_insert, N.eqb_refl.
      eexists. split; reflexivity.
Qed.

Lemma ended_not_alive m e : mx e = m -> goodbye_sent m && goodbye_received m = true -> alive e = false.
Proof. intros <- Hg. unfold alive. destruct (dead e), (panicked e); try reflexivity. now rewrite Hg. Qed.

Theorem truthful e a e' req r :
  WF e -> step_opt e a = Some e' ->
  lookup req (connects e) = Some CWaiting -> lookup req (connects e') = Some (CResolved r) ->
  cause e a e' req r.
Proof.
  intros Hw H Hl Hl'. destruct (disp_outcome e a) as [o|] eqn:Ho.
  2:{ destruct (step_user _ _ _ H Ho) as (_ & _ & _ & Hc). rewrite (Hc _ _ Hl) in Hl'. discriminate. }
  destruct (step_disp _ _ _ _ H Ho) as (e1 & He' & E1 & E2 & E3 & E4 & E5).
  assert (Hmx : forall m' effs, o = Done m' effs -> mx e' = m').
  { intros m' effs ->. rewrite He'. apply finish_Done_mx. }
  assert (Hresp : forall r0, In (Respond req r0) (effs_of o) -> cause e a e' req r0).
  { intros r0 Hin. eapply respond_cause; eauto. }
  (* the cell after the effects, before the final resolution *)
  assert (Hmid : forall e2 s, connects e2 = connects e1 -> lookup req (connects (apply_effs e2 (effs_of o))) = Some s ->
                 s = CWaiting \/ exists r0, s = CResolved r0 /\ cause e a e' req r0).
  { intros e2 s Hc Hs. apply apply_effs_connects in Hs as [Hs|(r0 & Hin & ->)].
    - left. rewrite Hc, E3, Hl in Hs. congruence.
    - right. eauto. }
  subst e'. destruct o as [m effs|err effs|site]; cbn [finish effs_of] in *.
  - assert (Hc0 : connects (e1 <| mx := m |>) = connects e1) by reflexivity.
    destruct (goodbye_sent m && goodbye_received m) eqn:Eg.
    + rewrite lookup_resolve in Hl'.
      destruct (lookup req (connects (apply_effs (e1 <| mx := m |>) effs))) as [s|] eqn:Es; [|discriminate].
      cbn [option_map] in Hl'. injection Hl' as Hr.
      destruct (Hmid _ s Hc0 Es) as [->|(r0 & -> & Hc)].
      * cbn [resolve_st] in Hr. injection Hr as <-.
        assert (Hm : mx (resolve_waiting (apply_effs (e1 <| mx := m |>) effs)) = m) by (apply (Hmx m effs eq_refl)).
        assert (Hm2 : mx (apply_effs (e1 <| mx := m |>) effs) = m).
        { destruct (apply_effs_frame effs (e1 <| mx := m |>)) as (_ & _ & Hm2 & _). exact Hm2. }
        rewrite Hm2. destruct (remote_listener_dropped m) eqn:Er; cbn [cause]; rewrite Hm, Er;
          (split; [eapply ended_not_alive; eauto|reflexivity]).
      * cbn [resolve_st] in Hr. injection Hr as <-. exact Hc.
    + destruct (Hmid _ _ Hc0 Hl') as [Hx|(r0 & Hx & Hc)]; [discriminate|]. injection Hx as <-. exact Hc.
  - rewrite lookup_resolve in Hl'. prj.
    destruct (lookup req (connects (apply_effs e1 effs))) as [s|] eqn:Es; [|discriminate].
    cbn [option_map] in Hl'. injection Hl' as Hr.
    destruct (Hmid e1 s eq_refl Es) as [->|(r0 & -> & Hc)].
    + cbn [resolve_st] in Hr. injection Hr as <-.
      assert (Hal : alive (resolve_waiting (apply_effs e1 effs <| dead := Some err |>)) = false) by reflexivity.
      destruct (remote_listener_dropped (mx (apply_effs e1 effs))) eqn:Er; cbn [cause]; (split; [exact Hal|]);
        unfold resolve_waiting; prj; exact Er.
    + cbn [resolve_st] in Hr. injection Hr as <-. exact Hc.
  - prj. rewrite E3, Hl in Hl'. discriminate.
Qed.

(** * Reachable states *)
Definition reach (ch bu cq rb ver maxp : N) (acts : list act) : ep :=
  run acts (ep_init (mux_init ch bu cq rb ver) maxp).
Lemma WF_reach ch bu cq rb ver maxp acts : WF (reach ch bu cq rb ver maxp acts).
Proof. apply WF_run, WF_init. Qed.
