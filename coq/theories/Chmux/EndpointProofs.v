(** Main results about one chmux endpoint ([Mux.v], [Endpoint.v]): the well-formedness invariant [WF]
    holds in every reachable state, under every interleaving of local API actions, helper-task steps,
    dispatcher steps and arbitrary received messages; consequences for C07, C08, C10. *)
From Remoc Require Import Lib.Base Gen.Consts Chmux.Wire Chmux.Mux Chmux.Endpoint Chmux.EndpointLemmas Chmux.EndpointInv
  Chmux.EndpointSteps Chmux.EndpointDisp Chmux.EndpointRecv.
From RecordUpdate Require Import RecordUpdate.

(** * The invariant is inductive *)
Lemma Good_WF e : Good e -> WF e.
Proof. intros (H1 & H2 & H3 & H4 & H5). constructor; auto; apply H5. Qed.
Lemma Fin_WF e : Fin e -> WF e.
Proof.
  intros [H|(H1 & H2 & H3 & H4 & H5 & H6)]; [now apply Good_WF|]. constructor; auto. intros Hd. congruence.
Qed.
Lemma alive_spec e : alive e = true ->
  dead e = None /\ panicked e = None /\ goodbye_sent (mx e) && goodbye_received (mx e) = false.
Proof. unfold alive. destruct (dead e), (panicked e); try discriminate. intros H. apply negb_true_iff in H. auto. Qed.
Lemma step_alive e a e' : step_opt e a = Some e' -> alive e = true.
Proof. unfold step_opt. destruct (alive e); [reflexivity|discriminate]. Qed.
Lemma WF_Good e : WF e -> alive e = true -> Good e.
Proof. intros [H1 H2 H3 Hb Hq H4] Ha. destruct (alive_spec _ Ha) as (Hd & _ & _). unfold Good. split; [|split; [|split; [|split]]]; auto. Qed.

Theorem WF_init ch bu cq rb ver maxp : WF (ep_init (mux_init ch bu cq rb ver) maxp).
Proof.
  constructor.
  - reflexivity.
  - constructor.
  - change (0 <= maxp). lia.
  - intros p c. discriminate.
  - split; unfold ep_init, mux_init; prj; lia.
  - intros _. constructor; unfold ep_init, mux_init; prj.
    + split; reflexivity.
    + intros p. cbn. lia.
    + intros r. cbn. auto.
    + intros p. unfold hok1, hget. cbn. repeat split; auto; discriminate.
    + intros r. reflexivity.
    + intros p c. discriminate.
    + split; prj; lia.
    + constructor.
    + intros _ r. reflexivity.
Qed.

Theorem WF_step e a e' : WF e -> step_opt e a = Some e' -> WF e'.
Proof.
  intros Hw H. pose proof (WF_Good _ Hw (step_alive _ _ _ H)) as HG. destruct a.
  - apply Good_WF. eapply step_UConnect; eauto.
  - apply Good_WF. eapply step_USendPorts; eauto.
  - apply Good_WF. eapply step_UDropClients; eauto.
  - apply Good_WF. eapply step_UDropListener; eauto.
  - apply Good_WF. eapply step_UListenerTake; eauto.
  - apply Good_WF. eapply step_UAccept; eauto.
  - apply Good_WF. eapply step_UReject; eauto.
  - apply Good_WF. eapply step_UDropRequest; eauto.
  - apply Good_WF. eapply step_USendData; eauto.
  - apply Good_WF. eapply step_UConsume; eauto.
  - apply Good_WF. eapply step_UReturnCredits; eauto.
  - apply Good_WF. eapply step_UCloseRx; eauto.
  - apply Good_WF. eapply step_UDropRx; eauto.
  - apply Good_WF. eapply step_UDropTx; eauto.
  - apply Good_WF. eapply step_UTerminate; eauto.
  - apply Good_WF. eapply step_NTx; eauto.
  - apply Good_WF. eapply step_NRx; eauto.
  - apply Good_WF. eapply step_NReq; eauto.
  - apply Fin_WF. eapply step_DPort; eauto.
  - apply Fin_WF. eapply step_DConn; eauto.
  - apply Fin_WF. eapply step_DListenerDropped; eauto.
  - apply Fin_WF. eapply step_DGoodbye; eauto.
  - apply Fin_WF. eapply step_Recv; eauto.
Qed.

Lemma WF_stepf e a : WF e -> WF (step e a).
Proof. intros H. unfold step. destruct (step_opt e a) eqn:E; [eapply WF_step; eauto|exact H]. Qed.
Theorem WF_run acts : forall e, WF e -> WF (run acts e).
Proof. induction acts as [|a acts IH]; intros e H; cbn [run fold_left]; [exact H|]. apply IH. now apply WF_stepf. Qed.

(** * C08: no panic site of the dispatcher is reachable *)
Theorem no_panic ch bu cq rb ver maxp acts :
  panicked (run acts (ep_init (mux_init ch bu cq rb ver) maxp)) = None.
Proof. apply WF_run, WF_init. Qed.

(** * C08: a received message keeps the invariant or terminates the connection; a terminated
      endpoint takes no further step *)
Lemma dead_absorbing e a : dead e <> None -> step_opt e a = None.
Proof. intros H. unfold step_opt, alive. destruct (dead e); [reflexivity|congruence]. Qed.
Lemma not_alive_absorbing e a : alive e = false -> step_opt e a = None.
Proof. intros H. unfold step_opt. now rewrite H. Qed.

Theorem classified e m n e' :
  WF e -> step_opt e (Recv m n) = Some e' ->
  (dead e' = None /\ Inv e') \/ (exists err, dead e' = Some err /\ forall a, step_opt e' a = None).
Proof.
  intros Hw H. pose proof (WF_Good _ Hw (step_alive _ _ _ H)) as HG.
  destruct (step_Recv _ _ _ _ HG H) as [(_ & Hd & _ & _ & Hi)|(_ & Hd & _)]; [left; auto|right].
  destruct (dead e') as [err|] eqn:E; [|congruence]. exists err. split; [reflexivity|].
  intros a. apply dead_absorbing. congruence.
Qed.

(** * C08: buffers are bounded *)
Lemma len_le_used (l : list (N * list N)) : len l <= sum (map fst l) + count (fun x => fst x =? 0) l.
Proof.
  induction l as [|x l IH]; cbn [map sum]; [rewrite len_nil, count_nil; lia|].
  rewrite len_cons, count_cons. destruct (fst x =? 0) eqn:E; cbn [b2n]; [lia|]. apply N.eqb_neq in E. lia.
Qed.

Theorem buffer_bounds e :
  WF e ->
  (forall p c, lookup p (ports (mx e)) = Some (Connected c) ->
     used c <= cfg_buffer (mx e) /\ len (rxq c) <= used c + 1) /\
  lq_wait (mx e) <= cfg_connect_queue (mx e) + 1 /\ lq_nowait (mx e) <= cfg_connect_queue (mx e) + 1.
Proof.
  intros [_ _ _ Hb [L1 L2] _]. split; [|auto]. intros p c Hl. destruct (Hb _ _ Hl) as (B1 & B2 & _).
  split; [exact B1|]. pose proof (len_le_used (rxq c)) as H. pose proof (b2n_le1 (negb (rx_open c))). unfold used. lia.
Qed.

(** * C07: port numbers *)
Theorem numbers e :
  WF e ->
  NoDup (alloc e) /\ len (alloc e) <= max_ports e /\
  (dead e = None -> forall p, lookup p (ports (mx e)) <> None -> In p (alloc e)).
Proof.
  intros [_ H1 H2 _ _ Hi]. repeat split; auto. intros Hd p Hl. specialize (Hi Hd). destruct Hi as [_ Hn _ _ _ _ _ _ _].
  specialize (Hn p). apply mem_In. destruct (lookup p (ports (mx e))); [|congruence]. cbn [isK] in Hn.
  destruct (mem p (alloc e)); [reflexivity|]. cbn [b2n] in Hn. lia.
Qed.

Theorem should_terminate_spec m :
  should_terminate m = true <->
  (ports m = [] /\ (all_clients_dropped m = true \/ remote_listener_dropped m = true) /\
   (listen_open m = false \/ remote_client_dropped m = true) /\ outstanding m = [])
  \/ goodbye_sent m = true \/ goodbye_received m = true.
Proof.
  unfold should_terminate. rewrite !orb_true_iff, !andb_true_iff, !orb_true_iff, negb_true_iff.
  destruct (ports m), (outstanding m); intuition (try discriminate; try congruence).
Qed.
