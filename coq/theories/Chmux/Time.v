(** Virtual time: keep-alive pings and the connection timeout ([mux.rs]: [send_task], [recv_task],
    [run]; [msg.rs]: [ExchangedCfg::write]).  Durations are nanoseconds in [N].

    * an endpoint with local timeout [T] announces [E = exchanged T] (whole milliseconds, at least 1,
      at most u64::MAX) -- [Wire.timeout_millis];
    * its peer sends a Ping whenever it has sent nothing for [E / 2] ([send_task]: the ping timer is
      re-armed after every message handed to the transport);
    * the endpoint itself gives up when it has received nothing for [L = max T 1ms] ([recv_task]:
      the timer is re-armed after every received message). *)
From Remoc Require Import Lib.Base Gen.Consts Chmux.Wire.

Definition MS : N := 1000000.

(** announced timeout in nanoseconds *)
Definition announced (t : N) : N := timeout_millis (Some t) * MS.
(** ping interval of the peer *)
Definition ping_interval (t : N) : N := announced t / PING_DIVISOR.
(** locally enforced timeout *)
Definition enforced (t : N) : N := N.max t (LOCAL_TIMEOUT_MIN_MS * MS).

(** the peer's sending instants on an idle connection, [k]-th ping sent at [k * P] (it may send
    earlier, never later, if the sink is ready); a message sent at [s] is received at [s + d] with a
    one-way delay [d] in [[dmin, dmin + jitter]]. *)
Definition max_gap (t jitter : N) : N := ping_interval t + jitter.

Lemma announced_le_enforced t : t <= 18446744073709551615 * MS -> announced t <= enforced t.
Proof.
  unfold announced, enforced, timeout_millis, NS_PER_MS, U64_MAX, MS, LOCAL_TIMEOUT_MIN_MS. intros H.
  destruct (N.le_gt_cases 1 (t / 1000000)) as [H1|H1].
  - assert (N.max 1 (N.min (t / 1000000) 18446744073709551615) = t / 1000000) as -> by lia. lia.
  - assert (N.max 1 (N.min (t / 1000000) 18446744073709551615) = 1) as -> by lia. lia.
Qed.

(** on an idle healthy connection whose delay jitter is below half the enforced timeout the gap
    between two received messages stays below the enforced timeout: no [Timeout] *)
Theorem idle_never_times_out t jitter :
  t <= 18446744073709551615 * MS -> 2 * jitter < enforced t -> max_gap t jitter < enforced t.
Proof.
  intros Ht Hj. pose proof (announced_le_enforced t Ht) as Ha. unfold max_gap, ping_interval, PING_DIVISOR. lia.
Qed.

(** a silent transport is noticed: the dispatcher's timer fires at most [enforced t] after the last
    message it received (the timer is re-armed only by received messages) *)
Definition deadline (last_rx t : N) : N := last_rx + enforced t.

Theorem silent_is_noticed last_rx t now : deadline last_rx t <= now -> enforced t <= now - last_rx.
Proof. unfold deadline. lia. Qed.

(** before the repair a timeout below one millisecond was announced as "none" (0): the peer sent no
    pings at all, and an idle healthy link timed out *)
Definition announced_before_fix (t : N) : N := N.min (t / NS_PER_MS) U64_MAX * MS.
Example sub_millisecond_regression :
  announced_before_fix 900000 = 0 /\ announced 900000 = MS /\ ping_interval 900000 < enforced 900000.
Proof. vm_compute. auto. Qed.
