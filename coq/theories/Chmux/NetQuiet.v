(** Towards C07 for the composed system: what the dispatcher functions do to the termination flags,
    two small invariants of every run (the all-clients-dropped marker is never lost; a [Goodbye] is
    either in flight or received), the "no user object left" condition and the measure. *)
From Remoc Require Import Lib.Base Gen.Consts Chmux.Wire Chmux.Mux Chmux.Endpoint Chmux.EndpointLemmas Chmux.EndpointInv
  Chmux.EndpointSteps Chmux.EndpointDisp Chmux.EndpointRecv Chmux.EndpointEffects Chmux.EndpointProofs Chmux.EndpointDeath
  Chmux.Net Chmux.NetInv Chmux.NetFrame Chmux.NetShape.
From RecordUpdate Require Import RecordUpdate.

Definition is_acd (ev : evt) : bool := match ev with EAllClientsDropped => true | _ => false end.
Definition is_gbe (ev : evt) : bool := match ev with EGoodbye => true | _ => false end.
Definition is_lde (ev : evt) : bool := match ev with EListenerDropped => true | _ => false end.
Definition is_acc (ev : evt) : bool := match ev with EAccepted _ _ => true | _ => false end.
Definition m_gb (m : msg) : bool := match m with Goodbye => true | _ => false end.
Definition m_ispo (m : msg) : bool := match m with PortOpened _ _ => true | _ => false end.

Definition is_newport (f : eff) : bool := match f with NewPort _ _ => true | _ => false end.
Definition eff_reqs (f : eff) : N :=
  match f with ToListener _ | DropRequest _ => 1 | PortRequests _ rs => len rs | _ => 0 end.

(** the termination flags of a multiplexer state *)
Record tflags := mk_tf { tf_acd : bool; tf_lo : bool; tf_gs : bool; tf_gr : bool }.
Definition flags_of (m : mux) : tflags :=
  {| tf_acd := all_clients_dropped m; tf_lo := listen_open m; tf_gs := goodbye_sent m; tf_gr := goodbye_received m |}.

Lemma maybe_free_tf m p m' effs : maybe_free m p = Some (m', effs) ->
  flags_of m' = flags_of m /\ outstanding m' = outstanding m /\ emits effs = [] /\ count is_newport effs = 0 /\ sum (map eff_reqs effs) = 0.
Proof.
  unfold maybe_free. destruct (lookup p (ports m)) as [[|c]|]; try discriminate.
  destruct (_ && _); intros H; apply some_pair_inj in H as [<- <-]; auto 10.
Qed.

Ltac he_crunch H :=
  repeat match type of H with
  | context [match ?x with _ => _ end] => let E := fresh "E" in destruct x eqn:E; try discriminate
  end.

(** [handle_event]: flags, frames and effects *)
Lemma he_flags m ev m' effs : handle_event m ev = Done m' effs ->
  flags_of m' = {| tf_acd := all_clients_dropped m || is_acd ev; tf_lo := listen_open m && negb (is_lde ev);
                   tf_gs := goodbye_sent m || is_gbe ev; tf_gr := goodbye_received m |} /\
  cnt m_gb (emits effs) = b2n (is_gbe ev) /\ cnt m_ispo (emits effs) = b2n (is_acc ev) /\
  count is_newport effs = b2n (is_acc ev) /\ sum (map eff_reqs effs) = 0.
Proof.
  intros H. destruct ev; try rewrite ins_ports_eq in H; cbn [handle_event] in H; he_crunch H;
    repeat match goal with Hm : maybe_free _ _ = Some (_, _) |- _ => apply maybe_free_tf in Hm as (?F & ?O & ?M & ?Nn & ?Rr) end;
    apply done_inj in H as [<- <-]; unfold flags_of in *; prj; cbn [emits is_acd is_lde is_gbe is_acc count is_newport map eff_reqs sum];
    rewrite ?orb_false_r, ?andb_true_r, ?andb_false_r, ?orb_true_r;
    repeat match goal with F : mk_tf _ _ _ _ = mk_tf _ _ _ _ |- _ => injection F as ? ? ? ? end; prj;
    repeat match goal with M : emits ?e = [] |- _ => rewrite ?M; clear M end;
    repeat split; try reflexivity; try congruence; cbn [cnt count fst m_gb m_ispo b2n length]; try lia.
Qed.

(** weights for the termination measure: a frame, an event, a dropped half or request each weigh
    more than everything they can still cause *)
Definition w_msg (m : msg) : N :=
  match m with OpenPort _ _ _ => 6 | PortData _ _ _ _ ps _ => 1 + 5 * len ps | _ => 1 end.
Definition w_frame (fr : frame) : N := w_msg (fst fr).
Definition w_ev (ev : evt) : N :=
  match ev with EConnectReq _ _ _ _ => 8 | ESendPorts _ _ _ _ ps => 3 + 5 * len ps | _ => 2 end.

(** [handle_received]: flags and effects *)
Lemma hr_flags m msg n m' effs : handle_received m msg n = Done m' effs ->
  flags_of m' = {| tf_acd := all_clients_dropped m; tf_lo := listen_open m; tf_gs := goodbye_sent m;
                   tf_gr := goodbye_received m || m_gb msg |} /\
  count is_newport effs = b2n (m_ispo msg) /\ 3 * sum (map eff_reqs effs) + 1 <= w_msg msg.
Proof.
  intros H. destruct msg; try rewrite hr_PortData in H; cbn [handle_received] in H; try discriminate; he_crunch H;
    repeat match goal with Hm : maybe_free _ _ = Some (_, _) |- _ => apply maybe_free_tf in Hm as (?F & ?O & ?M & ?Nn & ?Rr) end;
    apply done_inj in H as [<- <-]; unfold flags_of in *; prj; cbn [m_gb m_ispo count is_newport map eff_reqs sum w_msg b2n];
    rewrite ?orb_false_r, ?orb_true_r;
    repeat match goal with F : mk_tf _ _ _ _ = mk_tf _ _ _ _ |- _ => injection F as ? ? ? ? end; prj;
    repeat split; try reflexivity; try congruence; try lia.
Qed.

(** * Weighted sums over association lists *)
Definition wsum {A} (f : A -> N) (l : list (N * A)) : N := sum (map (fun x => f (snd x)) l).
Lemma wsum_cons {A} (f : A -> N) k v l : wsum f ((k, v) :: l) = f v + wsum f l. Proof. reflexivity. Qed.
Lemma wsum_remove_le {A} (f : A -> N) k l : wsum f (remove k l) <= wsum f l.
Proof.
  induction l as [|[k1 v] l IH]; cbn [remove]; [lia|]. destruct (k =? k1); rewrite ?wsum_cons; lia.
Qed.
Lemma wsum_remove_lookup {A} (f : A -> N) k l old : lookup k l = Some old -> wsum f (remove k l) + f old <= wsum f l.
Proof.
  induction l as [|[k1 v] l IH]; cbn [remove lookup]; [discriminate|]. destruct (k =? k1).
  - intros [= ->]. pose proof (wsum_remove_le f k l). rewrite wsum_cons. lia.
  - intros H. specialize (IH H). rewrite !wsum_cons. lia.
Qed.
Lemma wsum_insert_le {A} (f : A -> N) k v l : wsum f (insert k v l) <= f v + wsum f l.
Proof. unfold insert. rewrite wsum_cons. pose proof (wsum_remove_le f k l). lia. Qed.
Lemma wsum_insert_lookup {A} (f : A -> N) k v l old : lookup k l = Some old -> wsum f (insert k v l) + f old <= f v + wsum f l.
Proof. intros H. unfold insert. rewrite wsum_cons. pose proof (wsum_remove_lookup f k l old H). lia. Qed.
Lemma wsum_fold_insert {A} (f : A -> N) st rs : forall l,
  wsum f (fold_left (fun acc r => insert r st acc) rs l) <= len rs * f st + wsum f l.
Proof.
  induction rs as [|r rs IH]; intros l; cbn [fold_left]; [unfold len; cbn; lia|].
  specialize (IH (insert r st l)). pose proof (wsum_insert_le f r st l). rewrite len_cons. lia.
Qed.

(** * No user object left at an endpoint *)
Record equiet (e : ep) : Prop := mk_equiet {
  q_cl : clients_alive e = false;
  q_li : listener_alive e = false;
  q_h : forall p h, lookup p (handles e) = Some h -> h_tx h <> Alive /\ h_rx h <> Alive;
  q_r : forall r s, lookup r (requests e) = Some s -> s = RDropped \/ s = RAnswered;
  q_acc : count is_acc (chq e) = 0;
  q_acq : count is_acc (cq e) = 0
}.

Definition w_life (l : life) : N := match l with Dropped => 3 | _ => 0 end.
Definition w_handle (h : handle) : N := w_life (h_tx h) + w_life (h_rx h).
Definition w_req (s : rlife) : N := match s with RDropped => 3 | _ => 0 end.
Definition w_ep (e : ep) : N :=
  sum (map w_ev (chq e)) + sum (map w_ev (cq e)) + wsum w_handle (handles e) + wsum w_req (requests e) +
  (if listen_open (mx e) then 2 else 0) + (if goodbye_sent (mx e) then 0 else 2).

(** effects that create neither user objects nor requests *)
Lemma apply_effs_still effs : forall e,
  count is_newport effs = 0 -> sum (map eff_reqs effs) = 0 ->
  handles (apply_effs e effs) = handles e /\ requests (apply_effs e effs) = requests e.
Proof.
  induction effs as [|f effs IH]; intros e Hn Hr; cbn [apply_effs]; [auto|].
  rewrite count_cons in Hn. cbn [map sum] in Hr.
  match goal with |- context [apply_effs ?e1 effs] => destruct (IH e1) as [I1 I2]; [lia|lia|] end. rewrite I1, I2.
  destruct f; cbn [is_newport b2n eff_reqs] in *; prj; auto; try lia.
  destruct rs; [auto|rewrite len_cons in Hr; lia].
Qed.

Lemma apply_effs_misc effs : forall e,
  cq (apply_effs e effs) = cq e /\ clients_alive (apply_effs e effs) = clients_alive e /\
  listener_alive (apply_effs e effs) = listener_alive e /\ terminate_req (apply_effs e effs) = terminate_req e.
Proof.
  induction effs as [|f r IH]; intros e; cbn [apply_effs]; [auto|].
  match goal with |- context [apply_effs ?e1 r] => destruct (IH e1) as (I1 & I2 & I3 & I4) end. rewrite I1, I2, I3, I4.
  destruct f; prj; auto; destruct (listener_alive e) eqn:El; prj; auto.
Qed.

Definition r_quiet (s : rlife) : Prop := s = RDropped \/ s = RAnswered.

Lemma lookup_fold_dropped rs : forall (l : list (N * rlife)) r s,
  lookup r (fold_left (fun acc r => insert r RDropped acc) rs l) = Some s -> s = RDropped \/ lookup r l = Some s.
Proof.
  intros l r s. rewrite lookup_fold_insert. destruct (mem r rs); [intros [= <-]; now left|now right].
Qed.

(** the effects of a received message on an endpoint without listener and without live receivers:
    every new request is born dropped *)
Lemma apply_effs_reqs effs : forall e,
  count is_newport effs = 0 -> listener_alive e = false ->
  (forall p h, lookup p (handles e) = Some h -> h_rx h <> Alive) ->
  (forall r s, lookup r (requests e) = Some s -> r_quiet s) ->
  handles (apply_effs e effs) = handles e /\
  wsum w_req (requests (apply_effs e effs)) <= wsum w_req (requests e) + 3 * sum (map eff_reqs effs) /\
  (forall r s, lookup r (requests (apply_effs e effs)) = Some s -> r_quiet s).
Proof.
  induction effs as [|f effs IH]; intros e Hn Hli Hh Hq; cbn [apply_effs]; [cbn [map sum]; repeat split; auto; lia|].
  rewrite count_cons in Hn. cbn [map sum].
  assert (Hstep : forall e1, handles e1 = handles e -> listener_alive e1 = false ->
            wsum w_req (requests e1) <= wsum w_req (requests e) + 3 * eff_reqs f ->
            (forall r s, lookup r (requests e1) = Some s -> r_quiet s) ->
            handles (apply_effs e1 effs) = handles e /\
            wsum w_req (requests (apply_effs e1 effs)) <= wsum w_req (requests e) + 3 * (eff_reqs f + sum (map eff_reqs effs)) /\
            (forall r s, lookup r (requests (apply_effs e1 effs)) = Some s -> r_quiet s)).
  { intros e1 E1 E2 E3 E4. destruct (IH e1) as (I1 & I2 & I3); [lia|exact E2|now rewrite E1|exact E4|].
    rewrite I1, E1. repeat split; auto. lia. }
  destruct f as [m0 pl0|req0 cr0|l0 rp0|lr0|p0 rs0|rp0| |p0]; cbn [is_newport b2n] in Hn; try lia; cbn [eff_reqs].
  - apply Hstep; prj; auto; cbn [eff_reqs]; lia.
  - apply Hstep; prj; auto; cbn [eff_reqs]; lia.
  - rewrite Hli. apply Hstep; prj; auto.
    + pose proof (wsum_insert_le w_req (lr_remote lr0) RDropped (requests e)). cbn [w_req eff_reqs] in *. lia.
    + intros r0 s. rewrite lookup_insert. destruct (r0 =? lr_remote lr0); [intros [= <-]; now left|eauto].
  - assert (Est : match lookup p0 (handles e) with
                   | Some h => match h_rx h with Alive => RPortQ | _ => RDropped end
                   | None => RDropped end = RDropped).
    { destruct (lookup p0 (handles e)) as [h|] eqn:El; [|reflexivity]. specialize (Hh _ _ El). destruct (h_rx h); congruence. }
    rewrite Est. apply Hstep; prj; auto.
    + pose proof (wsum_fold_insert w_req RDropped rs0 (requests e)). cbn [w_req eff_reqs] in *. lia.
    + intros r0 s H. apply lookup_fold_dropped in H as [->|H]; [now left|eauto].
  - apply Hstep; prj; auto.
    + pose proof (wsum_insert_le w_req rp0 RDropped (requests e)). cbn [w_req eff_reqs] in *. lia.
    + intros r0 s. rewrite lookup_insert. destruct (r0 =? rp0); [intros [= <-]; now left|eauto].
  - apply Hstep; prj; auto; cbn [eff_reqs]; lia.
  - apply Hstep; prj; auto; cbn [eff_reqs]; lia.
Qed.

Lemma len_map {A B} (f : A -> B) l : len (map f l) = len l.
Proof. unfold len. now rewrite map_length. Qed.

(** an event outweighs the frames its handling emits *)
Lemma he_weight m ev m' effs : handle_event m ev = Done m' effs -> sum (map w_frame (emits effs)) + 1 <= w_ev ev.
Proof.
  intros H. destruct ev; try rewrite ins_ports_eq in H; cbn [handle_event] in H; he_crunch H;
    repeat match goal with Hm : maybe_free _ _ = Some (_, _) |- _ => apply maybe_free_tf in Hm as (?F & ?O & ?M & ?Nn & ?Rr) end;
    apply done_inj in H as [<- <-]; cbn [emits];
    repeat match goal with M : emits ?e = [] |- _ => rewrite ?M; clear M end;
    cbn [map sum w_frame w_msg fst w_ev]; rewrite ?len_map; lia.
Qed.

Lemma finish_Done_fields e1 m effs :
  let e' := finish e1 (Done m effs) in
  let e2 := apply_effs (e1 <| mx := m |>) effs in
  handles e' = handles e2 /\ requests e' = requests e2 /\ cq e' = cq e2 /\ clients_alive e' = clients_alive e2 /\
  listener_alive e' = listener_alive e2.
Proof. cbn [finish]. destruct (goodbye_sent m && goodbye_received m); unfold resolve_waiting; prj; auto. Qed.

Definition w_flags (m : mux) : N := (if listen_open m then 2 else 0) + (if goodbye_sent m then 0 else 2).
Lemma w_ep_eq e : w_ep e = sum (map w_ev (chq e)) + sum (map w_ev (cq e)) + wsum w_handle (handles e) + wsum w_req (requests e) + w_flags (mx e).
Proof. unfold w_ep, w_flags. lia. Qed.

(** * The helper tasks *)
Lemma q_NTx e p e' : step_opt e (NTx p) = Some e' -> equiet e ->
  equiet e' /\ w_ep e' + 1 <= w_ep e /\ mx e' = mx e /\ sent e' = sent e /\ dead e' = dead e.
Proof.
  intros H [Q1 Q2 Q3 Q4 Q5 Q6]. open_step H. cases. inj H. rewrite !w_ep_eq. unfold set_handle. prj. split; [|split; [|auto]].
  - constructor; prj; auto.
    + intros p0 h0. rewrite lookup_insert. destruct (p0 =? p); [|apply Q3]. intros [= <-]. prj. split; [discriminate|]. apply (Q3 _ _ E).
    + rewrite count_snoc, Q5. reflexivity.
  - rewrite map_app, sum_app. cbn [map sum w_ev]. pose proof (wsum_insert_lookup w_handle p (h <| h_tx := Queued |>) _ _ E) as W.
    unfold w_handle in *. prj. rewrite E0 in W. cbn [w_life] in W. lia.
Qed.
Lemma q_NRx e p e' : step_opt e (NRx p) = Some e' -> equiet e ->
  equiet e' /\ w_ep e' + 1 <= w_ep e /\ mx e' = mx e /\ sent e' = sent e /\ dead e' = dead e.
Proof.
  intros H [Q1 Q2 Q3 Q4 Q5 Q6]. open_step H. cases. inj H. rewrite !w_ep_eq. unfold set_handle. prj. split; [|split; [|auto]].
  - constructor; prj; auto.
    + intros p0 h0. rewrite lookup_insert. destruct (p0 =? p); [|apply Q3]. intros [= <-]. prj. split; [|discriminate]. apply (Q3 _ _ E).
    + rewrite count_snoc, Q5. reflexivity.
  - rewrite map_app, sum_app. cbn [map sum w_ev]. pose proof (wsum_insert_lookup w_handle p (h <| h_rx := Queued |>) _ _ E) as W.
    unfold w_handle in *. prj. rewrite E0 in W. cbn [w_life] in W. lia.
Qed.
Lemma q_NReq e r e' : step_opt e (NReq r) = Some e' -> equiet e ->
  equiet e' /\ w_ep e' + 1 <= w_ep e /\ mx e' = mx e /\ sent e' = sent e /\ dead e' = dead e.
Proof.
  intros H [Q1 Q2 Q3 Q4 Q5 Q6]. open_step H. cases. inj H. rewrite !w_ep_eq. prj. split; [|split; [|auto]].
  - constructor; prj; auto.
    + intros k s. rewrite lookup_insert. destruct (k =? r); [intros [= <-]; now right|apply Q4].
    + rewrite count_snoc, Q5. reflexivity.
  - rewrite map_app, sum_app. cbn [map sum w_ev]. pose proof (wsum_insert_lookup w_req r RAnswered _ _ E) as W.
    cbn [w_req] in W. lia.
Qed.

(** * Dispatcher steps *)
Definition w_parts (e : ep) : N :=
  sum (map w_ev (chq e)) + sum (map w_ev (cq e)) + wsum w_handle (handles e) + wsum w_req (requests e).

Lemma q_after e1 mold ev m effs :
  handle_event mold ev = Done m effs -> is_acc ev = false -> equiet e1 ->
  equiet (finish e1 (Done m effs)) /\ w_ep (finish e1 (Done m effs)) = w_parts e1 + w_flags m.
Proof.
  intros He Ha [Q1 Q2 Q3 Q4 Q5 Q6]. destruct (he_flags _ _ _ _ He) as (_ & _ & _ & Hn & Hr). rewrite Ha in Hn. cbn [b2n] in Hn.
  destruct (finish_Done_fields e1 m effs) as (F1 & F2 & F3 & F4 & F5). cbv zeta in *.
  destruct (finish_Done_view e1 m effs) as (V1 & V2 & V3 & V4).
  destruct (apply_effs_still effs (e1 <| mx := m |>) Hn Hr) as [S1 S2].
  destruct (apply_effs_misc effs (e1 <| mx := m |>)) as (M1 & M2 & M3 & M4). prj.
  split.
  - constructor; rewrite ?F1, ?F2, ?F3, ?F4, ?F5, ?S1, ?S2, ?M1, ?M2, ?M3, ?V2; prj; auto.
  - rewrite w_ep_eq, V1, V2, F1, F2, F3, S1, S2, M1. prj. reflexivity.
Qed.

Lemma w_flags_he mold ev m effs : handle_event mold ev = Done m effs -> w_flags m <= w_flags mold.
Proof.
  intros He. destruct (he_flags _ _ _ _ He) as (Hf & _). unfold flags_of in Hf. injection Hf as _ F2 F3 _.
  unfold w_flags. rewrite F2, F3. destruct (listen_open mold), (is_lde ev), (goodbye_sent mold), (is_gbe ev); cbn; lia.
Qed.

Lemma q_DPort e e' : step_opt e DPort = Some e' -> equiet e -> panicked e' = None ->
  equiet e' /\ w_ep e' + sum (map w_frame (new_frames e e')) + 1 <= w_ep e /\ cnt m_ispo (new_frames e e') = 0 /\ dead e' = dead e.
Proof.
  intros H Hq Hp. pose proof Hq as [Q1 Q2 Q3 Q4 Q5 Q6]. pose proof (view_DPort _ _ H) as (ev & q & Eq & Hv).
  destruct (disp_done _ _ _ _ Hv Hp) as (m & effs & He & E1 & E2 & E3 & E4).
  rewrite (new_frames_app _ _ _ E3).
  assert (Ha : is_acc ev = false).
  { rewrite Eq, count_cons in Q5. destruct (is_acc ev); [cbn [b2n] in Q5; lia|reflexivity]. }
  destruct (he_flags _ _ _ _ He) as (_ & _ & Hpo & _). rewrite Ha in Hpo.
  pose proof (he_weight _ _ _ _ He) as Hw. pose proof (w_flags_he _ _ _ _ He) as Hf.
  open_step H. destruct (negb (sending e)); [discriminate|]. rewrite Eq in H. inj H. rewrite He.
  (* the state handed to [finish] *)
  match goal with |- context [finish ?e2 _] => set (e1 := e2) end.
  assert (Hq1 : equiet e1 /\ w_parts e1 + w_ev ev <= w_parts e).
  { unfold w_parts. rewrite Eq. cbn [map sum]. subst e1.
    assert (Hbase : equiet (e <| chq := q |>)).
    { constructor; prj; auto. rewrite Eq, count_cons in Q5. lia. }
    destruct ev; prj; try (split; [exact Hbase|lia]).
    - (* EAccepted *) discriminate.
    - split; [|pose proof (wsum_remove_le w_req remote_port (requests e)); lia].
      destruct Hbase as [B1 B2 B3 B4 B5 B6]. constructor; prj; auto. intros r s. rewrite lookup_remove. destruct (r =? remote_port); [discriminate|apply B4].
    - destruct (lookup p (handles e)) as [h|] eqn:El; [|split; [exact Hbase|prj; lia]]. unfold set_handle. prj. split.
      + destruct Hbase as [B1 B2 B3 B4 B5 B6]. constructor; prj; auto. intros p0 h0. rewrite lookup_insert.
        destruct (p0 =? p); [|apply B3]. intros [= <-]. prj. split; [discriminate|apply (Q3 _ _ El)].
      + pose proof (wsum_insert_lookup w_handle p (h <| h_tx := Gone |>) _ _ El) as W. unfold w_handle in *. prj. cbn [w_life] in W. lia.
    - destruct (lookup p (handles e)) as [h|] eqn:El; [|split; [exact Hbase|prj; lia]]. unfold set_handle. prj. split.
      + destruct Hbase as [B1 B2 B3 B4 B5 B6]. constructor; prj; auto. intros p0 h0. rewrite lookup_insert.
        destruct (p0 =? p); [|apply B3]. intros [= <-]. prj. apply (Q3 _ _ El).
      + pose proof (wsum_insert_lookup w_handle p (h <| h_rxc := Gone |>) _ _ El) as W. unfold w_handle in *. prj. lia.
    - destruct (lookup p (handles e)) as [h|] eqn:El; [|split; [exact Hbase|prj; lia]]. unfold set_handle. prj. split.
      + destruct Hbase as [B1 B2 B3 B4 B5 B6]. constructor; prj; auto. intros p0 h0. rewrite lookup_insert.
        destruct (p0 =? p); [|apply B3]. intros [= <-]. prj. split; [apply (Q3 _ _ El)|discriminate].
      + pose proof (wsum_insert_lookup w_handle p (h <| h_rx := Gone |>) _ _ El) as W. unfold w_handle in *. prj. cbn [w_life] in W. lia. }
  destruct Hq1 as [Hq1 Hw1]. destruct (q_after e1 _ _ _ _ He Ha Hq1) as [A1 A2].
  split; [exact A1|split; [|split; [exact Hpo|]]].
  - rewrite A2. rewrite (w_ep_eq e). fold (w_parts e) (w_flags (mx e)). lia.
  - destruct (finish_Done_view e1 m effs) as (_ & _ & _ & V4). rewrite V4. subst e1. destruct ev; try destruct (lookup p (handles e)); reflexivity.
Qed.
