(** The local port-number allocator ([chmux/port_allocator.rs]): [PortAllocator::{try_allocate, allocate}],
    [PortNumber::drop].  Numbers are drawn at random among the free ones, so the model keeps only HOW MANY
    are in use; what matters for C07 / C10 is the waiting protocol of [allocate()]:

    * [allocate()] tries; when every number is in use it registers a one-shot notifier in [notify_tx] and
      sleeps until it fires, then tries again (it may lose the race and register again);
    * dropping a [PortNumber] releases the number and fires EVERY registered notifier (the list is emptied);
    * an [allocate()] future may be dropped at any time (a connect with a time limit, a [select!] in
      [Listener::accept], a caller-side timeout); its notifier stays registered until the next release.

    Futures are identified by the harness ([id]); all scheduling is in the action list. *)
From Remoc Require Import Lib.Base.
From RecordUpdate Require Import RecordUpdate.

Inductive fstate := FWaiting | FNotified.

Record alloc := mk_alloc {
  limit : N;
  used : N;
  reg : list N;                 (** ids in [notify_tx] (live or dropped futures), oldest first *)
  futs : list (N * fstate);     (** live pending [allocate()] futures *)
  next : N                      (** ids are never reused: a new future needs an id at least this large *)
}.
#[global] Instance eta_alloc : Settable _ := settable! mk_alloc <limit; used; reg; futs; next>.

Inductive act :=
| ATry               (** [try_allocate()] *)
| AStart (id : N)    (** a new [allocate()] future, polled once *)
| APoll (id : N)     (** the future is polled again (after a wake-up, or spuriously) *)
| ACancel (id : N)   (** the future is dropped *)
| ADrop.             (** one held [PortNumber] is dropped *)

Fixpoint flookup (id : N) (l : list (N * fstate)) : option fstate :=
  match l with [] => None | (k, v) :: r => if k =? id then Some v else flookup id r end.
Fixpoint fremove (id : N) (l : list (N * fstate)) : list (N * fstate) :=
  match l with [] => [] | (k, v) :: r => if k =? id then fremove id r else (k, v) :: fremove id r end.
Definition fset (id : N) (v : fstate) (l : list (N * fstate)) : list (N * fstate) := (id, v) :: fremove id l.

(** every live future whose notifier is registered is notified *)
Definition notify_all (rg : list N) (l : list (N * fstate)) : list (N * fstate) :=
  map (fun kv => if existsb (N.eqb (fst kv)) rg then (fst kv, FNotified) else kv) l.

(** the ids woken by a release, in registration order (live futures only) *)
Definition woken (a : alloc) : list N :=
  filter (fun id => match flookup id (futs a) with Some FWaiting => true | _ => false end) (reg a).

(** outputs: 1 = got a number, 0 = none / pending, 2 = no such future (ignored) *)
Definition step (a : alloc) (x : act) : alloc * list N :=
  match x with
  | ATry => if used a <? limit a then (a <| used := used a + 1 |>, [1]) else (a, [0])
  | AStart id =>
      if id <? next a then (a, [2])
      else
        let a := a <| next := id + 1 |> in
        if used a <? limit a then (a <| used := used a + 1 |>, [1])
        else (a <| reg := reg a ++ [id] |> <| futs := fset id FWaiting (futs a) |>, [0])
  | APoll id =>
      match flookup id (futs a) with
      | None => (a, [2])
      | Some FWaiting => (a, [0])
      | Some FNotified =>
          if used a <? limit a then (a <| used := used a + 1 |> <| futs := fremove id (futs a) |>, [1])
          else (a <| reg := reg a ++ [id] |> <| futs := fset id FWaiting (futs a) |>, [0])
      end
  | ACancel id =>
      match flookup id (futs a) with
      | None => (a, [2])
      | Some _ => (a <| futs := fremove id (futs a) |>, [0])
      end
  | ADrop =>
      if used a =? 0 then (a, [2])
      else (a <| used := used a - 1 |> <| reg := [] |> <| futs := notify_all (reg a) (futs a) |>,
            1 :: woken a)
  end.

Definition init (lim : N) : alloc := {| limit := lim; used := 0; reg := []; futs := []; next := 0 |}.

Fixpoint run (a : alloc) (xs : list act) : alloc :=
  match xs with [] => a | x :: xs => run (fst (step a x)) xs end.

(** what an executor does once the caller stops acting: it polls exactly the futures that were woken, until
    none is left (a woken future either takes a number or registers again) *)
Fixpoint first_notified (l : list (N * fstate)) : option N :=
  match l with [] => None | (k, FNotified) :: _ => Some k | _ :: r => first_notified r end.
Fixpoint drain (fuel : nat) (a : alloc) : alloc :=
  match fuel with
  | O => a
  | S f => match first_notified (futs a) with Some id => drain f (fst (step a (APoll id))) | None => a end
  end.
