(** Preservation of the composed invariant by the emitting steps of one endpoint X (link [L] leaves X). *)
From Remoc Require Import Lib.Base Gen.Consts Chmux.Wire Chmux.Mux Chmux.Endpoint Chmux.EndpointLemmas Chmux.EndpointInv
  Chmux.EndpointSteps Chmux.Net Chmux.NetInv Chmux.NetFrame.
From RecordUpdate Require Import RecordUpdate.

Lemma m_intro_false x m : m_intro x m = false -> m_reqn x m = 0 /\ m_srv x m = false.
Proof.
  unfold m_intro. intros H. apply orb_false_iff in H as [H1 H2]. split; [|exact H2]. apply N.ltb_ge in H1. lia.
Qed.
Lemma m_pox_srv y x m : m_pox y x m = true -> m_srv x m = true.
Proof. destruct m; cbn [m_pox m_srv]; try discriminate. intros H. apply andb_true_iff in H. tauto. Qed.
Lemma cnt_pox_snoc_nosrv y x L fr : m_srv x (fst fr) = false -> cnt (m_pox y x) (L ++ [fr]) = cnt (m_pox y x) L.
Proof.
  intros H. rewrite cnt_snoc. destruct (m_pox y x (fst fr)) eqn:E; [|cbn [b2n]; lia]. apply m_pox_srv in E. congruence.
Qed.
Lemma pstat_snoc_nosrv PY L fr y x : m_srv x (fst fr) = false -> pstat PY (L ++ [fr]) y x = pstat PY L y x.
Proof. intros H. apply pstat_link. now apply cnt_pox_snoc_nosrv. Qed.
Lemma cnt_pox_cons_nosrv y x L fr : m_srv x (fst fr) = false -> cnt (m_pox y x) (fr :: L) = cnt (m_pox y x) L.
Proof.
  intros H. rewrite cnt_cons. destruct (m_pox y x (fst fr)) eqn:E; [|cbn [b2n]; lia]. apply m_pox_srv in E. congruence.
Qed.

(** a live end that has not finished both halves has a partner that knows it *)
Lemma live_partner PY PX OY L' L x c :
  rx_clause PY PX OY L' L x -> lookup x PX = Some (Connected c) ->
  tx_dropped c = false \/ rx_dropped c = false ->
  pstat PY L (remote c) x <> PGone.
Proof.
  unfold rx_clause. intros H Hl Hlive. rewrite Hl in H. destruct H as (_ & _ & _ & _ & Hr & _). intros Hg.
  destruct (r_gone _ _ _ _ Hr Hg) as [G1 G2]. destruct Hlive; congruence.
Qed.

(** * The clause of the addressed port [y] when X's port [x] (remote [y]) emits a frame for it *)
Lemma rx_y_snoc PX PX' PY OX OY L L' x c c' fr y :
  rx_clause PX PY OX L L' y -> rx_clause PY PX OY L' L x -> inj_ok PX ->
  lookup x PX = Some (Connected c) -> remote c = y -> tx_dropped c = false \/ rx_dropped c = false ->
  lookup x PX' = Some (Connected c') -> remote c' = y ->
  m_po y (fst fr) = false -> m_rj y (fst fr) = false ->
  (forall cY, rcl cY (PLive c) y L -> rcl cY (PLive c') y (L ++ [fr])) ->
  rx_clause PX' PY OX (L ++ [fr]) L' y.
Proof.
  intros Hy Hx Hinj Hl Hr Hlive Hl' Hr' Hpo Hrj Hstep.
  pose proof (live_partner _ _ _ _ _ _ _ Hx Hl Hlive) as Hng. rewrite Hr in Hng.
  assert (Ppo : cnt (m_po y) (L ++ [fr]) = cnt (m_po y) L) by (rewrite cnt_snoc, Hpo; cbn [b2n]; lia).
  assert (Prj : cnt (m_rj y) (L ++ [fr]) = cnt (m_rj y) L) by (rewrite cnt_snoc, Hrj; cbn [b2n]; lia).
  assert (Ppox : forall x0, cnt (m_pox y x0) (L ++ [fr]) = cnt (m_pox y x0) L).
  { intros x0. rewrite cnt_snoc. destruct (m_pox y x0 (fst fr)) eqn:E; [|cbn [b2n]; lia]. apply m_pox_po in E. congruence. }
  assert (Plive : pstat PX L' x y = PLive c) by (apply pstat_live_intro; auto).
  assert (Plive' : pstat PX' L' x y = PLive c') by (apply pstat_live_intro; auto).
  unfold rx_clause in *. unfold pstat in Hng. destruct (lookup y PY) as [[r|cY]|]; [| |congruence].
  - (* Connecting: our PortOpened is still in flight *)
    destruct (0 <? cnt (m_pox y x) L) eqn:Epo; [|congruence]. apply N.ltb_lt in Epo.
    destruct Hy as (H1 & H2 & H3 & H4). rewrite Ppo, Prj.
    split; [exact H1|split; [|split]].
    + apply nafter_snoc_other; assumption.
    + intros H0. pose proof (cnt_pox_le_po y x L). lia.
    + intros x0 Hx0. rewrite Ppox in Hx0. destruct (H4 x0 Hx0) as (c0 & P1 & P2).
      apply pstat_live in P1 as [P1 P1r].
      assert (x0 = x) by (eapply Hinj; eauto; congruence). subst x0.
      assert (c0 = c) by congruence. subst c0. exists c'. split; [exact Plive'|]. now apply Hstep.
  - (* Connected to x *)
    destruct (remote cY =? x) eqn:Ex; [|congruence]. apply N.eqb_eq in Ex.
    destruct Hy as (H1 & H2 & H3 & H4 & H5 & H6). rewrite Ppo, Prj, Ex in *. rewrite Plive in H5. rewrite Plive'.
    split; [exact H1|split; [exact H2|split; [exact H3|split; [exact H4|split]]]].
    + now apply Hstep.
    + discriminate.
Qed.

(** * The clause of X's own port [x] when its entry changes on the sending side only *)
Lemma rx_x_upd PY PX PX' OY L' L L2 x c c' :
  rx_clause PY PX OY L' L x -> lookup x PX = Some (Connected c) ->
  tx_dropped c = false \/ rx_dropped c = false ->
  lookup x PX' = Some (Connected c') -> remote c' = remote c ->
  rx_open c' = rx_open c -> rrx_closed c' = rrx_closed c -> rrx_dropped c' = rrx_dropped c ->
  reqcount x L2 = reqcount x L -> pstat PY L2 (remote c) x = pstat PY L (remote c) x ->
  rx_clause PY PX' OY L' L2 x.
Proof.
  intros Hx Hl Hlive Hl' Er E1 E2 E3 Eq Ep. pose proof (live_partner _ _ _ _ _ _ _ Hx Hl Hlive) as Hng.
  unfold rx_clause in *. rewrite Hl in Hx. rewrite Hl'. destruct Hx as (H1 & H2 & H3 & H4 & H5 & H6).
  rewrite Er, Eq, Ep. split; [exact H1|split; [exact H2|split; [exact H3|split; [exact H4|split]]]].
  - destruct H5 as [R1 R2 R3 R4 R5 R6 R7 R8 R9 R10]. constructor; rewrite ?E1, ?E2, ?E3; auto; intros Hg; congruence.
  - intros Hg. congruence.
Qed.

(** * A fresh number becomes a [Connecting] entry whose request has just been emitted *)
Lemma rx_new_connecting PY PX PX' OY L' L L2 p r :
  rx_clause PY PX OY L' L p -> lookup p PX = None -> lookup p PX' = Some (Connecting r) ->
  reqcount p L2 = reqcount p L + 1 ->
  rx_clause PY PX' OY L' L2 p.
Proof.
  intros Hx Hl Hl' Eq. unfold rx_clause in *. rewrite Hl in Hx. rewrite Hl'. destruct Hx as (H1 & H2 & H3).
  pose proof (cnt_le (m_po p) (m_addr p) L' (sub_po p)). pose proof (cnt_le (m_rj p) (m_addr p) L' (sub_rj p)).
  pose proof (cnt_le (m_other p) (m_addr p) L' (sub_other p)).
  rewrite Eq, H2, H3. cbn [b2n]. split; [lia|split; [|split]].
  - apply nafter_g0. lia.
  - intros _. lia.
  - intros x Hx. pose proof (cnt_pox_le_po p x L'). lia.
Qed.

(** tables *)
Lemma inj_ok_upd PX PX' :
  (forall k c', lookup k PX' = Some (Connected c') -> exists c, lookup k PX = Some (Connected c) /\ remote c = remote c') ->
  inj_ok PX -> inj_ok PX'.
Proof.
  intros H Hi p1 p2 c1 c2 H1 H2 Hr. destruct (H _ _ H1) as (d1 & D1 & R1). destruct (H _ _ H2) as (d2 & D2 & R2).
  eapply Hi; eauto. congruence.
Qed.
Lemma out_ok_upd PX PX' OX OX' :
  (forall k c', lookup k PX' = Some (Connected c') -> exists c, lookup k PX = Some (Connected c) /\ remote c = remote c') ->
  (forall r, mem r OX' = true -> mem r OX = true) ->
  out_ok PX OX -> out_ok PX' OX'.
Proof.
  intros H Ho Hi p c' H1. destruct (H _ _ H1) as (c & D1 & R1). specialize (Hi _ _ D1). rewrite <- R1.
  destruct (mem (remote c) OX') eqn:E; [|reflexivity]. apply Ho in E. congruence.
Qed.

(** * X's port [x] (remote [y]) emits one frame addressed to [y]; the frame may carry requests for
      fresh numbers [ps], which become [Connecting] *)
Section Emit.
  Variables (PX PX' PY : list (N * pstate)) (OX OY : list N) (QX QX' QY : list evt) (L L' : list frame).
  Variables (x y : N) (c c' : conn) (fr : frame) (ps : list N).
  Hypothesis HC : Core PX PY OX OY QX QY L L'.
  Hypothesis Hl : lookup x PX = Some (Connected c).
  Hypothesis Hr : remote c = y.
  Hypothesis Hlive : tx_dropped c = false \/ rx_dropped c = false.
  Hypothesis K1 : lookup x PX' = Some (Connected c').
  Hypothesis K2 : forall k, k <> x -> mem k ps = false -> lookup k PX' = lookup k PX.
  Hypothesis K3 : forall k, mem k ps = true -> lookup k PX = None /\ exists r, lookup k PX' = Some (Connecting r).
  Hypothesis K4 : forall k, m_reqn k (fst fr) = b2n (mem k ps).
  Hypothesis K5 : forall k, m_srv k (fst fr) = false.
  Hypothesis Er : remote c' = y.
  Hypothesis E1 : rx_open c' = rx_open c.
  Hypothesis E2 : rrx_closed c' = rrx_closed c.
  Hypothesis E3 : rrx_dropped c' = rrx_dropped c.
  Hypothesis Haddr : forall y0, y0 <> y -> m_addr y0 (fst fr) = false.
  Hypothesis Hpo : m_po y (fst fr) = false.
  Hypothesis Hrj : m_rj y (fst fr) = false.
  Hypothesis Hbad : m_bad (fst fr) = false.
  Hypothesis Hstep : forall cY, rcl cY (PLive c) y L -> rcl cY (PLive c') y (L ++ [fr]).
  Hypothesis Hch : chq_ok PX' QX'.

  Lemma emit_x_not_ps : mem x ps = false.
  Proof. destruct (mem x ps) eqn:E; [|reflexivity]. destruct (K3 _ E) as [H _]. congruence. Qed.

  Lemma emit_conn k d' : lookup k PX' = Some (Connected d') -> exists d, lookup k PX = Some (Connected d) /\ remote d = remote d'.
  Proof.
    intros H. destruct (N.eq_dec k x) as [->|Hne].
    - exists c. split; [exact Hl|]. rewrite K1 in H. injection H as <-. congruence.
    - destruct (mem k ps) eqn:E.
      + destruct (K3 _ E) as (_ & r & Hk). congruence.
      + rewrite (K2 _ Hne E) in H. eauto.
  Qed.

  Lemma emit_pstat x0 y0 : y0 <> y \/ x0 <> x -> pstat PX' L' x0 y0 = pstat PX L' x0 y0.
  Proof.
    intros Hd. destruct (N.eq_dec x0 x) as [->|Hne].
    - destruct Hd as [Hd|Hd]; [|congruence]. rewrite (pstat_conn_other _ _ _ _ _ K1), (pstat_conn_other _ _ _ _ _ Hl); congruence.
    - destruct (mem x0 ps) eqn:E.
      + destruct (K3 _ E) as (Hn & r & Hk). rewrite (pstat_none _ _ _ _ Hn). unfold pstat. rewrite Hk.
        pose proof (c_yx _ _ _ _ _ _ _ _ HC x0) as Hx0. unfold rx_clause in Hx0. rewrite Hn in Hx0. destruct Hx0 as (H1 & _).
        pose proof (cnt_le (m_pox x0 y0) (m_addr x0) L' (sub_pox x0 y0)).
        destruct (0 <? cnt (m_pox x0 y0) L') eqn:El; [|reflexivity]. apply N.ltb_lt in El. lia.
      + unfold pstat. now rewrite (K2 _ Hne E).
  Qed.

  Lemma core_emit : Core PX' PY OX OY QX' QY (L ++ [fr]) L'.
  Proof.
    pose proof HC as [Hxy Hyx Hix Hiy Hox Hoy Hcx Hcy Hbx Hby]. constructor; auto.
    - intros y0. destruct (N.eq_dec y0 y) as [->|Hne].
      + eapply rx_y_snoc; eauto.
      + eapply rx_frame; [apply Hxy|reflexivity|apply leq_snoc; auto|reflexivity|reflexivity|].
        intros x0. apply pst_ok_eq. apply emit_pstat. auto.
    - intros x0. destruct (N.eq_dec x0 x) as [->|Hne].
      + eapply rx_x_upd; eauto; try congruence.
        * rewrite reqcount_snoc, K4, emit_x_not_ps. cbn [b2n]. lia.
        * apply pstat_snoc_nosrv. apply K5.
      + destruct (mem x0 ps) eqn:E.
        * destruct (K3 _ E) as (Hn & r & Hk). eapply rx_new_connecting; eauto.
          rewrite reqcount_snoc, K4, E. reflexivity.
        * eapply rx_frame; [apply Hyx|apply (K2 _ Hne E)|apply leq_refl|reflexivity| |].
          -- rewrite reqcount_snoc, K4, E. cbn [b2n]. lia.
          -- intros y0. apply pst_ok_eq. apply pstat_snoc_nosrv. apply K5.
    - eapply inj_ok_upd; [|exact Hix]. apply emit_conn.
    - eapply out_ok_upd; [apply emit_conn| |exact Hox]. auto.
    - rewrite cnt_snoc, Hbad. cbn [b2n]. lia.
  Qed.
End Emit.

(** * The effect of each addressed frame on the receiver's accounting *)
Ltac rcl_counts :=
  rewrite ?cnt_snoc; cbn [fst m_sf m_rf m_rc m_data m_cred m_credrc m_fin m_other orb b2n txf rxf rxcf];
  rewrite ?N.eqb_refl; cbn [orb b2n].
Ltac rcl_fin :=
  first [ apply nafter_snoc_other; [assumption|reflexivity]
        | apply nafter_snoc; [assumption|intros _; lia]
        | congruence
        | let Hd := fresh "Hd" in
          intros Hd; repeat match goal with R : _ = _ -> _ |- _ => specialize (R Hd) end; lia ].

Lemma step_sf cY c c' y L pl :
  tx_dropped c = false -> tx_dropped c' = true -> rx_dropped c' = rx_dropped c -> rx_closed c' = rx_closed c ->
  rcl cY (PLive c) y L -> rcl cY (PLive c') y (L ++ [(SendFinish y, pl)]).
Proof.
  intros T0 T1 E1 E2 [R1 R2 R3 R4 R5 R6 R7 R8 R9 R10]. cbn [txf rxf rxcf] in *. rewrite T0 in R1. cbn [b2n] in R1.
  assert (rx_open cY = true) by (destruct (rx_open cY); [reflexivity|cbn [negb b2n] in R1; lia]).
  constructor; rcl_counts; rewrite ?T1, ?E1, ?E2; cbn [b2n]; try lia; auto; try discriminate; rcl_fin.
Qed.

Lemma step_rf cY c c' y L pl :
  rx_dropped c = false -> rx_dropped c' = true -> tx_dropped c' = tx_dropped c ->
  rcl cY (PLive c) y L -> rcl cY (PLive c') y (L ++ [(ReceiveFinish y, pl)]).
Proof.
  intros T0 T1 E1 [R1 R2 R3 R4 R5 R6 R7 R8 R9 R10]. cbn [txf rxf rxcf] in *. rewrite T0 in R2. cbn [b2n] in R2.
  assert (rrx_dropped cY = false) by (destruct (rrx_dropped cY); [cbn [b2n] in R2; lia|reflexivity]).
  pose proof (b2n_le1 (rx_closed c || rx_dropped c)).
  constructor; rcl_counts; rewrite ?T1, ?E1, ?orb_true_r; cbn [b2n]; try lia; auto; try discriminate; rcl_fin.
Qed.

Lemma step_rc cY c c' y L pl :
  rx_closed c = false -> rx_dropped c = false -> rx_closed c' = true -> tx_dropped c' = tx_dropped c -> rx_dropped c' = rx_dropped c ->
  rcl cY (PLive c) y L -> rcl cY (PLive c') y (L ++ [(ReceiveClose y, pl)]).
Proof.
  intros T0 T0' T1 E1 E2 [R1 R2 R3 R4 R5 R6 R7 R8 R9 R10]. cbn [txf rxf rxcf] in *. rewrite T0' in R2. rewrite T0, T0' in R3. cbn [orb b2n] in R2, R3.
  assert (rrx_dropped cY = false) by (destruct (rrx_dropped cY); [cbn [b2n] in R2; lia|reflexivity]).
  constructor; rcl_counts; rewrite ?T1, ?E1, ?E2, ?T0, ?T0'; cbn [orb b2n]; try lia; auto; try discriminate; rcl_fin.
Qed.

Lemma step_data cY c y L fr :
  tx_dropped c = false -> m_data y (fst fr) = true -> m_credrc y (fst fr) = false -> m_fin y (fst fr) = false ->
  rcl cY (PLive c) y L -> rcl cY (PLive c) y (L ++ [fr]).
Proof.
  intros T0 D1 D2 D3 [R1 R2 R3 R4 R5 R6 R7 R8 R9 R10]. cbn [txf rxf rxcf] in *. rewrite T0 in R1. cbn [b2n] in R1.
  assert (rx_open cY = true) by (destruct (rx_open cY); [reflexivity|cbn [negb b2n] in R1; lia]).
  pose proof D2 as D2c. unfold m_credrc, m_fin in D2, D3. apply orb_false_iff in D2 as [D2 D2'], D3 as [D3 D3'].
  constructor; rewrite ?cnt_snoc; cbn [txf rxf rxcf]; rewrite ?D1, ?D2c, ?D2', ?D3, ?D3', ?T0; cbn [b2n]; rewrite ?N.add_0_r; auto; try discriminate.
  - apply nafter_snoc; [exact R4|]. intros _. lia.
  - congruence.
  - apply nafter_snoc_other; [exact R6|exact D2c].
Qed.

Lemma step_cred cY c y L pl n :
  rx_dropped c = false ->
  rcl cY (PLive c) y L -> rcl cY (PLive c) y (L ++ [(PortCredits y n, pl)]).
Proof.
  intros T0 [R1 R2 R3 R4 R5 R6 R7 R8 R9 R10]. cbn [txf rxf rxcf] in *. rewrite T0 in R2. cbn [b2n] in R2.
  assert (rrx_dropped cY = false) by (destruct (rrx_dropped cY); [cbn [b2n] in R2; lia|reflexivity]).
  constructor; rcl_counts; rewrite ?T0; cbn [b2n]; rewrite ?N.add_0_r; auto; try discriminate; rcl_fin.
Qed.
