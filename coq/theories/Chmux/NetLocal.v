(** Preservation of the composed invariant by the emitting steps of one endpoint X (link [L] leaves X). *)
From Remoc Require Import Lib.Base Gen.Consts Chmux.Wire Chmux.Mux Chmux.Endpoint Chmux.EndpointLemmas Chmux.EndpointInv
  Chmux.EndpointSteps Chmux.Net Chmux.NetInv Chmux.NetFrame.
From RecordUpdate Require Import RecordUpdate.

Ltac maddr :=
  unfold m_addr, m_other, m_credrc, m_fin, m_intro;
  cbn [fst m_po m_pox m_rj m_data m_cred m_rc m_sf m_rf m_reqn m_srv m_bad orb andb b2n].

Lemma m_intro_false x m : m_intro x m = false -> m_reqn x m = 0 /\ m_srv x m = false.
Proof.
  unfold m_intro. intros H. apply orb_false_iff in H as [H1 H2]. split; [|exact H2]. apply N.ltb_ge in H1. lia.
Qed.
Lemma m_pox_srv y x m : m_pox y x m = true -> m_srv x m = true.
Proof. destruct m; cbn [m_pox m_srv]; try discriminate. intros H. apply andb_true_iff in H. tauto. Qed.
Lemma cnt_pox_snoc_nosrv y x L fr : m_srv x (fst fr) = false -> cnt (m_pox y x) (L ++ [fr]) = cnt (m_pox y x) L.
Proof.
  intros H. rewrite cnt_snoc. destruct (m_pox y x (fst fr)) eqn:E; [|cbn [b2n]; lia]. apply m_pox_srv in E. congruence.
Qed.
Lemma pstat_snoc_nosrv PY L fr y x : m_srv x (fst fr) = false -> pstat PY (L ++ [fr]) y x = pstat PY L y x.
Proof. intros H. apply pstat_link. now apply cnt_pox_snoc_nosrv. Qed.
Lemma cnt_pox_cons_nosrv y x L fr : m_srv x (fst fr) = false -> cnt (m_pox y x) (fr :: L) = cnt (m_pox y x) L.
Proof.
  intros H. rewrite cnt_cons. destruct (m_pox y x (fst fr)) eqn:E; [|cbn [b2n]; lia]. apply m_pox_srv in E. congruence.
Qed.

(** a live end that has not finished both halves has a partner that knows it *)
Lemma live_partner PY PX OY L' L x c :
  rx_clause PY PX OY L' L x -> lookup x PX = Some (Connected c) ->
  tx_dropped c = false \/ rx_dropped c = false ->
  pstat PY L (remote c) x <> PGone.
Proof.
  unfold rx_clause. intros H Hl Hlive. rewrite Hl in H. destruct H as (_ & _ & _ & _ & Hr & _). intros Hg.
  destruct (r_gone _ _ _ _ Hr Hg) as [G1 G2]. destruct Hlive; congruence.
Qed.

(** * The clause of the addressed port [y] when X's port [x] (remote [y]) emits a frame for it *)
Lemma rx_y_snoc PX PX' PY OX OY L L' x c c' fr y :
  rx_clause PX PY OX L L' y -> rx_clause PY PX OY L' L x -> inj_ok PX ->
  lookup x PX = Some (Connected c) -> remote c = y -> tx_dropped c = false \/ rx_dropped c = false ->
  lookup x PX' = Some (Connected c') -> remote c' = y ->
  m_po y (fst fr) = false -> m_rj y (fst fr) = false ->
  (forall cY, rcl cY (PLive c) y L -> rcl cY (PLive c') y (L ++ [fr])) ->
  rx_clause PX' PY OX (L ++ [fr]) L' y.
Proof.
  intros Hy Hx Hinj Hl Hr Hlive Hl' Hr' Hpo Hrj Hstep.
  pose proof (live_partner _ _ _ _ _ _ _ Hx Hl Hlive) as Hng. rewrite Hr in Hng.
  assert (Ppo : cnt (m_po y) (L ++ [fr]) = cnt (m_po y) L) by (rewrite cnt_snoc, Hpo; cbn [b2n]; lia).
  assert (Prj : cnt (m_rj y) (L ++ [fr]) = cnt (m_rj y) L) by (rewrite cnt_snoc, Hrj; cbn [b2n]; lia).
  assert (Ppox : forall x0, cnt (m_pox y x0) (L ++ [fr]) = cnt (m_pox y x0) L).
  { intros x0. rewrite cnt_snoc. destruct (m_pox y x0 (fst fr)) eqn:E; [|cbn [b2n]; lia]. apply m_pox_po in E. congruence. }
  assert (Plive : pstat PX L' x y = PLive c) by (apply pstat_live_intro; auto).
  assert (Plive' : pstat PX' L' x y = PLive c') by (apply pstat_live_intro; auto).
  unfold rx_clause in *. unfold pstat in Hng. destruct (lookup y PY) as [[r|cY]|]; [| |congruence].
  - (* Connecting: our PortOpened is still in flight *)
    destruct (0 <? cnt (m_pox y x) L) eqn:Epo; [|congruence]. apply N.ltb_lt in Epo.
    destruct Hy as (H1 & H2 & H3 & H4). rewrite Ppo, Prj.
    split; [exact H1|split; [|split]].
    + apply nafter_snoc_other; assumption.
    + intros H0. pose proof (cnt_pox_le_po y x L). lia.
    + intros x0 Hx0. rewrite Ppox in Hx0. destruct (H4 x0 Hx0) as (c0 & P1 & P2).
      apply pstat_live in P1 as [P1 P1r].
      assert (x0 = x) by (eapply Hinj; eauto; congruence). subst x0.
      assert (c0 = c) by congruence. subst c0. exists c'. split; [exact Plive'|]. now apply Hstep.
  - (* Connected to x *)
    destruct (remote cY =? x) eqn:Ex; [|congruence]. apply N.eqb_eq in Ex.
    destruct Hy as (H1 & H2 & H3 & H4 & H5 & H6). rewrite Ppo, Prj, Ex in *. rewrite Plive in H5. rewrite Plive'.
    split; [exact H1|split; [exact H2|split; [exact H3|split; [exact H4|split]]]].
    + now apply Hstep.
    + discriminate.
Qed.

(** * The clause of X's own port [x] when its entry changes on the sending side only *)
Lemma rx_x_upd PY PX PX' OY L' L L2 x c c' :
  rx_clause PY PX OY L' L x -> lookup x PX = Some (Connected c) ->
  tx_dropped c = false \/ rx_dropped c = false ->
  lookup x PX' = Some (Connected c') -> remote c' = remote c ->
  rx_open c' = rx_open c -> rrx_closed c' = rrx_closed c -> rrx_dropped c' = rrx_dropped c ->
  reqcount x L2 = reqcount x L -> pstat PY L2 (remote c) x = pstat PY L (remote c) x ->
  rx_clause PY PX' OY L' L2 x.
Proof.
  intros Hx Hl Hlive Hl' Er E1 E2 E3 Eq Ep. pose proof (live_partner _ _ _ _ _ _ _ Hx Hl Hlive) as Hng.
  unfold rx_clause in *. rewrite Hl in Hx. rewrite Hl'. destruct Hx as (H1 & H2 & H3 & H4 & H5 & H6).
  rewrite Er, Eq, Ep. split; [exact H1|split; [exact H2|split; [exact H3|split; [exact H4|split]]]].
  - destruct H5 as [R1 R2 R3 R4 R5 R6 R7 R8 R9 R10]. constructor; rewrite ?E1, ?E2, ?E3; auto; intros Hg; congruence.
  - intros Hg. congruence.
Qed.

(** * A fresh number becomes a [Connecting] entry whose request has just been emitted *)
Lemma rx_new_connecting PY PX PX' OY L' L L2 p r :
  rx_clause PY PX OY L' L p -> lookup p PX = None -> lookup p PX' = Some (Connecting r) ->
  reqcount p L2 = reqcount p L + 1 ->
  rx_clause PY PX' OY L' L2 p.
Proof.
  intros Hx Hl Hl' Eq. unfold rx_clause in *. rewrite Hl in Hx. rewrite Hl'. destruct Hx as (H1 & H2 & H3).
  pose proof (cnt_le (m_po p) (m_addr p) L' (sub_po p)). pose proof (cnt_le (m_rj p) (m_addr p) L' (sub_rj p)).
  pose proof (cnt_le (m_other p) (m_addr p) L' (sub_other p)).
  rewrite Eq, H2, H3. cbn [b2n]. split; [lia|split; [|split]].
  - apply nafter_g0. lia.
  - intros _. lia.
  - intros x Hx. pose proof (cnt_pox_le_po p x L'). lia.
Qed.

(** tables *)
Lemma inj_ok_upd PX PX' :
  (forall k c', lookup k PX' = Some (Connected c') -> exists c, lookup k PX = Some (Connected c) /\ remote c = remote c') ->
  inj_ok PX -> inj_ok PX'.
Proof.
  intros H Hi p1 p2 c1 c2 H1 H2 Hr. destruct (H _ _ H1) as (d1 & D1 & R1). destruct (H _ _ H2) as (d2 & D2 & R2).
  eapply Hi; eauto. congruence.
Qed.
Lemma out_ok_upd PX PX' OX OX' :
  (forall k c', lookup k PX' = Some (Connected c') -> exists c, lookup k PX = Some (Connected c) /\ remote c = remote c') ->
  (forall r, mem r OX' = true -> mem r OX = true) ->
  out_ok PX OX -> out_ok PX' OX'.
Proof.
  intros H Ho Hi p c' H1. destruct (H _ _ H1) as (c & D1 & R1). specialize (Hi _ _ D1). rewrite <- R1.
  destruct (mem (remote c) OX') eqn:E; [|reflexivity]. apply Ho in E. congruence.
Qed.

(** * X's port [x] (remote [y]) emits one frame addressed to [y]; the frame may carry requests for
      fresh numbers [ps], which become [Connecting] *)
Section Emit.
  Variables (PX PX' PY : list (N * pstate)) (OX OY : list N) (QX QX' QY : list evt) (L L' : list frame).
  Variables (x y : N) (c c' : conn) (fr : frame) (ps : list N).
  Hypothesis HC : Core PX PY OX OY QX QY L L'.
  Hypothesis Hl : lookup x PX = Some (Connected c).
  Hypothesis Hr : remote c = y.
  Hypothesis Hlive : tx_dropped c = false \/ rx_dropped c = false.
  Hypothesis K1 : lookup x PX' = Some (Connected c').
  Hypothesis K2 : forall k, k <> x -> mem k ps = false -> lookup k PX' = lookup k PX.
  Hypothesis K3 : forall k, mem k ps = true -> lookup k PX = None /\ exists r, lookup k PX' = Some (Connecting r).
  Hypothesis K4 : forall k, m_reqn k (fst fr) = b2n (mem k ps).
  Hypothesis K5 : forall k, m_srv k (fst fr) = false.
  Hypothesis Er : remote c' = y.
  Hypothesis E1 : rx_open c' = rx_open c.
  Hypothesis E2 : rrx_closed c' = rrx_closed c.
  Hypothesis E3 : rrx_dropped c' = rrx_dropped c.
  Hypothesis Haddr : forall y0, y0 <> y -> m_addr y0 (fst fr) = false.
  Hypothesis Hpo : m_po y (fst fr) = false.
  Hypothesis Hrj : m_rj y (fst fr) = false.
  Hypothesis Hbad : m_bad (fst fr) = false.
  Hypothesis Hstep : forall cY, rcl cY (PLive c) y L -> rcl cY (PLive c') y (L ++ [fr]).
  Hypothesis Hch : chq_ok PX' QX'.

  Lemma emit_x_not_ps : mem x ps = false.
  Proof. destruct (mem x ps) eqn:E; [|reflexivity]. destruct (K3 _ E) as [H _]. congruence. Qed.

  Lemma emit_conn k d' : lookup k PX' = Some (Connected d') -> exists d, lookup k PX = Some (Connected d) /\ remote d = remote d'.
  Proof.
    intros H. destruct (N.eq_dec k x) as [->|Hne].
    - exists c. split; [exact Hl|]. rewrite K1 in H. injection H as <-. congruence.
    - destruct (mem k ps) eqn:E.
      + destruct (K3 _ E) as (_ & r & Hk). congruence.
      + rewrite (K2 _ Hne E) in H. eauto.
  Qed.

  Lemma emit_pstat x0 y0 : y0 <> y \/ x0 <> x -> pstat PX' L' x0 y0 = pstat PX L' x0 y0.
  Proof.
    intros Hd. destruct (N.eq_dec x0 x) as [->|Hne].
    - destruct Hd as [Hd|Hd]; [|congruence]. rewrite (pstat_conn_other _ _ _ _ _ K1), (pstat_conn_other _ _ _ _ _ Hl); congruence.
    - destruct (mem x0 ps) eqn:E.
      + destruct (K3 _ E) as (Hn & r & Hk). rewrite (pstat_none _ _ _ _ Hn). unfold pstat. rewrite Hk.
        pose proof (c_yx _ _ _ _ _ _ _ _ HC x0) as Hx0. unfold rx_clause in Hx0. rewrite Hn in Hx0. destruct Hx0 as (H1 & _).
        pose proof (cnt_le (m_pox x0 y0) (m_addr x0) L' (sub_pox x0 y0)).
        destruct (0 <? cnt (m_pox x0 y0) L') eqn:El; [|reflexivity]. apply N.ltb_lt in El. lia.
      + unfold pstat. now rewrite (K2 _ Hne E).
  Qed.

  Lemma core_emit : Core PX' PY OX OY QX' QY (L ++ [fr]) L'.
  Proof.
    pose proof HC as [Hxy Hyx Hix Hiy Hox Hoy Hcx Hcy Hbx Hby]. constructor; auto.
    - intros y0. destruct (N.eq_dec y0 y) as [->|Hne].
      + eapply rx_y_snoc; eauto.
      + eapply rx_frame; [apply Hxy|reflexivity|apply leq_snoc; auto|reflexivity|reflexivity|].
        intros x0. apply pst_ok_eq. apply emit_pstat. auto.
    - intros x0. destruct (N.eq_dec x0 x) as [->|Hne].
      + eapply rx_x_upd; eauto; try congruence.
        * rewrite reqcount_snoc, K4, emit_x_not_ps. cbn [b2n]. lia.
        * apply pstat_snoc_nosrv. apply K5.
      + destruct (mem x0 ps) eqn:E.
        * destruct (K3 _ E) as (Hn & r & Hk). eapply rx_new_connecting; eauto.
          rewrite reqcount_snoc, K4, E. reflexivity.
        * eapply rx_frame; [apply Hyx|apply (K2 _ Hne E)|apply leq_refl|reflexivity| |].
          -- rewrite reqcount_snoc, K4, E. cbn [b2n]. lia.
          -- intros y0. apply pst_ok_eq. apply pstat_snoc_nosrv. apply K5.
    - eapply inj_ok_upd; [|exact Hix]. apply emit_conn.
    - eapply out_ok_upd; [apply emit_conn| |exact Hox]. auto.
    - rewrite cnt_snoc, Hbad. cbn [b2n]. lia.
  Qed.
End Emit.

(** * The effect of each addressed frame on the receiver's accounting *)
Ltac rcl_counts :=
  rewrite ?cnt_snoc; cbn [fst m_sf m_rf m_rc m_data m_cred m_credrc m_fin m_other orb b2n txf rxf rxcf];
  rewrite ?N.eqb_refl; cbn [orb b2n].
Ltac rcl_fin :=
  first [ apply nafter_snoc_other; [assumption|reflexivity]
        | apply nafter_snoc; [assumption|intros _; lia]
        | congruence
        | let Hd := fresh "Hd" in
          intros Hd; repeat match goal with R : _ = _ -> _ |- _ => specialize (R Hd) end; lia ].

Lemma step_sf cY c c' y L pl :
  tx_dropped c = false -> tx_dropped c' = true -> rx_dropped c' = rx_dropped c -> rx_closed c' = rx_closed c ->
  rcl cY (PLive c) y L -> rcl cY (PLive c') y (L ++ [(SendFinish y, pl)]).
Proof.
  intros T0 T1 E1 E2 [R1 R2 R3 R4 R5 R6 R7 R8 R9 R10]. cbn [txf rxf rxcf] in *. rewrite T0 in R1. cbn [b2n] in R1.
  assert (rx_open cY = true) by (destruct (rx_open cY); [reflexivity|cbn [negb b2n] in R1; lia]).
  constructor; rcl_counts; rewrite ?T1, ?E1, ?E2; cbn [b2n]; try lia; auto; try discriminate; rcl_fin.
Qed.

Lemma step_rf cY c c' y L pl :
  rx_dropped c = false -> rx_dropped c' = true -> tx_dropped c' = tx_dropped c ->
  rcl cY (PLive c) y L -> rcl cY (PLive c') y (L ++ [(ReceiveFinish y, pl)]).
Proof.
  intros T0 T1 E1 [R1 R2 R3 R4 R5 R6 R7 R8 R9 R10]. cbn [txf rxf rxcf] in *. rewrite T0 in R2. cbn [b2n] in R2.
  assert (rrx_dropped cY = false) by (destruct (rrx_dropped cY); [cbn [b2n] in R2; lia|reflexivity]).
  pose proof (b2n_le1 (rx_closed c || rx_dropped c)).
  constructor; rcl_counts; rewrite ?T1, ?E1, ?orb_true_r; cbn [b2n]; try lia; auto; try discriminate; rcl_fin.
Qed.

Lemma step_rc cY c c' y L pl :
  rx_closed c = false -> rx_dropped c = false -> rx_closed c' = true -> tx_dropped c' = tx_dropped c -> rx_dropped c' = rx_dropped c ->
  rcl cY (PLive c) y L -> rcl cY (PLive c') y (L ++ [(ReceiveClose y, pl)]).
Proof.
  intros T0 T0' T1 E1 E2 [R1 R2 R3 R4 R5 R6 R7 R8 R9 R10]. cbn [txf rxf rxcf] in *. rewrite T0' in R2. rewrite T0, T0' in R3. cbn [orb b2n] in R2, R3.
  assert (rrx_dropped cY = false) by (destruct (rrx_dropped cY); [cbn [b2n] in R2; lia|reflexivity]).
  constructor; rcl_counts; rewrite ?T1, ?E1, ?E2, ?T0, ?T0'; cbn [orb b2n]; try lia; auto; try discriminate; rcl_fin.
Qed.

Lemma step_data cY c y L fr :
  tx_dropped c = false -> m_data y (fst fr) = true -> m_credrc y (fst fr) = false -> m_fin y (fst fr) = false ->
  rcl cY (PLive c) y L -> rcl cY (PLive c) y (L ++ [fr]).
Proof.
  intros T0 D1 D2 D3 [R1 R2 R3 R4 R5 R6 R7 R8 R9 R10]. cbn [txf rxf rxcf] in *. rewrite T0 in R1. cbn [b2n] in R1.
  assert (rx_open cY = true) by (destruct (rx_open cY); [reflexivity|cbn [negb b2n] in R1; lia]).
  pose proof D2 as D2c. unfold m_credrc, m_fin in D2, D3. apply orb_false_iff in D2 as [D2 D2'], D3 as [D3 D3'].
  constructor; rewrite ?cnt_snoc; cbn [txf rxf rxcf]; rewrite ?D1, ?D2c, ?D2', ?D3, ?D3', ?T0; cbn [b2n]; rewrite ?N.add_0_r; auto; try discriminate.
  - apply nafter_snoc; [exact R4|]. intros _. lia.
  - congruence.
  - apply nafter_snoc_other; [exact R6|exact D2c].
Qed.

Lemma step_cred cY c y L pl n :
  rx_dropped c = false ->
  rcl cY (PLive c) y L -> rcl cY (PLive c) y (L ++ [(PortCredits y n, pl)]).
Proof.
  intros T0 [R1 R2 R3 R4 R5 R6 R7 R8 R9 R10]. cbn [txf rxf rxcf] in *. rewrite T0 in R2. cbn [b2n] in R2.
  assert (rrx_dropped cY = false) by (destruct (rrx_dropped cY); [cbn [b2n] in R2; lia|reflexivity]).
  constructor; rcl_counts; rewrite ?T0; cbn [b2n]; rewrite ?N.add_0_r; auto; try discriminate; rcl_fin.
Qed.

(** * X releases its port [x] once all four directions are finished *)
Lemma all4_spec c : all4 c = true -> tx_dropped c = true /\ rx_dropped c = true /\ rx_open c = false /\ rrx_dropped c = true.
Proof. unfold all4. intros H. bools. destruct (rx_open c); [discriminate|]. auto. Qed.

Lemma cnt_intro_zero PX PY OX OY L L' x c :
  (forall y, rx_clause PX PY OX L L' y) -> rx_clause PY PX OY L' L x ->
  lookup x PX = Some (Connected c) -> (forall r, lookup (remote c) PY <> Some (Connecting r)) ->
  cnt (m_intro x) L = 0.
Proof.
  intros Hxy Hx Hl Hnc. apply reqcount_intro.
  - unfold rx_clause in Hx. rewrite Hl in Hx. apply Hx.
  - destruct (N.eq_dec (cnt (m_srv x) L) 0) as [E|E]; [exact E|]. exfalso.
    destruct (cnt_srv_pox x L) as (y' & Hy'); [lia|].
    pose proof (cnt_pox_le_po y' x L). destruct (rx_po_connecting _ _ _ _ _ _ (Hxy y')) as (r & Hr); [lia|].
    pose proof (Hxy y') as Hc. unfold rx_clause in Hc. rewrite Hr in Hc. destruct Hc as (_ & _ & _ & H4).
    destruct (H4 x Hy') as (cX & P & _). apply pstat_live in P as [P1 P2]. assert (cX = c) by congruence. subst cX.
    apply (Hnc r). congruence.
Qed.

Section Free.
  Variables (PX PX' PY : list (N * pstate)) (OX OY : list N) (QX QY : list evt) (L L' : list frame).
  Variables (x : N) (c : conn).
  Hypothesis HC : Core PX PY OX OY QX QY L L'.
  Hypothesis Hl : lookup x PX = Some (Connected c).
  Hypothesis Ha : all4 c = true.
  Hypothesis K1 : lookup x PX' = None.
  Hypothesis K2 : forall k, k <> x -> lookup k PX' = lookup k PX.

  Lemma free_pstat x0 y0 : x0 <> x \/ y0 <> remote c -> pstat PX' L' x0 y0 = pstat PX L' x0 y0.
  Proof.
    intros Hd. destruct (N.eq_dec x0 x) as [->|Hne].
    - destruct Hd as [Hd|Hd]; [congruence|]. rewrite (pstat_none _ _ _ _ K1), (pstat_conn_other _ _ _ _ _ Hl); congruence.
    - unfold pstat. now rewrite (K2 _ Hne).
  Qed.

  Lemma core_free : Core PX' PY OX OY QX QY L L'.
  Proof.
    pose proof HC as [Hxy Hyx Hix Hiy Hox Hoy Hcx Hcy Hbx Hby].
    destruct (all4_spec _ Ha) as (A1 & A2 & A3 & A4).
    pose proof (Hyx x) as Hx. unfold rx_clause in Hx. rewrite Hl in Hx. destruct Hx as (X1 & X2 & X3 & X4 & X5 & X6).
    constructor; auto.
    - intros y0. destruct (N.eq_dec y0 (remote c)) as [->|Hne].
      2:{ eapply rx_frame; [apply Hxy|reflexivity|apply leq_refl|reflexivity|reflexivity|].
          intros x0. apply pst_ok_eq, free_pstat. auto. }
      pose proof (Hxy (remote c)) as Hy. unfold rx_clause in *. destruct (lookup (remote c) PY) as [[r|cY]|] eqn:Ey.
      + (* Connecting: impossible to be waiting for us *)
        destruct Hy as (H1 & H2 & H3 & H4). split; [exact H1|split; [exact H2|split; [exact H3|]]].
        intros x0 Hx0. destruct (H4 x0 Hx0) as (cX & P1 & P2). exists cX. split; [|exact P2].
        rewrite free_pstat; [exact P1|]. left. intros ->. apply pstat_live in P1 as [P1 _]. assert (cX = c) by congruence. subst cX.
        assert (Hp : pstat PY L (remote c) x = PPend).
        { unfold pstat. rewrite Ey. apply N.ltb_lt in Hx0. now rewrite Hx0. }
        rewrite Hp in X5. pose proof (r_sf _ _ _ _ X5) as S. cbn [txf b2n] in S. rewrite A3 in S. cbn [negb b2n] in S. lia.
      + destruct Hy as (H1 & H2 & H3 & H4 & H5 & H6).
        split; [exact H1|split; [exact H2|split; [exact H3|split; [exact H4|]]]].
        destruct (N.eq_dec (remote cY) x) as [Ex|Ex].
        2:{ rewrite free_pstat by auto. auto. }
        rewrite Ex in *. rewrite (pstat_none _ _ _ _ K1). rewrite (pstat_live_intro _ _ _ _ _ Hl eq_refl) in H5, H6.
        assert (Hp : pstat PY L (remote c) x = PLive cY) by (apply pstat_live_intro; auto).
        rewrite Hp in X5. pose proof (r_sf _ _ _ _ X5) as S. pose proof (r_rf _ _ _ _ X5) as S2.
        cbn [txf rxf] in S, S2. rewrite A3 in S. rewrite A4 in S2. cbn [negb b2n] in S, S2.
        assert (tx_dropped cY = true) by (destruct (tx_dropped cY); [reflexivity|cbn [b2n] in S; lia]).
        assert (rx_dropped cY = true) by (destruct (rx_dropped cY); [reflexivity|cbn [b2n] in S2; lia]).
        split.
        * apply (rcl_pst cY (PLive c) PGone); cbn [txf rxf rxcf]; auto; try discriminate. rewrite A2. now rewrite orb_true_r.
        * intros _. apply nafter_f0. eapply cnt_intro_zero; [exact Hxy|exact (Hyx x)|exact Hl|]. intros r Hr. congruence.
      + exact Hy.
    - intros x0. destruct (N.eq_dec x0 x) as [->|Hne].
      + unfold rx_clause. rewrite K1. split; [|split; [exact X3|exact X4]].
        pose proof (r_sf _ _ _ _ X5) as S. pose proof (r_rf _ _ _ _ X5) as S2.
        pose proof (r_data _ _ _ _ X5 A3) as S3. pose proof (r_cred _ _ _ _ X5 A4) as S4.
        rewrite A3 in S. rewrite A4 in S2. cbn [negb b2n] in S, S2.
        pose proof (b2n_le1 (txf (pstat PY L (remote c) x))). pose proof (b2n_le1 (rxf (pstat PY L (remote c) x))).
        clear - X1 X2 S S2 S3 S4 H H0. induction L' as [|fr l IH]; [reflexivity|]. rewrite !cnt_cons in *.
        unfold m_addr, m_other, m_credrc, m_fin in *.
        destruct (m_po x (fst fr)), (m_rj x (fst fr)), (m_data x (fst fr)), (m_cred x (fst fr)), (m_rc x (fst fr)),
          (m_sf x (fst fr)), (m_rf x (fst fr)); cbn [orb b2n] in *; try lia; rewrite N.add_0_l; apply IH; lia.
      + eapply rx_frame; [apply Hyx|apply (K2 _ Hne)|apply leq_refl|reflexivity|reflexivity|].
        intros y0. apply pst_ok_refl.
    - intros p1 p2 c1 c2 H1 H2. destruct (N.eq_dec p1 x) as [->|N1]; [congruence|]. destruct (N.eq_dec p2 x) as [->|N2]; [congruence|].
      rewrite (K2 _ N1) in H1. rewrite (K2 _ N2) in H2. eauto.
    - intros p c0 H1. destruct (N.eq_dec p x) as [->|N1]; [congruence|]. rewrite (K2 _ N1) in H1. eauto.
    - destruct Hcx as [C1 C2 C3]. constructor.
      + intros y Hy. destruct (C1 y Hy) as (x0 & c0 & P1 & P2 & P3). exists x0, c0. split; [|auto].
        rewrite K2; [exact P1|]. intros ->. congruence.
      + intros y Hy. destruct (C2 y Hy) as (x0 & c0 & P1 & P2 & P3). exists x0, c0. split; [|auto].
        rewrite K2; [exact P1|]. intros ->. congruence.
      + intros x0 c0 H0. destruct (N.eq_dec x0 x) as [->|N1]; [congruence|]. rewrite (K2 _ N1) in H0. eauto.
  Qed.
End Free.

(** [rcl] ignores frames that are not data / credit / close / finish frames for [y] *)
Lemma rcl_snoc_irrel c s y L fr : m_other y (fst fr) = false -> rcl c s y L -> rcl c s y (L ++ [fr]).
Proof.
  intros Ho [R1 R2 R3 R4 R5 R6 R7 R8 R9 R10]. destruct (m_other_false _ _ Ho) as (D1 & D2 & D3 & D4 & D5 & D6 & D7).
  constructor; rewrite ?cnt_snoc, ?D1, ?D3, ?D4, ?D5, ?D6, ?Ho; cbn [b2n]; rewrite ?N.add_0_r; auto;
    apply nafter_snoc_other; auto.
Qed.
Lemma rcl_pop_irrel c s y L fr : m_other y (fst fr) = false -> rcl c s y (fr :: L) -> rcl c s y L.
Proof.
  intros Ho [R1 R2 R3 R4 R5 R6 R7 R8 R9 R10]. destruct (m_other_false _ _ Ho) as (D1 & D2 & D3 & D4 & D5 & D6 & D7).
  rewrite ?cnt_cons, ?D1, ?D3, ?D4, ?D5, ?D6, ?Ho in *. cbn [b2n] in *. rewrite ?N.add_0_l in *.
  constructor; auto; eapply nafter_tail; eauto.
Qed.

(** * A frame that addresses no port and introduces no number (ClientFinish, ListenerFinish, Goodbye) *)
Lemma core_plain PX PY OX OY QX QX' QY L L' fr :
  Core PX PY OX OY QX QY L L' ->
  (forall y, m_addr y (fst fr) = false) -> (forall x, m_intro x (fst fr) = false) -> m_bad (fst fr) = false ->
  chq_ok PX QX' ->
  Core PX PY OX OY QX' QY (L ++ [fr]) L'.
Proof.
  intros [Hxy Hyx Hix Hiy Hox Hoy Hcx Hcy Hbx Hby] Ha Hi Hb Hq. constructor; auto.
  - intros y. eapply rx_frame; [apply Hxy|reflexivity|apply leq_snoc; auto|reflexivity|reflexivity|]. intros x. apply pst_ok_refl.
  - intros x. destruct (m_intro_false _ _ (Hi x)) as [I1 I2].
    eapply rx_frame; [apply Hyx|reflexivity|apply leq_refl|reflexivity| |].
    + rewrite reqcount_snoc, I1. lia.
    + intros y. apply pst_ok_eq. now apply pstat_snoc_nosrv.
  - rewrite cnt_snoc, Hb. cbn [b2n]. lia.
Qed.

Lemma core_chq PX PY OX OY QX QX' QY L L' :
  Core PX PY OX OY QX QY L L' -> chq_ok PX QX' -> Core PX PY OX OY QX' QY L L'.
Proof. intros [Hxy Hyx Hix Hiy Hox Hoy Hcx Hcy Hbx Hby] Hq. constructor; auto. Qed.

(** * An entry changes in parts the invariant does not read *)
Lemma core_flags PX PX' PY OX OY QX QY L L' x c c' :
  Core PX PY OX OY QX QY L L' ->
  lookup x PX = Some (Connected c) -> lookup x PX' = Some (Connected c') -> (forall k, k <> x -> lookup k PX' = lookup k PX) ->
  flags_eq c c' -> remote c' = remote c ->
  Core PX' PY OX OY QX QY L L'.
Proof.
  intros [Hxy Hyx Hix Hiy Hox Hoy Hcx Hcy Hbx Hby] Hl K1 K2 Hf Er. pose proof Hf as (F1 & F2 & F3 & F4 & F5 & F6).
  assert (Hconn : forall k d', lookup k PX' = Some (Connected d') ->
            exists d, lookup k PX = Some (Connected d) /\ remote d = remote d' /\ tx_dropped d = tx_dropped d' /\ rx_dropped d = rx_dropped d').
  { intros k d' H. destruct (N.eq_dec k x) as [->|Hne].
    - exists c. rewrite K1 in H. injection H as <-. auto.
    - rewrite (K2 _ Hne) in H. eauto 6. }
  assert (Hconn' : forall k d, lookup k PX = Some (Connected d) ->
            exists d', lookup k PX' = Some (Connected d') /\ remote d = remote d' /\ tx_dropped d = tx_dropped d' /\ rx_dropped d = rx_dropped d').
  { intros k d H. destruct (N.eq_dec k x) as [->|Hne].
    - exists c'. assert (d = c) by congruence. subst d. auto.
    - rewrite <- (K2 _ Hne) in H. eauto 6. }
  constructor; auto.
  - intros y. eapply rx_frame; [apply Hxy|reflexivity|apply leq_refl|reflexivity|reflexivity|].
    intros x0. destruct (N.eq_dec x0 x) as [->|Hne].
    + unfold pstat. rewrite Hl, K1, Er. destruct (remote c =? y); [|apply pst_ok_refl].
      unfold pst_ok. cbn [txf rxf rxcf]. rewrite F4, F5, F6. repeat split; auto; try discriminate. intros c0 _. eauto.
    + apply pst_ok_eq. unfold pstat. now rewrite (K2 _ Hne).
  - intros x0. destruct (N.eq_dec x0 x) as [->|Hne].
    + pose proof (Hyx x) as Hx. unfold rx_clause in *. rewrite Hl in Hx. rewrite K1, Er.
      destruct Hx as (X1 & X2 & X3 & X4 & X5 & X6). repeat (split; [assumption|]). split; [|exact X6].
      eapply rcl_flags; eauto.
    + eapply rx_frame; [apply Hyx|apply (K2 _ Hne)|apply leq_refl|reflexivity|reflexivity|]. intros y. apply pst_ok_refl.
  - eapply inj_ok_upd; [|exact Hix]. intros k d' H. destruct (Hconn _ _ H) as (d & D1 & D2 & _). eauto.
  - eapply (out_ok_upd PX PX' OX OX); [|auto|exact Hox]. intros k d' H. destruct (Hconn _ _ H) as (d & D1 & D2 & _). eauto.
  - destruct Hcx as [C1 C2 C3]. constructor.
    + intros y Hy. destruct (C1 y Hy) as (x0 & c0 & P1 & P2 & P3). destruct (Hconn' _ _ P1) as (d' & D1 & D2 & D3 & D4).
      exists x0, d'. repeat split; congruence.
    + intros y Hy. destruct (C2 y Hy) as (x0 & c0 & P1 & P2 & P3). destruct (Hconn' _ _ P1) as (d' & D1 & D2 & D3 & D4).
      exists x0, d'. repeat split; congruence.
    + intros x0 d' H. destruct (Hconn _ _ H) as (d & D1 & D2 & _). rewrite <- D2. eauto.
Qed.

(** * A connect request for the fresh number [p] is emitted ([OpenPort]) *)
Lemma core_open PX PX' PY OX OY QX QX' QY L L' p r fr :
  Core PX PY OX OY QX QY L L' ->
  lookup p PX = None -> lookup p PX' = Some (Connecting r) -> (forall k, k <> p -> lookup k PX' = lookup k PX) ->
  (forall y, m_addr y (fst fr) = false) -> (forall k, m_reqn k (fst fr) = b2n (k =? p)) -> (forall k, m_srv k (fst fr) = false) ->
  m_bad (fst fr) = false -> chq_ok PX QX' ->
  Core PX' PY OX OY QX' QY (L ++ [fr]) L'.
Proof.
  intros [Hxy Hyx Hix Hiy Hox Hoy Hcx Hcy Hbx Hby] Hl K1 K2 Ha Hr Hs Hb Hq.
  assert (Hconn : forall k d, lookup k PX' = Some (Connected d) -> lookup k PX = Some (Connected d)).
  { intros k d H. destruct (N.eq_dec k p) as [->|Hne]; [congruence|]. now rewrite <- (K2 _ Hne). }
  assert (Hconn' : forall k d, lookup k PX = Some (Connected d) -> lookup k PX' = Some (Connected d)).
  { intros k d H. destruct (N.eq_dec k p) as [->|Hne]; [congruence|]. now rewrite (K2 _ Hne). }
  constructor; auto.
  - intros y. eapply rx_frame; [apply Hxy|reflexivity|apply leq_snoc; auto|reflexivity|reflexivity|].
    intros x0. apply pst_ok_eq. destruct (N.eq_dec x0 p) as [->|Hne].
    + rewrite (pstat_none _ _ _ _ Hl). unfold pstat. rewrite K1.
      pose proof (Hyx p) as Hp. unfold rx_clause in Hp. rewrite Hl in Hp. destruct Hp as (H1 & _).
      pose proof (cnt_le (m_pox p y) (m_addr p) L' (sub_pox p y)).
      destruct (0 <? cnt (m_pox p y) L') eqn:El; [|reflexivity]. apply N.ltb_lt in El. lia.
    + unfold pstat. now rewrite (K2 _ Hne).
  - intros x0. destruct (N.eq_dec x0 p) as [->|Hne].
    + eapply rx_new_connecting; eauto. rewrite reqcount_snoc, Hr, N.eqb_refl. reflexivity.
    + eapply rx_frame; [apply Hyx|apply (K2 _ Hne)|apply leq_refl|reflexivity| |].
      * rewrite reqcount_snoc, Hr. apply N.eqb_neq in Hne. rewrite Hne. cbn [b2n]. lia.
      * intros y. apply pst_ok_eq. apply pstat_snoc_nosrv. apply Hs.
  - eapply inj_ok_upd; [|exact Hix]. intros k d H. exists d. auto.
  - eapply (out_ok_upd PX PX' OX OX); [|auto|exact Hox]. intros k d H. exists d. auto.
  - destruct Hq as [C1 C2 C3]. constructor.
    + intros y Hy. destruct (C1 y Hy) as (x0 & c0 & P1 & P2). eauto.
    + intros y Hy. destruct (C2 y Hy) as (x0 & c0 & P1 & P2). eauto.
    + intros x0 d H. eauto.
  - rewrite cnt_snoc, Hb. cbn [b2n]. lia.
Qed.

(** an end that has seen nothing yet, against a partner that has announced nothing *)
Lemma rcl_zero c s y L :
  cnt (m_other y) L = 0 -> rx_open c = true -> rrx_closed c = false -> rrx_dropped c = false ->
  txf s = false -> rxf s = false -> s <> PGone ->
  rcl c s y L.
Proof.
  intros H0 F1 F2 F3 T1 T2 Hs.
  pose proof (cnt_le (m_sf y) (m_other y) L) as S1. pose proof (cnt_le (m_rf y) (m_other y) L) as S2.
  pose proof (cnt_le (m_rc y) (m_other y) L) as S3. pose proof (cnt_le (m_data y) (m_other y) L) as S4.
  pose proof (cnt_le (m_credrc y) (m_other y) L) as S5.
  assert (cnt (m_sf y) L = 0). { apply N.le_0_r. rewrite <- H0. apply S1. intros m E. unfold m_other, m_fin. rewrite E. now rewrite !orb_true_r. }
  assert (cnt (m_rf y) L = 0). { apply N.le_0_r. rewrite <- H0. apply S2. intros m E. unfold m_other, m_fin. rewrite E. now rewrite !orb_true_r. }
  assert (cnt (m_rc y) L = 0). { apply N.le_0_r. rewrite <- H0. apply S3. intros m E. unfold m_other, m_credrc. rewrite E. now rewrite !orb_true_r. }
  assert (cnt (m_data y) L = 0). { apply N.le_0_r. rewrite <- H0. apply S4. intros m E. unfold m_other. now rewrite E. }
  assert (cnt (m_credrc y) L = 0). { apply N.le_0_r. rewrite <- H0. apply S5. intros m E. unfold m_other. rewrite E. now rewrite !orb_true_r. }
  constructor; rewrite ?F1, ?F2, ?F3, ?T1, ?T2; cbn [negb b2n]; try lia; auto; try congruence; try discriminate.
  - now apply nafter_g0.
  - now apply nafter_g0.
Qed.

Lemma no_after_g0 {A} (f g : A -> bool) l : count g l = 0 -> no_after f g l.
Proof.
  induction l as [|a l IH]; [intros; exact I|]. rewrite count_cons. intros H. split; [intros _; lia|apply IH; lia].
Qed.
Lemma no_after_f0 {A} (f g : A -> bool) l : count f l = 0 -> no_after f g l.
Proof.
  induction l as [|a l IH]; [intros; exact I|]. rewrite count_cons. intros H. split.
  - intros Hf. rewrite Hf in H. cbn [b2n] in H. lia.
  - apply IH. lia.
Qed.
Lemma no_after_tail {A} (f g : A -> bool) a l : no_after f g (a :: l) -> no_after f g l.
Proof. intros H. apply H. Qed.

(** * A remote request [y] is accepted with the fresh local number [x] ([PortOpened y x]) *)
Section Accept.
  Variables (PX PX' PY : list (N * pstate)) (OX OX' OY : list N) (QX QX' QY : list evt) (L L' : list frame).
  Variables (x y : N) (c' : conn) (pl : option N).
  Hypothesis HC : Core PX PY OX OY QX QY L L'.
  Hypothesis Hl : lookup x PX = None.
  Hypothesis Hy : mem y OX = true.
  Hypothesis K1 : lookup x PX' = Some (Connected c').
  Hypothesis K2 : forall k, k <> x -> lookup k PX' = lookup k PX.
  Hypothesis Er : remote c' = y.
  Hypothesis F1 : rx_open c' = true.
  Hypothesis F2 : rrx_closed c' = false.
  Hypothesis F3 : rrx_dropped c' = false.
  Hypothesis F4 : tx_dropped c' = false.
  Hypothesis F5 : rx_dropped c' = false.
  Hypothesis F6 : rx_closed c' = false.
  Hypothesis O1 : forall k, mem k OX' = if k =? y then false else mem k OX.
  Hypothesis Q1 : forall k, count (ev_sends k) QX' <= count (ev_sends k) QX.
  Hypothesis Q2 : forall k, count (ev_creds k) QX' <= count (ev_creds k) QX.
  Hypothesis Q3 : forall f g, no_after f g QX -> no_after f g QX'.

  Let fr : frame := (PortOpened y x, pl).

  Lemma accept_no_remote k d : lookup k PX = Some (Connected d) -> remote d <> y.
  Proof. intros H E. pose proof (c_outx _ _ _ _ _ _ _ _ HC _ _ H). congruence. Qed.

  Lemma core_accept : Core PX' PY OX' OY QX' QY (L ++ [fr]) L'.
  Proof.
    unfold fr.
    pose proof HC as [Hxy Hyx Hix Hiy Hox Hoy Hcx Hcy Hbx Hby].
    destruct (rx_out_connecting _ _ _ _ _ _ (Hxy y) Hy) as (r & Hyr).
    pose proof (Hxy y) as Hcy0. unfold rx_clause in Hcy0. rewrite Hyr, Hy in Hcy0. cbn [b2n] in Hcy0.
    destruct Hcy0 as (Y1 & Y2 & Y3 & Y4).
    assert (Ypo : cnt (m_po y) L = 0) by lia. assert (Yrj : cnt (m_rj y) L = 0) by lia. assert (Yrq : reqcount y L' = 0) by lia.
    specialize (Y3 Ypo).
    pose proof (Hyx x) as Hx0. unfold rx_clause in Hx0. rewrite Hl in Hx0. destruct Hx0 as (X1 & X2 & X3).
    assert (Hpx : forall x0 y0, y0 <> y \/ x0 <> x -> pstat PX' L' x0 y0 = pstat PX L' x0 y0).
    { intros x0 y0 Hd. destruct (N.eq_dec x0 x) as [->|Hne].
      - destruct Hd as [Hd|Hd]; [|congruence]. rewrite (pstat_none _ _ _ _ Hl), (pstat_conn_other _ _ _ _ _ K1); congruence.
      - unfold pstat. now rewrite (K2 _ Hne). }
    constructor; auto.
    - intros y0. destruct (N.eq_dec y0 y) as [->|Hne].
      + unfold rx_clause. rewrite Hyr, O1, N.eqb_refl. cbn [b2n]. rewrite !cnt_snoc. cbn [fst m_po m_rj]. rewrite N.eqb_refl. cbn [b2n].
        split; [lia|split; [|split]].
        * apply nafter_snoc; [exact Y2|]. intros _. exact Y3.
        * intros H0. lia.
        * intros x0 Hx0. rewrite cnt_snoc in Hx0. mev.
          pose proof (cnt_pox_le_po y x0 L). destruct (x =? x0) eqn:Ex; [|cbn [b2n] in Hx0; lia]. apply N.eqb_eq in Ex. subst x0.
          exists c'. split; [apply pstat_live_intro; auto|].
          apply rcl_zero; cbn [txf rxf]; auto; try discriminate.
          rewrite cnt_snoc. mev. lia.
      + eapply rx_frame; [apply Hxy|reflexivity|apply leq_snoc| | |].
        * mev. apply N.eqb_neq. congruence.
        * rewrite O1. apply N.eqb_neq in Hne. now rewrite Hne.
        * reflexivity.
        * intros x0. apply pst_ok_eq. apply Hpx. auto.
    - intros x0. destruct (N.eq_dec x0 x) as [->|Hne].
      + unfold rx_clause. rewrite K1, Er.
        pose proof (cnt_le (m_po x) (m_addr x) L' (sub_po x)). pose proof (cnt_le (m_rj x) (m_addr x) L' (sub_rj x)).
        pose proof (cnt_le (m_other x) (m_addr x) L' (sub_other x)).
        assert (Hp : pstat PY (L ++ [((PortOpened y x, pl) : frame)]) y x = PPend).
        { unfold pstat. rewrite Hyr. rewrite cnt_snoc. mev.
          destruct (0 <? cnt (m_pox y x) L + 1) eqn:El; [reflexivity|]. apply N.ltb_ge in El. lia. }
        rewrite Hp. split; [lia|split; [lia|split; [exact X2|split; [|split]]]].
        * rewrite reqcount_snoc. mev. lia.
        * apply rcl_zero; cbn [txf rxf]; auto; try discriminate. lia.
        * discriminate.
      + eapply rx_frame; [apply Hyx|apply (K2 _ Hne)|apply leq_refl|reflexivity| |].
        * rewrite reqcount_snoc. mev. lia.
        * intros y0. apply pst_ok_eq. apply pstat_link. rewrite cnt_snoc. mev.
          apply N.eqb_neq in Hne. rewrite (N.eqb_sym x x0), Hne, andb_false_r. cbn [b2n]. lia.
    - intros p1 p2 c1 c2 H1 H2 Hr. destruct (N.eq_dec p1 x) as [->|N1], (N.eq_dec p2 x) as [->|N2]; auto.
      + rewrite K1 in H1. injection H1 as <-. rewrite (K2 _ N2) in H2. exfalso. apply (accept_no_remote _ _ H2). congruence.
      + rewrite K1 in H2. injection H2 as <-. rewrite (K2 _ N1) in H1. exfalso. apply (accept_no_remote _ _ H1). congruence.
      + rewrite (K2 _ N1) in H1. rewrite (K2 _ N2) in H2. eauto.
    - intros p d H. rewrite O1. destruct (remote d =? y) eqn:E; [reflexivity|]. destruct (N.eq_dec p x) as [->|N1].
      + rewrite K1 in H. injection H as <-. apply N.eqb_neq in E. congruence.
      + rewrite (K2 _ N1) in H. eauto.
    - destruct Hcx as [C1 C2 C3]. constructor.
      + intros y0 Hy0. destruct (C1 y0) as (x0 & c0 & P1 & P2 & P3); [specialize (Q1 y0); lia|]. exists x0, c0. split; [|auto].
        rewrite K2; [exact P1|]. intros ->. congruence.
      + intros y0 Hy0. destruct (C2 y0) as (x0 & c0 & P1 & P2 & P3); [specialize (Q2 y0); lia|]. exists x0, c0. split; [|auto].
        rewrite K2; [exact P1|]. intros ->. congruence.
      + intros x0 d H. destruct (N.eq_dec x0 x) as [->|N1].
        * rewrite K1 in H. injection H as <-. rewrite Er.
          assert (Z1 : count (ev_sends y) QX' = 0).
          { destruct (N.eq_dec (count (ev_sends y) QX') 0) as [E|E]; [exact E|]. exfalso.
            destruct (C1 y) as (x0 & c0 & P1 & P2 & P3); [specialize (Q1 y); lia|]. eapply accept_no_remote; eauto. }
          assert (Z2 : count (ev_creds y) QX' = 0).
          { destruct (N.eq_dec (count (ev_creds y) QX') 0) as [E|E]; [exact E|]. exfalso.
            destruct (C2 y) as (x0 & c0 & P1 & P2 & P3); [specialize (Q2 y); lia|]. eapply accept_no_remote; eauto. }
          split; apply no_after_g0; assumption.
        * rewrite (K2 _ N1) in H. destruct (C3 _ _ H). split; apply Q3; assumption.
    - rewrite cnt_snoc. mev. lia.
  Qed.
End Accept.
