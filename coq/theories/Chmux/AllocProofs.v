(** Proofs about the port-number allocator model ([Chmux/Alloc.v]): the number bound and the absence of lost
    wake-ups, for every action list (any interleaving of allocations, releases, polls -- spurious ones
    included -- and cancellations). *)
From Remoc Require Import Lib.Base Chmux.Alloc.
From RecordUpdate Require Import RecordUpdate.

Ltac prj := cbn [limit used reg futs next set RecordSet.set] in *.

Lemma flookup_fremove id id' l : flookup id (fremove id' l) = if id' =? id then None else flookup id l.
Proof.
  induction l as [|[k v] l IH]; cbn [fremove flookup].
  - destruct (id' =? id); reflexivity.
  - destruct (k =? id') eqn:E1.
    + rewrite IH. apply N.eqb_eq in E1. subst. destruct (id' =? id); reflexivity.
    + cbn [flookup]. rewrite IH. destruct (k =? id) eqn:E2; [|reflexivity].
      apply N.eqb_eq in E2. subst. rewrite N.eqb_sym, E1. reflexivity.
Qed.

Lemma flookup_fset id id' v l : flookup id (fset id' v l) = if id' =? id then Some v else flookup id l.
Proof. unfold fset. cbn [flookup]. rewrite flookup_fremove. destruct (id' =? id); reflexivity. Qed.

Lemma existsb_eqb id rg : existsb (N.eqb id) rg = true <-> In id rg.
Proof.
  rewrite existsb_exists. split.
  - intros [x [Hx E]]. apply N.eqb_eq in E. subst. exact Hx.
  - intros H. exists id. split; [exact H|apply N.eqb_refl].
Qed.

Lemma flookup_notify_all id rg l :
  flookup id (notify_all rg l) =
  match flookup id l with None => None | Some v => if existsb (N.eqb id) rg then Some FNotified else Some v end.
Proof.
  induction l as [|[k v] l IH]; cbn [notify_all map flookup fst]; [reflexivity|].
  fold (notify_all rg l).
  destruct (existsb (N.eqb k) rg) eqn:Ek; cbn [flookup]; destruct (k =? id) eqn:E; try exact IH.
  - apply N.eqb_eq in E. subst. rewrite Ek. reflexivity.
  - apply N.eqb_eq in E. subst. rewrite Ek. reflexivity.
Qed.

Definition Inv (a : alloc) : Prop :=
  used a <= limit a /\ (reg a <> [] -> used a = limit a) /\
  (forall id, flookup id (futs a) = Some FWaiting -> In id (reg a)).

Lemma Inv_init lim : Inv (init lim).
Proof. unfold Inv, init; prj. repeat split; try lia; try congruence. cbn. congruence. Qed.

Lemma free_no_reg a : Inv a -> used a < limit a -> reg a = [].
Proof. intros (_ & H2 & _) Hl. destruct (reg a) eqn:E; [reflexivity|]. assert (used a = limit a) by (apply H2; congruence). lia. Qed.

Lemma Inv_register a id : Inv a -> ~ used a < limit a ->
  Inv (a <| reg := reg a ++ [id] |> <| futs := fset id FWaiting (futs a) |>).
Proof.
  intros (H1 & H2 & H3) Hf. unfold Inv; prj. repeat split; [exact H1|intros _; lia|].
  intros id0. rewrite flookup_fset. destruct (id =? id0) eqn:E.
  - apply N.eqb_eq in E. subst. intros _. apply in_or_app. right. left. reflexivity.
  - intros H. apply in_or_app. left. apply H3. exact H.
Qed.

Lemma Inv_take a l' : Inv a -> used a < limit a ->
  (forall id, flookup id l' = Some FWaiting -> flookup id (futs a) = Some FWaiting) ->
  Inv (a <| used := used a + 1 |> <| futs := l' |>).
Proof.
  intros HI Hl Hsub. pose proof (free_no_reg a HI Hl) as Hr. destruct HI as (H1 & H2 & H3).
  unfold Inv; prj. repeat split; [lia|rewrite Hr; congruence|].
  intros id H. apply H3, Hsub, H.
Qed.

Theorem Inv_step a x : Inv a -> Inv (fst (step a x)).
Proof.
  intros HI. destruct x as [|id|id|id|]; cbn [step].
  - destruct (used a <? limit a) eqn:E; cbn [fst]; [|exact HI].
    replace (a <| used := used a + 1 |>) with (a <| used := used a + 1 |> <| futs := futs a |>) by (destruct a; reflexivity).
    apply Inv_take; [exact HI|lia|auto].
  - destruct (id <? next a) eqn:En; cbn [fst]; [exact HI|].
    assert (HI' : Inv (a <| next := id + 1 |>)) by (destruct HI as (H1 & H2 & H3); unfold Inv; prj; auto).
    set (b := a <| next := id + 1 |>) in *.
    destruct (used b <? limit b) eqn:E; cbn [fst].
    + replace (b <| used := used b + 1 |>) with (b <| used := used b + 1 |> <| futs := futs b |>) by (destruct a; reflexivity).
      apply Inv_take; [exact HI'|lia|auto].
    + apply Inv_register; [exact HI'|lia].
  - destruct (flookup id (futs a)) as [[|]|] eqn:Ef; cbn [fst]; try exact HI.
    destruct (used a <? limit a) eqn:E; cbn [fst].
    + apply Inv_take; [exact HI|lia|]. intros id0. rewrite flookup_fremove. destruct (id =? id0); congruence.
    + apply Inv_register; [exact HI|lia].
  - destruct (flookup id (futs a)) eqn:Ef; cbn [fst]; [|exact HI].
    destruct HI as (H1 & H2 & H3). unfold Inv; prj. repeat split; auto.
    intros id0. rewrite flookup_fremove. destruct (id =? id0); [congruence|apply H3].
  - destruct (used a =? 0) eqn:E; cbn [fst]; [exact HI|].
    destruct HI as (H1 & H2 & H3). unfold Inv; prj. repeat split; [lia|congruence|].
    intros id0. rewrite flookup_notify_all. destruct (flookup id0 (futs a)) as [v|] eqn:Ef; [|congruence].
    destruct (existsb (N.eqb id0) (reg a)) eqn:Ex; [congruence|].
    intros Hv. injection Hv as ->. apply H3 in Ef. apply existsb_eqb in Ef. congruence.
Qed.

Theorem Inv_run xs : forall a, Inv a -> Inv (run a xs).
Proof. induction xs as [|x xs IH]; intros a HI; cbn [run]; [exact HI|]. apply IH, Inv_step, HI. Qed.

(** never more numbers in use than the limit *)
Theorem used_le_limit lim xs : used (run (init lim) xs) <= limit (run (init lim) xs).
Proof. exact (proj1 (Inv_run xs _ (Inv_init lim))). Qed.

Lemma limit_step a x : limit (fst (step a x)) = limit a.
Proof.
  destruct x as [|id|id|id|]; cbn [step].
  - destruct (used a <? limit a); reflexivity.
  - destruct (id <? next a); [reflexivity|]. prj. destruct (used a <? limit a); reflexivity.
  - destruct (flookup id (futs a)) as [[|]|]; try reflexivity. destruct (used a <? limit a); reflexivity.
  - destruct (flookup id (futs a)); reflexivity.
  - destruct (used a =? 0); reflexivity.
Qed.
Lemma limit_run xs : forall a, limit (run a xs) = limit a.
Proof. induction xs as [|x xs IH]; intros a; cbn [run]; [reflexivity|]. rewrite IH. apply limit_step. Qed.

(** NO LOST WAKE-UP: in every reachable state in which a number is free, every pending [allocate()] future
    has been woken (its next poll retries); none sleeps on a notifier that will not fire *)
Theorem no_lost_wakeup lim xs id st :
  let a := run (init lim) xs in
  used a < limit a -> flookup id (futs a) = Some st -> st = FNotified.
Proof.
  intros a Hl Hf. pose proof (Inv_run xs _ (Inv_init lim)) as HI. fold a in HI.
  pose proof (free_no_reg a HI Hl) as Hr. destruct HI as (_ & _ & H3).
  destruct st; [|reflexivity]. apply H3 in Hf. rewrite Hr in Hf. destruct Hf.
Qed.

(** a woken future that is polled while a number is free takes it *)
Theorem woken_takes a id : flookup id (futs a) = Some FNotified -> used a < limit a ->
  snd (step a (APoll id)) = [1] /\ used (fst (step a (APoll id))) = used a + 1 /\
  flookup id (futs (fst (step a (APoll id)))) = None.
Proof.
  intros Hf Hl. cbn [step]. rewrite Hf. assert (used a <? limit a = true) as -> by lia. cbn [fst snd]. prj.
  repeat split. rewrite flookup_fremove, N.eqb_refl. reflexivity.
Qed.

