(** One port direction under all schedules: the sending operations of [chmux::Sender]
    ([send], [try_send], [send_chunks]/[ChunkSender], [connect]; [remoc/src/chmux/sender.rs]), the
    credit pool ([credit.rs]), the sender endpoint's event queue, the transport link, the receiving
    dispatcher's credit monitor and per-port queue ([mux.rs]), the receiver with its credit returner
    ([receiver.rs], [credit.rs]) and the way credits travel back.

    Every source of nondeterminism -- which task runs, when a frame is delivered, when a future is
    dropped -- is an [act]; a schedule is a [list act].  [step_opt] returns [None] when the action is
    not enabled in the state. *)
From Remoc Require Import Lib.Base Gen.Consts Chmux.Parse Chmux.Recv.
From RecordUpdate Require Import RecordUpdate.

Definition U32_MAX : N := 4294967295.

Record pcfg := mk_pcfg {
  chunk : N;      (** chunk size advertised by the receiving endpoint *)
  limit : N;      (** receive buffer advertised by the receiving endpoint = initial credits = monitor limit *)
  cap_s : N;      (** slots between the sender and its transport sink (event queue etc.) *)
  cap_r : N       (** same on the receiving endpoint (for returned credits) *)
}.

(** state of the operation in progress on the [Sender] *)
Inductive sop :=
| SIdle
| SData (cs : bool) (rest : list N) (empty : bool) (first : bool) (assigned : N) (fin : bool)
    (** [send] ([cs = false], [fin = true]) or [ChunkSender::send_int] ([cs = true]) in progress:
        [rest] still to be sent; [empty]: the call's data was empty and its single frame is still due *)
| SChunkIdle (first : bool) (assigned : N)     (** a [ChunkSender] exists, no call in progress *)
| SPorts (rest : list N) (first : bool) (assigned : N).   (** [connect] in progress *)

Definition assigned_of (o : sop) : N :=
  match o with
  | SIdle => 0
  | SData _ _ _ _ a _ => a
  | SChunkIdle _ a => a
  | SPorts _ _ a => a
  end.

Inductive perr := ErrChunkSize | ErrOverdraw | ErrCreditOverflow.

(** the receiving dispatcher's size check: a data frame or port batch must fit the chunk size *)
Definition frame_ok (ck : N) (f : frame) : bool :=
  match f with
  | FData _ _ b => len b <=? ck
  | FPorts _ _ ps => 4 * len ps <=? ck
  | FFin => true
  end.

Record st := mk_st {
  cfg : pcfg;
  (* sending endpoint *)
  pool : N;                     (** [ChannelCreditsInner::credits] *)
  closed : option bool;         (** [ChannelCreditsInner::closed] *)
  op : sop;
  tx_dropped : bool;
  evq : list frame;             (** this port's frames between the sender and the transport *)
  link : list frame;            (** on the transport *)
  (* receiving endpoint *)
  rxq : list frame;             (** per-port queue; [monitor.used] = cost of its contents *)
  cm : cmode;                   (** the consumer's position in the receive protocol *)
  rcv : rstate;
  to_return : N;                (** [ChannelCreditReturner::to_return] *)
  ret_pending : option N;       (** [return_fut]: a [ReturnCredits] event waiting for a queue slot *)
  cred_evq : list N;            (** [ReturnCredits] events in the receiving endpoint's queue *)
  cred_link : list N;           (** [PortCredits] messages on the transport *)
  dead : option perr;           (** a dispatcher ended the connection with a protocol error *)
  (* ghost *)
  cur : list N;                 (** bytes of the message in progress already handed over *)
  emitted : list frame;         (** every frame a sending operation has handed over, in order *)
  consumed : list frame;        (** frames the receiver has taken from its queue *)
  completed : list msg;         (** messages whose send returned [Ok] *)
  delivered : list dmsg;        (** what the receiver has obtained *)
  sent_cost : N;                (** cost of the frames put on the transport *)
  granted : N                   (** credits received back by the sending endpoint *)
}.

#[global] Instance eta_st : Settable _ :=
  settable! mk_st <cfg; pool; closed; op; tx_dropped; evq; link; rxq; cm; rcv; to_return; ret_pending; cred_evq;
                   cred_link; dead; cur; emitted; consumed; completed; delivered; sent_cost; granted>.

Definition init (c : pcfg) (max_data max_ports : N) : st :=
  {| cfg := c; pool := limit c; closed := None; op := SIdle; tx_dropped := false; evq := []; link := [];
     rxq := []; cm := CAny; rcv := rinit max_data max_ports; to_return := 0; ret_pending := None; cred_evq := [];
     cred_link := []; dead := None; cur := []; emitted := []; consumed := []; completed := [];
     delivered := []; sent_cost := 0; granted := 0 |}.

Inductive act :=
(* API calls on the sender; each starts an operation *)
| USend (data : list N)
| UTrySend (data : list N) (slots : N)     (** [slots]: how many queue slots happen to be free *)
| UChunkStart                              (** [send_chunks()] *)
| UChunk (data : list N) (fin : bool)      (** [ChunkSender::send] / [send_final] / [finish] *)
| UConnect (ports : list N)
| UCancel                                  (** drop of the pending future / of the [ChunkSender] *)
| UDropTx                                  (** drop of the [Sender] *)
(* internal steps of the sending side *)
| TReq                                     (** [CreditUser::request] completes (or fails when closed) *)
| TEmit                                    (** queue slot reserved; credits taken; frame handed over *)
| TMux                                     (** frame moves from the queue to the transport *)
| TLink                                    (** frame arrives: credit monitor, per-port queue *)
(* receiving side *)
| RConsume                                 (** the receiver takes the next frame from its queue *)
| RFlush                                   (** [return_flush]: the pending credit event gets its slot *)
| TCredMux | TCredLink                     (** returned credits travel back *)
| TClose (gracefully : bool).              (** the credit provider is closed (ReceiveClose/ReceiveFinish arrived) *)

Definition slot_free (s : st) : bool := len (evq s) <? cap_s (cfg s).

Definition pend (o : option N) : N := match o with Some n => n | None => 0 end.

(** finishing an operation: [AssignedCredits] dropped, unused credits flow back *)
Definition finish_op (s : st) (ret : N) (m : option msg) : st :=
  s <| pool := pool s + ret |> <| op := SIdle |> <| cur := [] |>
    <| completed := match m with Some m => completed s ++ [m] | None => completed s end |>.

Definition emit (s : st) (f : frame) : st :=
  s <| evq := evq s ++ [f] |> <| emitted := emitted s ++ [f] |>.

(** [try_send] of non-empty data: frames of [chunk] bytes as long as slots are free *)
Fixpoint try_chunks (fuel : nat) (ck : N) (data : list N) (first : bool) (slots : N) : list frame * bool :=
  match fuel with
  | O => ([], false)
  | S fuel' =>
      match data with
      | [] => ([], true)
      | _ =>
          if slots =? 0 then ([], false)
          else
            let at_ := N.to_nat (N.min (len data) ck) in
            let c := firstn at_ data in
            let r := skipn at_ data in
            let '(fs, ok) := try_chunks fuel' ck r false (slots - 1) in
            (FData first (match r with [] => true | _ => false end) c :: fs, ok)
      end
  end.

Definition step_opt (s : st) (a : act) : option st :=
  match a with
  | USend data =>
      match op s, tx_dropped s with
      | SIdle, false => Some (s <| op := SData false data (match data with [] => true | _ => false end) true 0 true |>
                                <| cur := [] |>)
      | _, _ => None
      end
  | UTrySend data slots =>
      match op s, tx_dropped s with
      | SIdle, false =>
          (* data beyond u32::MAX bytes would make [credits.take] panic; outside the model *)
          if (slots <=? cap_s (cfg s) - len (evq s)) && (len data <=? U32_MAX) then
            match closed s with
            | Some _ => Some s                                   (* Err(Closed); nothing happens *)
            | None =>
                let need := match data with [] => 1 | _ => N.min (len data) U32_MAX end in
                if pool s <? need then Some s                    (* Err(Full) *)
                else
                  match data with
                  | [] =>
                      if slots =? 0 then Some s                  (* Err(Full); credits flow back *)
                      else Some (emit s (FData true true []) <| pool := pool s - 1 |>
                                   <| completed := completed s ++ [MData []] |>)
                  | _ =>
                      let '(fs, ok) := try_chunks (S (length data)) (chunk (cfg s)) data true slots in
                      let s1 := s <| evq := evq s ++ fs |> <| emitted := emitted s ++ fs |>
                                  <| pool := pool s - costs fs |> in
                      Some (if ok then s1 <| completed := completed s ++ [MData data] |> else s1)
                  end
            end
          else None
      | _, _ => None
      end
  | UChunkStart =>
      match op s, tx_dropped s with
      | SIdle, false => Some (s <| op := SChunkIdle true 0 |> <| cur := [] |>)
      | _, _ => None
      end
  | UChunk data fin =>
      match op s with
      | SChunkIdle first a =>
          Some (s <| op := SData true data (match data with [] => true | _ => false end) first a fin |>)
      | _ => None
      end
  | UConnect ports =>
      match op s, tx_dropped s with
      | SIdle, false =>
          match ports with
          | [] => Some (s <| completed := completed s |>)          (* nothing to send *)
          | _ => Some (s <| op := SPorts ports true 0 |> <| cur := [] |>)
          end
      | _, _ => None
      end
  | UCancel =>
      match op s with
      | SIdle => None
      | o => Some (finish_op s (assigned_of o) None)
      end
  | UDropTx =>
      match op s, tx_dropped s with
      | SIdle, false =>
          if slot_free s then Some (emit s FFin <| tx_dropped := true |>) else None
      | _, _ => None
      end
  | TReq =>
      match op s with
      | SData cs rest empty first 0 fin =>
          match closed s with
          | Some _ => Some (finish_op s 0 None)                    (* Err(Closed) *)
          | None =>
              if 1 <=? pool s then
                let req := if empty then 1 else N.min (len rest) U32_MAX in
                let g := N.min (pool s) req in
                Some (s <| pool := pool s - g |> <| op := SData cs rest empty first g fin |>)
              else None
          end
      | SPorts rest first a =>
          if a <? 4 then
            match closed s with
            | Some _ => Some (finish_op s a None)
            | None =>
                (* leftover credits flow back, then at least four are requested *)
                let p := pool s + a in
                if 4 <=? p then
                  let req := N.min (4 * len rest) U32_MAX in
                  let g := N.min p req in
                  Some (s <| pool := p - g |> <| op := SPorts rest first g |>)
                else Some (s <| pool := p |> <| op := SPorts rest first 0 |>)
            end
          else None
      | _ => None
      end
  | TEmit =>
      if slot_free s then
        match op s with
        | SData cs rest empty first a fin =>
            if a =? 0 then None
            else if empty then
              (* single empty frame of an empty call *)
              let s1 := emit s (FData first fin []) in
              if cs then
                if fin then Some (finish_op s1 (a - 1) (Some (MData (cur s))))
                else Some (s1 <| op := SChunkIdle false (a - 1) |>)
              else Some (finish_op s1 (a - 1) (Some (MData (cur s))))
            else
              let at_ := N.to_nat (N.min (N.min (len rest) (chunk (cfg s))) a) in
              let c := firstn at_ rest in
              let r := skipn at_ rest in
              let done := match r with [] => true | _ => false end in
              let s1 := emit s (FData first (done && fin) c) <| cur := cur s ++ c |> in
              let a' := a - len c in
              if done then
                if cs then
                  if fin then Some (finish_op s1 a' (Some (MData (cur s ++ c))))
                  else Some (s1 <| op := SChunkIdle false a' |>)
                else Some (finish_op s1 a' (Some (MData (cur s ++ c))))
              else Some (s1 <| op := SData cs r false false a' fin |>)
        | SPorts rest first a =>
            if a <? 4 then None
            else
              let maxp := N.min (chunk (cfg s)) a / 4 in
              let k := N.to_nat (N.min (len rest) maxp) in
              let c := firstn k rest in
              let r := skipn k rest in
              let done := match r with [] => true | _ => false end in
              let s1 := emit s (FPorts first done c) <| cur := cur s ++ c |> in
              let a' := a - 4 * len c in
              if done then Some (finish_op s1 a' (Some (MPorts (cur s ++ c))))
              else Some (s1 <| op := SPorts r false a' |>)
        | _ => None
        end
      else None
  | TMux =>
      match evq s with
      | f :: q => Some (s <| evq := q |> <| link := link s ++ [f] |> <| sent_cost := sent_cost s + cost f |>)
      | [] => None
      end
  | TLink =>
      match link s with
      | f :: q =>
          match dead s with
          | Some _ => None
          | None =>
              if negb (frame_ok (chunk (cfg s)) f) then Some (s <| link := q |> <| dead := Some ErrChunkSize |>)
              else if costs (rxq s) + cost f <=? limit (cfg s)
              then Some (s <| link := q |> <| rxq := rxq s ++ [f] |>)
              else Some (s <| link := q |> <| dead := Some ErrOverdraw |>)
          end
      | [] => None
      end
  | RConsume =>
      match rxq s, ret_pending s with
      | f :: q, None =>
          let '(m', r', o) := feed (cm s) (rcv s) f in
          let tr := to_return s + cost f in
          let s1 := s <| rxq := q |> <| cm := m' |> <| rcv := r' |> <| consumed := consumed s ++ [f] |>
                      <| delivered := delivered s ++ o |> in
          if return_threshold (limit (cfg s)) <=? tr then
            if len (cred_evq s) <? cap_r (cfg s)
            then Some (s1 <| to_return := 0 |> <| cred_evq := cred_evq s ++ [tr] |>)
            else Some (s1 <| to_return := 0 |> <| ret_pending := Some tr |>)
          else Some (s1 <| to_return := tr |>)
      | _, _ => None
      end
  | RFlush =>
      match ret_pending s with
      | Some c =>
          if len (cred_evq s) <? cap_r (cfg s)
          then Some (s <| ret_pending := None |> <| cred_evq := cred_evq s ++ [c] |>)
          else None
      | None => None
      end
  | TCredMux =>
      match cred_evq s with
      | c :: q => Some (s <| cred_evq := q |> <| cred_link := cred_link s ++ [c] |>)
      | [] => None
      end
  | TCredLink =>
      match cred_link s with
      | c :: q =>
          match dead s with
          | Some _ => None
          | None =>
              if pool s + c <=? U32_MAX
              then Some (s <| cred_link := q |> <| pool := pool s + c |> <| granted := granted s + c |>)
              else Some (s <| cred_link := q |> <| dead := Some ErrCreditOverflow |>)
          end
      | [] => None
      end
  | TClose g =>
      match closed s with
      | None => Some (s <| closed := Some g |>)
      | Some _ => None
      end
  end.

Definition step (s : st) (a : act) : st :=
  match step_opt s a with Some s' => s' | None => s end.

Definition run (acts : list act) (s : st) : st := fold_left step acts s.

(** a configuration accepted by [Cfg::check] on both sides, within the u32 range *)
Definition cfg_ok (c : pcfg) : Prop :=
  CFG_MIN_CHUNK_SIZE <= chunk c /\ CFG_MIN_RECEIVE_BUFFER <= limit c /\ limit c <= U32_MAX /\
  chunk c <= U32_MAX /\ 1 <= cap_s c /\ 1 <= cap_r c.
