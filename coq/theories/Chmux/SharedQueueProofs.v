(** Proofs about the shared event queue ([SharedQueue.v]): invariant, bounded queue, termination measure of
    the system actions, and what holds when no system action is enabled. *)
From Remoc Require Import Lib.Base Chmux.SharedQueue.
From RecordUpdate Require Import RecordUpdate.

(** * Small facts *)
Lemma wkind_eqb_eq a b : wkind_eqb a b = true <-> a = b.
Proof.
  destruct a as [p|p k], b as [q|q l]; cbn [wkind_eqb]; split; intros H; try discriminate; try congruence.
  - apply N.eqb_eq in H. now subst.
  - inversion H; subst. apply N.eqb_refl.
  - apply andb_true_iff in H as [H1 H2]. apply N.eqb_eq in H1, H2. now subst.
  - inversion H; subst. now rewrite !N.eqb_refl.
Qed.
Lemma wkind_eqb_refl a : wkind_eqb a a = true.
Proof. now apply wkind_eqb_eq. Qed.
Lemma wkind_eqb_sym a b : wkind_eqb a b = wkind_eqb b a.
Proof.
  destruct (wkind_eqb a b) eqn:E.
  - apply wkind_eqb_eq in E. subst. now rewrite wkind_eqb_refl.
  - destruct (wkind_eqb b a) eqn:E'; [|reflexivity]. apply wkind_eqb_eq in E'. subst. now rewrite wkind_eqb_refl in E.
Qed.

Fixpoint countw (w : wkind) (l : list wkind) : N :=
  match l with [] => 0 | x :: r => (if wkind_eqb x w then 1 else 0) + countw w r end.
Lemma countw_app w l1 l2 : countw w (l1 ++ l2) = countw w l1 + countw w l2.
Proof. induction l1 as [|x r IH]; cbn [countw app]; [lia|]. rewrite IH. lia. Qed.
Lemma countw_remove_same w l : countw w (remove_first w l) = countw w l - 1.
Proof.
  induction l as [|x r IH]; cbn [countw remove_first]; [lia|].
  destruct (wkind_eqb x w) eqn:E; [lia|]. cbn [countw]. rewrite E, IH. lia.
Qed.
Lemma countw_remove_other w w' l : wkind_eqb w w' = false -> countw w' (remove_first w l) = countw w' l.
Proof.
  intros Hne. induction l as [|x r IH]; cbn [countw remove_first]; [reflexivity|].
  destruct (wkind_eqb x w) eqn:E.
  - apply wkind_eqb_eq in E. subst. rewrite Hne. lia.
  - cbn [countw]. now rewrite IH.
Qed.

Definition is_ret (w : wkind) : bool := match w with WRet _ _ => true | WOp _ => false end.
Definition nret (l : list wkind) : N := len (filter is_ret l).
Lemma nret_app l1 l2 : nret (l1 ++ l2) = nret l1 + nret l2.
Proof. unfold nret. now rewrite filter_app, len_app. Qed.
Lemma nret_remove_op p l : nret (remove_first (WOp p) l) = nret l.
Proof.
  induction l as [|x r IH]; [reflexivity|]. cbn [remove_first].
  destruct (wkind_eqb x (WOp p)) eqn:E.
  - apply wkind_eqb_eq in E. subst. reflexivity.
  - unfold nret in *. cbn [filter]. destruct (is_ret x); [rewrite !len_cons|]; now rewrite IH.
Qed.

(** * Updating one port *)
Section PortUpdate.
  Variable f : port -> port.
  Hypothesis f_pid : forall x, pid (f x) = pid x.

  Lemma map_pid_set p l : map pid (pset p f l) = map pid l.
  Proof.
    induction l as [|x r IH]; [reflexivity|]. cbn [pset]. destruct (pid x =? p); cbn [map]; [now rewrite f_pid|now rewrite IH].
  Qed.
  Lemma get_set_same p l : get p (pset p f l) = option_map f (get p l).
  Proof.
    induction l as [|x r IH]; [reflexivity|]. cbn [pset get]. destruct (pid x =? p) eqn:E; cbn [get].
    - now rewrite f_pid, E.
    - now rewrite E, IH.
  Qed.
  Lemma get_set_other p q l : q <> p -> get q (pset p f l) = get q l.
  Proof.
    intros Hne. induction l as [|x r IH]; [reflexivity|]. cbn [pset get]. destruct (pid x =? p) eqn:E; cbn [get].
    - rewrite f_pid. apply N.eqb_eq in E. destruct (N.eqb_spec (pid x) q); [congruence|reflexivity].
    - now rewrite IH.
  Qed.
  Lemma sum_map_set (g : port -> N) p l x :
    get p l = Some x -> sum (map g (pset p f l)) + g x = sum (map g l) + g (f x).
  Proof.
    clear f_pid.
    induction l as [|y r IH]; [discriminate|]. cbn [get pset]. destruct (pid y =? p) eqn:E.
    - intros [= ->]. cbn [map sum]. lia.
    - intros H. cbn [map sum]. specialize (IH H). lia.
  Qed.
  Lemma Forall_set (P : port -> Prop) p l :
    Forall P l -> (forall x, get p l = Some x -> P (f x)) -> Forall P (pset p f l).
  Proof.
    induction l as [|y r IH]; intros Hl Hx; [constructor|]. inversion Hl; subst. cbn [pset get] in *.
    destruct (pid y =? p) eqn:E.
    - constructor; [now apply Hx|assumption].
    - constructor; [assumption|]. apply IH; assumption.
  Qed.
  Lemma set_none p l : get p l = None -> pset p f l = l.
  Proof.
    induction l as [|y r IH]; [reflexivity|]. cbn [get pset]. destruct (pid y =? p); [discriminate|]. intros H. now rewrite IH.
  Qed.
End PortUpdate.

Lemma get_in p l x : get p l = Some x -> In x l /\ pid x = p.
Proof.
  induction l as [|y r IH]; [discriminate|]. cbn [get]. destruct (N.eqb_spec (pid y) p).
  - intros [= ->]. split; [now left|assumption].
  - intros H. destruct (IH H). split; [now right|assumption].
Qed.
Lemma in_get l x : NoDup (map pid l) -> In x l -> get (pid x) l = Some x.
Proof.
  induction l as [|y r IH]; intros Hnd Hin; [destruct Hin|]. cbn [map] in Hnd. inversion Hnd; subst. cbn [get].
  destruct Hin as [->|Hin]; [now rewrite N.eqb_refl|].
  destruct (N.eqb_spec (pid y) (pid x)) as [E|E].
  - exfalso. apply H1. rewrite E. now apply in_map.
  - now apply IH.
Qed.

(** * Invariant *)
Definition port_ok (x : port) : Prop :=
  match ph x with
  | PIdle => True
  | PWaitCredit n => 1 <= n
  | PWaitSlot n | PGranted n => 1 <= n /\ 1 <= pool x
  end.

Definition wslot (l : list port) (p : N) : bool :=
  match get p l with Some x => match ph x with PWaitSlot _ => true | _ => false end | None => false end.

Record Inv (s : sq) : Prop := mk_Inv {
  inv_cap : 1 <= cap s;
  inv_nodup : NoDup (map pid (ports s));
  inv_ports : Forall port_ok (ports s);
  inv_wait : forall p, countw (WOp p) (waiters s) = if wslot (ports s) p then 1 else 0;
  inv_use : in_use s <= cap s
}.

(** * Measure: the system actions still possible without the environment *)
Definition cost (x : port) : N :=
  match ph x with
  | PIdle => 0
  | PWaitCredit n => 4 * N.min n (pool x)
  | PWaitSlot n => 4 * N.min n (pool x) - 1
  | PGranted n => 4 * N.min n (pool x) - 2
  end.
Definition M (s : sq) : N := sum (map cost (ports s)) + len (queue s) + 3 * nret (waiters s) + 2 * len (granted s).

Lemma pid_upd_ph x v : pid (x <| ph := v |>) = pid x. Proof. reflexivity. Qed.
Lemma pid_upd_pool x v : pid (x <| pool := v |>) = pid x. Proof. reflexivity. Qed.

Lemma wslot_set (f : port -> port) (Hf : forall x, pid (f x) = pid x) p q l :
  wslot (pset p f l) q =
  if q =? p then match get p l with Some x => match ph (f x) with PWaitSlot _ => true | _ => false end | None => false end
  else wslot l q.
Proof.
  unfold wslot. destruct (N.eqb_spec q p) as [->|Hne].
  - rewrite get_set_same by assumption. now destruct (get p l).
  - now rewrite get_set_other by assumption.
Qed.

Lemma init_inv c ps : 1 <= c -> NoDup (map fst ps) -> Inv (init c ps).
Proof.
  intros Hc Hnd. unfold init. constructor; cbn.
  - assumption.
  - rewrite map_map. cbn. assumption.
  - apply Forall_forall. intros x Hin. apply in_map_iff in Hin as [y [<- _]]. exact I.
  - intros p. unfold wslot.
    assert (H : forall l, match get p (map (fun x : N * N => {| pid := fst x; pool := snd x; ph := PIdle |}) l) with
                          | Some x => match ph x with PWaitSlot _ => true | _ => false end | None => false end = false).
    { induction l as [|y r IH]; [reflexivity|]. cbn [map get pid]. destruct (fst y =? p); [reflexivity|exact IH]. }
    now rewrite H.
  - unfold in_use, op_granted. cbn. rewrite map_map. cbn.
    assert (H : forall l : list (N * N), sum (map (fun _ => 0) l) = 0) by (induction l as [|y r IH]; cbn [map sum]; lia).
    rewrite H. unfold len. cbn. lia.
Qed.

(** * The invariant is preserved by every action *)
Ltac pidf := let x := fresh in intros x; reflexivity.
Ltac use_hp Hs x Hph v := cbn in Hs; replace (holds_permit x) with v in Hs by (unfold holds_permit; now rewrite Hph).

Lemma inv_upd_port s p x (f : port -> port) :
  Inv s -> get p (ports s) = Some x -> (forall y, pid (f y) = pid y) -> port_ok (f x) ->
  (match ph (f x) with PWaitSlot _ => true | _ => false end = match ph x with PWaitSlot _ => true | _ => false end) ->
  holds_permit (f x) <= holds_permit x ->
  Inv (s <| ports := pset p f (ports s) |>).
Proof.
  intros [Hc Hnd Hp Hw Hu] Hg Hf Hok Hws Hhp. constructor; cbn.
  - assumption.
  - now rewrite map_pid_set.
  - apply Forall_set; [assumption|]. intros y Hy. rewrite Hg in Hy. now injection Hy as <-.
  - intros q. rewrite wslot_set by assumption. destruct (N.eqb_spec q p) as [->|Hne]; [|apply Hw].
    rewrite Hg, Hws. specialize (Hw p). unfold wslot in Hw. now rewrite Hg in Hw.
  - unfold in_use, op_granted in *. cbn. pose proof (sum_map_set f holds_permit p (ports s) x Hg). lia.
Qed.

Lemma step_inv s a s' : Inv s -> step_opt s a = Some s' -> Inv s'.
Proof.
  intros HI H. pose proof HI as [Hc Hnd Hp Hw Hu].
  destruct a as [p n|p|p k|p k|p| |p| |]; cbn [step_opt] in H.
  - (* UStart *)
    destruct (get p (ports s)) as [x|] eqn:Hg; [|discriminate]. destruct (ph x) eqn:Hph; try discriminate.
    destruct (N.eqb_spec n 0); [discriminate|]. injection H as <-.
    apply inv_upd_port with (x := x); try assumption; try pidf; cbn; unfold port_ok, holds_permit; cbn; rewrite ?Hph; try lia; reflexivity.
  - (* UCancel *)
    destruct (get p (ports s)) as [x|] eqn:Hg; [|discriminate]. destruct (ph x) eqn:Hph; try discriminate; injection H as <-.
    + apply inv_upd_port with (x := x); try assumption; try pidf; cbn; unfold port_ok, holds_permit; cbn; rewrite ?Hph; try lia; try exact I; reflexivity.
    + (* leaves the waiters *)
      constructor; cbn.
      * assumption.
      * now rewrite map_pid_set by pidf.
      * apply Forall_set; [assumption|]. intros y _. exact I.
      * intros q. rewrite wslot_set by pidf. destruct (N.eqb_spec q p) as [->|Hne].
        -- rewrite Hg. cbn. rewrite countw_remove_same. specialize (Hw p). unfold wslot in Hw. rewrite Hg, Hph in Hw. lia.
        -- rewrite countw_remove_other; [apply Hw|]. cbn. apply N.eqb_neq. congruence.
      * unfold in_use, op_granted in *. cbn.
        pose proof (sum_map_set (fun y => y <| ph := PIdle |>) holds_permit p (ports s) x Hg) as Hs.
        use_hp Hs x Hph 0. lia.
    + apply inv_upd_port with (x := x); try assumption; try pidf; cbn; unfold port_ok, holds_permit; cbn; rewrite ?Hph; try lia; try exact I; reflexivity.
  - (* ECredits *)
    destruct (get p (ports s)) as [x|] eqn:Hg; [|discriminate]. injection H as <-.
    apply inv_upd_port with (x := x); try assumption; try pidf; cbn; try reflexivity.
    pose proof (proj1 (Forall_forall _ _) Hp x (proj1 (get_in _ _ _ Hg))) as Hx. unfold port_ok in *. cbn. destruct (ph x); try assumption; lia.
  - (* ERetStart *)
    destruct (permit_free s && match waiters s with [] => true | _ => false end) eqn:Hc2; injection H as <-.
    + apply andb_true_iff in Hc2 as [Hf _]. unfold permit_free in Hf. apply N.ltb_lt in Hf.
      constructor; cbn; try assumption. unfold in_use, op_granted in *. cbn. rewrite len_app. unfold len at 2. cbn. lia.
    + constructor; cbn; try assumption. intros q. rewrite countw_app. cbn. rewrite Hw. lia.
  - (* SPoll *)
    destruct (get p (ports s)) as [x|] eqn:Hg; [|discriminate]. destruct (ph x) eqn:Hph; try discriminate.
    destruct (N.eqb_spec (pool x) 0); [discriminate|]. injection H as <-.
    pose proof (proj1 (Forall_forall _ _) Hp x (proj1 (get_in _ _ _ Hg))) as Hx. unfold port_ok in Hx. rewrite Hph in Hx.
    constructor; cbn.
    + assumption.
    + now rewrite map_pid_set by pidf.
    + apply Forall_set; [assumption|]. intros y Hy. rewrite Hg in Hy. injection Hy as <-. unfold port_ok. cbn. lia.
    + intros q. rewrite wslot_set by pidf. rewrite countw_app. cbn [countw wkind_eqb]. destruct (N.eqb_spec q p) as [->|Hne].
      * rewrite Hg. cbn. rewrite N.eqb_refl. specialize (Hw p). unfold wslot in Hw. rewrite Hg, Hph in Hw. lia.
      * rewrite Hw. destruct (N.eqb_spec p q); [congruence|]. lia.
    + unfold in_use, op_granted in *. cbn.
      pose proof (sum_map_set (fun y => y <| ph := PWaitSlot frames |>) holds_permit p (ports s) x Hg) as Hs.
      use_hp Hs x Hph 0. lia.
  - (* SGrant *)
    destruct (permit_free s) eqn:Hf; [|discriminate]. unfold permit_free in Hf. apply N.ltb_lt in Hf.
    destruct (waiters s) as [|[p|p k] r] eqn:Hwt; [discriminate| |]; injection H as <-.
    + (* an operation gets the permit *)
      pose proof (Hw p) as Hwp. cbn [countw wkind_eqb] in Hwp. rewrite N.eqb_refl in Hwp.
      unfold wslot in Hwp. destruct (get p (ports s)) as [x|] eqn:Hg; [|lia]. destruct (ph x) eqn:Hph; try lia.
      pose proof (proj1 (Forall_forall _ _) Hp x (proj1 (get_in _ _ _ Hg))) as Hx. unfold port_ok in Hx. rewrite Hph in Hx.
      constructor; cbn.
      * assumption.
      * now rewrite map_pid_set by (intros y; destruct (ph y); reflexivity).
      * apply Forall_set; [assumption|]. intros y Hy. rewrite Hg in Hy. injection Hy as <-. rewrite Hph. unfold port_ok. cbn. lia.
      * intros q. rewrite wslot_set by (intros y; destruct (ph y); reflexivity). destruct (N.eqb_spec q p) as [->|Hne].
        -- rewrite Hg, Hph. cbn. lia.
        -- specialize (Hw q). cbn [countw wkind_eqb] in Hw. destruct (N.eqb_spec p q); [congruence|]. rewrite <- Hw. lia.
      * unfold in_use, op_granted in *. cbn.
        pose proof (sum_map_set (fun y => match ph y with PWaitSlot n => y <| ph := PGranted n |> | _ => y end) holds_permit p (ports s) x Hg) as Hs.
        cbv beta in Hs. rewrite Hph in Hs. use_hp Hs x Hph 0. lia.
    + constructor; cbn; try assumption.
      unfold in_use, op_granted in *. cbn. rewrite len_app. unfold len at 3. cbn. lia.
  - (* SUse *)
    destruct (get p (ports s)) as [x|] eqn:Hg; [|discriminate]. destruct (ph x) eqn:Hph; try discriminate. injection H as <-.
    pose proof (proj1 (Forall_forall _ _) Hp x (proj1 (get_in _ _ _ Hg))) as Hx. unfold port_ok in Hx. rewrite Hph in Hx.
    constructor; cbn.
    + assumption.
    + now rewrite map_pid_set by pidf.
    + apply Forall_set; [assumption|]. intros y Hy. rewrite Hg in Hy. injection Hy as <-. unfold port_ok. cbn.
      destruct (N.eqb_spec frames 1); [exact I|lia].
    + intros q. rewrite wslot_set by pidf. destruct (N.eqb_spec q p) as [->|Hne]; [|apply Hw].
      rewrite Hg. cbn. specialize (Hw p). unfold wslot in Hw. rewrite Hg, Hph in Hw. rewrite Hw. now destruct (frames =? 1).
    + unfold in_use, op_granted in *. cbn.
      pose proof (sum_map_set (fun y => y <| pool := pool y - 1 |> <| ph := if frames =? 1 then PIdle else PWaitCredit (frames - 1) |>) holds_permit p (ports s) x Hg) as Hs.
      use_hp Hs x Hph 1. rewrite len_app. unfold len at 2. cbn.
      destruct (frames =? 1); match type of Hs with context [holds_permit ?t] => change (holds_permit t) with 0 in Hs end; lia.
  - (* SUseRet *)
    destruct (granted s) as [|w r] eqn:Hgr; [discriminate|]. injection H as <-.
    constructor; cbn; try assumption. unfold in_use, op_granted in *. cbn. rewrite Hgr in Hu. rewrite len_cons in Hu. rewrite len_app. unfold len at 2. cbn. lia.
  - (* SPop *)
    destruct (queue s) as [|w r] eqn:Hq; [discriminate|]. injection H as <-.
    constructor; cbn; try assumption. unfold in_use, op_granted in *. cbn. rewrite Hq in Hu. rewrite len_cons in Hu. lia.
Qed.

Lemma run_inv acts : forall s, Inv s -> Inv (run acts s).
Proof.
  induction acts as [|a r IH]; intros s HI; [exact HI|]. cbn [run fold_left]. apply IH. unfold step.
  destruct (step_opt s a) eqn:E; [eapply step_inv; eassumption|exact HI].
Qed.

(** the queue never holds more than [cap] events (and permits are never over-committed) *)
Theorem queue_bounded c ps acts :
  1 <= c -> NoDup (map fst ps) -> let s := run acts (init c ps) in len (queue s) <= cap s /\ in_use s <= cap s.
Proof.
  intros Hc Hnd s. pose proof (run_inv acts _ (init_inv c ps Hc Hnd)) as HI. fold s in HI.
  destruct HI as [_ _ _ _ Hu]. split; [|exact Hu]. unfold in_use in Hu. lia.
Qed.

(** * Every system action decreases the measure *)
Theorem system_step_decreases s a s' :
  Inv s -> is_system a = true -> step_opt s a = Some s' -> M s' < M s.
Proof.
  intros HI Hsys H. pose proof HI as [Hc Hnd Hp Hw Hu].
  destruct a as [p n|p|p k|p k|p| |p| |]; try discriminate; cbn [step_opt] in H; unfold M.
  - (* SPoll *)
    destruct (get p (ports s)) as [x|] eqn:Hg; [|discriminate]. destruct (ph x) eqn:Hph; try discriminate.
    destruct (N.eqb_spec (pool x) 0); [discriminate|]. injection H as <-. cbn.
    pose proof (proj1 (Forall_forall _ _) Hp x (proj1 (get_in _ _ _ Hg))) as Hx. unfold port_ok in Hx. rewrite Hph in Hx.
    pose proof (sum_map_set (fun y => y <| ph := PWaitSlot frames |>) cost p (ports s) x Hg) as Hs.
    cbn in Hs. replace (cost x) with (4 * N.min frames (pool x)) in Hs by (unfold cost; now rewrite Hph).
    rewrite nret_app. unfold nret at 2. cbn. unfold len in *. cbn [length]. lia.
  - (* SGrant *)
    destruct (permit_free s); [|discriminate].
    destruct (waiters s) as [|[p|p k] r] eqn:Hwt; [discriminate| |]; injection H as <-; cbn.
    + pose proof (Hw p) as Hwp. cbn [countw wkind_eqb] in Hwp. rewrite N.eqb_refl in Hwp.
      unfold wslot in Hwp. destruct (get p (ports s)) as [x|] eqn:Hg; [|lia]. destruct (ph x) eqn:Hph; try lia.
      pose proof (proj1 (Forall_forall _ _) Hp x (proj1 (get_in _ _ _ Hg))) as Hx. unfold port_ok in Hx. rewrite Hph in Hx.
      pose proof (sum_map_set (fun y => match ph y with PWaitSlot n => y <| ph := PGranted n |> | _ => y end) cost p (ports s) x Hg) as Hs.
      cbv beta in Hs. rewrite Hph in Hs. cbn in Hs.
      replace (cost x) with (4 * N.min frames (pool x) - 1) in Hs by (unfold cost; now rewrite Hph).
      assert (Hm : 1 <= N.min frames (pool x)) by (apply N.min_glb; lia). remember (N.min frames (pool x)) as m.
      unfold nret. cbn [filter is_ret]. fold (nret r). lia.
    + unfold nret. cbn [filter is_ret]. rewrite len_cons, len_app. unfold len. cbn [length]. lia.
  - (* SUse *)
    destruct (get p (ports s)) as [x|] eqn:Hg; [|discriminate]. destruct (ph x) eqn:Hph; try discriminate. injection H as <-. cbn.
    pose proof (proj1 (Forall_forall _ _) Hp x (proj1 (get_in _ _ _ Hg))) as Hx. unfold port_ok in Hx. rewrite Hph in Hx.
    pose proof (sum_map_set (fun y => y <| pool := pool y - 1 |> <| ph := if frames =? 1 then PIdle else PWaitCredit (frames - 1) |>) cost p (ports s) x Hg) as Hs.
    cbv beta in Hs. replace (cost x) with (4 * N.min frames (pool x) - 2) in Hs by (unfold cost; now rewrite Hph).
    rewrite len_app. unfold len at 2. cbn.
    destruct (N.eqb_spec frames 1) as [E|E];
      match type of Hs with context [cost ?t] => let v := eval cbn in (cost t) in change (cost t) with v in Hs end; lia.
  - (* SUseRet *)
    destruct (granted s) as [|w r] eqn:Hgr; [discriminate|]. injection H as <-. cbn.
    rewrite len_cons, len_app. unfold len at 2. cbn. lia.
  - (* SPop *)
    destruct (queue s) as [|w r] eqn:Hq; [discriminate|]. injection H as <-. cbn. rewrite len_cons. lia.
Qed.

(** a run of system actions, each enabled when it is taken *)
Fixpoint sys_run (acts : list act) (s : sq) : option sq :=
  match acts with
  | [] => Some s
  | a :: r => if is_system a then match step_opt s a with Some s' => sys_run r s' | None => None end else None
  end.

(** no livelock: without the environment the system performs at most [M s] actions *)
Theorem system_runs_are_bounded acts : forall s s', Inv s -> sys_run acts s = Some s' -> len acts + M s' <= M s /\ Inv s'.
Proof.
  induction acts as [|a r IH]; intros s s' HI H; cbn [sys_run] in H.
  - injection H as <-. rewrite len_nil. split; [lia|exact HI].
  - destruct (is_system a) eqn:Hs; [|discriminate]. destruct (step_opt s a) as [s1|] eqn:E; [|discriminate].
    pose proof (system_step_decreases _ _ _ HI Hs E). pose proof (step_inv _ _ _ HI E) as HI1.
    destruct (IH _ _ HI1 H). rewrite len_cons. split; [lia|assumption].
Qed.

(** * No deadlock: when no system action is enabled, everything possible has been done *)
Definition quiescent (s : sq) : Prop := forall a, is_system a = true -> step_opt s a = None.

Definition port_done (x : port) : Prop :=
  ph x = PIdle \/ exists n, ph x = PWaitCredit n /\ pool x = 0.

Theorem quiescent_all_done s :
  Inv s -> quiescent s ->
  queue s = [] /\ waiters s = [] /\ granted s = [] /\ Forall port_done (ports s).
Proof.
  intros [Hc Hnd Hp Hw Hu] Hq.
  assert (Hqueue : queue s = []).
  { pose proof (Hq SPop eq_refl) as H. cbn in H. now destruct (queue s). }
  assert (Hgr : granted s = []).
  { pose proof (Hq SUseRet eq_refl) as H. cbn in H. now destruct (granted s). }
  assert (Hng : forall x, In x (ports s) -> holds_permit x = 0).
  { intros x Hin. pose proof (Hq (SUse (pid x)) eq_refl) as H. cbn in H. rewrite (in_get _ _ Hnd Hin) in H.
    unfold holds_permit. now destruct (ph x). }
  assert (Hog : op_granted s = 0).
  { unfold op_granted. clear - Hng. induction (ports s) as [|y r IH]; [reflexivity|]. cbn [map sum].
    rewrite (Hng y (or_introl eq_refl)), IH; [reflexivity|]. intros x Hin. apply Hng. now right. }
  assert (Hfree : permit_free s = true).
  { unfold permit_free, in_use. rewrite Hqueue, Hgr, Hog. unfold len. cbn. apply N.ltb_lt. lia. }
  assert (Hwt : waiters s = []).
  { pose proof (Hq SGrant eq_refl) as H. cbn in H. rewrite Hfree in H. destruct (waiters s) as [|[p|p k] r]; [reflexivity|discriminate|discriminate]. }
  repeat split; try assumption.
  apply Forall_forall. intros x Hin. unfold port_done.
  pose proof (in_get _ _ Hnd Hin) as Hg.
  destruct (ph x) eqn:Hph.
  - now left.
  - right. exists frames. split; [reflexivity|].
    pose proof (Hq (SPoll (pid x)) eq_refl) as H. cbn in H. rewrite Hg, Hph in H. destruct (N.eqb_spec (pool x) 0); [assumption|discriminate].
  - exfalso. specialize (Hw (pid x)). rewrite Hwt in Hw. unfold wslot in Hw. rewrite Hg, Hph in Hw. cbn in Hw. lia.
  - exfalso. specialize (Hng x Hin). unfold holds_permit in Hng. rewrite Hph in Hng. lia.
Qed.

(** * The cross-port statement.
    After ANY history (user calls, cancellations, credit returns of any ports, system actions in any
    order), any run of system actions alone -- no remote receiver has to consume anything -- is at most
    [M s] long, and when it cannot be extended every port has handed over every frame its own credits
    allow: it is idle, or it waits for credits with none left.  Hence a port whose receiver does not
    consume (its operations stay in [PWaitCredit] with [pool = 0]) never stops another port. *)
Theorem ports_do_not_block_each_other c ps history sys s' :
  1 <= c -> NoDup (map fst ps) ->
  let s := run history (init c ps) in
  sys_run sys s = Some s' -> quiescent s' ->
  len sys <= M s /\ queue s' = [] /\ waiters s' = [] /\ granted s' = [] /\ Forall port_done (ports s').
Proof.
  intros Hc Hnd s Hrun Hq.
  pose proof (run_inv history _ (init_inv c ps Hc Hnd)) as HI. fold s in HI.
  destruct (system_runs_are_bounded _ _ _ HI Hrun) as [Hb HI']. split; [lia|].
  now apply quiescent_all_done.
Qed.
