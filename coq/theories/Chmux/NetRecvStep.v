(** The composed invariant is kept when an endpoint Y handles the oldest frame sent by X; the only
    protocol errors an honest peer can provoke are those of flow control and of the connect-request
    credit, which this model of the endpoint does not carry on the sending side. *)
From Remoc Require Import Lib.Base Gen.Consts Chmux.Wire Chmux.Mux Chmux.Endpoint Chmux.EndpointLemmas Chmux.EndpointInv
  Chmux.EndpointSteps Chmux.EndpointDisp Chmux.EndpointRecv Chmux.EndpointEffects Chmux.EndpointProofs Chmux.Net Chmux.NetInv
  Chmux.NetFrame Chmux.NetShape Chmux.NetLocal Chmux.NetLocal2 Chmux.NetStepLocal Chmux.NetRecvCore.
From RecordUpdate Require Import RecordUpdate.

(** errors that depend on quantities (payload sizes, credits, queue lengths) rather than on the state of a port *)
Definition flow_class (e : perr) : bool :=
  match e with
  | PChunkSize | POverdraw | PPortChunk | PEmptyPorts | PCreditOverflow | PTooManyOpen | PTooManyClientFinish => true
  | _ => false
  end.

Lemma req_head PX PY OX OY QX QY fr L0 L' ps :
  Core PX PY OX OY QX QY (fr :: L0) L' -> (forall k, m_reqn k (fst fr) = occ k ps) ->
  forall k, mem k ps = true -> occ k ps = 1 /\ mem k OY = false.
Proof.
  intros HC Hreq k Hm. apply occ_pos_mem in Hm. pose proof (c_yx _ _ _ _ _ _ _ _ HC k) as Hk.
  destruct (rx_req_connecting _ _ _ _ _ _ Hk) as (r & Hr); [rewrite reqcount_cons, Hreq; lia|].
  unfold rx_clause in Hk. rewrite Hr in Hk. destruct Hk as (H1 & _). rewrite reqcount_cons, Hreq in H1.
  destruct (mem k OY); cbn [b2n] in H1; split; auto; lia.
Qed.

Lemma ins_out_total : forall ps o,
  (forall k, mem k ps = true -> occ k ps = 1 /\ mem k o = false) -> exists o', ins_out ps o = Some o'.
Proof.
  induction ps as [|p ps IH]; intros o H; cbn [ins_out]; [eauto|].
  destruct (H p) as [H1 H2]; [cbn [mem]; now rewrite N.eqb_refl|]. rewrite H2. apply IH. intros k Hk.
  destruct (H k) as [K1 K2]; [cbn [mem]; rewrite Hk; apply orb_true_r|]. rewrite occ_cons in K1, H1. rewrite N.eqb_refl in H1. cbn [b2n] in H1.
  split.
  - destruct (p =? k) eqn:E; cbn [b2n] in K1; [|lia]. apply N.eqb_eq in E. subst k. apply occ_pos_mem in Hk. lia.
  - cbn [mem]. rewrite K2, orb_false_r. apply N.eqb_neq. intros ->. apply occ_pos_mem in Hk. lia.
Qed.

Lemma head_rcl PX PY OX L L' y cY : rx_clause PX PY OX L L' y -> lookup y PY = Some (Connected cY) ->
  rcl cY (pstat PX L' (remote cY) y) y L.
Proof. unfold rx_clause. intros H Hl. rewrite Hl in H. apply H. Qed.

Section RecvMsg.
  Variables (PX : list (N * pstate)) (OX : list N) (QX QY : list evt) (L0 L' : list frame).
  Variable X : ep.
  Variable (m0 : mux) (pl : option N) (n : N).
  Hypothesis Hbuf : forall y c, lookup y (ports m0) = Some (Connected c) -> all4 c = false.

  Definition CoreR (m : mux) (L : list frame) : Prop :=
    Core (ports (mx X)) (ports m) (outstanding (mx X)) (outstanding m) (chq X) QY L L'.

  Definition recv_ok (msg : msg) : Prop :=
    CoreR m0 ((msg, pl) :: L0) ->
    match handle_received m0 msg n with
    | Done m' effs => CoreR m' L0
    | Proto err _ => flow_class err = true
    | Panic _ => True
    end.

  Lemma core_same_tab m' L : CoreR m0 L -> ports m' = ports m0 -> outstanding m' = outstanding m0 -> CoreR m' L.
  Proof. unfold CoreR. now intros H -> ->. Qed.

  Lemma rv_plain msg m' :
    (forall y, m_addr y msg = false) -> (forall x, m_intro x msg = false) -> ports m' = ports m0 -> outstanding m' = outstanding m0 ->
    CoreR m0 ((msg, pl) :: L0) -> CoreR m' L0.
  Proof.
    intros A1 A2 E1 E2 HC. eapply core_same_tab; eauto. unfold CoreR in *. eapply core_recv_plain; eauto.
  Qed.

  (** the table entry of the port addressed by a data / credit / close / finish frame *)
  Lemma rv_connected msg y : CoreR m0 ((msg, pl) :: L0) -> m_other y msg = true -> m_po y msg = false ->
    exists cY, lookup y (ports m0) = Some (Connected cY) /\
               rcl cY (pstat (ports (mx X)) L' (remote cY) y) y ((msg, pl) :: L0).
  Proof.
    intros HC Ho Hp. pose proof (c_xy _ _ _ _ _ _ _ _ HC y) as Hy.
    destruct (head_other _ _ _ _ _ _ _ Hy Ho Hp) as (cY & Hl). exists cY. split; [exact Hl|]. eapply head_rcl; eauto.
  Qed.

  (** consuming a frame for the connected port [y]; [maybe_free_port] runs afterwards *)
  Lemma rv_pop msg y cY cY' m2 effs :
    CoreR m0 ((msg, pl) :: L0) -> lookup y (ports m0) = Some (Connected cY) ->
    remote cY' = remote cY -> tx_dropped cY' = tx_dropped cY -> rx_dropped cY' = rx_dropped cY -> rx_closed cY' = rx_closed cY ->
    (forall y0, y0 <> y -> m_addr y0 msg = false) -> (forall k, m_reqn k msg = 0) -> (forall k, m_srv k msg = false) ->
    (forall s, rcl cY s y ((msg, pl) :: L0) -> rcl cY' s y L0) ->
    maybe_free (m0 <| ports := insert y (Connected cY') (ports m0) |>) y = Some (m2, effs) ->
    CoreR m2 L0.
  Proof.
    intros HC Hl E1 E2 E3 E4 A1 A2 A3 Hstep Hm.
    set (m1 := m0 <| ports := insert y (Connected cY') (ports m0) |>) in *.
    assert (H1 : CoreR m1 L0).
    { unfold CoreR, m1. prj.
      apply (core_pop _ _ _ _ _ _ _ _ _ _ (msg, pl) y cY cY' [] HC Hl); auto.
      - now rewrite lookup_insert, N.eqb_refl.
      - intros k Hk. apply N.eqb_neq in Hk. now rewrite lookup_insert, Hk.
      - intros k Hk. discriminate. }
    apply Core_sym in H1. unfold CoreR. apply Core_sym.
    destruct (maybe_free_core m1 y cY' m2 effs QY X L' L0 H1) as (H2 & _ & H3); [unfold m1; prj; now rewrite lookup_insert, N.eqb_refl|exact Hm|].
    exact H2.
  Qed.

  Lemma rv_Ping : recv_ok Ping.
  Proof. intros HC. cbn [handle_received]. apply (rv_plain Ping); auto; intros; reflexivity. Qed.
  Lemma rv_Listener : recv_ok ListenerFinish.
  Proof. intros HC. cbn [handle_received]. apply (rv_plain ListenerFinish); auto; intros; reflexivity. Qed.
  Lemma rv_Goodbye : recv_ok Goodbye.
  Proof. intros HC. cbn [handle_received]. apply (rv_plain Goodbye); auto; intros; reflexivity. Qed.
  Lemma rv_Client : recv_ok ClientFinish.
  Proof.
    intros HC. cbn [handle_received]. destruct (listen_open m0); [destruct (_ || _); [reflexivity|]|]; apply (rv_plain ClientFinish); auto; intros; reflexivity.
  Qed.
  Lemma rv_Bad msg : m_bad msg = true -> recv_ok msg.
  Proof. intros Hb HC. pose proof (c_badx _ _ _ _ _ _ _ _ HC) as Z. rewrite cnt_cons in Z. cbn [fst] in Z. rewrite Hb in Z. cbn [b2n] in Z. lia. Qed.

  Lemma rv_Open cp w id : recv_ok (OpenPort cp w id).
  Proof.
    intros HC. unfold CoreR in HC.
    assert (Hgen : forall m', ports m' = ports m0 -> outstanding m' = cp :: outstanding m0 -> CoreR m' L0).
    { intros m' E1 E2. unfold CoreR. rewrite E1, E2. eapply core_recv_open; [exact HC| |exact Hbuf]. intros k. reflexivity. }
    destruct (core_recv_open _ _ _ _ (cp :: outstanding m0) _ _ _ _ _ _ _ _ HC (fun k => eq_refl) Hbuf) as [Hm _].
    cbn [handle_received]. rewrite Hm. destruct (listen_open m0).
    - destruct (cfg_connect_queue m0 + 1 <=? (if w then lq_wait m0 else lq_nowait m0)); [reflexivity|].
      apply Hgen; destruct w; reflexivity.
    - apply Hgen; reflexivity.
  Qed.

  Lemma rv_PortOpened cp sp : recv_ok (PortOpened cp sp).
  Proof.
    intros HC. unfold CoreR in HC.
    destruct (rx_po_connecting _ _ _ _ _ _ (c_xy _ _ _ _ _ _ _ _ HC cp)) as (r & Hr); [rewrite cnt_cons; mev; lia|].
    cbn [handle_received]. rewrite Hr. unfold CoreR. prj.
    eapply core_recv_po; [exact HC|now rewrite lookup_insert, N.eqb_refl
                         |intros k Hk; apply N.eqb_neq in Hk; now rewrite lookup_insert, Hk| | | | | | | |exact Hbuf]; reflexivity.
  Qed.

  Lemma rv_Rejected cp np : recv_ok (Rejected cp np).
  Proof.
    intros HC. unfold CoreR in HC.
    destruct (core_recv_rj _ _ (remove cp (ports m0)) _ _ _ _ _ _ _ _ _ HC) as ((r & Hr) & H2).
    - now rewrite lookup_remove, N.eqb_refl.
    - intros k Hk. apply N.eqb_neq in Hk. now rewrite lookup_remove, Hk.
    - cbn [handle_received]. rewrite Hr. exact H2.
  Qed.

  Lemma rv_Data port f l : recv_ok (Data port f l).
  Proof.
    intros HC. destruct (rv_connected _ port HC) as (cY & Hl & Hr); [mev; reflexivity|reflexivity|].
    assert (Ho : rx_open cY = true) by (eapply pop_data; [| | |exact Hr]; mev; reflexivity).
    cbn [handle_received]. rewrite Hl, Ho.
    destruct ((n <? 4294967296) && (n <=? cfg_chunk m0)); [|reflexivity].
    destruct ((used cY + N.max DATA_MIN_COST n <? 4294967296) && (used cY + N.max DATA_MIN_COST n <=? cfg_buffer m0)); [|reflexivity].
    unfold CoreR in *. prj.
    eapply (core_pop _ _ _ _ _ _ _ _ _ _ (Data port f l, pl) port cY _ [] HC Hl);
      [now rewrite lookup_insert, N.eqb_refl|intros k Hk; apply N.eqb_neq in Hk; now rewrite lookup_insert, Hk
      |reflexivity|reflexivity|reflexivity|reflexivity| |intros k Hk; discriminate|reflexivity|reflexivity|reflexivity|exact Hbuf|].
    - intros y0 Hne. mev. apply N.eqb_neq. congruence.
    - intros s Hs. apply (rcl_flags cY); [unfold flags_eq; prj; auto 10|].
      eapply pop_data; [| | |exact Hs]; mev; reflexivity.
  Qed.

  Lemma rv_Credits port cr : recv_ok (PortCredits port cr).
  Proof.
    intros HC. destruct (rv_connected _ port HC) as (cY & Hl & Hr); [mev; reflexivity|reflexivity|].
    cbn [handle_received]. rewrite Hl. destruct (pool cY + cr <? 4294967296); [|reflexivity].
    unfold CoreR in *. prj.
    eapply (core_pop _ _ _ _ _ _ _ _ _ _ (PortCredits port cr, pl) port cY _ [] HC Hl);
      [now rewrite lookup_insert, N.eqb_refl|intros k Hk; apply N.eqb_neq in Hk; now rewrite lookup_insert, Hk
      |reflexivity|reflexivity|reflexivity|reflexivity| |intros k Hk; discriminate|reflexivity|reflexivity|reflexivity|exact Hbuf|].
    - intros y0 Hne. mev. apply N.eqb_neq. congruence.
    - intros s Hs. apply (rcl_flags cY); [unfold flags_eq; prj; auto 10|]. eapply pop_cred; eauto.
  Qed.

  Lemma maybe_free_total m y c : lookup y (ports m) = Some (Connected c) -> exists m2 effs, maybe_free m y = Some (m2, effs).
  Proof. intros H. unfold maybe_free. rewrite H. destruct (_ && _); eauto. Qed.

  Lemma rv_SendFinish port : recv_ok (SendFinish port).
  Proof.
    intros HC. destruct (rv_connected _ port HC) as (cY & Hl & Hr); [mev; reflexivity|reflexivity|].
    set (cY' := cY <| rx_open := false |> <| rxq := rxq cY ++ [(0, [])] |>).
    destruct (pop_sf cY cY' _ _ _ _ eq_refl eq_refl eq_refl eq_refl eq_refl Hr) as [Ho _].
    cbn [handle_received]. rewrite Hl, Ho. fold cY'.
    destruct (maybe_free_total (m0 <| ports := insert port (Connected cY') (ports m0) |>) port cY') as (m2 & effs & Hm);
      [prj; now rewrite lookup_insert, N.eqb_refl|]. rewrite Hm.
    eapply (rv_pop _ port cY cY'); eauto; try reflexivity.
    - intros y0 Hne. mev. apply N.eqb_neq. congruence.
    - intros s Hs. eapply pop_sf; [| | | | |exact Hs]; reflexivity.
  Qed.

  Lemma rv_ReceiveClose port : recv_ok (ReceiveClose port).
  Proof.
    intros HC. destruct (rv_connected _ port HC) as (cY & Hl & Hr); [mev; reflexivity|reflexivity|].
    set (cY' := cY <| pool_closed := Some true |> <| rrx_closed := true |>).
    destruct (pop_rc cY cY' _ _ _ _ eq_refl eq_refl eq_refl eq_refl eq_refl Hr) as [Ho _].
    cbn [handle_received]. rewrite Hl, Ho. cbn [negb]. fold cY'.
    destruct (maybe_free_total (m0 <| ports := insert port (Connected cY') (ports m0) |>) port cY') as (m2 & effs & Hm);
      [prj; now rewrite lookup_insert, N.eqb_refl|]. rewrite Hm.
    eapply (rv_pop _ port cY cY'); eauto; try reflexivity.
    - intros y0 Hne. mev. apply N.eqb_neq. congruence.
    - intros s Hs. eapply pop_rc; [| | | | |exact Hs]; reflexivity.
  Qed.

  Lemma rv_ReceiveFinish port : recv_ok (ReceiveFinish port).
  Proof.
    intros HC. destruct (rv_connected _ port HC) as (cY & Hl & Hr); [mev; reflexivity|reflexivity|].
    set (cY' := cY <| pool_closed := Some false |> <| rrx_closed := true |> <| rrx_dropped := true |>).
    cbn [handle_received]. rewrite Hl. fold cY'.
    destruct (maybe_free_total (m0 <| ports := insert port (Connected cY') (ports m0) |>) port cY') as (m2 & effs & Hm);
      [prj; now rewrite lookup_insert, N.eqb_refl|]. rewrite Hm.
    eapply (rv_pop _ port cY cY'); eauto; try reflexivity.
    - intros y0 Hne. mev. apply N.eqb_neq. congruence.
    - intros s Hs. eapply pop_rf; [| | | | |exact Hs]; reflexivity.
  Qed.

  Lemma rv_PortData port f l w ps ids : recv_ok (PortData port f l w ps ids).
  Proof.
    intros HC. destruct (rv_connected _ port HC) as (cY & Hl & Hr); [mev; reflexivity|reflexivity|].
    assert (Ho : rx_open cY = true) by (eapply pop_data; [| | |exact Hr]; mev; reflexivity).
    rewrite hr_PortData, Hl, Ho. destruct (is_nil ps); [reflexivity|].
    unfold CoreR in HC.
    destruct (ins_out_total ps (outstanding m0)) as (o & Hins).
    { eapply req_head; [exact HC|]. intros k. reflexivity. }
    rewrite Hins. cbv zeta.
    destruct ((PORT_COST * len ps <? 4294967296) && (PORT_COST * len ps <=? cfg_chunk m0)); [|reflexivity].
    destruct ((used cY + PORT_COST * len ps <? 4294967296) && (used cY + PORT_COST * len ps <=? cfg_buffer m0)); [|reflexivity].
    unfold CoreR. prj.
    eapply (core_pop _ _ _ _ _ _ _ _ _ _ (PortData port f l w ps ids, pl) port cY _ ps HC Hl);
      [now rewrite lookup_insert, N.eqb_refl|intros k Hk; apply N.eqb_neq in Hk; now rewrite lookup_insert, Hk
      |reflexivity|reflexivity|reflexivity|reflexivity| |intros k Hk y2; reflexivity|intros k; reflexivity|intros k; reflexivity
      | |exact Hbuf|].
    - intros y0 Hne. mev. apply N.eqb_neq. congruence.
    - intros k. apply (ins_out_spec _ _ _ Hins k).
    - intros s Hs. apply (rcl_flags cY); [unfold flags_eq; prj; auto 10|].
      eapply pop_data; [| | |exact Hs]; mev; reflexivity.
  Qed.

  Theorem recv_all msg : recv_ok msg.
  Proof.
    destruct msg.
    - now apply rv_Bad.
    - now apply rv_Bad.
    - apply rv_Ping.
    - apply rv_Open.
    - apply rv_PortOpened.
    - apply rv_Rejected.
    - apply rv_Data.
    - apply rv_PortData.
    - apply rv_Credits.
    - apply rv_SendFinish.
    - apply rv_ReceiveClose.
    - apply rv_ReceiveFinish.
    - apply rv_Client.
    - apply rv_Listener.
    - apply rv_Goodbye.
  Qed.
End RecvMsg.
