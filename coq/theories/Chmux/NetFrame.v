(** Frame lemmas for the composed invariant: a change that does not concern port [y] leaves the
    clause of [y] alone. *)
From Remoc Require Import Lib.Base Gen.Consts Chmux.Wire Chmux.Mux Chmux.Endpoint Chmux.EndpointLemmas Chmux.EndpointInv
  Chmux.EndpointSteps Chmux.Net Chmux.NetInv.
From RecordUpdate Require Import RecordUpdate.

(** * Consequences of a message not addressing [y] *)
Lemma m_other_false y m : m_other y m = false ->
  m_data y m = false /\ m_cred y m = false /\ m_rc y m = false /\ m_sf y m = false /\ m_rf y m = false /\
  m_credrc y m = false /\ m_fin y m = false.
Proof.
  unfold m_other, m_credrc, m_fin. destruct (m_data y m), (m_cred y m), (m_rc y m), (m_sf y m), (m_rf y m); cbn [orb];
    intros H; try discriminate; auto 10.
Qed.
Lemma m_addr_false y m : m_addr y m = false -> m_po y m = false /\ m_rj y m = false /\ m_other y m = false.
Proof. unfold m_addr. destruct (m_po y m), (m_rj y m), (m_other y m); cbn [orb]; intros H; try discriminate; auto. Qed.
Lemma m_pox_po y x m : m_pox y x m = true -> m_po y m = true.
Proof. destruct m; cbn [m_pox m_po]; try discriminate. intros H. apply andb_true_iff in H. tauto. Qed.

Lemma sub_sf y m : m_sf y m = true -> m_addr y m = true.
Proof. unfold m_addr, m_other, m_fin. intros ->. now rewrite !orb_true_r. Qed.
Lemma sub_rf y m : m_rf y m = true -> m_addr y m = true.
Proof. unfold m_addr, m_other, m_fin. intros ->. now rewrite !orb_true_r. Qed.
Lemma sub_rc y m : m_rc y m = true -> m_addr y m = true.
Proof. unfold m_addr, m_other, m_credrc. intros ->. now rewrite !orb_true_r. Qed.
Lemma sub_data y m : m_data y m = true -> m_addr y m = true.
Proof. unfold m_addr, m_other. intros ->. now rewrite !orb_true_r. Qed.
Lemma sub_credrc y m : m_credrc y m = true -> m_addr y m = true.
Proof. unfold m_addr, m_other. intros ->. now rewrite !orb_true_r. Qed.
Lemma sub_fin y m : m_fin y m = true -> m_addr y m = true.
Proof. unfold m_addr, m_other. intros ->. now rewrite !orb_true_r. Qed.
Lemma sub_other y m : m_other y m = true -> m_addr y m = true.
Proof. unfold m_addr. intros ->. now rewrite !orb_true_r. Qed.
Lemma sub_po y m : m_po y m = true -> m_addr y m = true.
Proof. unfold m_addr. intros ->. reflexivity. Qed.
Lemma sub_rj y m : m_rj y m = true -> m_addr y m = true.
Proof. unfold m_addr. intros ->. now rewrite !orb_true_r. Qed.
Lemma sub_pox y x m : m_pox y x m = true -> m_addr y m = true.
Proof. intros H. apply sub_po. eapply m_pox_po; eauto. Qed.
Lemma sub_addr y m : m_addr y m = true -> m_addr y m = true. Proof. auto. Qed.
#[global] Hint Resolve sub_sf sub_rf sub_rc sub_data sub_credrc sub_fin sub_other sub_po sub_rj sub_pox sub_addr : msub.

(** * Two links that agree on everything addressed to [y] *)
Definition leq (y : N) (L1 L2 : list frame) : Prop :=
  (forall f, (forall m, f m = true -> m_addr y m = true) -> cnt f L2 = cnt f L1) /\
  (forall f g, (forall m, g m = true -> m_addr y m = true) -> nafter f g L1 -> nafter f g L2).

Lemma leq_refl y L : leq y L L.
Proof. split; auto. Qed.
Lemma leq_snoc y L fr : m_addr y (fst fr) = false -> leq y L (L ++ [fr]).
Proof.
  intros H. split.
  - intros f Hf. rewrite cnt_snoc. destruct (f (fst fr)) eqn:E; [|cbn [b2n]; lia]. apply Hf in E. congruence.
  - intros f g Hg Hn. apply nafter_snoc_other; [exact Hn|]. destruct (g (fst fr)) eqn:E; [|reflexivity]. apply Hg in E. congruence.
Qed.
Lemma leq_pop y L fr : m_addr y (fst fr) = false -> leq y (fr :: L) L.
Proof.
  intros H. split.
  - intros f Hf. rewrite cnt_cons. destruct (f (fst fr)) eqn:E; [|cbn [b2n]; lia]. apply Hf in E. congruence.
  - intros f g Hg Hn. eapply nafter_tail; eauto.
Qed.

Lemma rcl_leq c s y L1 L2 : leq y L1 L2 -> rcl c s y L1 -> rcl c s y L2.
Proof.
  intros [Hc Hn] [H1 H2 H3 H4 H5 H6 H7 H8 H9 H10].
  constructor; rewrite ?(Hc (m_sf y)), ?(Hc (m_rf y)), ?(Hc (m_rc y)), ?(Hc (m_data y)), ?(Hc (m_credrc y)), ?(Hc (m_other y));
    auto with msub.
Qed.

(** changing the other end without changing what it has announced *)
Lemma rcl_pst c s s' y L :
  txf s' = txf s -> rxf s' = rxf s -> rxcf s' = rxcf s ->
  (s' = PGone -> tx_dropped c = true /\ rx_dropped c = true) ->
  (s' = PPend -> cnt (m_other y) L = 0) ->
  rcl c s y L -> rcl c s' y L.
Proof. intros E1 E2 E3 Hg Hp [H1 H2 H3 H4 H5 H6 H7 H8 H9 H10]. constructor; rewrite ?E1, ?E2, ?E3; auto. Qed.

(** the other end changed in a way this side cannot tell, or came to life *)
Definition pst_ok (s s' : pst) : Prop :=
  txf s' = txf s /\ rxf s' = rxf s /\ rxcf s' = rxcf s /\
  (s' = PGone -> s = PGone) /\ (s' = PPend -> s = PPend) /\ (forall c, s = PLive c -> exists c', s' = PLive c').
Lemma pst_ok_refl s : pst_ok s s.
Proof. unfold pst_ok. repeat split; auto. intros c ->. eauto. Qed.
Lemma pst_ok_eq s s' : s' = s -> pst_ok s s'.
Proof. intros ->. apply pst_ok_refl. Qed.
Lemma rcl_pst_ok c s s' y L : pst_ok s s' -> rcl c s y L -> rcl c s' y L.
Proof.
  intros (E1 & E2 & E3 & E4 & E5 & E6) H. apply (rcl_pst c s s' y L); auto.
  - intros Hs. apply (r_gone _ _ _ _ H). auto.
  - intros Hs. apply (r_pend _ _ _ _ H). auto.
Qed.

(** * The clause of [y] under a change that does not concern [y] *)
Lemma rx_frame PX PX' PY PY' OX OX' L1 L2 L1' L2' y :
  rx_clause PX PY OX L1 L1' y ->
  lookup y PY' = lookup y PY -> leq y L1 L2 -> mem y OX' = mem y OX -> reqcount y L2' = reqcount y L1' ->
  (forall x, pst_ok (pstat PX L1' x y) (pstat PX' L2' x y)) ->
  rx_clause PX' PY' OX' L2 L2' y.
Proof.
  intros H El Hq Eo Er Ep. unfold rx_clause in *. rewrite El. pose proof Hq as [Hc Hn].
  destruct (lookup y PY) as [[r|c]|].
  - destruct H as (H1 & H2 & H3 & H4). rewrite Eo, Er, (Hc (m_po y)), (Hc (m_rj y)), (Hc (m_other y)); auto with msub.
    split; [exact H1|split; [apply Hn; auto with msub|split; [exact H3|]]].
    intros x Hx. rewrite (Hc (m_pox y x)) in Hx by (intros m; apply sub_pox). destruct (H4 x Hx) as (cX & P1 & P2).
    pose proof (Ep x) as Hp. destruct Hp as (_ & _ & _ & _ & _ & Hl). destruct (Hl _ P1) as (cX' & P1').
    exists cX'. split; [exact P1'|]. rewrite <- P1'. eapply rcl_pst_ok; [apply Ep|]. rewrite P1. eapply rcl_leq; eauto.
  - destruct H as (H1 & H2 & H3 & H4 & H5 & H6). rewrite Eo, Er, (Hc (m_po y)), (Hc (m_rj y)); auto with msub.
    split; [exact H1|split; [exact H2|split; [exact H3|split; [exact H4|split]]]].
    + eapply rcl_pst_ok; [apply Ep|]. eapply rcl_leq; eauto.
    + intros Hg. apply Hn; auto with msub. apply H6. destruct (Ep (remote c)) as (_ & _ & _ & Hgone & _). auto.
  - destruct H as (H1 & H2 & H3). rewrite Eo, Er, (Hc (m_addr y)); auto.
Qed.

(** * [pstat] under table and link changes *)
Lemma pstat_other_key PX x y L p s : x <> p -> pstat (insert p s PX) L x y = pstat PX L x y.
Proof. intros H. unfold pstat. rewrite lookup_insert. apply N.eqb_neq in H. now rewrite H. Qed.
Lemma pstat_other_key_remove PX x y L p : x <> p -> pstat (remove p PX) L x y = pstat PX L x y.
Proof. intros H. unfold pstat. rewrite lookup_remove. apply N.eqb_neq in H. now rewrite H. Qed.
Lemma pstat_link PX L1 L2 x y : cnt (m_pox x y) L2 = cnt (m_pox x y) L1 -> pstat PX L2 x y = pstat PX L1 x y.
Proof. intros H. unfold pstat. now rewrite H. Qed.
Lemma pstat_live PX L x y c : pstat PX L x y = PLive c -> lookup x PX = Some (Connected c) /\ remote c = y.
Proof.
  unfold pstat. destruct (lookup x PX) as [[r|c0]|]; try discriminate.
  - destruct (0 <? _); discriminate.
  - destruct (remote c0 =? y) eqn:E; [|discriminate]. intros [= ->]. apply N.eqb_eq in E. auto.
Qed.
Lemma pstat_live_intro PX L x y c : lookup x PX = Some (Connected c) -> remote c = y -> pstat PX L x y = PLive c.
Proof. intros H <-. unfold pstat. now rewrite H, N.eqb_refl. Qed.
Lemma pstat_pend PX L x y : pstat PX L x y = PPend -> (exists r, lookup x PX = Some (Connecting r)) /\ 0 < cnt (m_pox x y) L.
Proof.
  unfold pstat. destruct (lookup x PX) as [[r|c0]|]; try discriminate.
  - destruct (0 <? cnt (m_pox x y) L) eqn:E; [|discriminate]. intros _. apply N.ltb_lt in E. eauto.
  - destruct (remote c0 =? y); discriminate.
Qed.
Lemma pstat_conn_other PX L x y c : lookup x PX = Some (Connected c) -> remote c <> y -> pstat PX L x y = PGone.
Proof. intros H Hn. unfold pstat. rewrite H. apply N.eqb_neq in Hn. now rewrite Hn. Qed.
Lemma pstat_none PX L x y : lookup x PX = None -> pstat PX L x y = PGone.
Proof. intros H. unfold pstat. now rewrite H. Qed.

(** * Small facts about the clauses *)
Lemma pox_two y x1 x2 L : x1 <> x2 -> cnt (m_pox y x1) L + cnt (m_pox y x2) L <= cnt (m_po y) L.
Proof.
  intros Hne. induction L as [|fr L IH]; [rewrite !cnt_nil; lia|]. rewrite !cnt_cons.
  destruct (fst fr); cbn [m_pox m_po b2n]; try lia.
  destruct (client_port =? y); cbn [andb b2n]; [|lia].
  destruct (server_port =? x1) eqn:E1, (server_port =? x2) eqn:E2; cbn [b2n]; lia.
Qed.

(** a port with a clause is known to the receiver as soon as something addressed to it is in flight *)
Lemma rx_addr_known PX PY OX L L' y : rx_clause PX PY OX L L' y -> 0 < cnt (m_addr y) L -> lookup y PY <> None.
Proof. unfold rx_clause. destruct (lookup y PY); [discriminate|]. intros (H & _) Hp. lia. Qed.
Lemma rx_po_connecting PX PY OX L L' y : rx_clause PX PY OX L L' y -> 0 < cnt (m_po y) L ->
  exists r, lookup y PY = Some (Connecting r).
Proof.
  unfold rx_clause. destruct (lookup y PY) as [[r|c]|].
  - eauto.
  - intros (H & _) Hp. lia.
  - intros (H & _) Hp. pose proof (cnt_le (m_po y) (m_addr y) L (sub_po y)). lia.
Qed.
Lemma rx_out_connecting PX PY OX L L' y : rx_clause PX PY OX L L' y -> mem y OX = true ->
  exists r, lookup y PY = Some (Connecting r).
Proof.
  unfold rx_clause. destruct (lookup y PY) as [[r|c]|].
  - eauto.
  - intros (_ & _ & H & _) Hp. congruence.
  - intros (_ & H & _) Hp. congruence.
Qed.
Lemma rx_req_connecting PX PY OX L L' y : rx_clause PX PY OX L L' y -> 0 < reqcount y L' ->
  exists r, lookup y PY = Some (Connecting r).
Proof.
  unfold rx_clause. destruct (lookup y PY) as [[r|c]|].
  - eauto.
  - intros (_ & _ & _ & H & _) Hp. lia.
  - intros (_ & _ & H) Hp. lia.
Qed.

(** * Evaluating the message predicates on a concrete message *)
Ltac head_of t := lazymatch t with ?f _ => head_of f | _ => t end.
Ltac mev_term t :=
  let v := eval cbv beta iota delta [m_addr m_other m_credrc m_fin m_po m_pox m_rj m_data m_cred m_rc m_sf m_rf m_reqn m_srv m_intro m_bad] in t in
  change t with v.
Ltac mev_term_in t H :=
  let v := eval cbv beta iota delta [m_addr m_other m_credrc m_fin m_po m_pox m_rj m_data m_cred m_rc m_sf m_rf m_reqn m_srv m_intro m_bad] in t in
  change t with v in H.
Ltac is_mpred2 p :=
  lazymatch p with
  | m_addr => idtac | m_other => idtac | m_credrc => idtac | m_fin => idtac | m_po => idtac | m_rj => idtac
  | m_data => idtac | m_cred => idtac | m_rc => idtac | m_sf => idtac | m_rf => idtac | m_reqn => idtac
  | m_srv => idtac | m_intro => idtac
  end.
Ltac mev :=
  cbn [fst] in *;
  repeat match goal with
  | |- context [m_pox ?y ?x ?m] => let h := head_of m in is_constructor h; mev_term (m_pox y x m)
  | |- context [m_bad ?m] => let h := head_of m in is_constructor h; mev_term (m_bad m)
  | |- context [?p ?y ?m] => is_mpred2 p; let h := head_of m in is_constructor h; mev_term (p y m)
  | H : context [m_pox ?y ?x ?m] |- _ => let h := head_of m in is_constructor h; mev_term_in (m_pox y x m) H
  | H : context [m_bad ?m] |- _ => let h := head_of m in is_constructor h; mev_term_in (m_bad m) H
  | H : context [?p ?y ?m] |- _ => is_mpred2 p; let h := head_of m in is_constructor h; mev_term_in (p y m) H
  end;
  cbn [orb andb b2n] in *; rewrite ?orb_false_r, ?andb_false_r, ?N.eqb_refl in *; cbn [orb andb b2n] in *.

Goal forall y x y0 pl L, y0 <> y -> cnt (m_other y) (L ++ [(PortOpened y x, pl)]) = cnt (m_other y) L /\ m_addr y0 (PortOpened y x) = false.
Proof. intros. rewrite cnt_snoc. mev. split; [lia|]. apply N.eqb_neq. congruence. Qed.
