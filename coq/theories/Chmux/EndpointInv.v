(** The well-formedness invariant [WF] of an endpoint ([Endpoint.v]) and how its components react to
    the elementary updates performed by the steps.

    [WF e] = no panic so far, the allocator holds pairwise distinct numbers, at most [max_ports] of
    them, every receive queue respects the advertised buffer and the listener queues their capacity
    (these hold even after the connection has been terminated), and -- while the dispatcher has not
    ended with an error -- [Inv e]:

    - [qs_ok]      [cq] carries only connect requests and the all-clients-dropped marker, [chq] only port events;
    - [num_ok]     for every number [p]: (occurrences of [p] in the pending [EConnectReq]/[EAccepted]/
                   [ESendPorts] events) + (1 if [p] is a key of the port table) <= (1 if [p] is allocated).
                   Hence pending numbers are allocated, pairwise distinct, not keys of the table, and
                   every key is allocated;
    - [req_ok]     [outstanding] is exactly the set of live [Request] objects ([requests]); the reply event
                   ([EAccepted _ r]/[ERejected r _]) of [r] is queued exactly once iff the request is in
                   state [RAnswered], and not at all otherwise;
    - [handle_ok]  for every port [p] with handle [h]: [ESenderDropped p] is queued once iff [h_tx = Queued]
                   (never otherwise), same for [EReceiverDropped]/[h_rx] and [EReceiverClosed]/[h_rxc]; no
                   [EReceiverClosed p] is queued behind an [EReceiverDropped p]; [h_rx = Gone] excludes
                   [h_rxc = Queued]; a [Connected] entry has a handle and [tx_dropped = (h_tx = Gone)],
                   [rx_dropped = (h_rx = Gone)], [rx_closed = (h_rxc = Gone)]; a port that is not
                   [Connected] has both halves [Gone] (so a half that is not [Gone] implies [Connected]);
    - [portq_ok]   a request is in state [RPortQ] iff it occurs (exactly once) in the receive queue of a
                   connected port whose receiver is alive;
    - [buf_ok]     per connected port: [used <= receive_buffer], at most one zero-cost item and only after
                   [SendFinish] (so [len rxq <= used + 1]), and NOT all four release flags (else it
                   would have been freed);
    - [lq_ok]      [lq_wait], [lq_nowait] [<= connect_queue + 1];
    - keys of the port table are unique;
    - [conn_ok]    (while not both Goodbyes) a local connect request in state [CWaiting] has exactly one
                   carrier: its queued [EConnectReq]/[ESendPorts] entry or its [Connecting] table entry;
                   a resolved or unknown request id has none.

    What is assumed about local users is exactly the enabledness of the [U..]/[N..] actions in
    [Endpoint.step_opt], i.e. what Rust ownership gives:
    - [UConnect]/[UAccept]/[USendPorts] bring numbers that are [fresh]: a [PortNumber] is obtained from
      THIS endpoint's allocator, is unique while it exists, and at most [max_ports] exist (a [PortNumber]
      of another multiplexer's allocator passed to [connect_ext]/[accept_from]/[Sender::connect] is
      outside the model);
    - [UConnect]/[USendPorts] bring new reply cells (fresh request ids);
    - [UDropTx]/[UDropRx]/[UCloseRx]/[USendData]/[USendPorts]/[UConsume]/[UReturnCredits] need the
      [Sender]/[Receiver] to be [Alive] (a value is dropped once; [close] takes [&mut Receiver] and is
      guarded by [closed]); the notifier tasks [NTx]/[NRx]/[NReq] fire once (oneshot);
    - [UAccept]/[UReject]/[UDropRequest] consume a [Request] that is held (by value);
      [UListenerTake]/[UDropListener] need the [Listener]. *)
From Remoc Require Import Lib.Base Gen.Consts Chmux.Wire Chmux.Mux Chmux.Endpoint Chmux.EndpointLemmas.
From RecordUpdate Require Import RecordUpdate.

(** * What pending events carry *)
(** port numbers ([PortNumber] objects) travelling inside an event *)
Definition ev_nums (ev : evt) : list N :=
  match ev with
  | EConnectReq p _ _ _ => [p]
  | EAccepted l _ => [l]
  | ESendPorts _ _ _ _ ps => map (fun x => fst (fst x)) ps
  | _ => []
  end.
Definition q_nums (l : list evt) : list N := flat_map ev_nums l.
(** local connect-request ids (response cells) travelling inside an event *)
Definition ev_reqs (ev : evt) : list N :=
  match ev with
  | EConnectReq _ _ _ req => [req]
  | ESendPorts _ _ _ _ ps => map (fun x => snd x) ps
  | _ => []
  end.
Definition q_reqs (l : list evt) : list N := flat_map ev_reqs l.
Definition st_reqs (s : option pstate) : list N := match s with Some (Connecting r) => [r] | _ => [] end.
(** sum of a per-entry list over the port table *)
Definition tab (f : N -> option pstate -> list N) (pt : list (N * pstate)) : list N :=
  flat_map (fun x => f (fst x) (Some (snd x))) pt.
Definition port_reqs (pt : list (N * pstate)) : list N := tab (fun _ s => st_reqs s) pt.

Definition is_reply (r : N) (ev : evt) : bool :=
  match ev with EAccepted _ r' => r' =? r | ERejected r' _ => r' =? r | _ => false end.
Definition is_sd (p : N) (ev : evt) : bool := match ev with ESenderDropped q => q =? p | _ => false end.
Definition is_rd (p : N) (ev : evt) : bool := match ev with EReceiverDropped q => q =? p | _ => false end.
Definition is_rc (p : N) (ev : evt) : bool := match ev with EReceiverClosed q => q =? p | _ => false end.

Definition is_queued (l : life) : bool := match l with Queued => true | _ => false end.
Definition is_gone (l : life) : bool := match l with Gone => true | _ => false end.
Definition is_answered (o : option rlife) : bool := match o with Some RAnswered => true | _ => false end.
Definition is_some {A} (o : option A) : bool := match o with Some _ => true | None => false end.
Definition is_waiting (o : option cstate) : bool := match o with Some CWaiting => true | _ => false end.
Definition is_connected (o : option pstate) : bool := match o with Some (Connected _) => true | _ => false end.
Definition is_alive (l : life) : bool := match l with Alive => true | _ => false end.
Definition is_portq (o : option rlife) : bool := match o with Some RPortQ => true | _ => false end.

(** no [g]-event behind an [f]-event *)
Fixpoint no_after {A} (f g : A -> bool) (l : list A) : Prop :=
  match l with [] => True | x :: r => (f x = true -> count g r = 0) /\ no_after f g r end.

Lemma no_after_snoc {A} (f g : A -> bool) l x :
  no_after f g l -> (g x = true -> count f l = 0) -> no_after f g (l ++ [x]).
Proof.
  induction l as [|a l IH]; cbn [app no_after count]; intros H Hx.
  - split; [reflexivity|exact I].
  - destruct H as [H1 H2]. split.
    + intros Hf. rewrite count_snoc. destruct (g x) eqn:Eg; cbn [b2n].
      * specialize (Hx eq_refl). rewrite Hf in Hx. cbn [b2n] in Hx. lia.
      * specialize (H1 Hf). lia.
    + apply IH; [exact H2|]. intros Hg. specialize (Hx Hg). lia.
Qed.

(** the handle of port [p] (a port that never had user objects behaves like one whose objects are gone) *)
Definition hget (hs : list (N * handle)) (p : N) : handle :=
  match lookup p hs with Some h => h | None => {| h_tx := Gone; h_rx := Gone; h_rxc := Alive |} end.

Lemma hget_insert hs p h q : hget (insert p h hs) q = if q =? p then h else hget hs q.
Proof. unfold hget. rewrite lookup_insert. now destruct (q =? p). Qed.

(** the requests sitting in the receive queue of port [k] (they die with the receiver) *)
Definition pq_ent (hs : list (N * handle)) (k : N) (s : option pstate) : list N :=
  match s with
  | Some (Connected c) => if is_alive (h_rx (hget hs k)) then flat_map snd (rxq c) else []
  | _ => []
  end.
Definition portq_reqs (hs : list (N * handle)) (pt : list (N * pstate)) : list N := tab (pq_ent hs) pt.

Definition all4 (c : conn) : bool := tx_dropped c && rx_dropped c && negb (rx_open c) && rrx_dropped c.

(** * Components of the invariant *)
(** allocator, pending numbers and table keys: every number has at most one owner, and an owned
    number is allocated *)
Definition num_ok (al : list N) (cq chq : list evt) (pt : list (N * pstate)) : Prop :=
  forall p, occ p (q_nums cq) + occ p (q_nums chq) + isK (lookup p pt) <= b2n (mem p al).

(** remote requests: [outstanding] = the live [Request] objects; exactly the answered ones have
    their (single) reply event queued *)
Definition req_ok (out : list N) (reqs : list (N * rlife)) (chq : list evt) : Prop :=
  forall r, count (is_reply r) chq = b2n (is_answered (lookup r reqs)) /\ mem r out = is_some (lookup r reqs).

(** a request is in state [RPortQ] iff it sits (once) in the receive queue of a port whose receiver is alive *)
Definition portq_ok (hs : list (N * handle)) (pt : list (N * pstate)) (reqs : list (N * rlife)) : Prop :=
  forall r, occ r (portq_reqs hs pt) = b2n (is_portq (lookup r reqs)).

(** user handles, their notification events and the flags in the table *)
Definition hok1 (h : handle) (has : bool) (chq : list evt) (st : option pstate) (p : N) : Prop :=
  count (is_sd p) chq = b2n (is_queued (h_tx h)) /\
  count (is_rd p) chq = b2n (is_queued (h_rx h)) /\
  count (is_rc p) chq = b2n (is_queued (h_rxc h)) /\
  no_after (is_rd p) (is_rc p) chq /\
  (h_rx h = Gone -> h_rxc h <> Queued) /\
  match st with
  | Some (Connected c) =>
      has = true /\
      tx_dropped c = is_gone (h_tx h) /\ rx_dropped c = is_gone (h_rx h) /\ rx_closed c = is_gone (h_rxc h)
  | _ => h_tx h = Gone /\ h_rx h = Gone
  end.
Definition handle_ok (hs : list (N * handle)) (chq : list evt) (pt : list (N * pstate)) : Prop :=
  forall p, hok1 (hget hs p) (is_some (lookup p hs)) chq (lookup p pt) p.

(** receive buffers; a connected entry never has all four flags (it would have been freed) *)
Definition buf_ok (buf : N) (pt : list (N * pstate)) : Prop :=
  forall p c, lookup p pt = Some (Connected c) ->
    used c <= buf /\ count (fun x => fst x =? 0) (rxq c) <= b2n (negb (rx_open c)) /\ all4 c = false.

Definition lq_ok (m : mux) : Prop :=
  lq_wait m <= cfg_connect_queue m + 1 /\ lq_nowait m <= cfg_connect_queue m + 1.

(** local connect requests: a waiting request has exactly one carrier (queued event or [Connecting]
    entry), a resolved or unknown one has none *)
Definition conn_ok (cs : list (N * cstate)) (cq chq : list evt) (pt : list (N * pstate)) : Prop :=
  forall req, occ req (q_reqs cq) + occ req (q_reqs chq) + occ req (port_reqs pt) = b2n (is_waiting (lookup req cs)).

(** which events travel in which queue *)
Definition cq_ev (ev : evt) : bool := match ev with EConnectReq _ _ _ _ | EAllClientsDropped => true | _ => false end.
Definition chq_ev (ev : evt) : bool :=
  match ev with
  | EAccepted _ _ | ERejected _ _ | ESendData _ _ _ _ | ESendPorts _ _ _ _ _ | EReturnCredits _ _
  | ESenderDropped _ | EReceiverClosed _ | EReceiverDropped _ => true
  | _ => false
  end.
Definition qs_ok (cq chq : list evt) : Prop := forallb cq_ev cq = true /\ forallb chq_ev chq = true.

(** the same with explicit lists of pending numbers / request ids *)
Definition num_ok' (al pend : list N) (pt : list (N * pstate)) : Prop :=
  forall p, occ p pend + isK (lookup p pt) <= b2n (mem p al).
Definition conn_ok' (cs : list (N * cstate)) (pend : list N) (pt : list (N * pstate)) : Prop :=
  forall req, occ req pend + occ req (port_reqs pt) = b2n (is_waiting (lookup req cs)).

Record Inv (e : ep) : Prop := mk_Inv {
  inv_qs : qs_ok (cq e) (chq e);
  inv_num : num_ok (alloc e) (cq e) (chq e) (ports (mx e));
  inv_req : req_ok (outstanding (mx e)) (requests e) (chq e);
  inv_h : handle_ok (handles e) (chq e) (ports (mx e));
  inv_pq : portq_ok (handles e) (ports (mx e)) (requests e);
  inv_buf : buf_ok (cfg_buffer (mx e)) (ports (mx e));
  inv_lq : lq_ok (mx e);
  inv_keys : NoDup (map fst (ports (mx e)));
  inv_conn : goodbye_sent (mx e) && goodbye_received (mx e) = false -> conn_ok (connects e) (cq e) (chq e) (ports (mx e))
}.

Record WF (e : ep) : Prop := mk_WF {
  wf_nopanic : panicked e = None;
  wf_nodup : NoDup (alloc e);
  wf_len : len (alloc e) <= max_ports e;
  wf_buf : buf_ok (cfg_buffer (mx e)) (ports (mx e));
  wf_lq : lq_ok (mx e);
  wf_inv : dead e = None -> Inv e
}.

(** * Small facts *)
Lemma q_nums_app l1 l2 : q_nums (l1 ++ l2) = q_nums l1 ++ q_nums l2. Proof. apply flat_map_app. Qed.
Lemma q_reqs_app l1 l2 : q_reqs (l1 ++ l2) = q_reqs l1 ++ q_reqs l2. Proof. apply flat_map_app. Qed.
Lemma q_nums_cons x l : q_nums (x :: l) = ev_nums x ++ q_nums l. Proof. reflexivity. Qed.
Lemma q_reqs_cons x l : q_reqs (x :: l) = ev_reqs x ++ q_reqs l. Proof. reflexivity. Qed.

Lemma b2n_le1 b : b2n b <= 1. Proof. destruct b; cbn [b2n]; lia. Qed.
Lemma isK_le1 {A} (o : option A) : isK o <= 1. Proof. destruct o; cbn [isK]; lia. Qed.

(** [tab] under table updates (keys are unique) *)
Lemma tab_remove f r k pt :
  NoDup (map fst pt) -> (forall k, f k None = []) ->
  occ r (tab f (remove k pt)) + occ r (f k (lookup k pt)) = occ r (tab f pt).
Proof.
  intros Hn Hf. induction pt as [|[k1 v] pt IH]; cbn [remove lookup map fst] in *.
  - rewrite Hf. reflexivity.
  - inversion Hn as [|? ? Hx Hn']; subst. specialize (IH Hn').
    unfold tab in *. cbn [flat_map snd fst]. destruct (k =? k1) eqn:E.
    + apply N.eqb_eq in E. subst k1. rewrite occ_app.
      assert (lookup k pt = None) as Hl by now apply lookup_None_keys.
      rewrite Hl, Hf, occ_nil in IH. lia.
    + cbn [flat_map snd fst]. rewrite !occ_app. lia.
Qed.
Lemma tab_insert f r k v pt :
  NoDup (map fst pt) -> (forall k, f k None = []) ->
  occ r (tab f (insert k v pt)) + occ r (f k (lookup k pt)) = occ r (tab f pt) + occ r (f k (Some v)).
Proof.
  intros Hn Hf. pose proof (tab_remove f r k pt Hn Hf) as H. unfold insert, tab in *.
  cbn [flat_map snd fst]. rewrite occ_app. lia.
Qed.
Lemma tab_ext f g pt : (forall k v, In k (map fst pt) -> f k v = g k v) -> tab f pt = tab g pt.
Proof.
  induction pt as [|[k1 v] pt IH]; intros H; unfold tab in *; cbn [flat_map fst snd map In] in *; [reflexivity|].
  f_equal; [apply H; auto|]. apply IH. intros k v0 Hl. apply H. auto.
Qed.
(** two per-entry functions that differ only at key [p] *)
Lemma tab_change f g r p pt :
  NoDup (map fst pt) -> (forall k, f k None = []) -> (forall k, g k None = []) ->
  (forall k v, k <> p -> f k v = g k v) ->
  occ r (tab f pt) + occ r (g p (lookup p pt)) = occ r (tab g pt) + occ r (f p (lookup p pt)).
Proof.
  intros Hn Hf Hg Hfg. pose proof (tab_remove f r p pt Hn Hf) as H1. pose proof (tab_remove g r p pt Hn Hg) as H2.
  assert (tab f (remove p pt) = tab g (remove p pt)) as E.
  { apply tab_ext. intros k v Hk. apply keys_remove in Hk. apply Hfg. tauto. }
  rewrite E in H1. lia.
Qed.

Lemma pq_ent_None hs k : pq_ent hs k None = []. Proof. reflexivity. Qed.
Lemma st_reqs_None (k : N) : (fun (_ : N) s => st_reqs s) k None = []. Proof. reflexivity. Qed.

(** * Helpers for the list-valued actions *)
Lemma lookup_fold_insert {A} (st : A) rs reqs r :
  lookup r (fold_left (fun acc r => insert r st acc) rs reqs) = if mem r rs then Some st else lookup r reqs.
Proof.
  revert reqs. induction rs as [|x rs IH]; intros reqs; cbn [fold_left mem]; [reflexivity|].
  rewrite IH, lookup_insert. destruct (r =? x); cbn [orb]; [|reflexivity]. now destruct (mem r rs).
Qed.

Definition nodupb : list N -> bool :=
  fix nodup (l : list N) : bool := match l with [] => true | x :: r => negb (mem x r) && nodup r end.
Lemma nodupb_occ l r : nodupb l = true -> occ r l = b2n (mem r l).
Proof.
  induction l as [|x l IH]; cbn [nodupb mem]; [reflexivity|]. intros H.
  apply andb_true_iff in H as [H1 H2]. apply negb_true_iff in H1. specialize (IH H2).
  rewrite occ_cons, (N.eqb_sym x r). destruct (r =? x) eqn:E; cbn [orb b2n].
  - apply N.eqb_eq in E. subst x. apply occ_mem in H1. lia.
  - lia.
Qed.

Definition all_fresh_go (maxp : N) : list N -> list N -> bool :=
  fix go (l : list N) (a : list N) : bool :=
    match l with
    | [] => true
    | p :: r => negb (mem p a) && (len a <? maxp) && go r (p :: a)
    end.
Lemma all_fresh_go_spec maxp l a :
  all_fresh_go maxp l a = true -> NoDup a -> len a <= maxp ->
  NoDup (rev l ++ a) /\ len (rev l ++ a) <= maxp /\
  forall p, occ p l + b2n (mem p a) = b2n (mem p (rev l ++ a)).
Proof.
  revert a. induction l as [|x l IH]; intros a H Hn Hl; cbn [all_fresh_go rev app] in *.
  - repeat split; auto.
  - apply andb_true_iff in H as [H H3]. apply andb_true_iff in H as [H1 H2].
    apply negb_true_iff in H1. apply N.ltb_lt in H2.
    destruct (IH (x :: a) H3) as (I1 & I2 & I3).
    + constructor; [now apply mem_false_In|exact Hn].
    + rewrite len_cons. lia.
    + rewrite <- app_assoc. cbn [app]. repeat split; auto.
      intros p. specialize (I3 p). rewrite occ_cons. cbn [mem] in I3. rewrite (N.eqb_sym x p).
      destruct (p =? x) eqn:E; cbn [orb b2n] in *; [|lia].
      apply N.eqb_eq in E. subst x. rewrite H1. cbn [b2n]. lia.
Qed.
Lemma all_fresh_spec e nums :
  all_fresh e nums = true -> NoDup (alloc e) -> len (alloc e) <= max_ports e ->
  NoDup (rev nums ++ alloc e) /\ len (rev nums ++ alloc e) <= max_ports e /\
  forall p, occ p nums + b2n (mem p (alloc e)) = b2n (mem p (rev nums ++ alloc e)).
Proof. apply all_fresh_go_spec. Qed.

(** pushing an event that does not concern handles / replies *)
Definition neutral_h (p : N) (ev : evt) : Prop := is_sd p ev = false /\ is_rd p ev = false /\ is_rc p ev = false.
Lemma hok1_push h has chq st p ev : neutral_h p ev -> hok1 h has chq st p -> hok1 h has (chq ++ [ev]) st p.
Proof.
  intros (E1 & E2 & E3) (H1 & H2 & H3 & H4 & H5). unfold hok1.
  rewrite !count_snoc, E1, E2, E3. cbn [b2n]. rewrite !N.add_0_r.
  repeat split; auto; try apply H5.
  apply no_after_snoc; [exact H4|]. rewrite E3. discriminate.
Qed.
Lemma hok1_pop h has q st p ev : neutral_h p ev -> hok1 h has (ev :: q) st p -> hok1 h has q st p.
Proof.
  intros (E1 & E2 & E3) (H1 & H2 & H3 & H4 & H5). unfold hok1.
  rewrite !count_cons, ?E1, ?E2, ?E3 in *. cbn [b2n] in *. rewrite !N.add_0_l in *.
  repeat split; auto; try apply H5. apply H4.
Qed.
Lemma handle_ok_push hs chq pt ev :
  (forall p, neutral_h p ev) -> handle_ok hs chq pt -> handle_ok hs (chq ++ [ev]) pt.
Proof. intros Hev H p. apply hok1_push; auto. Qed.
Lemma handle_ok_pop hs q pt ev :
  (forall p, neutral_h p ev) -> handle_ok hs (ev :: q) pt -> handle_ok hs q pt.
Proof. intros Hev H p. eapply hok1_pop; eauto. Qed.
(** handle [p] changes and an event that concerns only [p] is pushed *)
Lemma handle_ok_set_push hs chq pt p h' ev :
  handle_ok hs chq pt -> (forall p0, p0 <> p -> neutral_h p0 ev) ->
  hok1 h' true (chq ++ [ev]) (lookup p pt) p ->
  handle_ok (insert p h' hs) (chq ++ [ev]) pt.
Proof.
  intros H Hev Hp p0. rewrite hget_insert, lookup_insert. destruct (p0 =? p) eqn:E.
  - apply N.eqb_eq in E. subst p0. exact Hp.
  - apply N.eqb_neq in E. apply hok1_push; auto.
Qed.
Lemma handle_ok_set hs chq pt p h' :
  handle_ok hs chq pt -> hok1 h' true chq (lookup p pt) p -> handle_ok (insert p h' hs) chq pt.
Proof.
  intros H Hp p0. rewrite hget_insert, lookup_insert. destruct (p0 =? p) eqn:E.
  - apply N.eqb_eq in E. subst p0. exact Hp.
  - apply H.
Qed.
Lemma req_ok_push out reqs chq ev :
  (forall r, is_reply r ev = false) -> req_ok out reqs chq -> req_ok out reqs (chq ++ [ev]).
Proof. intros Hev H r. specialize (H r). rewrite count_snoc, Hev. cbn [b2n]. rewrite N.add_0_r. exact H. Qed.
Lemma num_ok_push_chq al cq chq pt ev : ev_nums ev = [] -> num_ok al cq chq pt -> num_ok al cq (chq ++ [ev]) pt.
Proof.
  intros Hev H p. specialize (H p). rewrite q_nums_app, occ_app. cbn [q_nums flat_map]. rewrite Hev. cbn [app].
  rewrite occ_nil. lia.
Qed.
Lemma num_ok_push_cq al cq chq pt ev : ev_nums ev = [] -> num_ok al cq chq pt -> num_ok al (cq ++ [ev]) chq pt.
Proof.
  intros Hev H p. specialize (H p). rewrite q_nums_app, occ_app. cbn [q_nums flat_map]. rewrite Hev. cbn [app].
  rewrite occ_nil. lia.
Qed.
Lemma conn_ok_push_chq cs cq chq pt ev : ev_reqs ev = [] -> conn_ok cs cq chq pt -> conn_ok cs cq (chq ++ [ev]) pt.
Proof.
  intros Hev H p. specialize (H p). rewrite q_reqs_app, occ_app. cbn [q_reqs flat_map]. rewrite Hev. cbn [app].
  rewrite occ_nil. lia.
Qed.
Lemma conn_ok_push_cq cs cq chq pt ev : ev_reqs ev = [] -> conn_ok cs cq chq pt -> conn_ok cs (cq ++ [ev]) chq pt.
Proof.
  intros Hev H p. specialize (H p). rewrite q_reqs_app, occ_app. cbn [q_reqs flat_map]. rewrite Hev. cbn [app].
  rewrite occ_nil. lia.
Qed.

(** * Replacing a table entry *)
Lemma num_ok_upd al cq chq pt p s s' :
  lookup p pt = Some s -> num_ok al cq chq pt -> num_ok al cq chq (insert p s' pt).
Proof.
  intros Hl H p0. specialize (H p0). rewrite lookup_insert. destruct (p0 =? p) eqn:E; [|exact H].
  apply N.eqb_eq in E. subst p0. rewrite Hl in H. exact H.
Qed.
Lemma conn_ok_upd cs cq chq pt p c c' :
  NoDup (map fst pt) -> lookup p pt = Some (Connected c) ->
  conn_ok cs cq chq pt -> conn_ok cs cq chq (insert p (Connected c') pt).
Proof.
  intros Hn Hl H r. specialize (H r). unfold port_reqs in *.
  pose proof (tab_insert (fun _ s => st_reqs s) r p (Connected c') pt Hn st_reqs_None) as T. cbv beta in T.
  rewrite Hl in T. cbn [st_reqs] in T. lia.
Qed.
Lemma buf_ok_upd buf pt p c' :
  buf_ok buf pt ->
  (used c' <= buf /\ count (fun x => fst x =? 0) (rxq c') <= b2n (negb (rx_open c')) /\ all4 c' = false) ->
  buf_ok buf (insert p (Connected c') pt).
Proof.
  intros H Hc p0 c0. rewrite lookup_insert. destruct (p0 =? p); [|apply H]. intros [= <-]. exact Hc.
Qed.
Lemma portq_ok_upd hs pt reqs p c c' :
  NoDup (map fst pt) -> lookup p pt = Some (Connected c) -> flat_map snd (rxq c') = flat_map snd (rxq c) ->
  portq_ok hs pt reqs -> portq_ok hs (insert p (Connected c') pt) reqs.
Proof.
  intros Hn Hl Hq H r. specialize (H r). unfold portq_reqs in *.
  pose proof (tab_insert (pq_ent hs) r p (Connected c') pt Hn (pq_ent_None hs)) as T.
  rewrite Hl in T. assert (pq_ent hs p (Some (Connected c')) = pq_ent hs p (Some (Connected c))) as E.
  { unfold pq_ent. now rewrite Hq. }
  rewrite E in T. lia.
Qed.
Lemma hok1_conn h has chq c c' p :
  tx_dropped c' = tx_dropped c -> rx_dropped c' = rx_dropped c -> rx_closed c' = rx_closed c ->
  hok1 h has chq (Some (Connected c)) p -> hok1 h has chq (Some (Connected c')) p.
Proof. intros E1 E2 E3. unfold hok1. rewrite E1, E2, E3. tauto. Qed.
Lemma handle_ok_upd hs chq pt p c c' :
  lookup p pt = Some (Connected c) ->
  tx_dropped c' = tx_dropped c -> rx_dropped c' = rx_dropped c -> rx_closed c' = rx_closed c ->
  handle_ok hs chq pt -> handle_ok hs chq (insert p (Connected c') pt).
Proof.
  intros Hl E1 E2 E3 H p0. specialize (H p0). rewrite lookup_insert. destruct (p0 =? p) eqn:E; [|exact H].
  apply N.eqb_eq in E. subst p0. rewrite Hl in H. eapply hok1_conn; eauto.
Qed.

(** * Pops *)
Lemma num_ok_pop_chq al cq q pt ev : ev_nums ev = [] -> num_ok al cq (ev :: q) pt -> num_ok al cq q pt.
Proof. intros Hev H p. specialize (H p). rewrite q_nums_cons, Hev in H. exact H. Qed.
Lemma num_ok_pop_cq al q chq pt ev : ev_nums ev = [] -> num_ok al (ev :: q) chq pt -> num_ok al q chq pt.
Proof. intros Hev H p. specialize (H p). rewrite q_nums_cons, Hev in H. exact H. Qed.
Lemma conn_ok_pop_chq cs cq q pt ev : ev_reqs ev = [] -> conn_ok cs cq (ev :: q) pt -> conn_ok cs cq q pt.
Proof. intros Hev H p. specialize (H p). rewrite q_reqs_cons, Hev in H. exact H. Qed.
Lemma conn_ok_pop_cq cs q chq pt ev : ev_reqs ev = [] -> conn_ok cs (ev :: q) chq pt -> conn_ok cs q chq pt.
Proof. intros Hev H p. specialize (H p). rewrite q_reqs_cons, Hev in H. exact H. Qed.
Lemma req_ok_pop out reqs q ev : (forall r, is_reply r ev = false) -> req_ok out reqs (ev :: q) -> req_ok out reqs q.
Proof. intros Hev H r. specialize (H r). rewrite count_cons, Hev in H. exact H. Qed.

(** * Removing a table entry *)
Lemma num_ok_remove al cq chq pt p :
  lookup p pt <> None -> num_ok al cq chq pt -> num_ok (del p al) cq chq (remove p pt).
Proof.
  intros Hl H p0. pose proof (H p0) as H0. rewrite lookup_remove, mem_del. destruct (p0 =? p) eqn:E; [|exact H0].
  apply N.eqb_eq in E. subst p0. destruct (lookup p pt); [|congruence]. cbn [isK b2n] in *.
  pose proof (b2n_le1 (mem p al)). lia.
Qed.
Lemma buf_ok_remove buf pt p : buf_ok buf pt -> buf_ok buf (remove p pt).
Proof. intros H p0 c. rewrite lookup_remove. destruct (p0 =? p); [discriminate|apply H]. Qed.
Lemma portq_ok_remove hs pt reqs p :
  NoDup (map fst pt) -> pq_ent hs p (lookup p pt) = [] -> portq_ok hs pt reqs -> portq_ok hs (remove p pt) reqs.
Proof.
  intros Hn He H r. specialize (H r). unfold portq_reqs in *.
  pose proof (tab_remove (pq_ent hs) r p pt Hn (pq_ent_None hs)) as T. rewrite He, occ_nil in T. lia.
Qed.
Lemma portq_ok_insert hs pt reqs p s :
  NoDup (map fst pt) -> pq_ent hs p (lookup p pt) = [] -> pq_ent hs p (Some s) = [] ->
  portq_ok hs pt reqs -> portq_ok hs (insert p s pt) reqs.
Proof.
  intros Hn He Hs H r. specialize (H r). unfold portq_reqs in *.
  pose proof (tab_insert (pq_ent hs) r p s pt Hn (pq_ent_None hs)) as T. rewrite He, Hs, occ_nil in T. lia.
Qed.
Lemma conn_ok_remove cs cq chq pt p :
  NoDup (map fst pt) -> st_reqs (lookup p pt) = [] -> conn_ok cs cq chq pt -> conn_ok cs cq chq (remove p pt).
Proof.
  intros Hn Hl H r. specialize (H r). unfold port_reqs in *.
  pose proof (tab_remove (fun _ s => st_reqs s) r p pt Hn st_reqs_None) as T. cbv beta in T.
  rewrite Hl, occ_nil in T. lia.
Qed.

(** general shape of a change of [handle_ok] that is local to port [p] *)
Lemma handle_ok_gen hs hs' chq chq' pt pt' p :
  handle_ok hs chq pt ->
  (forall p0, p0 <> p -> hget hs' p0 = hget hs p0 /\ lookup p0 hs' = lookup p0 hs /\ lookup p0 pt' = lookup p0 pt) ->
  (forall p0 h has st, p0 <> p -> hok1 h has chq st p0 -> hok1 h has chq' st p0) ->
  hok1 (hget hs' p) (is_some (lookup p hs')) chq' (lookup p pt') p ->
  handle_ok hs' chq' pt'.
Proof.
  intros H H1 H2 Hp p0. destruct (N.eq_dec p0 p) as [->|Hne]; [exact Hp|].
  destruct (H1 p0 Hne) as (E1 & E2 & E3). rewrite E1, E2, E3. apply H2; auto.
Qed.

Lemma num_ok_iff al cq chq pt : num_ok al cq chq pt <-> num_ok' al (q_nums cq ++ q_nums chq) pt.
Proof. unfold num_ok, num_ok'. split; intros H p; specialize (H p); rewrite occ_app in *; lia. Qed.
Lemma conn_ok_iff cs cq chq pt : conn_ok cs cq chq pt <-> conn_ok' cs (q_reqs cq ++ q_reqs chq) pt.
Proof. unfold conn_ok, conn_ok'. split; intros H p; specialize (H p); rewrite occ_app in *; lia. Qed.

Lemma qs_ok_push_chq cq chq ev : chq_ev ev = true -> qs_ok cq chq -> qs_ok cq (chq ++ [ev]).
Proof. intros Hev [H1 H2]. split; [exact H1|]. rewrite forallb_app, H2. cbn [forallb]. now rewrite Hev. Qed.
Lemma qs_ok_push_cq cq chq ev : cq_ev ev = true -> qs_ok cq chq -> qs_ok (cq ++ [ev]) chq.
Proof. intros Hev [H1 H2]. split; [|exact H2]. rewrite forallb_app, H1. cbn [forallb]. now rewrite Hev. Qed.
Lemma qs_ok_pop_chq cq q ev : qs_ok cq (ev :: q) -> chq_ev ev = true /\ qs_ok cq q.
Proof. intros [H1 H2]. cbn [forallb] in H2. apply andb_true_iff in H2 as [H2 H3]. repeat split; auto. Qed.
Lemma qs_ok_pop_cq q chq ev : qs_ok (ev :: q) chq -> cq_ev ev = true /\ qs_ok q chq.
Proof. intros [H1 H2]. cbn [forallb] in H1. apply andb_true_iff in H1 as [H1 H3]. repeat split; auto. Qed.

(** * A pending number becomes a [Connecting] entry *)
Lemma num_step al pend pend' pt p s :
  (forall x, occ x pend = b2n (p =? x) + occ x pend') -> num_ok' al pend pt ->
  lookup p pt = None /\ num_ok' al pend' (insert p s pt).
Proof.
  intros Hp H. assert (lookup p pt = None) as Hl.
  { specialize (H p). rewrite Hp, N.eqb_refl in H. cbn [b2n] in H. pose proof (b2n_le1 (mem p al)).
    destruct (lookup p pt); [cbn [isK] in H; lia|reflexivity]. }
  split; [exact Hl|]. intros x. specialize (H x). rewrite Hp in H. rewrite lookup_insert, (N.eqb_sym x p).
  destruct (p =? x) eqn:E; cbn [b2n isK] in *; [|lia]. apply N.eqb_eq in E. subst x. rewrite Hl in H. cbn [isK] in H. lia.
Qed.
Lemma conn_step cs pend pend' pt p req :
  NoDup (map fst pt) -> lookup p pt = None ->
  (forall x, occ x pend = b2n (req =? x) + occ x pend') -> conn_ok' cs pend pt ->
  conn_ok' cs pend' (insert p (Connecting req) pt).
Proof.
  intros Hn Hl Hp H x. specialize (H x). rewrite Hp in H. unfold port_reqs in *.
  pose proof (tab_insert (fun _ s => st_reqs s) x p (Connecting req) pt Hn st_reqs_None) as T. cbv beta in T.
  rewrite Hl in T. cbn [st_reqs] in T. rewrite occ_cons, occ_nil in T. lia.
Qed.
Lemma handle_ok_insert_connecting hs chq pt p req :
  lookup p pt = None -> handle_ok hs chq pt -> handle_ok hs chq (insert p (Connecting req) pt).
Proof.
  intros Hl H p0. specialize (H p0). rewrite lookup_insert. destruct (p0 =? p) eqn:E; [|exact H].
  apply N.eqb_eq in E. subst p0. rewrite Hl in H. exact H.
Qed.
Lemma buf_ok_insert_connecting buf pt p req : buf_ok buf pt -> buf_ok buf (insert p (Connecting req) pt).
Proof. intros H p0 c. rewrite lookup_insert. destruct (p0 =? p); [discriminate|apply H]. Qed.
Lemma portq_ok_insert_connecting hs pt reqs p req :
  NoDup (map fst pt) -> lookup p pt = None -> portq_ok hs pt reqs -> portq_ok hs (insert p (Connecting req) pt) reqs.
Proof. intros Hn Hl. apply portq_ok_insert; [exact Hn|now rewrite Hl|reflexivity]. Qed.

(** the table-only components *)
Definition tab_ok (hs : list (N * handle)) (chq : list evt) (reqs : list (N * rlife)) (buf : N) (pt : list (N * pstate)) : Prop :=
  handle_ok hs chq pt /\ portq_ok hs pt reqs /\ buf_ok buf pt /\ NoDup (map fst pt).
Lemma tab_ok_insert_connecting hs chq reqs buf pt p req :
  lookup p pt = None -> tab_ok hs chq reqs buf pt -> tab_ok hs chq reqs buf (insert p (Connecting req) pt).
Proof.
  intros Hl (H1 & H2 & H3 & H4). split; [|split; [|split]].
  - now apply handle_ok_insert_connecting.
  - now apply portq_ok_insert_connecting.
  - now apply buf_ok_insert_connecting.
  - now apply NoDup_keys_insert.
Qed.

(** [SendPorts]: the loop that enters the ports as [Connecting] *)
Definition ins_ports : list (N * N * N) -> list (N * pstate) -> option (list (N * pstate)) :=
  fix ins (l : list (N * N * N)) (pt : list (N * pstate)) : option (list (N * pstate)) :=
    match l with
    | [] => Some pt
    | (p, _, req) :: r =>
        match lookup p pt with
        | Some _ => None
        | None => ins r (insert p (Connecting req) pt)
        end
    end.
Lemma ins_ports_ok al cs hs chq reqs buf pend rpend : forall ps pt,
  num_ok' al (map (fun x => fst (fst x)) ps ++ pend) pt ->
  conn_ok' cs (map (fun x => snd x) ps ++ rpend) pt ->
  tab_ok hs chq reqs buf pt ->
  exists pt', ins_ports ps pt = Some pt' /\ num_ok' al pend pt' /\ conn_ok' cs rpend pt' /\ tab_ok hs chq reqs buf pt'.
Proof.
  induction ps as [|[[p id] req] ps IH]; intros pt Hn Hc Ht; cbn [ins_ports map app fst snd] in *.
  - exists pt. auto.
  - destruct (num_step al (p :: map (fun x => fst (fst x)) ps ++ pend) (map (fun x => fst (fst x)) ps ++ pend) pt p (Connecting req)) as [Hl Hn']; [|exact Hn|].
    { intros x. now rewrite occ_cons. }
    rewrite Hl. apply IH.
    + exact Hn'.
    + eapply conn_step; [apply Ht|exact Hl| |exact Hc]. intros x. now rewrite occ_cons.
    + now apply tab_ok_insert_connecting.
Qed.

(** * A new connected port and its user objects *)
Definition fresh_handle : handle := {| h_tx := Alive; h_rx := Alive; h_rxc := Alive |}.

Lemma portq_ok_handle_nonconn hs pt reqs p h' :
  NoDup (map fst pt) -> is_connected (lookup p pt) = false ->
  portq_ok hs pt reqs -> portq_ok (insert p h' hs) pt reqs.
Proof.
  intros Hn Hc H r. specialize (H r). unfold portq_reqs in *.
  pose proof (tab_change (pq_ent hs) (pq_ent (insert p h' hs)) r p pt Hn (pq_ent_None _) (pq_ent_None _)) as T.
  assert (forall hs0, pq_ent hs0 p (lookup p pt) = []) as E.
  { intros hs0. unfold pq_ent. destruct (lookup p pt) as [[|]|]; try reflexivity. discriminate. }
  rewrite !E, occ_nil in T. rewrite !N.add_0_r in T. rewrite <- T; [exact H|].
  intros k v Hk. unfold pq_ent. rewrite hget_insert. apply N.eqb_neq in Hk. now rewrite Hk.
Qed.

Lemma tab_newport hs chq reqs buf pt p m rp :
  tab_ok hs chq reqs buf pt -> is_connected (lookup p pt) = false ->
  tab_ok (insert p fresh_handle hs) chq reqs buf (insert p (Connected (new_conn m rp)) pt).
Proof.
  intros (H1 & H2 & H3 & H4) Hc. split; [|split; [|split]].
  - apply (handle_ok_gen hs _ chq chq pt _ p H1).
    + intros p0 Hne. apply N.eqb_neq in Hne. rewrite hget_insert, !lookup_insert, Hne. auto.
    + auto.
    + rewrite hget_insert, !lookup_insert, N.eqb_refl. specialize (H1 p). unfold hok1 in *.
      destruct H1 as (K0 & K1 & K2 & K3 & K4 & K5).
      assert (h_tx (hget hs p) = Gone /\ h_rx (hget hs p) = Gone) as [G1 G2].
      { destruct (lookup p pt) as [[|]|]; try exact K5. discriminate. }
      rewrite G1, G2 in *. specialize (K4 eq_refl).
      cbn [fresh_handle h_tx h_rx h_rxc is_queued is_gone b2n new_conn tx_dropped rx_dropped rx_closed is_some] in *.
      repeat split; auto; try discriminate.
      destruct (h_rxc (hget hs p)); cbn [is_queued b2n] in K2; try exact K2. congruence.
  - apply portq_ok_insert; [exact H4| | |].
    + unfold pq_ent. destruct (lookup p pt) as [[|]|]; try reflexivity. discriminate.
    + unfold pq_ent. cbn [new_conn rxq flat_map]. now destruct (is_alive _).
    + now apply portq_ok_handle_nonconn.
  - apply buf_ok_upd; [exact H3|]. unfold used, all4. cbn [new_conn rxq map sum count tx_dropped rx_open andb negb b2n].
    repeat split; lia.
  - now apply NoDup_keys_insert.
Qed.

Lemma conn_ok_newport cs cq chq pt p c :
  NoDup (map fst pt) -> st_reqs (lookup p pt) = [] -> conn_ok cs cq chq pt -> conn_ok cs cq chq (insert p (Connected c) pt).
Proof.
  intros Hn Hl H r. specialize (H r). unfold port_reqs in *.
  pose proof (tab_insert (fun _ s => st_reqs s) r p (Connected c) pt Hn st_reqs_None) as T. cbv beta in T.
  rewrite Hl in T. cbn [st_reqs] in T. rewrite occ_nil in T. lia.
Qed.

Lemma portq_ok_remove_req hs pt reqs r :
  is_portq (lookup r reqs) = false -> portq_ok hs pt reqs -> portq_ok hs pt (remove r reqs).
Proof.
  intros Hl H r0. specialize (H r0). rewrite lookup_remove. destruct (r0 =? r) eqn:E; [|exact H].
  apply N.eqb_eq in E. subst r0. rewrite Hl in H. exact H.
Qed.
Lemma tab_ok_reqs hs chq reqs reqs' buf pt :
  (portq_ok hs pt reqs -> portq_ok hs pt reqs') -> tab_ok hs chq reqs buf pt -> tab_ok hs chq reqs' buf pt.
Proof. intros Hr (H1 & H2 & H3 & H4). split; [|split; [|split]]; auto. Qed.

(** * The components that talk about the port table, bundled *)
Definition core_ok (G : Prop) (al : list N) (cq chq : list evt) (hs : list (N * handle)) (reqs : list (N * rlife))
    (cs : list (N * cstate)) (pt : list (N * pstate)) : Prop :=
  num_ok al cq chq pt /\ handle_ok hs chq pt /\ portq_ok hs pt reqs /\ NoDup (map fst pt) /\ (G -> conn_ok cs cq chq pt).

Lemma core_upd G al cq chq hs reqs cs pt p c c' :
  core_ok G al cq chq hs reqs cs pt -> lookup p pt = Some (Connected c) ->
  tx_dropped c' = tx_dropped c -> rx_dropped c' = rx_dropped c -> rx_closed c' = rx_closed c ->
  flat_map snd (rxq c') = flat_map snd (rxq c) ->
  core_ok G al cq chq hs reqs cs (insert p (Connected c') pt).
Proof.
  intros (H1 & H2 & H3 & H4 & H5) Hl E1 E2 E3 E4. split; [|split; [|split; [|split]]].
  - eapply num_ok_upd; eauto.
  - eapply handle_ok_upd; eauto.
  - eapply portq_ok_upd; eauto.
  - now apply NoDup_keys_insert.
  - intros HG. eapply conn_ok_upd; eauto.
Qed.

Lemma core_free G al cq chq hs reqs cs pt p c :
  core_ok G al cq chq hs reqs cs pt -> lookup p pt = Some (Connected c) -> all4 c = true ->
  core_ok G (del p al) cq chq hs reqs cs (remove p pt).
Proof.
  intros (H1 & H2 & H3 & H4 & H5) Hl Ha.
  assert (h_tx (hget hs p) = Gone /\ h_rx (hget hs p) = Gone) as [G1 G2].
  { specialize (H2 p). unfold hok1 in H2. rewrite Hl in H2. destruct H2 as (_ & _ & _ & _ & _ & _ & T1 & T2 & _).
    unfold all4 in Ha. apply andb_true_iff in Ha as [Ha _]. apply andb_true_iff in Ha as [Ha _].
    apply andb_true_iff in Ha as [Ha Hb]. rewrite Ha in T1. rewrite Hb in T2. split.
    - destruct (h_tx (hget hs p)); try discriminate; reflexivity.
    - destruct (h_rx (hget hs p)); try discriminate; reflexivity. }
  split; [|split; [|split; [|split]]].
  - apply num_ok_remove; [congruence|exact H1].
  - apply (handle_ok_gen hs hs chq chq pt _ p H2).
    + intros p0 Hne. apply N.eqb_neq in Hne. now rewrite lookup_remove, Hne.
    + auto.
    + rewrite lookup_remove, N.eqb_refl. specialize (H2 p). unfold hok1 in *. tauto.
  - apply portq_ok_remove; [exact H4| |exact H3]. rewrite Hl. unfold pq_ent. rewrite G2. reflexivity.
  - now apply NoDup_keys_remove.
  - intros HG. apply conn_ok_remove; [exact H4|now rewrite Hl|auto].
Qed.

(** * Resolving a local connect request whose port is [Connecting] *)
Lemma conn_ok_resolve_insert cs cq chq pt p req s' r :
  NoDup (map fst pt) -> lookup p pt = Some (Connecting req) -> st_reqs (Some s') = [] ->
  conn_ok cs cq chq pt -> conn_ok (insert req (CResolved r) cs) cq chq (insert p s' pt).
Proof.
  intros Hn Hl Hs H r0. pose proof (H r0) as H0. unfold port_reqs in *.
  pose proof (tab_insert (fun _ s => st_reqs s) r0 p s' pt Hn st_reqs_None) as T. cbv beta in T.
  rewrite Hl, Hs in T. cbn [st_reqs] in T. rewrite occ_cons, !occ_nil in T.
  rewrite lookup_insert, (N.eqb_sym r0 req). destruct (req =? r0) eqn:E; cbn [b2n is_waiting] in *; [|lia].
  pose proof (b2n_le1 (is_waiting (lookup r0 cs))). lia.
Qed.
Lemma conn_ok_resolve_remove cs cq chq pt p req r :
  NoDup (map fst pt) -> lookup p pt = Some (Connecting req) ->
  conn_ok cs cq chq pt -> conn_ok (insert req (CResolved r) cs) cq chq (remove p pt).
Proof.
  intros Hn Hl H r0. pose proof (H r0) as H0. unfold port_reqs in *.
  pose proof (tab_remove (fun _ s => st_reqs s) r0 p pt Hn st_reqs_None) as T. cbv beta in T.
  rewrite Hl in T. cbn [st_reqs] in T. rewrite occ_cons, !occ_nil in T.
  rewrite lookup_insert, (N.eqb_sym r0 req). destruct (req =? r0) eqn:E; cbn [b2n is_waiting] in *; [|lia].
  pose proof (b2n_le1 (is_waiting (lookup r0 cs))). lia.
Qed.
Lemma handle_ok_remove_nonconn hs chq pt p :
  is_connected (lookup p pt) = false -> handle_ok hs chq pt -> handle_ok hs chq (remove p pt).
Proof.
  intros Hl H p0. specialize (H p0). rewrite lookup_remove. destruct (p0 =? p) eqn:E; [|exact H].
  apply N.eqb_eq in E. subst p0. unfold hok1 in *. destruct (lookup p pt) as [[|]|]; try discriminate; tauto.
Qed.

(** [PortData]: the loop that registers the received ports as outstanding *)
Definition ins_out : list N -> list N -> option (list N) :=
  fix ins (l : list N) (o : list N) : option (list N) :=
    match l with
    | [] => Some o
    | p :: r => if mem p o then None else ins r (p :: o)
    end.
Lemma ins_out_spec : forall ps o o', ins_out ps o = Some o' ->
  forall r, mem r o' = mem r ps || mem r o /\ (mem r ps = true -> mem r o = false) /\ occ r ps = b2n (mem r ps).
Proof.
  induction ps as [|x ps IH]; intros o o' H r; cbn [ins_out mem] in *.
  - injection H as <-. repeat split; auto. discriminate.
  - destruct (mem x o) eqn:Ex; [discriminate|]. destruct (IH _ _ H r) as (I1 & I2 & I3). cbn [mem] in I1, I2.
    rewrite occ_cons, (N.eqb_sym x r). destruct (r =? x) eqn:E; cbn [orb b2n] in *.
    + apply N.eqb_eq in E. subst x. repeat split; auto.
      * rewrite I1. now rewrite orb_true_r.
      * destruct (mem r ps) eqn:Em; [specialize (I2 eq_refl); discriminate|]. cbn [b2n] in I3. lia.
    + repeat split; auto.
Qed.

Definition is_nil {A} (l : list A) : bool := match l with [] => true | _ => false end.
Lemma hr_PortData m p f l w ps ids n :
  handle_received m (PortData p f l w ps ids) n =
  match lookup p (ports m) with
  | Some (Connected c) =>
      if rx_open c then
        if is_nil ps then Proto PEmptyPorts []
        else match ins_out ps (outstanding m) with
             | None => Proto PPortTwice []
             | Some o =>
                 let size := PORT_COST * len ps in
                 if (size <? 4294967296) && (size <=? cfg_chunk m) then
                   if (used c + size <? 4294967296) && (used c + size <=? cfg_buffer m) then
                     Done (m <| outstanding := o |>
                             <| ports := insert p (Connected (c <| rxq := rxq c ++ [(size, ps)] |>)) (ports m) |>)
                          [PortRequests p ps]
                   else Proto POverdraw []
                 else Proto PPortChunk []
             end
      else Proto PPortDataNotConnected []
  | _ => Proto PPortDataNotConnected []
  end.
Proof.
  cbn [handle_received]. destruct (lookup p (ports m)) as [[|c]|]; try reflexivity.
  destruct (rx_open c); [|reflexivity]. destruct ps; reflexivity.
Qed.

