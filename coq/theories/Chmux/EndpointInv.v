(** The well-formedness invariant of an endpoint and how its components react to the elementary
    updates performed by the steps. *)
From Remoc Require Import Lib.Base Gen.Consts Chmux.Wire Chmux.Mux Chmux.Endpoint Chmux.EndpointLemmas.
From RecordUpdate Require Import RecordUpdate.

(** * What pending events carry *)
(** port numbers ([PortNumber] objects) travelling inside an event *)
Definition ev_nums (ev : evt) : list N :=
  match ev with
  | EConnectReq p _ _ _ => [p]
  | EAccepted l _ => [l]
  | ESendPorts _ _ _ _ ps => map (fun x => fst (fst x)) ps
  | _ => []
  end.
Definition q_nums (l : list evt) : list N := flat_map ev_nums l.
(** local connect-request ids (response cells) travelling inside an event *)
Definition ev_reqs (ev : evt) : list N :=
  match ev with
  | EConnectReq _ _ _ req => [req]
  | ESendPorts _ _ _ _ ps => map (fun x => snd x) ps
  | _ => []
  end.
Definition q_reqs (l : list evt) : list N := flat_map ev_reqs l.
Definition st_reqs (s : option pstate) : list N := match s with Some (Connecting r) => [r] | _ => [] end.
Definition port_reqs (pt : list (N * pstate)) : list N := flat_map (fun x => st_reqs (Some (snd x))) pt.

Definition is_reply (r : N) (ev : evt) : bool :=
  match ev with EAccepted _ r' => r' =? r | ERejected r' _ => r' =? r | _ => false end.
Definition is_sd (p : N) (ev : evt) : bool := match ev with ESenderDropped q => q =? p | _ => false end.
Definition is_rd (p : N) (ev : evt) : bool := match ev with EReceiverDropped q => q =? p | _ => false end.
Definition is_rc (p : N) (ev : evt) : bool := match ev with EReceiverClosed q => q =? p | _ => false end.

Definition is_queued (l : life) : bool := match l with Queued => true | _ => false end.
Definition is_gone (l : life) : bool := match l with Gone => true | _ => false end.
Definition is_answered (o : option rlife) : bool := match o with Some RAnswered => true | _ => false end.
Definition is_some {A} (o : option A) : bool := match o with Some _ => true | None => false end.
Definition is_waiting (o : option cstate) : bool := match o with Some CWaiting => true | _ => false end.
Definition is_connected (o : option pstate) : bool := match o with Some (Connected _) => true | _ => false end.

(** no [g]-event behind an [f]-event *)
Fixpoint no_after {A} (f g : A -> bool) (l : list A) : Prop :=
  match l with [] => True | x :: r => (f x = true -> count g r = 0) /\ no_after f g r end.

Lemma no_after_snoc {A} (f g : A -> bool) l x :
  no_after f g l -> (g x = true -> count f l = 0) -> no_after f g (l ++ [x]).
Proof.
  induction l as [|a l IH]; cbn [app no_after count]; intros H Hx.
  - split; [reflexivity|exact I].
  - destruct H as [H1 H2]. split.
    + intros Hf. rewrite count_snoc. destruct (g x) eqn:Eg; cbn [b2n].
      * specialize (Hx eq_refl). rewrite Hf in Hx. cbn [b2n] in Hx. lia.
      * specialize (H1 Hf). lia.
    + apply IH; [exact H2|]. intros Hg. specialize (Hx Hg). lia.
Qed.

(** the handle of port [p] (a port that never had user objects behaves like one whose objects are gone) *)
Definition hget (hs : list (N * handle)) (p : N) : handle :=
  match lookup p hs with Some h => h | None => {| h_tx := Gone; h_rx := Gone; h_rxc := Alive |} end.

Lemma hget_insert hs p h q : hget (insert p h hs) q = if q =? p then h else hget hs q.
Proof. unfold hget. rewrite lookup_insert. now destruct (q =? p). Qed.

Definition all4 (c : conn) : bool := tx_dropped c && rx_dropped c && negb (rx_open c) && rrx_dropped c.

(** * Components of the invariant *)
(** allocator, pending numbers and table keys: every number has at most one owner, and an owned
    number is allocated *)
Definition num_ok (al : list N) (cq chq : list evt) (pt : list (N * pstate)) : Prop :=
  forall p, occ p (q_nums cq) + occ p (q_nums chq) + isK (lookup p pt) <= b2n (mem p al).

(** remote requests: [outstanding] = the live [Request] objects; exactly the answered ones have
    their (single) reply event queued *)
Definition req_ok (out : list N) (reqs : list (N * rlife)) (chq : list evt) : Prop :=
  forall r, count (is_reply r) chq = b2n (is_answered (lookup r reqs)) /\ mem r out = is_some (lookup r reqs).

(** user handles, their notification events and the flags in the table *)
Definition handle_ok (hs : list (N * handle)) (chq : list evt) (pt : list (N * pstate)) : Prop :=
  forall p,
    let h := hget hs p in
    count (is_sd p) chq = b2n (is_queued (h_tx h)) /\
    count (is_rd p) chq = b2n (is_queued (h_rx h)) /\
    count (is_rc p) chq = b2n (is_queued (h_rxc h)) /\
    no_after (is_rd p) (is_rc p) chq /\
    (h_rx h = Gone -> h_rxc h <> Queued) /\
    match lookup p pt with
    | Some (Connected c) =>
        lookup p hs <> None /\
        tx_dropped c = is_gone (h_tx h) /\ rx_dropped c = is_gone (h_rx h) /\ rx_closed c = is_gone (h_rxc h)
    | _ => h_tx h = Gone /\ h_rx h = Gone
    end.

(** receive buffers; a connected entry never has all four flags (it would have been freed) *)
Definition buf_ok (buf : N) (pt : list (N * pstate)) : Prop :=
  forall p c, lookup p pt = Some (Connected c) ->
    used c <= buf /\ count (fun x => x =? 0) (rxq c) <= b2n (negb (rx_open c)) /\ all4 c = false.

Definition lq_ok (m : mux) : Prop :=
  lq_wait m <= cfg_connect_queue m + 1 /\ lq_nowait m <= cfg_connect_queue m + 1.

(** local connect requests: a waiting request has exactly one carrier (queued event or [Connecting]
    entry), a resolved or unknown one has none *)
Definition conn_ok (cs : list (N * cstate)) (cq chq : list evt) (pt : list (N * pstate)) : Prop :=
  forall req, occ req (q_reqs cq) + occ req (q_reqs chq) + occ req (port_reqs pt) = b2n (is_waiting (lookup req cs)).

Record Inv (e : ep) : Prop := mk_Inv {
  inv_num : num_ok (alloc e) (cq e) (chq e) (ports (mx e));
  inv_req : req_ok (outstanding (mx e)) (requests e) (chq e);
  inv_h : handle_ok (handles e) (chq e) (ports (mx e));
  inv_buf : buf_ok (cfg_buffer (mx e)) (ports (mx e));
  inv_lq : lq_ok (mx e);
  inv_keys : NoDup (map fst (ports (mx e)));
  inv_conn : conn_ok (connects e) (cq e) (chq e) (ports (mx e))
}.

Record WF (e : ep) : Prop := mk_WF {
  wf_nopanic : panicked e = None;
  wf_nodup : NoDup (alloc e);
  wf_len : len (alloc e) <= max_ports e;
  wf_inv : dead e = None -> Inv e
}.

(** * Small facts *)
Lemma q_nums_app l1 l2 : q_nums (l1 ++ l2) = q_nums l1 ++ q_nums l2. Proof. apply flat_map_app. Qed.
Lemma q_reqs_app l1 l2 : q_reqs (l1 ++ l2) = q_reqs l1 ++ q_reqs l2. Proof. apply flat_map_app. Qed.
Lemma q_nums_cons x l : q_nums (x :: l) = ev_nums x ++ q_nums l. Proof. reflexivity. Qed.
Lemma q_reqs_cons x l : q_reqs (x :: l) = ev_reqs x ++ q_reqs l. Proof. reflexivity. Qed.

Lemma b2n_le1 b : b2n b <= 1. Proof. destruct b; cbn [b2n]; lia. Qed.
Lemma isK_le1 {A} (o : option A) : isK o <= 1. Proof. destruct o; cbn [isK]; lia. Qed.

(** [port_reqs] under table updates (keys are unique) *)
Lemma port_reqs_remove req k pt :
  NoDup (map fst pt) ->
  occ req (port_reqs (remove k pt)) + occ req (st_reqs (lookup k pt)) = occ req (port_reqs pt).
Proof.
  induction pt as [|[k1 v] pt IH]; cbn [remove lookup map fst]; intros Hn.
  - reflexivity.
  - inversion Hn as [|? ? Hx Hn']; subst. specialize (IH Hn').
    unfold port_reqs in *. cbn [flat_map snd]. destruct (k =? k1) eqn:E.
    + apply N.eqb_eq in E. subst k1. rewrite occ_app.
      assert (lookup k pt = None) as Hl by now apply lookup_None_keys.
      rewrite Hl in IH. change (st_reqs None) with (@nil N) in IH. rewrite occ_nil in IH. lia.
    + cbn [flat_map snd]. rewrite !occ_app. lia.
Qed.
Lemma port_reqs_insert req k v pt :
  NoDup (map fst pt) ->
  occ req (port_reqs (insert k v pt)) + occ req (st_reqs (lookup k pt)) = occ req (port_reqs pt) + occ req (st_reqs (Some v)).
Proof.
  intros Hn. pose proof (port_reqs_remove req k pt Hn) as H. unfold insert, port_reqs in *.
  cbn [flat_map snd]. rewrite occ_app. lia.
Qed.
