(** Fail-stop at the endpoint: when the dispatcher ends -- with a protocol/reset error caused by what it
    received, or after Goodbye was sent and received -- it stops for good, and no local connect request
    is left waiting: each has an outcome. *)
From Remoc Require Import Lib.Base Chmux.Wire Chmux.Mux Chmux.Endpoint.
From RecordUpdate Require Import RecordUpdate.

Definition no_waiting (e : ep) : Prop := forall req, lookup req (connects e) <> Some CWaiting.

Lemma lookup_map_resolve (f : N * cstate -> N * cstate) l req :
  (forall x, fst (f x) = fst x) ->
  (forall x, snd (f x) <> CWaiting) ->
  lookup req (map f l) <> Some CWaiting.
Proof.
  intros Hk Hv. induction l as [|[k v] l IH]; cbn [map lookup]; [discriminate|].
  specialize (Hk (k, v)). specialize (Hv (k, v)). destruct (f (k, v)) as [k' v'] eqn:E. cbn [fst snd] in *. subst k'.
  destruct (req =? k); [intros [= ->]; congruence|exact IH].
Qed.

Lemma resolve_no_waiting e : no_waiting (resolve_waiting e).
Proof.
  unfold no_waiting, resolve_waiting. intros req. cbn [connects set RecordSet.set].
  apply lookup_map_resolve.
  - intros [k v]. destruct v; reflexivity.
  - intros [k v]. destruct v; cbn [snd]; discriminate.
Qed.

Definition ended (e : ep) : Prop :=
  dead e <> None \/ (goodbye_sent (mx e) && goodbye_received (mx e) = true).

Lemma alive_false_of_ended e : ended e -> alive e = false.
Proof.
  unfold ended, alive. intros [H|H].
  - destruct (dead e); [reflexivity|congruence].
  - destruct (dead e), (panicked e); try reflexivity. now rewrite H.
Qed.

Lemma classic_ended e : ended e \/ ~ ended e.
Proof.
  unfold ended. destruct (dead e); [left; left; discriminate|].
  destruct (goodbye_sent (mx e) && goodbye_received (mx e)); [left; right; reflexivity|].
  right. intros [H|H]; [congruence|discriminate].
Qed.

(** the ended state is absorbing *)
Lemma ended_stuck e a : ended e -> step_opt e a = None.
Proof. intros H. unfold step_opt. now rewrite (alive_false_of_ended e H). Qed.

Lemma apply_effs_dead effs : forall e, dead (apply_effs e effs) = dead e.
Proof.
  induction effs as [|f r IH]; intros e; cbn [apply_effs]; [reflexivity|]. rewrite IH.
  destruct f; cbn; unfold set_handle; cbn;
    repeat match goal with |- context [if ?b then _ else _] => destruct b end; reflexivity.
Qed.

Lemma apply_effs_mx effs : forall e, mx (apply_effs e effs) = mx e.
Proof.
  induction effs as [|f r IH]; intros e; cbn [apply_effs]; [reflexivity|]. rewrite IH.
  destruct f; cbn; unfold set_handle; cbn;
    repeat match goal with |- context [if ?b then _ else _] => destruct b end; reflexivity.
Qed.

(** a dispatcher step that ends the dispatcher leaves no connect request waiting *)
Lemma finish_ended e o :
  ended (finish e o) -> ~ ended e -> no_waiting (finish e o).
Proof.
  intros He Hn. destruct o as [m effs|err effs|site]; cbn [finish] in *.
  - destruct (goodbye_sent m && goodbye_received m) eqn:Eg; [apply resolve_no_waiting|].
    exfalso. destruct He as [He|He].
    + rewrite apply_effs_dead in He. cbn in He. apply Hn. now left.
    + rewrite apply_effs_mx in He. cbn in He. congruence.
  - apply resolve_no_waiting.
  - exfalso. apply Hn. destruct He as [He|He]; cbn in He; [left|right]; exact He.
Qed.

Lemma same_end e e' :
  dead e' = dead e -> goodbye_sent (mx e') = goodbye_sent (mx e) -> goodbye_received (mx e') = goodbye_received (mx e) ->
  ended e' -> ended e.
Proof. unfold ended. intros -> -> ->. auto. Qed.

Ltac same :=
  match goal with He : ended ?x |- ended ?y =>
    refine (same_end y x _ _ _ He); cbn; unfold set_handle; cbn;
    repeat match goal with |- context [if ?b then _ else _] => destruct b end; reflexivity
  end.

(** every step that makes the endpoint end is a dispatcher step through [finish] *)
Lemma step_ended e a e' :
  step_opt e a = Some e' -> ~ ended e -> ended e' -> no_waiting e'.
Proof.
  intros H Hn He. unfold step_opt in H. destruct (negb (alive e)); [discriminate|].
  destruct a;
    repeat match type of H with
    | (if ?b then _ else _) = Some _ => destruct b eqn:?; try discriminate
    | match ?x with _ => _ end = Some _ => destruct x eqn:?; try discriminate
    end;
    injection H as <-;
    try (exfalso; apply Hn; same).
  all: try (exact (finish_ended e (handle_event (mx e) EListenerDropped) He Hn)).
  all: try (exact (finish_ended e (handle_event (mx e) EGoodbye) He Hn)).
  all: try (apply finish_ended; assumption).
  - (* DPort *)
    apply finish_ended; [exact He|]. intros Hx. apply Hn.
    match goal with ev : evt |- _ => destruct ev end;
      repeat match type of Hx with context [match ?x with _ => _ end] => destruct x end;
      same.
Qed.

Lemma run_cons a acts e : run (a :: acts) e = run acts (step e a).
Proof. reflexivity. Qed.

Lemma run_stuck acts : forall e, ended e -> run acts e = e.
Proof.
  induction acts as [|x l IH]; intros e He; [reflexivity|].
  rewrite run_cons. unfold step. rewrite (ended_stuck e x He). now apply IH.
Qed.

Theorem ended_no_waiting acts : forall e,
  ~ ended e -> ended (run acts e) -> no_waiting (run acts e).
Proof.
  induction acts as [|a acts IH]; intros e Hn He.
  - exfalso. apply Hn. exact He.
  - rewrite run_cons in *. unfold step in *.
    destruct (step_opt e a) as [e'|] eqn:E.
    + destruct (classic_ended e') as [He'|Hn'].
      * rewrite (run_stuck acts e' He') in *. eapply step_ended; eauto.
      * apply IH; assumption.
    + apply IH; assumption.
Qed.
