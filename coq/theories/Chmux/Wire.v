(** Wire codec of the channel multiplexer: transcription of
    [remoc/src/chmux/msg.rs] ([MultiplexMsg::{write,read}], [ExchangedCfg::{write,read}])
    and of the length-delimited framing configured in [remoc/src/connect.rs].

    Bytes are [N] values below 256.  All constants come from [Gen.Consts], which is regenerated
    from the Rust source on every run. *)
From Remoc Require Import Lib.Base Gen.Consts.

(** * Little-endian integers *)
Fixpoint le (k : nat) (x : N) : list N :=
  match k with O => [] | S k' => x mod 256 :: le k' (x / 256) end.

Fixpoint le_val (bs : list N) : N :=
  match bs with [] => 0 | b :: r => b + 256 * le_val r end.

(** read a [k]-byte little-endian integer; [None] = UnexpectedEof *)
Definition rd (k : nat) (bs : list N) : option (N * list N) :=
  if (length bs <? k)%nat then None else Some (le_val (firstn k bs), skipn k bs).

Definition is_byte (b : N) : bool := b <? 256.
Definition bytes_ok (bs : list N) : bool := forallb is_byte bs.

(** * Messages *)
Record xcfg := mk_xcfg {
  x_timeout : option N;  (** [connection_timeout] in nanoseconds *)
  x_chunk   : N;         (** [chunk_size : u32] *)
  x_buffer  : N;         (** [port_receive_buffer : u32] *)
  x_queue   : N          (** [connect_queue : u16] *)
}.

Inductive msg :=
| Reset
| Hello (version : N) (cfg : xcfg)
| Ping
| OpenPort (client_port : N) (wait : bool) (id : option N)
| PortOpened (client_port server_port : N)
| Rejected (client_port : N) (no_ports : bool)
| Data (port : N) (first last : bool)
| PortData (port : N) (first last wait : bool) (ports : list N) (ids : option (list N))
| PortCredits (port credits : N)
| SendFinish (port : N)
| ReceiveClose (port : N)
| ReceiveFinish (port : N)
| ClientFinish
| ListenerFinish
| Goodbye.

Definition u8  (x : N) : bool := x <? 256.
Definition u16 (x : N) : bool := x <? 65536.
Definition u32 (x : N) : bool := x <? 4294967296.
Definition u64 (x : N) : bool := x <? 18446744073709551616.
Definition U64_MAX : N := 18446744073709551615.
Definition NS_PER_MS : N := 1000000.

(** * Encoder ([MultiplexMsg::write], [ExchangedCfg::write]) *)
Definition flag (b : bool) (f : N) : N := if b then f else 0.

(** a present timeout is exchanged in whole milliseconds, clamped to [1, u64::MAX]; 0 = none *)
Definition timeout_millis (t : option N) : N :=
  match t with None => 0 | Some ns => N.max 1 (N.min (ns / NS_PER_MS) U64_MAX) end.

Definition enc_cfg (c : xcfg) : list N :=
  le 8 (timeout_millis (x_timeout c)) ++ le 4 (x_chunk c) ++ le 4 (x_buffer c) ++ le 2 (x_queue c).

Fixpoint enc_ports (ports : list N) : list N :=
  match ports with [] => [] | p :: r => le 4 p ++ enc_ports r end.

(** [ports.iter().zip(ids)] *)
Fixpoint enc_ports_ids (ports ids : list N) : list N :=
  match ports, ids with
  | p :: r, i :: ri => le 4 p ++ le 4 i ++ enc_ports_ids r ri
  | _, _ => []
  end.

(** [None] = the [assert_eq!(ports.len(), ids.len())] in [write] fails (panic). *)
Definition enc (m : msg) : option (list N) :=
  match m with
  | Reset => Some [MSG_RESET]
  | Hello v c => Some (MSG_HELLO :: MAGIC ++ [v] ++ enc_cfg c)
  | Ping => Some [MSG_PING]
  | OpenPort p w id =>
      Some (MSG_OPEN_PORT :: le 4 p ++
            [N.lor (flag w MSG_OPEN_PORT_FLAG_WAIT)
                   (flag (match id with Some _ => true | None => false end) MSG_OPEN_PORT_FLAG_ID)] ++
            match id with Some i => le 4 i | None => [] end)
  | PortOpened c s => Some (MSG_PORT_OPENED :: le 4 c ++ le 4 s)
  | Rejected c np => Some (MSG_REJECTED :: le 4 c ++ [flag np MSG_REJECTED_FLAG_NO_PORTS])
  | Data p f l =>
      Some (MSG_DATA :: le 4 p ++ [N.lor (flag f MSG_DATA_FLAG_FIRST) (flag l MSG_DATA_FLAG_LAST)])
  | PortData p f l w ports ids =>
      let flags := N.lor (N.lor (N.lor (flag f MSG_PORT_DATA_FLAG_FIRST) (flag l MSG_PORT_DATA_FLAG_LAST))
                                (flag w MSG_PORT_DATA_FLAG_WAIT))
                         (flag (match ids with Some _ => true | None => false end) MSG_PORT_DATA_FLAG_IDS) in
      match ids with
      | Some ids =>
          if (length ports =? length ids)%nat
          then Some (MSG_PORT_DATA :: le 4 p ++ [flags] ++ enc_ports_ids ports ids)
          else None
      | None => Some (MSG_PORT_DATA :: le 4 p ++ [flags] ++ enc_ports ports)
      end
  | PortCredits p c => Some (MSG_PORT_CREDITS :: le 4 p ++ le 4 c)
  | SendFinish p => Some (MSG_SEND_FINISH :: le 4 p)
  | ReceiveClose p => Some (MSG_RECEIVE_CLOSE :: le 4 p)
  | ReceiveFinish p => Some (MSG_RECEIVE_FINISH :: le 4 p)
  | ClientFinish => Some [MSG_CLIENT_FINISH]
  | ListenerFinish => Some [MSG_LISTENER_FINISH]
  | Goodbye => Some [MSG_GOODBYE]
  end.

(** * Decoder ([MultiplexMsg::read], [ExchangedCfg::read]) *)
Inductive dres :=
| DOk (m : msg)
| DEof          (** io::ErrorKind::UnexpectedEof *)
| DInvalid      (** io::ErrorKind::InvalidData *)
| DFuel.        (** model artefact; proved unreachable ([dec_no_fuel]) *)

Definition has (flags f : N) : bool := negb (N.land flags f =? 0).

Inductive cres := COk (c : xcfg) | CEof | CInvalid.

Definition dec_cfg (bs : list N) : cres :=
  match rd 8 bs with None => CEof | Some (ms, r1) =>
  match rd 4 r1 with None => CEof | Some (cs, r2) =>
  if cs <? XCFG_MIN_CHUNK_SIZE then CInvalid else
  match rd 4 r2 with None => CEof | Some (prb, r3) =>
  if prb <? XCFG_MIN_RECEIVE_BUFFER then CInvalid else
  match rd 2 r3 with None => CEof | Some (cq, _) =>
  if cq <? XCFG_MIN_CONNECT_QUEUE then CInvalid else
  COk {| x_timeout := if ms =? 0 then None else Some (ms * NS_PER_MS);
         x_chunk := cs; x_buffer := prb; x_queue := cq |}
  end end end end.

Inductive pres := POk (ports ids : list N) | PEof | PFuel.

(** the [loop] in the [MSG_PORT_DATA] arm: a failed read of a *port* ends the list (whatever is
    left, i.e. fewer than 4 bytes, is ignored); a failed read of an *id* is an error. *)
Fixpoint dec_ports (fuel : nat) (with_ids : bool) (bs : list N) : pres :=
  match fuel with
  | O => PFuel
  | S fuel' =>
      match rd 4 bs with
      | None => POk [] []
      | Some (p, r) =>
          if with_ids then
            match rd 4 r with
            | None => PEof
            | Some (i, r') =>
                match dec_ports fuel' true r' with
                | POk ps is => POk (p :: ps) (i :: is)
                | e => e
                end
            end
          else
            match dec_ports fuel' false r with
            | POk ps is => POk (p :: ps) is
            | e => e
            end
      end
  end.

Definition on_port (bs : list N) (k : N -> msg) : dres :=
  match rd 4 bs with None => DEof | Some (p, _) => DOk (k p) end.

Definition dec (bs : list N) : dres :=
  match bs with
  | [] => DEof
  | c :: r =>
      if c =? MSG_RESET then DOk Reset
      else if c =? MSG_HELLO then
        if (length r <? length MAGIC)%nat then DEof
        else if negb (forallb (fun ab => fst ab =? snd ab) (combine (firstn (length MAGIC) r) MAGIC)) then DInvalid
        else match rd 1 (skipn (length MAGIC) r) with
             | None => DEof
             | Some (v, r') =>
                 match dec_cfg r' with
                 | COk cfg => DOk (Hello v cfg) | CEof => DEof | CInvalid => DInvalid
                 end
             end
      else if c =? MSG_PING then DOk Ping
      else if c =? MSG_OPEN_PORT then
        match rd 4 r with None => DEof | Some (p, r1) =>
        match rd 1 r1 with None => DEof | Some (flags, r2) =>
          let wait := has flags MSG_OPEN_PORT_FLAG_WAIT in
          if has flags MSG_OPEN_PORT_FLAG_ID then
            match rd 4 r2 with None => DEof | Some (i, _) => DOk (OpenPort p wait (Some i)) end
          else DOk (OpenPort p wait None)
        end end
      else if c =? MSG_PORT_OPENED then
        match rd 4 r with None => DEof | Some (cp, r1) =>
        match rd 4 r1 with None => DEof | Some (sp, _) => DOk (PortOpened cp sp) end end
      else if c =? MSG_REJECTED then
        match rd 4 r with None => DEof | Some (cp, r1) =>
        match rd 1 r1 with None => DEof | Some (flags, _) =>
          DOk (Rejected cp (has flags MSG_REJECTED_FLAG_NO_PORTS)) end end
      else if c =? MSG_DATA then
        match rd 4 r with None => DEof | Some (p, r1) =>
        match rd 1 r1 with None => DEof | Some (flags, _) =>
          DOk (Data p (has flags MSG_DATA_FLAG_FIRST) (has flags MSG_DATA_FLAG_LAST)) end end
      else if c =? MSG_PORT_DATA then
        match rd 4 r with None => DEof | Some (p, r1) =>
        match rd 1 r1 with None => DEof | Some (flags, r2) =>
          let with_ids := has flags MSG_PORT_DATA_FLAG_IDS in
          match dec_ports (S (length r2)) with_ids r2 with
          | POk ps is =>
              DOk (PortData p (has flags MSG_PORT_DATA_FLAG_FIRST) (has flags MSG_PORT_DATA_FLAG_LAST)
                            (has flags MSG_PORT_DATA_FLAG_WAIT) ps (if with_ids then Some is else None))
          | PEof => DEof
          | PFuel => DFuel
          end
        end end
      else if c =? MSG_PORT_CREDITS then
        match rd 4 r with None => DEof | Some (p, r1) =>
        match rd 4 r1 with None => DEof | Some (cr, _) => DOk (PortCredits p cr) end end
      else if c =? MSG_SEND_FINISH then on_port r SendFinish
      else if c =? MSG_RECEIVE_CLOSE then on_port r ReceiveClose
      else if c =? MSG_RECEIVE_FINISH then on_port r ReceiveFinish
      else if c =? MSG_CLIENT_FINISH then DOk ClientFinish
      else if c =? MSG_LISTENER_FINISH then DOk ListenerFinish
      else if c =? MSG_GOODBYE then DOk Goodbye
      else DInvalid
  end.

(** * Well-formed messages: the value ranges of the Rust field types *)
Definition wf_cfg (c : xcfg) : bool :=
  u32 (x_chunk c) && u32 (x_buffer c) && u16 (x_queue c).

(** a configuration that survives the exchange unchanged: minimum values, and the timeout a whole
    number of milliseconds between 1 ms and u64::MAX ms *)
Definition exact_cfg (c : xcfg) : bool :=
  wf_cfg c && (XCFG_MIN_CHUNK_SIZE <=? x_chunk c) && (XCFG_MIN_RECEIVE_BUFFER <=? x_buffer c)
  && (XCFG_MIN_CONNECT_QUEUE <=? x_queue c)
  && match x_timeout c with
     | None => true
     | Some ns => (ns mod NS_PER_MS =? 0) && (0 <? ns) && (ns / NS_PER_MS <=? U64_MAX)
     end.

Definition wf (m : msg) : bool :=
  match m with
  | Hello v c => u8 v && exact_cfg c
  | OpenPort p _ id => u32 p && match id with Some i => u32 i | None => true end
  | PortOpened c s => u32 c && u32 s
  | Rejected c _ => u32 c
  | Data p _ _ => u32 p
  | PortData p _ _ _ ports ids =>
      u32 p && forallb u32 ports &&
      match ids with Some is => forallb u32 is && (length ports =? length is)%nat | None => true end
  | PortCredits p c => u32 p && u32 c
  | SendFinish p | ReceiveClose p | ReceiveFinish p => u32 p
  | _ => true
  end.

(** * Framing: [LengthDelimitedCodec] little endian, 4-byte length field *)
Definition frame (payload : list N) : list N := le 4 (len payload) ++ payload.

Inductive fres := FOk (payload rest : list N) | FNeedMore | FTooLong.

Definition deframe (max_frame : N) (bs : list N) : fres :=
  match rd 4 bs with
  | None => FNeedMore
  | Some (n, r) =>
      if max_frame <? n then FTooLong
      else if (length r <? N.to_nat n)%nat then FNeedMore
      else FOk (firstn (N.to_nat n) r) (skipn (N.to_nat n) r)
  end.

(** [Cfg::max_frame_length] : [None] = the [expect] panics *)
Definition sat32 (v : N) : N := N.min v 4294967295.
Definition max_frame_length (chunk_size : N) : option N :=
  let data := MAX_MSG_LENGTH + chunk_size in
  if u32 data then
    (* a port data message: a port number and an id per four bytes of chunk size *)
    let port_data := sat32 (MAX_MSG_LENGTH + sat32 (chunk_size * 2)) in
    Some (N.max (N.max data port_data) HELLO_MSG_LENGTH)
  else None.

(** * Handshake bytes: [Reset], then [Hello(PROTOCOL_VERSION, cfg)] *)
Definition handshake (c : xcfg) : list (option (list N)) :=
  [enc Reset; enc (Hello PROTOCOL_VERSION c)].
