(** One chmux endpoint: the dispatcher ([remoc/src/chmux/mux.rs]: [handle_event],
    [handle_received_msg], [maybe_free_port], [should_terminate], [create_port]), the port allocator
    ([port_allocator.rs]), the client side of port-open requests ([client.rs]), the listener side
    ([listener.rs]) and the user-held objects whose drop/close produce the dispatcher's events.

    The peer is *arbitrary*: [Recv m] delivers any message.  Local API actions are enabled only
    when the corresponding Rust object exists (ownership makes e.g. a second drop of the same sender
    impossible); that is what "well-formed local action" means.  A reachable Rust [panic!]/[unwrap]
    is the explicit outcome [Panic]. *)
From Remoc Require Import Lib.Base Gen.Consts Chmux.Wire.
From RecordUpdate Require Import RecordUpdate.

(** * Finite maps as association lists *)
Fixpoint lookup {A} (k : N) (l : list (N * A)) : option A :=
  match l with [] => None | (k', v) :: r => if k =? k' then Some v else lookup k r end.
Fixpoint remove {A} (k : N) (l : list (N * A)) : list (N * A) :=
  match l with [] => [] | (k', v) :: r => if k =? k' then remove k r else (k', v) :: remove k r end.
Definition insert {A} (k : N) (v : A) (l : list (N * A)) : list (N * A) := (k, v) :: remove k l.
Fixpoint mem (k : N) (l : list N) : bool :=
  match l with [] => false | x :: r => (k =? x) || mem k r end.
Fixpoint del (k : N) (l : list N) : list N :=
  match l with [] => [] | x :: r => if k =? x then del k r else x :: del k r end.

(** * Port table *)
Record conn := mk_conn {
  remote : N;
  pool : N;                 (** sender credit provider: credits *)
  pool_closed : option bool;(** closed(gracefully) *)
  rx_open : bool;           (** [receiver_tx_data.is_some()] *)
  rxq : list (N * list N);  (** per-port receive queue: the flow-control cost of each queued message
                                ([Finished] costs 0) and the remote ports of the requests it carries;
                                the credit monitor's [used] is the sum of the costs *)
  rx_closed : bool;         (** ReceiveClose sent *)
  rx_dropped : bool;        (** ReceiveFinish sent *)
  tx_dropped : bool;        (** SendFinish sent *)
  rrx_closed : bool;        (** remote receiver closed (hang-up received) *)
  rrx_dropped : bool        (** remote receiver dropped *)
}.
#[global] Instance eta_conn : Settable _ :=
  settable! mk_conn <remote; pool; pool_closed; rx_open; rxq; rx_closed; rx_dropped; tx_dropped; rrx_closed; rrx_dropped>.

Inductive pstate :=
| Connecting (req : N)      (** local connect request [req] awaits the reply *)
| Connected (c : conn).

(** responses to a local connect request *)
Inductive cresp := RAccepted (local remote_port : N) | RRejected (no_ports : bool) | RChMux | RListenerGone.

(** a remote request handed to the listener side *)
Record lreq := mk_lreq { lr_remote : N; lr_id : N; lr_wait : bool }.

Inductive perr :=
| PReset | PHello | POpenTwice | PTooManyOpen | PNotConnecting | PDataNotConnected | PChunkSize
| POverdraw | PPortDataNotConnected | PPortTwice | PPortChunk | PEmptyPorts | PCreditsNotConnected | PCreditOverflow
| PSendFinishTwice | PSendFinishNotConnected | PRecvCloseTwice | PRecvCloseNotConnected | PRecvFinishNotConnected
| PTooManyClientFinish.

Inductive psite :=
| SiteConnectReqUsed | SiteAcceptedNotOutstanding | SiteRejectedNotOutstanding | SiteSendPortsUsed
| SiteSenderDroppedTwice | SiteSenderDroppedState | SiteReceiverClosedTwice | SiteReceiverClosedState
| SiteReceiverDroppedTwice | SiteReceiverDroppedState | SiteCreatePortConnected | SiteMaybeFree | SiteHangupNotify.

(** local events ([GlobalEvt] / [PortEvt]) *)
Inductive evt :=
| EConnectReq (port id : N) (wait : bool) (req : N)
| EAccepted (local remote_port : N)
| ERejected (remote_port : N) (no_ports : bool)
| ESendData (remote_port : N) (first last : bool) (n : N)
| ESendPorts (remote_port : N) (first last wait : bool) (ps : list (N * N * N))   (** (port, id, req) *)
| EReturnCredits (remote_port n : N)
| ESenderDropped (p : N)
| EReceiverClosed (p : N)
| EReceiverDropped (p : N)
| EAllClientsDropped
| EListenerDropped
| EGoodbye.

(** effects of a dispatcher step on the rest of the endpoint and on the transport *)
Inductive eff :=
| Emit (m : Wire.msg) (payload : option N)
| Respond (req : N) (r : cresp)
| NewPort (local remote_port : N)          (** sender/receiver pair created and handed out *)
| ToListener (r : lreq)
| PortRequests (p : N) (rs : list N)        (** [Request] objects queued for the receiver of port [p] *)
| DropRequest (remote_port : N)            (** a [Request] object is dropped unanswered: its rejecter task fires *)
| ListenerClientDropped
| DropNumber (p : N).                      (** a [PortNumber] is dropped: released in the allocator *)

Record mux := mk_mux {
  cfg_chunk : N;                (** local chunk_size *)
  cfg_buffer : N;               (** local receive_buffer *)
  cfg_connect_queue : N;        (** local connect_queue *)
  rcfg_buffer : N;              (** remote port_receive_buffer *)
  remote_ver : N;
  ports : list (N * pstate);
  outstanding : list N;         (** outstanding_remote_port_requests *)
  listen_open : bool;           (** listen_tx.is_some() *)
  lq_wait : N; lq_nowait : N;   (** items in the two listen queues (capacity connect_queue + 1) *)
  all_clients_dropped : bool;
  remote_client_dropped : bool;
  remote_listener_dropped : bool;
  goodbye_sent : bool;
  goodbye_received : bool
}.
#[global] Instance eta_mux : Settable _ :=
  settable! mk_mux <cfg_chunk; cfg_buffer; cfg_connect_queue; rcfg_buffer; remote_ver; ports; outstanding; listen_open;
                    lq_wait; lq_nowait; all_clients_dropped; remote_client_dropped; remote_listener_dropped;
                    goodbye_sent; goodbye_received>.

Inductive outcome :=
| Done (m : mux) (effs : list eff)
| Proto (e : perr) (effs : list eff)     (** [run] returns [Err(Protocol)] / [Err(Reset)] *)
| Panic (site : psite).

Definition used (c : conn) : N := sum (map fst (rxq c)).

Definition new_conn (m : mux) (remote_port : N) : conn :=
  {| remote := remote_port; pool := rcfg_buffer m; pool_closed := None; rx_open := true; rxq := [];
     rx_closed := false; rx_dropped := false; tx_dropped := false; rrx_closed := false; rrx_dropped := false |}.

(** [maybe_free_port]: [None] = the [panic!] (port not in connected state) *)
Definition maybe_free (m : mux) (p : N) : option (mux * list eff) :=
  match lookup p (ports m) with
  | Some (Connected c) =>
      if tx_dropped c && rx_dropped c && negb (rx_open c) && rrx_dropped c
      then Some (m <| ports := remove p (ports m) |>, [DropNumber p])
      else Some (m, [])
  | _ => None
  end.

Definition should_terminate (m : mux) : bool :=
  (match ports m with [] => true | _ => false end
   && (all_clients_dropped m || remote_listener_dropped m)
   && (negb (listen_open m) || remote_client_dropped m)
   && match outstanding m with [] => true | _ => false end)
  || goodbye_sent m || goodbye_received m.

Definition with_ids (m : mux) : bool := PROTOCOL_VERSION_PORT_ID <=? remote_ver m.

(** [handle_event] *)
Definition handle_event (m : mux) (e : evt) : outcome :=
  match e with
  | EConnectReq port id wait req =>
      if negb (remote_listener_dropped m) then
        match lookup port (ports m) with
        | Some _ => Panic SiteConnectReqUsed
        | None =>
            Done (m <| ports := insert port (Connecting req) (ports m) |>)
                 [Emit (OpenPort port wait (if with_ids m then Some id else None)) None]
        end
      else Done m [Respond req (RRejected false); DropNumber port]
  | EAccepted local remote_port =>
      if negb (mem remote_port (outstanding m)) then Panic SiteAcceptedNotOutstanding
      else
        match lookup local (ports m) with
        | Some (Connected _) => Panic SiteCreatePortConnected
        | _ =>
            Done (m <| outstanding := del remote_port (outstanding m) |>
                    <| ports := insert local (Connected (new_conn m remote_port)) (ports m) |>)
                 [Emit (PortOpened remote_port local) None; NewPort local remote_port]
        end
  | ERejected remote_port no_ports =>
      if negb (mem remote_port (outstanding m)) then Panic SiteRejectedNotOutstanding
      else Done (m <| outstanding := del remote_port (outstanding m) |>) [Emit (Rejected remote_port no_ports) None]
  | ESendData remote_port first last n => Done m [Emit (Data remote_port first last) (Some n)]
  | ESendPorts remote_port first last wait ps =>
      let fix ins (l : list (N * N * N)) (pt : list (N * pstate)) : option (list (N * pstate)) :=
        match l with
        | [] => Some pt
        | (p, _, req) :: r =>
            match lookup p pt with
            | Some _ => None
            | None => ins r (insert p (Connecting req) pt)
            end
        end in
      match ins ps (ports m) with
      | None => Panic SiteSendPortsUsed
      | Some pt =>
          Done (m <| ports := pt |>)
               [Emit (PortData remote_port first last wait (map (fun x => fst (fst x)) ps)
                               (if with_ids m then Some (map (fun x => snd (fst x)) ps) else None)) None]
      end
  | EReturnCredits remote_port n => Done m [Emit (PortCredits remote_port n) None]
  | ESenderDropped p =>
      match lookup p (ports m) with
      | Some (Connected c) =>
          if tx_dropped c then Panic SiteSenderDroppedTwice
          else
            let m1 := m <| ports := insert p (Connected (c <| tx_dropped := true |>)) (ports m) |> in
            match maybe_free m1 p with
            | Some (m2, effs) => Done m2 (Emit (SendFinish (remote c)) None :: effs)
            | None => Panic SiteMaybeFree
            end
      | _ => Panic SiteSenderDroppedState
      end
  | EReceiverClosed p =>
      match lookup p (ports m) with
      | Some (Connected c) =>
          if rx_closed c || rx_dropped c then Panic SiteReceiverClosedTwice
          else Done (m <| ports := insert p (Connected (c <| rx_closed := true |>)) (ports m) |>)
                    [Emit (ReceiveClose (remote c)) None]
      | _ => Panic SiteReceiverClosedState
      end
  | EReceiverDropped p =>
      match lookup p (ports m) with
      | Some (Connected c) =>
          if rx_dropped c then Panic SiteReceiverDroppedTwice
          else
            let m1 := m <| ports := insert p (Connected (c <| rx_dropped := true |>)) (ports m) |> in
            match maybe_free m1 p with
            | Some (m2, effs) => Done m2 (Emit (ReceiveFinish (remote c)) None :: effs)
            | None => Panic SiteMaybeFree
            end
      | _ => Panic SiteReceiverDroppedState
      end
  | EAllClientsDropped => Done (m <| all_clients_dropped := true |>) [Emit ClientFinish None]
  | EListenerDropped => Done (m <| listen_open := false |>) [Emit ListenerFinish None]
  | EGoodbye => Done (m <| goodbye_sent := true |>) [Emit Goodbye None]
  end.

(** [handle_received_msg]; [paylen] is the length of the payload frame of a [Data] message *)
Definition handle_received (m : mux) (msg : Wire.msg) (paylen : N) : outcome :=
  match msg with
  | Reset => Proto PReset []
  | Hello _ _ => Proto PHello []
  | Ping => Done m []
  | OpenPort client_port wait id =>
      if mem client_port (outstanding m) then Proto POpenTwice []
      else
        let m1 := m <| outstanding := client_port :: outstanding m |> in
        let r := {| lr_remote := client_port; lr_id := match id with Some i => i | None => client_port end; lr_wait := wait |} in
        if listen_open m then
          let q := if wait then lq_wait m else lq_nowait m in
          if cfg_connect_queue m + 1 <=? q then Proto PTooManyOpen [DropRequest client_port]
          else Done (if wait then m1 <| lq_wait := q + 1 |> else m1 <| lq_nowait := q + 1 |>) [ToListener r]
        else Done m1 [DropRequest client_port]
  | PortOpened client_port server_port =>
      match lookup client_port (ports m) with
      | Some (Connecting req) =>
          Done (m <| ports := insert client_port (Connected (new_conn m server_port)) (ports m) |>)
               [NewPort client_port server_port; Respond req (RAccepted client_port server_port)]
      | Some (Connected _) => Proto PNotConnecting [DropNumber client_port]
      | None => Proto PNotConnecting []
      end
  | Rejected client_port no_ports =>
      match lookup client_port (ports m) with
      | Some (Connecting req) =>
          Done (m <| ports := remove client_port (ports m) |>) [Respond req (RRejected no_ports); DropNumber client_port]
      | Some (Connected _) => Proto PNotConnecting [DropNumber client_port]
      | None => Proto PNotConnecting []
      end
  | Data port first last =>
      match lookup port (ports m) with
      | Some (Connected c) =>
          if rx_open c then
            if (paylen <? 4294967296) && (paylen <=? cfg_chunk m) then
              let cost := N.max DATA_MIN_COST paylen in
              if (used c + cost <? 4294967296) && (used c + cost <=? cfg_buffer m) then
                Done (m <| ports := insert port (Connected (c <| rxq := rxq c ++ [(cost, [])] |>)) (ports m) |>) []
              else Proto POverdraw []
            else Proto PChunkSize []
          else Proto PDataNotConnected []
      | _ => Proto PDataNotConnected []
      end
  | PortData port first last wait ps ids =>
      match lookup port (ports m) with
      | Some (Connected c) =>
          if rx_open c then
            match ps with
            | [] => Proto PEmptyPorts []
            | _ =>
                let fix ins (l : list N) (o : list N) : option (list N) :=
                  match l with
                  | [] => Some o
                  | p :: r => if mem p o then None else ins r (p :: o)
                  end in
                match ins ps (outstanding m) with
                | None => Proto PPortTwice []
                | Some o =>
                    let size := PORT_COST * len ps in
                    if (size <? 4294967296) && (size <=? cfg_chunk m) then
                      if (used c + size <? 4294967296) && (used c + size <=? cfg_buffer m) then
                        Done (m <| outstanding := o |>
                                <| ports := insert port (Connected (c <| rxq := rxq c ++ [(size, ps)] |>)) (ports m) |>)
                             [PortRequests port ps]
                      else Proto POverdraw []
                    else Proto PPortChunk []
                end
            end
          else Proto PPortDataNotConnected []
      | _ => Proto PPortDataNotConnected []
      end
  | PortCredits port credits =>
      match lookup port (ports m) with
      | Some (Connected c) =>
          if pool c + credits <? 4294967296
          then Done (m <| ports := insert port (Connected (c <| pool := pool c + credits |>)) (ports m) |>) []
          else Proto PCreditOverflow []
      | _ => Proto PCreditsNotConnected []
      end
  | SendFinish port =>
      match lookup port (ports m) with
      | Some (Connected c) =>
          if rx_open c then
            let m1 := m <| ports := insert port (Connected (c <| rx_open := false |> <| rxq := rxq c ++ [(0, [])] |>)) (ports m) |> in
            match maybe_free m1 port with
            | Some (m2, effs) => Done m2 effs
            | None => Panic SiteMaybeFree
            end
          else Proto PSendFinishTwice []
      | _ => Proto PSendFinishNotConnected []
      end
  | ReceiveClose port =>
      match lookup port (ports m) with
      | Some (Connected c) =>
          if negb (rrx_closed c) then
            let m1 := m <| ports := insert port (Connected (c <| pool_closed := Some true |> <| rrx_closed := true |>)) (ports m) |> in
            match maybe_free m1 port with
            | Some (m2, effs) => Done m2 effs
            | None => Panic SiteMaybeFree
            end
          else Proto PRecvCloseTwice []
      | _ => Proto PRecvCloseNotConnected []
      end
  | ReceiveFinish port =>
      match lookup port (ports m) with
      | Some (Connected c) =>
          (* the credit provider is closed non-gracefully in any case; hang-up is notified once *)
          let c1 := c <| pool_closed := Some false |> <| rrx_closed := true |> in
          let m1 := m <| ports := insert port (Connected (c1 <| rrx_dropped := true |>)) (ports m) |> in
          match maybe_free m1 port with
          | Some (m2, effs) => Done m2 effs
          | None => Panic SiteMaybeFree
          end
      | _ => Proto PRecvFinishNotConnected []
      end
  | ClientFinish =>
      if listen_open m then
        if (cfg_connect_queue m + 1 <=? lq_wait m) || (cfg_connect_queue m + 1 <=? lq_nowait m)
        then Proto PTooManyClientFinish []
        else Done (m <| remote_client_dropped := true |> <| lq_wait := lq_wait m + 1 |> <| lq_nowait := lq_nowait m + 1 |>)
                  [ListenerClientDropped]
      else Done (m <| remote_client_dropped := true |>) []
  | ListenerFinish => Done (m <| remote_listener_dropped := true |>) []
  | Goodbye => Done (m <| goodbye_received := true |>) []
  end.

Definition mux_init (chunk buffer cq rbuffer ver : N) : mux :=
  {| cfg_chunk := chunk; cfg_buffer := buffer; cfg_connect_queue := cq; rcfg_buffer := rbuffer; remote_ver := ver;
     ports := []; outstanding := []; listen_open := true; lq_wait := 0; lq_nowait := 0; all_clients_dropped := false;
     remote_client_dropped := false; remote_listener_dropped := false; goodbye_sent := false; goodbye_received := false |}.
