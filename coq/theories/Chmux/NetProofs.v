(** Main results about the composition of two honest endpoints ([Net.v]): the invariant [NetInv]
    holds in every reachable state in which no protocol error has occurred; consequences for the
    pairing of ports (C10) and for the protocol errors that can occur at all. *)
From Remoc Require Import Lib.Base Gen.Consts Chmux.Wire Chmux.Mux Chmux.Endpoint Chmux.EndpointLemmas Chmux.EndpointInv
  Chmux.EndpointSteps Chmux.EndpointDisp Chmux.EndpointRecv Chmux.EndpointEffects Chmux.EndpointProofs Chmux.Net Chmux.NetInv
  Chmux.NetFrame Chmux.NetShape Chmux.NetLocal Chmux.NetLocal2 Chmux.NetStepLocal Chmux.NetSteps Chmux.NetRecvCore Chmux.NetRecvStep.
From RecordUpdate Require Import RecordUpdate.

(** * One delivery *)
Theorem sys_recv X Y L0 L' msg pl Y' :
  Sys X Y ((msg, pl) :: L0) L' -> step_opt Y (Recv msg (paylen_of pl)) = Some Y' ->
  (dead Y' = None -> Sys X Y' L0 L') /\ (forall err, dead Y' = Some err -> flow_class err = true).
Proof.
  intros (Hwx & Hwy & HC) H. pose proof (WF_step _ _ _ Hwy H) as Hw'. destruct (step_Inv _ _ _ Hwy H) as [_ Hd].
  pose proof (view_Recv _ _ _ _ H) as Hv. unfold recv_view in Hv.
  destruct (recv_mux_view Y) as [E1 E2].
  assert (Hbuf : forall y c, lookup y (ports (recv_mux Y)) = Some (Connected c) -> all4 c = false).
  { rewrite E1. intros y c Hl. apply (wf_buf _ Hwy _ _ Hl). }
  pose proof (recv_all (chq Y) L0 L' X (recv_mux Y) pl (paylen_of pl) Hbuf msg) as Hr. unfold recv_ok, CoreR in Hr.
  rewrite E1, E2 in Hr. specialize (Hr HC).
  destruct (handle_received (recv_mux Y) msg (paylen_of pl)) as [m' effs|err effs|s].
  - destruct Hv as (V1 & V2 & V3 & V4). split.
    + intros _. split; [exact Hwx|split; [exact Hw'|]]. now rewrite V1, V2.
    + intros err He. congruence.
  - split; [congruence|]. intros err' He. assert (err' = err) by congruence. now subst.
  - pose proof (wf_nopanic _ Hw'). congruence.
Qed.

(** * The invariant holds initially *)
Lemma Core_init : Core [] [] [] [] [] [] [] [].
Proof.
  constructor; try reflexivity.
  - intros y. cbn. auto.
  - intros y. cbn. auto.
  - intros p1 p2 c1 c2 H. discriminate.
  - intros p1 p2 c1 c2 H. discriminate.
  - intros p c H. discriminate.
  - intros p c H. discriminate.
  - constructor; [intros y H; cbn in H; lia|intros y H; cbn in H; lia|intros x c H; discriminate].
  - constructor; [intros y H; cbn in H; lia|intros y H; cbn in H; lia|intros x c H; discriminate].
Qed.

Theorem NetInv_init c : NetInv (net_init c).
Proof.
  unfold NetInv, net_init, Sys. cbn [na nb lab lba]. split; [apply WF_init|split; [apply WF_init|]]. apply Core_init.
Qed.

(** * Steps *)
Lemma healthy_step n a : healthy (nstep n a) -> healthy n.
Proof.
  unfold healthy. destruct a as [[|] a|[|]]; cbn [nstep].
  - destruct (is_recv a); [auto|]. cbn [na nb set RecordSet.set]. intros [H1 H2]. split; [eapply step_dead_mono; eauto|exact H2].
  - destruct (is_recv a); [auto|]. cbn [na nb set RecordSet.set]. intros [H1 H2]. split; [exact H1|eapply step_dead_mono; eauto].
  - destruct (lab n) as [|[m pl] l]; [auto|]. destruct (step_opt (nb n) (Recv m (paylen_of pl))) eqn:E; [|auto].
    cbn [na nb set RecordSet.set]. intros [H1 H2]. split; [exact H1|]. apply (step_dead_mono (nb n) (Recv m (paylen_of pl))).
    unfold step. now rewrite E.
  - destruct (lba n) as [|[m pl] l]; [auto|]. destruct (step_opt (na n) (Recv m (paylen_of pl))) eqn:E; [|auto].
    cbn [na nb set RecordSet.set]. intros [H1 H2]. split; [|exact H2]. apply (step_dead_mono (na n) (Recv m (paylen_of pl))).
    unfold step. now rewrite E.
Qed.

Lemma step_noop e a : step_opt e a = None -> step e a = e.
Proof. unfold step. now intros ->. Qed.

Theorem NetInv_step n a :
  NetInv n ->
  (healthy (nstep n a) -> NetInv (nstep n a)) /\
  (forall err, dead (na (nstep n a)) = Some err \/ dead (nb (nstep n a)) = Some err ->
     healthy n -> flow_class err = true).
Proof.
  unfold NetInv. intros HS. destruct a as [[|] a|[|]]; cbn [nstep].
  - (* local step of A *)
    destruct (is_recv a) eqn:Er.
    { split; [auto|]. intros err [H|H] [H1 H2]; congruence. }
    cbn [na nb lab lba set RecordSet.set]. destruct (step_opt (na n) a) as [e'|] eqn:E.
    + assert (step (na n) a = e') as -> by (unfold step; now rewrite E).
      destruct (sys_local _ _ _ _ _ _ HS Er E) as [H1 H2]. split; [auto|]. intros err [H|H] [K1 K2]; congruence.
    + rewrite (step_noop _ _ E). unfold new_frames. rewrite skipn_all, app_nil_r. split; [auto|].
      intros err [H|H] [K1 K2]; congruence.
  - (* local step of B *)
    destruct (is_recv a) eqn:Er.
    { split; [auto|]. intros err [H|H] [H1 H2]; congruence. }
    cbn [na nb lab lba set RecordSet.set]. destruct (step_opt (nb n) a) as [e'|] eqn:E.
    + assert (step (nb n) a = e') as -> by (unfold step; now rewrite E).
      destruct (sys_local _ _ _ _ _ _ (Sys_sym _ _ _ _ HS) Er E) as [H1 H2]. split; [intros _; now apply Sys_sym|].
      intros err [H|H] [K1 K2]; congruence.
    + rewrite (step_noop _ _ E). unfold new_frames. rewrite skipn_all, app_nil_r. split; [auto|].
      intros err [H|H] [K1 K2]; congruence.
  - (* delivery to B *)
    destruct (lab n) as [|[m pl] l] eqn:El.
    { rewrite ?El. split; [auto|]. intros err [H|H] [H1 H2]; congruence. }
    destruct (step_opt (nb n) (Recv m (paylen_of pl))) as [b'|] eqn:E.
    + cbn [na nb lab lba set RecordSet.set]. destruct (sys_recv _ _ _ _ _ _ _ HS E) as [H1 H2]. split.
      * intros [_ Hd]. auto.
      * intros err [H|H] [K1 K2]; [congruence|eauto].
    + rewrite ?El. split; [auto|]. intros err [H|H] [H1 H2]; congruence.
  - (* delivery to A *)
    destruct (lba n) as [|[m pl] l] eqn:El.
    { rewrite ?El. split; [auto|]. intros err [H|H] [H1 H2]; congruence. }
    destruct (step_opt (na n) (Recv m (paylen_of pl))) as [a'|] eqn:E.
    + cbn [na nb lab lba set RecordSet.set]. apply Sys_sym in HS. destruct (sys_recv _ _ _ _ _ _ _ HS E) as [H1 H2]. split.
      * intros [Hd _]. apply Sys_sym. auto.
      * intros err [H|H] [K1 K2]; [eauto|congruence].
    + rewrite ?El. split; [auto|]. intros err [H|H] [H1 H2]; congruence.
Qed.

(** * Every reachable state without a protocol error satisfies the invariant *)
Lemma nrun_snoc acts a n : nrun (acts ++ [a]) n = nstep (nrun acts n) a.
Proof. unfold nrun. now rewrite fold_left_app. Qed.

Theorem NetInv_reach c acts : healthy (nreach c acts) -> NetInv (nreach c acts).
Proof.
  unfold nreach. induction acts as [|a acts IH] using rev_ind; intros Hh.
  - apply NetInv_init.
  - rewrite nrun_snoc in *. apply (NetInv_step _ a); [|exact Hh]. apply IH. eapply healthy_step; eauto.
Qed.

(** the first protocol error of a run, if any, is of the flow / credit class *)
Theorem first_error_flow c acts a err :
  healthy (nreach c acts) ->
  dead (na (nstep (nreach c acts) a)) = Some err \/ dead (nb (nstep (nreach c acts) a)) = Some err ->
  flow_class err = true.
Proof. intros Hh He. eapply (NetInv_step _ a); eauto. now apply NetInv_reach. Qed.

(** * C10: pairing *)
(** the three situations of a connected port [p] of X (remote [q]) with respect to Y *)
Definition paired_or (PY : list (N * pstate)) (Lxy Lyx : list frame) (p : N) (cX : conn) : Prop :=
  (exists cY, lookup (remote cX) PY = Some (Connected cY) /\ remote cY = p) \/
  (exists r pl, lookup (remote cX) PY = Some (Connecting r) /\ In (PortOpened (remote cX) p, pl) Lxy) \/
  (tx_dropped cX = true /\ rx_dropped cX = true /\
   cnt (m_sf p) Lyx + b2n (negb (rx_open cX)) = 1 /\ cnt (m_rf p) Lyx + b2n (rrx_dropped cX) = 1 /\
   forall cY, lookup (remote cX) PY = Some (Connected cY) -> remote cY <> p).

Lemma pairing_dir X Y L L' p cX :
  Sys X Y L L' -> lookup p (ports (mx X)) = Some (Connected cX) -> paired_or (ports (mx Y)) L L' p cX.
Proof.
  intros (_ & _ & HC) Hl. pose proof (c_yx _ _ _ _ _ _ _ _ HC p) as Hp. unfold rx_clause in Hp. rewrite Hl in Hp.
  destruct Hp as (_ & _ & _ & _ & Hr & _). unfold paired_or.
  destruct (pstat (ports (mx Y)) L (remote cX) p) as [| |cY] eqn:Es.
  - right. right. destruct (r_gone _ _ _ _ Hr eq_refl) as [G1 G2]. pose proof (r_sf _ _ _ _ Hr) as S1. pose proof (r_rf _ _ _ _ Hr) as S2.
    cbn [txf rxf b2n] in S1, S2. repeat split; auto.
    intros cY HY E. rewrite (pstat_live_intro _ _ _ _ _ HY E) in Es. discriminate.
  - right. left. apply pstat_pend in Es as [(r & Hr') Hc]. apply cnt_pos_In in Hc as ([m pl] & Hin & Hm). cbn [fst] in Hm.
    destruct m; try discriminate. cbn [m_pox] in Hm. apply andb_true_iff in Hm as [M1 M2]. apply N.eqb_eq in M1, M2. subst.
    exists r, pl. auto.
  - left. apply pstat_live in Es as [E1 E2]. eauto.
Qed.

Theorem pairing c acts :
  let n := nreach c acts in
  healthy n ->
  (forall p cA, lookup p (ports (mx (na n))) = Some (Connected cA) -> paired_or (ports (mx (nb n))) (lab n) (lba n) p cA) /\
  (forall q cB, lookup q (ports (mx (nb n))) = Some (Connected cB) -> paired_or (ports (mx (na n))) (lba n) (lab n) q cB) /\
  inj_ok (ports (mx (na n))) /\ inj_ok (ports (mx (nb n))).
Proof.
  intros n Hh. pose proof (NetInv_reach c acts Hh) as HS. fold n in HS. unfold NetInv in HS. repeat split.
  - intros p cA Hl. eapply pairing_dir; eauto.
  - intros q cB Hl. eapply pairing_dir; [apply Sys_sym; exact HS|exact Hl].
  - destruct HS as (_ & _ & HC). eapply c_injx; eauto.
  - destruct HS as (_ & _ & HC). eapply c_injy; eauto.
Qed.

(** two ports that name each other are connected to no other port *)
Corollary paired_exclusive c acts p q cA cB :
  let n := nreach c acts in
  healthy n ->
  lookup p (ports (mx (na n))) = Some (Connected cA) -> remote cA = q ->
  lookup q (ports (mx (nb n))) = Some (Connected cB) -> remote cB = p ->
  (forall p' c', lookup p' (ports (mx (na n))) = Some (Connected c') -> remote c' = q -> p' = p) /\
  (forall q' c', lookup q' (ports (mx (nb n))) = Some (Connected c') -> remote c' = p -> q' = q).
Proof.
  intros n Hh HA EA HB EB. destruct (pairing c acts Hh) as (_ & _ & IA & IB). fold n in IA, IB. split.
  - intros p' c' H E. eapply IA; eauto. congruence.
  - intros q' c' H E. eapply IB; eauto. congruence.
Qed.

(** * Both endpoints stay well-formed (no panic, allocator sound), with or without protocol errors *)
Theorem WF_net c acts : WF (na (nreach c acts)) /\ WF (nb (nreach c acts)).
Proof.
  unfold nreach. induction acts as [|a acts IH] using rev_ind.
  - split; apply WF_init.
  - rewrite nrun_snoc. destruct IH as [Ha Hb]. destruct a as [[|] a|[|]]; cbn [nstep].
    + destruct (is_recv a); [auto|]. cbn [na nb set RecordSet.set]. split; [now apply WF_stepf|exact Hb].
    + destruct (is_recv a); [auto|]. cbn [na nb set RecordSet.set]. split; [exact Ha|now apply WF_stepf].
    + destruct (lab _) as [|[m pl] l]; [auto|]. destruct (step_opt _ _) eqn:E; [|auto].
      cbn [na nb set RecordSet.set]. split; [exact Ha|exact (WF_step _ _ _ Hb E)].
    + destruct (lba _) as [|[m pl] l]; [auto|]. destruct (step_opt _ _) eqn:E; [|auto].
      cbn [na nb set RecordSet.set]. split; [exact (WF_step _ _ _ Ha E)|exact Hb].
Qed.
