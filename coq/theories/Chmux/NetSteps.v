(** The composed invariant [Sys] is kept by every local step of one endpoint. *)
From Remoc Require Import Lib.Base Gen.Consts Chmux.Wire Chmux.Mux Chmux.Endpoint Chmux.EndpointLemmas Chmux.EndpointInv
  Chmux.EndpointSteps Chmux.EndpointDisp Chmux.EndpointEffects Chmux.EndpointProofs Chmux.Net Chmux.NetInv Chmux.NetFrame
  Chmux.NetShape Chmux.NetLocal Chmux.NetLocal2 Chmux.NetStepLocal.
From RecordUpdate Require Import RecordUpdate.

Lemma step_Inv e a e' : WF e -> step_opt e a = Some e' -> Inv e /\ dead e = None.
Proof.
  intros Hw H. destruct (alive_spec _ (step_alive _ _ _ H)) as (Hd & _). split; [apply (wf_inv _ Hw Hd)|exact Hd].
Qed.

Lemma sys_same X X' Y L L' : Sys X Y L L' -> WF X' -> same_view X X' -> Sys X' Y (L ++ new_frames X X') L'.
Proof.
  intros (H1 & H2 & H3) Hw (E1 & E2 & E3 & E4 & E5). rewrite (new_frames_same _ _ E4), app_nil_r.
  split; [exact Hw|split; [exact H2|]]. now rewrite E1, E2, E3.
Qed.

Lemma sys_push X X' Y L L' ev :
  Sys X Y L L' -> WF X' -> push_view X X' ev -> chq_ok (ports (mx X)) (chq X ++ [ev]) -> Sys X' Y (L ++ new_frames X X') L'.
Proof.
  intros (H1 & H2 & H3) Hw (E1 & E2 & E3 & E4 & E5) Hq. rewrite (new_frames_same _ _ E4), app_nil_r.
  split; [exact Hw|split; [exact H2|]]. rewrite E1, E2, E3. eapply core_chq; eauto.
Qed.

(** a live sender / receiver handle: the flag is clear and no drop notification is queued *)
Lemma handle_tx_alive e p h c :
  Inv e -> lookup p (handles e) = Some h -> h_tx h = Alive -> lookup p (ports (mx e)) = Some (Connected c) ->
  tx_dropped c = false /\ count (is_sd p) (chq e) = 0.
Proof.
  intros Hi Hh Ha Hl. pose proof (inv_h _ Hi p) as H. unfold hok1 in H. rewrite Hl, (hget_some _ _ _ Hh), Ha in H.
  destruct H as (H1 & _ & _ & _ & _ & _ & H6 & _). cbn [is_queued is_gone b2n] in *. auto.
Qed.
Lemma handle_rx_alive e p h c :
  Inv e -> lookup p (handles e) = Some h -> h_rx h = Alive -> lookup p (ports (mx e)) = Some (Connected c) ->
  rx_dropped c = false /\ count (is_rd p) (chq e) = 0.
Proof.
  intros Hi Hh Ha Hl. pose proof (inv_h _ Hi p) as H. unfold hok1 in H. rewrite Hl, (hget_some _ _ _ Hh), Ha in H.
  destruct H as (_ & H2 & _ & _ & _ & _ & _ & H7 & _). cbn [is_queued is_gone b2n] in *. auto.
Qed.

Lemma sys_of_coreM X X' Y L L' fs :
  WF X' -> WF Y -> sent X' = sent X ++ fs -> CoreM (mx X') (chq X') Y (L ++ fs) L' -> Sys X' Y (L ++ new_frames X X') L'.
Proof. intros Hw Hy Hs HC. rewrite (new_frames_app _ _ _ Hs). split; [exact Hw|split; [exact Hy|exact HC]]. Qed.

Theorem sys_local X Y L L' a X' :
  Sys X Y L L' -> is_recv a = false -> step_opt X a = Some X' -> Sys X' Y (L ++ new_frames X X') L' /\ dead X' = dead X.
Proof.
  intros HS Hr H. pose proof HS as (Hwx & Hwy & HC). pose proof (WF_step _ _ _ Hwx H) as Hw'.
  destruct (step_Inv _ _ _ Hwx H) as [Hi Hd].
  assert (Hpush : forall ev, push_view X X' ev -> chq_ok (ports (mx X)) (chq X ++ [ev]) ->
                    Sys X' Y (L ++ new_frames X X') L' /\ dead X' = dead X).
  { intros ev Hp Hq. split; [eapply sys_push; eauto|apply Hp]. }
  assert (Hsame : same_view X X' -> Sys X' Y (L ++ new_frames X X') L' /\ dead X' = dead X).
  { intros Hv. split; [eapply sys_same; eauto|apply Hv]. }
  pose proof (c_chx _ _ _ _ _ _ _ _ HC) as Hq. pose proof (c_injx _ _ _ _ _ _ _ _ HC) as Hinj.
  destruct a; try discriminate.
  - apply Hsame. eapply view_UConnect; eauto.
  - destruct (view_USendPorts _ _ _ _ _ _ _ H) as (h & c & A1 & A2 & A3 & A4). apply (Hpush _ A4).
    destruct (handle_tx_alive _ _ _ _ Hi A1 A2 A3) as [T1 T2].
    eapply chq_ok_push_send; eauto; try reflexivity; cbn [ev_sends]; try apply N.eqb_refl.
    intros y Hy. apply N.eqb_neq. congruence.
  - apply Hsame. eapply view_UDropClients; eauto.
  - apply Hsame. eapply view_UDropListener; eauto.
  - apply Hsame. eapply view_UListenerTake; eauto.
  - apply (Hpush _ (view_UAccept _ _ _ _ H)). apply chq_ok_push_other; auto.
  - apply (Hpush _ (view_UReject _ _ _ _ H)). apply chq_ok_push_other; auto.
  - apply Hsame. eapply view_UDropRequest; eauto.
  - destruct (view_USendData _ _ _ _ _ _ H) as (h & c & A1 & A2 & A3 & A4). apply (Hpush _ A4).
    destruct (handle_tx_alive _ _ _ _ Hi A1 A2 A3) as [T1 T2].
    eapply chq_ok_push_send; eauto; try reflexivity; cbn [ev_sends]; try apply N.eqb_refl.
    intros y Hy. apply N.eqb_neq. congruence.
  - (* UConsume *)
    destruct (view_UConsume _ _ _ H) as (c & q0 & x0 & A1 & A2 & A3 & A4 & A5 & A6 & A7).
    split; [|exact A7]. rewrite (new_frames_same _ _ A6), app_nil_r. split; [exact Hw'|split; [exact Hwy|]].
    rewrite A3, A4, A5. eapply core_flags; [exact HC|exact A1| | | |].
    + now rewrite lookup_insert, N.eqb_refl.
    + intros k Hk. apply N.eqb_neq in Hk. now rewrite lookup_insert, Hk.
    + unfold flags_eq. prj. auto 10.
    + reflexivity.
  - destruct (view_UReturnCredits _ _ _ _ H) as (h & c & A1 & A2 & A3 & A4). apply (Hpush _ A4).
    destruct (handle_rx_alive _ _ _ _ Hi A1 A2 A3) as [T1 T2]. eapply chq_ok_push_cred; eauto.
  - apply (Hpush _ (view_UCloseRx _ _ _ H)). apply chq_ok_push_other; auto.
  - apply Hsame. eapply view_UDropRx; eauto.
  - apply Hsame. eapply view_UDropTx; eauto.
  - apply Hsame. eapply view_UTerminate; eauto.
  - apply (Hpush _ (view_NTx _ _ _ H)). apply chq_ok_push_other; auto.
  - apply (Hpush _ (view_NRx _ _ _ H)). apply chq_ok_push_other; auto.
  - apply (Hpush _ (view_NReq _ _ _ H)). apply chq_ok_push_other; auto.
  - (* DPort *)
    destruct (view_DPort _ _ H) as (ev & q & Eq & Hv).
    destruct (disp_done _ _ _ _ Hv (wf_nopanic _ Hw')) as (m & effs & He & E1 & E2 & E3 & E4). split; [|exact E4].
    eapply sys_of_coreM; [exact Hw'|exact Hwy|exact E3|]. rewrite E1, E2.
    assert (HC0 : CoreM (mx X) (ev :: q) Y L L') by (unfold CoreM; rewrite <- Eq; exact HC).
    pose proof (inv_qs _ Hi) as [_ Hqs]. rewrite Eq in Hqs. cbn [forallb] in Hqs. apply andb_true_iff in Hqs as [Hev _].
    destruct ev; try discriminate.
    + (* EAccepted *)
      assert (Hl : lookup local (ports (mx X)) = None).
      { pose proof (inv_num _ Hi local) as Hn. rewrite Eq, q_nums_cons in Hn. cbn [ev_nums app] in Hn.
        rewrite occ_cons, N.eqb_refl in Hn. cbn [b2n] in Hn. pose proof (b2n_le1 (mem local (alloc X))).
        destruct (lookup local (ports (mx X))); [cbn [isK] in Hn; lia|reflexivity]. }
      destruct (ev_Accepted _ _ _ _ _ _ _ _ _ HC0 Hl He) as [A1 A2]. now rewrite A1.
    + destruct (ev_Rejected _ _ _ _ _ _ _ _ _ HC0 He) as [A1 A2]. now rewrite A1.
    + cbn [handle_event] in He. apply done_inj in He as [<- <-]. cbn [emits]. now apply ev_SendData.
    + rewrite ins_ports_eq in He. destruct (ins_ports ps (ports (mx X))) as [pt|] eqn:Ei; [|discriminate].
      apply done_inj in He as [<- <-]. cbn [emits]. now apply ev_SendPorts.
    + cbn [handle_event] in He. apply done_inj in He as [<- <-]. cbn [emits]. now apply ev_ReturnCredits.
    + destruct (ev_SenderDropped _ _ _ _ _ _ _ _ HC0 He) as (c & A0 & A1 & A2). now rewrite A1.
    + destruct (ev_ReceiverClosed _ _ _ _ _ _ _ _ HC0 He) as (c & A0 & A1 & A2). now rewrite A1.
    + destruct (ev_ReceiverDropped _ _ _ _ _ _ _ _ HC0 He) as (c & A0 & A1 & A2). now rewrite A1.
  - (* DConn *)
    destruct (view_DConn _ _ H) as (ev & q & Eq & Hv).
    destruct (disp_done _ _ _ _ Hv (wf_nopanic _ Hw')) as (m & effs & He & E1 & E2 & E3 & E4). split; [|exact E4].
    eapply sys_of_coreM; [exact Hw'|exact Hwy|exact E3|]. rewrite E1, E2.
    pose proof (inv_qs _ Hi) as [Hqs _]. rewrite Eq in Hqs. cbn [forallb] in Hqs. apply andb_true_iff in Hqs as [Hev _].
    destruct ev; try discriminate.
    + eapply ev_ConnectReq; eauto.
    + cbn [handle_event] in He. apply done_inj in He as [<- <-]. cbn [emits]. eapply ev_flag; eauto.
  - (* DListenerDropped *)
    pose proof (view_DListenerDropped _ _ H) as Hv.
    destruct (disp_done _ _ _ _ Hv (wf_nopanic _ Hw')) as (m & effs & He & E1 & E2 & E3 & E4). split; [|exact E4].
    eapply sys_of_coreM; [exact Hw'|exact Hwy|exact E3|]. rewrite E1, E2.
    cbn [handle_event] in He. apply done_inj in He as [<- <-]. cbn [emits]. eapply ev_flag; eauto.
  - (* DGoodbye *)
    pose proof (view_DGoodbye _ _ H) as Hv.
    destruct (disp_done _ _ _ _ Hv (wf_nopanic _ Hw')) as (m & effs & He & E1 & E2 & E3 & E4). split; [|exact E4].
    eapply sys_of_coreM; [exact Hw'|exact Hwy|exact E3|]. rewrite E1, E2.
    cbn [handle_event] in He. apply done_inj in He as [<- <-]. cbn [emits]. eapply ev_flag; eauto.
Qed.
