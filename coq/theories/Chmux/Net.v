(** Two honest chmux endpoints ([Endpoint.v]) joined by two FIFO links.

    The state is the two endpoint states plus the messages in flight in each direction.  A local
    action of one endpoint is any [act] except [Recv]; whatever that step hands to the transport
    (the new suffix of [sent]) is appended to the outgoing link at once.  [Deliver s] takes the head
    of the link leaving side [s] and performs [Recv m paylen] at the other endpoint; an endpoint
    whose dispatcher has ended ([step_opt = None]) consumes nothing.

    Every definition is a total computable function; all nondeterminism is in the action list. *)
From Remoc Require Import Lib.Base Gen.Consts Chmux.Wire Chmux.Mux Chmux.Endpoint.
From RecordUpdate Require Import RecordUpdate.

Inductive side := SA | SB.

Definition frame : Type := (Wire.msg * option N)%type.

Record net := mk_net {
  na : ep;                (** endpoint A *)
  nb : ep;                (** endpoint B *)
  lab : list frame;       (** in flight from A to B, head = oldest *)
  lba : list frame        (** in flight from B to A *)
}.
#[global] Instance eta_net : Settable _ := settable! mk_net <na; nb; lab; lba>.

Inductive nact :=
| Loc (s : side) (a : act)       (** local user / helper-task / dispatcher action of endpoint [s] *)
| Deliver (s : side).            (** the oldest frame sent by [s] reaches the other endpoint *)

Definition is_recv (a : act) : bool := match a with Recv _ _ => true | _ => false end.

Definition paylen_of (pl : option N) : N := match pl with Some n => n | None => 0 end.

(** what a step has newly handed to the transport *)
Definition new_frames (e e' : ep) : list frame := skipn (length (sent e)) (sent e').

Definition nstep (n : net) (a : nact) : net :=
  match a with
  | Loc SA a =>
      if is_recv a then n else
      let e' := step (na n) a in n <| na := e' |> <| lab := lab n ++ new_frames (na n) e' |>
  | Loc SB a =>
      if is_recv a then n else
      let e' := step (nb n) a in n <| nb := e' |> <| lba := lba n ++ new_frames (nb n) e' |>
  | Deliver SA =>
      match lab n with
      | (m, pl) :: l =>
          match step_opt (nb n) (Recv m (paylen_of pl)) with
          | Some b' => n <| nb := b' |> <| lab := l |>
          | None => n
          end
      | [] => n
      end
  | Deliver SB =>
      match lba n with
      | (m, pl) :: l =>
          match step_opt (na n) (Recv m (paylen_of pl)) with
          | Some a' => n <| na := a' |> <| lba := l |>
          | None => n
          end
      | [] => n
      end
  end.

Definition nrun (acts : list nact) (n : net) : net := fold_left nstep acts n.

(** Configurations as the handshake leaves them: each side knows the other's receive buffer, both
    speak protocol version 3. *)
Record ncfg := mk_ncfg {
  a_chunk : N; a_buffer : N; a_cq : N; a_maxp : N;
  b_chunk : N; b_buffer : N; b_cq : N; b_maxp : N
}.

Definition net_init (c : ncfg) : net :=
  {| na := ep_init (mux_init (a_chunk c) (a_buffer c) (a_cq c) (b_buffer c) 3) (a_maxp c);
     nb := ep_init (mux_init (b_chunk c) (b_buffer c) (b_cq c) (a_buffer c) 3) (b_maxp c);
     lab := []; lba := [] |}.

Definition nreach (c : ncfg) (acts : list nact) : net := nrun acts (net_init c).

(** no protocol error so far on either side *)
Definition healthy (n : net) : Prop := dead (na n) = None /\ dead (nb n) = None.
