(** C07 for the composed system, continued: the remaining dispatcher steps and deliveries keep
    "no user object left" and decrease the measure. *)
From Remoc Require Import Lib.Base Gen.Consts Chmux.Wire Chmux.Mux Chmux.Endpoint Chmux.EndpointLemmas Chmux.EndpointInv
  Chmux.EndpointSteps Chmux.EndpointDisp Chmux.EndpointRecv Chmux.EndpointEffects Chmux.EndpointProofs Chmux.EndpointDeath
  Chmux.Net Chmux.NetInv Chmux.NetFrame Chmux.NetShape Chmux.NetQuiet.
From RecordUpdate Require Import RecordUpdate.

Lemma q_DConn e e' : step_opt e DConn = Some e' -> equiet e -> panicked e' = None ->
  equiet e' /\ w_ep e' + sum (map w_frame (new_frames e e')) + 1 <= w_ep e /\ cnt m_ispo (new_frames e e') = 0 /\ dead e' = dead e.
Proof.
  intros H Hq Hp. pose proof Hq as [Q1 Q2 Q3 Q4 Q5 Q6]. pose proof (view_DConn _ _ H) as (ev & q & Eq & Hv).
  destruct (disp_done _ _ _ _ Hv Hp) as (m & effs & He & E1 & E2 & E3 & E4).
  rewrite (new_frames_app _ _ _ E3).
  pose proof (he_weight _ _ _ _ He) as Hw. pose proof (w_flags_he _ _ _ _ He) as Hf.
  destruct (he_flags _ _ _ _ He) as (_ & _ & Hpo & _).
  open_step H. destruct (negb (sending e)); [discriminate|]. rewrite Eq in H. inj H. rewrite He.
  set (e1 := e <| cq := q |>).
  assert (Ha : is_acc ev = false /\ count is_acc q = 0).
  { rewrite Eq, count_cons in Q6. destruct (is_acc ev); [cbn [b2n] in Q6; lia|split; [reflexivity|lia]]. }
  destruct Ha as [Ha Haq]. rewrite Ha in Hpo. cbn [b2n] in Hpo.
  assert (Hq1 : equiet e1) by (constructor; prj; auto).
  assert (Hw1 : w_parts e1 + w_ev ev = w_parts e) by (unfold w_parts, e1; prj; rewrite Eq; cbn [map sum]; lia).
  destruct (q_after e1 _ _ _ _ He Ha Hq1) as [A1 A2].
  split; [exact A1|split; [|split; [exact Hpo|]]].
  - rewrite A2. rewrite (w_ep_eq e). fold (w_parts e) (w_flags (mx e)). lia.
  - destruct (finish_Done_view e1 m effs) as (_ & _ & _ & V4). rewrite V4. reflexivity.
Qed.

Lemma q_DListenerDropped e e' : step_opt e DListenerDropped = Some e' -> equiet e -> panicked e' = None ->
  equiet e' /\ w_ep e' + sum (map w_frame (new_frames e e')) + 1 <= w_ep e /\ cnt m_ispo (new_frames e e') = 0 /\ dead e' = dead e.
Proof.
  intros H Hq Hp. pose proof (view_DListenerDropped _ _ H) as Hv.
  destruct (disp_done _ _ _ _ Hv Hp) as (m & effs & He & E1 & E2 & E3 & E4).
  rewrite (new_frames_app _ _ _ E3).
  open_step H. destruct (sending e && negb (listener_alive e) && listen_open (mx e)) eqn:Eg; [|discriminate]. bools.
  inj H. rewrite He. cbn [handle_event] in He. apply done_inj in He as [<- <-].
  assert (He' : handle_event (mx e) EListenerDropped = Done (mx e <| listen_open := false |>) [Emit ListenerFinish None]) by reflexivity.
  destruct (q_after e _ _ _ _ He' eq_refl Hq) as [A1 A2].
  split; [exact A1|split; [|split; [reflexivity|apply finish_Done_view]]].
  rewrite A2, (w_ep_eq e). fold (w_parts e). unfold w_flags. prj. rewrite H1. cbn [emits map sum w_frame w_msg fst]. lia.
Qed.

Lemma q_DGoodbye e e' : step_opt e DGoodbye = Some e' -> equiet e -> panicked e' = None ->
  equiet e' /\ w_ep e' + sum (map w_frame (new_frames e e')) + 1 <= w_ep e /\ cnt m_ispo (new_frames e e') = 0 /\ dead e' = dead e.
Proof.
  intros H Hq Hp. pose proof (view_DGoodbye _ _ H) as Hv.
  destruct (disp_done _ _ _ _ Hv Hp) as (m & effs & He & E1 & E2 & E3 & E4).
  rewrite (new_frames_app _ _ _ E3).
  open_step H. destruct (negb (goodbye_sent (mx e)) && (should_terminate (mx e) || terminate_req e)) eqn:Eg; [|discriminate]. bools.
  inj H. rewrite He. cbn [handle_event] in He. apply done_inj in He as [<- <-].
  assert (He' : handle_event (mx e) EGoodbye = Done (mx e <| goodbye_sent := true |>) [Emit Goodbye None]) by reflexivity.
  destruct (q_after e _ _ _ _ He' eq_refl Hq) as [A1 A2].
  split; [exact A1|split; [|split; [reflexivity|apply finish_Done_view]]].
  rewrite A2, (w_ep_eq e). fold (w_parts e). unfold w_flags. prj. rewrite H0. cbn [emits map sum w_frame w_msg fst].
  destruct (listen_open (mx e)); lia.
Qed.

(** a delivery that does not end in a protocol error *)
Lemma q_Recv e msg n e' : step_opt e (Recv msg n) = Some e' -> equiet e -> m_ispo msg = false -> dead e' = None ->
  equiet e' /\ w_ep e' + 1 <= w_ep e + w_msg msg /\ sent e' = sent e.
Proof.
  intros H Hq Hpo Hd. pose proof Hq as [Q1 Q2 Q3 Q4 Q5 Q6]. pose proof (view_Recv _ _ _ _ H) as Hv. unfold recv_view in Hv.
  open_step H. cbv zeta in H. fold (recv_mux e) in H. inj H.
  destruct (handle_received (recv_mux e) msg n) as [m' effs|err effs|s] eqn:Hr.
  2:{ cbn [finish] in Hd. unfold resolve_waiting in Hd. prj. discriminate. }
  2:{ cbn [finish] in Hd. pose proof (handle_received_never_panics (recv_mux e) msg n) as Hn. rewrite Hr in Hn. contradiction. }
  destruct Hv as (V1 & V2 & V3 & V4). destruct (hr_flags _ _ _ _ _ Hr) as (Hf & Hn & Hw). rewrite Hpo in Hn. cbn [b2n] in Hn.
  set (e1 := e <| mx := recv_mux e |>) in *.
  destruct (finish_Done_fields e1 m' effs) as (F1 & F2 & F3 & F4 & F5). cbv zeta in *.
  destruct (apply_effs_reqs effs (e1 <| mx := m' |>) Hn) as (R1 & R2 & R3); prj; auto.
  { intros p h Hl. apply (Q3 _ _ Hl). }
  destruct (apply_effs_misc effs (e1 <| mx := m' |>)) as (M1 & M2 & M3 & M4). prj.
  split; [|split; [|exact V3]].
  - constructor; rewrite ?F1, ?F2, ?F3, ?F4, ?F5, ?R1, ?M1, ?M2, ?M3, ?V2; prj; eauto.
  - rewrite !w_ep_eq, V1, V2, F1, F2, F3, R1, M1. prj.
    assert (w_flags m' = w_flags (mx e)).
    { unfold flags_of in Hf. injection Hf as _ G2 G3 _. unfold w_flags. rewrite G2, G3. unfold recv_mux. destruct (listener_alive e); reflexivity. }
    unfold e1 in *. prj. lia.
Qed.
