(** Each dispatcher event of X, at the level of the multiplexer state: what [handle_event] does to
    the table, the outstanding requests and the link, and that the composed invariant survives. *)
From Remoc Require Import Lib.Base Gen.Consts Chmux.Wire Chmux.Mux Chmux.Endpoint Chmux.EndpointLemmas Chmux.EndpointInv
  Chmux.EndpointSteps Chmux.EndpointDisp Chmux.EndpointEffects Chmux.Net Chmux.NetInv Chmux.NetFrame Chmux.NetShape
  Chmux.NetLocal Chmux.NetLocal2.
From RecordUpdate Require Import RecordUpdate.

(** the invariant with X's multiplexer state [m] and event queue [q] made explicit *)
Definition CoreM (m : mux) (q : list evt) (Y : ep) (L L' : list frame) : Prop :=
  Core (ports m) (ports (mx Y)) (outstanding m) (outstanding (mx Y)) q (chq Y) L L'.

Lemma ins_ports_spec : forall ps pt pt', ins_ports ps pt = Some pt' ->
  let nums := map (fun x => fst (fst x)) ps in
  (forall k, mem k nums = false -> lookup k pt' = lookup k pt) /\
  (forall k, mem k nums = true -> lookup k pt = None /\ exists r, lookup k pt' = Some (Connecting r)) /\
  (forall k, occ k nums = b2n (mem k nums)).
Proof.
  induction ps as [|[[p id] req] ps IH]; intros pt pt' H; cbn [ins_ports map fst] in *.
  - injection H as <-. cbn zeta. split; [auto|split; [intros k Hk; discriminate|intros k; reflexivity]].
  - destruct (lookup p pt) eqn:Ep; [discriminate|]. destruct (IH _ _ H) as (I1 & I2 & I3). cbn zeta in *.
    set (nums := map (fun x => fst (fst x)) ps) in *.
    assert (Hp : mem p nums = false).
    { destruct (mem p nums) eqn:E; [|reflexivity]. destruct (I2 _ E) as [A _]. rewrite lookup_insert, N.eqb_refl in A. discriminate. }
    split; [|split].
    + intros k Hk. cbn [mem] in Hk. apply orb_false_iff in Hk as [K1 K2]. rewrite (I1 _ K2), lookup_insert, K1. reflexivity.
    + intros k Hk. cbn [mem] in Hk. destruct (k =? p) eqn:E.
      * apply N.eqb_eq in E. subst k. split; [exact Ep|]. rewrite (I1 _ Hp), lookup_insert, N.eqb_refl. eauto.
      * cbn [orb] in Hk. destruct (I2 _ Hk) as [A B]. rewrite lookup_insert, E in A. auto.
    + intros k. rewrite occ_cons, I3. cbn [mem]. rewrite (N.eqb_sym p k). destruct (k =? p) eqn:E; cbn [orb b2n]; [|lia].
      apply N.eqb_eq in E. subst k. rewrite Hp. reflexivity.
Qed.

Section Events.
  Variables (m : mux) (q : list evt) (Y : ep) (L L' : list frame).

  (** ** events that do not touch the table *)
  Lemma ev_plain ev fr m' :
    CoreM m (ev :: q) Y L L' -> ports m' = ports m -> outstanding m' = outstanding m ->
    (forall y, m_addr y (fst fr) = false) -> (forall x, m_intro x (fst fr) = false) -> m_bad (fst fr) = false ->
    CoreM m' q Y (L ++ [fr]) L'.
  Proof.
    unfold CoreM. intros HC -> -> A1 A2 A3. eapply core_plain; eauto. eapply chq_ok_pop_any. eapply c_chx; eauto.
  Qed.

  Lemma ev_SendData rp f l n :
    CoreM m (ESendData rp f l n :: q) Y L L' -> CoreM m q Y (L ++ [(Data rp f l, Some n)]) L'.
  Proof.
    unfold CoreM. intros HC. pose proof (c_chx _ _ _ _ _ _ _ _ HC) as Hq.
    destruct (ch_send _ _ Hq rp) as (x & c & H1 & H2 & H3); [rewrite count_cons; cbn [ev_sends]; rewrite N.eqb_refl; cbn [b2n]; lia|].
    apply (core_emit _ _ _ _ _ _ _ _ _ _ x rp c c _ [] HC H1 H2 (or_introl H3));
      [exact H1|auto|intros k Hk; discriminate|reflexivity|reflexivity|exact H2|reflexivity|reflexivity|reflexivity
      | |reflexivity|reflexivity|reflexivity| |eapply chq_ok_pop_any; eauto].
    - intros y0 Hne. mev. apply N.eqb_neq. congruence.
    - intros cY. apply step_data; auto; mev; reflexivity.
  Qed.

  Lemma ev_ReturnCredits rp n :
    CoreM m (EReturnCredits rp n :: q) Y L L' -> CoreM m q Y (L ++ [(PortCredits rp n, None)]) L'.
  Proof.
    unfold CoreM. intros HC. pose proof (c_chx _ _ _ _ _ _ _ _ HC) as Hq.
    destruct (ch_cred _ _ Hq rp) as (x & c & H1 & H2 & H3); [rewrite count_cons; cbn [ev_creds]; rewrite N.eqb_refl; cbn [b2n]; lia|].
    apply (core_emit _ _ _ _ _ _ _ _ _ _ x rp c c _ [] HC H1 H2 (or_intror H3));
      [exact H1|auto|intros k Hk; discriminate|reflexivity|reflexivity|exact H2|reflexivity|reflexivity|reflexivity
      | |reflexivity|reflexivity|reflexivity| |eapply chq_ok_pop_any; eauto].
    - intros y0 Hne. mev. apply N.eqb_neq. congruence.
    - intros cY. now apply step_cred.
  Qed.

  Lemma ev_SendPorts rp f l w ps pt' ids :
    CoreM m (ESendPorts rp f l w ps :: q) Y L L' -> ins_ports ps (ports m) = Some pt' ->
    CoreM (m <| ports := pt' |>) q Y (L ++ [(PortData rp f l w (map (fun x => fst (fst x)) ps) ids, None)]) L'.
  Proof.
    unfold CoreM. prj. intros HC Hi. pose proof (c_chx _ _ _ _ _ _ _ _ HC) as Hq.
    destruct (ch_send _ _ Hq rp) as (x & c & H1 & H2 & H3); [rewrite count_cons; cbn [ev_sends]; rewrite N.eqb_refl; cbn [b2n]; lia|].
    destruct (ins_ports_spec _ _ _ Hi) as (I1 & I2 & I3). cbn zeta in *.
    set (nums := map (fun x => fst (fst x)) ps) in *.
    assert (Hx : mem x nums = false).
    { destruct (mem x nums) eqn:E; [|reflexivity]. destruct (I2 _ E) as [A _]. congruence. }
    assert (Hch : chq_ok pt' q).
    { eapply chq_ok_same_keys; [eapply chq_ok_pop_any; eauto| |].
      - intros k d A. destruct (mem k nums) eqn:E; [destruct (I2 _ E) as [B _]; congruence|]. now rewrite (I1 _ E).
      - intros k d A. destruct (mem k nums) eqn:E; [destruct (I2 _ E) as (_ & r & B); congruence|]. now rewrite <- (I1 _ E). }
    apply (core_emit _ _ _ _ _ _ _ _ _ _ x rp c c _ nums HC H1 H2 (or_introl H3));
      [rewrite (I1 _ Hx); exact H1|intros k _ Hk; apply (I1 _ Hk)|exact I2|intros k; mev; apply I3|reflexivity|exact H2
      |reflexivity|reflexivity|reflexivity| |reflexivity|reflexivity|reflexivity| |exact Hch].
    - intros y0 Hne. mev. apply N.eqb_neq. congruence.
    - intros cY. apply step_data; auto; mev; reflexivity.
  Qed.
End Events.

(** [maybe_free_port] keeps the invariant *)
Lemma maybe_free_core m1 p c1 m2 effs q Y L L' :
  CoreM m1 q Y L L' -> lookup p (ports m1) = Some (Connected c1) -> maybe_free m1 p = Some (m2, effs) ->
  CoreM m2 q Y L L' /\ emits effs = [] /\ outstanding m2 = outstanding m1.
Proof.
  unfold CoreM, maybe_free. intros HC Hl H. rewrite Hl in H. fold (all4 c1) in H. destruct (all4 c1) eqn:Ea.
  - apply some_pair_inj in H as [<- <-]. prj. split; [|split; reflexivity].
    apply (core_free _ _ _ _ _ _ _ _ _ p c1 HC Hl Ea).
    + now rewrite lookup_remove, N.eqb_refl.
    + intros k Hk. apply N.eqb_neq in Hk. now rewrite lookup_remove, Hk.
  - apply some_pair_inj in H as [<- <-]. auto.
Qed.

Section Events2.
  Variables (m : mux) (q : list evt) (Y : ep) (L L' : list frame).

  Lemma head_sd_no_sends p c :
    chq_ok (ports m) (ESenderDropped p :: q) -> lookup p (ports m) = Some (Connected c) -> count (ev_sends (remote c)) q = 0.
  Proof. intros Hq Hl. destruct (ch_ord _ _ Hq _ _ Hl) as [A _]. apply A. cbn [is_sd]. apply N.eqb_refl. Qed.
  Lemma head_rd_no_creds p c :
    chq_ok (ports m) (EReceiverDropped p :: q) -> lookup p (ports m) = Some (Connected c) -> count (ev_creds (remote c)) q = 0.
  Proof. intros Hq Hl. destruct (ch_ord _ _ Hq _ _ Hl) as [_ A]. apply A. cbn [is_rd]. apply N.eqb_refl. Qed.

  Lemma ev_SenderDropped p m' effs :
    CoreM m (ESenderDropped p :: q) Y L L' -> handle_event m (ESenderDropped p) = Done m' effs ->
    exists c, lookup p (ports m) = Some (Connected c) /\ emits effs = [(SendFinish (remote c), None)] /\
              CoreM m' q Y (L ++ [(SendFinish (remote c), None)]) L'.
  Proof.
    intros HC H. cbn [handle_event] in H. destruct (lookup p (ports m)) as [[r|c]|] eqn:El; try discriminate.
    destruct (tx_dropped c) eqn:Et; [discriminate|].
    destruct (maybe_free _ p) as [[m2 effs2]|] eqn:Em; [|discriminate]. apply done_inj in H as [<- <-].
    exists c. split; [reflexivity|]. unfold CoreM in HC. pose proof (c_chx _ _ _ _ _ _ _ _ HC) as Hq.
    set (c1 := c <| tx_dropped := true |>) in *. set (m1 := m <| ports := insert p (Connected c1) (ports m) |>) in *.
    assert (H1 : CoreM m1 q Y (L ++ [(SendFinish (remote c), None)]) L').
    { unfold CoreM, m1. prj.
      apply (core_emit _ _ _ _ _ _ _ _ _ _ p (remote c) c c1 _ [] HC El eq_refl (or_introl Et));
        [now rewrite lookup_insert, N.eqb_refl|intros k Hk _; apply N.eqb_neq in Hk; now rewrite lookup_insert, Hk
        |intros k Hk; discriminate|reflexivity|reflexivity|reflexivity|reflexivity|reflexivity|reflexivity
        | |reflexivity|reflexivity|reflexivity| |].
      - intros y0 Hne. mev. apply N.eqb_neq. congruence.
      - intros cY. apply step_sf; auto.
      - eapply (chq_ok_upd _ _ _ p c c1); [eapply chq_ok_pop_any; exact Hq|eapply c_injx; eauto|exact El| | | |].
        + intros k Hk. apply N.eqb_neq in Hk. now rewrite lookup_insert, Hk.
        + left. now rewrite lookup_insert, N.eqb_refl.
        + intros _ _. eapply head_sd_no_sends; eauto.
        + intros Hr [Hx|Hx]; [rewrite lookup_insert, N.eqb_refl in Hx; discriminate|]. unfold c1 in Hx. prj. congruence. }
    destruct (maybe_free_core m1 p c1 m2 effs2 q Y _ L' H1) as (H2 & H3 & _); [unfold m1; prj; now rewrite lookup_insert, N.eqb_refl|exact Em|].
    split; [cbn [emits]; now rewrite H3|exact H2].
  Qed.

  Lemma ev_ReceiverDropped p m' effs :
    CoreM m (EReceiverDropped p :: q) Y L L' -> handle_event m (EReceiverDropped p) = Done m' effs ->
    exists c, lookup p (ports m) = Some (Connected c) /\ emits effs = [(ReceiveFinish (remote c), None)] /\
              CoreM m' q Y (L ++ [(ReceiveFinish (remote c), None)]) L'.
  Proof.
    intros HC H. cbn [handle_event] in H. destruct (lookup p (ports m)) as [[r|c]|] eqn:El; try discriminate.
    destruct (rx_dropped c) eqn:Et; [discriminate|].
    destruct (maybe_free _ p) as [[m2 effs2]|] eqn:Em; [|discriminate]. apply done_inj in H as [<- <-].
    exists c. split; [reflexivity|]. unfold CoreM in HC. pose proof (c_chx _ _ _ _ _ _ _ _ HC) as Hq.
    set (c1 := c <| rx_dropped := true |>) in *. set (m1 := m <| ports := insert p (Connected c1) (ports m) |>) in *.
    assert (H1 : CoreM m1 q Y (L ++ [(ReceiveFinish (remote c), None)]) L').
    { unfold CoreM, m1. prj.
      apply (core_emit _ _ _ _ _ _ _ _ _ _ p (remote c) c c1 _ [] HC El eq_refl (or_intror Et));
        [now rewrite lookup_insert, N.eqb_refl|intros k Hk _; apply N.eqb_neq in Hk; now rewrite lookup_insert, Hk
        |intros k Hk; discriminate|reflexivity|reflexivity|reflexivity|reflexivity|reflexivity|reflexivity
        | |reflexivity|reflexivity|reflexivity| |].
      - intros y0 Hne. mev. apply N.eqb_neq. congruence.
      - intros cY. apply step_rf; auto.
      - eapply (chq_ok_upd _ _ _ p c c1); [eapply chq_ok_pop_any; exact Hq|eapply c_injx; eauto|exact El| | | |].
        + intros k Hk. apply N.eqb_neq in Hk. now rewrite lookup_insert, Hk.
        + left. now rewrite lookup_insert, N.eqb_refl.
        + intros Hr [Hx|Hx]; [rewrite lookup_insert, N.eqb_refl in Hx; discriminate|]. unfold c1 in Hx. prj. congruence.
        + intros _ _. eapply head_rd_no_creds; eauto. }
    destruct (maybe_free_core m1 p c1 m2 effs2 q Y _ L' H1) as (H2 & H3 & _); [unfold m1; prj; now rewrite lookup_insert, N.eqb_refl|exact Em|].
    split; [cbn [emits]; now rewrite H3|exact H2].
  Qed.

  Lemma ev_ReceiverClosed p m' effs :
    CoreM m (EReceiverClosed p :: q) Y L L' -> handle_event m (EReceiverClosed p) = Done m' effs ->
    exists c, lookup p (ports m) = Some (Connected c) /\ emits effs = [(ReceiveClose (remote c), None)] /\
              CoreM m' q Y (L ++ [(ReceiveClose (remote c), None)]) L'.
  Proof.
    intros HC H. cbn [handle_event] in H. destruct (lookup p (ports m)) as [[r|c]|] eqn:El; try discriminate.
    destruct (rx_closed c || rx_dropped c) eqn:Et; [discriminate|]. apply orb_false_iff in Et as [Et1 Et2].
    apply done_inj in H as [<- <-]. exists c. split; [reflexivity|split; [reflexivity|]].
    unfold CoreM in *. pose proof (c_chx _ _ _ _ _ _ _ _ HC) as Hq. prj. set (c1 := c <| rx_closed := true |>).
    apply (core_emit _ _ _ _ _ _ _ _ _ _ p (remote c) c c1 _ [] HC El eq_refl (or_intror Et2));
      [now rewrite lookup_insert, N.eqb_refl|intros k Hk _; apply N.eqb_neq in Hk; now rewrite lookup_insert, Hk
      |intros k Hk; discriminate|reflexivity|reflexivity|reflexivity|reflexivity|reflexivity|reflexivity
      | |reflexivity|reflexivity|reflexivity| |].
    - intros y0 Hne. mev. apply N.eqb_neq. congruence.
    - intros cY. apply step_rc; auto.
    - eapply (chq_ok_upd _ _ _ p c c1); [eapply chq_ok_pop_any; exact Hq|eapply c_injx; eauto|exact El| | | |].
      + intros k Hk. apply N.eqb_neq in Hk. now rewrite lookup_insert, Hk.
      + left. now rewrite lookup_insert, N.eqb_refl.
      + intros Hr [Hx|Hx]; [rewrite lookup_insert, N.eqb_refl in Hx; discriminate|]. unfold c1 in Hx. prj. congruence.
      + intros Hr [Hx|Hx]; [rewrite lookup_insert, N.eqb_refl in Hx; discriminate|]. unfold c1 in Hx. prj. congruence.
  Qed.
End Events2.

Section Events3.
  Variables (m : mux) (q : list evt) (Y : ep) (L L' : list frame).

  Lemma ev_Accepted l r m' effs :
    CoreM m (EAccepted l r :: q) Y L L' -> lookup l (ports m) = None ->
    handle_event m (EAccepted l r) = Done m' effs ->
    emits effs = [(PortOpened r l, None)] /\ CoreM m' q Y (L ++ [(PortOpened r l, None)]) L'.
  Proof.
    intros HC Hl H. cbn [handle_event] in H. destruct (mem r (outstanding m)) eqn:Er; [|discriminate]. cbn [negb] in H.
    rewrite Hl in H. apply done_inj in H as [<- <-]. split; [reflexivity|]. unfold CoreM in *. prj.
    apply (core_accept _ _ _ _ _ _ _ _ _ _ _ l r (new_conn m r) None HC Hl Er);
      [now rewrite lookup_insert, N.eqb_refl|intros k Hk; apply N.eqb_neq in Hk; now rewrite lookup_insert, Hk
      |reflexivity|reflexivity|reflexivity|reflexivity|reflexivity|reflexivity|reflexivity
      |intros k; apply mem_del|intros k; rewrite count_cons; lia|intros k; rewrite count_cons; lia
      |intros f g Hn; eapply no_after_tail; eauto].
  Qed.

  Lemma ev_Rejected r np m' effs :
    CoreM m (ERejected r np :: q) Y L L' -> handle_event m (ERejected r np) = Done m' effs ->
    emits effs = [(Rejected r np, None)] /\ CoreM m' q Y (L ++ [(Rejected r np, None)]) L'.
  Proof.
    intros HC H. cbn [handle_event] in H. destruct (mem r (outstanding m)) eqn:Er; [|discriminate]. cbn [negb] in H.
    apply done_inj in H as [<- <-]. split; [reflexivity|]. unfold CoreM in *. prj.
    eapply core_reject; [exact HC|exact Er|intros k; apply mem_del|]. eapply chq_ok_pop_any. eapply c_chx; eauto.
  Qed.

  (** events taken from [cq] or produced by the dispatcher itself leave [chq] alone *)
  Lemma ev_ConnectReq port id wait req m' effs :
    CoreM m q Y L L' -> handle_event m (EConnectReq port id wait req) = Done m' effs ->
    CoreM m' q Y (L ++ emits effs) L'.
  Proof.
    intros HC H. cbn [handle_event] in H. destruct (negb (remote_listener_dropped m)).
    - destruct (lookup port (ports m)) eqn:El; [discriminate|]. apply done_inj in H as [<- <-]. cbn [emits]. unfold CoreM in *. prj.
      eapply core_open; [exact HC|exact El| | | | | | |eapply c_chx; eauto].
      + now rewrite lookup_insert, N.eqb_refl.
      + intros k Hk. apply N.eqb_neq in Hk. now rewrite lookup_insert, Hk.
      + intros y. reflexivity.
      + intros k. mev. now rewrite N.eqb_sym.
      + intros k. reflexivity.
      + reflexivity.
    - apply done_inj in H as [<- <-]. cbn [emits]. now rewrite app_nil_r.
  Qed.

  Lemma ev_flag fr m' :
    CoreM m q Y L L' -> ports m' = ports m -> outstanding m' = outstanding m ->
    (forall y, m_addr y (fst fr) = false) -> (forall x, m_intro x (fst fr) = false) -> m_bad (fst fr) = false ->
    CoreM m' q Y (L ++ [fr]) L'.
  Proof.
    unfold CoreM. intros HC -> -> A1 A2 A3. eapply core_plain; eauto. eapply c_chx; eauto.
  Qed.
End Events3.
