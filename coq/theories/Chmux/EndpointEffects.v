(** What one step does to the port table, the allocator and the reply cells of local connect requests:
    facts about the dispatcher's functions ([Mux.v]) and the decomposition of an endpoint step into
    "user part" and "dispatcher outcome". *)
From Remoc Require Import Lib.Base Gen.Consts Chmux.Wire Chmux.Mux Chmux.Endpoint Chmux.EndpointLemmas Chmux.EndpointInv
  Chmux.EndpointSteps.
From RecordUpdate Require Import RecordUpdate.

Definition effs_of (o : outcome) : list eff :=
  match o with Done _ effs => effs | Proto _ effs => effs | Panic _ => [] end.

(** the outcome of the dispatcher function run by a step (none for user / helper-task actions) *)
Definition disp_outcome (e : ep) (a : act) : option outcome :=
  match a with
  | DPort => match chq e with ev :: _ => Some (handle_event (mx e) ev) | [] => None end
  | DConn => match cq e with ev :: _ => Some (handle_event (mx e) ev) | [] => None end
  | DListenerDropped => Some (handle_event (mx e) EListenerDropped)
  | DGoodbye => Some (handle_event (mx e) EGoodbye)
  | Recv m n => Some (handle_received (mx e) m n)
  | _ => None
  end.

Ltac inj H :=
  match type of H with Some ?a = Some ?b => let E := fresh in assert (E : b = a) by congruence; subst b; clear H end.
Ltac crunch H :=
  repeat match type of H with
  | context [match ?x with _ => _ end] => let E := fresh "E" in destruct x eqn:E; try discriminate
  end.

Lemma some_pair_inj {A B} (a c : A) (b d : B) : Some (a, b) = Some (c, d) -> a = c /\ b = d.
Proof. intros H. injection H. auto. Qed.
Lemma done_inj m effs m' effs' : Done m effs = Done m' effs' -> m = m' /\ effs = effs'.
Proof. intros H. injection H. auto. Qed.

(** * A connected entry disappears only through [maybe_free] with all four flags *)
Lemma ins_ports_keeps : forall ps pt pt' p s,
  ins_ports ps pt = Some pt' -> lookup p pt = Some s -> lookup p pt' = Some s.
Proof.
  induction ps as [|[[k id] req] ps IH]; intros pt pt' p s H Hl; cbn [ins_ports] in H.
  - now injection H as <-.
  - destruct (lookup k pt) eqn:Ek; [discriminate|]. eapply IH; [exact H|].
    rewrite lookup_insert. destruct (p =? k) eqn:E; [|exact Hl]. apply N.eqb_eq in E. subst. congruence.
Qed.

Definition freed_by (m m' : mux) (effs : list eff) (p : N) (c : conn) : Prop :=
  lookup p (ports m') = None /\ In (DropNumber p) effs /\
  exists c', all4 c' = true /\ remote c' = remote c /\
             maybe_free (m <| ports := insert p (Connected c') (ports m) |>) p = Some (m', [DropNumber p]).

Ltac free_auto Hl Hn :=
  prj; rewrite ?lookup_insert, ?lookup_remove in Hn;
  repeat match type of Hn with
  | context [?a =? ?b] =>
      let E := fresh "E" in destruct (a =? b) eqn:E; [apply N.eqb_eq in E; subst|apply N.eqb_neq in E]
  end; rewrite ?Hl in Hn; try discriminate; try congruence.

Lemma free_case m p c c' :
  lookup p (ports m) = Some (Connected c) -> remote c' = remote c ->
  forall m' effs, maybe_free (m <| ports := insert p (Connected c') (ports m) |>) p = Some (m', effs) ->
  is_connected (lookup p (ports m')) = false -> freed_by m m' effs p c.
Proof.
  intros Hl Hr m' effs H Hn. unfold maybe_free in H. prj. rewrite lookup_insert, N.eqb_refl in H.
  destruct (tx_dropped c' && rx_dropped c' && negb (rx_open c') && rrx_dropped c') eqn:Ef; apply some_pair_inj in H as [<- <-].
  - unfold freed_by. prj. rewrite lookup_remove, N.eqb_refl. repeat split; [now left|].
    exists c'. repeat split; auto. unfold maybe_free. prj. rewrite lookup_insert, N.eqb_refl, Ef. reflexivity.
  - prj. rewrite lookup_insert, N.eqb_refl in Hn. discriminate.
Qed.
Lemma free_other m k ck p c :
  lookup p (ports m) = Some (Connected c) -> k <> p ->
  forall m' effs, maybe_free (m <| ports := insert k (Connected ck) (ports m) |>) k = Some (m', effs) ->
  is_connected (lookup p (ports m')) = true.
Proof.
  intros Hl Hk m' effs H. unfold maybe_free in H. prj. rewrite lookup_insert, N.eqb_refl in H.
  assert (p =? k = false) as E by (apply N.eqb_neq; congruence).
  destruct (tx_dropped ck && rx_dropped ck && negb (rx_open ck) && rrx_dropped ck); apply some_pair_inj in H as [<- <-]; prj;
    rewrite ?lookup_remove, ?lookup_insert, ?E, Hl; reflexivity.
Qed.

Lemma he_free m ev m' effs p c :
  handle_event m ev = Done m' effs -> lookup p (ports m) = Some (Connected c) ->
  is_connected (lookup p (ports m')) = false -> freed_by m m' effs p c.
Proof.
  intros H Hl Hn. destruct ev; cbn [handle_event] in H.
  - crunch H; apply done_inj in H as [<- <-]; free_auto Hl Hn.
  - crunch H; apply done_inj in H as [<- <-]; free_auto Hl Hn.
  - crunch H; apply done_inj in H as [<- <-]; free_auto Hl Hn.
  - apply done_inj in H as [<- <-]; free_auto Hl Hn.
  - change (match ins_ports ps (ports m) with None => Panic SiteSendPortsUsed | Some pt => Done (m <| ports := pt |>)
       [Emit (PortData remote_port first last wait (map (fun x => fst (fst x)) ps)
          (if with_ids m then Some (map (fun x => snd (fst x)) ps) else None)) None] end = Done m' effs) in H.
    destruct (ins_ports ps (ports m)) as [pt|] eqn:Ei; [|discriminate]. apply done_inj in H as [<- <-]. prj.
    rewrite (ins_ports_keeps _ _ _ _ _ Ei Hl) in Hn. discriminate.
  - apply done_inj in H as [<- <-]; free_auto Hl Hn.
  - destruct (lookup p0 (ports m)) as [[|c0]|] eqn:E0; try discriminate. destruct (tx_dropped c0); [discriminate|].
    destruct (maybe_free _ p0) as [[m2 effs2]|] eqn:Em; [|discriminate]. apply done_inj in H as [<- <-].
    destruct (N.eq_dec p0 p) as [->|Hne].
    + assert (c0 = c) by congruence. subst c0.
      assert (Hr : remote (c <| tx_dropped := true |>) = remote c) by reflexivity.
      destruct (free_case m p c _ Hl Hr _ _ Em Hn) as (F1 & F2 & F3).
      unfold freed_by. repeat split; auto. now right.
    + rewrite (free_other m p0 _ p c Hl Hne _ _ Em) in Hn. discriminate.
  - crunch H; apply done_inj in H as [<- <-]; free_auto Hl Hn.
  - destruct (lookup p0 (ports m)) as [[|c0]|] eqn:E0; try discriminate. destruct (rx_dropped c0); [discriminate|].
    destruct (maybe_free _ p0) as [[m2 effs2]|] eqn:Em; [|discriminate]. apply done_inj in H as [<- <-].
    destruct (N.eq_dec p0 p) as [->|Hne].
    + assert (c0 = c) by congruence. subst c0.
      assert (Hr : remote (c <| rx_dropped := true |>) = remote c) by reflexivity.
      destruct (free_case m p c _ Hl Hr _ _ Em Hn) as (F1 & F2 & F3).
      unfold freed_by. repeat split; auto. now right.
    + rewrite (free_other m p0 _ p c Hl Hne _ _ Em) in Hn. discriminate.
  - apply done_inj in H as [<- <-]; free_auto Hl Hn.
  - apply done_inj in H as [<- <-]; free_auto Hl Hn.
  - apply done_inj in H as [<- <-]; free_auto Hl Hn.
Qed.

Lemma hr_free m msg n m' effs p c :
  handle_received m msg n = Done m' effs -> lookup p (ports m) = Some (Connected c) ->
  is_connected (lookup p (ports m')) = false -> freed_by m m' effs p c.
Proof.
  intros H Hl Hn. destruct msg; try (rewrite hr_PortData in H); cbn [handle_received] in H.
  all: try discriminate.
  all: try (crunch H; apply done_inj in H as [<- <-]; free_auto Hl Hn; fail).
  - (* SendFinish *)
    destruct (lookup port (ports m)) as [[|c0]|] eqn:E0; try discriminate. destruct (rx_open c0); [|discriminate].
    destruct (maybe_free _ port) as [[m2 effs2]|] eqn:Em; [|discriminate]. apply done_inj in H as [<- <-].
    destruct (N.eq_dec port p) as [->|Hne].
    + assert (c0 = c) by congruence. subst c0.
      assert (Hr : remote (c <| rx_open := false |> <| rxq := rxq c ++ [(0, [])] |>) = remote c) by reflexivity.
      exact (free_case m p c _ Hl Hr _ _ Em Hn).
    + rewrite (free_other m port _ p c Hl Hne _ _ Em) in Hn. discriminate.
  - (* ReceiveClose *)
    destruct (lookup port (ports m)) as [[|c0]|] eqn:E0; try discriminate. destruct (negb (rrx_closed c0)); [|discriminate].
    destruct (maybe_free _ port) as [[m2 effs2]|] eqn:Em; [|discriminate]. apply done_inj in H as [<- <-].
    destruct (N.eq_dec port p) as [->|Hne].
    + assert (c0 = c) by congruence. subst c0.
      assert (Hr : remote (c <| pool_closed := Some true |> <| rrx_closed := true |>) = remote c) by reflexivity.
      exact (free_case m p c _ Hl Hr _ _ Em Hn).
    + rewrite (free_other m port _ p c Hl Hne _ _ Em) in Hn. discriminate.
  - (* ReceiveFinish *)
    destruct (lookup port (ports m)) as [[|c0]|] eqn:E0; try discriminate.
    destruct (maybe_free _ port) as [[m2 effs2]|] eqn:Em; [|discriminate]. apply done_inj in H as [<- <-].
    destruct (N.eq_dec port p) as [->|Hne].
    + assert (c0 = c) by congruence. subst c0.
      assert (Hr : remote (c <| pool_closed := Some false |> <| rrx_closed := true |> <| rrx_dropped := true |>) = remote c) by reflexivity.
      exact (free_case m p c _ Hl Hr _ _ Em Hn).
    + rewrite (free_other m port _ p c Hl Hne _ _ Em) in Hn. discriminate.
Qed.

(** * Where a [Respond] effect comes from *)
Lemma ins_ports_eq m rp f l w ps :
  handle_event m (ESendPorts rp f l w ps) =
  match ins_ports ps (ports m) with
  | None => Panic SiteSendPortsUsed
  | Some pt => Done (m <| ports := pt |>)
                 [Emit (PortData rp f l w (map (fun x => fst (fst x)) ps)
                          (if with_ids m then Some (map (fun x => snd (fst x)) ps) else None)) None]
  end.
Proof. reflexivity. Qed.

Lemma maybe_free_effs m p m' effs : maybe_free m p = Some (m', effs) -> effs = [] \/ effs = [DropNumber p].
Proof.
  unfold maybe_free. destruct (lookup p (ports m)) as [[|c]|]; try discriminate.
  destruct (_ && _); intros H; apply some_pair_inj in H as [_ <-]; auto.
Qed.

Lemma he_respond m ev req r :
  In (Respond req r) (effs_of (handle_event m ev)) ->
  exists p id w, ev = EConnectReq p id w req /\ remote_listener_dropped m = true /\ r = RRejected false.
Proof.
  intros H. destruct ev; try rewrite ins_ports_eq in H; cbn [handle_event] in H;
    repeat match type of H with
    | context [match ?x with _ => _ end] => destruct x eqn:?; cbv beta iota in H
    end; cbn [effs_of In] in H; prj;
    repeat match goal with Hm : maybe_free _ _ = Some (_, _) |- _ => apply maybe_free_effs in Hm as [->| ->]; cbn [In] in H end;
    repeat match type of H with _ \/ _ => destruct H as [H|H] end; try discriminate; try contradiction.
  injection H as <- <-. destruct (remote_listener_dropped m); [|discriminate]. eauto 10.
Qed.

Lemma hr_respond m msg n req r :
  In (Respond req r) (effs_of (handle_received m msg n)) ->
  (exists p np, msg = Rejected p np /\ lookup p (ports m) = Some (Connecting req) /\ r = RRejected np) \/
  (exists p q, msg = PortOpened p q /\ lookup p (ports m) = Some (Connecting req) /\ r = RAccepted p q /\
               handle_received m msg n =
               Done (m <| ports := insert p (Connected (new_conn m q)) (ports m) |>)
                    [NewPort p q; Respond req (RAccepted p q)]).
Proof.
  intros H. destruct msg; try rewrite hr_PortData in H; cbn [handle_received] in *;
    repeat match type of H with
    | context [match ?x with _ => _ end] => destruct x eqn:?; cbv beta iota in H
    end; cbn [effs_of In] in H; prj;
    repeat match goal with Hm : maybe_free _ _ = Some (_, _) |- _ => apply maybe_free_effs in Hm as [->| ->]; cbn [In] in H end;
    repeat match type of H with _ \/ _ => destruct H as [H|H] end; try discriminate; try contradiction.
  - injection H as <- <-. right. eauto 10.
  - injection H as <- <-. left. eauto 10.
Qed.

(** * Effects on the reply cells and on the allocator *)
Lemma apply_effs_connects effs : forall e req s,
  lookup req (connects (apply_effs e effs)) = Some s ->
  lookup req (connects e) = Some s \/ exists r, In (Respond req r) effs /\ s = CResolved r.
Proof.
  induction effs as [|f effs IH]; intros e req s H; cbn [apply_effs] in H; [now left|].
  apply IH in H as [H|(r & Hr & ->)]; [|right; exists r; split; [now right|reflexivity]].
  destruct f; prj; auto; try (destruct (listener_alive e); prj; auto; fail).
  rewrite lookup_insert in H. destruct (req =? req0) eqn:E; [|now left].
  apply N.eqb_eq in E. subst req0. injection H as <-. right. exists r. split; [now left|reflexivity].
Qed.
Lemma apply_effs_connects_keep effs : forall e req,
  (forall r, ~ In (Respond req r) effs) -> lookup req (connects (apply_effs e effs)) = lookup req (connects e).
Proof.
  induction effs as [|f effs IH]; intros e req H; cbn [apply_effs]; [reflexivity|].
  rewrite IH by (intros r Hr; apply (H r); now right).
  destruct f; prj; auto; try (destruct (listener_alive e); prj; auto; fail).
  rewrite lookup_insert. destruct (req =? req0) eqn:E; [|reflexivity].
  apply N.eqb_eq in E. subst req0. exfalso. apply (H r). now left.
Qed.
Lemma apply_effs_alloc_sub effs : forall e x, In x (alloc (apply_effs e effs)) -> In x (alloc e).
Proof.
  induction effs as [|f effs IH]; intros e x H; cbn [apply_effs] in H; [exact H|].
  apply IH in H. destruct f; prj; auto; try (destruct (listener_alive e); prj; auto; fail). apply In_del in H. tauto.
Qed.
Lemma apply_effs_dropped effs : forall e p, In (DropNumber p) effs -> ~ In p (alloc (apply_effs e effs)).
Proof.
  induction effs as [|f effs IH]; intros e p H; cbn [apply_effs]; [contradiction|].
  destruct H as [->|H]; [|now apply IH].
  intros Hin. apply apply_effs_alloc_sub in Hin. prj. apply In_del in Hin. tauto.
Qed.

(** * Decomposition of a step *)
Lemma step_disp e a e' o :
  step_opt e a = Some e' -> disp_outcome e a = Some o ->
  exists e1, e' = finish e1 o /\ mx e1 = mx e /\ alloc e1 = alloc e /\ connects e1 = connects e /\
             dead e1 = dead e /\ panicked e1 = panicked e.
Proof.
  unfold step_opt. destruct (negb (alive e)); [discriminate|].
  destruct a; cbn [disp_outcome]; try discriminate.
  - destruct (negb (sending e)); [discriminate|]. destruct (chq e) as [|ev q]; [discriminate|].
    intros H1 H2. inj H1. inj H2. eexists. split; [reflexivity|].
    destruct ev; try destruct (lookup p (handles e)); prj; auto 10.
  - destruct (negb (sending e)); [discriminate|]. destruct (cq e) as [|ev q]; [discriminate|].
    intros H1 H2. inj H1. inj H2. eexists. split; [reflexivity|]. prj. auto 10.
  - destruct (_ && _); [|discriminate]. intros H1 H2. inj H1. inj H2. eexists. split; [reflexivity|]. auto 10.
  - destruct (_ && _); [|discriminate]. intros H1 H2. inj H1. inj H2. eexists. split; [reflexivity|]. auto 10.
  - intros H1 H2. inj H1. inj H2. eexists. split; [reflexivity|]. auto 10.
Qed.

(** user and helper-task actions never remove a table entry, never release a number and never
    touch an existing reply cell *)
Lemma step_user e a e' :
  step_opt e a = Some e' -> disp_outcome e a = None ->
  dead e' = dead e /\
  (forall x, In x (alloc e) -> In x (alloc e')) /\
  (forall p c, lookup p (ports (mx e)) = Some (Connected c) -> is_connected (lookup p (ports (mx e'))) = true) /\
  (forall req s, lookup req (connects e) = Some s -> lookup req (connects e') = Some s).
Proof.
  intros H Hd. unfold step_opt in H. destruct (negb (alive e)); [discriminate|].
  destruct a; cbn [disp_outcome] in Hd; try discriminate; cases; try (inj H; prj; repeat split; auto; intros ? ? Hl; rewrite Hl; reflexivity).
  all: inj H; prj; repeat split; auto.
  all: try (intros x Hx; now right).
  all: try (intros x Hx; apply in_or_app; now right).
  all: try (intros p0 c0 Hl; rewrite ?lookup_insert; try destruct (p0 =? p); try reflexivity; now rewrite Hl).
  - (* UConnect *)
    intros r0 s Hs. rewrite lookup_insert. destruct (r0 =? req) eqn:E0; [|exact Hs].
    apply N.eqb_eq in E0. subst r0. bools. rewrite Hs in H0. discriminate.
  - (* USendPorts *)
    intros r0 s Hs. rewrite lookup_fold_insert. destruct (mem r0 (map (fun x => snd x) ps)) eqn:Em; [|exact Hs].
    bools. rewrite forallb_forall in H1. apply mem_In in Em. specialize (H1 _ Em). rewrite Hs in H1. discriminate.
  - intros px cx Hl. destruct wait; prj; now rewrite Hl.
  - intros px cx Hl. rewrite lookup_insert. destruct (px =? p); [reflexivity|now rewrite Hl].
Qed.
