(** Receiver reassembly: transcription of [chmux::Receiver::{recv_any, recv_chunk, recv}]
    ([remoc/src/chmux/receiver.rs]) over the per-port queue of frames.

    One loop iteration of [recv_any] / [recv_chunk] is a *handler* ([handle_any], [handle_chunk]);
    the call-level functions iterate the handlers over the queue and return [OBlock] when the
    queue is exhausted (the Rust future stays pending).  Credit return ([start_return]) is the
    business of [PortFlow]; here every frame taken from the queue is simply consumed. *)
From Remoc Require Import Lib.Base Chmux.Parse.

Inductive receiving :=
| RNothing
| RData (bufs : list (list N)) (remaining : N)            (** [Receiving::Data(DataBuf)] *)
| RChunks (q : list (list N)) (completed : bool)           (** [Receiving::Chunks] *)
| RReq (ps : list N).                                      (** [Receiving::Requests] *)

Record rstate := mk_rstate {
  rcving : receiving;
  finished : bool;
  restarted : option (list N * bool);   (** first chunk of a message that restarted during [recv_chunk] *)
  max_data : N;                         (** [max_data_size] *)
  max_ports : N
}.

Definition set_rcving (r : rstate) (x : receiving) : rstate :=
  {| rcving := x; finished := finished r; restarted := restarted r; max_data := max_data r; max_ports := max_ports r |}.
Definition set_finished (r : rstate) : rstate :=
  {| rcving := rcving r; finished := true; restarted := restarted r; max_data := max_data r; max_ports := max_ports r |}.
Definition set_restarted (r : rstate) (x : option (list N * bool)) : rstate :=
  {| rcving := rcving r; finished := finished r; restarted := x; max_data := max_data r; max_ports := max_ports r |}.

Definition rinit (max_data max_ports : N) : rstate :=
  {| rcving := RNothing; finished := false; restarted := None; max_data := max_data; max_ports := max_ports |}.

Inductive rout :=
| OData (b : list N)          (** [Ok(Some(Received::Data))], the concatenated buffers *)
| OChunks                     (** [Ok(Some(Received::Chunks))] *)
| OReq (ps : list N)          (** [Ok(Some(Received::Requests))] *)
| OEnd                        (** [Ok(None)] *)
| OErrPorts                   (** [Err(ExceedsMaxPortCount)] *)
| OErrData                    (** [recv]: [Err(ExceedsMaxDataSize)] *)
| OChunk (b : list N)         (** [recv_chunk]: [Ok(Some(chunk))] *)
| OChunkEnd                   (** [recv_chunk]: [Ok(None)] after the last chunk *)
| OCancelled                  (** [recv_chunk]: [Err(Cancelled)] *)
| OBlock.                     (** pending: queue empty *)

(** one iteration of the [recv_any] loop on a message taken from the queue *)
Definition handle_any (r : rstate) (f : frame) : rstate * option rout :=
  match f with
  | FData first last b =>
      let rc := if first then RData [] 0 else rcving r in
      match rc with
      | RData bufs remaining =>
          (* DataBuf::try_push *)
          if remaining + len b <=? max_data r then
            if last then (set_rcving r RNothing, Some (OData (concat (bufs ++ [b]))))
            else (set_rcving r (RData (bufs ++ [b]) (remaining + len b)), None)
          else (set_rcving r (RChunks (bufs ++ [b]) last), Some OChunks)
      | _ => (set_rcving r RNothing, None)       (* mem::take leaves Nothing; frame ignored *)
      end
  | FPorts first last ps =>
      let rc := if first then RReq [] else rcving r in
      match rc with
      | RReq acc =>
          let acc' := acc ++ ps in
          if max_ports r <? len acc' then (set_rcving r RNothing, Some OErrPorts)
          else if last then (set_rcving r RNothing, Some (OReq acc'))
          else (set_rcving r (RReq acc'), None)
      | _ => (set_rcving r RNothing, None)
      end
  | FFin => (set_finished r, Some OEnd)
  end.

Fixpoint any_loop (r : rstate) (q : list frame) : rstate * list frame * rout :=
  match q with
  | [] => (r, [], OBlock)
  | f :: q' =>
      match handle_any r f with
      | (r', Some o) => (r', q', o)
      | (r', None) => any_loop r' q'
      end
  end.

Definition recv_any (r : rstate) (q : list frame) : rstate * list frame * rout :=
  if finished r then (r, q, OEnd)
  else match restarted r with
       | Some (b, last) =>
           match handle_any (set_restarted r None) (FData true last b) with
           | (r', Some o) => (r', q, o)
           | (r', None) => any_loop r' q
           end
       | None => any_loop r q
       end.

(** [recv]: [recv_any] until data; requests are dropped, an oversized message is an error *)
Fixpoint recv_loop (r : rstate) (q : list frame) : rstate * list frame * rout :=
  match q with
  | [] => (r, [], OBlock)
  | f :: q' =>
      match handle_any r f with
      | (r', Some (OReq _)) => recv_loop r' q'
      | (r', Some OChunks) => (r', q', OErrData)
      | (r', Some o) => (r', q', o)
      | (r', None) => recv_loop r' q'
      end
  end.

Definition recv (r : rstate) (q : list frame) : rstate * list frame * rout :=
  if finished r then (r, q, OEnd)
  else match restarted r with
       | Some (b, last) =>
           match handle_any (set_restarted r None) (FData true last b) with
           | (r', Some (OReq _)) => recv_loop r' q
           | (r', Some OChunks) => (r', q, OErrData)
           | (r', Some o) => (r', q, o)
           | (r', None) => recv_loop r' q
           end
       | None => recv_loop r q
       end.

(** the arms of [recv_chunk] that do not take a message from the queue *)
Definition chunk_ready (r : rstate) : option (rstate * rout) :=
  match rcving r with
  | RChunks (c :: q) completed => Some (set_rcving r (RChunks q completed), OChunk c)
  | RChunks [] true => Some (set_rcving r RNothing, OChunkEnd)
  | _ => None
  end.

(** one iteration of the [recv_chunk] loop on a message taken from the queue *)
Definition handle_chunk (r : rstate) (f : frame) : rstate * option rout :=
  match f with
  | FData first last b =>
      match rcving r, first with
      | RChunks _ _, true =>
          (set_restarted (set_rcving r RNothing) (Some (b, last)), Some OCancelled)
      | RChunks _ _, false | _, true =>
          (set_rcving r (RChunks [] last), Some (OChunk b))
      | _, false => (r, None)
      end
  | FPorts _ _ _ =>
      match rcving r with
      | RChunks _ _ => (set_rcving r RNothing, Some OCancelled)
      | _ => (r, None)
      end
  | FFin =>
      match rcving r with
      | RChunks _ _ => (set_rcving (set_finished r) RNothing, Some OCancelled)
      | _ => (set_finished r, Some OEnd)
      end
  end.

Fixpoint chunk_loop (r : rstate) (q : list frame) : rstate * list frame * rout :=
  match q with
  | [] => (r, [], OBlock)
  | f :: q' =>
      match handle_chunk r f with
      | (r', Some o) => (r', q', o)
      | (r', None) =>
          (* after an ignored message the loop re-checks the ready arms; they cannot fire, since
             an ignored message leaves [rcving] unchanged and it was not ready before *)
          chunk_loop r' q'
      end
  end.

Definition restore (r : rstate) : rstate :=
  match restarted r with
  | Some (b, last) => set_rcving (set_restarted r None) (RChunks [b] last)
  | None => r
  end.

Definition recv_chunk (r : rstate) (q : list frame) : rstate * list frame * rout :=
  if finished r then (r, q, OEnd)
  else
    let r := restore r in
    match chunk_ready r with
    | Some (r', o) => (r', q, o)
    | None => chunk_loop r q
    end.

(** * A consumer that follows the documented protocol
    [recv_any]; after [Received::Chunks], [recv_chunk] until [None] or [Cancelled] -- this is what
    [rch::base::Receiver] does.  It is driven by the frame stream: [feed] is what the consumer
    obtains by the time the given frame has been taken from the queue. *)
Inductive cmode := CAny | CStream (acc : list N).

Inductive dmsg :=
| DData (b : list N)        (** whole message *)
| DStream (b : list N)      (** message obtained chunk by chunk; the concatenation *)
| DPorts (ps : list N)
| DErrPorts.

(** take everything that [recv_chunk] returns without touching the queue *)
Fixpoint drain_q (acc : list N) (q : list (list N)) : list N :=
  match q with [] => acc | c :: q' => drain_q (acc ++ c) q' end.

Definition drain (acc : list N) (r : rstate) : cmode * rstate * list dmsg :=
  match rcving r with
  | RChunks q true => (CAny, set_rcving r RNothing, [DStream (drain_q acc q)])
  | RChunks q false => (CStream (drain_q acc q), set_rcving r (RChunks [] false), [])
  | _ => (CStream acc, r, [])
  end.

Definition feed_any (r : rstate) (f : frame) : cmode * rstate * list dmsg :=
  match handle_any r f with
  | (r', Some (OData b)) => (CAny, r', [DData b])
  | (r', Some OChunks) => drain [] r'
  | (r', Some (OReq ps)) => (CAny, r', [DPorts ps])
  | (r', Some OErrPorts) => (CAny, r', [DErrPorts])
  | (r', _) => (CAny, r', [])
  end.

Definition feed (m : cmode) (r : rstate) (f : frame) : cmode * rstate * list dmsg :=
  if finished r then (m, r, [])
  else
  match m with
  | CAny => feed_any r f
  | CStream acc =>
      match handle_chunk r f with
      | (r', Some (OChunk b)) => drain (acc ++ b) r'
      | (r', Some OCancelled) =>
          (* back to recv_any, which first processes the restarted message, if any *)
          match restarted r' with
          | Some (b, last) => feed_any (set_restarted r' None) (FData true last b)
          | None => (CAny, r', [])
          end
      | (r', Some OEnd) => (CAny, r', [])
      | (r', _) => (CStream acc, r', [])
      end
  end.

Fixpoint feed_all (m : cmode) (r : rstate) (fs : list frame) : cmode * rstate * list dmsg :=
  match fs with
  | [] => (m, r, [])
  | f :: fs' =>
      let '(m1, r1, o1) := feed m r f in
      let '(m2, r2, o2) := feed_all m1 r1 fs' in
      (m2, r2, o1 ++ o2)
  end.

(** the messages a protocol-following consumer has obtained *)
Definition dmsg_msg (d : dmsg) : list msg :=
  match d with
  | DData b | DStream b => [MData b]
  | DPorts ps => [MPorts ps]
  | DErrPorts => []
  end.

Definition delivered_msgs (ds : list dmsg) : list msg := flat_map dmsg_msg ds.
