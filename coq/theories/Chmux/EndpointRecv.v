(** Preservation of the invariant by an arbitrary received message. *)
From Remoc Require Import Lib.Base Gen.Consts Chmux.Wire Chmux.Mux Chmux.Endpoint Chmux.EndpointLemmas Chmux.EndpointInv
  Chmux.EndpointSteps Chmux.EndpointDisp.
From RecordUpdate Require Import RecordUpdate.

Lemma Good_of e :
  panicked e = None -> dead e = None -> NoDup (alloc e) -> len (alloc e) <= max_ports e ->
  qs_ok (cq e) (chq e) -> req_ok (outstanding (mx e)) (requests e) (chq e) ->
  core_ok (goodbye_sent (mx e) && goodbye_received (mx e) = false)
          (alloc e) (cq e) (chq e) (handles e) (requests e) (connects e) (ports (mx e)) ->
  buf_ok (cfg_buffer (mx e)) (ports (mx e)) -> lq_ok (mx e) -> Good e.
Proof.
  intros H1 H2 H3 H4 H5 H6 (C1 & C2 & C3 & C4 & C5) H7 H8. unfold Good. split; [|split; [|split; [|split; [|constructor]]]]; auto.
Qed.

Lemma core_of e : Good e ->
  core_ok (goodbye_sent (mx e) && goodbye_received (mx e) = false)
          (alloc e) (cq e) (chq e) (handles e) (requests e) (connects e) (ports (mx e)).
Proof. good_intro. unfold core_ok. auto. Qed.

(** [maybe_free] on a table whose entry [p] has just been rewritten *)
Lemma maybe_free_ins m p c :
  maybe_free (m <| ports := insert p (Connected c) (ports m) |>) p =
  if all4 c
  then Some (m <| ports := insert p (Connected c) (ports m) |> <| ports := remove p (insert p (Connected c) (ports m)) |>, [DropNumber p])
  else Some (m <| ports := insert p (Connected c) (ports m) |>, []).
Proof. unfold maybe_free, all4. prj. rewrite lookup_insert, N.eqb_refl. reflexivity. Qed.

Ltac core_split := unfold core_ok; prj; (split; [|split; [|split; [|split]]]); auto.
Ltac lq_split := unfold lq_ok; prj; split; try assumption; try lia.
Ltac fin_proto := apply finish_Proto; assumption.

(** finishing a [Done] step whose state components are given by hypotheses *)
Ltac fin_done := apply finish_Done; cbn [apply_effs]; prj.

Section Recv.
Variable e : ep.
Hypothesis HG : Good e.
Hypothesis Ha : alive e = true.

Let Hp : panicked e = None. Proof. apply HG. Qed.
Let Hd : dead e = None. Proof. apply HG. Qed.
Let Hnd : NoDup (alloc e). Proof. apply HG. Qed.
Let Hlen : len (alloc e) <= max_ports e. Proof. apply HG. Qed.
Let Hqs : qs_ok (cq e) (chq e). Proof. destruct HG as (_ & _ & _ & _ & []). assumption. Qed.
Let Hreq : req_ok (outstanding (mx e)) (requests e) (chq e). Proof. destruct HG as (_ & _ & _ & _ & []). assumption. Qed.
Let Hbuf : buf_ok (cfg_buffer (mx e)) (ports (mx e)). Proof. destruct HG as (_ & _ & _ & _ & []). assumption. Qed.
Let Hlq : lq_ok (mx e). Proof. destruct HG as (_ & _ & _ & _ & []). assumption. Qed.
Let Hcore := core_of e HG.

Lemma rv_simple n : Fin (finish e (handle_received (mx e) Reset n)) /\ Fin (finish e (handle_received (mx e) Ping n)).
Proof.
  split; cbn [handle_received].
  - fin_proto.
  - fin_done. apply Good_of; prj; auto.
Qed.

(** a connected entry is rewritten without touching the flags the users see nor the queued requests *)
Lemma rv_upd p c c' :
  lookup p (ports (mx e)) = Some (Connected c) ->
  tx_dropped c' = tx_dropped c -> rx_dropped c' = rx_dropped c -> rx_closed c' = rx_closed c ->
  flat_map snd (rxq c') = flat_map snd (rxq c) ->
  (used c' <= cfg_buffer (mx e) /\ count (fun x => fst x =? 0) (rxq c') <= b2n (negb (rx_open c')) /\ all4 c' = false) ->
  Fin (finish e (Done (mx e <| ports := insert p (Connected c') (ports (mx e)) |>) [])).
Proof.
  intros Hl E1 E2 E3 E4 Hb. fin_done. apply Good_of; prj; auto.
  - eapply core_upd; eauto.
  - now apply buf_ok_upd.
Qed.

Lemma rv_Data p f l n : Fin (finish e (handle_received (mx e) (Data p f l) n)).
Proof.
  cbn [handle_received]. destruct (lookup p (ports (mx e))) as [[|c]|] eqn:El; try fin_proto.
  destruct (rx_open c) eqn:Eo; [|fin_proto].
  destruct ((n <? 4294967296) && (n <=? cfg_chunk (mx e))); [|fin_proto].
  destruct ((used c + N.max DATA_MIN_COST n <? 4294967296) && (used c + N.max DATA_MIN_COST n <=? cfg_buffer (mx e))) eqn:Ec; [|fin_proto].
  destruct (Hbuf _ _ El) as (B1 & B2 & B3). bools. apply N.leb_le in H0.
  eapply rv_upd; eauto; prj.
  - rewrite flat_map_app. cbn [flat_map snd app]. apply app_nil_r.
  - unfold used, all4 in *. prj. rewrite map_app, sum_app, count_snoc. cbn [map fst sum]. repeat split; auto; try lia.
    change DATA_MIN_COST with 1 in *. destruct (N.max 1 n =? 0) eqn:E0; [apply N.eqb_eq in E0; lia|]. cbn [b2n]. lia.
Qed.

Lemma rv_PortCredits p cr n : Fin (finish e (handle_received (mx e) (PortCredits p cr) n)).
Proof.
  cbn [handle_received]. destruct (lookup p (ports (mx e))) as [[|c]|] eqn:El; try fin_proto.
  destruct (pool c + cr <? 4294967296); [|fin_proto].
  eapply rv_upd; eauto. exact (Hbuf _ _ El).
Qed.

Lemma rv_ReceiveClose p n : Fin (finish e (handle_received (mx e) (ReceiveClose p) n)).
Proof.
  cbn [handle_received]. destruct (lookup p (ports (mx e))) as [[|c]|] eqn:El; try fin_proto.
  destruct (negb (rrx_closed c)); [|fin_proto].
  destruct (Hbuf _ _ El) as (B1 & B2 & B3).
  rewrite maybe_free_ins. unfold all4 in *. prj. rewrite B3.
  eapply rv_upd; eauto.
Qed.

(** the entry of [p] is rewritten to [c'] and freed because all four flags now hold *)
Lemma rv_free p c c' :
  lookup p (ports (mx e)) = Some (Connected c) ->
  tx_dropped c' = tx_dropped c -> rx_dropped c' = rx_dropped c -> rx_closed c' = rx_closed c ->
  flat_map snd (rxq c') = flat_map snd (rxq c) -> all4 c' = true ->
  Fin (finish e (Done (mx e <| ports := insert p (Connected c') (ports (mx e)) |>
                            <| ports := remove p (insert p (Connected c') (ports (mx e))) |>) [DropNumber p])).
Proof.
  intros Hl E1 E2 E3 E4 Hb. fin_done. apply Good_of; prj; auto.
  - now apply NoDup_del.
  - pose proof (len_del p (alloc e)). lia.
  - eapply core_free; [eapply core_upd; eauto| |exact Hb]. now rewrite lookup_insert, N.eqb_refl.
  - now apply buf_ok_remove_insert.
Qed.

Lemma rv_SendFinish p n : Fin (finish e (handle_received (mx e) (SendFinish p) n)).
Proof.
  cbn [handle_received]. destruct (lookup p (ports (mx e))) as [[|c]|] eqn:El; try fin_proto.
  destruct (rx_open c) eqn:Eo; [|fin_proto].
  destruct (Hbuf _ _ El) as (B1 & B2 & B3).
  rewrite maybe_free_ins.
  assert (Eq : flat_map snd (rxq (c <| rx_open := false |> <| rxq := rxq c ++ [(0, [])] |>)) = flat_map snd (rxq c)).
  { prj. rewrite flat_map_app. cbn [flat_map snd app]. apply app_nil_r. }
  match goal with |- context [if all4 ?x then _ else _] => destruct (all4 x) eqn:E4 end.
  - eapply rv_free; eauto.
  - eapply rv_upd; eauto. unfold used in *. prj. rewrite map_app, sum_app, count_snoc. cbn [map fst sum].
    rewrite Eo in B2. cbn [negb b2n] in *. rewrite N.eqb_refl. cbn [b2n]. repeat split; auto; lia.
Qed.

Lemma rv_ReceiveFinish p n : Fin (finish e (handle_received (mx e) (ReceiveFinish p) n)).
Proof.
  cbn [handle_received]. destruct (lookup p (ports (mx e))) as [[|c]|] eqn:El; try fin_proto.
  destruct (Hbuf _ _ El) as (B1 & B2 & B3).
  rewrite maybe_free_ins.
  match goal with |- context [if all4 ?x then _ else _] => destruct (all4 x) eqn:E4 end.
  - eapply rv_free; eauto.
  - eapply rv_upd; eauto.
Qed.

Lemma rv_flags n :
  Fin (finish e (handle_received (mx e) ListenerFinish n)) /\ Fin (finish e (handle_received (mx e) Goodbye n)).
Proof.
  destruct Hcore as (C1 & C2 & C3 & C4 & C5).
  split; cbn [handle_received]; fin_done; apply Good_of; prj; auto; core_split.
  intros Hg. apply C5. rewrite andb_true_r in Hg. rewrite Hg. reflexivity.
Qed.

Lemma rv_Hello v c n : Fin (finish e (handle_received (mx e) (Hello v c) n)).
Proof. cbn [handle_received]. fin_proto. Qed.

Lemma rv_ClientFinish n : Fin (finish e (handle_received (mx e) ClientFinish n)).
Proof.
  destruct Hcore as (C1 & C2 & C3 & C4 & C5). destruct Hlq as [L1 L2].
  cbn [handle_received]. destruct (listen_open (mx e)).
  - destruct ((cfg_connect_queue (mx e) + 1 <=? lq_wait (mx e)) || (cfg_connect_queue (mx e) + 1 <=? lq_nowait (mx e))) eqn:Eq; [fin_proto|].
    apply orb_false_iff in Eq as [Q1 Q2]. apply N.leb_gt in Q1, Q2.
    fin_done; apply Good_of; prj; auto; try core_split; try lq_split.
  - fin_done; apply Good_of; prj; auto; try core_split; try lq_split.
Qed.

(** a new request object *)
Lemma req_ok_new out reqs chq r s :
  mem r out = false -> is_answered (Some s) = false -> req_ok out reqs chq -> req_ok (r :: out) (insert r s reqs) chq.
Proof.
  intros Hm Hs H r0. pose proof (H r0) as [H1 H2]. rewrite lookup_insert, mem_cons. destruct (r0 =? r) eqn:E.
  - apply N.eqb_eq in E. subst r0. rewrite Hm in H2. destruct (lookup r reqs); [discriminate|].
    rewrite Hs. cbn [orb is_some is_answered] in *. auto.
  - cbn [orb]. auto.
Qed.
Lemma portq_ok_new hs pt reqs r s :
  is_portq (lookup r reqs) = false -> is_portq (Some s) = false -> portq_ok hs pt reqs -> portq_ok hs pt (insert r s reqs).
Proof.
  intros Hl Hs H r0. specialize (H r0). rewrite lookup_insert. destruct (r0 =? r) eqn:E; [|exact H].
  apply N.eqb_eq in E. subst r0. rewrite Hl in H. rewrite Hs. exact H.
Qed.
Lemma req_none r : mem r (outstanding (mx e)) = false -> lookup r (requests e) = None.
Proof. intros Hm. destruct (Hreq r) as [_ H2]. rewrite Hm in H2. now destruct (lookup r (requests e)). Qed.

Lemma rv_OpenPort cp w id n : Fin (finish e (handle_received (mx e) (OpenPort cp w id) n)).
Proof.
  destruct Hcore as (C1 & C2 & C3 & C4 & C5). destruct Hlq as [L1 L2].
  cbn [handle_received]. destruct (mem cp (outstanding (mx e))) eqn:Em; [fin_proto|].
  pose proof (req_none _ Em) as Hn.
  destruct (listen_open (mx e)).
  - match goal with |- context [if ?c then Proto _ _ else _] => destruct c eqn:Eq end; [fin_proto|]. apply N.leb_gt in Eq.
    destruct w; fin_done; destruct (listener_alive e); prj; apply Good_of; prj; auto;
      try (apply req_ok_new; now auto); try (core_split; apply portq_ok_new; auto; now rewrite Hn); try lq_split.
  - fin_done. apply Good_of; prj; auto;
      try (apply req_ok_new; now auto); try (core_split; apply portq_ok_new; auto; now rewrite Hn); try lq_split.
Qed.

Lemma rv_PortOpened cp sp n : Fin (finish e (handle_received (mx e) (PortOpened cp sp) n)).
Proof.
  destruct Hcore as (C1 & C2 & C3 & C4 & C5).
  cbn [handle_received]. destruct (lookup cp (ports (mx e))) as [[req|c]|] eqn:El; try fin_proto.
  destruct (tab_newport _ _ _ _ _ cp (mx e) sp (conj C2 (conj C3 (conj Hbuf C4)))) as (T1 & T2 & T3 & T4); [now rewrite El|].
  fin_done. apply Good_of; prj; auto. core_split.
  - eapply num_ok_upd; eauto.
  - intros Hg. eapply conn_ok_resolve_insert; eauto.
Qed.

Lemma rv_Rejected cp np n : Fin (finish e (handle_received (mx e) (Rejected cp np) n)).
Proof.
  destruct Hcore as (C1 & C2 & C3 & C4 & C5).
  cbn [handle_received]. destruct (lookup cp (ports (mx e))) as [[req|c]|] eqn:El; try fin_proto.
  fin_done. apply Good_of; prj; auto.
  - now apply NoDup_del.
  - pose proof (len_del cp (alloc e)). lia.
  - core_split.
    + apply num_ok_remove; [congruence|assumption].
    + apply handle_ok_remove_nonconn; [now rewrite El|assumption].
    + apply portq_ok_remove; auto. now rewrite El.
    + now apply NoDup_keys_remove.
    + intros Hg. eapply conn_ok_resolve_remove; eauto.
  - now apply buf_ok_remove.
Qed.

Lemma rv_PortData p f l w ps ids n : Fin (finish e (handle_received (mx e) (PortData p f l w ps ids) n)).
Proof.
  destruct Hcore as (C1 & C2 & C3 & C4 & C5).
  rewrite hr_PortData. destruct (lookup p (ports (mx e))) as [[|c]|] eqn:El; try fin_proto.
  destruct (rx_open c) eqn:Eo; [|fin_proto].
  destruct (is_nil ps) eqn:Eps; [fin_proto|].
  assert (Hlen1 : 1 <= len ps) by (destruct ps; [discriminate|rewrite len_cons; lia]).
  destruct (ins_out ps (outstanding (mx e))) as [o|] eqn:Ei; [|fin_proto]. cbv zeta.
  destruct ((PORT_COST * len ps <? 4294967296) && (PORT_COST * len ps <=? cfg_chunk (mx e))); [|fin_proto].
  destruct ((used c + PORT_COST * len ps <? 4294967296) && (used c + PORT_COST * len ps <=? cfg_buffer (mx e))) eqn:Ec; [|fin_proto].
  bools. apply N.leb_le in H0. change PORT_COST with 4 in *.
  pose proof (ins_out_spec _ _ _ Ei) as Hi.
  destruct (Hbuf _ _ El) as (B1 & B2 & B3).
  set (st := match lookup p (handles e) with Some h => match h_rx h with Alive => RPortQ | _ => RDropped end | None => RDropped end).
  assert (Hst : is_answered (Some st) = false) by (subst st; destruct (lookup p (handles e)) as [h|]; [destruct (h_rx h)|]; reflexivity).
  assert (Hal : is_portq (Some st) = is_alive (h_rx (hget (handles e) p))).
  { subst st. unfold hget. destruct (lookup p (handles e)) as [h|]; [destruct (h_rx h)|]; reflexivity. }
  fin_done. fold st. apply Good_of; prj; auto.
  - (* requests *)
    intros r. destruct (Hreq r) as [R1 R2]. destruct (Hi r) as (I1 & I2 & I3). rewrite lookup_fold_insert, I1.
    destruct (mem r ps) eqn:Em; cbn [orb]; [|auto].
    specialize (I2 eq_refl). rewrite (req_none _ I2) in R1. rewrite Hst. cbn [is_some]. auto.
  - core_split.
    + eapply num_ok_upd; eauto.
    + eapply handle_ok_upd; eauto.
    + intros r. pose proof (C3 r) as Hr. destruct (Hi r) as (I1 & I2 & I3). rewrite lookup_fold_insert. unfold portq_reqs in *.
      pose proof (tab_insert (pq_ent (handles e)) r p (Connected (c <| rxq := rxq c ++ [(4 * len ps, ps)] |>)) _ C4 (pq_ent_None _)) as T.
      rewrite El in T.
      destruct (is_alive (h_rx (hget (handles e) p))) eqn:Eal.
      * rewrite !(pq_ent_alive _ _ _ Eal) in T. cbn [queued_of] in T. prj. rewrite flat_map_app in T.
        cbn [flat_map snd] in T. rewrite app_nil_r, !occ_app in T.
        destruct (mem r ps) eqn:Em.
        -- specialize (I2 eq_refl). rewrite (req_none _ I2) in Hr. rewrite Hal. cbn [is_portq b2n] in *. lia.
        -- cbn [b2n] in I3. lia.
      * rewrite !(pq_ent_dead _ _ _ Eal), !occ_nil in T.
        destruct (mem r ps) eqn:Em.
        -- specialize (I2 eq_refl). rewrite (req_none _ I2) in Hr. rewrite Hal. cbn [is_portq b2n] in *. lia.
        -- lia.
    + now apply NoDup_keys_insert.
    + intros Hg. eapply conn_ok_upd; eauto.
  - apply buf_ok_upd; [assumption|]. unfold used, all4 in *. prj. rewrite map_app, sum_app, count_snoc. cbn [map fst sum].
    destruct (4 * len ps =? 0) eqn:E0; [apply N.eqb_eq in E0; lia|]. cbn [b2n]. repeat split; auto; lia.
Qed.
End Recv.

Lemma step_Recv e m n e' : Good e -> step_opt e (Recv m n) = Some e' -> Fin e'.
Proof.
  intros HG H. unfold step_opt in H. destruct (negb (alive e)) eqn:Ea; [discriminate|]. apply negb_false_iff in Ea.
  inj H. destruct m.
  - apply rv_simple; assumption.
  - now apply rv_Hello.
  - apply rv_simple; assumption.
  - now apply rv_OpenPort.
  - now apply rv_PortOpened.
  - now apply rv_Rejected.
  - now apply rv_Data.
  - now apply rv_PortData.
  - now apply rv_PortCredits.
  - now apply rv_SendFinish.
  - now apply rv_ReceiveClose.
  - now apply rv_ReceiveFinish.
  - now apply rv_ClientFinish.
  - apply rv_flags; assumption.
  - apply rv_flags; assumption.
Qed.
