(** One endpoint = dispatcher ([Mux.v]) + the objects held by local users + the queues between them.
    Local API actions are enabled only while the Rust object they act on exists; the peer is
    arbitrary ([Recv] delivers any message). *)
From Remoc Require Import Lib.Base Gen.Consts Chmux.Wire Chmux.Mux.
From RecordUpdate Require Import RecordUpdate.

(** life cycle of a user-held object whose drop is announced to the dispatcher by a helper task *)
Inductive life :=
| Alive
| Dropped      (** dropped; the notifier task has not sent its event yet *)
| Queued       (** the event is in the dispatcher's queue *)
| Gone.        (** the dispatcher has handled the event *)

Record handle := mk_handle {
  h_tx : life;            (** [Sender] *)
  h_rx : life;            (** [Receiver] *)
  h_rxc : life            (** [Receiver::close]: Alive = not called, Queued = event queued, Gone = handled *)
}.
#[global] Instance eta_handle : Settable _ := settable! mk_handle <h_tx; h_rx; h_rxc>.

(** a [Request] object created for a remote port-open request *)
Inductive rlife :=
| RListenQ (wait : bool)   (** in a listener queue *)
| RPortQ                   (** in the receive queue of a port, inside a port message *)
| RHeld                    (** taken by the listener / obtained from a receiver *)
| RDropped                 (** dropped unanswered; the rejecter task has not sent its event yet *)
| RAnswered.               (** Accepted/Rejected event queued *)

Inductive cstate := CWaiting | CResolved (r : cresp).

Record ep := mk_ep {
  mx : mux;
  max_ports : N;
  alloc : list N;                       (** port allocator: numbers in use *)
  handles : list (N * handle);
  chq : list evt;                       (** [channel_rx]: events from ports, FIFO *)
  cq : list evt;                        (** [connect_rx]: connect requests, then [EAllClientsDropped] *)
  requests : list (N * rlife);          (** live [Request] objects by remote port *)
  connects : list (N * cstate);         (** local connect requests by request id *)
  clients_alive : bool;
  listener_alive : bool;
  terminate_req : bool;
  dead : option perr;
  panicked : option psite;
  sent : list (Wire.msg * option N)     (** messages handed to the transport *)
}.
#[global] Instance eta_ep : Settable _ :=
  settable! mk_ep <mx; max_ports; alloc; handles; chq; cq; requests; connects; clients_alive; listener_alive;
                   terminate_req; dead; panicked; sent>.

Definition ep_init (m : mux) (maxp : N) : ep :=
  {| mx := m; max_ports := maxp; alloc := []; handles := []; chq := []; cq := []; requests := []; connects := [];
     clients_alive := true; listener_alive := true; terminate_req := false; dead := None; panicked := None; sent := [] |}.

Inductive act :=
(* local API *)
| UConnect (p id : N) (wait : bool) (req : N)           (** [Client::connect_ext] with allocated number [p] *)
| USendPorts (via : N) (first last wait : bool) (ps : list (N * N * N))   (** [Sender::connect] on port [via] *)
| UDropClients
| UDropListener
| UListenerTake (r : N)
| UAccept (r p : N)                                      (** accept request [r] with fresh local number [p] *)
| UReject (r : N) (no_ports : bool)
| UDropRequest (r : N)
| USendData (p : N) (first last : bool) (n : N)
| UConsume (p : N)                                       (** the receiver takes the next message from its queue *)
| UReturnCredits (p n : N)
| UCloseRx (p : N) | UDropRx (p : N) | UDropTx (p : N)
| UTerminate
(* helper tasks *)
| NTx (p : N) | NRx (p : N) | NReq (r : N)
(* dispatcher *)
| DPort | DConn | DListenerDropped | DGoodbye
| Recv (m : Wire.msg) (paylen : N).

Definition set_handle (e : ep) (p : N) (h : handle) : ep := e <| handles := insert p h (handles e) |>.

Definition remote_of (e : ep) (p : N) : option N :=
  match lookup p (ports (mx e)) with Some (Connected c) => Some (remote c) | _ => None end.

(** applying the dispatcher's effects to the rest of the endpoint *)
Fixpoint apply_effs (e : ep) (effs : list eff) : ep :=
  match effs with
  | [] => e
  | f :: r =>
      let e1 :=
        match f with
        | Emit m pl => e <| sent := sent e ++ [(m, pl)] |>
        | Respond req r => e <| connects := insert req (CResolved r) (connects e) |>
        | NewPort local _ => set_handle e local {| h_tx := Alive; h_rx := Alive; h_rxc := Alive |}
        | ToListener r =>
            if listener_alive e
            then e <| requests := insert (lr_remote r) (RListenQ (lr_wait r)) (requests e) |>
            else e <| requests := insert (lr_remote r) RDropped (requests e) |>
        | DropRequest rp => e <| requests := insert rp RDropped (requests e) |>
        | PortRequests p rs =>
            (* a receiver that is gone drops what is sent to it *)
            let st := match lookup p (handles e) with
                      | Some h => match h_rx h with Alive => RPortQ | _ => RDropped end
                      | None => RDropped
                      end in
            e <| requests := fold_left (fun acc r => insert r st acc) rs (requests e) |>
        | ListenerClientDropped => e
        | DropNumber p => e <| alloc := del p (alloc e) |>
        end in
      apply_effs e1 r
  end.

(** when the dispatcher ends (error, or Goodbye sent and received) its queues and reply cells are
    dropped: every connect request still waiting observes [ChMux] -- or [Rejected] when the remote
    listener is known to be gone ([client.rs], response task) *)
Definition resolve_waiting (e : ep) : ep :=
  e <| connects := map (fun x => match snd x with
                                  | CWaiting => (fst x, CResolved (if remote_listener_dropped (mx e) then RListenerGone else RChMux))
                                  | _ => x
                                  end) (connects e) |>.

Definition finish (e : ep) (o : outcome) : ep :=
  match o with
  | Done m effs =>
      let e' := apply_effs (e <| mx := m |>) effs in
      if goodbye_sent m && goodbye_received m then resolve_waiting e' else e'
  | Proto err effs => resolve_waiting (apply_effs e effs <| dead := Some err |>)
  | Panic site => e <| panicked := Some site |>
  end.

Definition fresh (e : ep) (p : N) : bool :=
  negb (mem p (alloc e)) && (len (alloc e) <? max_ports e).

Definition all_fresh (e : ep) (ps : list N) : bool :=
  (fix go (l : list N) (a : list N) : bool :=
     match l with
     | [] => true
     | p :: r => negb (mem p a) && (len a <? max_ports e) && go r (p :: a)
     end) ps (alloc e).

(** the dispatcher's loop is still running: no error, and not both Goodbye sent and received *)
Definition alive (e : ep) : bool :=
  match dead e, panicked e with
  | None, None => negb (goodbye_sent (mx e) && goodbye_received (mx e))
  | _, _ => false
  end.

(** once Goodbye has been handed to the transport the send task ends and local events are no
    longer processed (received messages still are) *)
Definition sending (e : ep) : bool := negb (goodbye_sent (mx e)).

Definition step_opt (e : ep) (a : act) : option ep :=
  if negb (alive e) then None else
  match a with
  | UConnect p id wait req =>
      if clients_alive e && fresh e p && negb (match lookup req (connects e) with Some _ => true | None => false end)
      then Some (e <| alloc := p :: alloc e |> <| connects := insert req CWaiting (connects e) |>
                   <| cq := cq e ++ [EConnectReq p id wait req] |>)
      else None
  | USendPorts via first last wait ps =>
      match lookup via (handles e), remote_of e via with
      | Some h, Some rp =>
          match h_tx h with
          | Alive =>
              let nums := map (fun x => fst (fst x)) ps in
              let reqs := map (fun x => snd x) ps in
              if all_fresh e nums && forallb (fun r => match lookup r (connects e) with Some _ => false | None => true end) reqs
                 && (fix nodup (l : list N) : bool := match l with [] => true | x :: r => negb (mem x r) && nodup r end) reqs
              then Some (e <| alloc := rev nums ++ alloc e |>
                           <| connects := fold_left (fun c r => insert r CWaiting c) reqs (connects e) |>
                           <| chq := chq e ++ [ESendPorts rp first last wait ps] |>)
              else None
          | _ => None
          end
      | _, _ => None
      end
  | UDropClients =>
      if clients_alive e then Some (e <| clients_alive := false |> <| cq := cq e ++ [EAllClientsDropped] |>) else None
  | UDropListener =>
      if listener_alive e then
        (* the queued requests are dropped with the listener *)
        Some (e <| listener_alive := false |>
                <| mx := mx e <| lq_wait := 0 |> <| lq_nowait := 0 |> |>   (* a closed queue never reports Full *)
                <| requests := map (fun x => match snd x with RListenQ _ => (fst x, RDropped) | _ => x end) (requests e) |>)
      else None
  | UListenerTake r =>
      match lookup r (requests e) with
      | Some (RListenQ w) =>
          if listener_alive e then
            Some (e <| requests := insert r RHeld (requests e) |>
                    <| mx := if w then mx e <| lq_wait := lq_wait (mx e) - 1 |> else mx e <| lq_nowait := lq_nowait (mx e) - 1 |> |>)
          else None
      | _ => None
      end
  | UAccept r p =>
      match lookup r (requests e) with
      | Some RHeld =>
          if fresh e p then
            Some (e <| alloc := p :: alloc e |> <| requests := insert r RAnswered (requests e) |>
                    <| chq := chq e ++ [EAccepted p r] |>)
          else None
      | _ => None
      end
  | UReject r np =>
      match lookup r (requests e) with
      | Some RHeld => Some (e <| requests := insert r RAnswered (requests e) |> <| chq := chq e ++ [ERejected r np] |>)
      | _ => None
      end
  | UDropRequest r =>
      match lookup r (requests e) with
      | Some RHeld => Some (e <| requests := insert r RDropped (requests e) |>)
      | _ => None
      end
  | USendData p first last n =>
      match lookup p (handles e), remote_of e p with
      | Some h, Some rp =>
          match h_tx h with Alive => Some (e <| chq := chq e ++ [ESendData rp first last n] |>) | _ => None end
      | _, _ => None
      end
  | UConsume p =>
      match lookup p (handles e), lookup p (ports (mx e)) with
      | Some h, Some (Connected c) =>
          match h_rx h, rxq c with
          | Alive, (_, rs) :: q =>
              (* the requests of a port message are handed to the caller *)
              Some (e <| mx := mx e <| ports := insert p (Connected (c <| rxq := q |>)) (ports (mx e)) |> |>
                      <| requests := fold_left (fun acc r => insert r RHeld acc) rs (requests e) |>)
          | _, _ => None
          end
      | _, _ => None
      end
  | UReturnCredits p n =>
      match lookup p (handles e), remote_of e p with
      | Some h, Some rp =>
          match h_rx h with Alive => Some (e <| chq := chq e ++ [EReturnCredits rp n] |>) | _ => None end
      | _, _ => None
      end
  | UCloseRx p =>
      match lookup p (handles e) with
      | Some h =>
          match h_rx h, h_rxc h with
          | Alive, Alive => Some (set_handle e p (h <| h_rxc := Queued |>) <| chq := chq e ++ [EReceiverClosed p] |>)
          | _, _ => None
          end
      | None => None
      end
  | UDropRx p =>
      match lookup p (handles e) with
      | Some h =>
          match h_rx h with
          | Alive =>
              (* the receive queue is dropped with the receiver, and with it the requests it holds *)
              let queued := match lookup p (ports (mx e)) with
                            | Some (Connected c) => flat_map snd (rxq c)
                            | _ => []
                            end in
              Some (set_handle e p (h <| h_rx := Dropped |>)
                      <| requests := fold_left (fun acc r => insert r RDropped acc) queued (requests e) |>)
          | _ => None
          end
      | None => None
      end
  | UDropTx p =>
      match lookup p (handles e) with
      | Some h => match h_tx h with Alive => Some (set_handle e p (h <| h_tx := Dropped |>)) | _ => None end
      | None => None
      end
  | UTerminate =>
      (* [terminate] is a method of [Client] and of [Listener] *)
      if clients_alive e || listener_alive e then Some (e <| terminate_req := true |>) else None
  | NTx p =>
      match lookup p (handles e) with
      | Some h =>
          match h_tx h with
          | Dropped => Some (set_handle e p (h <| h_tx := Queued |>) <| chq := chq e ++ [ESenderDropped p] |>)
          | _ => None
          end
      | None => None
      end
  | NRx p =>
      match lookup p (handles e) with
      | Some h =>
          match h_rx h with
          | Dropped => Some (set_handle e p (h <| h_rx := Queued |>) <| chq := chq e ++ [EReceiverDropped p] |>)
          | _ => None
          end
      | None => None
      end
  | NReq r =>
      match lookup r (requests e) with
      | Some RDropped => Some (e <| requests := insert r RAnswered (requests e) |> <| chq := chq e ++ [ERejected r false] |>)
      | _ => None
      end
  | DPort =>
      if negb (sending e) then None else
      match chq e with
      | ev :: q =>
          let e1 := e <| chq := q |> in
          let e2 :=
            match ev with
            | ESenderDropped p =>
                match lookup p (handles e) with Some h => set_handle e1 p (h <| h_tx := Gone |>) | None => e1 end
            | EReceiverDropped p =>
                match lookup p (handles e) with Some h => set_handle e1 p (h <| h_rx := Gone |>) | None => e1 end
            | EReceiverClosed p =>
                match lookup p (handles e) with Some h => set_handle e1 p (h <| h_rxc := Gone |>) | None => e1 end
            | EAccepted _ r | ERejected r _ => e1 <| requests := remove r (requests e1) |>
            | _ => e1
            end in
          Some (finish e2 (handle_event (mx e) ev))
      | [] => None
      end
  | DConn =>
      if negb (sending e) then None else
      match cq e with
      | ev :: q => Some (finish (e <| cq := q |>) (handle_event (mx e) ev))
      | [] => None
      end
  | DListenerDropped =>
      if sending e && negb (listener_alive e) && listen_open (mx e) then Some (finish e (handle_event (mx e) EListenerDropped)) else None
  | DGoodbye =>
      if negb (goodbye_sent (mx e)) && (should_terminate (mx e) || terminate_req e)
      then Some (finish e (handle_event (mx e) EGoodbye)) else None
  | Recv m paylen => Some (finish e (handle_received (mx e) m paylen))
  end.

Definition step (e : ep) (a : act) : ep := match step_opt e a with Some e' => e' | None => e end.
Definition run (acts : list act) (e : ep) : ep := fold_left step acts e.
