(** The invariant of the composed system ([Net.v]): how the port tables of the two endpoints, their
    outstanding remote requests, their pending events and the frames in flight are related.

    For a direction X -> Y (link [L]; the opposite link is [L']) and a port number [y] of Y:
    - [y] free at Y: nothing addressed to [y] is in flight, X does not hold a request from [y];
    - [y] [Connecting]: its request is in exactly one place -- in flight to X, outstanding at X, or
      answered by a [PortOpened]/[Rejected] in flight to Y; frames addressed to [y] follow the
      [PortOpened];
    - [y] [Connected] with remote [x]: the finish/close frames in flight plus what Y has already
      recorded equal what X's end of the connection has announced ([rcl]); X's end is its table entry
      [x] if that is connected to [y] ([PLive]), still waiting for our [PortOpened] ([PPend]), or
      released ([PGone]) -- then Y's halves are finished too and whatever reintroduces [x] on the
      link comes after the last frames for [y].
    Plus: remote numbers are injective over the connected ports of one endpoint, a connected port's
    remote is not an outstanding request, and queued send/credit events have a live sending port. *)
From Remoc Require Import Lib.Base Gen.Consts Chmux.Wire Chmux.Mux Chmux.Endpoint Chmux.EndpointLemmas Chmux.EndpointInv
  Chmux.Net.
From RecordUpdate Require Import RecordUpdate.

(** * Counting frames *)
Definition cnt (f : msg -> bool) (l : list frame) : N := count (fun fr => f (fst fr)) l.
Lemma cnt_nil f : cnt f [] = 0. Proof. reflexivity. Qed.
Lemma cnt_cons f fr l : cnt f (fr :: l) = b2n (f (fst fr)) + cnt f l. Proof. reflexivity. Qed.
Lemma cnt_app f l1 l2 : cnt f (l1 ++ l2) = cnt f l1 + cnt f l2. Proof. apply count_app. Qed.
Lemma cnt_snoc f l fr : cnt f (l ++ [fr]) = cnt f l + b2n (f (fst fr)).
Proof. unfold cnt. now rewrite count_snoc. Qed.
Lemma cnt_le (f g : msg -> bool) l : (forall m, f m = true -> g m = true) -> cnt f l <= cnt g l.
Proof.
  intros H. induction l as [|fr l IH]; [rewrite !cnt_nil; lia|]. rewrite !cnt_cons.
  destruct (f (fst fr)) eqn:E; [rewrite (H _ E)|]; cbn [b2n]; [lia|]. destruct (g (fst fr)); cbn [b2n]; lia.
Qed.
Lemma cnt_pos_In f l : 0 < cnt f l -> exists fr, In fr l /\ f (fst fr) = true.
Proof.
  induction l as [|fr l IH]; [rewrite cnt_nil; lia|]. rewrite cnt_cons. destruct (f (fst fr)) eqn:E.
  - intros _. exists fr. split; [now left|exact E].
  - cbn [b2n]. intros H. destruct IH as (fr' & H1 & H2); [lia|]. exists fr'. split; [now right|exact H2].
Qed.
Lemma In_cnt_pos f l fr : In fr l -> f (fst fr) = true -> 0 < cnt f l.
Proof.
  induction l as [|a l IH]; [contradiction|]. intros [->|H] Hf; rewrite cnt_cons.
  - rewrite Hf. cbn [b2n]. lia.
  - specialize (IH H Hf). lia.
Qed.

(** no [g]-frame behind an [f]-frame *)
Definition nafter (f g : msg -> bool) (l : list frame) : Prop :=
  no_after (fun fr => f (fst fr)) (fun fr => g (fst fr)) l.
Lemma nafter_nil f g : nafter f g []. Proof. exact I. Qed.
Lemma nafter_cons f g fr l : nafter f g (fr :: l) <-> (f (fst fr) = true -> cnt g l = 0) /\ nafter f g l.
Proof. reflexivity. Qed.
Lemma nafter_tail f g fr l : nafter f g (fr :: l) -> nafter f g l.
Proof. intros H. apply H. Qed.
Lemma nafter_head f g fr l : nafter f g (fr :: l) -> f (fst fr) = true -> cnt g l = 0.
Proof. intros H. apply H. Qed.
Lemma nafter_snoc f g l fr : nafter f g l -> (g (fst fr) = true -> cnt f l = 0) -> nafter f g (l ++ [fr]).
Proof. intros H1 H2. apply no_after_snoc; assumption. Qed.
Lemma nafter_snoc_other f g l fr : nafter f g l -> g (fst fr) = false -> nafter f g (l ++ [fr]).
Proof. intros H1 H2. apply nafter_snoc; [exact H1|]. rewrite H2. discriminate. Qed.
Lemma nafter_g0 f g l : cnt g l = 0 -> nafter f g l.
Proof.
  induction l as [|fr l IH]; [intros; exact I|]. rewrite cnt_cons. intros H. apply nafter_cons. split.
  - intros _. lia.
  - apply IH. lia.
Qed.
Lemma nafter_f0 f g l : cnt f l = 0 -> nafter f g l.
Proof.
  induction l as [|fr l IH]; [intros; exact I|]. rewrite cnt_cons. intros H. apply nafter_cons. split.
  - intros Hf. rewrite Hf in H. cbn [b2n] in H. lia.
  - apply IH. lia.
Qed.
Lemma nafter_ext f f' g g' l :
  (forall m, f' m = true -> f m = true) -> (forall m, g' m = true -> g m = true) -> nafter f g l -> nafter f' g' l.
Proof.
  intros Hf Hg. induction l as [|fr l IH]; [auto|]. rewrite !nafter_cons. intros [H1 H2]. split; [|auto].
  intros E. specialize (H1 (Hf _ E)). pose proof (cnt_le g' g l Hg). lia.
Qed.

(** * Classification of messages by the (receiver-local) port they address *)
Definition m_po (y : N) (m : msg) : bool := match m with PortOpened c _ => c =? y | _ => false end.
Definition m_pox (y x : N) (m : msg) : bool := match m with PortOpened c s => (c =? y) && (s =? x) | _ => false end.
Definition m_rj (y : N) (m : msg) : bool := match m with Rejected c _ => c =? y | _ => false end.
Definition m_data (y : N) (m : msg) : bool :=
  match m with Data p _ _ => p =? y | PortData p _ _ _ _ _ => p =? y | _ => false end.
Definition m_cred (y : N) (m : msg) : bool := match m with PortCredits p _ => p =? y | _ => false end.
Definition m_sf (y : N) (m : msg) : bool := match m with SendFinish p => p =? y | _ => false end.
Definition m_rc (y : N) (m : msg) : bool := match m with ReceiveClose p => p =? y | _ => false end.
Definition m_rf (y : N) (m : msg) : bool := match m with ReceiveFinish p => p =? y | _ => false end.
Definition m_credrc (y : N) (m : msg) : bool := m_cred y m || m_rc y m.
Definition m_fin (y : N) (m : msg) : bool := m_sf y m || m_rf y m.
Definition m_other (y : N) (m : msg) : bool := m_data y m || m_credrc y m || m_fin y m.
Definition m_addr (y : N) (m : msg) : bool := m_po y m || m_rj y m || m_other y m.
(** messages never emitted after the handshake *)
Definition m_bad (m : msg) : bool := match m with Reset | Hello _ _ => true | _ => false end.

(** requests for the sender-local port [x] carried by a message *)
Definition m_reqn (x : N) (m : msg) : N :=
  match m with OpenPort c _ _ => b2n (c =? x) | PortData _ _ _ _ ps _ => occ x ps | _ => 0 end.
Definition reqcount (x : N) (l : list frame) : N := sum (map (fun fr => m_reqn x (fst fr)) l).
Lemma reqcount_nil x : reqcount x [] = 0. Proof. reflexivity. Qed.
Lemma reqcount_cons x fr l : reqcount x (fr :: l) = m_reqn x (fst fr) + reqcount x l. Proof. reflexivity. Qed.
Lemma reqcount_snoc x l fr : reqcount x (l ++ [fr]) = reqcount x l + m_reqn x (fst fr).
Proof. unfold reqcount. rewrite map_app, sum_app. cbn [map sum]. now rewrite N.add_0_r. Qed.

(** messages that bring the sender-local number [x] (back) into play *)
Definition m_srv (x : N) (m : msg) : bool := match m with PortOpened _ s => s =? x | _ => false end.
Definition m_intro (x : N) (m : msg) : bool := (0 <? m_reqn x m) || m_srv x m.

Lemma reqcount_intro x l : reqcount x l = 0 -> cnt (m_srv x) l = 0 -> cnt (m_intro x) l = 0.
Proof.
  induction l as [|fr l IH]; [reflexivity|]. rewrite reqcount_cons, !cnt_cons. intros H1 H2.
  unfold m_intro at 1. destruct (m_srv x (fst fr)); cbn [b2n] in H2; [lia|].
  assert (m_reqn x (fst fr) = 0) as -> by lia. rewrite N.ltb_irrefl. cbn [orb b2n].
  rewrite IH; lia.
Qed.
Lemma cnt_srv_pox x l : 0 < cnt (m_srv x) l -> exists y, 0 < cnt (m_pox y x) l.
Proof.
  intros H. apply cnt_pos_In in H as (fr & Hin & Hf). destruct fr as [m pl]. cbn [fst] in Hf.
  destruct m; try discriminate. cbn [m_srv] in Hf. exists client_port.
  eapply In_cnt_pos; [exact Hin|]. cbn [fst m_pox]. now rewrite N.eqb_refl, Hf.
Qed.
Lemma cnt_pox_le_po y x l : cnt (m_pox y x) l <= cnt (m_po y) l.
Proof. apply cnt_le. intros m. destruct m; cbn [m_pox m_po]; try discriminate. intros H. apply andb_true_iff in H. tauto. Qed.

(** * One end of a connection as seen from the other side *)
Inductive pst := PGone | PPend | PLive (c : conn).

(** X's end of the connection between its port [x] and the peer's port [y]; [Lin] is the link towards X *)
Definition pstat (PX : list (N * pstate)) (Lin : list frame) (x y : N) : pst :=
  match lookup x PX with
  | Some (Connected c) => if remote c =? y then PLive c else PGone
  | Some (Connecting _) => if 0 <? cnt (m_pox x y) Lin then PPend else PGone
  | None => PGone
  end.
Definition txf (s : pst) : bool := match s with PGone => true | PPend => false | PLive c => tx_dropped c end.
Definition rxf (s : pst) : bool := match s with PGone => true | PPend => false | PLive c => rx_dropped c end.
Definition rxcf (s : pst) : bool := match s with PGone => true | PPend => false | PLive c => rx_closed c || rx_dropped c end.

(** what Y's entry [c] for port [y] has recorded, plus what is in flight on [L], equals what the
    other end [s] has announced *)
Record rcl (c : conn) (s : pst) (y : N) (L : list frame) : Prop := mk_rcl {
  r_sf : cnt (m_sf y) L + b2n (negb (rx_open c)) = b2n (txf s);
  r_rf : cnt (m_rf y) L + b2n (rrx_dropped c) = b2n (rxf s);
  r_rc : cnt (m_rc y) L + b2n (rrx_closed c) <= b2n (rxcf s);
  r_sfdata : nafter (m_sf y) (m_data y) L;
  r_data : rx_open c = false -> cnt (m_data y) L = 0;
  r_rfcred : nafter (m_rf y) (m_credrc y) L;
  r_cred : rrx_dropped c = true -> cnt (m_credrc y) L = 0;
  r_gone : s = PGone -> tx_dropped c = true /\ rx_dropped c = true;
  r_pend : s = PPend -> cnt (m_other y) L = 0;
  r_dc : rrx_dropped c = true -> rrx_closed c = true
}.

Definition fresh_conn : conn :=
  {| remote := 0; pool := 0; pool_closed := None; rx_open := true; rxq := []; rx_closed := false; rx_dropped := false;
     tx_dropped := false; rrx_closed := false; rrx_dropped := false |}.

(** [rcl] looks at the flags only *)
Definition flags_eq (c c' : conn) : Prop :=
  rx_open c' = rx_open c /\ rrx_dropped c' = rrx_dropped c /\ rrx_closed c' = rrx_closed c /\
  tx_dropped c' = tx_dropped c /\ rx_dropped c' = rx_dropped c /\ rx_closed c' = rx_closed c.
Lemma rcl_flags c c' s y L : flags_eq c c' -> rcl c s y L -> rcl c' s y L.
Proof.
  intros (E1 & E2 & E3 & E4 & E5 & E6) [H1 H2 H3 H4 H5 H6 H7 H8 H9 H10].
  constructor; rewrite ?E1, ?E2, ?E3, ?E4, ?E5; auto.
Qed.

(** * Pending events *)
Definition ev_sends (y : N) (ev : evt) : bool :=
  match ev with ESendData r _ _ _ => r =? y | ESendPorts r _ _ _ _ => r =? y | _ => false end.
Definition ev_creds (y : N) (ev : evt) : bool := match ev with EReturnCredits r _ => r =? y | _ => false end.

(** * The invariant for one direction X -> Y *)
Section Dir.
  Variables (PX PY : list (N * pstate)) (OX : list N) (L L' : list frame).

  Definition rx_clause (y : N) : Prop :=
    match lookup y PY with
    | None => cnt (m_addr y) L = 0 /\ mem y OX = false /\ reqcount y L' = 0
    | Some (Connecting _) =>
        reqcount y L' + b2n (mem y OX) + cnt (m_po y) L + cnt (m_rj y) L = 1 /\
        nafter (m_other y) (m_po y) L /\
        (cnt (m_po y) L = 0 -> cnt (m_other y) L = 0) /\
        (forall x, 0 < cnt (m_pox y x) L -> exists cX, pstat PX L' x y = PLive cX /\ rcl fresh_conn (PLive cX) y L)
    | Some (Connected c) =>
        cnt (m_po y) L = 0 /\ cnt (m_rj y) L = 0 /\ mem y OX = false /\ reqcount y L' = 0 /\
        rcl c (pstat PX L' (remote c) y) y L /\
        (pstat PX L' (remote c) y = PGone -> nafter (m_intro (remote c)) (m_fin y) L)
    end.
End Dir.

(** remote numbers are injective over connected ports, and not outstanding *)
Definition inj_ok (P : list (N * pstate)) : Prop :=
  forall p1 p2 c1 c2, lookup p1 P = Some (Connected c1) -> lookup p2 P = Some (Connected c2) ->
    remote c1 = remote c2 -> p1 = p2.
Definition out_ok (P : list (N * pstate)) (O : list N) : Prop :=
  forall p c, lookup p P = Some (Connected c) -> mem (remote c) O = false.

(** queued send / credit events have a live sending port and precede its drop notification *)
Record chq_ok (P : list (N * pstate)) (q : list evt) : Prop := mk_chq_ok {
  ch_send : forall y, 0 < count (ev_sends y) q ->
            exists x c, lookup x P = Some (Connected c) /\ remote c = y /\ tx_dropped c = false;
  ch_cred : forall y, 0 < count (ev_creds y) q ->
            exists x c, lookup x P = Some (Connected c) /\ remote c = y /\ rx_dropped c = false;
  ch_ord : forall x c, lookup x P = Some (Connected c) ->
           no_after (is_sd x) (ev_sends (remote c)) q /\ no_after (is_rd x) (ev_creds (remote c)) q
}.

(** the relation between the two tables, request sets, event queues and links (X sends on [L]) *)
Record Core (PX PY : list (N * pstate)) (OX OY : list N) (QX QY : list evt) (L L' : list frame) : Prop := mk_Core {
  c_xy : forall y, rx_clause PX PY OX L L' y;
  c_yx : forall x, rx_clause PY PX OY L' L x;
  c_injx : inj_ok PX;
  c_injy : inj_ok PY;
  c_outx : out_ok PX OX;
  c_outy : out_ok PY OY;
  c_chx : chq_ok PX QX;
  c_chy : chq_ok PY QY;
  c_badx : cnt m_bad L = 0;
  c_bady : cnt m_bad L' = 0
}.

Lemma Core_sym PX PY OX OY QX QY L L' : Core PX PY OX OY QX QY L L' -> Core PY PX OY OX QY QX L' L.
Proof. intros [H1 H2 H3 H4 H5 H6 H7 H8 H9 H10]. constructor; assumption. Qed.

Definition Sys (X Y : ep) (L L' : list frame) : Prop :=
  WF X /\ WF Y /\
  Core (ports (mx X)) (ports (mx Y)) (outstanding (mx X)) (outstanding (mx Y)) (chq X) (chq Y) L L'.

Lemma Sys_sym X Y L L' : Sys X Y L L' -> Sys Y X L' L.
Proof. intros (H1 & H2 & H3). split; [exact H2|split; [exact H1|now apply Core_sym]]. Qed.

Definition NetInv (n : net) : Prop := Sys (na n) (nb n) (lab n) (lba n).
