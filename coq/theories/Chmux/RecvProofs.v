(** The receiver refines the ideal parser. *)
From Remoc Require Import Lib.Base Chmux.Parse Chmux.Recv.

Definition is_data (m : msg) : bool := match m with MData _ => true | _ => false end.
Definition data_of (ms : list msg) : list msg := filter is_data ms.

Lemma data_of_app a b : data_of (a ++ b) = data_of a ++ data_of b.
Proof. apply filter_app. Qed.

Lemma drain_q_concat acc q : drain_q acc q = acc ++ concat q.
Proof.
  revert acc; induction q as [|c q IH]; intros acc; cbn [drain_q concat].
  - now rewrite app_nil_r.
  - rewrite IH. now rewrite app_assoc.
Qed.

(** data accumulated by the parser *)
Definition dacc (s : pst) : option (list N) := match s with PData acc => Some acc | _ => None end.

(** simulation relation between the consumer (mode, receiver state) and the parser state *)
Definition sim (m : cmode) (r : rstate) (s : pst) : Prop :=
  restarted r = None /\
  (finished r = true <-> s = PFin) /\
  (finished r = false ->
   match m with
   | CAny =>
       match rcving r with
       | RData bufs rem => dacc s = Some (concat bufs) /\ rem = len (concat bufs)
       | RChunks _ _ => False
       | _ => dacc s = None
       end
   | CStream acc => rcving r = RChunks [] false /\ dacc s = Some acc
   end).

Ltac prj := cbn [rcving finished restarted max_data max_ports set_rcving set_finished set_restarted] in *.

Lemma len_concat_app (bufs : list (list N)) b : len (concat (bufs ++ [b])) = len (concat bufs) + len b.
Proof. rewrite concat_app. cbn [concat]. rewrite app_nil_r. apply len_app. Qed.
Lemma concat_snoc (bufs : list (list N)) b : concat (bufs ++ [b]) = concat bufs ++ b.
Proof. rewrite concat_app. cbn [concat]. now rewrite app_nil_r. Qed.

Ltac fin :=
  unfold sim; prj; cbn [delivered_msgs flat_map dmsg_msg app data_of filter is_data dacc drain_q concat];
  rewrite ?app_nil_r, ?drain_q_concat, ?concat_snoc, ?len_app; cbn [app concat]; rewrite ?app_nil_r;
  split; [repeat split; intros; auto; try congruence; try discriminate; try lia;
          try (cbn [concat app dacc]; rewrite ?app_nil_r; reflexivity) | try reflexivity].

Lemma feed_any_sim r s f :
  sim CAny r s -> finished r = false ->
  let '(m', r', o) := feed_any r f in
  let '(s', po) := parse_step s f in
  sim m' r' s' /\ data_of (delivered_msgs o) = data_of po.
Proof.
  intros (Hre & Hfin & Hst) Ef. specialize (Hst Ef).
  assert (Hs : s <> PFin) by (intros ->; destruct Hfin as [_ H]; specialize (H eq_refl); congruence).
  unfold feed_any, handle_any.
  destruct f as [first last b|first last ps|].
  - destruct first.
    + replace (0 + len b) with (len b) by lia. cbn [app concat].
      destruct s; try congruence; cbn [parse_step];
        (destruct (len b <=? max_data r) eqn:Em; [destruct last|unfold drain; prj; destruct last]); fin.
    + destruct (rcving r) as [|bufs rem|q c|acc0] eqn:Er; try (destruct Hst; fail).
      * destruct s; try congruence; cbn [dacc] in Hst; try discriminate; cbn [parse_step]; fin; rewrite ?Er; auto.
      * destruct Hst as [Hd ->]. destruct s; try discriminate. cbn [dacc] in Hd. injection Hd as ->. cbn [parse_step].
        destruct (len (concat bufs) + len b <=? max_data r) eqn:Em; [destruct last|unfold drain; prj; destruct last]; fin.
      * destruct s; try congruence; cbn [dacc] in Hst; try discriminate; cbn [parse_step]; fin.
  - destruct first.
    + cbn [app]. destruct s; try congruence; cbn [parse_step];
        destruct (max_ports r <? len ps); destruct last; fin.
    + destruct (rcving r) as [|bufs rem|q c|acc0] eqn:Er; try (destruct Hst; fail).
      * destruct s; try congruence; cbn [dacc] in Hst; try discriminate; cbn [parse_step]; try destruct last; fin.
      * destruct Hst as [Hd ->]. destruct s; try discriminate. cbn [parse_step]. fin.
      * destruct s; try congruence; cbn [dacc] in Hst; try discriminate; cbn [parse_step];
          destruct (max_ports r <? len (acc0 ++ ps)); destruct last; fin.
  - destruct s; try congruence; cbn [parse_step]; fin.
Qed.

Lemma feed_sim m r s f :
  sim m r s ->
  let '(m', r', o) := feed m r f in
  let '(s', po) := parse_step s f in
  sim m' r' s' /\ data_of (delivered_msgs o) = data_of po.
Proof.
  intros Hsim. pose proof Hsim as (Hre & Hfin & Hst). unfold feed.
  destruct (finished r) eqn:Ef.
  { assert (s = PFin) as -> by (now apply Hfin). cbn [parse_step]. split; [exact Hsim|reflexivity]. }
  destruct m as [|acc]; [now apply feed_any_sim|].
  assert (Hs : s <> PFin) by (intros ->; destruct Hfin as [_ H]; specialize (H eq_refl); congruence).
  destruct (Hst eq_refl) as [Er Hd]. destruct s; try discriminate. cbn [dacc] in Hd. injection Hd as ->.
  unfold handle_chunk. rewrite Er.
  destruct f as [first last b|first last ps|].
  - destruct first.
    + (* cancelled by the start of the next message, which recv_any processes next *)
      prj. unfold feed_any, handle_any. prj. cbn [app concat parse_step]. replace (0 + len b) with (len b) by lia.
      destruct (len b <=? max_data r) eqn:Em; [destruct last|unfold drain; prj; destruct last]; fin.
    + cbn [parse_step]. unfold drain. prj. destruct last; fin.
  - prj. rewrite Hre. cbn [parse_step]. destruct first, last; fin.
  - prj. rewrite Hre. cbn [parse_step]. fin.
Qed.

Lemma feed_all_sim fs : forall m r s,
  sim m r s ->
  let '(m', r', o) := feed_all m r fs in
  let '(s', po) := parse_from s fs in
  sim m' r' s' /\ data_of (delivered_msgs o) = data_of po.
Proof.
  induction fs as [|f fs IH]; intros m r s Hsim; cbn [feed_all parse_from].
  - split; [exact Hsim|reflexivity].
  - pose proof (feed_sim m r s f Hsim) as H1.
    destruct (feed m r f) as [[m1 r1] o1]. destruct (parse_step s f) as [s1 po1]. destruct H1 as [Hs1 Ho1].
    specialize (IH m1 r1 s1 Hs1).
    destruct (feed_all m1 r1 fs) as [[m2 r2] o2]. destruct (parse_from s1 fs) as [s2 po2]. destruct IH as [Hs2 Ho2].
    split; [exact Hs2|]. unfold delivered_msgs in *. rewrite flat_map_app, !data_of_app. now rewrite Ho1, Ho2.
Qed.

Lemma sim_init md mp : sim CAny (rinit md mp) PNone.
Proof. unfold sim, rinit; prj. repeat split; intros; try discriminate; auto. Qed.

(** A consumer that follows the protocol obtains, from any frame sequence, exactly the data
    messages the sequence contains -- each once, in order, whole or streamed. *)
Theorem recv_refines_parse md mp fs :
  let '(_, _, o) := feed_all CAny (rinit md mp) fs in
  data_of (delivered_msgs o) = data_of (parse fs).
Proof.
  pose proof (feed_all_sim fs CAny (rinit md mp) PNone (sim_init md mp)) as H.
  destruct (feed_all CAny (rinit md mp) fs) as [[m r] o]. unfold parse.
  destruct (parse_from PNone fs) as [s po]. cbn [snd]. apply H.
Qed.

(** whether a message is handed over whole or streamed is decided by [max_data_size] alone *)
Definition fits (md : N) (d : dmsg) : Prop :=
  match d with DData b => len b <= md | DStream b => md < len b | _ => True end.
