(** C09: the dispatcher sends port ids exactly to peers that announced a version knowing them. *)
From Remoc Require Import Lib.Base Gen.Consts Chmux.Wire Chmux.Mux.
From RecordUpdate Require Import RecordUpdate.

Definition has_ids (w : Wire.msg) : bool :=
  match w with
  | OpenPort _ _ (Some _) => true
  | PortData _ _ _ _ _ (Some _) => true
  | _ => false
  end.

(** messages that have an id-carrying variant *)
Definition id_capable (w : Wire.msg) : bool :=
  match w with OpenPort _ _ _ | PortData _ _ _ _ _ _ => true | _ => false end.

Definition effs_of (o : outcome) : list eff :=
  match o with Done _ e => e | Proto _ e => e | Panic _ => [] end.

Definition emits_ok (v : bool) (effs : list eff) : Prop :=
  forall w pl, In (Emit w pl) effs -> id_capable w = true -> has_ids w = v.

Lemma maybe_free_no_emit m p m' effs : maybe_free m p = Some (m', effs) -> forall w pl, ~ In (Emit w pl) effs.
Proof.
  unfold maybe_free. intros H w pl.
  destruct (lookup p (ports m)) as [[|c]|]; try discriminate.
  destruct (tx_dropped c && rx_dropped c && negb (rx_open c) && rrx_dropped c); inversion H; subst; cbn; intuition discriminate.
Qed.

Lemma emits_ok_cons_plain v w pl effs :
  id_capable w = false -> (forall w' pl', ~ In (Emit w' pl') effs) -> emits_ok v (Emit w pl :: effs).
Proof.
  intros Hw Hn w' pl' [Heq|Hin] Hc.
  - inversion Heq; subst. congruence.
  - exfalso. exact (Hn _ _ Hin).
Qed.

Theorem event_ids m e : emits_ok (with_ids m) (effs_of (handle_event m e)).
Proof.
  destruct e; cbn [handle_event].
  all: repeat match goal with
       | |- context [match ?x with _ => _ end] =>
           match x with
           | maybe_free _ _ => destruct x as [[? ?]|] eqn:?
           | _ => destruct x eqn:?
           end
       end; cbn [effs_of].
  all: try (eapply emits_ok_cons_plain; [reflexivity | eauto using maybe_free_no_emit]; fail).
  all: intros ? ? Hin Hc; cbn in Hin.
  all: repeat match goal with H : _ \/ _ |- _ => destruct H | H : False |- _ => destruct H end.
  all: try match goal with H : Emit _ _ = Emit _ _ |- _ => inversion H; subst; clear H end.
  all: try discriminate.
  all: try (cbn in Hc; discriminate).
  all: try (cbn; congruence).
  all: try (exfalso; eapply maybe_free_no_emit; eauto; fail).
Qed.

Theorem received_no_emit m msg paylen : forall w pl, ~ In (Emit w pl) (effs_of (handle_received m msg paylen)).
Proof.
  intros w pl.
  destruct msg; cbn [handle_received].
  all: repeat match goal with
       | |- context [match ?x with _ => _ end] =>
           match x with
           | maybe_free _ _ => destruct x as [[? ?]|] eqn:?
           | _ => destruct x eqn:?
           end
       end; cbn [effs_of].
  all: try (cbn; intuition discriminate).
  all: try (eapply maybe_free_no_emit; eauto; fail).
Qed.
