(** Preservation of the invariant by the dispatcher's steps (local events and received messages). *)
From Remoc Require Import Lib.Base Gen.Consts Chmux.Wire Chmux.Mux Chmux.Endpoint Chmux.EndpointLemmas Chmux.EndpointInv
  Chmux.EndpointSteps.
From RecordUpdate Require Import RecordUpdate.

(** the state after a step: invariant kept, or connection terminated with an error *)
Definition Fin (e : ep) : Prop :=
  Good e \/ (panicked e = None /\ dead e <> None /\ NoDup (alloc e) /\ len (alloc e) <= max_ports e /\
             buf_ok (cfg_buffer (mx e)) (ports (mx e)) /\ lq_ok (mx e)).

Lemma apply_effs_frame effs : forall e,
  panicked (apply_effs e effs) = panicked e /\ max_ports (apply_effs e effs) = max_ports e /\
  mx (apply_effs e effs) = mx e /\ dead (apply_effs e effs) = dead e /\
  (NoDup (alloc e) -> NoDup (alloc (apply_effs e effs))) /\ len (alloc (apply_effs e effs)) <= len (alloc e).
Proof.
  induction effs as [|f effs IH]; intros e; cbn [apply_effs].
  - repeat split; auto. lia.
  - match goal with |- context [apply_effs ?e1 effs] => destruct (IH e1) as (I1 & I2 & I3 & I4 & I5 & I6) end.
    rewrite I1, I2, I3, I4.
    destruct f; try destruct (listener_alive e); prj; repeat split; auto; try lia.
    all: try (intros Hn; apply I5; prj; now apply NoDup_del).
    all: prj; pose proof (len_del p (alloc e)); lia.
Qed.

Lemma Good_resolve e : Good e -> goodbye_sent (mx e) && goodbye_received (mx e) = true -> Good (resolve_waiting e).
Proof.
  intros (Hp & Hd & Hnd & Hlen & [Hqs Hnum Hreq Hh Hpq Hbuf Hlq Hkeys Hconn]) Hg. unfold resolve_waiting.
  unfold Good; prj. split; [|split; [|split; [|split; [|constructor; prj]]]]; auto. intros; congruence.
Qed.

Lemma finish_Done e1 m effs : Good (apply_effs (e1 <| mx := m |>) effs) -> Fin (finish e1 (Done m effs)).
Proof.
  intros H. left. cbn [finish]. destruct (goodbye_sent m && goodbye_received m) eqn:Eg; [|exact H].
  apply Good_resolve; [exact H|]. destruct (apply_effs_frame effs (e1 <| mx := m |>)) as (_ & _ & -> & _). prj. exact Eg.
Qed.

Lemma finish_Proto e1 err effs :
  panicked e1 = None -> NoDup (alloc e1) -> len (alloc e1) <= max_ports e1 ->
  buf_ok (cfg_buffer (mx e1)) (ports (mx e1)) -> lq_ok (mx e1) -> Fin (finish e1 (Proto err effs)).
Proof.
  intros Hp Hn Hl Hb Hq. right. cbn [finish]. unfold resolve_waiting. prj.
  destruct (apply_effs_frame effs e1) as (I1 & I2 & I3 & I4 & I5 & I6). rewrite I3.
  split; [congruence|split; [congruence|split; [auto|split; [lia|split; assumption]]]].
Qed.

Ltac inj H :=
  match type of H with Some ?a = Some ?b => let E := fresh in assert (E : b = a) by congruence; subst b; clear H end.
Ltac good_intro := intros (Hp & Hd & Hnd & Hlen & [Hqs Hnum Hreq Hh Hpq Hbuf Hlq Hkeys Hconn]).

(** rewrite the invariants for the queue without its head [ev] (for components that do not care about [ev]) *)
Ltac pop_chq Hq :=
  rewrite Hq in *;
  try (match goal with H : num_ok _ _ (_ :: _) _ |- _ => apply num_ok_pop_chq in H; [|reflexivity] end);
  try (match goal with H : req_ok _ _ (_ :: _) |- _ => apply req_ok_pop in H; [|reflexivity] end);
  try (match goal with H : _ -> conn_ok _ _ (_ :: _) _ |- _ =>
         let H' := fresh "Hconn" in
         pose proof (fun Hg => conn_ok_pop_chq _ _ _ _ _ eq_refl (H Hg)) as H'; clear H; cbv beta in H' end);
  try (match goal with H : handle_ok _ (_ :: _) _ |- _ =>
         let H' := fresh "Hh" in
         pose proof (handle_ok_pop _ _ _ _ ltac:(intros; repeat split; reflexivity) H) as H'; clear H end).

Ltac other_ports :=
  let p0 := fresh "p0" in let Hne := fresh "Hne" in
  intros p0 Hne; apply N.eqb_neq in Hne;
  repeat (rewrite ?hget_insert, ?lookup_insert, ?lookup_remove, ?Hne); auto.
Ltac other_pop :=
  let p0 := fresh "p0" in let Hne := fresh "Hne" in
  intros p0 ? ? ? Hne; apply hok1_pop; unfold neutral_h; simp; repeat split; try reflexivity; apply N.eqb_neq; congruence.

Lemma buf_ok_remove_insert buf pt p s : buf_ok buf pt -> buf_ok buf (remove p (insert p s pt)).
Proof.
  intros H p0 c. rewrite lookup_remove, lookup_insert. destruct (p0 =? p); [discriminate|apply H].
Qed.

Lemma ev_SenderDropped e p q :
  Good e -> chq e = ESenderDropped p :: q ->
  Fin (finish (match lookup p (handles e) with Some h => set_handle (e <| chq := q |>) p (h <| h_tx := Gone |>) | None => e <| chq := q |> end)
              (handle_event (mx e) (ESenderDropped p))).
Proof.
  good_intro. intros Hq.
  pose proof (Hh p) as K. rewrite Hq in K. unfold hok1 in K. rewrite !count_cons in K. simp. rewrite N.eqb_refl in K. simp.
  destruct (lookup p (handles e)) as [h|] eqn:E0; [|unfold hget in K; rewrite E0 in K; prj; simp; lia].
  rewrite (hget_some _ _ _ E0) in K. hyp_split K.
  destruct (h_tx h) eqn:Etx; simp; try lia.
  destruct (lookup p (ports (mx e))) as [[|c]|] eqn:El; try (destruct K5; congruence).
  destruct K5 as (_ & T1 & T2 & T3).
  unfold handle_event. rewrite El, T1. unfold maybe_free. prj. rewrite lookup_insert, N.eqb_refl. prj.
  pop_chq Hq.
  destruct (Hbuf _ _ El) as (B1 & B2 & B3). cbn [andb].
  destruct (rx_dropped c && negb (rx_open c) && rrx_dropped c) eqn:Ef; apply finish_Done; cbn [apply_effs]; prj.
  - bools. rewrite H in T2. good_split.
    + now apply NoDup_del.
    + pose proof (len_del p (alloc e)). lia.
    + apply num_ok_remove; [rewrite lookup_insert, N.eqb_refl; discriminate|]. eapply num_ok_upd; eauto.
    + apply (handle_ok_gen _ _ _ _ _ _ p Hh); [other_ports|other_pop|].
      rewrite hget_insert, lookup_insert, lookup_remove, N.eqb_refl. unfold hok1. prj. simp.
      destruct (h_rx h); try discriminate. hfin. apply K3.
    + apply portq_ok_remove; [now apply NoDup_keys_insert| |].
      * rewrite lookup_insert, N.eqb_refl. apply pq_ent_dead. rewrite hget_insert, N.eqb_refl. prj.
        destruct (h_rx h); try discriminate; reflexivity.
      * eapply portq_ok_upd; eauto. eapply portq_ok_same_rx; eauto.
    + apply buf_ok_remove_insert. assumption.
    + apply NoDup_keys_remove. now apply NoDup_keys_insert.
    + intros Hg. apply conn_ok_remove; [now apply NoDup_keys_insert|rewrite lookup_insert, N.eqb_refl; reflexivity|].
      eapply conn_ok_upd; eauto.
  - good_split.
    + eapply num_ok_upd; eauto.
    + apply (handle_ok_gen _ _ _ _ _ _ p Hh); [other_ports|other_pop|].
      rewrite hget_insert, !lookup_insert, N.eqb_refl. unfold hok1. prj. simp. hfin. apply K3.
    + eapply portq_ok_upd; eauto. eapply portq_ok_same_rx; eauto.
    + apply buf_ok_upd; [assumption|]. unfold used, all4 in *. prj. repeat split; auto.
    + now apply NoDup_keys_insert.
    + intros Hg. eapply conn_ok_upd; eauto.
Qed.

Lemma ev_ReceiverDropped e p q :
  Good e -> chq e = EReceiverDropped p :: q ->
  Fin (finish (match lookup p (handles e) with Some h => set_handle (e <| chq := q |>) p (h <| h_rx := Gone |>) | None => e <| chq := q |> end)
              (handle_event (mx e) (EReceiverDropped p))).
Proof.
  good_intro. intros Hq.
  pose proof (Hh p) as K. rewrite Hq in K. unfold hok1 in K. rewrite !count_cons in K. simp. rewrite N.eqb_refl in K. simp.
  destruct (lookup p (handles e)) as [h|] eqn:E0; [|unfold hget in K; rewrite E0 in K; prj; simp; lia].
  rewrite (hget_some _ _ _ E0) in K. hyp_split K.
  destruct (h_rx h) eqn:Erx; simp; try lia.
  destruct (lookup p (ports (mx e))) as [[|c]|] eqn:El; try (destruct K5; congruence).
  destruct K5 as (_ & T1 & T2 & T3).
  assert (Hrc : is_queued (h_rxc h) = false).
  { destruct K3 as [K3 _]. cbn [is_rd] in K3. rewrite N.eqb_refl in K3. specialize (K3 eq_refl). destruct (h_rxc h); simp; try reflexivity; lia. }
  unfold handle_event. rewrite El, T2. unfold maybe_free. prj. rewrite lookup_insert, N.eqb_refl. prj.
  pop_chq Hq.
  destruct (Hbuf _ _ El) as (B1 & B2 & B3). rewrite andb_true_r.
  destruct (tx_dropped c && negb (rx_open c) && rrx_dropped c) eqn:Ef; apply finish_Done; cbn [apply_effs]; prj.
  - bools. rewrite H in T1. good_split.
    + now apply NoDup_del.
    + pose proof (len_del p (alloc e)). lia.
    + apply num_ok_remove; [rewrite lookup_insert, N.eqb_refl; discriminate|]. eapply num_ok_upd; eauto.
    + apply (handle_ok_gen _ _ _ _ _ _ p Hh); [other_ports|other_pop|].
      rewrite hget_insert, lookup_insert, lookup_remove, N.eqb_refl. unfold hok1. prj. simp.
      destruct (h_tx h); try discriminate. hfin; try apply K3; try (intros _ Hx; rewrite Hx in Hrc; discriminate); try (rewrite Hrc in *; simp; lia).
    + apply portq_ok_remove; [now apply NoDup_keys_insert| |].
      * rewrite lookup_insert, N.eqb_refl. apply pq_ent_dead. rewrite hget_insert, N.eqb_refl. reflexivity.
      * eapply portq_ok_upd; eauto. eapply portq_ok_same_rx; eauto. prj. now rewrite Erx.
    + apply buf_ok_remove_insert. assumption.
    + apply NoDup_keys_remove. now apply NoDup_keys_insert.
    + intros Hg. apply conn_ok_remove; [now apply NoDup_keys_insert|rewrite lookup_insert, N.eqb_refl; reflexivity|].
      eapply conn_ok_upd; eauto.
  - good_split.
    + eapply num_ok_upd; eauto.
    + apply (handle_ok_gen _ _ _ _ _ _ p Hh); [other_ports|other_pop|].
      rewrite hget_insert, !lookup_insert, N.eqb_refl. unfold hok1. prj. simp. hfin; try apply K3; try (intros _ Hx; rewrite Hx in Hrc; discriminate); try (rewrite Hrc in *; simp; lia).
    + eapply portq_ok_upd; eauto. eapply portq_ok_same_rx; eauto. prj. now rewrite Erx.
    + apply buf_ok_upd; [assumption|]. unfold used, all4 in *. prj. repeat split; auto.
      rewrite andb_true_r. exact Ef.
    + now apply NoDup_keys_insert.
    + intros Hg. eapply conn_ok_upd; eauto.
Qed.

Lemma ev_ReceiverClosed e p q :
  Good e -> chq e = EReceiverClosed p :: q ->
  Fin (finish (match lookup p (handles e) with Some h => set_handle (e <| chq := q |>) p (h <| h_rxc := Gone |>) | None => e <| chq := q |> end)
              (handle_event (mx e) (EReceiverClosed p))).
Proof.
  good_intro. intros Hq.
  pose proof (Hh p) as K. rewrite Hq in K. unfold hok1 in K. rewrite !count_cons in K. simp. rewrite N.eqb_refl in K. simp.
  destruct (lookup p (handles e)) as [h|] eqn:E0; [|unfold hget in K; rewrite E0 in K; prj; simp; lia].
  rewrite (hget_some _ _ _ E0) in K. hyp_split K.
  destruct (h_rxc h) eqn:Erc; simp; try lia.
  assert (Hrx : is_gone (h_rx h) = false) by (destruct (h_rx h); try reflexivity; exfalso; now apply K4).
  destruct (lookup p (ports (mx e))) as [[|c]|] eqn:El; try (destruct K5 as [_ K5]; rewrite K5 in Hrx; discriminate).
  destruct K5 as (_ & T1 & T2 & T3).
  unfold handle_event. rewrite El, T2, T3, Hrx. prj. cbn [orb].
  pop_chq Hq.
  destruct (Hbuf _ _ El) as (B1 & B2 & B3).
  apply finish_Done; cbn [apply_effs]; prj. good_split.
  - eapply num_ok_upd; eauto.
  - apply (handle_ok_gen _ _ _ _ _ _ p Hh); [other_ports|other_pop|].
    rewrite hget_insert, !lookup_insert, N.eqb_refl. unfold hok1. prj. simp. hfin. apply K3.
  - eapply portq_ok_upd; eauto. eapply portq_ok_same_rx; eauto.
  - apply buf_ok_upd; [assumption|]. unfold used, all4 in *. prj. repeat split; auto.
  - now apply NoDup_keys_insert.
  - intros Hg. eapply conn_ok_upd; eauto.
Qed.

Lemma ev_ConnectReq e port id wait req q :
  Good e -> cq e = EConnectReq port id wait req :: q ->
  Fin (finish (e <| cq := q |>) (handle_event (mx e) (EConnectReq port id wait req))).
Proof.
  good_intro. intros Hq. rewrite Hq in *.
  pose proof (proj1 (num_ok_iff _ _ _ _) Hnum) as Hn. rewrite q_nums_cons in Hn. cbn [ev_nums app] in Hn.
  destruct (num_step _ _ (q_nums q ++ q_nums (chq e)) _ port (Connecting req) (fun x => occ_cons x port _) Hn) as [Hl Hn'].
  unfold handle_event. destruct (remote_listener_dropped (mx e)) eqn:Erl; cbn [negb].
  - apply finish_Done; cbn [apply_effs]; prj. good_split.
    + now apply NoDup_del.
    + pose proof (len_del port (alloc e)). lia.
    + intros p0. specialize (Hnum p0). rewrite q_nums_cons in Hnum. simp. lists. deq; simp; try lia.
      rewrite Hl in *. simp. pose proof (b2n_le1 (mem port (alloc e))). lia.
    + intros Hg r0. specialize (Hconn Hg r0). rewrite q_reqs_cons in Hconn. simp. lists. deq; simp; try lia.
      pose proof (b2n_le1 (is_waiting (lookup req (connects e)))). lia.
  - rewrite Hl. apply finish_Done; cbn [apply_effs]; prj.
    destruct (tab_ok_insert_connecting _ _ _ _ _ port req Hl (conj Hh (conj Hpq (conj Hbuf Hkeys)))) as (T1 & T2 & T3 & T4).
    good_split.
    + apply num_ok_iff. exact Hn'.
    + intros Hg. apply conn_ok_iff. eapply conn_step; [exact Hkeys|exact Hl| |apply conn_ok_iff, Hconn, Hg].
      intros x. rewrite q_reqs_cons. reflexivity.
Qed.

Lemma alive_goodbye e : alive e = true -> goodbye_sent (mx e) && goodbye_received (mx e) = false.
Proof. unfold alive. destruct (dead e), (panicked e); try discriminate. apply negb_true_iff. Qed.

Lemma ev_SendPorts e rp f l w ps q :
  Good e -> alive e = true -> chq e = ESendPorts rp f l w ps :: q ->
  Fin (finish (e <| chq := q |>) (handle_event (mx e) (ESendPorts rp f l w ps))).
Proof.
  good_intro. intros Ha Hq. rewrite Hq in *. specialize (Hconn (alive_goodbye _ Ha)).
  assert (Hn : num_ok' (alloc e) (map (fun x => fst (fst x)) ps ++ (q_nums (cq e) ++ q_nums q)) (ports (mx e))).
  { intros p0. specialize (Hnum p0). rewrite q_nums_cons in Hnum. simp. lists. lia. }
  assert (Hc : conn_ok' (connects e) (map (fun x => snd x) ps ++ (q_reqs (cq e) ++ q_reqs q)) (ports (mx e))).
  { intros p0. specialize (Hconn p0). rewrite q_reqs_cons in Hconn. simp. lists. lia. }
  apply handle_ok_pop in Hh; [|intros; repeat split; reflexivity].
  change (handle_event (mx e) (ESendPorts rp f l w ps)) with
    (match ins_ports ps (ports (mx e)) with
     | None => Panic SiteSendPortsUsed
     | Some pt => Done (mx e <| ports := pt |>)
                    [Emit (PortData rp f l w (map (fun x => fst (fst x)) ps)
                             (if with_ids (mx e) then Some (map (fun x => snd (fst x)) ps) else None)) None]
     end).
  destruct (ins_ports_ok _ _ _ _ _ _ _ _ ps _ Hn Hc (conj Hh (conj Hpq (conj Hbuf Hkeys)))) as (pt' & E & N1 & C1 & T1 & T2 & T3 & T4).
  rewrite E. apply finish_Done; cbn [apply_effs]; prj. apply req_ok_pop in Hreq; [|reflexivity]. good_split.
  - apply num_ok_iff. exact N1.
  - intros _. apply conn_ok_iff. exact C1.
Qed.

(** the reply event at the head of the queue belongs to an answered, outstanding request *)
Lemma reply_head out reqs q ev r :
  req_ok out reqs (ev :: q) -> is_reply r ev = true ->
  lookup r reqs = Some RAnswered /\ mem r out = true /\ count (is_reply r) q = 0.
Proof.
  intros H Hev. specialize (H r). rewrite count_cons, Hev in H. cbn [b2n] in H. destruct H as [H1 H2].
  destruct (lookup r reqs) as [[]|]; cbn [is_answered is_some b2n] in *; try lia. repeat split; auto. lia.
Qed.
Lemma req_ok_reply_done out reqs q ev r :
  req_ok out reqs (ev :: q) -> (forall r0, is_reply r0 ev = (r =? r0)) ->
  req_ok (del r out) (remove r reqs) q.
Proof.
  intros H Hev r0. pose proof (H r0) as [H1 H2]. rewrite count_cons, Hev in H1.
  rewrite lookup_remove, mem_del, (N.eqb_sym r0 r). destruct (r =? r0) eqn:E; cbn [b2n is_answered is_some] in *.
  - apply N.eqb_eq in E. subst r0. pose proof (b2n_le1 (is_answered (lookup r reqs))). split; [lia|reflexivity].
  - split; [lia|exact H2].
Qed.

Lemma ev_Accepted e local r q :
  Good e -> chq e = EAccepted local r :: q ->
  Fin (finish (e <| chq := q |> <| requests := remove r (requests e) |>) (handle_event (mx e) (EAccepted local r))).
Proof.
  good_intro. intros Hq. rewrite Hq in *.
  destruct (reply_head _ _ _ _ r Hreq) as (R1 & R2 & R3); [cbn [is_reply]; apply N.eqb_refl|].
  assert (Hn : num_ok' (alloc e) (local :: (q_nums (cq e) ++ q_nums q)) (ports (mx e))).
  { intros p0. specialize (Hnum p0). rewrite q_nums_cons in Hnum. simp. lists2. lia. }
  destruct (num_step _ _ (q_nums (cq e) ++ q_nums q) _ local (Connected (new_conn (mx e) r)) (fun x => occ_cons x local _) Hn) as [Hl Hn'].
  apply handle_ok_pop in Hh; [|intros; repeat split; reflexivity].
  unfold handle_event. rewrite R2, Hl. cbn [negb]. apply finish_Done; cbn [apply_effs]; prj.
  destruct (tab_newport _ _ (remove r (requests e)) _ _ local (mx e) r (conj Hh (conj (portq_ok_remove_req _ _ _ r ltac:(now rewrite R1) Hpq) (conj Hbuf Hkeys))))
    as (T1 & T2 & T3 & T4); [now rewrite Hl|].
  good_split.
  - apply num_ok_iff. exact Hn'.
  - eapply req_ok_reply_done; [exact Hreq|]. reflexivity.
  - intros Hg. apply conn_ok_newport; [exact Hkeys|now rewrite Hl|]. eapply conn_ok_pop_chq; [|apply Hconn, Hg]. reflexivity.
Qed.

Lemma ev_Rejected e r np q :
  Good e -> chq e = ERejected r np :: q ->
  Fin (finish (e <| chq := q |> <| requests := remove r (requests e) |>) (handle_event (mx e) (ERejected r np))).
Proof.
  good_intro. intros Hq. rewrite Hq in *.
  destruct (reply_head _ _ _ _ r Hreq) as (R1 & R2 & R3); [cbn [is_reply]; apply N.eqb_refl|].
  apply handle_ok_pop in Hh; [|intros; repeat split; reflexivity].
  apply num_ok_pop_chq in Hnum; [|reflexivity].
  unfold handle_event. rewrite R2. cbn [negb]. apply finish_Done; cbn [apply_effs]; prj.
  good_split.
  - eapply req_ok_reply_done; [exact Hreq|]. reflexivity.
  - apply portq_ok_remove_req; [now rewrite R1|assumption].
Qed.

(** events that only emit a message *)
Lemma ev_plain_chq e ev q m :
  Good e -> chq e = ev :: q -> ev_nums ev = [] -> ev_reqs ev = [] -> (forall r, is_reply r ev = false) ->
  (forall p, neutral_h p ev) ->
  Fin (finish (e <| chq := q |>) (Done (mx e) [Emit m None])) /\
  forall n, Fin (finish (e <| chq := q |>) (Done (mx e) [Emit m (Some n)])).
Proof.
  good_intro. intros Hq E1 E2 E3 E4. rewrite Hq in *.
  apply handle_ok_pop in Hh; [|exact E4]. apply num_ok_pop_chq in Hnum; [|exact E1]. apply req_ok_pop in Hreq; [|exact E3].
  assert (Hc : goodbye_sent (mx e) && goodbye_received (mx e) = false -> conn_ok (connects e) (cq e) q (ports (mx e))).
  { intros Hg. eapply conn_ok_pop_chq; [exact E2|apply Hconn, Hg]. }
  assert (Hq' : qs_ok (cq e) q) by (apply qs_ok_pop_chq in Hqs; tauto).
  split; [|intros n]; apply finish_Done; cbn [apply_effs]; prj; destruct e; prj; good_split.
Qed.

Lemma step_DPort e e' : Good e -> step_opt e DPort = Some e' -> Fin e'.
Proof.
  intros HG H. unfold step_opt in H. destruct (negb (alive e)) eqn:Ea; [discriminate|]. apply negb_false_iff in Ea.
  destruct (negb (sending e)); [discriminate|]. destruct (chq e) as [|ev q] eqn:Hq; [discriminate|].
  injection H as <-.
  assert (Hev : chq_ev ev = true).
  { destruct HG as (_ & _ & _ & _ & [Hqs _ _ _ _ _ _ _ _]). rewrite Hq in Hqs. apply qs_ok_pop_chq in Hqs. tauto. }
  destruct ev; try discriminate; prj.
  - now apply ev_Accepted.
  - now apply ev_Rejected.
  - refine (proj2 (ev_plain_chq e _ q _ HG Hq eq_refl eq_refl _ _) _); intros; repeat split; reflexivity.
  - now apply ev_SendPorts.
  - refine (proj1 (ev_plain_chq e _ q _ HG Hq eq_refl eq_refl _ _)); intros; repeat split; reflexivity.
  - now apply ev_SenderDropped.
  - now apply ev_ReceiverClosed.
  - now apply ev_ReceiverDropped.
Qed.

Lemma step_DConn e e' : Good e -> step_opt e DConn = Some e' -> Fin e'.
Proof.
  intros HG H. unfold step_opt in H. destruct (negb (alive e)) eqn:Ea; [discriminate|]. apply negb_false_iff in Ea.
  destruct (negb (sending e)); [discriminate|]. destruct (cq e) as [|ev q] eqn:Hq; [discriminate|].
  injection H as <-.
  assert (Hev : cq_ev ev = true).
  { destruct HG as (_ & _ & _ & _ & [Hqs _ _ _ _ _ _ _ _]). rewrite Hq in Hqs. apply qs_ok_pop_cq in Hqs. tauto. }
  destruct ev; try discriminate; prj.
  - now apply ev_ConnectReq.
  - revert HG. good_intro. rewrite Hq in *. cbn [handle_event]. apply finish_Done; cbn [apply_effs]; prj. good_split.
Qed.

Lemma step_DListenerDropped e e' : Good e -> step_opt e DListenerDropped = Some e' -> Fin e'.
Proof.
  good_intro. intros H. unfold step_opt in H. cases. inj H.
  unfold handle_event. apply finish_Done; cbn [apply_effs]; prj. good_split.
Qed.

Lemma step_DGoodbye e e' : Good e -> step_opt e DGoodbye = Some e' -> Fin e'.
Proof.
  good_intro. intros H. unfold step_opt in H. cases. inj H.
  unfold handle_event. apply finish_Done; cbn [apply_effs]; prj. good_split.
  intros Hg. apply Hconn. cbn [andb] in Hg. rewrite Hg. apply andb_false_r.
Qed.
