(** Keep-alive over an arbitrarily long idle period ([mux.rs]: [send_task], [recv_task]).

    [Time.v] bounds ONE gap between two received messages.  This file runs the two timers over a whole
    timeline of unbounded length and proves by induction over it that

    * on a healthy link the receive timer never fires, however long the connection stays idle
      ([idle_run_never_times_out]);
    * after ANY prefix of such a timeline, silence is noticed exactly [enforced t] after the last message
      that arrived ([silence_after_any_prefix]), i.e. in bounded time.

    The sending side ([send_task]): after every message handed to the transport the ping timer is re-armed
    with the interval [P]; when it fires a Ping is sent.  So the [k+1]-th message leaves [g <= P] after the
    [k]-th one ([g < P] when the application sent something earlier).  Each message takes a one-way delay
    [d] with [dmin <= d <= dmin + jitter].  The receiving side ([recv_task]): a timer with the enforced
    timeout [L] is re-armed by every received message; when it fires the dispatcher ends with [Timeout]. *)
From Remoc Require Import Lib.Base Gen.Consts Chmux.Wire Chmux.Time.

(** sending instants: the next message leaves [g] after the previous one *)
Fixpoint sends (s : N) (gs : list N) : list N :=
  match gs with [] => [] | g :: gs => (s + g) :: sends (s + g) gs end.

(** arrival instants *)
Fixpoint arrivals (ss ds : list N) : list N :=
  match ss, ds with s :: ss, d :: ds => (s + d) :: arrivals ss ds | _, _ => [] end.

(** the receive timer: [Some t] = fired at [t]; [last] = instant of the last re-arm.  The clock is
    monotone, so a message that the transport hands over "earlier" than the previous one (re-ordered
    delays) re-arms at the current instant. *)
Fixpoint recv_run (L last : N) (arr : list N) : option N :=
  match arr with
  | [] => None
  | a :: arr => if last + L <=? a then Some (last + L) else recv_run L (N.max last a) arr
  end.

(** instant of the last re-arm after a run without timeout *)
Fixpoint recv_last (L last : N) (arr : list N) : N :=
  match arr with
  | [] => last
  | a :: arr => if last + L <=? a then last else recv_last L (N.max last a) arr
  end.

Definition gaps_ok (P : N) (gs : list N) : Prop := Forall (fun g => g <= P) gs.
Definition delays_ok (dmin jitter : N) (ds : list N) : Prop := Forall (fun d => dmin <= d /\ d <= dmin + jitter) ds.

Lemma recv_run_healthy P L dmin jitter : P + jitter < L ->
  forall gs ds s last, gaps_ok P gs -> delays_ok dmin jitter ds ->
    s + dmin <= last -> recv_run L last (arrivals (sends s gs) ds) = None.
Proof.
  intros HL. induction gs as [|g gs IH]; intros ds s last Hg Hd Hl; [reflexivity|].
  destruct ds as [|d ds]; [reflexivity|].
  cbn [sends arrivals recv_run].
  inversion Hg as [|? ? Hg1 Hg2]; subst. inversion Hd as [|? ? [Hd1 Hd1'] Hd2]; subst.
  destruct (last + L <=? s + g + d) eqn:E; [lia|].
  apply IH; [assumption|assumption|lia].
Qed.

(** An idle healthy connection of ANY length: the peer pings at least every [ping_interval t]; with a
    delay jitter below half the enforced timeout the receive timer never fires. *)
Theorem idle_run_never_times_out t jitter dmin gs ds s0 d0 :
  t <= 18446744073709551615 * MS -> 2 * jitter < enforced t ->
  gaps_ok (ping_interval t) gs -> delays_ok dmin jitter ds -> dmin <= d0 ->
  recv_run (enforced t) (s0 + d0) (arrivals (sends s0 gs) ds) = None.
Proof.
  intros Ht Hj Hg Hd H0. pose proof (idle_never_times_out t jitter Ht Hj) as Hgap. unfold max_gap in Hgap.
  eapply recv_run_healthy; eauto. lia.
Qed.

(** silence after any prefix without timeout is noticed at exactly [last re-arm + L] *)
Lemma recv_run_silence L : forall arr last a rest,
  recv_run L last arr = None -> recv_last L last arr + L <= a ->
  recv_run L last (arr ++ a :: rest) = Some (recv_last L last arr + L).
Proof.
  induction arr as [|x arr IH]; intros last a rest Hn Ha; cbn [recv_run recv_last app] in *.
  - destruct (last + L <=? a) eqn:E; [reflexivity|lia].
  - destruct (last + L <=? x) eqn:E; [discriminate|]. apply IH; assumption.
Qed.

(** the last re-arm is never later than the latest arrival (or the initial re-arm) *)
Fixpoint maxl (m : N) (l : list N) : N := match l with [] => m | x :: l => maxl (N.max m x) l end.
Lemma recv_last_le L : forall arr last, recv_last L last arr <= maxl last arr.
Proof.
  induction arr as [|x arr IH]; intros last; cbn [recv_last maxl]; [lia|].
  destruct (last + L <=? x) eqn:E.
  - clear IH. revert last x E. induction arr as [|y arr IH2]; intros last x E; cbn [maxl]; [lia|].
    specialize (IH2 last (N.max x y)). cbn [maxl] in IH2.
    assert (N.max (N.max last x) y = N.max last (N.max x y)) as -> by lia. apply IH2. lia.
  - apply IH.
Qed.

Theorem silence_after_any_prefix t jitter dmin gs ds s0 d0 a rest :
  t <= 18446744073709551615 * MS -> 2 * jitter < enforced t ->
  gaps_ok (ping_interval t) gs -> delays_ok dmin jitter ds -> dmin <= d0 ->
  let arr := arrivals (sends s0 gs) ds in
  let last := recv_last (enforced t) (s0 + d0) arr in
  last + enforced t <= a ->
  recv_run (enforced t) (s0 + d0) (arr ++ a :: rest) = Some (last + enforced t) /\
  last <= maxl (s0 + d0) arr.
Proof.
  intros Ht Hj Hg Hd H0 arr last Ha. split.
  - apply recv_run_silence; [|exact Ha]. eapply idle_run_never_times_out; eauto.
  - apply recv_last_le.
Qed.

(** before the repair of F9 a sub-millisecond timeout was announced as "none": the peer never pinged,
    and the timeline with no message at all times out on a healthy link *)
Example no_pings_time_out : recv_run (enforced 900000) 0 [5000000] = Some 1000000.
Proof. vm_compute. reflexivity. Qed.
Example pings_keep_alive :
  recv_run (enforced 900000) 0 (arrivals (sends 0 [500000; 500000; 500000; 400000]) [100; 300000; 0; 299999]) = None.
Proof. vm_compute. reflexivity. Qed.
