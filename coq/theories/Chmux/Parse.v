(** Frames of one port direction and the *specification* of message delivery: the ideal parser.

    A frame is what travels, per port, from the sender's [PortEvt::SendData]/[SendPorts] through the
    event queue, the transport and the dispatcher into the receiver's per-port queue
    ([PortReceiveMsg]).  [parse] says which messages a frame sequence contains: a message starts at
    a frame flagged [first], continues with non-first frames of the same kind and is complete at the
    frame flagged [last]; anything unfinished is dropped when a new message starts. *)
From Remoc Require Import Lib.Base.

Inductive frame :=
| FData (first last : bool) (b : list N)
| FPorts (first last : bool) (ps : list N)
| FFin.

Inductive msg :=
| MData (b : list N)
| MPorts (ps : list N).

(** [PFin]: the sender's end is finished; nothing that follows counts (the dispatcher treats further
    frames for the port as a protocol error). *)
Inductive pst := PNone | PData (acc : list N) | PPorts (acc : list N) | PFin.

Definition parse_step (s : pst) (f : frame) : pst * list msg :=
  match s with PFin => (PFin, []) | _ =>
  match f with
  | FData first last b =>
      match (if first then PData [] else s) with
      | PData acc => if last then (PNone, [MData (acc ++ b)]) else (PData (acc ++ b), [])
      | _ => (PNone, [])
      end
  | FPorts first last ps =>
      match (if first then PPorts [] else s) with
      | PPorts acc => if last then (PNone, [MPorts (acc ++ ps)]) else (PPorts (acc ++ ps), [])
      | _ => (PNone, [])
      end
  | FFin => (PFin, [])
  end end.

Fixpoint parse_from (s : pst) (fs : list frame) : pst * list msg :=
  match fs with
  | [] => (s, [])
  | f :: r =>
      let '(s1, o1) := parse_step s f in
      let '(s2, o2) := parse_from s1 r in
      (s2, o1 ++ o2)
  end.

Definition parse (fs : list frame) : list msg := snd (parse_from PNone fs).

(** cost of a frame in flow-control credits ([size.max(1)] for data, 4 per port) *)
Definition cost (f : frame) : N :=
  match f with
  | FData _ _ b => N.max 1 (len b)
  | FPorts _ _ ps => 4 * len ps
  | FFin => 0
  end.

Definition costs (fs : list frame) : N := sum (map cost fs).

Lemma parse_from_app s fs1 fs2 :
  parse_from s (fs1 ++ fs2) =
  let '(s1, o1) := parse_from s fs1 in let '(s2, o2) := parse_from s1 fs2 in (s2, o1 ++ o2).
Proof.
  revert s; induction fs1 as [|f r IH]; intros s; cbn [app parse_from].
  - destruct (parse_from s fs2); reflexivity.
  - destruct (parse_step s f) as [s1 o1]. rewrite IH.
    destruct (parse_from s1 r) as [s2 o2]. destruct (parse_from s2 fs2) as [s3 o3].
    now rewrite app_assoc.
Qed.

Lemma parse_prefix fs1 fs2 : prefix (parse fs1) (parse (fs1 ++ fs2)).
Proof.
  unfold parse. rewrite parse_from_app. destruct (parse_from PNone fs1) as [s1 o1].
  destruct (parse_from s1 fs2) as [s2 o2]. cbn [snd]. now exists o2.
Qed.

Lemma costs_app a b : costs (a ++ b) = costs a + costs b.
Proof. unfold costs. now rewrite map_app, sum_app. Qed.
Lemma costs_cons f a : costs (f :: a) = cost f + costs a.
Proof. reflexivity. Qed.
Lemma costs_nil : costs [] = 0.
Proof. reflexivity. Qed.
