(** The published layout of chmux protocol version 3, written down independently of the encoder
    as a table: per message kind the code byte, the flag-bit assignment and the ordered field list
    with widths, rendered by a generic little-endian renderer.  All numbers in this file are
    literals (they are the specification); [Gen.Consts] -- regenerated from the Rust source -- is
    compared against them in [WireProofs.codes_match]. *)
From Remoc Require Import Lib.Base Chmux.Wire.

Inductive field :=
| F8 (x : N) | F16 (x : N) | F32 (x : N) | F64 (x : N)
| FRaw (bs : list N).

Definition render_field (f : field) : list N :=
  match f with
  | F8 x => le 1 x | F16 x => le 2 x | F32 x => le 4 x | F64 x => le 8 x
  | FRaw bs => bs
  end.

Definition render (fs : list field) : list N := flat_map render_field fs.

(** flag byte: sum of the listed bit values whose condition holds *)
Fixpoint bits (l : list (bool * N)) : N :=
  match l with [] => 0 | (b, v) :: r => (if b then v else 0) + bits r end.

Definition is_some {A} (o : option A) : bool := match o with Some _ => true | None => false end.

Fixpoint interleave (ps is : list N) : list field :=
  match ps, is with
  | p :: r, i :: ri => F32 p :: F32 i :: interleave r ri
  | _, _ => []
  end.

(** message codes of protocol version 3 *)
Definition codes : list N := [1; 2; 3; 4; 5; 6; 7; 8; 9; 10; 11; 12; 13; 14; 15].

(** "CHMUX\0" *)
Definition magic : list N := [67; 72; 77; 85; 88; 0].

(** timeout on the wire: whole milliseconds, 0 = none, a present timeout at least 1 and saturating
    at 2^64-1 *)
Definition wire_timeout (t : option N) : N :=
  match t with
  | None => 0
  | Some ns =>
      let ms := ns / 1000000 in
      if ms <? 1 then 1 else if ms <? 18446744073709551615 then ms else 18446744073709551615
  end.

Definition layout3 (m : msg) : list field :=
  match m with
  | Reset => [F8 1]
  | Hello v c =>
      [F8 2; FRaw magic; F8 v; F64 (wire_timeout (x_timeout c)); F32 (x_chunk c); F32 (x_buffer c);
       F16 (x_queue c)]
  | Ping => [F8 3]
  | OpenPort p w id =>
      [F8 4; F32 p; F8 (bits [(w, 1); (is_some id, 2)])] ++ match id with Some i => [F32 i] | None => [] end
  | PortOpened c s => [F8 5; F32 c; F32 s]
  | Rejected c np => [F8 6; F32 c; F8 (bits [(np, 1)])]
  | Data p f l => [F8 7; F32 p; F8 (bits [(f, 1); (l, 2)])]
  | PortData p f l w ports ids =>
      [F8 8; F32 p; F8 (bits [(f, 1); (l, 2); (w, 4); (is_some ids, 8)])] ++
      match ids with Some is => interleave ports is | None => map F32 ports end
  | PortCredits p c => [F8 9; F32 p; F32 c]
  | SendFinish p => [F8 10; F32 p]
  | ReceiveClose p => [F8 11; F32 p]
  | ReceiveFinish p => [F8 12; F32 p]
  | ClientFinish => [F8 13]
  | ListenerFinish => [F8 14]
  | Goodbye => [F8 15]
  end.

(** the handshake of version 3: a [Reset] frame, then [Hello] announcing version 3 *)
Definition handshake3 (c : xcfg) : list (list N) :=
  [render (layout3 Reset); render (layout3 (Hello 3 c))].

(** lowest version that understands port ids *)
Definition first_version_with_ids : N := 3.
