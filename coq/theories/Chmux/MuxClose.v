(** How closing and dropping a receiver is classified at the sending endpoint ([mux.rs]:
    [ReceiveClose] / [ReceiveFinish]). *)
From Remoc Require Import Lib.Base Chmux.Wire Chmux.Mux.
From RecordUpdate Require Import RecordUpdate.

Lemma lookup_insert_same {A} k (v : A) l : lookup k (insert k v l) = Some v.
Proof. unfold insert. cbn [lookup]. now rewrite N.eqb_refl. Qed.

(** what a sender observes: [SendError::Closed { gracefully }] is read off [pool_closed] *)
Definition send_verdict (c : conn) : option bool := pool_closed c.

(** [ReceiveClose] on a port whose remote receiver is not yet dropped *)
Lemma receive_close_classified m p c :
  lookup p (ports m) = Some (Connected c) -> rrx_closed c = false -> rrx_dropped c = false ->
  exists m' effs c',
    handle_received m (ReceiveClose p) 0 = Done m' effs /\
    lookup p (ports m') = Some (Connected c') /\
    send_verdict c' = Some true /\ rrx_closed c' = true.
Proof.
  intros Hl Hc Hd. cbn [handle_received]. rewrite Hl, Hc. cbn [negb].
  unfold maybe_free. cbn [ports set RecordSet.set]. rewrite lookup_insert_same.
  cbn [tx_dropped rx_dropped rx_open rrx_dropped set RecordSet.set]. rewrite Hd, !andb_false_r.
  eexists _, _, _. split; [reflexivity|]. cbn [ports set RecordSet.set]. rewrite lookup_insert_same.
  split; [reflexivity|]. split; reflexivity.
Qed.

(** [ReceiveFinish]: whatever happened before -- also after a graceful close -- the pool ends up
    closed NON-gracefully (or the port is freed because all four directions are finished) *)
Lemma receive_finish_classified m p c :
  lookup p (ports m) = Some (Connected c) ->
  exists m' effs,
    handle_received m (ReceiveFinish p) 0 = Done m' effs /\
    match lookup p (ports m') with
    | Some (Connected c') => send_verdict c' = Some false /\ rrx_closed c' = true /\ rrx_dropped c' = true
    | Some (Connecting _) => False
    | None => tx_dropped c = true /\ rx_dropped c = true /\ rx_open c = false
    end.
Proof.
  intros Hl. cbn [handle_received]. rewrite Hl.
  unfold maybe_free. cbn [ports set RecordSet.set]. rewrite lookup_insert_same.
  cbn [tx_dropped rx_dropped rx_open rrx_dropped set RecordSet.set].
  destruct (tx_dropped c) eqn:E1, (rx_dropped c) eqn:E2, (rx_open c) eqn:E3; cbn [andb negb];
    eexists _, _; (split; [reflexivity|]); cbn [ports set RecordSet.set];
    try (rewrite lookup_insert_same; repeat split; reflexivity).
  (* freed *)
  assert (Hr : forall l, lookup p (remove p l) = (None : option pstate)).
  { induction l as [|[k v] l IH]; cbn [remove lookup]; [reflexivity|].
    destruct (N.eqb_spec p k); [exact IH|]. cbn [lookup]. destruct (N.eqb_spec p k); [contradiction|exact IH]. }
  unfold insert. cbn [remove]. rewrite N.eqb_refl. rewrite Hr. auto.
Qed.
