(** Preservation of the composed invariant by X's steps, continued: rejecting a request, and the
    clauses about queued events. *)
From Remoc Require Import Lib.Base Gen.Consts Chmux.Wire Chmux.Mux Chmux.Endpoint Chmux.EndpointLemmas Chmux.EndpointInv
  Chmux.EndpointSteps Chmux.Net Chmux.NetInv Chmux.NetFrame Chmux.NetLocal.
From RecordUpdate Require Import RecordUpdate.

(** * A remote request [y] is rejected ([Rejected y]) *)
Lemma core_reject PX PY OX OX' OY QX QX' QY L L' y np pl :
  Core PX PY OX OY QX QY L L' -> mem y OX = true ->
  (forall k, mem k OX' = if k =? y then false else mem k OX) -> chq_ok PX QX' ->
  Core PX PY OX' OY QX' QY (L ++ [(Rejected y np, pl)]) L'.
Proof.
  intros [Hxy Hyx Hix Hiy Hox Hoy Hcx Hcy Hbx Hby] Hy O1 Hq.
  destruct (rx_out_connecting _ _ _ _ _ _ (Hxy y) Hy) as (r & Hyr).
  pose proof (Hxy y) as Hcy0. unfold rx_clause in Hcy0. rewrite Hyr, Hy in Hcy0. cbn [b2n] in Hcy0.
  destruct Hcy0 as (Y1 & Y2 & Y3 & Y4).
  assert (Ypo : cnt (m_po y) L = 0) by lia. specialize (Y3 Ypo).
  constructor; auto.
  - intros y0. destruct (N.eq_dec y0 y) as [->|Hne].
    + unfold rx_clause. rewrite Hyr, O1, N.eqb_refl. cbn [b2n]. rewrite !cnt_snoc. mev.
      split; [lia|split; [|split]].
      * apply nafter_snoc_other; [exact Y2|reflexivity].
      * intros _. lia.
      * intros x0 Hx0. rewrite cnt_snoc in Hx0. mev. pose proof (cnt_pox_le_po y x0 L). lia.
    + eapply rx_frame; [apply Hxy|reflexivity|apply leq_snoc| | |].
      * mev. apply N.eqb_neq. congruence.
      * rewrite O1. apply N.eqb_neq in Hne. now rewrite Hne.
      * reflexivity.
      * intros x0. apply pst_ok_refl.
  - intros x0. eapply rx_frame; [apply Hyx|reflexivity|apply leq_refl|reflexivity| |].
    + rewrite reqcount_snoc. mev. lia.
    + intros y0. apply pst_ok_eq. apply pstat_snoc_nosrv. reflexivity.
  - intros p d H. rewrite O1. destruct (remote d =? y); [reflexivity|]. eauto.
  - rewrite cnt_snoc. mev. lia.
Qed.

(** * The clauses about queued events *)
Lemma chq_ok_pop P ev q :
  chq_ok P (ev :: q) -> (forall y, ev_sends y ev = false) -> (forall y, ev_creds y ev = false) -> chq_ok P q.
Proof.
  intros [C1 C2 C3] S1 S2. constructor.
  - intros y Hy. apply C1. rewrite count_cons. lia.
  - intros y Hy. apply C2. rewrite count_cons. lia.
  - intros x c H. destruct (C3 _ _ H) as [A B]. split; eapply no_after_tail; eauto.
Qed.
(** popping a send / credit event whose port stays as it is *)
Lemma chq_ok_pop_any P ev q : chq_ok P (ev :: q) -> chq_ok P q.
Proof.
  intros [C1 C2 C3]. constructor.
  - intros y Hy. apply C1. rewrite count_cons. lia.
  - intros y Hy. apply C2. rewrite count_cons. lia.
  - intros x c H. destruct (C3 _ _ H) as [A B]. split; eapply no_after_tail; eauto.
Qed.

Lemma chq_ok_push_other P q ev :
  chq_ok P q -> (forall y, ev_sends y ev = false) -> (forall y, ev_creds y ev = false) -> chq_ok P (q ++ [ev]).
Proof.
  intros [C1 C2 C3] S1 S2. constructor.
  - intros y Hy. apply C1. rewrite count_snoc, S1 in Hy. cbn [b2n] in Hy. lia.
  - intros y Hy. apply C2. rewrite count_snoc, S2 in Hy. cbn [b2n] in Hy. lia.
  - intros x c H. destruct (C3 _ _ H) as [A B]. split; apply no_after_snoc; auto; rewrite ?S1, ?S2; discriminate.
Qed.

(** pushing a send event of port [p], whose sender is alive *)
Lemma chq_ok_push_send P q ev p c :
  chq_ok P q -> inj_ok P -> lookup p P = Some (Connected c) -> tx_dropped c = false -> count (is_sd p) q = 0 ->
  ev_sends (remote c) ev = true -> (forall y, y <> remote c -> ev_sends y ev = false) -> (forall y, ev_creds y ev = false) ->
  chq_ok P (q ++ [ev]).
Proof.
  intros [C1 C2 C3] Hi Hl Ht Hs E1 E2 E3. constructor.
  - intros y Hy. destruct (N.eq_dec y (remote c)) as [->|Hne]; [eauto|].
    apply C1. rewrite count_snoc, (E2 _ Hne) in Hy. cbn [b2n] in Hy. lia.
  - intros y Hy. apply C2. rewrite count_snoc, E3 in Hy. cbn [b2n] in Hy. lia.
  - intros x d H. destruct (C3 _ _ H) as [A B]. split; apply no_after_snoc; auto; [|rewrite E3; discriminate].
    intros Hg. destruct (N.eq_dec (remote d) (remote c)) as [E|E].
    + assert (x = p) by (eapply Hi; eauto). subst x. exact Hs.
    + rewrite (E2 _ E) in Hg. discriminate.
Qed.
Lemma chq_ok_push_cred P q n p c :
  chq_ok P q -> inj_ok P -> lookup p P = Some (Connected c) -> rx_dropped c = false -> count (is_rd p) q = 0 ->
  chq_ok P (q ++ [EReturnCredits (remote c) n]).
Proof.
  intros [C1 C2 C3] Hi Hl Ht Hs. constructor.
  - intros y Hy. apply C1. rewrite count_snoc in Hy. cbn [ev_sends b2n] in Hy. lia.
  - intros y Hy. destruct (N.eq_dec y (remote c)) as [->|Hne]; [eauto|].
    apply C2. rewrite count_snoc in Hy. cbn [ev_creds] in Hy. apply N.eqb_neq in Hne. rewrite N.eqb_sym, Hne in Hy. cbn [b2n] in Hy. lia.
  - intros x d H. destruct (C3 _ _ H) as [A B]. split; apply no_after_snoc; auto; [cbn [ev_sends]; discriminate|].
    cbn [ev_creds]. intros Hg. apply N.eqb_eq in Hg. assert (x = p) by (eapply Hi; eauto). subst x. exact Hs.
Qed.

(** the table changes at port [x], whose send (resp. credit) events are all gone *)
Lemma chq_ok_upd P P' q x c c' :
  chq_ok P q -> inj_ok P -> lookup x P = Some (Connected c) ->
  (forall k, k <> x -> lookup k P' = lookup k P) ->
  (lookup x P' = Some (Connected c') /\ remote c' = remote c \/ lookup x P' = None) ->
  (tx_dropped c = false -> (lookup x P' = None \/ tx_dropped c' = true) -> count (ev_sends (remote c)) q = 0) ->
  (rx_dropped c = false -> (lookup x P' = None \/ rx_dropped c' = true) -> count (ev_creds (remote c)) q = 0) ->
  chq_ok P' q.
Proof.
  intros [C1 C2 C3] Hi Hl K2 K1 S1 S2. constructor.
  - intros y Hy. destruct (C1 y Hy) as (x0 & c0 & P1 & P2 & P3). destruct (N.eq_dec x0 x) as [->|Hne].
    + assert (c0 = c) by congruence. subst c0. destruct K1 as [[K1 Er]|K1].
      * exists x, c'. split; [exact K1|split; [congruence|]]. destruct (tx_dropped c') eqn:Et; [|reflexivity].
        rewrite <- P2 in Hy. rewrite S1 in Hy; auto. lia.
      * rewrite <- P2 in Hy. rewrite S1 in Hy; auto. lia.
    + exists x0, c0. rewrite (K2 _ Hne). auto.
  - intros y Hy. destruct (C2 y Hy) as (x0 & c0 & P1 & P2 & P3). destruct (N.eq_dec x0 x) as [->|Hne].
    + assert (c0 = c) by congruence. subst c0. destruct K1 as [[K1 Er]|K1].
      * exists x, c'. split; [exact K1|split; [congruence|]]. destruct (rx_dropped c') eqn:Et; [|reflexivity].
        rewrite <- P2 in Hy. rewrite S2 in Hy; auto. lia.
      * rewrite <- P2 in Hy. rewrite S2 in Hy; auto. lia.
    + exists x0, c0. rewrite (K2 _ Hne). auto.
  - intros x0 d H. destruct (N.eq_dec x0 x) as [->|Hne].
    + destruct K1 as [[K1 Er]|K1]; [|congruence]. assert (d = c') by congruence. subst d. rewrite Er. eauto.
    + rewrite (K2 _ Hne) in H. eauto.
Qed.

Lemma chq_ok_same_flags P P' q :
  chq_ok P q ->
  (forall k d, lookup k P = Some (Connected d) ->
     exists d', lookup k P' = Some (Connected d') /\ remote d' = remote d /\ tx_dropped d' = tx_dropped d /\ rx_dropped d' = rx_dropped d) ->
  (forall k d', lookup k P' = Some (Connected d') -> exists d, lookup k P = Some (Connected d) /\ remote d = remote d') ->
  chq_ok P' q.
Proof.
  intros [C1 C2 C3] H1 H2. constructor.
  - intros y Hy. destruct (C1 y Hy) as (x0 & c0 & P1 & P2 & P3). destruct (H1 _ _ P1) as (d' & D1 & D2 & D3 & D4).
    exists x0, d'. repeat split; congruence.
  - intros y Hy. destruct (C2 y Hy) as (x0 & c0 & P1 & P2 & P3). destruct (H1 _ _ P1) as (d' & D1 & D2 & D3 & D4).
    exists x0, d'. repeat split; congruence.
  - intros x0 d' H. destruct (H2 _ _ H) as (d & D1 & D2). rewrite <- D2. eauto.
Qed.

Lemma chq_ok_same_keys P P' q :
  chq_ok P q ->
  (forall k d, lookup k P = Some (Connected d) -> lookup k P' = Some (Connected d)) ->
  (forall k d, lookup k P' = Some (Connected d) -> lookup k P = Some (Connected d)) ->
  chq_ok P' q.
Proof. intros H H1 H2. eapply chq_ok_same_flags; [exact H| |]; intros k d A; exists d; auto. Qed.
