(** Executable interface of the typed-channel models for the correspondence check (component 4).

    Input: kind smd rmd cs rb smax rmax op*      -- see harness/src/base.rs (kind 2: rb = number of remote senders)
      send  0 sender tag plen fail nports poison L W      recv 1      burst end 2      drop sender 3 i
      stalled recv  4 k at : a recv whose deserializer thread is held after [at] payload bytes while the
      pending call is dropped and repeated up to [k] times, then released.  [recv] is cancel safe
      ([reenter]) and the result of a receive does not depend on the speed of the helper thread, so this
      is the op [ORecv]: the implementation has to produce the result of a plain recv.
    The value with tag [t] is represented by the byte string [[t; 2*nports + poison; L; 0; ...; 0]] of
    length [L] (its real encoded length); [decode]/[ports_of] read that header.  Frames are produced
    with the canonical framing ([att_frames]: chunks of the advertised chunk size); the theorems of
    [Props/C04.v] hold for every framing. *)
From Remoc Require Import Lib.Base Chmux.Parse Chmux.Recv Rch.Base Rch.Mpsc.

Definition toy_bytes (tag np poison l : N) : list N :=
  [tag; 2 * np + poison; l] ++ repeat 0 (N.to_nat (l - 3)).

Definition toy_decode (b : list N) : dres :=
  match b with
  | _ :: f :: l :: _ => if len b <? l then DIncomplete else if N.odd f then DErr else DOk
  | _ => DIncomplete
  end.

Definition toy_ports (b : list N) : list N :=
  match b with
  | t :: f :: _ => if 2 <=? f then [t] else []
  | _ => []
  end.

Record spec := mk_spec { sp_sender : N; sp_tag : N; sp_plen : N; sp_item : item }.

Inductive op := OSend (s : spec) | ORecv | OBurst | ODrop (i : N).

Fixpoint decode_ops (fuel : nat) (l : list N) : option (list op) :=
  match fuel with
  | O => None
  | S f =>
      match l with
      | [] => Some []
      | 0 :: sender :: tag :: plen :: fail :: np :: poison :: el :: w :: r =>
          if (el <? 3) || (1 <? np) || (1 <? poison) then None
          else
            let it := {| ibytes := toy_bytes tag np poison el;
                         iports := if np =? 0 then [] else [tag];
                         ser_fail := if fail =? 0 then None else Some w |} in
            option_map (cons (OSend (mk_spec sender tag plen it))) (decode_ops f r)
      | 1 :: r => option_map (cons ORecv) (decode_ops f r)
      | 2 :: r => option_map (cons OBurst) (decode_ops f r)
      | 3 :: i :: r => option_map (cons (ODrop i)) (decode_ops f r)
      | 4 :: k :: pos :: r =>
          if (8 <? k) || (100000 <? pos) then None else option_map (cons ORecv) (decode_ops f r)
      | _ => None
      end
  end.

Definition sres_num (r : sres) : N :=
  match r with SOk => 0 | SErrSer => 1 | SErrMax => 2 | SCancelled => 4 end.

Definition att_mode (a : catt) : option N :=
  match a with ADataOk false _ => Some 0 | ADataOk true _ => Some 1 | _ => None end.
Fixpoint atts_mode (l : list catt) : N :=
  match l with [] => 2 | a :: r => match att_mode a with Some m => m | None => atts_mode r end end.
Definition att_bytes (a : catt) : N :=
  match a with ADataOk _ b => len b | ADataCut b => len b | _ => 0 end.
Definition atts_bytes (l : list catt) : N := sum (map att_bytes l).

Fixpoint lookup_plen (tag : N) (sent : list (N * N)) : N :=
  match sent with [] => 0 | (t, p) :: r => if t =? tag then p else lookup_plen tag r end.

Definition bres_nums (sent : list (N * N)) (r : bres) : list N :=
  match r with
  | ROk b => let tag := hd 0 b in [0; tag; lookup_plen tag sent]
  | RErrSize => [1; 1]
  | RErrDeser => [1; 2]
  | RErrMissing => [1; 3]
  | RErrPorts => [1; 4]
  | REnd => [2]
  end.

Definition tfeed := bfeed toy_decode toy_ports.

(** a [recv] call: re-entry of a dropped call, then frames until a result *)
Fixpoint pump (s : bstate) (fs : list frame) : bstate * list frame * option bres :=
  match fs with
  | [] => (s, [], None)
  | f :: r =>
      match tfeed s f with
      | (s', x :: _) => (s', r, Some x)
      | (s', []) => pump s' r
      end
  end.

Definition recv_call (s : bstate) (fs : list frame) : bstate * list frame * option bres :=
  match reenter toy_decode s with
  | (s', x :: _) => (s', fs, Some x)
  | (s', []) => pump s' fs
  end.

(** ** base / lr channel (kinds 0, 1, 3) *)
Record bworld := mk_bworld {
  w_bd : Z; w_budget : option N; w_rx : bstate; w_pend : list frame; w_sent : list (N * N)
}.

Fixpoint run_base_ops (c : scfg) (ck : N) (ops : list op) (w : bworld) : list N :=
  match ops with
  | [] => []
  | OSend s :: r =>
      let '(bd', bu', atts, res) := base_send c (w_bd w) (w_budget w) (sp_item s) in
      [sres_num res; atts_mode atts; match iports (sp_item s) with [] => atts_bytes atts | _ => 0 end] ++
      run_base_ops c ck r
        {| w_bd := bd'; w_budget := bu'; w_rx := w_rx w; w_pend := w_pend w ++ flat_map (att_frames ck) atts;
           w_sent := w_sent w ++ [(sp_tag s, sp_plen s)] |}
  | ORecv :: r =>
      let '(rx', pend', o) := recv_call (w_rx w) (w_pend w) in
      match o with Some x => bres_nums (w_sent w) x | None => [3] end ++
      run_base_ops c ck r {| w_bd := w_bd w; w_budget := w_budget w; w_rx := rx'; w_pend := pend'; w_sent := w_sent w |}
  | _ :: r => run_base_ops c ck r w
  end.

(** ** mpsc with remote senders (kind 2)

    The sending endpoint: per remote sender a queue worked off by [send_impl] ([run_burst]).  The
    receiving endpoint is the state machine of [Rch/Mpsc.v] driven by concrete actions: what a sender's
    base receiver yields is appended to its source and forwarded at once ([MFwd], the local buffer is
    never full in this kind), the end of its port is [MStop], a [recv] is [MRecv].  (Appending to a
    source later is the same run as having had it from the start: [MFwd] only looks at the head.) *)
Definition entry_of (r : bres) : list mentry :=
  match r with
  | ROk b => [MVal b]
  | RErrSize => [MErr 1]
  | RErrDeser => [MErr 2]
  | RErrMissing => [MErr 3]
  | RErrPorts => [MErr 4]
  | REnd => []
  end.
Definition entries_of (l : list bres) : list mentry := flat_map entry_of l.

Record msender := mk_msender {
  m_bd : Z; m_err : bool; m_gone : bool; m_rx : bstate;
  m_burst : list spec          (** queued at the sending endpoint in the current burst *)
}.

Record mworld := mk_mworld {
  mw_snd : list msender;
  mw_m : mstate;               (** the receiving endpoint *)
  mw_sent : list (N * N)
}.

(** all results of feeding frames eagerly (the forwarding task keeps receiving) *)
Fixpoint feed_eager (s : bstate) (fs : list frame) : bstate * list bres :=
  match fs with
  | [] => (s, [])
  | f :: r =>
      let '(s1, o1) := tfeed s f in
      let '(s2, o2) := feed_eager s1 r in
      (s2, o1 ++ o2)
  end.

Definition is_end (r : bres) : bool := match r with REnd => true | _ => false end.

Definition add_src (m : mstate) (i : nat) (es : list mentry) : mstate :=
  {| srcs := set_nth i (nth i (srcs m) [] ++ es) (srcs m); alive := alive m; queue := queue m; cap := cap m;
     final_err := final_err m; outs := outs m |}.

(** the forwarding task of sender [i] obtained these results from its base receiver *)
Definition forward (m : mstate) (i : nat) (res : list bres) : mstate :=
  let es := entries_of res in
  let m1 := mrun (repeat (MFwd i) (length es)) (add_src m i es) in
  if existsb is_end res then mstep m1 (MStop i) else m1.

(** [send_impl] works off the burst of one sender; returns classes, frames *)
Fixpoint run_burst (c : scfg) (ck : N) (bd : Z) (err : bool) (items : list spec) : Z * bool * list N * list frame :=
  match items with
  | [] => (bd, err, [], [])
  | s :: r =>
      let '(bd', _, atts, res) := base_send c bd None (sp_item s) in
      let err' := err || negb (match res with SOk => true | _ => false end) in
      let '(bd2, err2, cls, fs) := run_burst c ck bd' err' r in
      (bd2, err2, sres_num res :: cls, flat_map (att_frames ck) atts ++ fs)
  end.

Fixpoint burst_all (c : scfg) (ck : N) (snd : list msender) (i : nat) (m : mstate)
  : list msender * mstate * list (list N) :=
  match snd with
  | [] => ([], m, [])
  | x :: r =>
      let '(bd', err', cls, fs) := run_burst c ck (m_bd x) (m_err x) (m_burst x) in
      (* a failed send closes the channel: after the queued values the port is finished *)
      let closing := err' && negb (m_gone x) in
      let fs' := if closing then fs ++ [FFin] else fs in
      let '(rx', res) := feed_eager (m_rx x) fs' in
      let '(r', m', cl) := burst_all c ck r (S i) (forward m i res) in
      ({| m_bd := bd'; m_err := err'; m_gone := m_gone x || closing; m_rx := rx'; m_burst := [] |} :: r', m', cls :: cl)
  end.

Fixpoint pop_class (cl : list (list N)) (i : nat) : N * list (list N) :=
  match cl, i with
  | [], _ => (9, [])
  | l :: r, O => match l with x :: l' => (x, l' :: r) | [] => (9, [] :: r) end
  | l :: r, S i' => let '(x, r') := pop_class r i' in (x, l :: r')
  end.

(** classes in op order; a send rejected at once (channel already failed) is class 6 *)
Fixpoint merge_classes (ord : list (spec * bool)) (cl : list (list N)) : list N :=
  match ord with
  | [] => []
  | (_, true) :: o' => 6 :: merge_classes o' cl
  | (s, false) :: o' => let '(x, cl') := pop_class cl (N.to_nat (sp_sender s)) in x :: merge_classes o' cl'
  end.

Fixpoint enqueue (snd : list msender) (i : nat) (s : spec) : list msender :=
  match snd, i with
  | [], _ => []
  | m :: r, O => {| m_bd := m_bd m; m_err := m_err m; m_gone := m_gone m; m_rx := m_rx m; m_burst := m_burst m ++ [s] |} :: r
  | m :: r, S i' => m :: enqueue r i' s
  end.

(** the remote sender is dropped: its port is finished *)
Fixpoint drop_sender (snd : list msender) (i : nat) : list msender * list bres :=
  match snd, i with
  | [], _ => ([], [])
  | m :: r, O =>
      if m_gone m then (m :: r, [])
      else
        let '(rx', res) := feed_eager (m_rx m) [FFin] in
        ({| m_bd := m_bd m; m_err := m_err m; m_gone := true; m_rx := rx'; m_burst := m_burst m |} :: r, res)
  | m :: r, S i' => let '(r', res) := drop_sender r i' in (m :: r', res)
  end.

Definition mout_nums (sent : list (N * N)) (o : option nat * mentry) : list N :=
  match snd o with
  | MVal b => bres_nums sent (ROk b)
  | MErr e => [1; e]
  | MFinal => [2]
  end.

(** [order]: the sends of the current burst in op order; rejected ones are marked *)
Fixpoint run_mpsc_ops (c : scfg) (ck : N) (ops : list op) (w : mworld) (order : list (spec * bool)) : list N :=
  match ops with
  | [] => []
  | OSend s :: r =>
      let i := N.to_nat (sp_sender s) in
      let rejected := match nth_error (mw_snd w) i with Some m => m_err m || m_gone m | None => true end in
      if rejected then run_mpsc_ops c ck r w (order ++ [(s, true)])
      else
        run_mpsc_ops c ck r
          {| mw_snd := enqueue (mw_snd w) i s; mw_m := mw_m w;
             mw_sent := mw_sent w ++ [(sp_tag s, sp_plen s)] |} (order ++ [(s, false)])
  | OBurst :: r =>
      let '(snd', m', cl) := burst_all c ck (mw_snd w) 0 (mw_m w) in
      merge_classes order cl ++
      run_mpsc_ops c ck r {| mw_snd := snd'; mw_m := m'; mw_sent := mw_sent w |} []
  | ORecv :: r =>
      let m' := mstep (mw_m w) MRecv in
      (if (length (outs (mw_m w)) <? length (outs m'))%nat
       then match rev (outs m') with o :: _ => mout_nums (mw_sent w) o | [] => [3] end
       else [3]) ++
      run_mpsc_ops c ck r {| mw_snd := mw_snd w; mw_m := m'; mw_sent := mw_sent w |} order
  | ODrop i :: r =>
      let '(snd', res) := drop_sender (mw_snd w) (N.to_nat i) in
      run_mpsc_ops c ck r {| mw_snd := snd'; mw_m := forward (mw_m w) (N.to_nat i) res; mw_sent := mw_sent w |} order
  end.

(** ** oneshot (kind 4): every send op is a fresh channel *)
Fixpoint run_oneshot_ops (c : scfg) (ck : N) (rmd mp : N) (ops : list op) : list N :=
  match ops with
  | [] => []
  | OSend s :: r =>
      let '(_, _, atts, res) := base_send c 0%Z None (sp_item s) in
      let '(_, outs) := feed_eager (binit rmd mp (s_max c)) (flat_map (att_frames ck) atts ++ [FFin]) in
      [sres_num res] ++ match outs with x :: _ => bres_nums [(sp_tag s, sp_plen s)] x | [] => [3] end ++
      run_oneshot_ops c ck rmd mp r
  | _ :: r => run_oneshot_ops c ck rmd mp r
  end.

Definition DEFAULT_MAX_PORTS : N := 128.

Definition run_base (inp : list N) : list N :=
  match inp with
  | kind :: smd :: rmd :: cs :: rb :: smax :: rmax :: rest =>
      match decode_ops (S (length rest)) rest with
      | None => [98]
      | Some ops =>
          let c := {| s_md := smd; s_chunk := cs; s_max := smax |} in
          if (cs <? 4) then [98] else
          match kind with
          | 0 | 3 =>
              run_base_ops c cs ops {| w_bd := 0%Z; w_budget := None; w_rx := binit rmd DEFAULT_MAX_PORTS rmax; w_pend := []; w_sent := [] |}
          | 1 =>
              run_base_ops c cs ops {| w_bd := 0%Z; w_budget := Some rb; w_rx := binit rmd DEFAULT_MAX_PORTS rmax; w_pend := []; w_sent := [] |}
          | 2 =>
              let m0 := {| m_bd := 0%Z; m_err := false; m_gone := false; m_rx := binit rmd DEFAULT_MAX_PORTS smax; m_burst := [] |} in
              let n := N.to_nat (N.min rb 3) in
              run_mpsc_ops c cs ops {| mw_snd := repeat m0 n; mw_m := minit (repeat [] n) 64; mw_sent := [] |} []
          | 4 => run_oneshot_ops c cs rmd DEFAULT_MAX_PORTS ops
          | 5 | 6 => [1]
          | _ => [98]
          end
      end
  | _ => [98]
  end.
