(** Executable interface of the [ObservableList] model (component 133): numbers in, numbers out.
    Input : [mx; mode; k; n; init_1..init_n; op; op; ...]   (mode is ignored: list subscriptions are always
            incremental; the subscription is taken after the first [k] ops; [mx] = max_size of the mirror)
      ops : 1 v push | 2 done | 3 n v*n extend
    Output: per op [99] (panic, state unchanged) or [#events; events...]  (1 v Push | 2 Done | 3 InitialComplete);
            then [len; items...; done] of the list;
            then the mirror [err; len; items...; complete; done] (err 0 none, 1 MaxSizeExceeded; no flags
            after an error);
            then the stream a hand-held subscription (same point) yields [#events; events...]
            and the result of applying it by hand, same format as the mirror. *)
From Remoc Require Import Lib.Base Robs.SeqCommon Robs.List_.

Definition enc_event (e : event) : list N :=
  match e with
  | EPush v => [1; v]
  | EDone => [2]
  | EInitialComplete => [3]
  end.
Definition enc_events (es : list event) : list N := len es :: flat_map enc_event es.

Definition ocons (o : op) (r : option (list op)) : option (list op) :=
  match r with Some os => Some (o :: os) | None => None end.

Fixpoint decode_ops (fuel : nat) (l : list N) : option (list op) :=
  match fuel with
  | O => match l with [] => Some [] | _ => None end
  | S f =>
      match l with
      | [] => Some []
      | 1 :: v :: r => ocons (Push v) (decode_ops f r)
      | 2 :: r => ocons MarkDone (decode_ops f r)
      | 3 :: n :: r =>
          match take n r with
          | Some (vs, r') => ocons (Extend vs) (decode_ops f r')
          | None => None
          end
      | _ => None
      end
  end.

Fixpoint exec_ops (c : coll) (ops : list op) : coll * list (option (list event)) :=
  match ops with
  | [] => (c, [])
  | o :: r =>
      match apply_op c o with
      | Ok (c1, e1) => let (cf, t) := exec_ops c1 r in (cf, Some e1 :: t)
      | Panic => let (cf, t) := exec_ops c r in (cf, None :: t)
      end
  end.

Definition enc_trace (t : list (option (list event))) : list N :=
  flat_map (fun x => match x with Some es => enc_events es | None => [99] end) t.
Definition trace_events (t : list (option (list event))) : list event :=
  flat_map (fun x => match x with Some es => es | None => [] end) t.

Definition enc_mirror (m : mirror) : list N := len (mv m) :: mv m ++ [nb (mcomplete m); nb (mdone m)].
Definition enc_hres (r : hres) : list N :=
  match r with
  | HOk m => 0 :: enc_mirror m
  | HErr m (MaxSizeExceeded _) => 1 :: len (mv m) :: mv m
  | HErr m (InvalidIndex _) => 2 :: len (mv m) :: mv m
  end.

Definition run_robs_list (inp : list N) : list N :=
  match inp with
  | mx :: _ :: k :: n :: rest =>
      match take n rest with
      | None => [98]
      | Some (init, opsn) =>
          match decode_ops (length opsn) opsn with
          | None => [98]
          | Some ops =>
              let c0 := {| items := init; cdone := false |} in
              let kk := N.to_nat k in
              let '(ck, t1) := exec_ops c0 (firstn kk ops) in
              let '(cf, t2) := exec_ops ck (skipn kk ops) in
              let stream := sub_stream ck (trace_events t2) in
              enc_trace (t1 ++ t2)
              ++ (len (items cf) :: items cf ++ [nb (cdone cf)])
              ++ enc_hres (mirror_task (sub_mirror mx) stream)
              ++ enc_events stream
              ++ enc_hres (fold_events (sub_mirror mx) stream)
          end
      end
  | _ => [98]
  end.
