(** Executable interface of the wire model for the correspondence check:
    numbers in, numbers out.  The Rust harness ([vh codec]) produces the same input lines and prints
    what the implementation does; [mrun] (extracted) and [cases.v] (vm_compute) print what this does. *)
From Remoc Require Import Lib.Base Gen.Consts Chmux.Wire Chmux.Spec3.

Definition nb (b : bool) : N := if b then 1 else 0.
Definition bn (n : N) : bool := negb (n =? 0).

(** message <-> numbers.  Durations are given as (secs, subsec_nanos). *)
Definition msg_to_nums (m : msg) : list N :=
  match m with
  | Reset => [1]
  | Hello v c =>
      [2; v] ++ (match x_timeout c with None => [0; 0; 0] | Some ns => [1; ns / 1000000000; ns mod 1000000000] end)
             ++ [x_chunk c; x_buffer c; x_queue c]
  | Ping => [3]
  | OpenPort p w id => [4; p; nb w] ++ match id with Some i => [1; i] | None => [0; 0] end
  | PortOpened c s => [5; c; s]
  | Rejected c np => [6; c; nb np]
  | Data p f l => [7; p; nb f; nb l]
  | PortData p f l w ports ids =>
      [8; p; nb f; nb l; nb w] ++
      match ids with Some is => [1; len ports] ++ ports ++ [len is] ++ is | None => [0; len ports] ++ ports end
  | PortCredits p c => [9; p; c]
  | SendFinish p => [10; p]
  | ReceiveClose p => [11; p]
  | ReceiveFinish p => [12; p]
  | ClientFinish => [13]
  | ListenerFinish => [14]
  | Goodbye => [15]
  end.

Definition nth0 (l : list N) (i : nat) : N := nth i l 0.

Definition nums_to_msg (l : list N) : option msg :=
  match l with
  | [1] => Some Reset
  | [2; v; ht; s; ns; cs; b; q] =>
      Some (Hello v {| x_timeout := if bn ht then Some (s * 1000000000 + ns) else None;
                       x_chunk := cs; x_buffer := b; x_queue := q |})
  | [3] => Some Ping
  | [4; p; w; hi; i] => Some (OpenPort p (bn w) (if bn hi then Some i else None))
  | [5; c; s] => Some (PortOpened c s)
  | [6; c; np] => Some (Rejected c (bn np))
  | [7; p; f; l] => Some (Data p (bn f) (bn l))
  | 8 :: p :: f :: l :: w :: hi :: n :: rest =>
      let ports := firstn (N.to_nat n) rest in
      let rest' := skipn (N.to_nat n) rest in
      if bn hi then
        match rest' with
        | k :: is => Some (PortData p (bn f) (bn l) (bn w) ports (Some (firstn (N.to_nat k) is)))
        | [] => None
        end
      else Some (PortData p (bn f) (bn l) (bn w) ports None)
  | [9; p; c] => Some (PortCredits p c)
  | [10; p] => Some (SendFinish p)
  | [11; p] => Some (ReceiveClose p)
  | [12; p] => Some (ReceiveFinish p)
  | [13] => Some ClientFinish
  | [14] => Some ListenerFinish
  | [15] => Some Goodbye
  | _ => None
  end.

(** op 0: decode bytes; op 1: encode message; op 2: deframe (max, bytes); op 3: frame;
    op 4: handshake for cfg; op 5: max_frame_length;
    op 6: the bytes the version-3 table ([Spec3], no generated constant involved) prescribes for a
    well-formed message -- compared with the implementation's encoder, and fed to its decoder *)
Definition run_codec (inp : list N) : list N :=
  match inp with
  | 0 :: bytes =>
      match dec bytes with
      | DOk m => 0 :: msg_to_nums m
      | DEof => [1]
      | DInvalid => [2]
      | DFuel => [99]
      end
  | 1 :: nums =>
      match nums_to_msg nums with
      | None => [98]
      | Some m => match enc m with Some bs => 0 :: bs | None => [1] end
      end
  | 2 :: mx :: bytes =>
      match deframe mx bytes with
      | FOk p r => [0; len p] ++ p ++ r
      | FNeedMore => [1]
      | FTooLong => [2]
      end
  | 3 :: payload => frame payload
  | [4; ht; s; ns; cs; b; q] =>
      let c := {| x_timeout := if bn ht then Some (s * 1000000000 + ns) else None;
                  x_chunk := cs; x_buffer := b; x_queue := q |} in
      flat_map (fun o => match o with Some bs => len bs :: bs | None => [99] end) (handshake c)
  | [5; cs] => match max_frame_length cs with Some v => [0; v] | None => [1] end
  | 6 :: nums =>
      match nums_to_msg nums with
      | None => [98]
      | Some m => if wf m then 0 :: render (layout3 m) else [97]
      end
  | _ => [98]
  end.
