(** Executable interface of the halves model for the correspondence check (component 5).

    Input: kind hops rbuf cs free0 freeF fault retry shape nvals nchan (ck which mode v1 v2 pre)*
    -- see harness/src/halves.rs ([pre] = number of items, 0..8, queued in an mpsc channel of queue
    length 8 before its halves are handed over).  The origin sends [nvals] values over [hops] chained connections;
    the halves of [nchan] channels travel inside them.  Each value goes through [Ports.wire]
    (serialization with the ports the origin's allocator can still hand out, one [forward_hop] per
    intermediate node with batches of [cs / 4] requests, deserialization and matching by id at the
    far end); the port requests are then resolved by the small-step system of [Ports.step] under a
    canonical schedule ([drive_all], with the connection loss of the case placed where the harness
    places it); [bin] / [lr] halves consult [Ports.il_step].  What is compared with the
    implementation is therefore a behaviour of the definitions the theorems of [Props/C05.v] are
    about.  The last stage maps the resulting connectivity to what the harness observes per channel
    (label received / clean end / error / absent). *)
From Remoc Require Import Lib.Base Rch.Ports Gen.Halves.

Record chan := mkChan { c_ck : N; c_which : N; c_mode : N; c_v1 : N; c_v2 : N; c_pre : N }.

Fixpoint parse_chans (n : nat) (l : list N) : option (list chan) :=
  match n with
  | O => match l with [] => Some [] | _ => None end
  | S n' =>
      match l with
      | ck :: which :: mode :: v1 :: v2 :: pre :: rest =>
          match parse_chans n' rest with
          | Some cs => Some (mkChan ck which mode v1 v2 pre :: cs)
          | None => None
          end
      | _ => None
      end
  end.

Definition chan_valid (nvals : N) (c : chan) : bool :=
  (c_ck c <=? 5) && (c_which c <=? 3) && (c_mode c <=? 2) && (c_v1 c <? nvals) && (c_v2 c <? nvals)
  && (c_v1 c <=? c_v2 c)
  && (if 2 <=? c_which c then c_mode c =? 0 else c_v1 c =? c_v2 c)
  && (if c_ck c =? 3 then c_which c =? 1 else true)
  && (c_pre c <=? 8) && (if c_pre c =? 0 then true else c_ck c =? 0).

(** Where the transfer of a half ended. *)
Inductive link :=
| LHome                 (* the half never left the origin *)
| LOk (peer : cbid)     (* delivered and connected; [peer] = label of the origin callback it is wired to *)
| LRej                  (* sent; the far end never got it / its request was rejected or failed *)
| LDropped              (* delivered to the far end's receiver, connected, then dropped with its value *)
| LParked               (* delivered and connected, but its value is parked in the far end's receiver
                           (MissingPorts): dropped as soon as the next value arrives or the receiver goes *)
| LClosed.              (* an mpsc / oneshot sender whose channel was already closed travels without a port
                           and arrives as a closed sender *)

Record cst := mkC { s_tx : link; s_rx : link; s_il : il_state }.

Definition get_link (s : cst) (d : side) : link := match d with STx => s_tx s | SRx => s_rx s end.
Definition set_link (s : cst) (d : side) (l : link) : cst :=
  match d with STx => mkC l (s_rx s) (s_il s) | SRx => mkC (s_tx s) l (s_il s) end.

(** The repaired interlock transitions are in force iff the source marks the travelling half at both
    serialization sites of the channel type (read off the source by the translator). *)
Definition fixed_of (ck : N) : bool :=
  if ck =? 4 then bin_tx_marks_own && bin_rx_marks_own else lr_tx_marks_own && lr_rx_marks_own.

(** A leaf of a value: channel index, side, travel mode (0 normal, 1 ignored by the far end, 2 only a
    number, 3 / 4 closed sender travelling without a port: read / ignored by the far end), and whether
    it took the direct path of a [bin] / [lr] interlock. *)
Record tleaf := mkT { t_chan : nat; t_side : side; t_mode : N; t_direct : bool }.

Definition first_side (c : chan) : side := if (c_which c =? 0) || (c_which c =? 2) then STx else SRx.

(** the halves of channel [i] that value [v] carries, in order *)
Definition parts (v : N) (i : nat) (c : chan) (s : cst) : list (nat * side) :=
  let f := first_side c in
  let home d := if c_mode c =? 2 then true else match get_link s d with LHome => true | _ => false end in
  (if (c_v1 c =? v) && home f then [(i, f)] else []) ++
  (if (2 <=? c_which c) && (c_v2 c =? v) && home (other f) then [(i, other f)] else []).

Fixpoint all_parts (v : N) (i : nat) (cs : list chan) (ss : list cst) : list (nat * side) :=
  match cs, ss with
  | c :: cs', s :: ss' => parts v i c s ++ all_parts v (S i) cs' ss'
  | _, _ => []
  end.

Definition nth_chan (cs : list chan) (i : nat) : chan := nth i cs (mkChan 0 0 0 0 0 0).
Definition nth_st (ss : list cst) (i : nat) : cst := nth i ss (mkC LHome LHome il_init).

(** Serialization pass over the leaves: [bin] / [lr] halves go through the interlock.
    Result: leaves with their path, updated channel states, and whether some half refused to
    serialize ([lr]: "cannot send ... because ... has been sent"). *)
Fixpoint ser_pass (cs : list chan) (ps : list (nat * side)) (ss : list cst) : list tleaf * list cst * bool :=
  match ps with
  | [] => ([], ss, false)
  | (i, d) :: ps' =>
      let c := nth_chan cs i in
      let s := nth_st ss i in
      if c_mode c =? 2 then
        let '(ls, ss', e) := ser_pass cs ps' ss in (mkT i d 2 false :: ls, ss', e)
      else if 4 <=? c_ck c then
        let il' := il_step (fixed_of (c_ck c)) (c_ck c =? 5) (s_il s) (ISer d) in
        let ss1 := update ss i (mkC (s_tx s) (s_rx s) il') in
        match is_last il' with
        | SerError => ([], ss1, true)
        | Direct => let '(ls, ss', e) := ser_pass cs ps' ss1 in (mkT i d (c_mode c) true :: ls, ss', e)
        | Forwarding => let '(ls, ss', e) := ser_pass cs ps' ss1 in (mkT i d (c_mode c) false :: ls, ss', e)
        end
      else if (c_ck c <=? 1) && side_eqb d STx && (match s_rx s with LRej | LDropped => true | _ => false end) then
        (* [Sender::serialize]: [self.tx.upgrade()] is [None] once the channel is closed: port [None] *)
        let '(ls, ss', e) := ser_pass cs ps' ss in (mkT i d (3 + c_mode c) false :: ls, ss', e)
      else
        let '(ls, ss', e) := ser_pass cs ps' ss in (mkT i d (c_mode c) false :: ls, ss', e)
  end.

(** the callbacks of direct transfers run (item sent) or are dropped (item not sent) *)
Fixpoint settle (cs : list chan) (ok : bool) (ls : list tleaf) (ss : list cst) : list cst :=
  match ls with
  | [] => ss
  | l :: ls' =>
      let ss' :=
        if t_direct l then
          let c := nth_chan cs (t_chan l) in
          let s := nth_st ss (t_chan l) in
          update ss (t_chan l)
            (mkC (s_tx s) (s_rx s)
                 (il_step (fixed_of (c_ck c)) (c_ck c =? 5) (s_il s)
                          (if ok then IConfirm (t_side l) else ICancel (t_side l))))
        else ss in
      settle cs ok ls' ss'
  end.

Definition both_direct (s : cst) : bool := is_direct_tx (s_il s) && is_direct_rx (s_il s).

Definition label_of (l : tleaf) : cbid := mkCb (N.of_nat (t_chan l)) (t_side l).

Fixpoint to_leaves (bogus : N) (ls : list tleaf) : list leaf :=
  match ls with
  | [] => []
  | l :: ls' =>
      if 3 <=? t_mode l then to_leaves bogus ls'
      else if t_mode l =? 2 then mkLeaf (label_of l) (MFake bogus) :: to_leaves (bogus + 1) ls'
      else mkLeaf (label_of l) (if t_mode l =? 1 then MIgnored else MReal) :: to_leaves bogus ls'
  end.

Fixpoint seqN (start : N) (n : nat) : list N :=
  match n with O => [] | S n' => start :: seqN (start + 1) n' end.

Definition avail (base : N) (free : N) : list N := seqN base (N.to_nat (N.min free 40)).

(** value results as printed by the harness *)
Definition V_OK : N := 1.
Definition V_SER : N := 2.
Definition V_MISSING : N := 3.
Definition V_OTHER : N := 4.
Definition V_PENDING : N := 5.
Definition V_END : N := 6.
Definition V_NOT : N := 7.

Record world := mkW {
  w_cs : list cst;
  w_f0 : N;            (* free ports at the origin (99 = no limit) *)
  w_ff : N;            (* free ports at the far end *)
  w_dead : N;          (* 0 alive; else what the far end's receive reports: V_OTHER / V_END *)
  w_ctr : N;           (* fresh numbers *)
}.

Definition sub_free (f k : N) : N := if 99 <=? f then f else f - k.

Fixpoint count_if {A} (p : A -> bool) (l : list A) : N :=
  match l with [] => 0 | x :: r => (if p x then 1 else 0) + count_if p r end.

Fixpoint find_idx {A} (p : A -> bool) (l : list A) (i : nat) : option nat :=
  match l with [] => None | x :: r => if p x then Some i else find_idx p r (S i) end.

(** index of the origin's request for a label in the origin table *)
Definition req_index (t : list (N * cbid)) (cb : cbid) : option nat :=
  find_idx (fun e => cbid_eqb (snd e) cb) t O.

Definition paired_origin (pr : list (cbid * cbid)) (far : cbid) : option cbid :=
  match find (fun p => cbid_eqb (snd p) far) pr with Some p => Some (fst p) | None => None end.

(** Outcome of one attempt to send a value.  [cut_at]: 0 = no loss while in flight, k = connection k
    is lost while the requests are in flight on it. *)
Definition send_value (cs : list chan) (hops : nat) (bs : nat) (cut_at : nat) (ps : list (nat * side)) (w : world)
  : world * N * N * bool :=    (* world, send result, receive result, was a serialization error *)
  let '(tls, ss1, ser_err) := ser_pass cs ps (w_cs w) in
  let ctr := w_ctr w in
  let ports0 := avail (1000 + 100 * ctr) (w_f0 w) in
  let hopl := map (fun k => (seqN (100000 * (N.of_nat k + 2) + 100 * ctr) 40, repeat bs 40)) (seq 0 (hops - 1)) in
  let qs := avail (900000 + 100 * ctr) (w_ff w) in
  let idle := if w_dead w =? 0 then V_PENDING else w_dead w in
  let dead_now := match cut_at with O => 0 | S _ => if Nat.eqb cut_at hops then V_OTHER else V_END end in
  (* the connection is lost during this attempt even when nothing could be sent; a lost connection
     releases its ports (the harness then stops limiting the origin's allocator) *)
  let fail (ss : list cst) (res : N) (ser : bool) :=
    if dead_now =? 0 then (mkW (settle cs false tls ss) (w_f0 w) (w_ff w) (w_dead w) (ctr + 1), res, idle, ser)
    else (mkW (settle cs false tls ss) 99 (w_ff w) dead_now (ctr + 1), res, dead_now, ser) in
  if ser_err then fail ss1 V_SER true
  else
    match wire (to_leaves (4000000001 + 100 * ctr) tls) ports0 hopl (repeat bs 40) qs with
    | WSerExhausted => fail ss1 V_SER true
    | WFwdWait => fail ss1 V_PENDING false
    | r =>
        if negb (w_dead w =? 0) then fail ss1 V_OTHER false
        else
          (* the data of this value reaches the far end: a value parked there is dropped *)
          let unpark (l : link) := match l with LParked => LDropped | _ => l end in
          let ss2 := map (fun s => mkC (unpark (s_tx s)) (unpark (s_rx s)) (s_il s)) (settle cs true tls ss1) in
          (* the far end's decision per request, in the order of the origin table *)
          let '(t, decide, pr, recv, delivered) :=
            match r with
            | WOk x =>
                let dec := decisions x in
                let pr := pairing (w_table x) (w_tabs x) (w_acc x) in
                match w_missing x with
                | [] => (w_table x, dec, pr, V_OK, true)
                | _ => (w_table x, dec, pr, (match w_table x with [] => V_PENDING | _ => V_MISSING end), false)
                end
            | WDeserExhausted t _ => (t, map (fun _ => false) t, [], V_SER, false)
            | _ => ([], [], [], V_OTHER, false)
            end in
          let n := length t in
          let s0 := init_sys hops decide in
          let s1 := match cut_at with
                    | O => s0
                    | S k => match step (advance k n s0) (ACut cut_at) with Some s => s | None => s0 end
                    end in
          let fin := drive_all (3 * hops + 3) n s1 in
          let recv' := if dead_now =? 0 then recv else dead_now in
          let delivered' := delivered && (dead_now =? 0) in
          (* link of every leaf *)
          let link_of (l : tleaf) : link :=
            if t_mode l =? 2 then LHome
            else if 3 <=? t_mode l then (if delivered' && (t_mode l =? 3) then LClosed else LRej)
            else
              match req_index t (label_of l) with
              | None => LRej
              | Some i =>
                  match nth_error (s_reqs fin) i with
                  | Some rq =>
                      match r_phase rq, r_far rq with
                      | DoneOk, FConn =>
                          if delivered' then
                            match paired_origin pr (label_of l) with Some o => LOk o | None => LRej end
                          else LParked
                      | _, _ => LRej
                      end
                  | None => LRej
                  end
              end in
          let ss3 := fold_left (fun ss l =>
                         if t_mode l =? 2 then ss
                         else update ss (t_chan l) (set_link (nth_st ss (t_chan l)) (t_side l) (link_of l)))
                       tls ss2 in
          (* both ends of a husk connection (F10) are dropped at the origin: its ports are free again
          (when the peer is a forwarding hop, which gives up both directions; a far end that still holds
             its halves keeps the ports alive) *)
          let husk_now (i : nat) := Nat.leb 2 hops && (4 <=? c_ck (nth_chan cs i)) && both_direct (nth_st ss3 i) in
          (* (only the connection of the receiver half: the forwarder's tasks for the sender half's
             connection wait for the far sender, which is still alive) *)
          let is_rx (l : tleaf) := side_eqb (t_side l) SRx in
          let conn := count_if (fun l => negb (husk_now (t_chan l) && is_rx l) &&
                                         match link_of l with LOk _ | LParked => true | _ => false end) tls in
          let back := count_if (fun i => husk_now i && negb (both_direct (nth_st (w_cs w) i)) &&
                                         negb (existsb (fun l => Nat.eqb (t_chan l) i && is_rx l) tls))
                               (seq 0 (length cs)) in
          let connf := count_if (fun l => match link_of l with LOk _ | LParked => true | _ => false end) tls in
          (mkW ss3 (if dead_now =? 0 then (let f := sub_free (w_f0 w) conn in if 99 <=? f then f else f + back) else 99)
               (sub_free (w_ff w) connf) dead_now (ctr + 1),
           V_OK, recv', false)
    end.

(** ** What the harness observes per channel *)

Definition ST_OK : N := 1.
Definition ST_END : N := 2.
Definition ST_ERR : N := 3.
Definition ST_ABSENT : N := 5.

Definition is_home (l : link) : bool := match l with LHome => true | _ => false end.

(** the far half (channel index) whose transfer is wired to origin attach point [(c, d)] *)
Fixpoint attached (ss : list cst) (i : nat) (c : N) (d : side) : option nat :=
  match ss with
  | [] => None
  | s :: ss' =>
      match get_link s d with
      | LOk p => if cbid_eqb p (mkCb c d) then Some i else attached ss' (S i) c d
      | _ => attached ss' (S i) c d
      end
  end.

(** the items queued in channel [k] before any half was handed over (at most 8 = the local queue of
    the channel is completely full): they are delivered first, whatever happens to the travelling half;
    what the wiring reports to the receiver end (a failed connect) comes after them *)
Definition queued (k : nat) (p : N) : list N :=
  map (fun j => 100 + N.of_nat k + 10 * j) (seqN 0 (N.to_nat p)).

(** [observe cs ss broken i]: sender-end location and status, receiver-end location, items, status. *)
Definition observe (cs : list chan) (ss : list cst) (broken : bool) (i : nat) : list N :=
  let c := nth_chan cs i in
  let s := nth_st ss i in
  let loc (l : link) : N := match l with LHome => 0 | LOk _ | LClosed => 1 | _ => 2 end in
  let husk := (4 <=? c_ck c) && both_direct s in
  let fold_end (x : N) := if broken && (x =? ST_END) then ST_ERR else x in
  if (4 <=? c_ck c) && is_home (s_tx s) && is_home (s_rx s) then [0; ST_ABSENT; 0; 0; ST_ABSENT]
  else
    (* the channel core this end is attached to *)
    let core_of (l : link) : option nat :=
      match l with
      | LHome => Some i
      | LOk p => Some (N.to_nat (cb_chan p))
      | _ => None
      end in
    (* does core k have a live receiving side / what feeds it *)
    let rx_side_alive (k : nat) : bool :=
      let sk := nth_st ss k in
      match s_rx sk with
      | LHome => true
      | _ => match attached ss O (N.of_nat k) SRx with Some _ => negb broken | None => false end
      end in
    let feeder (k : nat) : option N :=
      let sk := nth_st ss k in
      match s_tx sk with
      | LHome => Some (N.of_nat k + 1)
      | _ => match attached ss O (N.of_nat k) STx with
             | Some j => if broken then None else Some (N.of_nat j + 1)
             | None => None
             end
      end in
    let closure (k : nat) (crossing : bool) : N :=
      match s_tx (nth_st ss k) with
      | LDropped => ST_END
      | _ =>
          (* bin (repaired interlock): the forwarding task gives up silently when the other transfer
             failed, and its end of the connection is dropped: clean end *)
          if (c_ck (nth_chan cs k) =? 4) && crossing then ST_END else ST_ERR
      end in
    let tx_status : N :=
      match s_tx s with
      | LRej | LDropped => ST_ABSENT
      | LClosed => ST_ERR
      | l =>
          if husk && negb (is_home l) then ST_ERR
          else if broken && negb (is_home l) then ST_ERR
          else match core_of l with
               | Some k => if rx_side_alive k then ST_OK else ST_ERR
               | None => ST_ERR
               end
      end in
    let want := S (N.to_nat (c_pre c)) in
    let '(items, term) :=
      match s_rx s with
      | LRej | LDropped | LClosed => ([], ST_ABSENT)
      | l =>
          if husk && negb (is_home l) then ([], ST_END)
          else
            match core_of l with
            | Some k =>
                let pre := queued k (c_pre (nth_chan cs k)) in
                let crossing := negb (is_home l) in
                let lab := if broken && crossing then None else feeder k in
                let its := pre ++ match lab with Some x => [x] | None => [] end in
                if Nat.leb want (length its) then (firstn want its, ST_OK)
                else (its, if broken && crossing then ST_ERR else closure k crossing)
            | None => ([], ST_ERR)
            end
      end in
    [loc (s_tx s); fold_end tx_status; loc (s_rx s); len items] ++ items ++ [fold_end term].

Fixpoint observe_all (cs : list chan) (ss : list cst) (broken : bool) (n i : nat) : list N :=
  match n with
  | O => []
  | S n' => observe cs ss broken i ++ observe_all cs ss broken n' (S i)
  end.

(** ** The values of a case, one after the other *)

Fixpoint run_values (cs : list chan) (hops bs : nat) (fault : N) (retry : bool) (nvals : nat) (v : N) (w : world)
  : world * list N :=
  match nvals with
  | O => (w, [])
  | S n' =>
      let ps := all_parts v O cs (w_cs w) in
      let cut_at := if v =? 0 then (if fault =? 1 then hops else if fault =? 2 then 1%nat else O) else O in
      let '(w1, sres, rres, ser) := send_value cs hops bs cut_at ps w in
      let '(w2, out) :=
        if ser && retry then
          (* all hogged ports are released and the returned value is sent once more *)
          let w1' := mkW (w_cs w1) 99 (w_ff w1) (w_dead w1) (w_ctr w1) in
          let ps' := all_parts v O cs (w_cs w1') in
          let '(w2, sres2, rres2, _) := send_value cs hops bs O ps' w1' in
          (w2, [sres; sres2; rres2])
        else (w1, [sres; V_NOT; rres]) in
      let '(w3, outs) := run_values cs hops bs fault retry n' (v + 1) w2 in
      (w3, out ++ outs)
  end.

Definition run_halves (inp : list N) : list N :=
  match inp with
  | kind :: hops :: rbuf :: csz :: free0 :: freeF :: fault :: retry :: shape :: nvals :: nchan :: rest =>
      if 8 <? nchan then [98] else
      match parse_chans (N.to_nat nchan) rest with
      | None => [98]
      | Some cs =>
          if negb ((kind <=? 1) && (1 <=? hops) && (hops <=? 3) && (1 <=? nvals) && (nvals <=? 2) && (fault <=? 4)
                   && ((rbuf =? 0) || (64 <=? rbuf)) && ((csz =? 0) || ((4 <=? csz) && (csz <=? 1048576)))
                   && forallb (chan_valid nvals) cs)
          then [98]
          else if kind =? 1 then [1]
          else
            let bs := if csz =? 0 then 40%nat else N.to_nat (csz / 4) in
            let w0 := mkW (map (fun _ => mkC LHome LHome il_init) cs) free0 freeF 0 0 in
            let '(w1, outs) := run_values cs (N.to_nat hops) bs fault (negb (retry =? 0)) (N.to_nat nvals) 0 w0 in
            (* a value parked at the far end after an error is dropped with the receiver *)
            let broken := 3 <=? fault in
            let unpark (l : link) := match l with LParked => LDropped | _ => l end in
            let ss := map (fun s => mkC (unpark (s_tx s)) (unpark (s_rx s)) (s_il s)) (w_cs w1) in
            outs ++ observe_all cs ss broken (length cs) O
      end
  | _ => [98]
  end.
