(** Executable interface of the lazy value / blob model for the correspondence check (component 200).

    Input: kind n seed h keep cs0..cs3 md0..md3 (op a b c)*  -- see harness/src/lazy.rs.
    Endpoints 0..h in a line, the value is provided on endpoint 0; a fetch on endpoint [a] runs
    [Lazy.lazy_fetch] through the forwarders on endpoints 1..a-1.  A cut "when the (d+1)-th data
    message is about to cross connection k" is [Some d] on that connection if the transfer has more
    than [d] data frames there, and no cut otherwise. *)
From Remoc Require Import Lib.Base Chmux.Parse Robj.Lazy.

Definition payload (seed n : N) : list N :=
  map (fun i => (seed + 37 * N.of_nat i) mod 256) (seq 0 (N.to_nat n)).

Record rst := mk_rst {
  r_cut : list bool;            (** per connection *)
  r_prov : N;                   (** 0 provider alive, 1 kept, 2 dropped *)
  r_cache : list (option fres)  (** per endpoint *)
}.

Definition nthb (l : list bool) (k : nat) : bool := nth k l false.
Definition nthN (l : list N) (k : nat) : N := nth k l 0.
Fixpoint set_nth {A} (k : nat) (x : A) (l : list A) : list A :=
  match l, k with
  | [], _ => []
  | _ :: r, O => x :: r
  | y :: r, S k' => y :: set_nth k' x r
  end.

Definition MP : N := 128.   (* default max_received_ports *)

(** forwarders on endpoints 1..a-1 with the cut (if any) on their incoming connection *)
Definition hops_for (cs md : list N) (a : nat) (cut : nat -> option nat) : list (option nat * fcfg) :=
  map (fun i => (cut i, mk_fcfg (nthN cs (i + 2)%nat) (nthN md (i + 1)%nat) MP)) (seq 0 (a - 1)%nat).

Definition res_nums (r : fres) : list N :=
  match r with
  | FOk b => 0 :: len b :: b
  | FErr => [1; 0]
  | FPending => [2; 0]
  end.

Definition fetch_op (kind : N) (bytes : list N) (h : nat) (cs md : list N) (s : rst) (a k d : nat) : rst * list N :=
  let holder := if kind =? 0 then Nat.leb a h else Nat.eqb a h in
  if negb holder then (s, [6; 0])
  else
    match nth a (r_cache s) None with
    | Some r => (s, res_nums r)
    | None =>
        if Nat.eqb a 0 then
          (mk_rst (r_cut s) (r_prov s) (set_nth a (Some local_blob_fetch) (r_cache s)), res_nums local_blob_fetch)
        else if existsb (nthb (r_cut s)) (seq 0 a) then
          (* the request does not get through *)
          (mk_rst (r_cut s) (r_prov s) (set_nth a (Some FErr) (r_cache s)), res_nums FErr)
        else
          let answers := negb (r_prov s =? 2) in
          let ck0 := nthN cs 1 in
          let none := fun _ : nat => @None nat in
          let on_path := Nat.ltb k a in
          let before := relay (hops_for cs md (k + 1)%nat none) (provider_frames answers ck0 bytes) in
          let struck := on_path && Nat.ltb d (count_data before) in
          let cut := fun i => if struck && Nat.eqb i k then Some d else None in
          let r := lazy_fetch answers ck0 bytes (hops_for cs md a cut) MP (cut (a - 1)%nat) in
          let cuts := if struck then set_nth k true (r_cut s) else r_cut s in
          (mk_rst cuts (r_prov s) (match r with FPending => r_cache s | _ => set_nth a (Some r) (r_cache s) end),
           res_nums r)
    end.

Fixpoint run_ops (kind : N) (bytes : list N) (h : nat) (cs md : list N) (s : rst) (ops : list N) : list N :=
  match ops with
  | op :: a :: b :: c :: rest =>
      let '(s', out) :=
        match op with
        | 0 => fetch_op kind bytes h cs md s (N.to_nat a) (N.to_nat b) (N.to_nat c)
        | 1 => if Nat.ltb (N.to_nat a) h && negb (nthb (r_cut s) (N.to_nat a))
               then (mk_rst (set_nth (N.to_nat a) true (r_cut s)) (r_prov s) (r_cache s), [0; 0])
               else (s, [6; 0])
        | 2 => if r_prov s =? 0 then (mk_rst (r_cut s) 2 (r_cache s), [0; 0]) else (s, [6; 0])
        | _ => if r_prov s =? 0 then (mk_rst (r_cut s) 1 (r_cache s), [0; 0]) else (s, [6; 0])
        end in
      out ++ run_ops kind bytes h cs md s' rest
  | _ => []
  end.

Fixpoint ops_ok (ops : list N) : bool :=
  match ops with
  | [] => true
  | op :: a :: b :: c :: rest => (op <=? 3) && (a <=? 100) && (b <=? 100) && (c <=? 100000) && ops_ok rest
  | _ => false
  end.

Definition run_lazy (inp : list N) : list N :=
  match inp with
  | kind :: n :: seed :: h :: keep :: c0 :: c1 :: c2 :: c3 :: m0 :: m1 :: m2 :: m3 :: ops =>
      let cs := [c0; c1; c2; c3] in
      let md := [m0; m1; m2; m3] in
      if (1 <? kind) || (5000 <? n) || (h <? 1) || (3 <? h) || (1 <? keep)
         || existsb (fun x => (x <? 4) || (100000 <? x)) cs
         || existsb (fun x => (x <? 100) || (1000000 <? x)) md
         || (160 <? len ops) || negb (ops_ok ops)
      then [98]
      else run_ops kind (payload seed n) (N.to_nat h) cs md
             (mk_rst [false; false; false] (if keep =? 1 then 1 else 0) [None; None; None; None]) ops
  | _ => [98]
  end.
