(** Executable interface of the port-number allocator model ([Chmux/Alloc.v], component 71).
    input:  [lim; (op id)*]   op: 1 try_allocate | 2 new allocate() future [id], polled once | 3 poll future [id]
                                  | 4 drop future [id] | 5 drop one held port number
    output: per op the model's outputs (1 got a number / 0 none or pending / 2 ignored; for op 5: 1 followed by
            the ids of the futures woken by the release, ascending), then 77; at the end the executor's drain
            (only woken futures are polled) and [used; live futures; 78]. *)
From Remoc Require Import Lib.Base Chmux.Alloc.

Fixpoint insert_sorted (x : N) (l : list N) : list N :=
  match l with [] => [x] | y :: r => if x <=? y then x :: l else y :: insert_sorted x r end.
Definition sortN (l : list N) : list N := fold_right insert_sorted [] l.

Definition decode (op id : N) : option act :=
  match op with 1 => Some ATry | 2 => Some (AStart id) | 3 => Some (APoll id) | 4 => Some (ACancel id) | 5 => Some ADrop | _ => None end.

Fixpoint go (a : alloc) (l : list N) : list N :=
  match l with
  | op :: id :: r =>
      match decode op id with
      | Some x =>
          let '(a', o) := step a x in
          let o := match x, o with ADrop, 1 :: w => 1 :: sortN w | _, _ => o end in
          o ++ 77 :: go a' r
      | None => 2 :: 77 :: go a r
      end
  | _ =>
      let a' := drain (S (length (futs a))) a in
      [used a'; len (futs a'); 78]
  end.

Definition run_alloc (inp : list N) : list N :=
  match inp with
  | lim :: ops => if (lim =? 0) || (64 <? lim) then [98] else go (init lim) ops
  | _ => [98]
  end.
