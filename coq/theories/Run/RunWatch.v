(** Executable interface of the watch model for the correspondence check (component 15).

    Input:  mode p0 op*      mode 0: fault-free (predicted), mode 1: with connection faults ([96]:
                             not predicted, the harness oracle judges alone); p0 = initial payload
                             modes 2, 3: programs with per-receiver item size limits and watch::forward
                             (harness/src/watch_size.rs; outside Rch/Watch.v).  Mode 2 (every operation at
                             quiescence) is answered by Run/RunWatchSize.v, mode 3 is [96], oracle only
      0 p        Sender::send(p)                        -> 1 Ok / 0 Err
      1 p        Sender::send_modify(p)
      2          drop the sender
      3          Sender::subscribe()                    (new receiver id = number of receivers so far)
      4 r        clone receiver r
      5 r        drop receiver r
      6 r a b c  receiver r: borrow_and_update()        -> observation (see below)
      7 r a b c  receiver r: borrow()                   -> observation
      8 r a b c  receiver r: one poll of changed(), and borrow_and_update() if it was Ok
      9 r k      send (a clone of) receiver r to another endpoint (k picks the connection)
      10 k       send the sender to another endpoint
      11         quiescence barrier
      12 n       the harness yields n times (the forwarding tasks make partial progress)
      13 / 14    stall / unstall the transports (frames are held back)
      15 k       deliver k held-back frames per link
      (16 k      mode 1 only: connection k fails)
    An operation that is not possible (no such live receiver, no sender) prints 99.

    Exact and racy observations.  Between two barriers the forwarding tasks run whenever Tokio
    schedules them; the model does not predict that schedule.  [dirty] is set by every operation
    that can enable a forwarding step and cleared by a barrier (with unstalled transports), at which
    the model runs all forwarding steps to quiescence ([Watch.quiesce]: small steps).  An
    observation of a receiver on cell d is EXACT if the state is clean or d is the root cell (which
    only changes synchronously); the output is then the model's value:
         2 i+1 p            (2 0 0 for an Err value)              ops 6, 7
         2 code i+1 p       code 1 Ok (+ value) / 2 Closed / 3 Pending      op 8
    Otherwise it is RACY: the harness writes what the implementation showed into the annotation
    slots of the emitted input (a = 1: value with index b, payload c; a = 2: Err value; for op 8
    a = 1 Ok + value, 2 Closed, 3 Pending, 4 Ok + Err value; a = 0: not annotated) and prints
         1 1
    and the model prints 1 acc where acc = 1 iff the annotated observation is admissible:
    the index lies between a lower bound for the cell (its value at the last barrier, raised by
    every later observation on the cell or on a cell fed from it) and the latest index stored; the
    payload is the one stored under that index; [changed()] = Ok only with a value newer than the
    one the receiver has marked seen; Closed only after the sender was dropped and with the last
    value seen.  A poll of [changed()] is also treated as racy when the model does not know which
    value the receiver has marked seen (a receiver deserialized while dirty, until its first
    [borrow_and_update]).
    An exact poll of [changed()] is answered by the model's own version bookkeeping
    ([Watch.changed_res], rule T1) as long as every seen-marking of that receiver was an exact step
    of the model ([vok]); after a racy seen-marking it is answered from the index the receiver is
    known to have marked seen (in a correct channel a cell's version changes iff its index does).
    [send] in a dirty state with no live receiver handle on the sender's cell is preceded by an
    implicit unstall + barrier on both sides (its result depends on which forwarding tasks are
    still alive).
    At the end: unstall, barrier, then 77, the number of receivers and per receiver
         0                  dropped
         1 i+1 p code       live: current value, state of changed() (9: seen value unknown)
    A barrier after which the model is not quiescent (fuel exhausted; never observed) prints 95. *)
From Remoc Require Import Lib.Base Rch.Watch.
From Remoc Require Run.RunWatchSize.

Record rstate := mkRS {
  rst : state;
  dirty : bool;
  stalled : bool;
  sidx : list (option N);    (* per receiver: index of the value it has marked seen, if known *)
  floor : list N;            (* per cell: lower bound from racy observations since the last barrier *)
  vok : list bool;           (* per receiver: every seen-marking of this receiver was an exact step of the
                                model, so the model's own version bookkeeping ([rseen]) applies to it *)
}.

Definition nth_def {A} (l : list A) (i : nat) (d : A) : A := nth i l d.
Fixpoint set_nth {A} (l : list A) (i : nat) (x : A) : list A :=
  match l, i with
  | [], _ => []
  | _ :: r, O => x :: r
  | a :: r, S j => a :: set_nth r j x
  end.

Definition fuel_of (st : state) : nat := 8 * (S (ncell st)) + 64.

Definition do_quiesce (rs : rstate) : rstate * list N :=
  let st' := quiesce (fuel_of (rst rs)) (rst rs) in
  (mkRS st' false false (sidx rs) (map (fun _ => 0) (floor rs)) (vok rs),
   if quiescent st' then [] else [95]).

Definition barrier (rs : rstate) : rstate * list N :=
  if stalled rs then (rs, []) else do_quiesce rs.

Definition mark_dirty (rs : rstate) : rstate := mkRS (rst rs) true (stalled rs) (sidx rs) (floor rs) (vok rs).
Definition with_st (rs : rstate) (st : state) : rstate := mkRS st (dirty rs) (stalled rs) (sidx rs) (floor rs) (vok rs).

Definition exact_cell (rs : rstate) (d : nat) : bool := negb (dirty rs) || Nat.eqb d (root (rst rs)).

Definition lo_of (rs : rstate) (d : nat) : N := N.max (fst (cval (cells (rst rs) d))) (nth_def (floor rs) d 0).
Definition latest_idx (rs : rstate) : N := len (sent (rst rs)) - 1.

Fixpoint raise_floor (fuel : nat) (st : state) (fl : list N) (d : nat) (i : N) : list N :=
  match fuel with
  | O => fl
  | S f =>
      let fl' := set_nth fl d (N.max (nth_def fl d 0) i) in
      match cpar (cells st d) with
      | Some c => raise_floor f st fl' c i
      | None => fl'
      end
  end.

Definition payload_ok (rs : rstate) (i p : N) : bool :=
  match nth_error (sent (rst rs)) (N.to_nat i) with Some q => q =? p | None => false end.

(** is the annotated value admissible on cell [d]? *)
Definition value_adm (rs : rstate) (d : nat) (i p : N) : bool :=
  if exact_cell rs d then
    (i =? fst (cval (cells (rst rs) d))) && (p =? snd (cval (cells (rst rs) d))) && negb (cerr (cells (rst rs) d))
  else (lo_of rs d <=? i) && (i <=? latest_idx rs) && payload_ok rs i p.

Definition note_obs (rs : rstate) (r : nat) (d : nat) (i : N) (seen : bool) : rstate :=
  mkRS (rst rs) (dirty rs) (stalled rs)
       (if seen then set_nth (sidx rs) r (Some i) else sidx rs)
       (raise_floor (S (ncell (rst rs))) (rst rs) (floor rs) d i) (vok rs).

(** a seen-marking the model state did not follow *)
Definition unsync (rs : rstate) (r : nat) : rstate :=
  mkRS (rst rs) (dirty rs) (stalled rs) (sidx rs) (floor rs) (set_nth (vok rs) r false).

Definition val_out (c : cell) : list N := if cerr c then [0; 0] else [fst (cval c) + 1; snd (cval c)].
Definition nb (b : bool) : N := if b then 1 else 0.

(** ops 6 / 7 *)
Definition observe (rs : rstate) (r : nat) (upd_seen : bool) (a b c : N) : rstate * list N :=
  match live_rcv (rst rs) r with
  | None => (rs, [99])
  | Some x =>
      let d := rcell x in
      let cl := cells (rst rs) d in
      if exact_cell rs d then
        let st' := try_step (rst rs) (if upd_seen then Observe r else Borrow r) in
        let rs' := with_st rs st' in
        (if cerr cl then rs' else note_obs rs' r d (fst (cval cl)) upd_seen, 2 :: val_out cl)
      else
        match a with
        | 1 => (note_obs (if upd_seen then unsync rs r else rs) r d b upd_seen, [1; nb (value_adm rs d b c)])
        | _ => (rs, [1; 0])
        end
  end.

(** op 8 *)
Definition poll_changed (rs : rstate) (r : nat) (a b c : N) : rstate * list N :=
  match live_rcv (rst rs) r with
  | None => (rs, [99])
  | Some x =>
      let d := rcell x in
      let cl := cells (rst rs) d in
      match exact_cell rs d, nth_def (sidx rs) r None with
      | true, Some s =>
          (* the model's own answer (versions, rule T1) where its bookkeeping applies, else by index *)
          let ok := if nth_def (vok rs) r false
                    then match changed_res (rst rs) r with ChOk => true | _ => false end
                    else negb (s =? fst (cval cl)) in
          if ok then
            let st' := try_step (rst rs) (Observe r) in
            (note_obs (with_st rs st') r d (fst (cval cl)) true, 2 :: 1 :: val_out cl)
          else (rs, [2; if cclosed cl then 2 else 3; 0; 0])
      | ex, so =>
          let newer := match so with Some s => s <? b | None => true end in
          let acc :=
            match a with
            | 1 => value_adm rs d b c && newer
            | 2 => if ex then cclosed cl
                   else match sender (rst rs) with
                        | Some _ => false
                        | None => match so with Some s => s =? latest_idx rs | None => true end
                        end
            | 3 => if ex then negb (cclosed cl)
                   else match so with Some s => lo_of rs d <=? s | None => true end
            | _ => false
            end in
          let rs' := match a with 1 => note_obs (unsync rs r) r d b true | 4 => unsync rs r | _ => rs end in
          (rs', [1; nb acc])
      end
  end.

(** a new receiver: what it has marked seen *)
Definition push_sidx (rs : rstate) (st' : state) (s : option N) (v : bool) : rstate :=
  mkRS st' (dirty rs) (stalled rs) (sidx rs ++ [s]) (floor rs) (vok rs ++ [v]).

Definition enabled (st : state) (a : action) : bool := match step st a with Some _ => true | None => false end.

Fixpoint run_ops (fuel : nat) (rs : rstate) (l : list N) : list N :=
  match fuel with
  | O => [98]
  | S f =>
      let st := rst rs in
      match l with
      | [] =>
          (* final: unstall, barrier, dump *)
          let '(rs', o) := do_quiesce rs in
          let st' := rst rs' in
          o ++ 77 :: N.of_nat (nrcv st') ::
          flat_map (fun r =>
            let x := rcvs st' r in
            if rlive x then
              let cl := cells st' (rcell x) in
              1 :: val_out cl ++
              [match nth_def (sidx rs') r None with
               | Some s =>
                   if nth_def (vok rs') r false
                   then match changed_res st' r with ChOk => 1 | ChClosed => 2 | ChPending => 3 end
                   else if negb (s =? fst (cval cl)) then 1 else if cclosed cl then 2 else 3
               | None => 9
               end]
            else [0]) (seq 0 (nrcv st'))
      | 0 :: p :: r =>
          match sender st with
          | None => 99 :: run_ops f rs r
          | Some c =>
              let '(rs1, o) := if dirty rs && negb (rx_at st c) then do_quiesce rs else (rs, []) in
              let ok := send_ok (rst rs1) in
              o ++ nb ok :: run_ops f (mark_dirty (with_st rs1 (try_step (rst rs1) (Send p)))) r
          end
      | 1 :: p :: r =>
          if enabled st (SendModify p) then run_ops f (mark_dirty (with_st rs (try_step st (SendModify p)))) r
          else 99 :: run_ops f rs r
      | 2 :: r =>
          if enabled st DropSender then run_ops f (mark_dirty (with_st rs (try_step st DropSender))) r
          else 99 :: run_ops f rs r
      | 3 :: r =>
          match sender st with
          | Some c => run_ops f (push_sidx rs (try_step st Subscribe) (Some (fst (cval (cells st c)))) true) r
          | None => 99 :: run_ops f rs r
          end
      | 4 :: q :: r =>
          let q := N.to_nat q in
          if enabled st (CloneRx q) then run_ops f (push_sidx rs (try_step st (CloneRx q)) (nth_def (sidx rs) q None) (nth_def (vok rs) q false)) r
          else 99 :: run_ops f rs r
      | 5 :: q :: r =>
          let q := N.to_nat q in
          if enabled st (DropRx q) then run_ops f (mark_dirty (with_st rs (try_step st (DropRx q)))) r
          else 99 :: run_ops f rs r
      | 6 :: q :: a :: b :: c :: r =>
          let '(rs', o) := observe rs (N.to_nat q) true a b c in o ++ run_ops f rs' r
      | 7 :: q :: a :: b :: c :: r =>
          let '(rs', o) := observe rs (N.to_nat q) false a b c in o ++ run_ops f rs' r
      | 8 :: q :: a :: b :: c :: r =>
          let '(rs', o) := poll_changed rs (N.to_nat q) a b c in o ++ run_ops f rs' r
      | 9 :: q :: _ :: r =>
          let q := N.to_nat q in
          match live_rcv st q with
          | Some x =>
              let d := rcell x in
              let s := if exact_cell rs d then Some (fst (cval (cells st d))) else None in
              let rs' := push_sidx rs (try_step st (TransferRx q)) s (exact_cell rs d) in
              run_ops f (mark_dirty (mkRS (rst rs') (dirty rs') (stalled rs') (sidx rs') (floor rs' ++ [0]) (vok rs'))) r
          | None => 99 :: run_ops f rs r
          end
      | 10 :: _ :: r =>
          if enabled st TransferTx then
            let rs' := with_st rs (try_step st TransferTx) in
            run_ops f (mark_dirty (mkRS (rst rs') (dirty rs') (stalled rs') (sidx rs') (floor rs' ++ [0]) (vok rs'))) r
          else 99 :: run_ops f rs r
      | 11 :: r => let '(rs', o) := barrier rs in o ++ run_ops f rs' r
      | 12 :: _ :: r => run_ops f (mark_dirty rs) r
      | 13 :: r => run_ops f (mkRS st true true (sidx rs) (floor rs) (vok rs)) r
      | 14 :: r => run_ops f (mkRS st true false (sidx rs) (floor rs) (vok rs)) r
      | 15 :: _ :: r => run_ops f (mark_dirty rs) r
      | _ => [98]
      end
  end.

Definition run_watch (inp : list N) : list N :=
  match inp with
  | 0 :: p :: ops =>
      run_ops (S (length ops)) (mkRS (init p) false false [Some 0] [0] [true]) ops
  | 1 :: _ => [96]
  | 2 :: r => RunWatchSize.run_watch_size r
  | 3 :: _ => [96]
  | _ => [98]
  end.
