(** Executable interface of the remote read/write lock model (component 17): TRACE ACCEPTANCE.

    Input (see harness/src/rwlock.rs):
      kind v0 seed ncli cache_of*ncli nops (op c arg)*nops  SEP  (code val)*(ncli*nops)
    kind 0 = every command is followed by a quiescence barrier; after the separator the harness
    appends what it observed after each barrier: per client a status code and a value
      0 idle | 1 holds a read guard showing val | 2 holds a write guard showing val
      3 read pending | 4 write pending | 5 commit pending.
    The model side tracks the SET of model states compatible with the observations so far: per
    command it applies the user action (a no-op when not enabled, as in the harness), explores every
    interleaving of internal actions up to quiescence ([closure]: all quiescent states reachable),
    and keeps the states whose observation equals the recorded one.  Output [1] = the recorded
    history is a history of the model under [current_fix]; [0; j; ...] = no model run produces the
    observation after command j.  Every state the search visits is produced by [RwLock.step], i.e.
    is a state of the small-step system the theorems of Props/C17.v quantify over.
    Kind 4 = the same with cancelled write requests (command 6), see [accept_g] below.
    Other kinds (un-barriered races, multi-thread runs, kind 3 = barriered with cancelled read
    requests) are judged by the harness oracle only: [1]. *)
From Remoc Require Import Lib.Base Robj.RwLock.

(** the fetch variant of the code under /repo (flip to [FixClear] when the repair of F5 lands) *)
Definition current_fix : fixmode := FixClear.

Definition SEP : N := 777777777.

Definition nn (n : nat) : N := N.of_nat n.

(** canonical encoding of a state, used only to recognise states already visited *)
Definition enc_holder (h : holder) : list N := match h with HC c => [0; nn c] | HM m => [1; nn m] end.
Definition enc_pc (p : cpc) : list N :=
  match p with
  | CIdle => [0] | RQueuedR => [1] | RHasR => [2] | RQueuedW => [3] | RHasW => [4] | RSending => [5]
  | RWaitVal => [6] | RGot g v i => [7; g; v; i] | RHold => [8] | WSending => [9] | WWait => [10]
  | WGot v i => [11; v; i] | WHold v i => [12; v; i] | WCommitWait v => [13; v] | WConfirmed => [14]
  end.
Definition enc_cl (cl : client) : list N := nn (c_cache cl) :: c_start cl :: enc_pc (c_pc cl).
Definition enc_mon (m : mon) : list N :=
  [m_gen m; if m_seen m then 1 else 0;
   match m_pc m with MWatch => 0 | MQueued => 1 | MHold => 2 | MDone => 3 end].
Definition enc_cache (k : cache) : list N :=
  (match k_entry k with Some e => [1; e_gen e; e_val e; e_idx e; nn (e_mon e)] | None => [0] end)
  ++ [nn (length (k_rd k))] ++ flat_map enc_holder (k_rd k)
  ++ (match k_wr k with Some h => 1 :: enc_holder h | None => [0] end)
  ++ [nn (length (k_q k))]
  ++ flat_map (fun x : bool * holder => (if fst x then 1 else 0) :: enc_holder (snd x)) (k_q k)
  ++ [nn (length (k_mons k))] ++ flat_map enc_mon (k_mons k).
Definition enc (s : state) : list N :=
  [o_val s; o_gen s; if o_inv s then 1 else 0]
  ++ (match o_pc s with OIdle => [0] | OWaitDrop w => [1; nn w] | OWaitNew w => [2; nn w] end)
  ++ (match o_sig s with SNone => [0] | SCommit v => [1; v] | SDrop => [2] end)
  ++ [nn (length (o_wq s))] ++ map nn (o_wq s) ++ [nn (length (o_rq s))] ++ map nn (o_rq s)
  ++ flat_map enc_cl (clients s) ++ flat_map enc_cache (caches s)
  ++ [len (o_log s)] ++ o_log s ++ [g_commits s].

Fixpoint list_eqb (a b : list N) : bool :=
  match a, b with
  | [], [] => true
  | x :: a', y :: b' => (x =? y) && list_eqb a' b'
  | _, _ => false
  end.
Definition mem (e : list N) (l : list (list N)) : bool := existsb (list_eqb e) l.

Definition successors (fx : fixmode) (s : state) : list state :=
  flat_map (fun a => match step fx s a with Some s' => [s'] | None => [] end) (internal_actions s).

(** all quiescent states reachable from [todo] by internal actions (depth first); [None] = out of fuel *)
Fixpoint closure (fx : fixmode) (fuel : nat) (todo : list state) (seen : list (list N))
         (quiet : list state) : option (list state) :=
  match fuel with
  | O => None
  | S f =>
      match todo with
      | [] => Some quiet
      | s :: rest =>
          let e := enc s in
          if mem e seen then closure fx f rest seen quiet
          else match successors fx s with
               | [] => closure fx f rest (e :: seen) (s :: quiet)
               | succ => closure fx f (succ ++ rest) (e :: seen) quiet
               end
      end
  end.

Definition obs_cl (s : state) (cl : client) : list N :=
  match c_pc cl with
  | CIdle => [0; 0]
  | RHold => [1; match guard_value s cl with Some (v, _) => v | None => 999999 end]
  | WHold v _ => [2; v]
  | RQueuedR | RHasR | RQueuedW | RHasW | RSending | RWaitVal | RGot _ _ _ => [3; 0]
  | WSending | WWait | WGot _ _ => [4; 0]
  | WCommitWait _ | WConfirmed => [5; 0]
  end.
Definition obs (s : state) : list N := flat_map (obs_cl s) (clients s).

Definition act_of (op c arg : N) : option action :=
  let c := N.to_nat c in
  match op with
  | 0 => Some (AInvRead c)
  | 1 => Some (AInvWrite c)
  | 2 => Some (ARelease c)
  | 3 => Some (ACommit c arg)
  | 4 => Some (ADropW c)
  | _ => None
  end.

Fixpoint take {A} (n : nat) (l : list A) : list A * list A :=
  match n, l with
  | O, _ => ([], l)
  | S n', x :: r => let '(a, b) := take n' r in (x :: a, b)
  | S _, [] => ([], [])
  end.

Definition closure_fuel : nat := N.to_nat 200000.

(** one command: user action on every tracked state, closure, filter by the observation *)
Definition accept_step (fx : fixmode) (states : list state) (a : action) (o : list N)
  : option (list state * list state) :=
  match closure fx closure_fuel (map (fun s => step' fx s a) states) [] [] with
  | None => None
  | Some quiet => Some (quiet, filter (fun s => list_eqb (obs s) o) quiet)
  end.

(** rejected after command [j]: [0; j] followed by one observation the model does allow there *)
Fixpoint accept (fx : fixmode) (ncli : nat) (j : N) (states : list state) (ops obsv : list N) : list N :=
  match ops with
  | op :: c :: arg :: rest =>
      match act_of op c arg with
      | None => [98]
      | Some a =>
          let '(o, obsv') := take (2 * ncli) obsv in
          match accept_step fx states a o with
          | None => [99]
          | Some (quiet, []) => 0 :: j :: match quiet with s :: _ => obs s | [] => [] end
          | Some (_, sts) => accept fx ncli (j + 1) sts rest obsv'
          end
      end
  | [] => [1]
  | _ => [98]
  end.

Fixpoint split_sep (l : list N) : list N * list N :=
  match l with
  | [] => ([], [])
  | x :: r => if x =? SEP then ([], r) else let '(a, b) := split_sep r in (x :: a, b)
  end.

(** ** kind 4: barriered cases with CANCELLED WRITE REQUESTS.
    Command 6 on client c drops the pending future of [RwLock::write]: [value_rx], [new_value_tx] and
    [confirm_rx] are dropped with it, the [WriteRequest] itself stays where it is; the owner serves
    it like any other one (invalidate, wait for all copies, new generation, hand out) and then finds
    [new_value_tx] dropped -- exactly what it finds when a write guard is dropped without a commit.
    The model has no cancel action; the search represents the cancelled request by a GHOST: the
    model client that issued it keeps running (and is invisible from then on), the harness client
    continues on a spare idle model client of the same cache, and the user action [ADropW g] is
    taken for a ghost g as soon as it is enabled.  Every state visited is still produced by
    [RwLock.step].  (A request whose [send] is still waiting for room in the request channel when
    it is cancelled never reaches the owner; its ghost is served when no copy of the current
    generation exists yet, which cannot be observed at a barrier.)
    Cancelled READ requests are not representable this way (the future holds the cache write lock):
    kind 3, oracle only. *)
Definition successors_g (fx : fixmode) (ghosts : list nat) (s : state) : list state :=
  successors fx s
  ++ flat_map (fun g => match step fx s (ADropW g) with Some s' => [s'] | None => [] end) ghosts.

Fixpoint closure_g (fx : fixmode) (ghosts : list nat) (fuel : nat) (todo : list state)
         (seen : list (list N)) (quiet : list state) : option (list state) :=
  match fuel with
  | O => None
  | S f =>
      match todo with
      | [] => Some quiet
      | s :: rest =>
          let e := enc s in
          if mem e seen then closure_g fx ghosts f rest seen quiet
          else match successors_g fx ghosts s with
               | [] => closure_g fx ghosts f rest (e :: seen) (s :: quiet)
               | succ => closure_g fx ghosts f (succ ++ rest) (e :: seen) quiet
               end
      end
  end.

Definition obs_g (cmap : list nat) (s : state) : list N :=
  flat_map (fun m => match nth_error (clients s) m with Some cl => obs_cl s cl | None => [98; 0] end) cmap.

Fixpoint set_nth {A} (n : nat) (x : A) (l : list A) : list A :=
  match l, n with
  | [], _ => []
  | _ :: r, O => x :: r
  | y :: r, S n' => y :: set_nth n' x r
  end.

(** [nx] = number of cancel commands seen so far (the k-th one owns spare slot [ncli + k]);
    [prev] = the observation after the previous command *)
Fixpoint accept_g (fx : fixmode) (ncli : nat) (j : N) (nx : nat) (cmap ghosts : list nat) (prev : list N)
         (states : list state) (ops obsv : list N) : list N :=
  match ops with
  | op :: c :: arg :: rest =>
      let cn := N.to_nat c in
      let '(o, obsv') := take (2 * ncli) obsv in
      let slot := nth cn cmap O in
      let cancel := (op =? 6) && (nth (2 * cn) prev 0 =? 4) in
      let cmap' := if cancel then set_nth cn (ncli + nx)%nat cmap else cmap in
      let ghosts' := if cancel then slot :: ghosts else ghosts in
      let nx' := if op =? 6 then S nx else nx in
      let start :=
        if op =? 6 then Some states
        else match act_of op (nn slot) arg with
             | Some a => Some (map (fun s => step' fx s a) states)
             | None => None
             end in
      match start with
      | None => [98]
      | Some st =>
          match closure_g fx ghosts' closure_fuel st [] [] with
          | None => [99]
          | Some quiet =>
              match filter (fun s => list_eqb (obs_g cmap' s) o) quiet with
              | [] => 0 :: j :: match quiet with s :: _ => obs_g cmap' s | [] => [] end
              | sts => accept_g fx ncli (j + 1) nx' cmap' ghosts' o sts rest obsv'
              end
          end
      end
  | [] => [1]
  | _ => [98]
  end.

(** the caches of the spare clients: one per cancel command, the cache of the cancelled client *)
Fixpoint spare_caches (cache_of : list nat) (ops : list N) : list nat :=
  match ops with
  | op :: c :: _ :: rest =>
      (if op =? 6 then [nth (N.to_nat c) cache_of O] else []) ++ spare_caches cache_of rest
  | _ => []
  end.

Definition run_rwlock_g (fx : fixmode) (v0 : N) (n : nat) (rest : list N) : list N :=
  let '(cof, rest1) := take n rest in
  match rest1 with
  | nops :: rest2 =>
      let '(ops, obsv) := split_sep rest2 in
      if negb (len ops =? 3 * nops) then [98]
      else
        let cache_of := map N.to_nat cof in
        let nk := S (fold_right Nat.max O cache_of) in
        accept_g fx n 0 O (seq 0 n) [] (repeat 0 (2 * n))
                 [init v0 nk (cache_of ++ spare_caches cache_of ops)] ops obsv
  | [] => [98]
  end.

Definition run_rwlock_fx (fx : fixmode) (inp : list N) : list N :=
  match inp with
  | kind :: v0 :: seed :: ncli :: rest =>
      if kind =? 4 then run_rwlock_g fx v0 (N.to_nat ncli) rest
      else if negb (kind =? 0) then [1]
      else
        let n := N.to_nat ncli in
        let '(cof, rest1) := take n rest in
        match rest1 with
        | nops :: rest2 =>
            let '(ops, obsv) := split_sep rest2 in
            if negb (len ops =? 3 * nops) then [98]
            else
              let cache_of := map N.to_nat cof in
              let nk := S (fold_right Nat.max O cache_of) in
              accept fx n 0 [init v0 nk cache_of] ops obsv
        | [] => [98]
        end
  | _ => [98]
  end.

Definition run_rwlock (inp : list N) : list N := run_rwlock_fx current_fix inp.
