(** Executable big-step interface of the port-flow model for the correspondence check.
    A case is a configuration and a list of big steps; after each big step the internal actions of
    the two endpoints run to quiescence ([settle]) in a fixed order; frame delivery over the
    transport and consumption by the receiver happen only when the case says so.  Every big step is
    a list of small steps of [PortFlow.step_opt], so every behaviour validated against the
    implementation is a behaviour of the system the theorems quantify over. *)
From Remoc Require Import Lib.Base Chmux.Parse Chmux.Recv Chmux.PortFlow.
From RecordUpdate Require Import RecordUpdate.

(** [TReq] of a port request that cannot make progress is not scheduled (it would only stutter) *)
Definition req_productive (s : st) : bool :=
  match op s with
  | SData _ _ _ _ a _ => (a =? 0) && (match closed s with Some _ => true | None => 1 <=? pool s end)
  | SPorts _ _ a =>
      (a <? 4) && (match closed s with Some _ => true | None => (4 <=? pool s + a) || negb (a =? 0) end)
  | _ => false
  end.

Fixpoint settle (fuel : nat) (sink_ready : bool) (s : st) : st :=
  match fuel with
  | O => s
  | S fuel' =>
      let cands :=
        (if req_productive s then [TReq] else []) ++ [TEmit] ++ (if sink_ready then [TMux] else []) ++ [RFlush; TCredMux] in
      let fix first_enabled (l : list act) : option st :=
        match l with
        | [] => None
        | a :: l' => match step_opt s a with Some s' => Some s' | None => first_enabled l' end
        end in
      match first_enabled cands with
      | Some s' => settle fuel' sink_ready s'
      | None => s
      end
  end.

Fixpoint repeat_act (n : nat) (a : act) (s : st) : st :=
  match n with O => s | S n' => match step_opt s a with Some s' => repeat_act n' a s' | None => s end end.

(** bytes of a generated payload: [len] bytes starting at [fill] *)
Fixpoint payload (n : nat) (fill : N) : list N :=
  match n with O => [] | S n' => (fill mod 256) :: payload n' (fill + 1) end.

Fixpoint iota (n : nat) (from : N) : list N :=
  match n with O => [] | S n' => from :: iota n' (from + 1) end.

Definition enc_frame (f : frame) : list N :=
  match f with
  | FData first last b => [1; (if first then 1 else 0); (if last then 1 else 0); len b] ++ b
  | FPorts first last ps => [2; (if first then 1 else 0); (if last then 1 else 0); len ps]
  | FFin => [3]
  end.

Definition enc_dmsg (d : dmsg) : list N :=
  match d with
  | DData b => [1; len b] ++ b
  | DStream b => [2; len b] ++ b
  | DPorts ps => [3; len ps]
  | DErrPorts => [4]
  end.

Definition op_code (o : sop) : N :=
  match o with SIdle => 0 | SData _ _ _ _ _ _ => 1 | SChunkIdle _ _ => 2 | SPorts _ _ _ => 1 end.

Record rs := { rs_st : st; rs_sink : bool; rs_out : list N }.

(** one big step; [cl] is the list of frames/credits delivered before, needed to tell new
    transport items from old ones when the link also loses items *)
Definition big (r : rs) (code : N) (args : list N) : rs * list N :=
  let s := rs_st r in
  let sr := rs_sink r in
  let fin (s' : st) (sr' : bool) :=
      let s'' := settle 3000 sr' s' in
      ({| rs_st := s''; rs_sink := sr'; rs_out := [] |}, s'') in
  let '(r', s1, credlink_removed, link_removed) :=
    match code, args with
    | 1, [n; fill] => let '(r', s') := fin (step s (USend (payload (N.to_nat n) fill))) sr in (r', s', 0%nat, 0%nat)
    | 2, [n; fill; slots] =>
        let '(r', s') := fin (step s (UTrySend (payload (N.to_nat n) fill) slots)) sr in (r', s', 0%nat, 0%nat)
    | 3, [] => let '(r', s') := fin (step s UChunkStart) sr in (r', s', 0%nat, 0%nat)
    | 4, [n; fill; f] =>
        let '(r', s') := fin (step s (UChunk (payload (N.to_nat n) fill) (negb (f =? 0)))) sr in (r', s', 0%nat, 0%nat)
    | 6, [] => let '(r', s') := fin (step s UCancel) sr in (r', s', 0%nat, 0%nat)
    | 7, [n] => let '(r', s') := fin (step s (UConnect (iota (N.to_nat n) 1))) sr in (r', s', 0%nat, 0%nat)
    | 8, [k] =>
        let k' := Nat.min (N.to_nat k) (length (link s)) in
        let '(r', s') := fin (repeat_act k' TLink s) sr in (r', s', 0%nat, k')
    | 9, [k] =>
        let k' := Nat.min (N.to_nat k) (length (cred_link s)) in
        let '(r', s') := fin (repeat_act k' TCredLink s) sr in (r', s', k', 0%nat)
    | 10, [] =>
        (* the receiver pumps: takes everything that is in its queue *)
        let fix pump (fuel : nat) (s : st) : st :=
          match fuel with
          | O => s
          | S fuel' =>
              match step_opt s RConsume with
              | Some s' => pump fuel' (settle 3000 sr s')
              | None => s
              end
          end in
        let '(r', s') := fin (pump 3000%nat s) sr in (r', s', 0%nat, 0%nat)
    | 13, [b] => let '(r', s') := fin s (negb (b =? 0)) in (r', s', 0%nat, 0%nat)
    | 14, [] => let '(r', s') := fin (step s UDropTx) sr in (r', s', 0%nat, 0%nat)
    | _, _ => (r, s, 0%nat, 0%nat)
    end in
  let new_frames := skipn (length (link s) - link_removed) (link s1) in
  let new_creds := skipn (length (cred_link s) - credlink_removed) (cred_link s1) in
  (r',
   [100] ++ flat_map enc_frame new_frames ++
   [101] ++ new_creds ++
   [102] ++ flat_map enc_dmsg (skipn (length (delivered s)) (delivered s1)) ++
   [103; op_code (op s1); len (completed s1); (if finished (rcv s1) then 1 else 0)]).

(** ops are encoded as [code; nargs; args...] *)
Fixpoint run_ops (fuel : nat) (r : rs) (l : list N) : list N :=
  match fuel with
  | O => [99]
  | S fuel' =>
      match l with
      | code :: n :: rest =>
          let args := firstn (N.to_nat n) rest in
          let rest' := skipn (N.to_nat n) rest in
          let '(r', o) := big r code args in
          o ++ run_ops fuel' r' rest'
      | _ => []
      end
  end.

(** input: [chunk; limit; cap_s; cap_r; max_data; max_ports; ops...] *)
Definition run_port (inp : list N) : list N :=
  match inp with
  | ck :: lim :: cs :: cr :: md :: mp :: ops =>
      (* max_ports >= 1000 marks a consumer that gives up chunked messages (not a protocol-following consumer): oracle only *)
      if 1000 <=? mp then [96] else
      let c := {| chunk := ck; limit := lim; cap_s := cs; cap_r := cr |} in
      run_ops (S (length ops)) {| rs_st := init c md mp; rs_sink := true; rs_out := [] |} ops
  | _ => [98]
  end.
