(** Executable interface of the remote-call model for the correspondence check (component 12).

    Input: mode flav spawn pol ncl cmode defer lim (op a b c d)*   -- see harness/src/rtc.rs.
      mode 0: scripted case.  Every op is a user action of the small-step system [Server.step]
              followed by [settle]: internal actions in a fixed order until none is enabled (the
              quiescence barrier of the harness).  Every behaviour printed here is therefore a run of
              the small-step system the theorems of [Props/C12.v] and [Props/C19.v] quantify over.
      mode 1: concurrent ("race:") case, judged by the oracle only; output 1.
      mode 9: "check history": 9 s0 (tag id meth x val)*  -- the verified linearizability checker
              [Lin.linearizable] on a recorded client history; output 1 (linearizable) or 0.
    cmode 2: LOCAL -- the callers live in the process of the callee; requests and replies travel through
              local channels: nothing is serialized (the flags about undecodable / oversized requests and
              replies mean nothing, the later methods 6/7 do not exist) and the connection plays no part
              (op 3 is refused).
    method b + 8 * layout (b <= 5, layout <= 3): the scripted method b, declared in the harness traits with its
              attributes in another textual layout; the model has one method b.
    op 7 (stop, once per case): the callee goes away -- [AStop true] for the rtc servers (the future of
              [serve()] is dropped); for the remote functions the provider is dropped: the scheduler below
              lets the provider task notice that ([AStop false]) whenever it is at its [select!].
    flag 256 (not together with 64 / 128, clonable clients only): the call future is PARKED after its first
              poll -- the caller keeps it but awaits other calls -- until op 8 (resume) or a drop.  The
              request travels, the call is served and answered as usual; the schedule below merely does not
              let the call future complete ([AReturn]) while it is parked, and the request channel cannot end
              while a parked future holds its clone of the client.
    op 9 L   (RFn, 1 <= L <= 64, before the stop op): [RFnProvider::set_max_concurrency(L)].  The provider
              keeps a semaphore per limit setting; the task of an invocation takes a permit of the semaphore
              in force when its request was received before it calls the function, and returns it when the
              function returns.  In the schedule below a task that has not started runs only when fewer than
              that many tasks of its setting are executing (waiters are served in order).
    The target is the counter object of the harness: state N, get = (s + x) mod P,
    add: s' = (3 s + x + 1) mod P returning s', take = (5 s + x) mod P. *)
From Remoc Require Import Lib.Base Rtc.Lin Rtc.Server.
From RecordUpdate Require Import RecordUpdate.

Definition P : N := 1000003.

(** argument of a call: x and the script flags *)
Definition arg : Type := (N * N)%type.
Definition ccall := call arg.

Definition apply_obj (s : N) (c : ccall) : N * N :=
  let x := fst (c_arg c) in
  match c_kind c with
  | KRef => (s, (s + x) mod P)
  | KMut => let s2 := (s * 3 + x + 1) mod P in (s2, s2)
  | KVal => (s, (s * 5 + x) mod P)
  end.

Definition flag (c : ccall) (b : N) : bool := N.testbit (snd (c_arg c)) b.

(** flag 16 (bit 4): the reply exceeds the client's max_reply_size (only if a limit is set) *)
Definition too_big_obj (lim : N) (c : ccall) (r : N) : bool := flag c 4 && negb (lim =? 0).

Definition csys := sys N arg N.
Definition cstep (lim : N) : csys -> action arg -> csys := step apply_obj (too_big_obj lim).

(** methods 6 and 7 exist only in the client's (later) version of the interface *)
Definition kind_of_meth (m : N) : kind :=
  match m with 0 | 1 | 6 => KRef | 2 | 3 | 7 => KMut | _ => KVal end.

Definition mk_call (rfn : bool) (m x fl : N) : ccall :=
  mkCall (kind_of_meth m) m (x, fl) (rfn || N.odd m) (N.testbit fl 2 || (5 <? m)) (N.testbit fl 5).

(** ** the internal schedule of a big step *)
Record rstate := mkR {
  r_sys : csys;
  r_open : list (N * N);          (* gates that were opened: (call id, gate) *)
  r_ids : list (option N);        (* call op number -> call id (None: the call was not issued) *)
  r_stop : bool;                  (* the stop op was used *)
  r_parked : list N;              (* calls whose future is parked *)
  r_lims : list N;                (* RFn: the concurrency limits that were set, newest first *)
  r_tgen : list (N * N);          (* RFn: call id -> number of limit settings before it was made *)
}.

#[global] Instance eta_rstate : Settable _ := settable! mkR <r_sys; r_open; r_ids; r_stop; r_parked; r_lims; r_tgen>.

(** what the schedule of a big step depends on besides the state *)
Record env := mkE {
  e_cap : N; e_local : bool; e_open : list (N * N); e_gone : bool; e_rfn : bool;
  e_parked : list N; e_lims : list N; e_tgen : list (N * N);
}.

Definition mem (i : N) (l : list N) : bool := existsb (N.eqb i) l.
Definition remove_n (i : N) (l : list N) : list N := filter (fun j => negb (j =? i)) l.

Fixpoint find_idxi {A} (f : N -> A -> bool) (l : list A) (k : N) : option N :=
  match l with
  | [] => None
  | x :: t => if f k x then Some k else find_idxi f t (k + 1)
  end.

(** the limit setting a call belongs to (counted from the oldest, 0 = the default), and its limit *)
Definition gen_of (en : env) (i : N) : N :=
  match find (fun p => fst p =? i) (e_tgen en) with Some p => snd p | None => 0 end.
Definition limit_of (en : env) (g : N) : N :=
  if g =? 0 then 32 else nth (N.to_nat (g - 1)) (rev (e_lims en)) 32.
Definition executing (h : handler N arg N) : bool := match h_ph h with PNew => false | _ => true end.
(** a permit of its semaphore is free for the task of an invocation that has not started *)
Definition permit (en : env) (s : csys) (h : handler N arg N) : bool :=
  negb (e_rfn en) || executing h ||
  let g := gen_of en (q_cell (h_req h)) in
  (len (filter (fun t => executing t && (gen_of en (q_cell (h_req t)) =? g)) (tasks s)) <? limit_of en g).


Definition gate_open (op : list (N * N)) (i g : N) : bool :=
  existsb (fun p => (fst p =? i) && (snd p =? g)) op.

Definition h_can (s : csys) (op : list (N * N)) (h : handler N arg N) : bool :=
  let i := q_cell (h_req h) in
  let c := q_call (h_req h) in
  (negb (c_nocancel c) && is_closed s i) ||
  match h_ph h with
  | PNew => match target s with Some _ => true | None => false end
  | PRun _ => negb (flag c 0) || gate_open op i 1
  | PApplied _ => negb (flag c 1) || gate_open op i 2
  end.

Definition loop_can (s : csys) (op : list (N * N)) : bool :=
  match loop s with
  | LIdle => (0 <? errq s) || match queue s with [] => false | _ => true end
  | LWait _ LkWrite => negb (wr s) && (rd s =? 0)
  | LWait _ _ => negb (wr s)
  | LRun h => h_can s op h
  | LDrain => (0 <? errq s) || match tasks s, sends s with [], [] => true | _, _ => false end
  | LDone _ => false
  end.

Fixpoint find_idx {A} (f : A -> bool) (l : list A) (k : N) : option N :=
  match l with
  | [] => None
  | x :: t => if f x then Some k else find_idx f t (k + 1)
  end.

Definition loop_idle (s : csys) : bool := match loop s with LIdle => true | _ => false end.

(** ** the bounded request channel

    The request channel (a [tokio] mpsc channel inside [rch::mpsc]) holds at most [cap] requests:
    1 for the remote functions (fixed by [rfn]), the size given to [Server::new] for the rtc servers
    (512 in the harness: more than a case has ops).  [Server.step] lets requests travel whenever the
    schedule says so; the schedule of a big step printed here respects the bound:
      local callers   -- [req_tx.send(req).await] waits for a free slot (FIFO): the request of a call
                         stays with the call future ([CInit]) until then; a future dropped meanwhile
                         never sends its request;
      remote callers  -- the caller's end never waits (the request is on its way at once), the task at
                         the callee's endpoint that decodes the requests of a port and forwards them
                         into the channel does: it decodes one request, waits for a free slot, and only
                         then looks at the port again.  A request behind it stays undecoded -- an
                         undecodable request is noticed (its caller fails, the receive error is
                         queued) only when its turn has come.  Requests that have arrived are not lost
                         with the connection: a cut first lets them through.
    A channel whose receiver is gone ([LDone]) refuses at once. *)
Definition is_item (x : qitem arg) : bool := match x with QReq _ | QBad => true | _ => false end.
Definition queued (s : csys) : N := len (filter is_item (queue s)).
Definition chan_room (cap : N) (s : csys) : bool :=
  (queued s + len (wire s) <? cap) || is_done (loop s).
Definition fwd_room (cap : N) (s : csys) : bool :=
  (queued s <? cap) || is_done (loop s).
(** a local call future can hand over its request now (or learns at once that it cannot be sent at all) *)
Definition can_send (cap : N) (local : bool) (s : csys) (cl : N) : bool :=
  negb local || chan_room cap s || cut s || qclosed s || negb (client_live s cl).

(** [gone]: the provider of the remote function has been dropped; its task notices that when it is at
    its [select!] (first branch, biased) *)
Definition next_action (en : env) (s : csys) : option (action arg) :=
  let cap := e_cap en in
  let local := e_local en in
  let op := e_open en in
  let gone := e_gone en in
  (* the oldest call future that still holds its request; later ones wait behind it *)
  (* (a parked call future that still holds its request learnt at its first poll that the request cannot be
     sent; the caller sees that when it looks at the future again) *)
  match match find_idxi (fun i c => negb (mem i (e_parked en)) && match cr_st c with CInit => true | _ => false end) (calls s) 0 with
        | Some i => match get_call s i with
                    | Some c => if can_send cap local s (cr_client c) then Some i else None
                    | None => None
                    end
        | None => None
        end with
  | Some i => Some (ASend i)
  | None =>
  match find_idx (fun c => match cr_st c with CDropped => negb (cr_closed c) | _ => false end) (calls s) 0 with
  | Some i => Some (ANotifyClose i)
  | None =>
  match (match wire s with _ :: _ => local || fwd_room cap s | [] => false end) with
  | true => Some (ADeliverReq 0)
  | false =>
  if gone && loop_idle s then Some (AStop false) else
  if loop_can s op then Some ALoop else
  match find_idx (fun h => h_can s op h && permit en s h) (tasks s) 0 with
  | Some k => Some (ATask k)
  | None =>
  match sends s with
  | _ :: _ => Some (ASendDone 0)
  | [] =>
  match find_idx (fun c => match cr_slot c with SVal _ => true | _ => false end) (calls s) 0 with
  | Some i =>
      match get_call s i with
      | Some c => if flag (cr_call c) 3 then Some (ALoseReply i) else Some (ADeliverReply i)
      | None => None
      end
  | None =>
  match find_idxi (fun i c => negb (mem i (e_parked en)) &&
                           match cr_st c, cr_slot c with
                           | CWait, SGot _ | CWait, SDead => true
                           | CWait, _ => cut s
                           | _, _ => false end) (calls s) 0 with
  | Some i => Some (AReturn i)
  | None =>
      (* a parked call future holds a clone of its client: the request channel does not end *)
      (* ... and it ends behind the requests that are still waiting for a slot *)
      if all_dead (clients s) && negb (qclosed s) && match e_parked en with [] => true | _ => false end
         && match wire s with [] => true | _ => false end
      then Some ACloseReqs else None
  end end end end end end end.

Fixpoint settle (fuel : nat) (lim : N) (en : env) (s : csys) : option csys :=
  match fuel with
  | O => None
  | S f =>
      match next_action en s with
      | None => Some s
      | Some a => settle f lim en (cstep lim s a)
      end
  end.

(** ** observable events of a big step *)
Definition sres_code (r : sres) : N := match r with ROk => 0 | RErrReq => 1 | RErrReply => 2 end.

Definition ev_nums (e : ev arg N) : list (N * N * N) :=
  match e with
  | EStart i => [(i, 1, 0)]
  | EExec i _ r => [(i, 2, r)]
  | EFinish i => [(i, 3, 0)]
  | ECancel i => [(i, 4, 0)]
  | ERet i (OVal r) => [(i, 5, r)]
  | ERet i OErr => [(i, 6, 0)]
  | ESrvDone r => [(1000000, 9, sres_code r)]
  | _ => []
  end.

(** canonical order of the events of a big step: by call, and within a call by kind of event
    (started, applied, finished, cancelled, returned) *)
Definition ev_key (e : N * N * N) : N := fst (fst e) * 16 + snd (fst e).

Fixpoint insert_ev (e : N * N * N) (l : list (N * N * N)) : list (N * N * N) :=
  match l with
  | [] => [e]
  | x :: t => if ev_key e <=? ev_key x then e :: l else x :: insert_ev e t
  end.
(** stable sort by id: insert from the last event backwards, before the first id that is not smaller *)
Definition sort_evs (l : list (N * N * N)) : list (N * N * N) := fold_right insert_ev [] l.

Definition flatten_evs (l : list (N * N * N)) : list N :=
  flat_map (fun e => [fst (fst e); snd (fst e); snd e]) l.

(** events between the old and the new trace (both newest first), chronological *)
Definition new_events (old new : list (ev arg N)) : list (ev arg N) :=
  rev (firstn (length new - length old) new).

(** a call future that is dropped right after its first poll: whether that poll already reported a
    failure of the request channel is a matter of timing; its own outcome is not compared *)
Definition polled_once (s : csys) (i : N) : bool :=
  match get_call s i with Some c => flag (cr_call c) 6 | None => false end.

Definition report (rfn : bool) (acc : N) (s0 s1 : csys) : list N :=
  let evs := sort_evs (flat_map ev_nums (new_events (trace s0) (trace s1))) in
  let evs := filter (fun e => negb (((snd (fst e) =? 5) || (snd (fst e) =? 6)) && polled_once s1 (fst (fst e)))) evs in
  (* a remote function provider has no serve() whose end could be observed *)
  let evs := if rfn then filter (fun e => negb (fst (fst e) =? 1000000)) evs else evs in
  let evs := if uerrs s0 <? uerrs s1 then evs ++ [(1000001, 8, uerrs s1 - uerrs s0)] else evs in
  acc :: len evs :: flatten_evs evs.

(** ** the user actions of the ops *)
Definition shared_slot (flav : N) : bool := (flav =? 0) || (flav =? 7) || (flav =? 8).

(** [m] = base + 8 * layout *)
Definition method_ok (flav : N) (local : bool) (m : N) : bool :=
  let b := m mod 8 in
  let lay := m / 8 in
  if 5 <? flav then true
  else if (3 <? lay) || ((0 <? lay) && (5 <? b)) || (local && (5 <? b)) then false
  else
    match flav with
    | 0 => b <=? 5
    | 1 | 3 => b <=? 1
    | _ => (b <=? 3) || (b =? 6) || (b =? 7)
    end.

(** the method a remote function flavour runs, whatever the op says *)
Definition eff_meth (flav m : N) : N :=
  match flav with 6 => 1 | 7 => 3 | 8 => 5 | _ => m end.

(** remote functions have no size limits and [RFnMut] applies its effect when called: the flags for
    oversized requests/replies (and gate 1 for [RFnMut]) mean nothing there *)
Definition mask_flags (flav : N) (local : bool) (d : N) : N :=
  let d := if local then N.clearbit (N.clearbit (N.clearbit (N.clearbit d 2) 3) 4) 5 else d in
  (* a call future can be parked (bit 8) only if the client can be cloned and the future is not dropped at once *)
  let d := if (flav =? 0) || (flav =? 7) || (flav =? 8) || N.testbit d 6 || N.testbit d 7 then N.clearbit d 8 else d in
  if 5 <? flav then
    let d := N.clearbit (N.clearbit d 4) 5 in
    if flav =? 7 then N.clearbit d 0 else d
  else d.

Definition outstanding (c : crec arg N) : bool :=
  match cr_st c with CInit | CWait => true | _ => false end.

(** a client that lives in a slot (not clonable) obeys the borrow rules at run time *)
Definition slot_busy (s : csys) (excl : bool) : bool :=
  existsb (fun c => outstanding c && (excl || negb (match c_kind (cr_call c) with KRef => true | _ => false end)))
          (calls s).

Definition nth_id (ids : list (option N)) (k : N) : option N :=
  match nth_error ids (N.to_nat k) with Some (Some i) => Some i | _ => None end.

(** the request channel of the flavour: [mpsc::channel(1)] in [rfn], [Server::new(target, 512)] in the harness *)
Definition cap_of (flav : N) : N := if 5 <? flav then 1 else 512.

Definition do_op (flav lim : N) (local : bool) (r : rstate) (o a b c d : N) : option (N * rstate * list (action arg)) :=
  let s := r_sys r in
  match o with
  | 0 =>
      let m := eff_meth flav (if 5 <? flav then b else b mod 8) in
      let cl := a in
      let d := mask_flags flav local d in
      let call := mk_call (5 <? flav) m c d in
      let excl := negb (match c_kind call with KRef => true | _ => false end) in
      let ok := method_ok flav local b && client_exists s cl &&
                negb (shared_slot flav && slot_busy s excl) in
      if ok then
        let i := len (calls s) in
        (* the first poll of the call future hands the request over, unless it has to wait for a slot *)
        let fails := cut s || qclosed s || negb (client_live s cl) in
        let acts := [AInvoke cl call]
                    ++ (if N.testbit d 7 then [ADropCall i]
                        else if can_send (cap_of flav) local s cl && negb (N.testbit d 8 && fails) then [ASend i] else [])
                    ++ (if N.testbit d 6 then [ADropCall i] else [])
                    ++ (match c_kind call with KVal => [ADropClient cl] | _ => [] end) in
        Some (0, r <| r_ids := r_ids r ++ [Some i] |>
                   <| r_parked := if N.testbit d 8 then i :: r_parked r else r_parked r |>
                   <| r_tgen := (i, len (r_lims r)) :: r_tgen r |>, acts)
      else Some (1, r <| r_ids := r_ids r ++ [None] |>, [])
  | 1 =>
      match nth_id (r_ids r) a with
      | Some i => if (b =? 1) || (b =? 2) then Some (0, r <| r_open := (i, b) :: r_open r |>, []) else Some (1, r, [])
      | None => Some (1, r, [])
      end
  | 2 =>
      match nth_id (r_ids r) a with
      | Some i =>
          match get_call s i with
          | Some cr => if outstanding cr then Some (0, r <| r_parked := remove_n i (r_parked r) |>, [ADropCall i]) else Some (1, r, [])
          | None => Some (1, r, [])
          end
      | None => Some (1, r, [])
      end
  | 3 => if local then Some (1, r, [])
         else Some (0, r, repeat (ADeliverReq 0) (length (wire s)) ++ [ACut])
  | 4 =>
      if client_exists s a && negb (shared_slot flav && slot_busy s true)
      then Some (0, r, [ADropClient a]) else Some (1, r, [])
  | 5 | 6 => Some (0, r, [])
  | 7 =>
      if r_stop r then Some (1, r, [])
      else Some (0, r <| r_stop := true |>, if 5 <? flav then [] else [AStop true])
  | 8 =>
      match nth_id (r_ids r) a with
      | Some i => if mem i (r_parked r) then Some (0, r <| r_parked := remove_n i (r_parked r) |>, []) else Some (1, r, [])
      | None => Some (1, r, [])
      end
  | 9 =>
      if (flav =? 6) && negb (r_stop r) && (1 <=? a) && (a <=? 64) then
        (* [send_if_modified]: setting the limit it already has changes nothing *)
        if a =? hd 32 (r_lims r) then Some (0, r, []) else Some (0, r <| r_lims := a :: r_lims r |>, [])
      else Some (1, r, [])
  | _ => None
  end.

Definition env_of (flav : N) (local : bool) (r : rstate) : env :=
  mkE (cap_of flav) local (r_open r) (r_stop r && (5 <? flav)) (flav =? 6) (r_parked r) (r_lims r) (r_tgen r).

Fixpoint run_ops (flav lim : N) (local : bool) (r : rstate) (ops : list N) : list N :=
  match ops with
  | o :: a :: b :: c :: d :: rest =>
      match do_op flav lim local r o a b c d with
      | None => [98]
      | Some (acc, r1, acts) =>
          let s0 := r_sys r1 in
          let s1 := fold_left (cstep lim) acts s0 in
          (* the provider of a remote function is gone once the stop op was used *)
          match settle (200 + 40 * length (calls s1)) lim (env_of flav local r1) s1 with
          | None => [97]
          | Some s2 => report (5 <? flav) acc s0 s2 ++ run_ops flav lim local (r1 <| r_sys := s2 |>) rest
          end
      end
  | [] => []
  | _ => [98]
  end.

Definition flavour_of (f : N) : flavour :=
  match f with
  | 0 | 5 | 8 => FValue
  | 1 => FRef
  | 2 | 7 => FRefMut
  | 3 | 6 => FShared
  | _ => FSharedMut
  end.

Definition policy_of (p : N) : policy := match p with 0 => PIgnore | 1 => PSend | _ => PFail end.

(** ** check history *)
Definition kind_eqb (a b : kind) : bool :=
  match a, b with KVal, KVal | KRef, KRef | KMut, KMut => true | _, _ => false end.

Definition ccall_eqb (a b : ccall) : bool :=
  kind_eqb (c_kind a) (c_kind b) && (c_meth a =? c_meth b) && (fst (c_arg a) =? fst (c_arg b)) &&
  (snd (c_arg a) =? snd (c_arg b)) && Bool.eqb (c_nocancel a) (c_nocancel b) && Bool.eqb (c_bad a) (c_bad b) &&
  Bool.eqb (c_reqbig a) (c_reqbig b).

Fixpoint decode_hist (l : list N) : option (list (@hev ccall N)) :=
  match l with
  | [] => Some []
  | tag :: i :: m :: x :: v :: rest =>
      match decode_hist rest with
      | None => None
      | Some h =>
          match tag with
          | 0 => Some (HInv i (mk_call false m x 0) :: h)
          | 1 => Some (HRet i (Some v) :: h)
          | 2 => Some (HRet i None :: h)
          | _ => None
          end
      end
  | _ => None
  end.

Definition check_history (s0 : N) (l : list N) : list N :=
  match decode_hist l with
  | None => [98]
  | Some h => if linearizable is_mut apply_obj ccall_eqb N.eqb s0 h then [1] else [0]
  end.

Definition run_rtc (inp : list N) : list N :=
  match inp with
  | 9 :: s0 :: rest => check_history s0 rest
  | mode :: flav :: spawn :: pol :: ncl :: cmode :: defer :: lim :: ops =>
      if (1 <? mode) || (8 <? flav) || (2 <? pol) || (ncl =? 0) || (4 <? ncl) || (2 <? cmode)
         || (2000 <? len ops) || (shared_slot flav && negb (ncl =? 1)) then [98]
      else if mode =? 1 then [1]
      else
        let rfn := 5 <? flav in
        let sp := if flav =? 6 then true else if rfn then false else negb (spawn =? 0) in
        let s := init (flavour_of flav) sp (if rfn then PIgnore else policy_of pol) (negb rfn) (N.to_nat ncl) 0 in
        run_ops flav lim (cmode =? 2) (mkR s [] [] false [] [] []) ops
  | _ => [98]
  end.
