(** Executable big-step interface of the endpoint model: the harness plays the remote peer of ONE real
    endpoint (it injects arbitrary protocol messages) and performs local API calls; after each step
    the endpoint's helper tasks and its dispatcher run to quiescence.  Local port numbers are chosen
    at random by the implementation; both sides rename them by order of first appearance on the
    transport ([base + k]). *)
From Remoc Require Import Lib.Base Gen.Consts Chmux.Wire Chmux.Mux Chmux.Endpoint Run.RunCodec.
From RecordUpdate Require Import RecordUpdate.

Definition base : N := 1000000.

Record rs := mk_rs {
  rs_ep : ep;
  rs_alloc : N;           (** local numbers handed out by the model so far (model number = base + 500000 + k) *)
  rs_map : list N;        (** model numbers in order of first appearance on the transport *)
  rs_nreq : N;            (** request ids handed out *)
  rs_preqs : list N;      (** the request ids made by sending ports over a port *)
  rs_emitted : nat        (** messages already reported *)
}.

Definition msg_locals (m : Wire.msg) : list N :=
  match m with
  | OpenPort p _ _ => [p]
  | PortOpened _ s => [s]
  | PortData _ _ _ _ ps _ => ps
  | _ => []
  end.

Definition is_model_local (p : N) : bool := base + 500000 <=? p.

Fixpoint index_of (x : N) (l : list N) (i : N) : option N :=
  match l with [] => None | y :: r => if x =? y then Some i else index_of x r (i + 1) end.

(** extend the appearance map with the local numbers of newly emitted messages *)
Definition extend_map (mp : list N) (ms : list (Wire.msg * option N)) : list N :=
  fold_left (fun acc x =>
               fold_left (fun acc p => if is_model_local p then match index_of p acc 0 with Some _ => acc | None => acc ++ [p] end else acc)
                         (msg_locals (fst x)) acc) ms mp.

(** canonical number (base + appearance index) of a model number *)
Definition canon (mp : list N) (p : N) : N :=
  if is_model_local p then match index_of p mp 0 with Some i => base + i | None => p end else p.

(** model number of a canonical number *)
Definition uncanon (mp : list N) (c : N) : N :=
  if (base <=? c) && (c <? base + 500000) then nth (N.to_nat (c - base)) mp (base + 900000 + (c - base)) else c.

Definition rename_out (mp : list N) (m : Wire.msg) : Wire.msg :=
  match m with
  | OpenPort p w id => OpenPort (canon mp p) w (match id with Some i => Some (canon mp i) | None => None end)
  | PortOpened c s => PortOpened c (canon mp s)
  | PortData p f l w ps ids => PortData p f l w (map (canon mp) ps) (match ids with Some is => Some (map (canon mp) is) | None => None end)
  | m => m
  end.

(** local-port fields of a message the endpoint receives *)
Definition rename_in (mp : list N) (m : Wire.msg) : Wire.msg :=
  match m with
  | PortOpened c s => PortOpened (uncanon mp c) s
  | Rejected c np => Rejected (uncanon mp c) np
  | Data p f l => Data (uncanon mp p) f l
  | PortData p f l w ps ids => PortData (uncanon mp p) f l w ps ids
  | PortCredits p c => PortCredits (uncanon mp p) c
  | SendFinish p => SendFinish (uncanon mp p)
  | ReceiveClose p => ReceiveClose (uncanon mp p)
  | ReceiveFinish p => ReceiveFinish (uncanon mp p)
  | m => m
  end.

(** helper tasks and dispatcher to quiescence, in a fixed order *)
Definition notifier_acts (e : ep) : list act :=
  map (fun x => NReq (fst x)) (rev (requests e)) ++ flat_map (fun x => [NTx (fst x); NRx (fst x)]) (rev (handles e)).

Fixpoint settle (fuel : nat) (e : ep) : ep :=
  match fuel with
  | O => e
  | S fuel' =>
      let cands := notifier_acts e ++ [DListenerDropped; DConn; DPort; DGoodbye] in
      let fix first_enabled (l : list act) : option ep :=
        match l with
        | [] => None
        | a :: l' => match step_opt e a with Some e' => Some e' | None => first_enabled l' end
        end in
      match first_enabled cands with
      | Some e' => settle fuel' e'
      | None => e
      end
  end.

Definition status (e : ep) : N :=
  match panicked e, dead e with
  | Some _, _ => 9
  | None, Some PReset => 2
  | None, Some _ => 3
  | None, None => if goodbye_sent (mx e) && goodbye_received (mx e) then 1 else 0
  end.

(** [via_port]: the response task of [Sender::connect] reports a lost response as [ChMux] whatever is
    known about the remote listener; that of [Client::connect] reports [Rejected] when it is gone *)
Definition enc_resp (via_port : bool) (r : cstate) : list N :=
  match r with
  | CWaiting => [0]
  | CResolved (RAccepted _ _) => [1]
  | CResolved (RRejected false) => [2]
  | CResolved (RRejected true) => [3]
  | CResolved RChMux => [4]
  | CResolved RListenerGone => if via_port then [4] else [2]
  end.

(** Requests that are dropped together (with the listener, with a receiver) are refused by one helper task each; the order
    in which those tasks run is not part of any property: maximal runs of [Rejected] messages are compared sorted by port. *)
Definition rej_port (x : Wire.msg * option N) : option N :=
  match fst x with Rejected c _ => Some c | _ => None end.
Fixpoint ins_rej (x : Wire.msg * option N) (k : N) (run : list (Wire.msg * option N)) : list (Wire.msg * option N) :=
  match run with
  | [] => [x]
  | y :: r => match rej_port y with
              | Some k' => if k <=? k' then x :: y :: r else y :: ins_rej x k r
              | None => x :: y :: r
              end
  end.
Fixpoint canon_runs (l run : list (Wire.msg * option N)) : list (Wire.msg * option N) :=
  match l with
  | [] => run
  | x :: r => match rej_port x with
              | Some k => canon_runs r (ins_rej x k run)
              | None => run ++ x :: canon_runs r []
              end
  end.

(** the [k]-th key of an association list in insertion order is not kept by [insert]; handles are
    addressed by their local port number, requests by remote port *)
Definition big (r : rs) (code : N) (args : list N) : rs * list N :=
  let e := rs_ep r in
  let mp := rs_map r in
  let fresh_num := base + 500000 + rs_alloc r in
  let local (k : N) := uncanon mp (base + k) in
  let e1 :=
    match code, args with
    | 1, [wait] => step e (UConnect fresh_num fresh_num (negb (wait =? 0)) (rs_nreq r))
    | 2, [] => step e UDropClients
    | 3, [] => step e UDropListener
    | 4, [rp] => step e (UListenerTake rp)
    | 5, [rp] => step e (UAccept rp fresh_num)
    | 6, [rp; np] => step e (UReject rp (negb (np =? 0)))
    | 7, [rp] => step e (UDropRequest rp)
    | 8, [k; n] => step e (USendData (local k) true true n)
    | 9, [k] =>
        let e' := step e (UConsume (local k)) in
        (* the harness drops the requests it obtains *)
        fold_left (fun acc x => match snd x with RHeld => step acc (UDropRequest (fst x)) | _ => acc end)
                  (rev (filter (fun x => match lookup (fst x) (requests e) with Some RHeld => false | _ => true end) (requests e'))) e'
    | 10, [k] => step e (UCloseRx (local k))
    | 11, [k] => step e (UDropRx (local k))
    | 12, [k] => step e (UDropTx (local k))
    | 13, [] => step e UTerminate
    | 14, [k; n; wait] =>
        (* [Sender::connect] on the [k]-th appeared local port with [n] fresh ports *)
        let ps := (fix mk (i : nat) (j : N) : list (N * N * N) :=
                     match i with
                     | O => []
                     | S i' => (fresh_num + j, fresh_num + j, rs_nreq r + j) :: mk i' (j + 1)
                     end) (N.to_nat n) 0 in
        (* [credits.request] fails once the pool is closed (as for [USendData]) *)
        match lookup (local k) (ports (mx e)) with
        | Some (Connected c) =>
            match pool_closed c with
            | None => step e (USendPorts (local k) true true (negb (wait =? 0)) ps)
            | Some _ => e
            end
        | _ => e
        end
    | 20, paylen :: nums =>
        match nums_to_msg nums with
        | Some m => step e (Recv (rename_in mp m) paylen)
        | None => e
        end
    | _, _ => e
    end in
  let e2 := settle 2000 e1 in
  let new_msgs := skipn (rs_emitted r) (sent e2) in
  let mp' := extend_map mp new_msgs in
  let out :=
    [200] ++ flat_map (fun x => msg_to_nums (fst x) ++ [match snd x with Some n => n | None => 0 end; 201])
                      (canon_runs (map (fun x => (rename_out mp' (fst x), snd x)) (filter (fun x => match fst x with PortCredits _ _ | Ping => false | _ => true end) new_msgs)) []) ++
    [202; status e2] ++
    match code with
    | 1 => match lookup (rs_nreq r) (connects e2) with Some c => enc_resp false c | None => [9] end
    | _ => []
    end in
  ({| rs_ep := e2;
      rs_alloc := match code, args with
                  | 1, _ | 5, _ => if mem fresh_num (alloc e1) || mem fresh_num (alloc e) then rs_alloc r + 1 else rs_alloc r
                  | 14, [_; n; _] => if mem fresh_num (alloc e1) then rs_alloc r + n else rs_alloc r
                  | _, _ => rs_alloc r
                  end;
      rs_map := mp';
      rs_nreq := match code, args, lookup (rs_nreq r) (connects e2) with
                 | 1, _, Some _ => rs_nreq r + 1
                 | 14, [_; n; _], Some _ => rs_nreq r + n
                 | _, _, _ => rs_nreq r
                 end;
      rs_preqs := match code, args, lookup (rs_nreq r) (connects e2) with
                  | 14, [_; n; _], Some _ =>
                      (fix iota (i : nat) (from : N) : list N := match i with O => [] | S i' => from :: iota i' (from + 1) end)
                        (N.to_nat n) (rs_nreq r) ++ rs_preqs r
                  | _, _, _ => rs_preqs r
                  end;
      rs_emitted := length (sent e2) |}, out).

Fixpoint run_ops (fuel : nat) (r : rs) (l : list N) : list N :=
  match fuel with
  | O => [99]
  | S fuel' =>
      match l with
      | code :: n :: rest =>
          let args := firstn (N.to_nat n) rest in
          let rest' := skipn (N.to_nat n) rest in
          let '(r', o) := big r code args in
          o ++ run_ops fuel' r' rest'
      | _ =>
          (* final report: pending connect requests' outcomes *)
          [203] ++ flat_map (fun k => match lookup k (connects (rs_ep r)) with Some c => enc_resp (mem k (rs_preqs r)) c | None => [9] end)
                            ((fix iota (n : nat) (from : N) : list N := match n with O => [] | S n' => from :: iota n' (from + 1) end)
                               (N.to_nat (rs_nreq r)) 0)
      end
  end.

(** input: [chunk; buffer; connect_queue; remote_buffer; remote_version; max_ports; ops...] *)
Definition run_endpoint (inp : list N) : list N :=
  match inp with
  | ck :: bu :: cq :: rb :: ver :: maxp :: ops =>
      run_ops (S (length ops))
              {| rs_ep := ep_init (mux_init ck bu cq rb ver) maxp; rs_alloc := 0; rs_map := []; rs_nreq := 0; rs_preqs := []; rs_emitted := 0 |} ops
  | _ => [98]
  end.
