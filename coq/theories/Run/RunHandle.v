(** Executable interface of the handle model for the correspondence check (component 20).

    Input: (op a b)*  -- see harness/src/handle.rs.  Three endpoints in a triangle: connection [k]
    joins endpoints [k] and [(k+1) mod 3].  Every scripted operation is one [Handle.big_step]: the
    action, then every removal task that can finish -- an action list of the small-step system the
    theorems of [Props/C20.v] quantify over.  The UUID drawn by an inserting send is the number of
    ids drawn so far (any fresh name gives the same observations).
    Output per op: code arg alive, [alive] = sum of [2^v] over the cells whose value still exists. *)
From Remoc Require Import Lib.Base Robj.Handle.

Definition MAXV : N := 16.

Definition side_of (c e : N) : option N :=
  if 2 <? c then None
  else if e =? c then Some 0
  else if e =? (c + 1) mod 3 then Some 1
  else None.
Definition other_end (c side : N) : N := if side =? 0 then (c + 1) mod 3 else c.

Definition result_nums (r : result) : list N :=
  match r with
  | RUnit => [0; 0]
  | RHandle h => [1; h]
  | RVal v => [2; v]
  | RUnknown => [3; 0]
  | RMismatch => [4; 0]
  | REmpty => [5; 0]
  | RNone => [6; 0]
  end.

Definition alive_mask (s : sys) : N :=
  fold_right (fun v acc => acc + if value_alive s (N.of_nat v) then 2 ^ N.of_nat v else 0) 0
             (seq 0 (length (cells s))).

(** [inl r]: the operation does not apply (result [r], nothing happens); [inr a]: the action *)
Definition decode (s : sys) (op a b : N) : result + action :=
  match op with
  | 0 => if (MAXV <=? len (cells s)) || (2 <? a) then inl RNone
         else inr (ANew a ((b / 2) mod 2) ((b mod 2) =? 1))
  | 1 => inr (AClone a)
  | 2 => inr (ADrop a)
  | 3 => inr (ACast a (if b =? 0 then 0 else 1))
  | 4 | 11 => (* 11: the same send inside a message larger than max_data_size (serialized twice by the implementation) *)
         match live_handle s a with
         | Some hd =>
             match side_of b (h_ep hd) with
             | Some side => inr (ASend a b (other_end b side) (len (used s)))
             | None => inl RNone
             end
         | None => inl RNone
         end
  | 5 => match side_of a b with Some _ => inr (ARecv a b) | None => inl REmpty end
  | 6 => inr (AAsRef a)
  | 7 => inr (AAsMut a)
  | 8 => inr (AIntoInner a)
  | 9 => inr (AProvDrop a)
  | _ => inr (AProvKeep a)
  end.

Fixpoint run_ops (s : sys) (ops : list N) : list N :=
  match ops with
  | op :: a :: b :: rest =>
      let '(s', r) := match decode s op a b with
                      | inl r => (s, r)
                      | inr act => big_step s act
                      end in
      result_nums r ++ [alive_mask s'] ++ run_ops s' rest
  | _ => []
  end.

Fixpoint well_formed (ops : list N) : bool :=
  match ops with
  | [] => true
  | op :: a :: b :: rest => (op <=? 11) && (a <=? 1000) && (b <=? 1000) && well_formed rest
  | _ => false
  end.

Definition run_handle (inp : list N) : list N :=
  if (600 <? len inp) || negb (well_formed inp) then [98] else run_ops init inp.
