(** Executable interface of the broadcast model for the correspondence check: numbers in, numbers out.

    Input:  n, cap_1 .. cap_n (initial subscribers, created by [subscribe(cap)] before anything is
            sent), then big steps
              0        send the next value
              1 c      subscribe(c)
              2 s k    subscriber s takes up to k items ([try_recv] until Empty)
              3 s      drop the receiver of subscriber s
              4        quiesce: all spawned re-admission tasks run until none can proceed
    Output: per step one number: the receiver count after the step ([Sender::receiver_count]);
            a send step first emits its result (1 = Ok, 0 = Err(Closed));
            then 77, the number of subscribers, and per subscriber
              len received, received ..., len queued, queued ...
            with [Value i] printed as i+1 and [Lagged] as 0.
    Malformed input (truncated step, unknown opcode): [98].
    A first number >= 100 marks a case with remote subscribers (n + 100): the buffers of the remote
    path are not part of this model, the answer is [96] and only the harness oracle judges. *)
From Remoc Require Import Lib.Base Rch.Broadcast.

Definition item_num (x : item) : N := match x with Value i => i + 1 | Lagged => 0 end.

Fixpoint decode_ops (fuel : nat) (l : list N) : option (list bigop) :=
  match fuel with
  | O => None
  | S f =>
      match l with
      | [] => Some []
      | 0 :: r => option_map (cons BSend) (decode_ops f r)
      | 1 :: c :: r => option_map (cons (BSubscribe c)) (decode_ops f r)
      | 2 :: s :: k :: r => option_map (cons (BConsume s k)) (decode_ops f r)
      | 3 :: s :: r => option_map (cons (BDrop s)) (decode_ops f r)
      | 4 :: r => option_map (cons BQuiesce) (decode_ops f r)
      | _ => None
      end
  end.

Definition nb (b : bool) : N := if b then 1 else 0.

Fixpoint run_ops (ops : list bigop) (st : state) : list N * state :=
  match ops with
  | [] => ([], st)
  | o :: r =>
      let st' := big st o in
      let here := match o with BSend => [nb (send_ok st'); receiver_count st'] | _ => [receiver_count st'] end in
      let '(out, fin) := run_ops r st' in (here ++ out, fin)
  end.

Definition print_sub (s : sub) : list N :=
  [len (consumed s)] ++ map item_num (consumed s) ++ [len (queue s)] ++ map item_num (queue s).

Definition run_broadcast (inp : list N) : list N :=
  match inp with
  | n :: r =>
      if 100 <=? n then [96] else
      let k := N.to_nat n in
      if (length r <? k)%nat then [98] else
      let caps := firstn k r in
      match decode_ops (S (length r)) (skipn k r) with
      | None => [98]
      | Some ops =>
          let '(out, fin) := run_ops (map BSubscribe caps ++ ops) init in
          skipn k out ++ [77; len (subs fin)] ++ flat_map print_sub (subs fin)
      end
  | [] => [98]
  end.
