(** One entry point for the extracted model runner: component number, numbers in, numbers out. *)
From Remoc Require Import Lib.Base Run.RunCodec Run.RunRobsVec Run.RunRobsDeque Run.RunRobsList Run.RunRobsMap Run.RunRobsSet Run.RunPort Run.RunBroadcast Run.RunIoChan Run.RunBase.

Definition run (comp : N) (inp : list N) : list N :=
  match comp with
  | 1 => run_port inp
  | 9 => run_codec inp
  | 131 => run_robs_vec inp
  | 132 => run_robs_deque inp
  | 133 => run_robs_list inp
  | 134 => run_robs_map inp
  | 135 => run_robs_set inp
  | 16 => run_broadcast inp
  | 18 => run_io inp
  | 4 => run_base inp
  | _ => [97]
  end.
