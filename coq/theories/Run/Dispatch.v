(** One entry point for the extracted model runner: component number, numbers in, numbers out. *)
From Remoc Require Import Lib.Base Run.RunCodec Run.RunRobsMap Run.RunRobsSet.

Definition run (comp : N) (inp : list N) : list N :=
  match comp with
  | 9 => run_codec inp
  | 134 => run_robs_map inp
  | 135 => run_robs_set inp
  | _ => [97]
  end.
