(** One entry point for the extracted model runner: component number, numbers in, numbers out. *)
From Remoc Require Import Lib.Base Run.RunCodec Run.RunRobsVec Run.RunRobsDeque Run.RunRobsList Run.RunRobsMap Run.RunRobsSet Run.RunPort Run.RunBroadcast Run.RunIoChan Run.RunEndpoint Run.RunHandle Run.RunLazy Run.RunRwLock Run.RunWatch Run.RunRobsLag Run.RunRtc Run.RunPorts Run.RunBase Run.RunSharedQ Run.RunAlloc.

Definition run (comp : N) (inp : list N) : list N :=
  match comp with
  | 1 => run_port inp
  | 7 => run_endpoint inp
  | 9 => run_codec inp
  | 70 => [96]   (* two-endpoint streams: judged by the harness oracle only *)
  | 131 => run_robs_vec inp
  | 132 => run_robs_deque inp
  | 133 => run_robs_list inp
  | 134 => run_robs_map inp
  | 135 => run_robs_set inp
  | 14 => run_robs_lag inp
  | 16 => run_broadcast inp
  | 18 => run_io inp
  | 12 => run_rtc inp
  | 19 => run_rtc inp
  | 20 => run_handle inp
  | 200 => run_lazy inp
  | 17 => run_rwlock inp
  | 15 => run_watch inp
  | 5 => run_halves inp
  | 4 => run_base inp
  | 3 => run_sharedq inp
  | 71 => run_alloc inp
  | _ => [97]
  end.
