(** One entry point for the extracted model runner: component number, numbers in, numbers out. *)
From Remoc Require Import Lib.Base Run.RunCodec Run.RunIoChan.

Definition run (comp : N) (inp : list N) : list N :=
  match comp with
  | 9 => run_codec inp
  | 18 => run_io inp
  | _ => [97]
  end.
