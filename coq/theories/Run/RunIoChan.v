(** Executable interface of the I/O channel model for the correspondence check (component 18).

    Input: kind mode fixed csA csB loc rbuf seed plen (op arg)*   -- see harness/src/io.rs.
    Every scripted operation is a list of actions of the small-step system [IoChan.step] (so what is
    compared with the implementation is a behaviour the theorems of [Props/C18.v] quantify over):
    a write/flush/shutdown polls with a transport that accepts ([e_ready]) and does not split;
    [deliver] lets every event in flight and the size announcement arrive. *)
From Remoc Require Import Lib.Base Rch.IoChan.

Definition ekind_code (k : ekind) : N :=
  match k with
  | KWriteZero => 1 | KBrokenPipe => 2 | KUnexpectedEof => 3 | KConnRefused => 4
  | KConnReset => 5 | KConnAborted => 6 | KInvalidData => 7
  end.

Definition result_nums (r : result) : list N :=
  match r with
  | Done n bs => 0 :: n :: bs
  | Eof => [0; 0]
  | Fail k => [1; ekind_code k]
  | Pending => [2; 0]
  | Panic => [3; 0]
  | Gone => [4; 0]
  | OutOfFuel => [99; 0]
  end.

Definition payload (seed plen : N) : list N :=
  map (fun i => (seed + 37 * N.of_nat i) mod 256) (seq 0 (N.to_nat plen)).

Definition env_ok : env := mkE true [].

(** The actions of one scripted operation in state [y] with [off] payload bytes accepted so far;
    [None]: unknown operation. *)
Definition op_actions (pl : list N) (y : sys) (off : N) (op arg : N) : option (list action) :=
  match op with
  | 0 => Some [AWrite (firstn (N.to_nat arg) (skipn (N.to_nat off) pl)) env_ok]
  | 1 => Some [AFlush env_ok]
  | 2 => Some [AShutdown env_ok]
  | 3 => Some [ADropTx]
  | 4 => Some [ARead arg]
  | 5 => Some (repeat ADeliver (length (y_net y)) ++ [ADeliverSize])
  | 6 => Some [ACut]
  | _ => None
  end.

(** The printed result of an operation is that of its first action, except for [deliver]. *)
Definition op_result (op : N) (outs : list result) : result :=
  match op, outs with
  | 5, _ => Done 0 []
  | _, o :: _ => o
  | _, [] => Done 0 []
  end.

Fixpoint run_ops (pl : list N) (y : sys) (off : N) (ops : list N) : list N :=
  match ops with
  | op :: arg :: rest =>
      match op_actions pl y off op arg with
      | None => [98]
      | Some acts =>
          let '(y', outs) := run_acts acts y in
          let res := op_result op outs in
          let off' := match op, res with 0, Done n _ => off + n | _, _ => off end in
          result_nums res ++ run_ops pl y' off' rest
      end
  | [] => []
  | [_] => [98]
  end.

Definition run_io (inp : list N) : list N :=
  match inp with
  | kind :: mode :: fixed :: csA :: csB :: loc :: rbuf :: seed :: plen :: ops =>
      if negb (kind =? 0) then [1]
      else if 100000 <? plen then [98]
      else
        let cs := if loc =? 0 then csB else csA in
        let m := if mode =? 0 then Unknown else Known fixed in
        run_ops (payload seed plen) (init cs m) 0 ops
  | _ => [98]
  end.
