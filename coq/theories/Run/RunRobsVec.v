(** Executable interface of the [ObservableVec] model (component 131): numbers in, numbers out.
    Input : [mx; mode; k; n; init_1..init_n; op; op; ...]   (mode 0 = snapshot, 1 = incremental;
            the subscription is taken after the first [k] ops; [mx] = max_size of the mirror)
      ops : 1 v push | 2 pop | 3 i has v get_mut | 4 rev n (has v)*n iter_mut | 5 i v insert | 6 i remove
            | 7 i swap_remove | 8 v fill | 9 n v resize | 10 n truncate | 11 clear | 12 n b*n retain
            | 13 shrink_to_fit | 14 done | 15 n v*n extend
    Output: per op [99] (panic, state unchanged) or [#events; events...];
            then [len; items...; done] of the collection;
            then the mirror [err; len; items...; complete; done] (err 0 none, 1 MaxSizeExceeded, 2 InvalidIndex;
            no flags after an error);
            then the stream a hand-held subscription (same point and mode) yields [#events; events...]
            and the result of applying it by hand, same format as the mirror. *)
From Remoc Require Import Lib.Base Robs.SeqCommon Robs.Vec.

Definition enc_event (e : event) : list N :=
  match e with
  | EPush v => [1; v]
  | EPop => [2]
  | EInsert i v => [3; i; v]
  | ESet i v => [4; i; v]
  | ERemove i => [5; i]
  | ESwapRemove i => [6; i]
  | EFill v => [7; v]
  | EResize n v => [8; n; v]
  | ETruncate n => [9; n]
  | ERetain s => 10 :: len s :: s
  | ERetainNot s => 11 :: len s :: s
  | EClear => [12]
  | EShrinkToFit => [13]
  | EDone => [14]
  | EInitialComplete => [15]
  end.

Definition enc_events (es : list event) : list N := len es :: flat_map enc_event es.

Definition ocons (o : op) (r : option (list op)) : option (list op) :=
  match r with Some os => Some (o :: os) | None => None end.

Fixpoint decode_ops (fuel : nat) (l : list N) : option (list op) :=
  match fuel with
  | O => match l with [] => Some [] | _ => None end
  | S f =>
      match l with
      | [] => Some []
      | 1 :: v :: r => ocons (Push v) (decode_ops f r)
      | 2 :: r => ocons Pop (decode_ops f r)
      | 3 :: i :: h :: v :: r => ocons (GetMut i (if bn h then Some v else None)) (decode_ops f r)
      | 4 :: rev :: n :: r =>
          match take (2 * n) r with
          | Some (ws, r') => ocons (IterMut (bn rev) (pairs_opt ws)) (decode_ops f r')
          | None => None
          end
      | 5 :: i :: v :: r => ocons (Insert i v) (decode_ops f r)
      | 6 :: i :: r => ocons (Remove i) (decode_ops f r)
      | 7 :: i :: r => ocons (SwapRemove i) (decode_ops f r)
      | 8 :: v :: r => ocons (Fill v) (decode_ops f r)
      | 9 :: n :: v :: r => ocons (Resize n v) (decode_ops f r)
      | 10 :: n :: r => ocons (Truncate n) (decode_ops f r)
      | 11 :: r => ocons Clear (decode_ops f r)
      | 12 :: n :: r =>
          match take n r with
          | Some (ks, r') => ocons (Retain (map bn ks)) (decode_ops f r')
          | None => None
          end
      | 13 :: r => ocons ShrinkToFit (decode_ops f r)
      | 14 :: r => ocons MarkDone (decode_ops f r)
      | 15 :: n :: r =>
          match take n r with
          | Some (vs, r') => ocons (Extend vs) (decode_ops f r')
          | None => None
          end
      | _ => None
      end
  end.

(** run that continues after a panic (the harness catches the unwind; nothing has changed) *)
Fixpoint exec_ops (c : coll) (ops : list op) : coll * list (option (list event)) :=
  match ops with
  | [] => (c, [])
  | o :: r =>
      match apply_op c o with
      | Ok (c1, e1) => let (cf, t) := exec_ops c1 r in (cf, Some e1 :: t)
      | Panic => let (cf, t) := exec_ops c r in (cf, None :: t)
      end
  end.

Definition enc_trace (t : list (option (list event))) : list N :=
  flat_map (fun x => match x with Some es => enc_events es | None => [99] end) t.
Definition trace_events (t : list (option (list event))) : list event :=
  flat_map (fun x => match x with Some es => es | None => [] end) t.

Definition enc_mirror (m : mirror) : list N := len (mv m) :: mv m ++ [nb (mcomplete m); nb (mdone m)].
Definition enc_hres (r : hres) : list N :=
  match r with
  | HOk m => 0 :: enc_mirror m
  | HErr m (MaxSizeExceeded _) => 1 :: len (mv m) :: mv m   (* flags are not readable after an error; *)
  | HErr m (InvalidIndex _) => 2 :: len (mv m) :: mv m       (* contents are those [detach] returns *)
  end.

Definition run_robs_vec (inp : list N) : list N :=
  match inp with
  | mx :: mode :: k :: n :: rest =>
      match take n rest with
      | None => [98]
      | Some (init, opsn) =>
          match decode_ops (length opsn) opsn with
          | None => [98]
          | Some ops =>
              let md := if bn mode then Incremental else Snapshot in
              let c0 := {| items := init; cdone := false |} in
              let kk := N.to_nat k in
              let '(ck, t1) := exec_ops c0 (firstn kk ops) in
              let '(cf, t2) := exec_ops ck (skipn kk ops) in
              let stream := sub_stream md ck (trace_events t2) in
              enc_trace (t1 ++ t2)
              ++ (len (items cf) :: items cf ++ [nb (cdone cf)])
              ++ enc_hres (mirror_task (sub_mirror md ck mx) stream)
              ++ enc_events stream
              ++ enc_hres (fold_events (hand_start md ck mx) stream)
          end
      end
  | _ => [98]
  end.
