(** Executable interface of the C14 models (component 14): numbers in, numbers out.

    Input : kind :: n :: init (n numbers; map: n pairs) :: steps
      kind  0 vector | 1 deque | 2 hash map | 3 hash set | 4 append-only list | >= 100 remote (answer [96]:
            the buffers of a connection are not part of the deterministic big steps; oracle only)
      steps 1 L x1..xL    a burst of API calls without a scheduling point in between; the L numbers are
                          calls in the encoding of the kind (vector/deque: as components 131/132;
                          map: 1 k v insert | 2 k remove | 3 clear | 4 done | 5 shrink_to_fit;
                          set: 1 k insert | 2 k remove | 3 clear | 4 done | 5 shrink_to_fit;
                          list: 1 v push | 2 done)
            2 m i c mx    subscribe: m=1 mirror(mx) / m=0 consumer by hand; i=1 incremental; c = buffer
            3 s k         the consumer by hand s calls recv up to k times (stops when recv would wait)
            4             drop the collection
            5 s           drop subscriber s
      after every step all tasks run until idle ([settle]).
    Output: 77, number of subscribers, then per subscriber
              mirror : 1, error (0 none, 1 MaxSizeExceeded, 2 InvalidIndex, 3 Closed, 4 Lagged, 5 remote),
                       contents (kind specific), and complete, done when there is no error
                       (map/set after MaxSizeExceeded: only the number of entries)
              by hand: 0, error, number of events returned, the events
    Malformed input: [98]. *)
From Remoc Require Import Lib.Base Rch.Broadcast Robs.SeqCommon Robs.Mirror Robs.MirrorInst.
From Remoc Require Robs.Vec Robs.VecDeque Robs.HashMap Robs.HashSet Robs.KeyMap Robs.List_ Robs.ListDist.
From Remoc Require Run.RunRobsVec Run.RunRobsDeque Run.RunRobsMap Run.RunRobsSet Run.RunRobsList.

Definition cls_num (c : cls) : N :=
  match c with CMaxSize => 1 | CInvalid => 2 | CClosed => 3 | CLagged => 4 | CRemote => 5 end.

Inductive bstep_in :=
| BBurst (l : list N)
| BSub (m i : bool) (c mx : N)
| BRecv (s k : N)
| BDropColl
| BDropSub (s : N).

Fixpoint decode_steps (fuel : nat) (l : list N) : option (list bstep_in) :=
  match fuel with
  | O => None
  | S f =>
      match l with
      | [] => Some []
      | 1 :: n :: r =>
          match take n r with
          | Some (xs, r') => option_map (cons (BBurst xs)) (decode_steps f r')
          | None => None
          end
      | 2 :: m :: i :: c :: mx :: r => option_map (cons (BSub (bn m) (bn i) c mx)) (decode_steps f r)
      | 3 :: s :: k :: r => option_map (cons (BRecv s k)) (decode_steps f r)
      | 4 :: r => option_map (cons BDropColl) (decode_steps f r)
      | 5 :: s :: r => option_map (cons (BDropSub s)) (decode_steps f r)
      | _ => None
      end
  end.

(** ** broadcast-based kinds *)
Section Big.
  Variable I : iface.
  Variable dec_ops : list N -> option (list (iOp I)).
  Variable enc_ev : iE I -> list N.
  Variable enc_m : iM I -> list N.          (* contents *)
  Variable m_flags : iM I -> list N.        (* complete, done *)
  (** hash map/set: which entry of an incremental initial value exceeds max_size depends on the hash
      order; only the number of entries is compared then *)
  Variable hash_order : bool.

  Definition try_step (s : mstate I) (a : action I) : mstate I :=
    match step I s a with Some s' => s' | None => s end.
  Fixpoint try_steps (acts : list (action I)) (s : mstate I) : mstate I :=
    match acts with [] => s | a :: r => try_steps r (try_step s a) end.

  (** a call and the emission of all its events, nothing in between *)
  Definition call (s : mstate I) (o : iOp I) : mstate I :=
    let s1 := try_step s (AOp I o) in
    try_steps (repeat (AEmit I) (length (to_emit s1))) s1.

  (** all re-admission tasks run as far as they can (cf. [Broadcast.quiesce]) *)
  Definition quiesce_one (s : mstate I) (j : N) : mstate I :=
    let s0 := try_steps (repeat (ARelease I j) (N.to_nat (held_of (bc s) j))) s in
    let s1 := try_steps [AReadmit1 I j; AReadmit2 I j] s0 in
    try_steps (repeat (ARelease I j) (N.to_nat (held_of (bc s1) j))) s1.
  Definition quiesce_all (s : mstate I) : mstate I :=
    fold_left quiesce_one (map N.of_nat (seq 0 (length (subs (bc s))))) s.

  (** every mirror task runs until its [recv] would wait *)
  Definition drain_fuel : nat := 64.
  Definition drain_mirrors (s : mstate I) : mstate I :=
    fold_left (fun s i =>
                 match nth_error (rsubs s) i with
                 | Some r => if r_mirror r then try_steps (repeat (ARecv I i) drain_fuel) s else s
                 | None => s
                 end)
              (seq 0 (length (rsubs s))) s.

  Definition settle (s : mstate I) : mstate I :=
    let round s := drain_mirrors (quiesce_all s) in
    round (round (round (round s))).

  Definition big (s : mstate I) (b : bstep_in) : option (mstate I) :=
    match b with
    | BBurst xs =>
        match dec_ops xs with
        | Some ops => Some (settle (fold_left call ops s))
        | None => None
        end
    | BSub m i c mx => Some (settle (try_step s (ASubscribe I m false i c mx)))
    | BRecv k n =>
        Some (settle (fold_left (fun s _ => try_step (settle s) (ARecv I (N.to_nat k))) (repeat tt (N.to_nat n)) s))
    | BDropColl => Some (settle (try_step s (ADropColl I)))
    | BDropSub k => Some (settle (try_step s (ADropSub I (N.to_nat k))))
    end.

  Fixpoint bigs (bs : list bstep_in) (s : mstate I) : option (mstate I) :=
    match bs with
    | [] => Some s
    | b :: r => match big s b with Some s' => bigs r s' | None => None end
    end.

  Definition err_num (r : rsub I) : N := match r_err r with None => 0 | Some c => cls_num c end.

  Definition print_sub (r : rsub I) : list N :=
    if r_mirror r then
      [1; err_num r] ++
      (match r_err r with
       | None => enc_m (r_m r) ++ m_flags (r_m r)
       | Some CMaxSize => if hash_order then [hd 0 (enc_m (r_m r))] else enc_m (r_m r)
       | Some _ => enc_m (r_m r)
       end)
    else
      let evs := evs_of I (r_log r) in
      [0; err_num r; len evs] ++
      (* hash map/set: which entries of an unfinished initial value have arrived depends on the hash order *)
      (if hash_order && negb (is_nil (r_init r)) then [] else flat_map enc_ev evs).

  Definition run_kind (c0 : iC I) (steps : list bstep_in) : list N :=
    match bigs steps (init_state I c0) with
    | Some s => [77; len (rsubs s)] ++ flat_map print_sub (rsubs s)
    | None => [98]
    end.
End Big.

(** ** kind-specific encodings *)
Definition vec_m (m : Vec.mirror) : list N := len (Vec.mv m) :: Vec.mv m.
Definition vec_flags (m : Vec.mirror) : list N := [nb (Vec.mcomplete m); nb (Vec.mdone m)].
Definition deque_m (m : VecDeque.mirror) : list N := len (VecDeque.mv m) :: VecDeque.mv m.
Definition deque_flags (m : VecDeque.mirror) : list N := [nb (VecDeque.mcomplete m); nb (VecDeque.mdone m)].

Fixpoint map_ops (fuel : nat) (l : list N) : option (list HashMap.op) :=
  match fuel with
  | O => None
  | S f =>
      match l with
      | [] => Some []
      | 1 :: k :: v :: r => option_map (cons (HashMap.Insert k v)) (map_ops f r)
      | 2 :: k :: r => option_map (cons (HashMap.Remove k)) (map_ops f r)
      | 3 :: r => option_map (cons HashMap.Clear) (map_ops f r)
      | 4 :: r => option_map (cons HashMap.MarkDone) (map_ops f r)
      | 5 :: r => option_map (cons HashMap.ShrinkToFit) (map_ops f r)
      | _ => None
      end
  end.
Definition map_m (m : HashMap.mirror) : list N := RunRobsMap.enc_map (HashMap.m_hm m).
Definition map_flags (m : HashMap.mirror) : list N := [nb (HashMap.m_complete m); nb (HashMap.m_done m)].

Fixpoint set_ops (fuel : nat) (l : list N) : option (list HashSet.op) :=
  match fuel with
  | O => None
  | S f =>
      match l with
      | [] => Some []
      | 1 :: k :: r => option_map (cons (HashSet.Insert k)) (set_ops f r)
      | 2 :: k :: r => option_map (cons (HashSet.Remove k)) (set_ops f r)
      | 3 :: r => option_map (cons HashSet.Clear) (set_ops f r)
      | 4 :: r => option_map (cons HashSet.MarkDone) (set_ops f r)
      | 5 :: r => option_map (cons HashSet.ShrinkToFit) (set_ops f r)
      | _ => None
      end
  end.
Definition set_m (m : HashSet.mirror) : list N := RunRobsSet.enc_set (HashSet.m_hs m).
Definition set_flags (m : HashSet.mirror) : list N := [nb (HashSet.m_complete m); nb (HashSet.m_done m)].

Fixpoint pairs_of (l : list N) : list (N * N) :=
  match l with k :: v :: r => (k, v) :: pairs_of r | _ => [] end.

(** ** the append-only list *)
Import ListDist.
Definition ltry (s : lstate) (a : laction) : lstate := match lstep s a with Some s' => s' | None => s end.
Fixpoint ltrys (acts : list laction) (s : lstate) : lstate :=
  match acts with [] => s | a :: r => ltrys r (ltry s a) end.

(** the task runs until idle; subscribers listed in [mirrors] are mirror tasks and run too *)
Definition lround (mirrors : list nat) (s : lstate) : lstate :=
  let s1 := ltrys (repeat TReq (length (reqs s))) s in
  let ids := seq 0 (length (lsubs s1)) in
  let s2 := ltrys (map TReg ids) s1 in
  let s3 := ltrys (map TSend ids) s2 in
  let s4 := ltrys (flat_map (fun i => [SRecv i; SRecv i]) mirrors) s3 in
  ltrys (map TRetire ids) s4.
Fixpoint lsettle (fuel : nat) (mirrors : list nat) (s : lstate) : lstate :=
  match fuel with O => s | S f => lsettle f mirrors (lround mirrors s) end.
Definition list_fuel (s : lstate) : nat := (length (buffer s) + length (reqs s) + 4)%nat.

Fixpoint list_ops (fuel : nat) (l : list N) : option (list laction) :=
  match fuel with
  | O => None
  | S f =>
      match l with
      | [] => Some []
      | 1 :: v :: r => option_map (cons (LPush v)) (list_ops f r)
      | 2 :: r => option_map (cons LDone) (list_ops f r)
      | _ => None
      end
  end.

(** state: the system, the mirror subscribers with their max_size *)
Definition lbig (st : lstate * list (nat * N)) (b : bstep_in) : option (lstate * list (nat * N)) :=
  let '(s, ms) := st in
  let fin s ms := let s' := lsettle (list_fuel s) (map fst ms) s in Some (s', ms) in
  match b with
  | BBurst xs => match list_ops (S (length xs)) xs with Some acts => fin (ltrys acts s) ms | None => None end
  | BSub m _ _ mx =>   (* through the list object only (the harness has no distributor) *)
      if palive s then
        let s' := ltry s LSubscribe in
        fin s' (if m then ms ++ [(length (lsubs s), mx)] else ms)
      else fin s ms
  | BRecv k n =>
      let one s := ltry (lsettle (list_fuel s) (map fst ms) s) (SRecv (N.to_nat k)) in
      fin (fold_left (fun s _ => one s) (repeat tt (N.to_nat n)) s) ms
  | BDropColl => fin (ltry s LDropList) ms
  | BDropSub k => fin (ltry s (SDrop (N.to_nat k))) ms
  end.
Fixpoint lbigs (bs : list bstep_in) (st : lstate * list (nat * N)) : option (lstate * list (nat * N)) :=
  match bs with [] => Some st | b :: r => match lbig st b with Some st' => lbigs r st' | None => None end end.

Definition log_events (l : list lres) : list List_.event :=
  flat_map (fun x => match x with LEv e => [e] | LErr _ => [] end) l.
Definition log_err (l : list lres) : N :=
  fold_left (fun acc x => match x with LErr c => cls_num c | LEv _ => acc end) l 0.

Definition lprint (ms : list (nat * N)) (i : nat) (u : lsub) : list N :=
  let evs := log_events (l_log u) in
  match find (fun m => Nat.eqb (fst m) i) ms with
  | Some (_, mx) =>
      (* the mirror task: handle_event over what recv returned, then the error recv returned *)
      match List_.mirror_task (List_.sub_mirror mx) evs with
      | List_.HOk m =>
          if log_err (l_log u) =? 0
          then [1; 0; len (List_.mv m)] ++ List_.mv m ++ [nb (List_.mcomplete m); nb (List_.mdone m)]
          else [1; log_err (l_log u); len (List_.mv m)] ++ List_.mv m
      | List_.HErr m _ => [1; 1; len (List_.mv m)] ++ List_.mv m
      end
  | None => [0; log_err (l_log u); len evs] ++ flat_map RunRobsList.enc_event evs
  end.

Fixpoint lprints (ms : list (nat * N)) (i : nat) (l : list lsub) : list N :=
  match l with [] => [] | u :: r => lprint ms i u ++ lprints ms (S i) r end.

Definition run_robs_lag (inp : list N) : list N :=
  match inp with
  | kind :: n :: rest =>
      if 100 <=? kind then [96] else
      let cnt := if kind =? 2 then 2 * n else n in
      match take cnt rest with
      | None => [98]
      | Some (init, stepsn) =>
          match decode_steps (S (length stepsn)) stepsn with
          | None => [98]
          | Some steps =>
              match kind with
              | 0 => run_kind VecI.iface (fun l => RunRobsVec.decode_ops (length l) l) RunRobsVec.enc_event vec_m vec_flags false
                              {| Vec.items := init; Vec.cdone := false |} steps
              | 1 => run_kind DequeI.iface (fun l => RunRobsDeque.decode_ops (length l) l) RunRobsDeque.enc_event deque_m deque_flags false
                              {| VecDeque.items := init; VecDeque.cdone := false |} steps
              | 2 => run_kind MapI.iface (fun l => map_ops (S (length l)) l) RunRobsMap.enc_event map_m map_flags true
                              (HashMap.obs_of (pairs_of init)) steps
              | 3 => run_kind SetI.iface (fun l => set_ops (S (length l)) l) RunRobsSet.enc_event set_m set_flags true
                              (HashSet.obs_of init) steps
              | 4 => match lbigs steps (linit init, []) with
                     | Some (s, ms) => [77; len (lsubs s)] ++ lprints ms 0 (lsubs s)
                     | None => [98]
                     end
              | _ => [98]
              end
          end
      end
  | _ => [98]
  end.
