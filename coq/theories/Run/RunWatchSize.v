(** Watch channels with per-receiver item size limits, at quiescence (component 15, mode 2).

    An executable description of what `rch::watch` does with values whose serialized size exceeds the
    limit of a forwarding task ([send_impl]: `remote_tx.send` fails with the item-specific error
    MaxItemSizeExceeded, the task records the error and stops, which closes the cell behind the link
    and everything below it) or only the limit of the receiving task ([recv_impl]: the non-final receive
    error is stored as the cell's value, a new version, and receiving continues).  Every operation is
    followed by a quiescence barrier in the harness, so no schedule is involved: the state after an
    operation is a function of the state before it.  A cell is a Tokio watch cell; cell 0 belongs to the
    source (`watch::Sender`, or the sender inside the task of `watch::forward`), every other cell hangs
    below its parent through a link with a sender-side limit [cs] and a receiver-side limit [cr].
    Error values are small (they pass every limit; the harness checks this assumption).

    Input after the mode:  src op*          (src 0: watch::channel, 1: Tokio channel + watch::forward;
                                             both behave alike here)
      30 q v   move a clone of receiver q over the connection as variant v: limits lim(v/4), lim(v mod 4)
      31 q     clone receiver q              32 q   drop receiver q
      33 z     publish a value of serialized size z (payload z mod 2^24)
      34 q     borrow_and_update             -> 2 h p      (h = index+1, or 0 0 for an error value)
      35 q     poll changed(), then borrow_and_update -> 2 1 h p | 2 2 0 0 (closed) | 2 3 0 0 (pending)
      36       barrier      37 n  yields      38  drop the source
    an operation on a receiver that does not exist prints 99; at the end: 77 n, then per receiver
    0 (dropped) or 1 h p ended unseen.  Malformed: 98. *)
From Remoc Require Import Lib.Base.

Inductive held := HVal (i : N) | HErr.
Record cell := mkCell { cparent : nat; cs : N; cr : N; cended : bool; cheld : held; cver : N }.
Record rcv := mkRcv { ralive : bool; rcell : nat; rseen : N }.
Record sstate := mkSS { cells : list cell; rcvs : list rcv; pays : list N; srcalive : bool }.

(** what a cell passes on to the links below it in one round *)
Inductive dlv := DNone | DVal | DErr | DClosed.

Definition lim (k : N) : N :=
  match k with 0 => 96 | 1 => 400 | 2 => 3000 | _ => 16777216 end.

Definition root_cell : cell := mkCell O 0 0 false (HVal 0) 0.
Definition dead_cell : cell := mkCell O 0 0 true HErr 0.
Definition dead_rcv : rcv := mkRcv false O 0.

Definition init_size : sstate := mkSS [root_cell] [mkRcv true O 0] [0] true.

Definition step_cell (z i : N) (c : cell) (d : dlv) : cell * dlv :=
  if cended c then (c, DNone) else
  match d with
  | DNone => (c, DNone)
  | DVal =>
      if cs c <? z then (mkCell (cparent c) (cs c) (cr c) true (cheld c) (cver c), DClosed)
      else if cr c <? z then (mkCell (cparent c) (cs c) (cr c) false HErr (cver c + 1), DErr)
      else (mkCell (cparent c) (cs c) (cr c) false (HVal i) (cver c + 1), DVal)
  | DErr => (mkCell (cparent c) (cs c) (cr c) false HErr (cver c + 1), DErr)
  | DClosed => (mkCell (cparent c) (cs c) (cr c) true (cheld c) (cver c), DClosed)
  end.

(** cells are numbered in creation order, so a parent comes before its children *)
Fixpoint deliver (z i : N) (todo done : list cell) (ds : list dlv) : list cell :=
  match todo with
  | [] => done
  | c :: r =>
      let '(c', d') := step_cell z i c (nth (cparent c) ds DNone) in
      deliver z i r (done ++ [c']) (ds ++ [d'])
  end.

Definition publish (s : sstate) (z : N) : sstate :=
  if negb (srcalive s) then s else
  let i := len (pays s) in
  match cells s with
  | [] => s
  | c0 :: r =>
      let c0' := mkCell O 0 0 false (HVal i) (cver c0 + 1) in
      mkSS (deliver z i r [c0'] [DVal]) (rcvs s) (pays s ++ [z mod 16777216]) true
  end.

Definition drop_src (s : sstate) : sstate :=
  mkSS (map (fun c => mkCell (cparent c) (cs c) (cr c) true (cheld c) (cver c)) (cells s)) (rcvs s) (pays s) false.

Definition get_rcv (s : sstate) (q : N) : option rcv :=
  match nth_error (rcvs s) (N.to_nat q) with
  | Some r => if ralive r then Some r else None
  | None => None
  end.

Fixpoint set_nth {A} (l : list A) (i : nat) (x : A) : list A :=
  match l, i with
  | [], _ => []
  | _ :: r, O => x :: r
  | a :: r, S j => a :: set_nth r j x
  end.

Definition held_out (s : sstate) (h : held) : list N :=
  match h with
  | HVal i => [i + 1; nth (N.to_nat i) (pays s) 0]
  | HErr => [0; 0]
  end.

Definition b2n (b : bool) : N := if b then 1 else 0.

Definition final (s : sstate) : list N :=
  77 :: len (rcvs s) ::
  flat_map (fun r =>
    if ralive r then
      let c := nth (rcell r) (cells s) dead_cell in
      1 :: held_out s (cheld c) ++ [b2n (cended c); b2n (negb (rseen r =? cver c))]
    else [0]) (rcvs s).

Fixpoint run_size_ops (f : nat) (s : sstate) (ops : list N) : list N :=
  match f with
  | O => match ops with [] => final s | _ => [95] end
  | S f =>
    match ops with
    | [] => final s
    | 30 :: q :: v :: r =>
        match get_rcv s q with
        | None => 99 :: run_size_ops f s r
        | Some rc =>
            let p := nth (rcell rc) (cells s) dead_cell in
            let v := v mod 16 in
            let c := mkCell (rcell rc) (lim (v / 4)) (lim (v mod 4)) (cended p) (cheld p) 0 in
            run_size_ops f (mkSS (cells s ++ [c]) (rcvs s ++ [mkRcv true (length (cells s)) 0]) (pays s) (srcalive s)) r
        end
    | 31 :: q :: r =>
        match get_rcv s q with
        | None => 99 :: run_size_ops f s r
        | Some rc => run_size_ops f (mkSS (cells s) (rcvs s ++ [rc]) (pays s) (srcalive s)) r
        end
    | 32 :: q :: r =>
        match get_rcv s q with
        | None => 99 :: run_size_ops f s r
        | Some rc =>
            run_size_ops f (mkSS (cells s) (set_nth (rcvs s) (N.to_nat q) (mkRcv false (rcell rc) (rseen rc))) (pays s) (srcalive s)) r
        end
    | 33 :: z :: r => run_size_ops f (publish s z) r
    | 34 :: q :: r =>
        match get_rcv s q with
        | None => 99 :: run_size_ops f s r
        | Some rc =>
            let c := nth (rcell rc) (cells s) dead_cell in
            2 :: held_out s (cheld c) ++
            run_size_ops f (mkSS (cells s) (set_nth (rcvs s) (N.to_nat q) (mkRcv true (rcell rc) (cver c))) (pays s) (srcalive s)) r
        end
    | 35 :: q :: r =>
        match get_rcv s q with
        | None => 99 :: run_size_ops f s r
        | Some rc =>
            let c := nth (rcell rc) (cells s) dead_cell in
            if negb (rseen rc =? cver c) then
              2 :: 1 :: held_out s (cheld c) ++
              run_size_ops f (mkSS (cells s) (set_nth (rcvs s) (N.to_nat q) (mkRcv true (rcell rc) (cver c))) (pays s) (srcalive s)) r
            else if cended c then 2 :: 2 :: 0 :: 0 :: run_size_ops f s r
            else 2 :: 3 :: 0 :: 0 :: run_size_ops f s r
        end
    | 36 :: r => run_size_ops f s r
    | 37 :: _ :: r => run_size_ops f s r
    | 38 :: r => run_size_ops f (if srcalive s then drop_src s else s) r
    | _ => [98]
    end
  end.

Definition run_watch_size (inp : list N) : list N :=
  match inp with
  | src :: ops => if src <=? 1 then run_size_ops (length ops) init_size ops else [98]
  | _ => [98]
  end.
