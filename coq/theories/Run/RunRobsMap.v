(** Executable interface of the observable-hash-map model for the correspondence check
    ([vh robs_map]): numbers in, numbers out.

    Input:  mode(0 snapshot,1 incremental) max_size k ninit (key value)*ninit op*
    Ops:    0                                   set_error_handler
            1 k v                               insert
            2 k                                 remove
            3                                   clear
            4 keep t v n (k keep t v)*n         retain: default decision, decision table
            5 k n (w v)*n fin                   entry(k) + n and_modify (w=1: write v, w=0: touch) + final use
                fin: 0 | 1 v t av | 2 v t av | 3 v t av | 4 t av
                   | 5 n (s x y)*n f t av u v t av      (match: occupied steps (s=0: get_mut access (x,y); s=1: insert x),
                                                         occupied final f (0 drop,1 remove_entry,2 remove,3 into_mut (t,av)),
                                                         vacant use u (0 drop,1 into_key,2 insert v (t,av)))
            6 k t av                            get_mut + access
            7 n (k t av)*n                      iter_mut, RefMuts in drop order
            8                                   shrink_to_fit
            9                                   done
            access (t, av): t=0 read, 1 touch, 2 write av
    Output: per op  (99 if it panicked, else n_events followed by the events: 1 k v | 2 k | 3 | 4 | 5),
            observed: done n (k v)*n;  mirror: err complete done n (k v)*n  (err=1, max_size exceeded: 1 0 0 n);
            hand-consumed subscription: complete done n (k v)*n. *)
From Remoc Require Import Lib.Base Robs.KeyMap Robs.HashMap.

Definition nb (b : bool) : N := if b then 1 else 0.
Definition bn (n : N) : bool := negb (n =? 0).

Definition dec_access (t av : N) : option access :=
  match t with 0 => Some ARead | 1 => Some ATouch | 2 => Some (AWrite av) | _ => None end.

Definition dec_decision (keep t av : N) : option decision :=
  match dec_access t av with Some a => Some {| d_keep := bn keep; d_acc := a |} | None => None end.

(** read [n] groups with [f] *)
Fixpoint dec_many {A} (f : list N -> option (A * list N)) (n : nat) (l : list N) : option (list A * list N) :=
  match n with
  | O => Some ([], l)
  | S n' => match f l with
            | Some (a, l') => match dec_many f n' l' with Some (r, l'') => Some (a :: r, l'') | None => None end
            | None => None
            end
  end.

Definition dec_kdecision (l : list N) : option ((N * decision) * list N) :=
  match l with
  | k :: keep :: t :: av :: r => match dec_decision keep t av with Some d => Some ((k, d), r) | None => None end
  | _ => None
  end.
Definition dec_mod (l : list N) : option (option N * list N) :=
  match l with w :: v :: r => Some ((if bn w then Some v else None), r) | _ => None end.
Definition dec_kaccess (l : list N) : option ((N * access) * list N) :=
  match l with
  | k :: t :: av :: r => match dec_access t av with Some a => Some ((k, a), r) | None => None end
  | _ => None
  end.
Definition dec_occ_step (l : list N) : option (occ_step * list N) :=
  match l with
  | 0 :: t :: av :: r => match dec_access t av with Some a => Some (OGetMut a, r) | None => None end
  | 1 :: v :: _ :: r => Some (OInsert v, r)
  | _ => None
  end.

Definition dec_entry_final (l : list N) : option (entry_final * list N) :=
  match l with
  | 0 :: r => Some (EUnused, r)
  | 1 :: v :: t :: av :: r => match dec_access t av with Some a => Some (EOrInsert v a, r) | None => None end
  | 2 :: v :: t :: av :: r => match dec_access t av with Some a => Some (EOrInsertWith v a, r) | None => None end
  | 3 :: v :: t :: av :: r => match dec_access t av with Some a => Some (EOrInsertWithKey v a, r) | None => None end
  | 4 :: t :: av :: r => match dec_access t av with Some a => Some (EOrDefault a, r) | None => None end
  | 5 :: n :: r =>
      match dec_many dec_occ_step (N.to_nat n) r with
      | Some (sts, f :: t :: av :: u :: v :: t2 :: av2 :: r') =>
          match dec_access t av, dec_access t2 av2 with
          | Some a, Some a2 =>
              let fin := match f with 0 => Some ODrop | 1 => Some ORemoveEntry | 2 => Some ORemove | 3 => Some (OIntoMut a) | _ => None end in
              let vac := match u with 0 => Some VDrop | 1 => Some VIntoKey | 2 => Some (VInsert v a2) | _ => None end in
              match fin, vac with
              | Some fin, Some vac => Some (EMatch sts fin vac, r')
              | _, _ => None
              end
          | _, _ => None
          end
      | _ => None
      end
  | _ => None
  end.

Definition dec_op (l : list N) : option (op * list N) :=
  match l with
  | 0 :: r => Some (SetErrorHandler, r)
  | 1 :: k :: v :: r => Some (Insert k v, r)
  | 2 :: k :: r => Some (Remove k, r)
  | 3 :: r => Some (Clear, r)
  | 4 :: keep :: t :: av :: n :: r =>
      match dec_decision keep t av, dec_many dec_kdecision (N.to_nat n) r with
      | Some d, Some (ds, r') => Some (Retain d ds, r')
      | _, _ => None
      end
  | 5 :: k :: n :: r =>
      match dec_many dec_mod (N.to_nat n) r with
      | Some (mods, r') =>
          match dec_entry_final r' with Some (u, r'') => Some (Entry k mods u, r'') | None => None end
      | None => None
      end
  | 6 :: k :: t :: av :: r => match dec_access t av with Some a => Some (GetMut k a, r) | None => None end
  | 7 :: n :: r =>
      match dec_many dec_kaccess (N.to_nat n) r with Some (us, r') => Some (IterMut us, r') | None => None end
  | 8 :: r => Some (ShrinkToFit, r)
  | 9 :: r => Some (MarkDone, r)
  | _ => None
  end.

Fixpoint dec_ops (fuel : nat) (l : list N) : option (list op) :=
  match l with
  | [] => Some []
  | _ => match fuel with
         | O => None
         | S f => match dec_op l with
                  | Some (o, r) => match dec_ops f r with Some os => Some (o :: os) | None => None end
                  | None => None
                  end
         end
  end.

Definition dec_pair (l : list N) : option ((N * N) * list N) :=
  match l with k :: v :: r => Some ((k, v), r) | _ => None end.

Definition enc_event (e : event) : list N :=
  match e with
  | ESet k v => [1; k; v] | ERemove k => [2; k] | EClear => [3] | EShrinkToFit => [4] | EDone => [5]
  | EInitialComplete => [6]
  end.
Definition enc_map (m : hmap) : list N := len m :: flat_map (fun e => [fst e; snd e]) m.

(** per-op output; a panicking call is reported as 99 *)
Fixpoint enc_trace (s : obs) (ops : list op) : list N :=
  match ops with
  | [] => []
  | o :: r =>
      (match apply_op s o with
       | None => [99]
       | Some (_, evs) => len evs :: flat_map enc_event evs
       end) ++ enc_trace (fst (step s o)) r
  end.

Definition run_robs_map (inp : list N) : list N :=
  match inp with
  | md :: max :: k :: ninit :: rest =>
      match dec_many dec_pair (N.to_nat ninit) rest with
      | Some (init, rest') =>
          match dec_ops (length rest') rest' with
          | Some ops =>
              let md := if bn md then Incremental else Snapshot in
              let k := N.to_nat k in
              let s0 := obs_of init in
              let sk := fst (run_ops s0 (firstn k ops)) in
              let (sn, bevs) := run_ops sk (skipn k ops) in
              let stream := sub_stream md sk bevs in
              let (mi, err) := mirror_task (mirror_init md sk max) stream in
              let hand := replay (initial_map md sk) stream in
              enc_trace s0 ops
              ++ [nb (o_done sn)] ++ enc_map (o_hm sn)
              ++ (match err with
                  | None => [0; nb (m_complete mi); nb (m_done mi)] ++ enc_map (m_hm mi)
                  | Some (MaxSizeExceeded _) =>
                      (* borrow() fails: flags not readable; which entries made it into the mirror
                         depends on the hash order of the incremental initial value: size only *)
                      [1; 0; 0; len (m_hm mi)]
                  end)
              ++ [nb (match md with Snapshot => true | Incremental => existsb is_complete_ev stream end);
                  nb (existsb is_done_ev stream)] ++ enc_map hand
          | None => [98]
          end
      | None => [98]
      end
  | _ => [98]
  end.
