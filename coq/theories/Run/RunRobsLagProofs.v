(** Every state visited by the big-step runner of component 14 is reachable by small steps of
    [Robs/Mirror.v] (resp. [Robs/ListDist.v]), so the C14 theorems apply to what is compared with the
    implementation. *)
From Remoc Require Import Lib.Base Rch.Broadcast Robs.Mirror Robs.ListDist Run.RunRobsLag.

Section Sound.
  Variable I : iface.
  Definition Reach (s s' : mstate I) : Prop := exists acts, run I acts s = Some s'.

  Lemma run_app a1 : forall a2 s, run I (a1 ++ a2) s = match run I a1 s with Some s' => run I a2 s' | None => None end.
  Proof. induction a1 as [|a r IH]; intros a2 s; cbn [app run]; [reflexivity|]. destruct (step I s a); auto. Qed.
  Lemma Reach_refl s : Reach s s.
  Proof. now exists []. Qed.
  Lemma Reach_trans s1 s2 s3 : Reach s1 s2 -> Reach s2 s3 -> Reach s1 s3.
  Proof. intros [a1 H1] [a2 H2]. exists (a1 ++ a2). now rewrite run_app, H1. Qed.
  Lemma Reach_try_step s a : Reach s (try_step I s a).
  Proof. unfold try_step. destruct (step I s a) as [s'|] eqn:H; [exists [a]; cbn [run]; now rewrite H|apply Reach_refl]. Qed.
  Lemma Reach_try_steps acts : forall s, Reach s (try_steps I acts s).
  Proof. induction acts as [|a r IH]; intros s; cbn [try_steps]; [apply Reach_refl|]. eapply Reach_trans; [apply Reach_try_step|apply IH]. Qed.
  Lemma Reach_fold {A} (f : mstate I -> A -> mstate I) (l : list A) :
    (forall s x, Reach s (f s x)) -> forall s, Reach s (fold_left f l s).
  Proof. intros Hf. induction l as [|x r IH]; intros s; cbn [fold_left]; [apply Reach_refl|]. eapply Reach_trans; [apply Hf|apply IH]. Qed.

  Lemma Reach_call s o : Reach s (call I s o).
  Proof. unfold call. eapply Reach_trans; [apply Reach_try_step|apply Reach_try_steps]. Qed.
  Lemma Reach_quiesce_one s j : Reach s (quiesce_one I s j).
  Proof. unfold quiesce_one. eapply Reach_trans; [apply Reach_try_steps|]. eapply Reach_trans; [apply Reach_try_steps|apply Reach_try_steps]. Qed.
  Lemma Reach_quiesce_all s : Reach s (quiesce_all I s).
  Proof. unfold quiesce_all. apply Reach_fold. apply Reach_quiesce_one. Qed.
  Lemma Reach_drain s : Reach s (drain_mirrors I s).
  Proof.
    unfold drain_mirrors. apply Reach_fold. intros s0 i. destruct (nth_error (rsubs s0) i) as [r|]; [|apply Reach_refl].
    destruct (r_mirror r); [apply Reach_try_steps|apply Reach_refl].
  Qed.
  Lemma Reach_settle s : Reach s (settle I s).
  Proof.
    unfold settle. assert (H : forall s0, Reach s0 (drain_mirrors I (quiesce_all I s0))).
    { intros s0. eapply Reach_trans; [apply Reach_quiesce_all|apply Reach_drain]. }
    eapply Reach_trans; [apply H|]. eapply Reach_trans; [apply H|]. eapply Reach_trans; [apply H|apply H].
  Qed.

  Variable dec_ops : list N -> option (list (iOp I)).
  Lemma big_sound s b s' : big I dec_ops s b = Some s' -> Reach s s'.
  Proof.
    destruct b as [xs|m i c mx|k n| |k]; cbn [big]; intros H.
    - destruct (dec_ops xs) as [ops|]; [|discriminate]. injection H as <-.
      eapply Reach_trans; [apply (Reach_fold (call I) ops); apply Reach_call|apply Reach_settle].
    - injection H as <-. eapply Reach_trans; [apply Reach_try_step|apply Reach_settle].
    - injection H as <-. eapply Reach_trans; [|apply Reach_settle].
      apply (Reach_fold (fun s0 (_ : unit) => try_step I (settle I s0) (ARecv I (N.to_nat k)))).
      intros s0 _. eapply Reach_trans; [apply Reach_settle|apply Reach_try_step].
    - injection H as <-. eapply Reach_trans; [apply Reach_try_step|apply Reach_settle].
    - injection H as <-. eapply Reach_trans; [apply Reach_try_step|apply Reach_settle].
  Qed.

  Lemma bigs_sound bs : forall s s', bigs I dec_ops bs s = Some s' -> Reach s s'.
  Proof.
    induction bs as [|b r IH]; intros s s' H; cbn [bigs] in H.
    - injection H as <-. apply Reach_refl.
    - destruct (big I dec_ops s b) as [s1|] eqn:Hb; [|discriminate].
      eapply Reach_trans; [eapply big_sound; eauto|now apply IH].
  Qed.
End Sound.

(** the list runner *)
Definition LReach (s s' : lstate) : Prop := exists acts, lrun acts s = Some s'.
Lemma lrun_app a1 : forall a2 s, lrun (a1 ++ a2) s = match lrun a1 s with Some s' => lrun a2 s' | None => None end.
Proof. induction a1 as [|a r IH]; intros a2 s; cbn [app lrun]; [reflexivity|]. destruct (lstep s a); auto. Qed.
Lemma LReach_refl s : LReach s s.
Proof. now exists []. Qed.
Lemma LReach_trans s1 s2 s3 : LReach s1 s2 -> LReach s2 s3 -> LReach s1 s3.
Proof. intros [a1 H1] [a2 H2]. exists (a1 ++ a2). now rewrite lrun_app, H1. Qed.
Lemma LReach_try s a : LReach s (ltry s a).
Proof. unfold ltry. destruct (lstep s a) as [s'|] eqn:H; [exists [a]; cbn [lrun]; now rewrite H|apply LReach_refl]. Qed.
Lemma LReach_trys acts : forall s, LReach s (ltrys acts s).
Proof. induction acts as [|a r IH]; intros s; cbn [ltrys]; [apply LReach_refl|]. eapply LReach_trans; [apply LReach_try|apply IH]. Qed.
Lemma LReach_round ms s : LReach s (lround ms s).
Proof.
  unfold lround. do 4 (eapply LReach_trans; [apply LReach_trys|]). apply LReach_trys.
Qed.
Lemma LReach_settle f : forall ms s, LReach s (lsettle f ms s).
Proof. induction f as [|f IH]; intros ms s; cbn [lsettle]; [apply LReach_refl|]. eapply LReach_trans; [apply LReach_round|apply IH]. Qed.

Lemma lbig_sound st b st' : lbig st b = Some st' -> LReach (fst st) (fst st').
Proof.
  destruct st as [s ms]. destruct b as [xs|m i c mx|k n| |k]; cbn [lbig fst]; intros H.
  - destruct (list_ops (S (length xs)) xs) as [acts|]; [|discriminate]. injection H as <-. cbn [fst].
    eapply LReach_trans; [apply LReach_trys|apply LReach_settle].
  - destruct (palive s); injection H as <-; cbn [fst]; [eapply LReach_trans; [apply LReach_try|apply LReach_settle]|apply LReach_settle].
  - injection H as <-. cbn [fst]. eapply LReach_trans; [|apply LReach_settle].
    generalize (repeat tt (N.to_nat n)). intros l. revert s. induction l as [|x l IH]; intros s; cbn [fold_left]; [apply LReach_refl|].
    eapply LReach_trans; [|apply IH]. eapply LReach_trans; [apply LReach_settle|apply LReach_try].
  - injection H as <-. cbn [fst]. eapply LReach_trans; [apply LReach_try|apply LReach_settle].
  - injection H as <-. cbn [fst]. eapply LReach_trans; [apply LReach_try|apply LReach_settle].
Qed.

Lemma lbigs_sound bs : forall st st', lbigs bs st = Some st' -> LReach (fst st) (fst st').
Proof.
  induction bs as [|b r IH]; intros st st' H; cbn [lbigs] in H.
  - injection H as <-. apply LReach_refl.
  - destruct (lbig st b) as [st1|] eqn:Hb; [|discriminate].
    eapply LReach_trans; [eapply lbig_sound; eauto|now apply IH].
Qed.
