(** Executable interface of the observable-hash-set model for the correspondence check
    ([vh robs_set]).

    Input:  mode(0 snapshot,1 incremental) max_size k ninit elem*ninit op*
    Ops:    0 set_error_handler | 1 k insert | 2 k replace | 3 k remove | 4 k take | 5 clear
          | 6 dflt n (k keep)*n retain | 7 shrink_to_fit | 8 done
    Output: per op  (99 if it panicked, else n_events followed by the events: 1 k | 2 k | 3 | 4 | 5),
            observed: done n elem*n;  mirror: err complete done n elem*n  (err=1: 1 0 0 n);
            hand-consumed subscription: complete done n elem*n. *)
From Remoc Require Import Lib.Base Robs.KeyMap Robs.HashSet.

Definition nb (b : bool) : N := if b then 1 else 0.
Definition bn (n : N) : bool := negb (n =? 0).

Fixpoint dec_pairs (n : nat) (l : list N) : option (list (N * bool) * list N) :=
  match n with
  | O => Some ([], l)
  | S n' => match l with
            | k :: b :: r => match dec_pairs n' r with Some (ps, r') => Some ((k, bn b) :: ps, r') | None => None end
            | _ => None
            end
  end.

Definition dec_op (l : list N) : option (op * list N) :=
  match l with
  | 0 :: r => Some (SetErrorHandler, r)
  | 1 :: k :: r => Some (Insert k, r)
  | 2 :: k :: r => Some (Replace k, r)
  | 3 :: k :: r => Some (Remove k, r)
  | 4 :: k :: r => Some (Take k, r)
  | 5 :: r => Some (Clear, r)
  | 6 :: d :: n :: r => match dec_pairs (N.to_nat n) r with Some (ds, r') => Some (Retain (bn d) ds, r') | None => None end
  | 7 :: r => Some (ShrinkToFit, r)
  | 8 :: r => Some (MarkDone, r)
  | _ => None
  end.

Fixpoint dec_ops (fuel : nat) (l : list N) : option (list op) :=
  match l with
  | [] => Some []
  | _ => match fuel with
         | O => None
         | S f => match dec_op l with
                  | Some (o, r) => match dec_ops f r with Some os => Some (o :: os) | None => None end
                  | None => None
                  end
         end
  end.

Definition enc_event (e : event) : list N :=
  match e with
  | ESet k => [1; k] | ERemove k => [2; k] | EClear => [3] | EShrinkToFit => [4] | EDone => [5]
  | EInitialComplete => [6]
  end.
Definition enc_set (s : hset) : list N := len s :: elems s.

Fixpoint enc_trace (s : obs) (ops : list op) : list N :=
  match ops with
  | [] => []
  | o :: r =>
      (match apply_op s o with
       | None => [99]
       | Some (_, evs) => len evs :: flat_map enc_event evs
       end) ++ enc_trace (fst (step s o)) r
  end.

Definition run_robs_set (inp : list N) : list N :=
  match inp with
  | md :: max :: k :: ninit :: rest =>
      let n := N.to_nat ninit in
      if (length rest <? n)%nat then [98] else
      let init := firstn n rest in
      let rest' := skipn n rest in
      match dec_ops (length rest') rest' with
      | Some ops =>
          let md := if bn md then Incremental else Snapshot in
          let k := N.to_nat k in
          let s0 := obs_of init in
          let sk := fst (run_ops s0 (firstn k ops)) in
          let (sn, bevs) := run_ops sk (skipn k ops) in
          let stream := sub_stream md sk bevs in
          let (mi, err) := mirror_task (mirror_init md sk max) stream in
          let hand := replay (initial_set md sk) stream in
          enc_trace s0 ops
          ++ [nb (o_done sn)] ++ enc_set (o_hs sn)
          ++ (match err with
              | None => [0; nb (m_complete mi); nb (m_done mi)] ++ enc_set (m_hs mi)
              | Some (MaxSizeExceeded _) => [1; 0; 0; len (m_hs mi)]
              end)
          ++ [nb (match md with Snapshot => true | Incremental => existsb is_complete_ev stream end);
              nb (existsb is_done_ev stream)] ++ enc_set hand
      | None => [98]
      end
  | _ => [98]
  end.
