(** Executable big-step interface of the shared-event-queue model ([Chmux/SharedQueue.v]): one endpoint sends
    one-byte messages on several ports to a peer whose receivers consume only when told to.
    input:  [cap; n; rb; ops...]   cap = shared_send_queue of the sender's endpoint, n ports, rb = receive buffer
            the peer advertised (= initial credits of every port)
    ops (triples): 1 p k  a task starts sending k one-byte messages on port p (ignored unless the port is idle)
                   2 p _  that task is cancelled
                   3 p k  the remote receiver of port p takes up to k messages (credits come back by the threshold rule)
    After every op the system runs to quiescence; output per op: for every port the number of frames handed to the
    dispatcher so far and whether its operation is still pending, then 77. *)
From Remoc Require Import Lib.Base Chmux.SharedQueue Chmux.SharedQueueProofs.
From RecordUpdate Require Import RecordUpdate.

Definition candidates (s : sq) : list act :=
  [SPop; SUseRet] ++ map (fun x => SUse (pid x)) (ports s) ++ [SGrant] ++ map (fun x => SPoll (pid x)) (ports s).

Fixpoint first_enabled (s : sq) (l : list act) : option sq :=
  match l with
  | [] => None
  | a :: r => match step_opt s a with Some s' => Some s' | None => first_enabled s r end
  end.

Fixpoint settle (fuel : nat) (s : sq) : sq :=
  match fuel with
  | O => s
  | S f => match first_enabled s (candidates s) with Some s' => settle f s' | None => s end
  end.

Definition settle_all (s : sq) : sq := settle (S (N.to_nat (M s))) s.

Record rq := mk_rq {
  q_s : sq;
  q_rb : N;
  q_consumed : list (N * N);    (** per port: messages the remote receiver has taken *)
  q_toret : list (N * N)        (** per port: [ChannelCreditReturner::to_return] of the remote receiver *)
}.

#[global] Instance eta_rq : Settable _ := settable! mk_rq <q_s; q_rb; q_consumed; q_toret>.

Fixpoint lookupN (p : N) (l : list (N * N)) : N :=
  match l with [] => 0 | (k, v) :: r => if k =? p then v else lookupN p r end.
Fixpoint updN (p v : N) (l : list (N * N)) : list (N * N) :=
  match l with [] => [(p, v)] | (k, w) :: r => if k =? p then (k, v) :: r else (k, w) :: updN p v r end.

Definition threshold (rb : N) : N := if 8 <=? rb then rb / 2 else 1.

(** [j] messages of cost 1 consumed one after the other: credits sent back and the new [to_return] *)
Fixpoint consume (j : nat) (thr toret sent : N) : N * N :=
  match j with
  | O => (sent, toret)
  | S j' => let t := toret + 1 in if thr <=? t then consume j' thr 0 (sent + t) else consume j' thr t sent
  end.

Definition big (r : rq) (op p k : N) : rq :=
  let s := q_s r in
  match op with
  | 1 => r <| q_s := settle_all (step s (UStart p k)) |>
  | 2 => r <| q_s := settle_all (step s (UCancel p)) |>
  | 3 =>
      let avail := countw (WOp p) (handed s) - lookupN p (q_consumed r) in
      let j := N.min k avail in
      let '(sent, toret) := consume (N.to_nat j) (threshold (q_rb r)) (lookupN p (q_toret r)) 0 in
      r <| q_consumed := updN p (lookupN p (q_consumed r) + j) (q_consumed r) |>
        <| q_toret := updN p toret (q_toret r) |>
        <| q_s := settle_all (if sent =? 0 then s else step s (ECredits p sent)) |>
  | _ => r
  end.

Definition report (s : sq) : list N :=
  flat_map (fun x => [countw (WOp (pid x)) (handed s); match ph x with PIdle => 0 | _ => 1 end]) (ports s) ++ [77].

Fixpoint run_ops (r : rq) (l : list N) (fuel : nat) : list N :=
  match fuel with
  | O => [99]
  | S f =>
      match l with
      | op :: p :: k :: rest => let r' := big r op p k in report (q_s r') ++ run_ops r' rest f
      | _ => []
      end
  end.

Definition run_sharedq (inp : list N) : list N :=
  match inp with
  | cap :: n :: rb :: ops =>
      if (cap =? 0) || (n =? 0) || (16 <? n) || (rb <? 4) then [98]
      else
        let ps := map (fun i => (N.of_nat i, rb)) (seq 0 (N.to_nat n)) in
        run_ops {| q_s := init cap ps; q_rb := rb; q_consumed := []; q_toret := [] |} ops (S (length ops))
  | _ => [98]
  end.
