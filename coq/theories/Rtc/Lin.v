(** Linearizability of a client-visible call history w.r.t. a sequential specification, and an
    executable, certifying checker for it (used by C12; the harness asks this checker, extracted,
    about every history it records on the real implementation).

    A history is the chronological list of invocation and response events seen by the clients:
    [HInv i c] -- call number [i] (fresh) is invoked with call [c];
    [HRet i (Some r)] -- call [i] returns the callee's result [r];
    [HRet i None] -- call [i] returns a call error (its effect may or may not have happened, now or later).
    Calls without a response (pending, or whose future was dropped) have only the [HInv].

    The sequential specification is a deterministic state machine: [apply s c] is the new state and
    the result; calls that take the target by shared reference or by value do not change the state
    seen by others ([is_mut c = false]).

    [Linearizable s0 h]: there is a sequence [lin] of distinct calls, each invoked in [h] with exactly
    these arguments, containing every call that returned a result, such that running [lin] one call
    after the other from [s0] produces exactly the returned results, and such that a call that
    returned a result before another call was invoked comes first (real-time order).  Calls that
    returned an error or nothing appear at most once, anywhere after their invocation. *)
From Remoc Require Import Lib.Base.

Section Lin.
Context {St Call Rep : Type}.
Variable is_mut : Call -> bool.
Variable apply : St -> Call -> St * Rep.

Inductive hev := HInv (i : N) (c : Call) | HRet (i : N) (o : option Rep).

Definition lin_entry : Type := N * Call * Rep.
Definition le_id (e : lin_entry) : N := fst (fst e).

Definition next_state (s : St) (c : Call) : St := if is_mut c then fst (apply s c) else s.

Fixpoint replay (s : St) (l : list lin_entry) : Prop :=
  match l with
  | [] => True
  | (_, c, r) :: t => r = snd (apply s c) /\ replay (next_state s c) t
  end.

(** position of the first occurrence *)
Fixpoint idx (i : N) (l : list N) : option nat :=
  match l with
  | [] => None
  | j :: t => if j =? i then Some O else option_map S (idx i t)
  end.

Definition Linearizable (s0 : St) (h : list hev) : Prop :=
  exists lin : list lin_entry,
    NoDup (map le_id lin) /\
    (forall i c r, In (i, c, r) lin -> In (HInv i c) h) /\
    (forall i r, In (HRet i (Some r)) h -> exists c, In (i, c, r) lin) /\
    replay s0 lin /\
    (forall h1 h2 h3 a ra b cb x y,
        h = h1 ++ HRet a (Some ra) :: h2 ++ HInv b cb :: h3 ->
        idx a (map le_id lin) = Some x -> idx b (map le_id lin) = Some y -> (x < y)%nat).

(** * The checker *)
Variable call_eqb : Call -> Call -> bool.
Variable rep_eqb : Rep -> Rep -> bool.
Hypothesis call_eqb_eq : forall a b, call_eqb a b = true -> a = b.
Hypothesis rep_eqb_eq : forall a b, rep_eqb a b = true -> a = b.

(** ** validation of a candidate linearization: decides the five clauses of [Linearizable] *)
Fixpoint nodupb (l : list N) : bool :=
  match l with
  | [] => true
  | x :: t => negb (existsb (N.eqb x) t) && nodupb t
  end.

Definition hev_is_inv (i : N) (c : Call) (e : hev) : bool :=
  match e with HInv j d => (j =? i) && call_eqb d c | _ => false end.

Definition entry_has (i : N) (r : Rep) (e : lin_entry) : bool :=
  let '(j, _, r') := e in (j =? i) && rep_eqb r' r.

Fixpoint replayb (s : St) (l : list lin_entry) : bool :=
  match l with
  | [] => true
  | (_, c, r) :: t => rep_eqb r (snd (apply s c)) && replayb (next_state s c) t
  end.

Definition before_ok (ids : list N) (a b : N) : bool :=
  match idx a ids, idx b ids with
  | Some x, Some y => Nat.ltb x y
  | _, _ => true
  end.

(** every invocation after position 0 of [t] is not linearized before [a] *)
Definition later_ok (ids : list N) (a : N) (t : list hev) : bool :=
  forallb (fun e => match e with HInv b _ => before_ok ids a b | _ => true end) t.

Fixpoint rt_ok (ids : list N) (h : list hev) : bool :=
  match h with
  | [] => true
  | HRet a (Some _) :: t => later_ok ids a t && rt_ok ids t
  | _ :: t => rt_ok ids t
  end.

Definition validate (s0 : St) (h : list hev) (lin : list lin_entry) : bool :=
  nodupb (map le_id lin) &&
  forallb (fun e => let '(i, c, _) := e in existsb (hev_is_inv i c) h) lin &&
  forallb (fun e => match e with HRet i (Some r) => existsb (entry_has i r) lin | _ => true end) h &&
  replayb s0 lin &&
  rt_ok (map le_id lin) h.

(** ** search for a candidate (Wing-Gong style depth-first search; its result is validated, so the
    search itself carries no proof obligation) *)
Record op := mkOp { o_id : N; o_call : Call; o_inv : nat; o_ret : option (nat * Rep) }.

Fixpoint find_ret (i : N) (h : list hev) (p : nat) : option (nat * Rep) :=
  match h with
  | [] => None
  | HRet j (Some r) :: t => if j =? i then Some (p, r) else find_ret i t (S p)
  | _ :: t => find_ret i t (S p)
  end.

Fixpoint ops_from (whole h : list hev) (p : nat) : list op :=
  match h with
  | [] => []
  | HInv i c :: t => mkOp i c p (find_ret i whole O) :: ops_from whole t (S p)
  | _ :: t => ops_from whole t (S p)
  end.

Definition completed (o : op) : bool := match o_ret o with Some _ => true | None => false end.

(** calls without a result matter only if they may have changed the state *)
Definition ops_of (h : list hev) : list op :=
  filter (fun o => completed o || is_mut (o_call o)) (ops_from h h O).

(** no remaining completed call returned before [o] was invoked *)
Definition minimal (o : op) (rem : list op) : bool :=
  forallb (fun o' => match o_ret o' with Some (q, _) => negb (Nat.ltb q (o_inv o)) | None => true end) rem.

Definition without (o : op) (rem : list op) : list op :=
  filter (fun o' => negb (o_id o' =? o_id o)) rem.

Fixpoint dfs (fuel : nat) (s : St) (rem : list op) : option (list lin_entry) :=
  match fuel with
  | O => None
  | S f =>
      if forallb (fun o => negb (completed o)) rem then Some []
      else
        (fix try (cands : list op) : option (list lin_entry) :=
           match cands with
           | [] => None
           | o :: cs =>
               if minimal o rem then
                 let r := snd (apply s (o_call o)) in
                 let ok := match o_ret o with Some (_, r0) => rep_eqb r r0 | None => true end in
                 if ok then
                   match dfs f (next_state s (o_call o)) (without o rem) with
                   | Some l => Some ((o_id o, o_call o, r) :: l)
                   | None => try cs
                   end
                 else try cs
               else try cs
           end) rem
  end.

Definition linearizable (s0 : St) (h : list hev) : bool :=
  let ops := ops_of h in
  match dfs (S (length ops)) s0 ops with
  | Some lin => validate s0 h lin
  | None => false
  end.

(** * Soundness *)
Lemma nodupb_sound l : nodupb l = true -> NoDup l.
Proof.
  induction l as [|x t IH]; cbn [nodupb]; intros H; [constructor|].
  apply andb_true_iff in H as [H1 H2]. constructor; [|auto].
  intros Hin. apply negb_true_iff in H1.
  assert (existsb (N.eqb x) t = true) as E; [|congruence].
  apply existsb_exists. exists x. split; [exact Hin|apply N.eqb_refl].
Qed.

Lemma replayb_sound l : forall s, replayb s l = true -> replay s l.
Proof.
  induction l as [|[[i c] r] t IH]; intros s H; cbn [replayb replay] in *; [exact I|].
  apply andb_true_iff in H as [H1 H2]. split; [apply rep_eqb_eq, H1|apply IH, H2].
Qed.

Lemma later_ok_sound ids a t h2 b cb h3 x y :
  later_ok ids a t = true -> t = h2 ++ HInv b cb :: h3 ->
  idx a ids = Some x -> idx b ids = Some y -> (x < y)%nat.
Proof.
  unfold later_ok. intros H -> Hx Hy. rewrite forallb_forall in H.
  specialize (H (HInv b cb)). cbn beta iota in H. unfold before_ok in H. rewrite Hx, Hy in H.
  apply Nat.ltb_lt, H. apply in_or_app. right. left. reflexivity.
Qed.

Lemma rt_ok_sound ids h : rt_ok ids h = true ->
  forall h1 h2 h3 a ra b cb x y, h = h1 ++ HRet a (Some ra) :: h2 ++ HInv b cb :: h3 ->
  idx a ids = Some x -> idx b ids = Some y -> (x < y)%nat.
Proof.
  induction h as [|e t IH]; intros H h1 h2 h3 a ra b cb x y E Hx Hy.
  - destruct h1; discriminate.
  - destruct h1 as [|e1 h1]; cbn [app] in E; injection E as -> ->.
    + cbn [rt_ok] in H. apply andb_true_iff in H as [H _].
      eapply later_ok_sound; eauto.
    + assert (rt_ok ids (h1 ++ HRet a (Some ra) :: h2 ++ HInv b cb :: h3) = true) as H'.
      { cbn [rt_ok] in H. destruct e1 as [j c|j [r|]]; [exact H| |exact H].
        apply andb_true_iff in H as [_ H]. exact H. }
      eapply IH; eauto.
Qed.

Theorem validate_sound s0 h lin : validate s0 h lin = true ->
  NoDup (map le_id lin) /\
  (forall i c r, In (i, c, r) lin -> In (HInv i c) h) /\
  (forall i r, In (HRet i (Some r)) h -> exists c, In (i, c, r) lin) /\
  replay s0 lin /\
  (forall h1 h2 h3 a ra b cb x y,
      h = h1 ++ HRet a (Some ra) :: h2 ++ HInv b cb :: h3 ->
      idx a (map le_id lin) = Some x -> idx b (map le_id lin) = Some y -> (x < y)%nat).
Proof.
  unfold validate. intros H.
  apply andb_true_iff in H as [H H5]. apply andb_true_iff in H as [H H4].
  apply andb_true_iff in H as [H H3]. apply andb_true_iff in H as [H1 H2].
  split; [apply nodupb_sound, H1|]. split; [|split; [|split]].
  - intros i c r Hin. rewrite forallb_forall in H2. specialize (H2 _ Hin). cbn beta iota in H2.
    apply existsb_exists in H2 as [e [He1 He2]]. destruct e as [j d|j o]; cbn [hev_is_inv] in He2; [|discriminate].
    apply andb_true_iff in He2 as [Ej Ed]. apply N.eqb_eq in Ej. apply call_eqb_eq in Ed. subst. exact He1.
  - intros i r Hin. rewrite forallb_forall in H3. specialize (H3 _ Hin). cbn beta iota in H3.
    apply existsb_exists in H3 as [[[j c] r'] [He1 He2]]. cbn [entry_has] in He2.
    apply andb_true_iff in He2 as [Ej Er]. apply N.eqb_eq in Ej. apply rep_eqb_eq in Er. subst. exists c. exact He1.
  - apply replayb_sound, H4.
  - apply rt_ok_sound, H5.
Qed.

Theorem linearizable_sound s0 h : linearizable s0 h = true -> Linearizable s0 h.
Proof.
  unfold linearizable. destruct (dfs _ _ _) as [lin|]; [|discriminate].
  intros H. exists lin. apply validate_sound, H.
Qed.

End Lin.
