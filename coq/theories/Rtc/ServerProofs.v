(** Proofs about the remote-call model [Rtc/Server.v], for every action list. *)
From Remoc Require Import Lib.Base Rtc.Lin Rtc.Server.
From RecordUpdate Require Import RecordUpdate.

#[local] Arguments N.to_nat : simpl never.
#[local] Arguments N.of_nat : simpl never.

(** * Lists *)
Lemma upd_length {A} (f : A -> A) l : forall n, length (upd n f l) = length l.
Proof. induction l as [|x t IH]; intros [|n]; cbn [upd length]; auto. Qed.

Lemma nth_error_upd_eq {A} (f : A -> A) l : forall n x, nth_error l n = Some x -> nth_error (upd n f l) n = Some (f x).
Proof. induction l as [|y t IH]; intros [|n] x; cbn [upd nth_error]; try discriminate; [congruence|auto]. Qed.

Lemma nth_error_upd_ne {A} (f : A -> A) l : forall n m, n <> m -> nth_error (upd n f l) m = nth_error l m.
Proof.
  induction l as [|y t IH]; intros [|n] [|m] H; cbn [upd nth_error]; auto; try congruence.
Qed.

Lemma nth_error_upd {A} (f : A -> A) l n m :
  nth_error (upd n f l) m = if Nat.eqb n m then option_map f (nth_error l m) else nth_error l m.
Proof.
  destruct (Nat.eqb n m) eqn:E.
  - apply Nat.eqb_eq in E. subst m. destruct (nth_error l n) eqn:E2.
    + now apply nth_error_upd_eq.
    + cbn. apply nth_error_None. rewrite upd_length. now apply nth_error_None.
  - apply Nat.eqb_neq in E. now apply nth_error_upd_ne.
Qed.

Lemma upd_none {A} (f : A -> A) l n : nth_error l n = None -> upd n f l = l.
Proof. revert n. induction l as [|y t IH]; intros [|n]; cbn [upd nth_error]; auto; [discriminate|]. intros H. now rewrite IH. Qed.

Lemma nth_error_app_len {A} (l : list A) x : nth_error (l ++ [x]) (length l) = Some x.
Proof. rewrite nth_error_app2 by lia. now rewrite Nat.sub_diag. Qed.

Lemma in_upd {A} (f : A -> A) l n y : In y (upd n f l) -> In y l \/ exists x, nth_error l n = Some x /\ y = f x.
Proof.
  revert n. induction l as [|x t IH]; intros [|n]; cbn [upd]; intros H; try contradiction.
  - destruct H as [<-|H]; [right; exists x; split; reflexivity|left; now right].
  - destruct H as [<-|H]; [left; now left|]. apply IH in H as [H|H]; [left; now right|right; exact H].
Qed.

Lemma in_del {A} (l : list A) n y : In y (del n l) -> In y l.
Proof.
  revert n. induction l as [|x t IH]; intros [|n]; cbn [del]; intros H; try contradiction.
  - now right.
  - destruct H as [<-|H]; [now left|right; eauto].
Qed.

Lemma del_length {A} (l : list A) n x : nth_error l n = Some x -> S (length (del n l)) = length l.
Proof.
  revert n. induction l as [|y t IH]; intros [|n]; cbn [del nth_error length]; try discriminate; auto.
Qed.

Lemma del_split {A} (l : list A) n x : nth_error l n = Some x ->
  exists l1 l2, l = l1 ++ x :: l2 /\ del n l = l1 ++ l2.
Proof.
  revert n. induction l as [|y t IH]; intros [|n]; cbn [del nth_error]; try discriminate.
  - intros [= ->]. exists [], t. split; reflexivity.
  - intros H. destruct (IH _ H) as (l1 & l2 & -> & E). exists (y :: l1), l2. cbn [app]. now rewrite E.
Qed.

Lemma upd_split {A} (f : A -> A) (l : list A) n x : nth_error l n = Some x ->
  exists l1 l2, l = l1 ++ x :: l2 /\ upd n f l = l1 ++ f x :: l2.
Proof.
  revert n. induction l as [|y t IH]; intros [|n]; cbn [upd nth_error]; try discriminate.
  - intros [= ->]. exists [], t. split; reflexivity.
  - intros H. destruct (IH _ H) as (l1 & l2 & -> & E). exists (y :: l1), l2. cbn [app]. now rewrite E.
Qed.

Lemma flat_map_rev1 {A B} (f : A -> list B) l :
  (forall x, (length (f x) <= 1)%nat) -> flat_map f (rev l) = rev (flat_map f l).
Proof.
  intros Hf. induction l as [|x t IH]; [reflexivity|].
  cbn [rev flat_map]. rewrite flat_map_app, IH. cbn [flat_map]. rewrite app_nil_r, rev_app_distr.
  f_equal. specialize (Hf x). destruct (f x) as [|y [|z u]]; cbn in *; auto; lia.
Qed.

Lemma flat_map_split {A B} (f : A -> list B) l : (forall x, (length (f x) <= 1)%nat) ->
  forall l1 y l2, flat_map f l = l1 ++ y :: l2 ->
  exists la x lb, l = la ++ x :: lb /\ f x = [y] /\ flat_map f la = l1 /\ flat_map f lb = l2.
Proof.
  intros Hf. induction l as [|x t IH]; intros l1 y l2 E.
  - destruct l1; discriminate.
  - cbn [flat_map] in E. pose proof (Hf x) as Hx. destruct (f x) as [|z [|z' u]] eqn:Ef; cbn in Hx; [| |lia].
    + cbn [app] in E. destruct (IH _ _ _ E) as (la & x0 & lb & -> & H1 & H2 & H3).
      exists (x :: la), x0, lb. repeat split; auto. cbn [flat_map]. now rewrite Ef, H2.
    + cbn [app] in E. destruct l1 as [|w l1]; cbn [app] in E; injection E as -> E.
      * exists [], x, t. repeat split; auto.
      * destruct (IH _ _ _ E) as (la & x0 & lb & -> & H1 & H2 & H3).
        exists (x :: la), x0, lb. repeat split; auto. cbn [flat_map app]. now rewrite Ef, H2.
Qed.

Lemma nth_split_canon {A} (l : list A) n x : nth_error l n = Some x ->
  l = firstn n l ++ x :: skipn (S n) l /\
  del n l = firstn n l ++ skipn (S n) l /\
  (forall f, upd n f l = firstn n l ++ f x :: skipn (S n) l).
Proof.
  revert n. induction l as [|y t IH]; intros [|n]; cbn [nth_error]; try discriminate.
  - intros [= ->]. cbn. auto.
  - intros H. destruct (IH _ H) as (E1 & E2 & E3). cbn [firstn skipn app del upd].
    repeat split; [f_equal; exact E1|now rewrite E2|intros f; now rewrite E3].
Qed.

(** * counting *)
Fixpoint cnt (i : N) (l : list N) : nat :=
  match l with
  | [] => O
  | j :: t => (if j =? i then 1 else 0) + cnt i t
  end.

Lemma cnt_app i l1 l2 : cnt i (l1 ++ l2) = (cnt i l1 + cnt i l2)%nat.
Proof. induction l1 as [|x t IH]; cbn [cnt app]; lia. Qed.

Lemma cnt_flat_map_split {A} (g : A -> list N) i l1 x l2 :
  cnt i (flat_map g (l1 ++ x :: l2)) = (cnt i (flat_map g (l1 ++ l2)) + cnt i (g x))%nat.
Proof. rewrite !flat_map_app. cbn [flat_map]. rewrite !cnt_app. lia. Qed.

Lemma cnt_in i l : (0 < cnt i l)%nat -> In i l.
Proof.
  induction l as [|x t IH]; cbn [cnt]; [lia|]. destruct (x =? i) eqn:E.
  - apply N.eqb_eq in E. now left.
  - intros H. right. apply IH. lia.
Qed.

Section Proofs.
Context {St Arg Rep : Type}.
Variable apply : St -> call Arg -> St * Rep.
Variable too_big : call Arg -> Rep -> bool.

Notation sys := (sys St Arg Rep).
Notation step := (step apply too_big).
Notation run := (run apply too_big).
Notation poll_h := (poll_h apply too_big).
Notation loop_step := (loop_step apply too_big).
Notation task_step := (task_step apply too_big).
Notation ev := (ev Arg Rep).
Notation crec := (crec Arg Rep).
Notation req := (req Arg).
Notation handler := (handler St Arg Rep).

Ltac prj :=
  cbn [flav spawn pol reperr calls clients wire cut qclosed target lst queue loop tasks sends errq rd wr uerrs trace
       set RecordSet.set ev_add upd_call set_slot set_st set_closed release
       cr_client cr_call cr_st cr_closed cr_slot q_cell q_call h_req h_ph h_lk] in *.

(** ** what the helpers do to each field *)
Definition kill (b : bool) (c : crec) : crec :=
  if b then mkC (cr_client c) (cr_call c) (cr_st c) (cr_closed c) SDead else c.

Lemma get_call_set_slot (s : sys) i v j :
  get_call (set_slot i v s) j =
  if i =? j then option_map (fun c => mkC (cr_client c) (cr_call c) (cr_st c) (cr_closed c) v) (get_call s j)
  else get_call s j.
Proof.
  unfold get_call, set_slot, upd_call. prj. rewrite nth_error_upd.
  destruct (i =? j) eqn:E.
  - apply N.eqb_eq in E. subst. now rewrite Nat.eqb_refl.
  - apply N.eqb_neq in E. destruct (Nat.eqb_spec (N.to_nat i) (N.to_nat j)) as [H|H]; [lia|reflexivity].
Qed.

Lemma get_call_set_st (s : sys) i v j :
  get_call (set_st i v s) j =
  if i =? j then option_map (fun c => mkC (cr_client c) (cr_call c) v (cr_closed c) (cr_slot c)) (get_call s j)
  else get_call s j.
Proof.
  unfold get_call, set_st, upd_call. prj. rewrite nth_error_upd.
  destruct (i =? j) eqn:E.
  - apply N.eqb_eq in E. subst. now rewrite Nat.eqb_refl.
  - apply N.eqb_neq in E. destruct (Nat.eqb_spec (N.to_nat i) (N.to_nat j)) as [H|H]; [lia|reflexivity].
Qed.

Lemma get_call_set_closed (s : sys) i j :
  get_call (set_closed i s) j =
  if i =? j then option_map (fun c => mkC (cr_client c) (cr_call c) (cr_st c) true (cr_slot c)) (get_call s j)
  else get_call s j.
Proof.
  unfold get_call, set_closed, upd_call. prj. rewrite nth_error_upd.
  destruct (i =? j) eqn:E.
  - apply N.eqb_eq in E. subst. now rewrite Nat.eqb_refl.
  - apply N.eqb_neq in E. destruct (Nat.eqb_spec (N.to_nat i) (N.to_nat j)) as [H|H]; [lia|reflexivity].
Qed.

(** a step changes a call record only in its state, closed flag and slot; [same_call] is what stays *)
Definition same_call (c c' : crec) : Prop := cr_client c' = cr_client c /\ cr_call c' = cr_call c.
(** ... and helpers that only drop reply senders leave the state too, and only kill slots *)
Definition slot_killed (c c' : crec) : Prop :=
  same_call c c' /\ cr_st c' = cr_st c /\ (cr_slot c' = cr_slot c \/ cr_slot c' = SDead).

Definition rel_calls (R : crec -> crec -> Prop) (s s' : sys) : Prop :=
  forall j, match get_call s j, get_call s' j with
            | Some c, Some c' => R c c'
            | None, None => True
            | _, _ => False
            end.

Lemma slot_killed_refl c : slot_killed c c.
Proof. unfold slot_killed, same_call. auto. Qed.
Lemma slot_killed_trans a b c : slot_killed a b -> slot_killed b c -> slot_killed a c.
Proof.
  unfold slot_killed, same_call. intros ((H1 & H2) & H3 & H4) ((H5 & H6) & H7 & H8).
  repeat split; try congruence. destruct H8 as [H8|H8]; [|now right]. rewrite H8. exact H4.
Qed.

Lemma rel_calls_refl (s : sys) : rel_calls slot_killed s s.
Proof. intros j. destruct (get_call s j); auto using slot_killed_refl. Qed.
Lemma rel_calls_trans (s1 s2 s3 : sys) :
  rel_calls slot_killed s1 s2 -> rel_calls slot_killed s2 s3 -> rel_calls slot_killed s1 s3.
Proof.
  intros H1 H2 j. specialize (H1 j). specialize (H2 j).
  destruct (get_call s1 j), (get_call s2 j), (get_call s3 j); try contradiction; auto.
  eapply slot_killed_trans; eauto.
Qed.

Lemma rel_set_slot_dead (s : sys) i : rel_calls slot_killed s (set_slot i SDead s).
Proof.
  intros j. rewrite get_call_set_slot. destruct (i =? j); destruct (get_call s j); cbn [option_map]; auto using slot_killed_refl.
  unfold slot_killed, same_call. prj. auto.
Qed.

(** fields other than [calls] *)
Definition rest_eq (s s' : sys) : Prop :=
  flav s' = flav s /\ spawn s' = spawn s /\ pol s' = pol s /\ reperr s' = reperr s /\ clients s' = clients s /\
  wire s' = wire s /\ cut s' = cut s /\ qclosed s' = qclosed s /\ target s' = target s /\ lst s' = lst s /\
  queue s' = queue s /\ loop s' = loop s /\ tasks s' = tasks s /\ sends s' = sends s /\ errq s' = errq s /\
  rd s' = rd s /\ wr s' = wr s /\ uerrs s' = uerrs s /\ trace s' = trace s.

Lemma rest_eq_refl s : rest_eq s s.
Proof. unfold rest_eq. repeat split. Qed.
Lemma rest_eq_trans a b c : rest_eq a b -> rest_eq b c -> rest_eq a c.
Proof. unfold rest_eq. intuition congruence. Qed.

Lemma drop_queue_spec q : forall s : sys, rest_eq s (drop_queue q s) /\ rel_calls slot_killed s (drop_queue q s).
Proof.
  induction q as [|[r| | |] t IH]; intros s; cbn [drop_queue]; auto using rest_eq_refl, rel_calls_refl.
  destruct (IH (set_slot (q_cell r) SDead s)) as [H1 H2]. split.
  - eapply rest_eq_trans; [|exact H1]. unfold rest_eq. prj. repeat split.
  - eapply rel_calls_trans; [apply rel_set_slot_dead|exact H2].
Qed.

Lemma lose_wire_spec w : forall s : sys, rest_eq s (lose_wire w s) /\ rel_calls slot_killed s (lose_wire w s).
Proof.
  induction w as [|[cl r] t IH]; intros s; cbn [lose_wire]; auto using rest_eq_refl, rel_calls_refl.
  destruct (IH (set_slot (q_cell r) SDead s)) as [H1 H2]. split.
  - eapply rest_eq_trans; [|exact H1]. unfold rest_eq. prj. repeat split.
  - eapply rel_calls_trans; [apply rel_set_slot_dead|exact H2].
Qed.


(** * Group A: every request is executed at most once and answers its own caller *)
Definition ev_id (e : ev) : option N :=
  match e with
  | EInv i _ _ | ERet i _ | EDropCall i | EStart i | EExec i _ _ | EFinish i | ECancel i | ESkip i => Some i
  | _ => None
  end.

(** well-formed traces (newest first): an invocation uses a fresh call number; an execution is that
    of an invoked call, with the invoked arguments; a returned result is the result of an execution
    of that very call *)
Fixpoint wf_tr (tr : list ev) : Prop :=
  match tr with
  | [] => True
  | e :: t =>
      match e with
      | EInv i _ _ => forall e', In e' t -> ev_id e' <> Some i
      | EExec i c _ => exists cl, In (EInv i cl c) t
      | ERet i (OVal r) => exists c, In (EExec i c r) t
      | _ => True
      end /\ wf_tr t
  end.

Definition qreqs (q : list (qitem Arg)) : list req :=
  flat_map (fun x => match x with QReq r => [r] | _ => [] end) q.
Definition loop_hs (l : lstate St Arg Rep) : list handler := match l with LRun h => [h] | _ => [] end.
Definition loop_waits (l : lstate St Arg Rep) : list req := match l with LWait q _ => [q] | _ => [] end.
Definition handlers (s : sys) : list handler := loop_hs (loop s) ++ tasks s.

(** requests that have not been executed yet, by reply cell *)
Definition hcell (h : handler) : list N := match h_ph h with PApplied _ => [] | _ => [q_cell (h_req h)] end.
Definition reqs_of (s : sys) (ws : list req) (hs : list handler) : list req :=
  map snd (wire s) ++ qreqs (queue s) ++ ws ++ map h_req hs.
Definition cells_of (s : sys) (ws : list req) (hs : list handler) : list N :=
  map q_cell (map snd (wire s)) ++ map q_cell (qreqs (queue s)) ++ map q_cell ws ++ flat_map hcell hs.
Definition tok_init (s : sys) (i : N) : nat :=
  match get_call s i with Some c => match cr_st c with CInit => 1%nat | _ => O end | None => O end.

Definition req_ok (s : sys) (q : req) : Prop := exists cr, get_call s (q_cell q) = Some cr /\ cr_call cr = q_call q.

Record invA (s : sys) (ws : list req) (hs : list handler) : Prop := {
  a_calls : forall i cr, get_call s i = Some cr -> In (EInv i (cr_client cr) (cr_call cr)) (trace s);
  a_ids : forall e i, In e (trace s) -> ev_id e = Some i -> get_call s i <> None;
  a_reqs : forall q, In q (reqs_of s ws hs) -> req_ok s q;
  a_tok : forall i, (tok_init s i + cnt i (cells_of s ws hs) + execs i (trace s) <= 1)%nat;
  a_app : forall h r, In h hs -> h_ph h = PApplied r -> In (EExec (q_cell (h_req h)) (q_call (h_req h)) r) (trace s);
  a_slot : forall i cr r, get_call s i = Some cr -> cr_slot cr = SVal r \/ cr_slot cr = SGot r ->
                          In (EExec i (cr_call cr) r) (trace s);
  a_wf : wf_tr (trace s);
}.

Definition InvA (s : sys) : Prop := invA s (loop_waits (loop s)) (handlers s).


(** how one call record may change in a step that executes nothing: identity of the call stays, it does
    not go back to [CInit], and a result in its slot was there before or is the result of a logged
    execution of this call *)
Definition evolved (s : sys) (j : N) (c c' : crec) : Prop :=
  same_call c c' /\ (cr_st c' = CInit -> cr_st c = CInit) /\
  (forall r, cr_slot c' = SVal r \/ cr_slot c' = SGot r ->
             cr_slot c = SVal r \/ cr_slot c = SGot r \/ In (EExec j (cr_call c) r) (trace s)).

Definition evolves (s s' : sys) : Prop :=
  forall j, match get_call s j, get_call s' j with
            | Some c, Some c' => evolved s j c c'
            | None, None => True
            | _, _ => False
            end.

Lemma killed_evolves (s s' : sys) : rel_calls slot_killed s s' -> evolves s s'.
Proof.
  intros H j. specialize (H j). destruct (get_call s j) as [c|], (get_call s' j) as [c'|]; auto.
  destruct H as (H1 & H2 & H3). split; [exact H1|]. split; [congruence|].
  intros r Hr. destruct H3 as [H3|H3]; rewrite H3 in Hr; [tauto|]. destruct Hr; discriminate.
Qed.

Lemma evolves_refl s : evolves s s.
Proof. apply killed_evolves, rel_calls_refl. Qed.

Lemma execs_pos i (tr : list ev) : (0 < execs i tr)%nat -> exists c r, In (EExec i c r) tr.
Proof.
  induction tr as [|e t IH]; cbn [execs]; [lia|].
  destruct e; try (intros H; destruct (IH H) as (c0 & r0 & H0); exists c0, r0; now right).
  destruct (i0 =? i) eqn:E.
  - apply N.eqb_eq in E. subst. intros _. exists c, r. now left.
  - intros H. destruct (IH ltac:(lia)) as (c0 & r0 & H0). exists c0, r0. now right.
Qed.

Lemma cells_reqs (s : sys) ws hs i : In i (cells_of s ws hs) -> exists q, In q (reqs_of s ws hs) /\ q_cell q = i.
Proof.
  unfold cells_of, reqs_of. rewrite !in_app_iff. intros [H|[H|[H|H]]].
  - apply in_map_iff in H as (q & <- & H). exists q. rewrite !in_app_iff. auto.
  - apply in_map_iff in H as (q & <- & H). exists q. rewrite !in_app_iff. auto.
  - apply in_map_iff in H as (q & <- & H). exists q. rewrite !in_app_iff. auto.
  - apply in_flat_map in H as (h & H1 & H2). unfold hcell in H2. exists (h_req h). rewrite !in_app_iff. split.
    + right. right. right. now apply in_map.
    + destruct (h_ph h); cbn in H2; intuition.
Qed.

(** nothing is executed, requests only move or disappear *)
Lemma invA_shrink (s s' : sys) ws hs ws' hs' :
  invA s ws hs ->
  trace s' = trace s -> evolves s s' ->
  (forall q, In q (reqs_of s' ws' hs') -> In q (reqs_of s ws hs)) ->
  (forall i, (cnt i (cells_of s' ws' hs') <= cnt i (cells_of s ws hs))%nat) ->
  (forall h r, In h hs' -> h_ph h = PApplied r -> In h hs) ->
  invA s' ws' hs'.
Proof.
  intros [Ac Ai Ar At Aa As Aw] Etr Hev Hq Hc Hh.
  assert (Hget : forall j c', get_call s' j = Some c' -> exists c, get_call s j = Some c /\ evolved s j c c').
  { intros j c' E. specialize (Hev j). rewrite E in Hev. destruct (get_call s j) as [c|]; [|contradiction]. eauto. }
  split; rewrite ?Etr.
  - intros i cr E. destruct (Hget _ _ E) as (c & E0 & (H1 & H2) & _). rewrite H1, H2. auto.
  - intros e i He Hid E. apply (Ai e i He Hid). specialize (Hev i). rewrite E in Hev. destruct (get_call s i); [contradiction|reflexivity].
  - intros q Hin. destruct (Ar q (Hq q Hin)) as (cr & E & Ec). specialize (Hev (q_cell q)). rewrite E in Hev.
    destruct (get_call s' (q_cell q)) as [c'|] eqn:E'; [|contradiction]. exists c'. split; [exact E'|].
    destruct Hev as ((_ & H2) & _). congruence.
  - intros i. specialize (At i). specialize (Hc i). enough (tok_init s' i <= tok_init s i)%nat by lia.
    unfold tok_init. specialize (Hev i). destruct (get_call s i) as [c|], (get_call s' i) as [c'|]; try contradiction; auto.
    destruct Hev as (_ & H & _). destruct (cr_st c') eqn:E'; try lia. rewrite (H eq_refl). lia.
  - intros h r Hin Hp. apply Aa; eauto.
  - intros i cr r E Hs. destruct (Hget _ _ E) as (c & E0 & (H1 & H2) & _ & H3). rewrite H2.
    destruct (H3 r Hs) as [H|[H|H]]; eauto.
  - exact Aw.
Qed.

(** what an event claims about the past *)
Definition ev_pre (tr : list ev) (e : ev) : Prop :=
  match e with
  | EInv _ _ _ | EExec _ _ _ => False
  | ERet i (OVal r) => exists c, In (EExec i c r) tr
  | _ => True
  end.

Lemma invA_ev (s : sys) ws hs e :
  invA s ws hs -> ev_pre (trace s) e -> (forall i, ev_id e = Some i -> get_call s i <> None) ->
  invA (ev_add e s) ws hs.
Proof.
  intros [Ac Ai Ar At Aa As Aw] Hp Hid.
  assert (Hex : forall i, execs i (e :: trace s) = execs i (trace s)).
  { intros i. destruct e; try reflexivity. contradiction. }
  split; unfold ev_add; prj.
  - intros i cr E. right. exact (Ac i cr E).
  - intros e0 i [<-|He] Hi; [exact (Hid i Hi)|exact (Ai e0 i He Hi)].
  - exact Ar.
  - intros i. rewrite Hex. exact (At i).
  - intros h r Hin Hph. right. eauto.
  - intros i cr r E Hs. right. eauto.
  - cbn [wf_tr]. split; [|exact Aw]. destruct e as [| i [r|] | | | | | | | |]; try exact I; try contradiction. exact Hp.
Qed.

Definition olist {A} (o : option A) : list A := match o with Some x => [x] | None => [] end.

Lemma evolves_set_slot_dead (s : sys) i : evolves s (set_slot i SDead s).
Proof. apply killed_evolves, rel_set_slot_dead. Qed.

Lemma evolves_trans_killed (s1 s2 s3 : sys) :
  rel_calls slot_killed s1 s2 -> rel_calls slot_killed s2 s3 -> evolves s1 s3.
Proof. intros. apply killed_evolves. eapply rel_calls_trans; eauto. Qed.

Ltac lists :=
  unfold cells_of, reqs_of, handlers in *; prj;
  repeat (progress (repeat rewrite ?map_app, ?flat_map_app, ?cnt_app, ?in_app_iff;
                    cbn [map flat_map cnt app loop_hs loop_waits olist qreqs In] in *)).

(** one poll of the handler [h] sitting between [H1] and [H2] *)
Lemma poll_h_invA (s : sys) ws H1 h H2 s1 oh :
  invA s ws (H1 ++ h :: H2) -> poll_h s h = (s1, oh) ->
  invA s1 ws (H1 ++ olist oh ++ H2) /\ wire s1 = wire s /\ queue s1 = queue s /\ loop s1 = loop s /\ tasks s1 = tasks s.
Proof.
  intros HA. unfold Server.poll_h.
  set (i := q_cell (h_req h)). set (c := q_call (h_req h)).
  assert (Hreq : req_ok s (h_req h)).
  { apply (a_reqs _ _ _ HA). unfold reqs_of. rewrite !in_app_iff. right. right. right.
    apply in_map. apply in_or_app. right. now left. }
  assert (Hex : get_call s i <> None). { destruct Hreq as (cr & E & _). fold i in E. congruence. }
  destruct (negb (c_nocancel c) && is_closed s i).
  { (* abandoned *)
    intros [= <- <-]. split; [|prj; destruct (h_lk h); prj; auto].
    apply invA_ev.
    2:{ destruct (h_ph h); exact I. }
    2:{ intros j Hj. assert (j = i) by (destruct (h_ph h); cbn in Hj; congruence). subst j.
        destruct (h_lk h); prj; unfold get_call in *; prj; rewrite nth_error_upd, Nat.eqb_refl;
        destruct (nth_error (calls s) (N.to_nat i)); cbn; congruence. }
    eapply invA_shrink; [exact HA| | | | |].
    - destruct (h_lk h); reflexivity.
    - intros j. pose proof (evolves_set_slot_dead s i j) as H. destruct (h_lk h); exact H.
    - intros q. destruct (h_lk h); lists; tauto.
    - intros j. destruct (h_lk h); lists; lia.
    - intros h0 r. cbn [olist app]. rewrite !in_app_iff. cbn [In]. tauto. }
  destruct (h_ph h) as [|t|r] eqn:Eph.
  - (* the method starts *)
    destruct (target s) as [t|].
    2:{ intros [= <- <-]. cbn [olist app]. auto. }
    intros [= <- <-]. split; [|destruct (c_kind c); prj; auto].
    assert (HA' : invA (ev_add (EStart i) s) ws (H1 ++ [mkH (h_req h) (PRun t) (h_lk h)] ++ H2)).
    { apply invA_ev; [|exact I|intros j [= <-]; exact Hex].
      eapply invA_shrink; [exact HA|reflexivity|apply evolves_refl| | |].
      - intros q. lists. tauto.
      - intros j. lists. unfold hcell. prj. rewrite Eph. lia.
      - intros h0 r. rewrite !in_app_iff. cbn [In]. intros [H|[[<-|[]]|H]] Hp; auto. discriminate. }
    destruct (c_kind c); (eapply invA_shrink; [exact HA'|reflexivity| |tauto|intros; apply Nat.le_refl|tauto]); intros j; apply (evolves_refl (ev_add (EStart i) s) j).
  - (* the effect *)
    destruct (apply t c) as [t' r] eqn:Eap. intros [= <- <-]. cbn [olist app].
    assert (Hs1 : forall X : sys, calls X = calls s -> wire X = wire s -> queue X = queue s -> trace X = trace s ->
                  invA (ev_add (EExec i c r) X) ws (H1 ++ mkH (h_req h) (PApplied r) (h_lk h) :: H2)).
    { intros X Ec Ew Eq Et. destruct HA as [Ac Ai Ar At Aa As Aw].
      assert (G : forall j, get_call (ev_add (EExec i c r) X) j = get_call s j).
      { intros j. unfold get_call. prj. now rewrite Ec. }
      split; unfold tok_init, req_ok; prj; try setoid_rewrite G; rewrite ?Et.
      - intros j cr E. right. eauto.
      - intros e j [<-|He] Hj; [cbn in Hj; injection Hj as <-; exact Hex|eauto].
      - intros q Hq. apply Ar. revert Hq. unfold reqs_of. prj. rewrite Ew, Eq, !map_app. cbn [map]. prj. tauto.
      - intros j. specialize (At j). unfold tok_init in At. revert At. unfold cells_of. prj. rewrite Ew, Eq.
        assert (Hc1 : hcell h = [i]) by (unfold hcell; now rewrite Eph).
        assert (Hc2 : hcell (mkH (h_req h) (PApplied r) (h_lk h)) = []) by reflexivity.
        rewrite !flat_map_app, !cnt_app. cbn [flat_map execs]. rewrite !cnt_app, Hc1, Hc2.
        cbn [cnt]. destruct (i =? j); lia.
      - intros h0 r0. rewrite in_app_iff. cbn [In]. intros [H|[<-|H]] Hp.
        + right. apply Aa; auto. apply in_or_app. now left.
        + prj. injection Hp as <-. now left.
        + right. apply Aa; auto. apply in_or_app. right. now right.
      - intros j cr r0 E Hs. right. eauto.
      - cbn [wf_tr]. split; [|exact Aw]. destruct Hreq as (cr & E & Ecall). exists (cr_client cr). unfold c. rewrite <- Ecall.
        apply Ac. exact E. }
    split; [|destruct (c_kind c); prj; auto].
    destruct (c_kind c); apply Hs1; reflexivity.
  - (* the method returns, the reply is sent *)
    intros [= <- <-]. cbn [olist app].
    assert (Hr : In (EExec i c r) (trace s)).
    { apply (a_app _ _ _ HA h r); [apply in_or_app; right; now left|exact Eph]. }
    split.
    2:{ destruct (is_closed s i), (too_big c r), (h_lk h); prj; auto. }
    set (s0 := release (h_lk h) (ev_add (EFinish i) s)).
    assert (H0 : invA s0 ws (H1 ++ H2)).
    { assert (HA' : invA (ev_add (EFinish i) s) ws (H1 ++ H2)).
      { apply invA_ev; [|exact I|intros j [= <-]; exact Hex].
        eapply invA_shrink; [exact HA|reflexivity|apply evolves_refl| | |].
        - intros q. lists. tauto.
        - intros j. lists. lia.
        - intros h0 r0. rewrite !in_app_iff. cbn [In]. tauto. }
      subst s0. destruct (h_lk h); prj; auto;
        (eapply invA_shrink; [exact HA'|reflexivity| |tauto|intros; apply Nat.le_refl|tauto]); intros j; apply (evolves_refl (ev_add (EFinish i) s) j). }
    assert (Hg0 : forall j, get_call s0 j = get_call s j).
    { intros j. subst s0. destruct (h_lk h); reflexivity. }
    assert (Ht0 : trace s0 = EFinish i :: trace s). { subst s0. destruct (h_lk h); reflexivity. }
    assert (Hdead : invA (set_slot i SDead s0) ws (H1 ++ H2)).
    { eapply invA_shrink; [exact H0|reflexivity|apply evolves_set_slot_dead|tauto|intros; apply Nat.le_refl|tauto]. }
    destruct (is_closed s i); [exact Hdead|].
    destruct (too_big c r).
    { eapply invA_shrink; [exact Hdead|reflexivity|intros j; apply (evolves_refl (set_slot i SDead s0) j)|tauto|intros; apply Nat.le_refl|tauto]. }
    eapply invA_shrink; [exact H0|reflexivity| |tauto|intros; apply Nat.le_refl|tauto].
    intros j.
    change (get_call (set_slot i (SVal r) s0 <| sends := sends s0 ++ [false] |>) j) with (get_call (set_slot i (SVal r) s0) j).
    rewrite get_call_set_slot. destruct (i =? j) eqn:Eij.
    + apply N.eqb_eq in Eij. subst j. destruct (get_call s0 i) as [cr|] eqn:E0; cbn [option_map]; [|exact I].
      split; [split; reflexivity|]. split; [prj; auto|]. prj. intros r0 [[= <-]|[=]].
      right. right. rewrite Ht0. right. destruct Hreq as (cr' & E' & Ec'). fold i in E'. rewrite <- Hg0, E0 in E'.
      injection E' as <-. rewrite Ec'. exact Hr.
    + apply (evolves_refl s0 j).
Qed.


Lemma evolves_set_st (s : sys) i v : v <> CInit -> evolves s (set_st i v s).
Proof.
  intros Hv j. rewrite get_call_set_st. destruct (i =? j) eqn:E; [|apply (evolves_refl s j)].
  destruct (get_call s j) as [cr|]; cbn [option_map]; [|exact I].
  split; [split; reflexivity|]. prj. split; [intros; contradiction|tauto].
Qed.

Lemma invA_same (s s' : sys) ws hs :
  calls s' = calls s -> wire s' = wire s -> queue s' = queue s -> trace s' = trace s ->
  invA s ws hs -> invA s' ws hs.
Proof.
  intros Ec Ew Eq Et HA. eapply invA_shrink; [exact HA|exact Et| | | |tauto].
  - intros j. unfold get_call. rewrite Ec. apply (evolves_refl s j).
  - intros q. unfold reqs_of. now rewrite Ew, Eq.
  - intros i. unfold cells_of. rewrite Ew, Eq. apply Nat.le_refl.
Qed.

Lemma get_call_new (s : sys) x j :
  get_call (s <| calls := calls s ++ [x] |>) j = if j =? len (calls s) then Some x else get_call s j.
Proof.
  unfold get_call, len. prj. destruct (j =? N.of_nat (length (calls s))) eqn:E.
  - apply N.eqb_eq in E. subst j. rewrite Nat2N.id. apply nth_error_app_len.
  - apply N.eqb_neq in E. destruct (Nat.lt_ge_cases (N.to_nat j) (length (calls s))) as [H|H].
    + now rewrite nth_error_app1.
    + assert (nth_error (calls s) (N.to_nat j) = None) as -> by now apply nth_error_None.
      apply nth_error_None. rewrite app_length. cbn [length]. lia.
Qed.

Lemma get_call_len_none (s : sys) : get_call s (len (calls s)) = None.
Proof. unfold get_call, len. rewrite Nat2N.id. now apply nth_error_None. Qed.

Lemma finish_invA (s : sys) hs r :
  invA s [] hs -> invA (finish r s) [] hs.
Proof.
  intros HA. unfold finish. apply invA_ev; [|exact I|discriminate].
  destruct (drop_queue_spec (queue s) s) as [Hr Hk].
  destruct Hr as (_ & _ & _ & _ & _ & Ew & _ & _ & _ & _ & Eq & _ & _ & _ & _ & _ & _ & _ & Et).
  eapply invA_shrink; [exact HA|exact Et| | | |tauto].
  - intros j. apply (killed_evolves _ _ Hk j).
  - intros q. unfold reqs_of. prj. rewrite Ew. cbn [qreqs flat_map app]. rewrite !in_app_iff. tauto.
  - intros i. unfold cells_of. prj. rewrite Ew. cbn [qreqs flat_map map]. rewrite !cnt_app. cbn [cnt]. lia.
Qed.

Lemma qreqs_app (a b : list (qitem Arg)) : qreqs (a ++ b) = qreqs a ++ qreqs b.
Proof. unfold qreqs. apply flat_map_app. Qed.

Lemma evolves_set_closed (s : sys) i : evolves s (set_closed i s).
Proof.
  intros j. rewrite get_call_set_closed. destruct (i =? j); [|apply (evolves_refl s j)].
  destruct (get_call s j) as [cr|]; cbn [option_map]; [|exact I].
  split; [split; reflexivity|]. prj. split; tauto.
Qed.

Lemma evolves_set_slot_got (s : sys) i cr r :
  get_call s i = Some cr -> cr_slot cr = SVal r -> evolves s (set_slot i (SGot r) s).
Proof.
  intros E Es j. rewrite get_call_set_slot. destruct (i =? j) eqn:Eij; [|apply (evolves_refl s j)].
  apply N.eqb_eq in Eij. subst j. rewrite E. cbn [option_map]. split; [split; reflexivity|]. prj. split; [tauto|].
  intros r0 [H|H]; [discriminate|]. injection H as <-. now left.
Qed.

Lemma cut_cells_evolves (s s' : sys) : calls s' = map cut_cell (calls s) -> evolves s s'.
Proof.
  intros E j. unfold get_call. rewrite E, nth_error_map. destruct (nth_error (calls s) (N.to_nat j)) as [c|]; cbn [option_map]; [|exact I].
  split; [split; reflexivity|]. unfold cut_cell. prj. split; [tauto|].
  intros r. destruct (cr_slot c); intros [H|H]; try discriminate; injection H as <-; tauto.
Qed.

Lemma evolves_trans (s1 s2 s3 : sys) : trace s2 = trace s1 -> evolves s1 s2 -> evolves s2 s3 -> evolves s1 s3.
Proof.
  intros Et H1 H2 j. specialize (H1 j). specialize (H2 j).
  destruct (get_call s1 j) as [a|], (get_call s2 j) as [b|], (get_call s3 j) as [c|]; try contradiction; auto.
  destruct H1 as ((A1 & A2) & A3 & A4), H2 as ((B1 & B2) & B3 & B4).
  split; [split; congruence|]. split; [tauto|].
  intros r Hr. destruct (B4 r Hr) as [H|[H|H]]; [apply A4; tauto|apply A4; tauto|].
  right. right. rewrite Et, A2 in H. exact H.
Qed.

Lemma task_step_invA (s : sys) k : InvA s -> InvA (task_step s k).
Proof.
  unfold InvA, Server.task_step. intros HA.
  destruct (nth_error (tasks s) k) as [h|] eqn:Ek; [|exact HA].
  destruct (nth_split_canon _ _ _ Ek) as (Et & _ & _).
  set (T1 := firstn k (tasks s)) in *. set (T2 := skipn (S k) (tasks s)) in *.
  destruct (poll_h s h) as [s1 oh] eqn:Ep.
  assert (HA' : invA s (loop_waits (loop s)) ((loop_hs (loop s) ++ T1) ++ h :: T2)).
  { unfold handlers in HA. rewrite Et in HA. now rewrite <- app_assoc. }
  destruct (poll_h_invA _ _ _ _ _ _ _ HA' Ep) as (H1 & Ew & Eq & El & Ets).
  assert (Ek1 : nth_error (tasks s1) k = Some h) by now rewrite Ets.
  destruct (nth_split_canon _ _ _ Ek1) as (_ & Ed & Eu). rewrite Ets in Ed, Eu. fold T1 T2 in Ed, Eu.
  destruct oh as [h'|]; cbn [olist app] in H1.
  - eapply invA_same with (s := s1); [reflexivity..|]. unfold handlers. prj. rewrite El, Ets, Eu.
    rewrite <- app_assoc in H1. exact H1.
  - eapply invA_same with (s := s1); [reflexivity..|]. unfold handlers. prj. rewrite El, Ets, Ed.
    rewrite <- app_assoc in H1. exact H1.
Qed.

Lemma qreqs_cons (x : qitem Arg) t : qreqs (x :: t) = match x with QReq r => [r] | _ => [] end ++ qreqs t.
Proof. reflexivity. Qed.

Ltac solve_in :=
  repeat (progress (rewrite ?map_app, ?in_app_iff, ?qreqs_cons, ?qreqs_app; cbn [In app map loop_waits loop_hs olist])); prj; tauto.
Ltac solve_cnt :=
  repeat (progress (rewrite ?map_app, ?flat_map_app, ?cnt_app, ?qreqs_cons, ?qreqs_app;
                    cbn [cnt app map flat_map hcell loop_waits loop_hs olist h_ph h_req q_cell]; prj)); cbn [cnt]; lia.

Lemma finish_fields (s : sys) r :
  loop (finish r s) = LDone r /\ tasks (finish r s) = tasks s.
Proof.
  unfold finish. prj. split; [reflexivity|].
  destruct (drop_queue_spec (queue s) s) as [Hr _]. unfold rest_eq in Hr. tauto.
Qed.

Lemma finish_InvA (s : sys) r : loop_waits (loop s) = [] -> loop_hs (loop s) = [] -> InvA s -> InvA (finish r s).
Proof.
  unfold InvA, handlers. intros E1 E2 HA. destruct (finish_fields s r) as [El Et]. rewrite El, Et. cbn [loop_waits loop_hs app].
  rewrite E1, E2 in HA. apply finish_invA. exact HA.
Qed.

Lemma dispatch_InvA (s : sys) q rest :
  InvA s -> loop s = LIdle -> queue s = QReq q :: rest -> InvA (dispatch (s <| queue := rest |>) q).
Proof.
  unfold InvA, handlers. intros HA El Eq. rewrite El in HA. cbn [loop_waits loop_hs app] in HA.
  unfold dispatch. prj.
  destruct (negb (supports (flav s) (c_kind (q_call q)))).
  { eapply invA_shrink; [exact HA|reflexivity|(let j := fresh in intros j; apply (evolves_set_slot_dead s _ j))| | |].
    - intros q0. unfold reqs_of. prj. rewrite El, Eq, qreqs_cons. solve_in.
    - intros j. unfold cells_of. prj. rewrite El, Eq, qreqs_cons. solve_cnt.
    - prj. rewrite El. cbn [loop_hs app]. tauto. }
  assert (Hinline : forall lk, invA (s <| queue := rest |> <| loop := LRun (mkH q PNew lk) |>) [] (mkH q PNew lk :: tasks s)).
  { intros lk. eapply invA_shrink; [exact HA|reflexivity|(let j := fresh in intros j; apply (evolves_refl s j))| | |].
    - intros q0. unfold reqs_of. prj. rewrite Eq, qreqs_cons. solve_in.
    - intros j. unfold cells_of. prj. rewrite Eq, qreqs_cons. solve_cnt.
    - intros h r [<-|H] Hp; [discriminate|exact H]. }
  assert (Hspawn : forall lk, invA (s <| queue := rest |> <| tasks := tasks s ++ [mkH q PNew lk] |>) [] (tasks s ++ [mkH q PNew lk])).
  { intros lk. eapply invA_shrink; [exact HA|reflexivity|(let j := fresh in intros j; apply (evolves_refl s j))| | |].
    - intros q0. unfold reqs_of. prj. rewrite Eq, qreqs_cons. solve_in.
    - intros j. unfold cells_of. prj. rewrite Eq, qreqs_cons. solve_cnt.
    - intros h r. rewrite in_app_iff. intros [H|[<-|[]]] Hp; [exact H|discriminate]. }
  destruct (flav s); prj; try (rewrite El); cbn [loop_waits loop_hs app]; try apply Hinline.
  - destruct (spawn s); prj; [rewrite El|]; cbn [loop_waits loop_hs app]; [apply Hspawn|apply Hinline].
  - (* shared-mut: wait for the lock *)
    eapply invA_shrink; [exact HA|reflexivity|(let j := fresh in intros j; apply (evolves_refl s j))| | |tauto].
    + intros q0. unfold reqs_of. prj. rewrite Eq, qreqs_cons. solve_in.
    + intros j. unfold cells_of. prj. rewrite Eq, qreqs_cons. solve_cnt.
Qed.

Lemma loop_step_invA (s : sys) : InvA s -> InvA (loop_step s).
Proof.
  intros HA. unfold Server.loop_step. destruct (loop s) as [|q m|h| |r] eqn:El.
  - (* idle *)
    destruct (0 <? errq s). { apply finish_InvA; [now rewrite El..|exact HA]. }
    destruct (queue s) as [|[q| | |] rest] eqn:Eq; [exact HA| | | |].
    + apply dispatch_InvA; assumption.
    + assert (H1 : InvA (ev_add EReqErr (s <| queue := rest |>))).
      { unfold InvA, handlers in *. prj. apply invA_ev; [|exact I|discriminate].
        eapply invA_shrink; [exact HA|reflexivity|(let j := fresh in intros j; apply (evolves_refl s j))| | |tauto].
        - intros q0. unfold reqs_of. prj. rewrite Eq, qreqs_cons. solve_in.
        - intros j. unfold cells_of. prj. rewrite Eq, qreqs_cons. cbn [app]. apply Nat.le_refl. }
      destruct (pol s).
      * exact H1.
      * unfold InvA, handlers in *. prj. eapply invA_same; [..|exact H1]; reflexivity.
      * apply finish_InvA; [prj; now rewrite El..|exact H1].
    + unfold InvA, handlers in *. prj. rewrite El in HA. cbn [loop_waits loop_hs] in *. eapply invA_same; [..|exact HA]; reflexivity.
    + unfold InvA, handlers in *. prj. rewrite El in HA. cbn [loop_waits loop_hs] in *. eapply invA_same; [..|exact HA]; reflexivity.
  - (* waiting for the lock *)
    unfold InvA, handlers in *. rewrite El in HA. cbn [loop_waits loop_hs app] in HA.
    assert (Hinline : forall X : sys, calls X = calls s -> wire X = wire s -> queue X = queue s -> trace X = trace s ->
               forall lk, invA X [] (mkH q PNew lk :: tasks s)).
    { intros X E1 E2 E3 E4 lk. eapply invA_shrink; [exact HA|exact E4| | | |].
      - intros j. unfold get_call. rewrite E1. apply (evolves_refl s j).
      - intros q0. unfold reqs_of. rewrite E2, E3. solve_in.
      - intros j. unfold cells_of. rewrite E2, E3. solve_cnt.
      - intros h r [<-|H] Hp; [discriminate|exact H]. }
    assert (Hspawn : forall X : sys, calls X = calls s -> wire X = wire s -> queue X = queue s -> trace X = trace s ->
               forall lk, invA X [] (tasks s ++ [mkH q PNew lk])).
    { intros X E1 E2 E3 E4 lk. eapply invA_shrink; [exact HA|exact E4| | | |].
      - intros j. unfold get_call. rewrite E1. apply (evolves_refl s j).
      - intros q0. unfold reqs_of. rewrite E2, E3. solve_in.
      - intros j. unfold cells_of. rewrite E2, E3. solve_cnt.
      - intros h r. rewrite in_app_iff. intros [H|[<-|[]]] Hp; [exact H|discriminate]. }
    destruct m.
    + destruct (negb (wr s)); [|rewrite El; exact HA]. destruct (spawn s); prj; cbn [loop_waits loop_hs app].
      * apply Hspawn; reflexivity.
      * apply Hinline; reflexivity.
    + destruct (negb (wr s)); [|rewrite El; exact HA]. destruct (spawn s); prj; cbn [loop_waits loop_hs app].
      * apply Hspawn; reflexivity.
      * apply Hinline; reflexivity.
    + destruct (negb (wr s) && (rd s =? 0)); [|rewrite El; exact HA]. prj. cbn [loop_waits loop_hs app]. apply Hinline; reflexivity.
  - (* the inline handler runs *)
    unfold InvA, handlers in *. rewrite El in HA. cbn [loop_waits loop_hs app] in HA.
    destruct (poll_h s h) as [s1 oh] eqn:Ep.
    destruct (poll_h_invA s [] [] h (tasks s) s1 oh HA Ep) as (H1 & Ew & Eq & El1 & Et).
    cbn [app] in H1.
    destruct oh as [h'|]; prj; cbn [loop_waits loop_hs app olist] in *.
    + rewrite Et. eapply invA_same; [..|exact H1]; reflexivity.
    + rewrite Et. unfold after_handler. destruct (flav s), (c_kind (q_call (h_req h))); cbn [loop_waits loop_hs app];
        (eapply invA_same; [..|exact H1]; reflexivity).
  - (* draining *)
    destruct (0 <? errq s). { apply finish_InvA; [now rewrite El..|exact HA]. }
    destruct (tasks s); [destruct (sends s)|]; try exact HA.
    apply finish_InvA; [now rewrite El..|exact HA].
  - exact HA.
Qed.

(** ** the callee goes away *)
Lemma stop_now_spec (s : sys) :
  loop (stop_now s) = LDone ROk /\ queue (stop_now s) = [] /\
  flav (stop_now s) = flav s /\ reperr (stop_now s) = reperr s /\ clients (stop_now s) = clients s /\
  wire (stop_now s) = wire s /\ target (stop_now s) = target s /\ lst (stop_now s) = lst s /\
  tasks (stop_now s) = tasks s /\ sends (stop_now s) = sends s /\ errq (stop_now s) = errq s /\
  rd (stop_now s) = rd s /\ wr (stop_now s) = wr s /\ trace (stop_now s) = trace s /\
  rel_calls slot_killed s (stop_now s).
Proof.
  unfold stop_now. destruct (drop_queue_spec (queue s) s) as [Hr Hk]. unfold rest_eq in Hr. prj.
  repeat split; try tauto; intros j; exact (Hk j).
Qed.

Lemma stop_now_invA (s : sys) hs : invA s [] hs -> invA (stop_now s) [] hs.
Proof.
  intros HA. destruct (stop_now_spec s) as (_ & Eq & _ & _ & _ & Ew & _ & _ & _ & _ & _ & _ & _ & Et & Hk).
  eapply invA_shrink; [exact HA|exact Et|apply killed_evolves, Hk| | |tauto].
  - intros q. unfold reqs_of. rewrite Ew, Eq. cbn [qreqs flat_map app]. rewrite !in_app_iff. tauto.
  - intros i. unfold cells_of. rewrite Ew, Eq. cbn [qreqs flat_map map]. rewrite !cnt_app. cbn [cnt]. lia.
Qed.

Lemma abandon_invA (s : sys) ws H1 h H2 : invA s ws (H1 ++ h :: H2) -> invA (abandon s h) ws (H1 ++ H2).
Proof.
  intros HA. unfold abandon. set (i := q_cell (h_req h)).
  assert (Hreq : req_ok s (h_req h)).
  { apply (a_reqs _ _ _ HA). unfold reqs_of. rewrite !in_app_iff. right. right. right.
    apply in_map. apply in_or_app. right. now left. }
  assert (Hex : get_call s i <> None). { destruct Hreq as (cr & E & _). fold i in E. congruence. }
  apply invA_ev.
  2:{ destruct (h_ph h); exact I. }
  2:{ intros j Hj. assert (j = i) by (destruct (h_ph h); cbn in Hj; congruence). subst j.
      destruct (h_lk h); prj; unfold get_call in *; prj; rewrite nth_error_upd, Nat.eqb_refl;
      destruct (nth_error (calls s) (N.to_nat i)); cbn; congruence. }
  eapply invA_shrink; [exact HA| | | | |].
  - destruct (h_lk h); reflexivity.
  - intros j. pose proof (evolves_set_slot_dead s i j) as H. destruct (h_lk h); exact H.
  - intros q. destruct (h_lk h); lists; tauto.
  - intros j. destruct (h_lk h); lists; lia.
  - intros h0 r. rewrite !in_app_iff. cbn [In]. tauto.
Qed.

Lemma abandon_fields (s : sys) h :
  loop (abandon s h) = loop s /\ tasks (abandon s h) = tasks s /\ queue (abandon s h) = queue s /\ wire (abandon s h) = wire s.
Proof. unfold abandon. destruct (h_lk h); prj; auto. Qed.

Lemma stop_InvA (s : sys) hard : InvA s -> InvA (step s (AStop hard)).
Proof.
  unfold InvA, handlers. intros HA. cbn [Server.step].
  assert (Hst : forall X : sys, invA X [] (tasks X) ->
            invA (stop_now X) (loop_waits (loop (stop_now X))) (loop_hs (loop (stop_now X)) ++ tasks (stop_now X))).
  { intros X HX. destruct (stop_now_spec X) as (El & _ & _ & _ & _ & _ & _ & _ & Et & _).
    rewrite El, Et. cbn [loop_waits loop_hs app]. apply stop_now_invA, HX. }
  destruct (loop s) as [|q m|h| |r] eqn:El; cbn [loop_waits loop_hs app] in HA.
  - apply Hst. exact HA.
  - destruct hard; [|rewrite El; exact HA]. apply Hst. prj.
    eapply invA_shrink; [exact HA|reflexivity|apply evolves_set_slot_dead| | |tauto].
    + intros q0. lists. tauto.
    + intros j. lists. lia.
  - destruct hard; [|rewrite El; exact HA]. apply Hst.
    destruct (abandon_fields s h) as (_ & Et & _). rewrite Et. apply (abandon_invA s [] [] h (tasks s)). exact HA.
  - destruct hard; [|rewrite El; exact HA]. apply Hst. exact HA.
  - rewrite El. exact HA.
Qed.

Theorem step_invA (s : sys) a : InvA s -> InvA (step s a).
Proof.
  unfold InvA. intros HA. destruct a; cbn [Server.step].
  - (* AInvoke *)
    destruct (client_exists s cl); [|exact HA].
    set (n := len (calls s)). set (x := mkC cl c CInit false SEmpty).
    assert (Hn : get_call s n = None) by apply get_call_len_none.
    assert (G : forall j, get_call (ev_add (EInv n cl c) (s <| calls := calls s ++ [x] |>)) j =
                          if j =? n then Some x else get_call s j).
    { intros j. apply (get_call_new s x j). }
    destruct HA as [Ac Ai Ar At Aa As Aw].
    assert (Hfresh : forall e', In e' (trace s) -> ev_id e' <> Some n).
    { intros e' He Hid. exact (Ai e' n He Hid Hn). }
    split; unfold tok_init, req_ok; prj; try setoid_rewrite G.
    + intros i cr. destruct (i =? n) eqn:E.
      * apply N.eqb_eq in E. subst i. intros [= <-]. now left.
      * intros H. right. eauto.
    + intros e i [<-|He] Hi.
      * cbn in Hi. injection Hi as <-. rewrite N.eqb_refl. discriminate.
      * destruct (i =? n); [discriminate|eauto].
    + intros q Hq. destruct (Ar q Hq) as (cr & E & Ec). exists cr. split; [|exact Ec].
      destruct (q_cell q =? n) eqn:En; [|exact E]. apply N.eqb_eq in En. congruence.
    + intros i. specialize (At i). unfold tok_init in At. cbn [execs]. destruct (i =? n) eqn:E; [|exact At].
      apply N.eqb_eq in E. subst i. rewrite Hn in At. prj.
      assert (cnt n (cells_of s (loop_waits (loop s)) (handlers s)) = 0)%nat as Hz.
      { destruct (cnt n (cells_of s (loop_waits (loop s)) (handlers s))) eqn:Ecn; [reflexivity|].
        assert (In n (cells_of s (loop_waits (loop s)) (handlers s))) as Hin by (apply cnt_in; lia).
        apply cells_reqs in Hin as (q & Hq & Eq). destruct (Ar q Hq) as (cr & E & _). congruence. }
      assert (execs n (trace s) = 0)%nat as Hz2.
      { destruct (execs n (trace s)) eqn:Eex; [reflexivity|].
        destruct (execs_pos n (trace s) ltac:(lia)) as (c0 & r0 & Hin). exfalso. exact (Hfresh _ Hin eq_refl). }
      subst x. unfold cells_of, handlers in *. prj. lia.
    + intros h r Hin Hp. right. eauto.
    + intros i cr r. destruct (i =? n) eqn:E.
      * intros [= <-]. prj. intros [H|H]; discriminate.
      * intros H1 H2. right. eauto.
    + cbn [wf_tr]. split; [exact Hfresh|exact Aw].
  - (* ASend *)
    destruct (get_call s i) as [cr|] eqn:Ecr; [|exact HA].
    destruct (cr_st cr) eqn:Est; try exact HA.
    destruct (cut s || qclosed s || negb (client_live s (cr_client cr))).
    { apply invA_ev; [|exact I|].
      - eapply invA_shrink; [exact HA|reflexivity|apply evolves_set_st; discriminate|tauto|intros; apply Nat.le_refl|tauto].
      - intros j [= <-]. rewrite get_call_set_st, N.eqb_refl, Ecr. discriminate. }
    destruct (c_reqbig (cr_call cr)).
    { eapply invA_shrink; [exact HA|reflexivity| |tauto|intros; apply Nat.le_refl|tauto].
      intros j.
      match goal with |- context [get_call ?X j] =>
        lazymatch X with s => fail | _ => change (get_call X j) with (get_call (set_slot i SDead (set_st i CWait s)) j) end end.
      rewrite get_call_set_slot, get_call_set_st. destruct (i =? j) eqn:E; [|apply (evolves_refl s j)].
      apply N.eqb_eq in E. subst j. rewrite Ecr. cbn [option_map]. split; [split; reflexivity|]. prj.
      split; [discriminate|]. intros r [H|H]; discriminate. }
    (* the request goes on the wire *)
    set (q := mkReq i (cr_call cr)).
    destruct HA as [Ac Ai Ar At Aa As Aw].
    assert (G : forall j, get_call (set_st i CWait s <| wire := wire (set_st i CWait s) ++ [(cr_client cr, q)] |>) j =
                if i =? j then option_map (fun c => mkC (cr_client c) (cr_call c) CWait (cr_closed c) (cr_slot c)) (get_call s j)
                else get_call s j).
    { intros j. apply (get_call_set_st s i CWait j). }
    split; unfold tok_init, req_ok; prj; try setoid_rewrite G.
    + intros j c0. destruct (i =? j) eqn:E; [|apply Ac]. apply N.eqb_eq in E. subst j. rewrite Ecr. intros [= <-]. prj. auto.
    + intros e j He Hj. destruct (i =? j) eqn:E; [|eauto]. apply N.eqb_eq in E. subst j. rewrite Ecr. discriminate.
    + intros q0 Hq. unfold reqs_of in Hq. prj. rewrite map_app, <- app_assoc in Hq. cbn [map snd app] in Hq.
      rewrite in_app_iff in Hq. destruct Hq as [Hq|[<-|Hq]].
      * destruct (Ar q0) as (c0 & E0 & Ec0); [unfold reqs_of; rewrite in_app_iff; now left|].
        destruct (i =? q_cell q0) eqn:E; [|eauto]. apply N.eqb_eq in E. rewrite <- E in *. rewrite Ecr in *. injection E0 as <-.
        eexists. split; [reflexivity|exact Ec0].
      * subst q. prj. rewrite N.eqb_refl, Ecr. eexists. split; reflexivity.
      * destruct (Ar q0) as (c0 & E0 & Ec0); [unfold reqs_of; rewrite in_app_iff; now right|].
        destruct (i =? q_cell q0) eqn:E; [|eauto]. apply N.eqb_eq in E. rewrite <- E in *. rewrite Ecr in *. injection E0 as <-.
        eexists. split; [reflexivity|exact Ec0].
    + intros j. specialize (At j). clear G. subst q. unfold tok_init, cells_of, handlers in *. prj. rewrite !map_app, !cnt_app in *. cbn [map cnt snd]. prj.
      destruct (i =? j) eqn:E.
      * apply N.eqb_eq in E. subst j. rewrite Ecr in *. cbn [option_map]. prj. rewrite Est in At. lia.
      * lia.
    + exact Aa.
    + intros j c0 r. destruct (i =? j) eqn:E; [|apply As]. apply N.eqb_eq in E. subst j. rewrite Ecr. intros [= <-]. prj. apply As. exact Ecr.
    + exact Aw.
  - (* ADropCall *)
    destruct (get_call s i) as [cr|] eqn:Ecr; [|exact HA].
    assert (G : invA (ev_add (EDropCall i) (set_st i CDropped s)) (loop_waits (loop s)) (handlers s)).
    { apply invA_ev; [|exact I|].
      - eapply invA_shrink; [exact HA|reflexivity|apply evolves_set_st; discriminate|tauto|intros; apply Nat.le_refl|tauto].
      - intros j [= <-]. rewrite get_call_set_st, N.eqb_refl, Ecr. discriminate. }
    destruct (cr_st cr); try exact HA; exact G.
  - (* ANotifyClose *)
    destruct (get_call s i) as [cr|] eqn:Ecr; [|exact HA].
    destruct (cr_st cr); try exact HA.
    eapply invA_shrink; [exact HA|reflexivity|apply evolves_set_closed|tauto|intros; apply Nat.le_refl|tauto].
  - (* ADeliverReq *)
    destruct (first_of_client (wire s) (N.to_nat k)); [|exact HA].
    destruct (nth_error (wire s) (N.to_nat k)) as [[cl q]|] eqn:Ek; [|exact HA].
    destruct (del_split _ _ _ Ek) as (l1 & l2 & Ew & Ed).
    assert (Hloop : forall X : sys, loop X = loop s -> tasks X = tasks s ->
              loop_waits (loop X) = loop_waits (loop s) /\ handlers X = handlers s).
    { intros X E1 E2. unfold handlers. now rewrite E1, E2. }
    assert (HliveT : invA (set_slot (q_cell q) SDead (s <| wire := del (N.to_nat k) (wire s) |>) <| queue := queue s ++ [QBad] |>)
                   (loop_waits (loop s)) (handlers s)).
    { eapply invA_shrink; [exact HA|reflexivity|(let j := fresh in intros j; apply (evolves_set_slot_dead s _ j))| | |tauto].
      + intros q0. unfold reqs_of, handlers. prj. rewrite Ed, Ew, qreqs_app, !map_app, !in_app_iff. cbn [map snd In qreqs flat_map app]. tauto.
      + intros j. unfold cells_of, handlers. prj. rewrite Ed, Ew, qreqs_app, !map_app, !cnt_app. cbn [map snd cnt qreqs flat_map app]. lia. }
    assert (HliveF : invA (s <| wire := del (N.to_nat k) (wire s) |> <| queue := queue s ++ [QReq q] |>)
                   (loop_waits (loop s)) (handlers s)).
    { eapply invA_shrink; [exact HA|reflexivity|(let j := fresh in intros j; apply (evolves_refl s j))| | |tauto].
      + intros q0. unfold reqs_of, handlers. prj. rewrite Ed, Ew, qreqs_app, !map_app, !in_app_iff. cbn [map snd In qreqs flat_map app]. tauto.
      + intros j. unfold cells_of, handlers. prj. rewrite Ed, Ew, qreqs_app, !map_app, !cnt_app. cbn [map snd cnt qreqs flat_map app]. lia. }
    destruct (is_done (loop s)); [|destruct (c_bad (q_call q)); [exact HliveT|exact HliveF]].
    eapply invA_shrink; [exact HA|reflexivity|(let j := fresh in intros j; apply (evolves_set_slot_dead s _ j))| | |tauto].
    + intros q0. unfold reqs_of, handlers. prj. rewrite Ed, Ew, !map_app, !in_app_iff. cbn [map snd In]. tauto.
    + intros j. unfold cells_of, handlers. prj. rewrite Ed, Ew, !map_app, !cnt_app. cbn [map snd cnt]. lia.
  - (* ADeliverReply *)
    destruct (get_call s i) as [cr|] eqn:Ecr; [|exact HA].
    destruct (cr_slot cr) eqn:Es; try exact HA.
    eapply invA_shrink; [exact HA|reflexivity|eapply evolves_set_slot_got; eauto|tauto|intros; apply Nat.le_refl|tauto].
  - (* ALoseReply *)
    destruct (get_call s i) as [cr|] eqn:Ecr; [|exact HA].
    destruct (cr_slot cr) eqn:Es; try exact HA.
    eapply invA_shrink; [exact HA|reflexivity|(let j := fresh in intros j; apply (evolves_set_slot_dead s _ j))|tauto|intros; apply Nat.le_refl|tauto].
  - (* AReturn *)
    destruct (get_call s i) as [cr|] eqn:Ecr; [|exact HA].
    assert (G : forall o, ev_pre (trace s) (ERet i o) ->
                invA (ev_add (ERet i o) (set_st i CDone s)) (loop_waits (loop s)) (handlers s)).
    { intros o Ho. apply invA_ev; [|exact Ho|].
      - eapply invA_shrink; [exact HA|reflexivity|apply evolves_set_st; discriminate|tauto|intros; apply Nat.le_refl|tauto].
      - intros j [= <-]. rewrite get_call_set_st, N.eqb_refl, Ecr. discriminate. }
    destruct (cr_st cr); try exact HA.
    destruct (cr_slot cr) eqn:Es; try (destruct (cut s); [apply G; exact I|exact HA]).
    + apply G. cbn [ev_pre]. exists (cr_call cr). eapply (a_slot _ _ _ HA); eauto.
    + apply G. exact I.
  - (* ANewClient *) eapply invA_same; [..|exact HA]; reflexivity.
  - (* ADropClient *) eapply invA_same; [..|exact HA]; reflexivity.
  - (* ACloseReqs *)
    destruct (all_dead (clients s) && negb (qclosed s) && match wire s with [] => true | _ => false end); [|exact HA].
    eapply invA_shrink; [exact HA|reflexivity|(let j := fresh in intros j; apply (evolves_refl s j))| | |tauto].
    + intros q0. unfold reqs_of, handlers. prj. rewrite qreqs_app, !in_app_iff. cbn [qreqs flat_map In app]. tauto.
    + intros j. unfold cells_of, handlers. prj. rewrite qreqs_app, !map_app, !cnt_app. cbn [qreqs flat_map map cnt app]. lia.
  - (* ACut *)
    destruct (cut s); [exact HA|].
    destruct (lose_wire_spec (wire s) s) as [Hr Hk].
    destruct Hr as (_ & _ & _ & _ & _ & Ew & _ & _ & _ & _ & Eq & El & Et & _ & _ & _ & _ & _ & Etr).
    set (s1 := lose_wire (wire s) s) in *.
    assert (Hev : forall X : sys, calls X = map cut_cell (calls s1) -> trace X = trace s -> evolves s X).
    { intros X Ec Etx. eapply evolves_trans; [exact Etr|apply killed_evolves, Hk|].
      intros j. pose proof (cut_cells_evolves s1 X Ec j) as H. exact H. }
    destruct (qclosed s).
    + eapply invA_shrink; [exact HA|exact Etr|apply Hev; [reflexivity|exact Etr]| | |].
      * intros q0. unfold reqs_of, handlers. prj. rewrite Eq, El, Et. cbn [map app]. rewrite !in_app_iff. tauto.
      * intros j. unfold cells_of, handlers. prj. rewrite Eq, El, Et. cbn [map]. rewrite !cnt_app. cbn [cnt]. lia.
      * unfold handlers. prj. rewrite El, Et. tauto.
    + eapply invA_shrink; [exact HA|exact Etr|apply Hev; [reflexivity|exact Etr]| | |].
      * intros q0. unfold reqs_of, handlers. prj. rewrite El, Et, qreqs_app. cbn [map app qreqs flat_map]. rewrite !in_app_iff. cbn [In]. tauto.
      * intros j. unfold cells_of, handlers. prj. rewrite El, Et, qreqs_app. cbn [map qreqs flat_map]. rewrite !map_app, !cnt_app. cbn [map cnt]. lia.
      * unfold handlers. prj. rewrite El, Et. tauto.
  - (* ALoop *) apply loop_step_invA. exact HA.
  - (* ATask *) apply task_step_invA. exact HA.
  - (* ASendDone *)
    destruct (nth_error (sends s) (N.to_nat k)); [|exact HA].
    eapply invA_same; [..|exact HA]; reflexivity.
  - (* AStop *) apply (stop_InvA s hard). exact HA.
Qed.


Lemma init_InvA f sp p re ncl s0 : InvA (init f sp p re ncl s0).
Proof.
  unfold InvA, init, handlers. prj. cbn [loop_waits loop_hs app].
  split; unfold tok_init, get_call, reqs_of, cells_of; prj; cbn [map flat_map app qreqs cnt execs wf_tr In].
  - intros i cr. destruct (N.to_nat i); discriminate.
  - tauto.
  - tauto.
  - intros i. destruct (N.to_nat i); cbn; lia.
  - tauto.
  - intros i cr r. destruct (N.to_nat i); discriminate.
  - exact I.
Qed.

Lemma run_app acts1 acts2 (s : sys) : run (acts1 ++ acts2) s = run acts2 (run acts1 s).
Proof. unfold Server.run. apply fold_left_app. Qed.

Lemma run_InvA acts : forall s, InvA s -> InvA (run acts s).
Proof. induction acts as [|a t IH]; intros s H; [exact H|]. cbn [Server.run fold_left]. apply IH, step_invA, H. Qed.

Lemma wf_ret (tr : list ev) i r : wf_tr tr -> In (ERet i (OVal r)) tr -> exists c, In (EExec i c r) tr.
Proof.
  induction tr as [|e t IH]; [contradiction|]. cbn [wf_tr]. intros [H1 H2] [->|Hin].
  - destruct H1 as (c & Hc). exists c. now right.
  - destruct (IH H2 Hin) as (c & Hc). exists c. now right.
Qed.

Lemma wf_exec (tr : list ev) i c r : wf_tr tr -> In (EExec i c r) tr -> exists cl, In (EInv i cl c) tr.
Proof.
  induction tr as [|e t IH]; [contradiction|]. cbn [wf_tr]. intros [H1 H2] [->|Hin].
  - destruct H1 as (cl & Hc). exists cl. now right.
  - destruct (IH H2 Hin) as (cl & Hc). exists cl. now right.
Qed.

Lemma wf_inv_unique (tr : list ev) i cl c cl' c' : wf_tr tr -> In (EInv i cl c) tr -> In (EInv i cl' c') tr -> cl = cl' /\ c = c'.
Proof.
  induction tr as [|e t IH]; [contradiction|]. cbn [wf_tr]. intros [H1 H2] [->|Hin] [E|Hin'].
  - injection E as <- <-. auto.
  - exfalso. exact (H1 _ Hin' eq_refl).
  - subst e. exfalso. exact (H1 _ Hin eq_refl).
  - eauto.
Qed.

(** ** C12: at most once, own reply *)
Theorem at_most_once f sp p re ncl s0 acts i :
  let tr := trace (run acts (init f sp p re ncl s0)) in
  (execs i tr <= 1)%nat /\
  (forall c r, In (EExec i c r) tr -> exists cl, In (EInv i cl c) tr) /\
  (forall r, In (ERet i (OVal r)) tr ->
     exists cl c, In (EInv i cl c) tr /\ In (EExec i c r) tr /\ execs i tr = 1%nat) /\
  (forall cl c cl' c', In (EInv i cl c) tr -> In (EInv i cl' c') tr -> cl = cl' /\ c = c').
Proof.
  intros tr. pose proof (run_InvA acts _ (init_InvA f sp p re ncl s0)) as HA. fold tr in HA.
  destruct HA as [Ac Ai Ar At Aa As Aw]. fold tr in At, Aw.
  assert (Hle : (execs i tr <= 1)%nat) by (specialize (At i); lia).
  split; [exact Hle|]. split; [|split].
  - intros c r. apply wf_exec, Aw.
  - intros r Hr. destruct (wf_ret _ _ _ Aw Hr) as (c & Hc). destruct (wf_exec _ _ _ _ Aw Hc) as (cl & Hcl).
    exists cl, c. repeat split; auto.
    assert (0 < execs i tr)%nat; [|lia]. clear - Hc. induction tr as [|e t IH]; [contradiction|].
    destruct Hc as [->|Hc]; cbn [execs]; [rewrite N.eqb_refl; lia|]. specialize (IH Hc). destruct e; try exact IH. lia.
  - intros cl c cl' c'. apply wf_inv_unique, Aw.
Qed.

(** a reply is written only into the cell created by the call it answers: whatever a reply cell holds
    is the result of an execution of the call that created the cell, with the arguments of that call *)
Theorem own_reply f sp p re ncl s0 acts i cr r :
  let s := run acts (init f sp p re ncl s0) in
  get_call s i = Some cr -> cr_slot cr = SVal r \/ cr_slot cr = SGot r ->
  In (EInv i (cr_client cr) (cr_call cr)) (trace s) /\ In (EExec i (cr_call cr) r) (trace s).
Proof.
  intros s E Hs. pose proof (run_InvA acts _ (init_InvA f sp p re ncl s0)) as HA. fold s in HA.
  split; [exact (a_calls _ _ _ HA i cr E)|exact (a_slot _ _ _ HA i cr r E Hs)].
Qed.


(** * Group B: atomicity *)
Notation nexts := (next_state is_mut apply).

Fixpoint state_after (s0 : St) (tr : list ev) : St :=
  match tr with
  | [] => s0
  | EExec _ c _ :: t => nexts (state_after s0 t) c
  | _ :: t => state_after s0 t
  end.

(** every logged execution computed its result from the state left by the executions logged before it *)
Fixpoint results_ok (s0 : St) (tr : list ev) : Prop :=
  match tr with
  | [] => True
  | EExec _ c r :: t => r = snd (apply (state_after s0 t) c) /\ results_ok s0 t
  | _ :: t => results_ok s0 t
  end.

Definition hkind (h : handler) : kind := c_kind (q_call (h_req h)).

Definition lock_for (f : flavour) (k : kind) : lockm :=
  match f with
  | FSharedMut => match k with KMut => LkWrite | _ => LkRead end
  | _ => LkNone
  end.

Definition is_read (h : handler) : bool := match h_lk h with LkRead => true | _ => false end.
Definition is_write (h : handler) : bool := match h_lk h with LkWrite => true | _ => false end.
Definition nreads (hs : list handler) : nat := length (filter is_read hs).
Definition nwrites (hs : list handler) : nat := length (filter is_write hs).

Definition shared (f : flavour) : bool := match f with FShared | FSharedMut => true | _ => false end.

Record invB (s0 : St) (s : sys) (hs : list handler) : Prop := {
  b_lst : state_after s0 (trace s) = lst s;
  b_res : results_ok s0 (trace s);
  b_tgt : forall t, target s = Some t -> t = lst s;
  b_snap : forall h t, In h hs -> h_ph h = PRun t -> t = lst s;
  b_lk : forall h, In h hs -> supports (flav s) (hkind h) = true /\ h_lk h = lock_for (flav s) (hkind h);
  b_lock : flav s = FSharedMut -> rd s = N.of_nat (nreads hs) /\ (wr s = true <-> (0 < nwrites hs)%nat);
  b_excl : (nwrites hs <= 1)%nat /\ ((0 < nwrites hs)%nat -> nreads hs = O);
  b_one : shared (flav s) = false -> (length hs <= 1)%nat;
}.

Definition InvB (s0 : St) (s : sys) : Prop :=
  invB s0 s (handlers s) /\
  (shared (flav s) = false -> tasks s = []) /\
  (forall q m, loop s = LWait q m ->
     flav s = FSharedMut /\ supports FSharedMut (c_kind (q_call q)) = true /\ m = lock_for FSharedMut (c_kind (q_call q))).

Lemma nreads_app a b : nreads (a ++ b) = (nreads a + nreads b)%nat.
Proof. unfold nreads. now rewrite filter_app, app_length. Qed.
Lemma nwrites_app a b : nwrites (a ++ b) = (nwrites a + nwrites b)%nat.
Proof. unfold nwrites. now rewrite filter_app, app_length. Qed.
Lemma nreads_cons h t : nreads (h :: t) = ((if is_read h then 1 else 0) + nreads t)%nat.
Proof. unfold nreads. cbn [filter]. destruct (is_read h); reflexivity. Qed.
Lemma nwrites_cons h t : nwrites (h :: t) = ((if is_write h then 1 else 0) + nwrites t)%nat.
Proof. unfold nwrites. cbn [filter]. destruct (is_write h); reflexivity. Qed.


Lemma locked_length (l : list handler) :
  (forall x, In x l -> is_read x || is_write x = true) -> (length l <= nreads l + nwrites l)%nat.
Proof.
  induction l as [|x t IH]; intros H; [cbn; lia|].
  rewrite nreads_cons, nwrites_cons. cbn [length].
  specialize (IH (fun y Hy => H y (or_intror Hy))). specialize (H x (or_introl eq_refl)).
  destruct (is_read x), (is_write x); cbn in H; try discriminate; lia.
Qed.

(** a handler that takes the target mutably is the only handler *)
Lemma mut_alone s0 (s : sys) H1 h H2 :
  invB s0 s (H1 ++ h :: H2) -> hkind h = KMut -> H1 = [] /\ H2 = [].
Proof.
  intros HB Hk.
  assert (Hin : In h (H1 ++ h :: H2)) by (apply in_or_app; right; now left).
  destruct (b_lk _ _ _ HB h Hin) as [Hs Hl]. rewrite Hk in Hs, Hl.
  assert (Hlen : (length (H1 ++ h :: H2) <= 1)%nat).
  { destruct (flav s) eqn:Ef; try discriminate.
    - apply (b_one _ _ _ HB). now rewrite Ef.
    - apply (b_one _ _ _ HB). now rewrite Ef.
    - destruct (b_excl _ _ _ HB) as [Hw1 Hw2].
      assert (0 < nwrites (H1 ++ h :: H2))%nat as Hpos.
      { rewrite nwrites_app, nwrites_cons. unfold is_write. rewrite Hl. cbn. lia. }
      specialize (Hw2 Hpos).
      pose proof (locked_length (H1 ++ h :: H2)) as Hll. rewrite Hw2 in Hll. etransitivity; [apply Hll|lia].
      intros x Hx. destruct (b_lk _ _ _ HB x Hx) as [_ Hlx]. unfold is_read, is_write. rewrite Hlx, Ef.
      cbn. destruct (hkind x); reflexivity. }
  rewrite app_length in Hlen. cbn [length] in Hlen.
  destruct H1; [|cbn in Hlen; lia]. destruct H2; [|cbn in Hlen; lia]. auto.
Qed.

Lemma invB_plain_ev s0 (s s1 : sys) hs e :
  invB s0 s hs -> (match e with EExec _ _ _ => False | _ => True end) ->
  trace s1 = e :: trace s -> lst s1 = lst s -> target s1 = target s -> flav s1 = flav s -> rd s1 = rd s -> wr s1 = wr s ->
  invB s0 s1 hs.
Proof.
  intros [B1 B2 B3 B4 B5 B6 B7 B8] He Et El Etg Ef Erd Ewr.
  split; rewrite ?Et, ?El, ?Etg, ?Ef, ?Erd, ?Ewr; auto.
  - destruct e; try contradiction; exact B1.
  - destruct e; try contradiction; exact B2.
Qed.

Lemma poll_h_invB s0 (s : sys) H1 h H2 s1 oh :
  invB s0 s (H1 ++ h :: H2) -> poll_h s h = (s1, oh) ->
  invB s0 s1 (H1 ++ olist oh ++ H2) /\ flav s1 = flav s.
Proof.
  intros HB. unfold Server.poll_h.
  set (i := q_cell (h_req h)). set (c := q_call (h_req h)).
  assert (Hin : In h (H1 ++ h :: H2)) by (apply in_or_app; right; now left).
  destruct (b_lk _ _ _ HB h Hin) as [Hsup Hlk].
  (* removing [h] from the list, releasing its guard *)
  assert (Hrem : forall X : sys, trace X = trace s -> lst X = lst s -> target X = target s -> flav X = flav s ->
             rd X = rd s -> wr X = wr s -> invB s0 (release (h_lk h) X) (H1 ++ H2)).
  { intros X Et El Etg Ef Erd Ewr. destruct HB as [B1 B2 B3 B4 B5 B6 B7 B8].
    assert (Hsub : forall x, In x (H1 ++ H2) -> In x (H1 ++ h :: H2)).
    { intros x. rewrite !in_app_iff. cbn [In]. tauto. }
    rewrite nreads_app, nwrites_app, nreads_cons, nwrites_cons in *. rewrite app_length in B8. cbn [length] in B8.
    assert (Hf' : flav (release (h_lk h) X) = flav s) by (destruct (h_lk h); prj; exact Ef).
    assert (Hl' : lst (release (h_lk h) X) = lst s) by (destruct (h_lk h); prj; exact El).
    assert (Ht' : trace (release (h_lk h) X) = trace s) by (destruct (h_lk h); prj; exact Et).
    assert (Hg' : target (release (h_lk h) X) = target s) by (destruct (h_lk h); prj; exact Etg).
    split; rewrite ?Hf', ?Hl', ?Ht', ?Hg'; auto.
    - eauto.
    - rewrite nreads_app, nwrites_app. intros Hf. destruct (B6 Hf) as [Hr Hw]. unfold is_read, is_write in *.
      destruct (h_lk h); prj; rewrite ?Erd, ?Ewr; cbn in *.
      + split; [exact Hr|exact Hw].
      + split; [lia|exact Hw].
      + split; [exact Hr|]. split; [discriminate|]. lia.
    - rewrite nreads_app, nwrites_app. destruct (is_read h), (is_write h); lia.
    - intros Hf. rewrite app_length. specialize (B8 Hf). lia. }
  destruct (negb (c_nocancel c) && is_closed s i).
  { intros [= <- <-]. cbn [olist app]. split; [|destruct (h_lk h); reflexivity].
    eapply invB_plain_ev with (s := release (h_lk h) (set_slot i SDead s)) (e := match h_ph h with PNew => ESkip i | _ => ECancel i end).
    - apply Hrem; reflexivity.
    - destruct (h_ph h); exact I.
    - destruct (h_lk h); reflexivity.
    - destruct (h_lk h); reflexivity.
    - destruct (h_lk h); reflexivity.
    - destruct (h_lk h); reflexivity.
    - destruct (h_lk h); reflexivity.
    - destruct (h_lk h); reflexivity. }
  (* replacing [h] by a handler in another phase, same lock *)
  assert (Hrep : forall (X : sys) ph, flav X = flav s -> rd X = rd s -> wr X = wr s ->
             state_after s0 (trace X) = lst X -> results_ok s0 (trace X) ->
             (forall t, target X = Some t -> t = lst X) ->
             (forall x t, In x (H1 ++ mkH (h_req h) ph (h_lk h) :: H2) -> h_ph x = PRun t -> t = lst X) ->
             invB s0 X (H1 ++ mkH (h_req h) ph (h_lk h) :: H2)).
  { intros X ph Ef Erd Ewr G1 G2 G3 G4. destruct HB as [B1 B2 B3 B4 B5 B6 B7 B8].
    rewrite nreads_app, nwrites_app, nreads_cons, nwrites_cons in *. rewrite app_length in *. cbn [length] in *.
    split; rewrite ?Ef, ?Erd, ?Ewr; auto.
    - intros x. rewrite in_app_iff. cbn [In]. intros [Hx|[<-|Hx]].
      + apply B5. apply in_or_app. now left.
      + unfold hkind. prj. exact (conj Hsup Hlk).
      + apply B5. apply in_or_app. right. now right.
    - rewrite nreads_app, nwrites_app, nreads_cons, nwrites_cons. exact B6.
    - rewrite nreads_app, nwrites_app, nreads_cons, nwrites_cons. exact B7.
    - rewrite app_length. cbn [length]. exact B8. }
  destruct (h_ph h) as [|t|r] eqn:Eph.
  - destruct (target s) as [t|] eqn:Etg.
    2:{ intros [= <- <-]. cbn [olist app]. split; [exact HB|reflexivity]. }
    intros [= <- <-]. cbn [olist app]. split; [|destruct (c_kind c); reflexivity].
    assert (Ht : t = lst s) by exact (b_tgt _ _ _ HB t Etg).
    destruct HB as [B1 B2 B3 B4 B5 B6 B7 B8].
    assert (G4 : forall x t0, In x (H1 ++ mkH (h_req h) (PRun t) (h_lk h) :: H2) -> h_ph x = PRun t0 -> t0 = lst s).
    { intros x t0. rewrite in_app_iff. cbn [In]. intros [Hx|[<-|Hx]] Hp.
      - eapply B4; [apply in_or_app; left; exact Hx|exact Hp].
      - prj. injection Hp as <-. exact Ht.
      - eapply B4; [apply in_or_app; right; right; exact Hx|exact Hp]. }
    destruct (c_kind c); (apply Hrep; [reflexivity|reflexivity|reflexivity|exact B1|exact B2| |exact G4]).
    + prj. intros; discriminate.
    + exact B3.
    + exact B3.
  - destruct (apply t c) as [t' r] eqn:Eap. intros [= <- <-]. cbn [olist app].
    assert (Ht : t = lst s) by exact (b_snap _ _ _ HB h t Hin Eph).
    split; [|destruct (c_kind c); reflexivity].
    destruct (c_kind c) eqn:Ek.
    + (* by value *)
      destruct HB as [B1 B2 B3 B4 B5 B6 B7 B8]. apply Hrep; prj; auto.
      * cbn [state_after]. unfold next_state, is_mut. fold c. rewrite Ek. exact B1.
      * cbn [results_ok]. split; [|exact B2]. rewrite B1, <- Ht, Eap. reflexivity.
      * intros x t0. rewrite in_app_iff. cbn [In]. intros [Hx|[<-|Hx]] Hp;
          [eapply B4; [apply in_or_app; left; exact Hx|exact Hp]|discriminate
          |eapply B4; [apply in_or_app; right; right; exact Hx|exact Hp]].
    + destruct HB as [B1 B2 B3 B4 B5 B6 B7 B8]. apply Hrep; prj; auto.
      * cbn [state_after]. unfold next_state, is_mut. fold c. rewrite Ek. exact B1.
      * cbn [results_ok]. split; [|exact B2]. rewrite B1, <- Ht, Eap. reflexivity.
      * intros x t0. rewrite in_app_iff. cbn [In]. intros [Hx|[<-|Hx]] Hp;
          [eapply B4; [apply in_or_app; left; exact Hx|exact Hp]|discriminate
          |eapply B4; [apply in_or_app; right; right; exact Hx|exact Hp]].
    + (* the effect of a [&mut] method *)
      destruct (mut_alone _ _ _ _ _ HB Ek) as [-> ->].
      destruct HB as [B1 B2 B3 B4 B5 B6 B7 B8]. apply Hrep; prj; auto.
      * cbn [state_after]. unfold next_state, is_mut. fold c. rewrite Ek, B1, <- Ht, Eap. reflexivity.
      * cbn [results_ok]. split; [|exact B2]. rewrite B1, <- Ht, Eap. reflexivity.
      * intros t0 [= <-]. reflexivity.
      * intros x t0 [<-|[]] Hp. discriminate.
  - intros [= <- <-]. cbn [olist app].
    set (X := ev_add (EFinish i) s).
    assert (HX : invB s0 (release (h_lk h) X) (H1 ++ H2)).
    { eapply invB_plain_ev with (s := release (h_lk h) s) (e := EFinish i); [apply Hrem; reflexivity|exact I|..];
        destruct (h_lk h); reflexivity. }
    split.
    2:{ destruct (is_closed s i), (too_big c r), (h_lk h); reflexivity. }
    assert (Hany : forall Y : sys, trace Y = trace (release (h_lk h) X) -> lst Y = lst (release (h_lk h) X) ->
              target Y = target (release (h_lk h) X) -> flav Y = flav (release (h_lk h) X) ->
              rd Y = rd (release (h_lk h) X) -> wr Y = wr (release (h_lk h) X) -> invB s0 Y (H1 ++ H2)).
    { intros Y E1 E2 E3 E4 E5 E6. destruct HX as [B1 B2 B3 B4 B5 B6 B7 B8]. split; rewrite ?E1, ?E2, ?E3, ?E4, ?E5, ?E6; auto. }
    destruct (is_closed s i); [apply Hany; reflexivity|].
    destruct (too_big c r); apply Hany; reflexivity.
Qed.


Definition plainB (e : ev) : Prop := match e with EExec _ _ _ => False | _ => True end.

Lemma InvB_frame s0 (s s' : sys) :
  InvB s0 s ->
  (trace s' = trace s \/ exists e, plainB e /\ trace s' = e :: trace s) ->
  lst s' = lst s -> target s' = target s -> flav s' = flav s -> rd s' = rd s -> wr s' = wr s ->
  loop s' = loop s -> tasks s' = tasks s -> InvB s0 s'.
Proof.
  intros (HB & Hns & Hw) Ht El Etg Ef Erd Ewr Elp Ets. unfold InvB, handlers. rewrite Elp, Ets, Ef.
  split; [|split; assumption].
  fold (handlers s). destruct Ht as [Ht|(e & He & Ht)].
  - destruct HB as [B1 B2 B3 B4 B5 B6 B7 B8]. split; rewrite ?Ht, ?El, ?Etg, ?Ef, ?Erd, ?Ewr; auto.
  - eapply invB_plain_ev; eauto.
Qed.

Lemma invB_eq s0 (s s' : sys) hs :
  trace s' = trace s -> lst s' = lst s -> target s' = target s -> flav s' = flav s -> rd s' = rd s -> wr s' = wr s ->
  invB s0 s hs -> invB s0 s' hs.
Proof.
  intros Ht El Etg Ef Erd Ewr [B1 B2 B3 B4 B5 B6 B7 B8]. split; rewrite ?Ht, ?El, ?Etg, ?Ef, ?Erd, ?Ewr; auto.
Qed.

Lemma finish_InvB s0 (s : sys) r : loop_hs (loop s) = [] -> (forall q m, loop s <> LWait q m) -> InvB s0 s -> InvB s0 (finish r s).
Proof.
  intros E1 E2 (HB & Hns & Hw). destruct (finish_fields s r) as [El Et].
  destruct (drop_queue_spec (queue s) s) as [Hr _]. unfold rest_eq in Hr.
  unfold InvB, handlers. rewrite El, Et. cbn [loop_hs app]. unfold handlers in HB. rewrite E1 in HB. cbn [app] in HB.
  assert (Ef : flav (finish r s) = flav s) by (unfold finish; prj; tauto).
  rewrite Ef. split; [|split; [assumption|intros; discriminate]].
  eapply invB_plain_ev with (e := ESrvDone r); [exact HB|exact I|unfold finish; prj; f_equal; tauto|unfold finish; prj; tauto..].
Qed.

Lemma poll_h_fields (s : sys) h s1 oh : poll_h s h = (s1, oh) -> tasks s1 = tasks s /\ loop s1 = loop s.
Proof.
  unfold Server.poll_h.
  destruct (negb (c_nocancel (q_call (h_req h))) && is_closed s (q_cell (h_req h))).
  { intros [= <- _]. destruct (h_lk h); split; reflexivity. }
  destruct (h_ph h) as [|t|r].
  - destruct (target s); [|intros [= <- _]; split; reflexivity].
    intros [= <- _]. destruct (c_kind (q_call (h_req h))); split; reflexivity.
  - destruct (apply t (q_call (h_req h))) as [t' r]. intros [= <- _]. destruct (c_kind (q_call (h_req h))); split; reflexivity.
  - intros [= <- _]. destruct (is_closed s (q_cell (h_req h))), (too_big (q_call (h_req h)) r), (h_lk h); split; reflexivity.
Qed.

Lemma loop_step_InvB s0 (s : sys) : InvB s0 s -> InvB s0 (loop_step s).
Proof.
  intros HI. pose proof HI as (HB & Hns & Hw). unfold Server.loop_step. destruct (loop s) as [|q m|h| |r] eqn:El.
  - (* idle *)
    destruct (0 <? errq s). { apply finish_InvB; [now rewrite El|intros; rewrite El; discriminate|exact HI]. }
    destruct (queue s) as [|[q| | |] rest] eqn:Eq; [exact HI| | | |].
    + (* dispatch *)
      unfold dispatch. prj. destruct (supports (flav s) (c_kind (q_call q))) eqn:Esup; cbn [negb].
      2:{ eapply InvB_frame; [exact HI|left; reflexivity|reflexivity..|prj; now rewrite El|reflexivity]. }
      unfold handlers in HB. rewrite El in HB. cbn [loop_hs app] in HB.
      assert (Hinline : lock_for (flav s) (c_kind (q_call q)) = LkNone -> (flav s = FShared -> spawn s = false) ->
                InvB s0 (s <| queue := rest |> <| loop := LRun (mkH q PNew LkNone) |>)).
      { intros Hlf Hsp. unfold InvB, handlers. prj. cbn [loop_hs app]. split; [|split; [exact Hns|intros; discriminate]].
        destruct HB as [B1 B2 B3 B4 B5 B6 B7 B8].
        split; prj; [exact B1|exact B2|exact B3| | | | |].
        - intros x t [<-|Hx] Hp; [discriminate|eauto].
        - intros x [<-|Hx]; [unfold hkind; prj; rewrite Hlf; auto|eauto].
        - intros Hf. rewrite Hf in Hlf. destruct (c_kind (q_call q)); discriminate.
        - rewrite nreads_cons, nwrites_cons. exact B7.
        - intros Hf. rewrite (Hns Hf). cbn. lia. }
      destruct (flav s) eqn:Ef.
      * apply Hinline; [reflexivity|discriminate].
      * apply Hinline; [reflexivity|discriminate].
      * apply Hinline; [reflexivity|discriminate].
      * destruct (spawn s) eqn:Esp; [|apply Hinline; [reflexivity|reflexivity]].
        unfold InvB, handlers. prj. rewrite El. cbn [loop_hs app]. split; [|split; [rewrite Ef; discriminate|intros; discriminate]].
        destruct HB as [B1 B2 B3 B4 B5 B6 B7 B8].
        split; prj; rewrite ?Ef; auto; try discriminate.
        -- intros x t. rewrite in_app_iff. intros [Hx|[<-|[]]] Hp; [eauto|discriminate].
        -- intros x. rewrite in_app_iff. intros [Hx|[<-|[]]]; [rewrite <- Ef; eauto|unfold hkind; prj; auto].
        -- rewrite nreads_app, nwrites_app, nreads_cons, nwrites_cons. cbn. rewrite !Nat.add_0_r. exact B7.
      * (* shared-mut: the loop goes for the lock *)
        unfold InvB, handlers. prj. cbn [loop_hs app]. split; [|split; [rewrite Ef; discriminate|]].
        -- destruct HB as [B1 B2 B3 B4 B5 B6 B7 B8]. split; prj; auto.
        -- intros q0 m [= <- <-]. rewrite Ef. split; [reflexivity|]. split; [exact Esup|]. destruct (c_kind (q_call q)); reflexivity.
    + (* undecodable request *)
      assert (H1 : InvB s0 (ev_add EReqErr (s <| queue := rest |>))).
      { eapply InvB_frame; [exact HI|right; exists EReqErr; split; [exact I|reflexivity]|reflexivity..]. }
      destruct (pol s); [exact H1| |].
      * eapply InvB_frame; [exact H1|left; reflexivity|reflexivity..].
      * apply finish_InvB; [prj; now rewrite El|prj; intros; rewrite El; discriminate|exact H1].
    + unfold InvB, handlers in *. prj. rewrite El in *. cbn [loop_hs app] in *.
      split; [eapply invB_eq; [..|exact HB]; reflexivity|split; [exact Hns|intros; discriminate]].
    + unfold InvB, handlers in *. prj. rewrite El in *. cbn [loop_hs app] in *.
      split; [eapply invB_eq; [..|exact HB]; reflexivity|split; [exact Hns|intros; discriminate]].
  - (* waiting for the lock *)
    destruct (Hw q m eq_refl) as (Ef & Hsup & Hm).
    unfold handlers in HB. rewrite El in HB. cbn [loop_hs app] in HB.
    destruct (b_lock _ _ _ HB Ef) as [Hrd Hwr].
    assert (Hacq : forall (X : sys) hs', wr s = false ->
               trace X = trace s -> lst X = lst s -> target X = target s -> flav X = flav s ->
               (hs' = mkH q PNew m :: tasks s \/ hs' = tasks s ++ [mkH q PNew m]) ->
               rd X = N.of_nat (nreads hs') -> (wr X = true <-> (0 < nwrites hs')%nat) ->
               (m = LkWrite -> nreads (tasks s) = O) ->
               invB s0 X hs').
    { intros X hs' Hwf Et Els Etg Efx Hhs Hrdx Hwrx Hmw.
      assert (Hnw : nwrites (tasks s) = O). { destruct (nwrites (tasks s)); [reflexivity|]. assert (wr s = true) by (apply Hwr; lia). congruence. }
      destruct HB as [B1 B2 B3 B4 B5 B6 B7 B8].
      assert (Hin : forall x, In x hs' -> x = mkH q PNew m \/ In x (tasks s)).
      { intros x Hx. destruct Hhs as [->| ->]; [destruct Hx; auto|apply in_app_iff in Hx as [Hx|[Hx|[]]]; auto]. }
      assert (Hcnt : nreads hs' = ((if is_read (mkH q PNew m) then 1 else 0) + nreads (tasks s))%nat /\
                     nwrites hs' = ((if is_write (mkH q PNew m) then 1 else 0) + nwrites (tasks s))%nat).
      { destruct Hhs as [->| ->]; rewrite ?nreads_cons, ?nwrites_cons, ?nreads_app, ?nwrites_app, ?nreads_cons, ?nwrites_cons; cbn [nreads nwrites filter length]; lia. }
      destruct Hcnt as [Hc1 Hc2].
      split; rewrite ?Et, ?Els, ?Etg, ?Efx; [exact B1|exact B2|exact B3| | | | |].
      - intros x t Hx Hp. destruct (Hin x Hx) as [->|Hx']; [discriminate|eauto].
      - intros x Hx. destruct (Hin x Hx) as [->|Hx']; [|eauto]. unfold hkind. prj. rewrite Ef. split; [exact Hsup|exact Hm].
      - intros _. split; [exact Hrdx|exact Hwrx].
      - rewrite Hc1, Hc2, Hnw. unfold is_read, is_write. prj. destruct m; cbn; try lia; rewrite (Hmw eq_refl); lia.
      - rewrite Ef. discriminate. }
    destruct m.
    + destruct (c_kind (q_call q)); discriminate.
    + destruct (wr s) eqn:Ewr; cbn [negb]; [exact HI|].
      assert (Hnw : nwrites (tasks s) = O). { destruct (nwrites (tasks s)); [reflexivity|]. assert (false = true) by (apply Hwr; lia). discriminate. }
      destruct (spawn s).
      * unfold InvB, handlers. prj. cbn [loop_hs app]. split; [|split; [rewrite Ef; discriminate|intros; discriminate]].
        apply Hacq; [reflexivity|reflexivity|reflexivity|reflexivity|reflexivity|right; reflexivity| | |discriminate]; prj.
        -- rewrite nreads_app, nreads_cons. cbn. lia.
        -- rewrite Ewr, nwrites_app, nwrites_cons, Hnw. cbn. split; [discriminate|lia].
      * unfold InvB, handlers. prj. cbn [loop_hs app]. split; [|split; [rewrite Ef; discriminate|intros; discriminate]].
        apply Hacq; [reflexivity|reflexivity|reflexivity|reflexivity|reflexivity|left; reflexivity| | |discriminate]; prj.
        -- rewrite nreads_cons. cbn. lia.
        -- rewrite Ewr, nwrites_cons, Hnw. cbn. split; [discriminate|lia].
    + destruct (wr s) eqn:Ewr; cbn [negb andb]; [exact HI|].
      destruct (rd s =? 0) eqn:Erd; [|exact HI]. apply N.eqb_eq in Erd.
      unfold InvB, handlers. prj. cbn [loop_hs app]. split; [|split; [rewrite Ef; discriminate|intros; discriminate]].
      assert (Hnr : nreads (tasks s) = O) by lia.
      apply Hacq; [reflexivity|reflexivity|reflexivity|reflexivity|reflexivity|left; reflexivity| | |intros; exact Hnr]; prj.
      * rewrite nreads_cons. cbn. lia.
      * rewrite nwrites_cons. cbn. split; [lia|reflexivity].
  - (* the inline handler runs *)
    unfold handlers in HB. rewrite El in HB. cbn [loop_hs app] in HB.
    destruct (poll_h s h) as [s1 oh] eqn:Ep.
    destruct (poll_h_invB s0 s [] h (tasks s) s1 oh HB Ep) as (H1 & Ef).
    pose proof (poll_h_fields _ _ _ _ Ep) as Et.
    destruct Et as [Et Elp]. cbn [app] in H1.
    destruct oh as [h'|]; cbn [olist app] in H1.
    + unfold InvB, handlers. prj. rewrite Et, Ef. cbn [loop_hs app]. split; [|split; [exact Hns|intros; discriminate]].
      destruct H1 as [B1 B2 B3 B4 B5 B6 B7 B8]. split; prj; auto.
    + unfold InvB, handlers. prj. rewrite Et, Ef.
      assert (Hah : loop_hs (after_handler s h) = [] /\ forall q m, after_handler s h <> LWait q m).
      { unfold after_handler. destruct (flav s), (c_kind (q_call (h_req h))); split; try reflexivity; intros; discriminate. }
      destruct Hah as [Hah1 Hah2]. rewrite Hah1. cbn [app]. split; [|split; [exact Hns|intros q m E; exfalso; exact (Hah2 q m E)]].
      destruct H1 as [B1 B2 B3 B4 B5 B6 B7 B8]. split; prj; auto.
  - (* draining *)
    destruct (0 <? errq s). { apply finish_InvB; [now rewrite El|intros; rewrite El; discriminate|exact HI]. }
    destruct (tasks s) eqn:Ets; [destruct (sends s)|]; try (rewrite <- El; exact HI); try exact HI.
    apply finish_InvB; [now rewrite El|intros; rewrite El; discriminate|exact HI].
  - exact HI.
Qed.


Lemma task_step_InvB s0 (s : sys) k : InvB s0 s -> InvB s0 (task_step s k).
Proof.
  intros HI. pose proof HI as (HB & Hns & Hw). unfold Server.task_step.
  destruct (nth_error (tasks s) k) as [h|] eqn:Ek; [|exact HI].
  destruct (nth_split_canon _ _ _ Ek) as (Et & _ & _).
  set (T1 := firstn k (tasks s)) in *. set (T2 := skipn (S k) (tasks s)) in *.
  destruct (poll_h s h) as [s1 oh] eqn:Ep.
  assert (HB' : invB s0 s ((loop_hs (loop s) ++ T1) ++ h :: T2)).
  { unfold handlers in HB. rewrite Et in HB. now rewrite <- app_assoc. }
  destruct (poll_h_invB _ _ _ _ _ _ _ HB' Ep) as (H1 & Ef).
  destruct (poll_h_fields _ _ _ _ Ep) as (Ets & El).
  assert (Ek1 : nth_error (tasks s1) k = Some h) by now rewrite Ets.
  destruct (nth_split_canon _ _ _ Ek1) as (_ & Ed & Eu). rewrite Ets in Ed, Eu. fold T1 T2 in Ed, Eu.
  assert (Hsh : shared (flav s) = true).
  { destruct (shared (flav s)) eqn:E; [reflexivity|]. rewrite (Hns eq_refl) in Ek. destruct k; discriminate. }
  rewrite <- app_assoc in H1.
  destruct oh as [h'|]; cbn [olist app] in H1.
  - unfold InvB, handlers. prj. rewrite El, Ets, Eu, Ef. split; [|split; [rewrite Hsh; discriminate|exact Hw]].
    eapply invB_eq; [..|exact H1]; reflexivity.
  - unfold InvB, handlers. prj. rewrite El, Ets, Ed, Ef. split; [|split; [rewrite Hsh; discriminate|exact Hw]].
    eapply invB_eq; [..|exact H1]; reflexivity.
Qed.

(** ** the callee goes away *)
(** removing [h] from the list of live handlers, releasing its guard *)
Lemma invB_remove s0 (s X : sys) H1 h H2 :
  invB s0 s (H1 ++ h :: H2) ->
  trace X = trace s -> lst X = lst s -> target X = target s -> flav X = flav s -> rd X = rd s -> wr X = wr s ->
  invB s0 (release (h_lk h) X) (H1 ++ H2).
Proof.
  intros HB Et El Etg Ef Erd Ewr.
  assert (Hin : In h (H1 ++ h :: H2)) by (apply in_or_app; right; now left).
  destruct (b_lk _ _ _ HB h Hin) as [Hsup Hlk].
  destruct HB as [B1 B2 B3 B4 B5 B6 B7 B8].
  assert (Hsub : forall x, In x (H1 ++ H2) -> In x (H1 ++ h :: H2)).
  { intros x. rewrite !in_app_iff. cbn [In]. tauto. }
  rewrite nreads_app, nwrites_app, nreads_cons, nwrites_cons in *. rewrite app_length in B8. cbn [length] in B8.
  assert (Hf' : flav (release (h_lk h) X) = flav s) by (destruct (h_lk h); prj; exact Ef).
  assert (Hl' : lst (release (h_lk h) X) = lst s) by (destruct (h_lk h); prj; exact El).
  assert (Ht' : trace (release (h_lk h) X) = trace s) by (destruct (h_lk h); prj; exact Et).
  assert (Hg' : target (release (h_lk h) X) = target s) by (destruct (h_lk h); prj; exact Etg).
  split; rewrite ?Hf', ?Hl', ?Ht', ?Hg'; auto.
  - eauto.
  - rewrite nreads_app, nwrites_app. intros Hf. destruct (B6 Hf) as [Hr Hw]. unfold is_read, is_write in *.
    destruct (h_lk h); prj; rewrite ?Erd, ?Ewr; cbn in *.
    + split; [exact Hr|exact Hw].
    + split; [lia|exact Hw].
    + split; [exact Hr|]. split; [discriminate|]. lia.
  - rewrite nreads_app, nwrites_app. destruct (is_read h), (is_write h); lia.
  - intros Hf. rewrite app_length. specialize (B8 Hf). lia.
Qed.

Lemma abandon_invB s0 (s : sys) H1 h H2 : invB s0 s (H1 ++ h :: H2) -> invB s0 (abandon s h) (H1 ++ H2).
Proof.
  intros HB. unfold abandon. set (i := q_cell (h_req h)).
  eapply invB_plain_ev with (s := release (h_lk h) (set_slot i SDead s)) (e := match h_ph h with PNew => ESkip i | _ => ECancel i end).
  - eapply invB_remove; [exact HB|reflexivity..].
  - destruct (h_ph h); exact I.
  - destruct (h_lk h); reflexivity.
  - destruct (h_lk h); reflexivity.
  - destruct (h_lk h); reflexivity.
  - destruct (h_lk h); reflexivity.
  - destruct (h_lk h); reflexivity.
  - destruct (h_lk h); reflexivity.
Qed.

Lemma stop_now_InvB s0 (X : sys) :
  invB s0 X (tasks X) -> (shared (flav X) = false -> tasks X = []) -> InvB s0 (stop_now X).
Proof.
  intros HB Hns.
  destruct (stop_now_spec X) as (El & _ & Ef & _ & _ & _ & Etg & Els & Et & _ & _ & Erd & Ewr & Etr & _).
  unfold InvB, handlers. rewrite El, Et, Ef. cbn [loop_hs app].
  split; [|split; [exact Hns|intros; discriminate]].
  eapply invB_eq; [..|exact HB]; assumption.
Qed.

Lemma stop_InvB s0 (s : sys) hard : InvB s0 s -> InvB s0 (step s (AStop hard)).
Proof.
  intros HI. pose proof HI as (HB & Hns & Hw). unfold handlers in HB. cbn [Server.step].
  destruct (loop s) as [|q m|h| |r] eqn:El; cbn [loop_hs app] in HB.
  - apply stop_now_InvB; assumption.
  - destruct hard; [|exact HI]. apply stop_now_InvB; [|exact Hns].
    eapply invB_eq; [..|exact HB]; reflexivity.
  - destruct hard; [|exact HI].
    destruct (abandon_fields s h) as (_ & Et & _).
    assert (Ef : flav (abandon s h) = flav s) by (unfold abandon; destruct (h_lk h); reflexivity).
    apply stop_now_InvB; rewrite ?Et, ?Ef; [|exact Hns].
    apply (abandon_invB s0 s [] h (tasks s)). exact HB.
  - destruct hard; [|exact HI]. apply stop_now_InvB; assumption.
  - exact HI.
Qed.

Theorem step_InvB s0 (s : sys) a : InvB s0 s -> InvB s0 (step s a).
Proof.
  intros HI. destruct a; cbn [Server.step].
  - destruct (client_exists s cl); [|exact HI].
    eapply InvB_frame; [exact HI|right; eexists; split; [|reflexivity]; exact I|reflexivity..].
  - destruct (get_call s i) as [cr|]; [|exact HI]. destruct (cr_st cr); try exact HI.
    destruct (cut s || qclosed s || negb (client_live s (cr_client cr))).
    { eapply InvB_frame; [exact HI|right; eexists; split; [|reflexivity]; exact I|reflexivity..]. }
    destruct (c_reqbig (cr_call cr)); (eapply InvB_frame; [exact HI|left; reflexivity|reflexivity..]).
  - destruct (get_call s i) as [cr|]; [|exact HI].
    destruct (cr_st cr); try exact HI; (eapply InvB_frame; [exact HI|right; eexists; split; [|reflexivity]; exact I|reflexivity..]).
  - destruct (get_call s i) as [cr|]; [|exact HI].
    destruct (cr_st cr); try exact HI. eapply InvB_frame; [exact HI|left; reflexivity|reflexivity..].
  - destruct (first_of_client (wire s) (N.to_nat k)); [|exact HI].
    destruct (nth_error (wire s) (N.to_nat k)) as [[cl q]|]; [|exact HI].
    destruct (is_done (loop s)); [|destruct (c_bad (q_call q))]; (eapply InvB_frame; [exact HI|left; reflexivity|reflexivity..]).
  - destruct (get_call s i) as [cr|]; [|exact HI].
    destruct (cr_slot cr); try exact HI. eapply InvB_frame; [exact HI|left; reflexivity|reflexivity..].
  - destruct (get_call s i) as [cr|]; [|exact HI].
    destruct (cr_slot cr); try exact HI. eapply InvB_frame; [exact HI|left; reflexivity|reflexivity..].
  - destruct (get_call s i) as [cr|]; [|exact HI].
    destruct (cr_st cr); try exact HI.
    destruct (cr_slot cr); try (destruct (cut s); [|exact HI]);
      (eapply InvB_frame; [exact HI|right; eexists; split; [|reflexivity]; exact I|reflexivity..]).
  - eapply InvB_frame; [exact HI|left; reflexivity|reflexivity..].
  - eapply InvB_frame; [exact HI|left; reflexivity|reflexivity..].
  - destruct (all_dead (clients s) && negb (qclosed s) && match wire s with [] => true | _ => false end); [|exact HI].
    eapply InvB_frame; [exact HI|left; reflexivity|reflexivity..].
  - destruct (cut s); [exact HI|].
    destruct (lose_wire_spec (wire s) s) as [Hr _]. unfold rest_eq in Hr.
    destruct (qclosed s); (eapply InvB_frame; [exact HI|left; prj; tauto|prj; tauto..]).
  - apply loop_step_InvB, HI.
  - apply task_step_InvB, HI.
  - destruct (nth_error (sends s) (N.to_nat k)); [|exact HI].
    eapply InvB_frame; [exact HI|left; reflexivity|reflexivity..].
  - apply stop_InvB. exact HI.
Qed.

Lemma init_InvB f sp p re ncl s0 : InvB s0 (init f sp p re ncl s0).
Proof.
  unfold InvB, init, handlers. prj. cbn [loop_hs app]. split; [|split; [reflexivity|intros; discriminate]].
  split; prj; cbn [state_after results_ok In nreads nwrites filter length]; try tauto; try lia;
    try (intros t [= <-]; reflexivity); try (intros _; split; [reflexivity|split; [discriminate|lia]]).
Qed.

Lemma run_InvB s0 acts : forall s, InvB s0 s -> InvB s0 (run acts s).
Proof. induction acts as [|a t IH]; intros s H; [exact H|]. cbn [Server.run fold_left]. apply IH, step_InvB, H. Qed.


(** * From a well-formed trace to a linearization: the order of execution *)
Notation lin_entry := (@lin_entry (call Arg) Rep).
Notation Linearizable := (@Linearizable St (call Arg) Rep is_mut apply).
Notation replay := (@replay St (call Arg) Rep is_mut apply).

Definition entry_of (e : ev) : list lin_entry := match e with EExec i c r => [(i, c, r)] | _ => [] end.
Definition exec_entries (tr : list ev) : list lin_entry := flat_map entry_of tr.   (* newest first *)
Definition lin_of (tr : list ev) : list lin_entry := rev (exec_entries tr).
Definition ids (l : list lin_entry) : list N := map le_id l.

Lemma hev_of_len (e : ev) : (length (hev_of e) <= 1)%nat.
Proof. destruct e as [| ? [|] | | | | | | | |]; cbn; lia. Qed.

Lemma in_exec_entries i c r tr : In (i, c, r) (exec_entries tr) <-> In (EExec i c r) tr.
Proof.
  unfold exec_entries. rewrite in_flat_map. split.
  - intros (e & He & Hin). destruct e; cbn in Hin; try contradiction. destruct Hin as [[= -> -> ->]|[]]. exact He.
  - intros H. exists (EExec i c r). split; [exact H|now left].
Qed.

Lemma in_ids_execs i tr : In i (ids (exec_entries tr)) -> (0 < execs i tr)%nat.
Proof.
  induction tr as [|e t IH]; [contradiction|]. unfold ids, exec_entries in *. cbn [flat_map]. rewrite map_app, in_app_iff.
  intros [H|H].
  - destruct e; cbn in H; try contradiction. destruct H as [<-|[]]. cbn [execs le_id fst]. rewrite N.eqb_refl. lia.
  - specialize (IH H). destruct e; cbn [execs]; lia.
Qed.

Lemma nodup_ids tr : (forall i, (execs i tr <= 1)%nat) -> NoDup (ids (exec_entries tr)).
Proof.
  induction tr as [|e t IH]; intros H; [constructor|].
  assert (Ht : forall i, (execs i t <= 1)%nat).
  { intros i. specialize (H i). destruct e; cbn [execs] in H; lia. }
  unfold ids, exec_entries. cbn [flat_map]. rewrite map_app.
  destruct e; cbn [entry_of map app]; try exact (IH Ht).
  constructor; [|exact (IH Ht)]. intros Hin. apply in_ids_execs in Hin. cbn [le_id fst] in Hin. specialize (H i). cbn [execs le_id fst] in H.
  rewrite N.eqb_refl in H. lia.
Qed.

Lemma in_history (tr : list ev) e x : In e tr -> In x (hev_of e) -> In x (history tr).
Proof. intros He Hx. unfold history. apply in_flat_map. exists e. split; [now apply in_rev in He|exact Hx]. Qed.

Lemma history_ret (tr : list ev) i r : In (HRet i (Some r)) (history tr) -> In (ERet i (OVal r)) tr.
Proof.
  unfold history. rewrite in_flat_map. intros (e & He & Hin). apply in_rev in He.
  destruct e as [| ? [|] | | | | | | | |]; cbn in Hin; try contradiction; destruct Hin as [[=]|[]]; subst; exact He.
Qed.

Definition final (s : St) (l : list lin_entry) : St := fold_left (fun st e => nexts st (snd (fst e))) l s.

Lemma replay_snoc l : forall s i c r, replay s (l ++ [(i, c, r)]) <-> replay s l /\ r = snd (apply (final s l) c).
Proof.
  induction l as [|[[j d] q] t IH]; intros s i c r; cbn [app Lin.replay final fold_left fst snd].
  - tauto.
  - rewrite IH. unfold final. tauto.
Qed.

Lemma final_snoc l s i c r : final s (l ++ [(i, c, r)]) = nexts (final s l) c.
Proof. unfold final. rewrite fold_left_app. reflexivity. Qed.

Lemma lin_of_cons e tr : lin_of (e :: tr) = lin_of tr ++ rev (entry_of e).
Proof. unfold lin_of, exec_entries. cbn [flat_map]. now rewrite rev_app_distr. Qed.

Lemma state_after_final s0 tr : state_after s0 tr = final s0 (lin_of tr).
Proof.
  induction tr as [|e t IH]; [reflexivity|]. rewrite lin_of_cons.
  destruct e; cbn [state_after entry_of rev app]; rewrite ?app_nil_r; try exact IH.
  rewrite final_snoc, IH. reflexivity.
Qed.

Lemma replay_lin s0 tr : results_ok s0 tr -> replay s0 (lin_of tr).
Proof.
  induction tr as [|e t IH]; intros H; [exact I|]. rewrite lin_of_cons.
  destruct e; cbn [results_ok entry_of rev app] in *; rewrite ?app_nil_r; auto.
  destruct H as [H1 H2]. apply replay_snoc. split; [auto|]. now rewrite <- state_after_final.
Qed.

Lemma wf_app (l1 l2 : list ev) : wf_tr (l1 ++ l2) -> wf_tr l2.
Proof. induction l1 as [|e t IH]; [auto|]. cbn [app wf_tr]. intros [_ H]. auto. Qed.

Lemma idx_lt a l : forall x, idx a l = Some x -> (x < length l)%nat.
Proof.
  induction l as [|j t IH]; intros x; cbn [idx]; [discriminate|].
  destruct (j =? a); [intros [= <-]; cbn; lia|]. destruct (idx a t) as [y|]; cbn [option_map]; [|discriminate].
  intros [= <-]. specialize (IH y eq_refl). cbn. lia.
Qed.

Lemma idx_app_in a l1 l2 : In a l1 -> idx a (l1 ++ l2) = idx a l1.
Proof.
  induction l1 as [|j t IH]; [contradiction|]. cbn [app idx]. destruct (j =? a) eqn:E; [reflexivity|].
  intros [->|H]; [rewrite N.eqb_refl in E; discriminate|]. now rewrite IH.
Qed.

Lemma idx_app_notin b l1 l2 : ~ In b l1 -> forall y, idx b (l1 ++ l2) = Some y -> (length l1 <= y)%nat.
Proof.
  induction l1 as [|j t IH]; intros Hn y; cbn [app idx length]; [lia|].
  destruct (j =? b) eqn:E; [apply N.eqb_eq in E; subst; exfalso; apply Hn; now left|].
  destruct (idx b (t ++ l2)) as [z|] eqn:Ez; cbn [option_map]; [|discriminate].
  intros [= <-]. assert (length t <= z)%nat; [|lia]. apply IH; auto. intros H. apply Hn. now right.
Qed.

Theorem trace_linearizable s0 (tr : list ev) :
  wf_tr tr -> (forall i, (execs i tr <= 1)%nat) -> results_ok s0 tr -> Linearizable s0 (history tr).
Proof.
  intros Hwf Hex Hres. exists (lin_of tr). split; [|split; [|split; [|split]]].
  - unfold lin_of. change (map le_id (rev (exec_entries tr))) with (ids (rev (exec_entries tr))).
    unfold ids. rewrite map_rev. apply NoDup_rev. apply nodup_ids, Hex.
  - intros i c r Hin. unfold lin_of in Hin. apply in_rev in Hin. apply in_exec_entries in Hin.
    destruct (wf_exec _ _ _ _ Hwf Hin) as (cl & Hcl). eapply in_history; [exact Hcl|now left].
  - intros i r Hin. apply history_ret in Hin. destruct (wf_ret _ _ _ Hwf Hin) as (c & Hc).
    exists c. unfold lin_of. apply in_rev. rewrite rev_involutive. now apply in_exec_entries.
  - apply replay_lin, Hres.
  - intros h1 h2 h3 a ra b cb x y Eh Hx Hy.
    unfold history in Eh.
    destruct (flat_map_split hev_of (rev tr) hev_of_len _ _ _ Eh) as (la & e1 & lb' & E1 & He1 & _ & E2).
    destruct (flat_map_split hev_of lb' hev_of_len _ _ _ E2) as (lb & e2 & lc & E3 & He2 & _ & _).
    assert (e1 = ERet a (OVal ra)) as ->.
    { destruct e1 as [| ? [|] | | | | | | | |]; cbn in He1; try discriminate; now injection He1 as -> ->. }
    assert (exists cl, e2 = EInv b cl cb) as (cl & ->).
    { destruct e2 as [| ? [|] | | | | | | | |]; cbn in He2; try discriminate. injection He2 as -> ->. eauto. }
    assert (Etr : tr = rev lc ++ EInv b cl cb :: rev lb ++ ERet a (OVal ra) :: rev la).
    { rewrite <- (rev_involutive tr), E1, E3. rewrite rev_app_distr. cbn [rev]. rewrite rev_app_distr. cbn [rev].
      rewrite <- !app_assoc. cbn [app]. reflexivity. }
    set (t1 := rev lc) in *. set (t2 := rev lb) in *. set (t3 := rev la) in *.
    pose proof (wf_app _ _ ltac:(rewrite <- Etr; exact Hwf)) as Hwf2. cbn [wf_tr] in Hwf2. destruct Hwf2 as [Hfresh Hwf3].
    pose proof (wf_app _ _ Hwf3) as Hwf4. cbn [wf_tr] in Hwf4. destruct Hwf4 as [(c & Hc) _].
    set (rest := t2 ++ ERet a (OVal ra) :: t3) in *.
    assert (Ee : exec_entries tr = exec_entries t1 ++ exec_entries rest).
    { rewrite Etr. unfold exec_entries. rewrite flat_map_app. cbn [flat_map entry_of app]. reflexivity. }
    assert (Hids : map le_id (lin_of tr) = rev (ids (exec_entries rest)) ++ rev (ids (exec_entries t1))).
    { unfold lin_of. rewrite Ee, rev_app_distr, map_app. unfold ids. now rewrite !map_rev. }
    rewrite Hids in Hx, Hy.
    assert (Ha : In a (rev (ids (exec_entries rest)))).
    { apply -> in_rev. unfold ids. apply in_map_iff. exists (a, c, ra). split; [reflexivity|]. apply in_exec_entries.
      unfold rest. apply in_or_app. right. right. exact Hc. }
    assert (Hb : ~ In b (rev (ids (exec_entries rest)))).
    { intros H. apply in_rev in H. unfold ids in H. apply in_map_iff in H as ([[b' c'] r'] & Eb & Hin). cbn in Eb. subst b'.
      apply in_exec_entries in Hin. exact (Hfresh _ Hin eq_refl). }
    rewrite (idx_app_in _ _ _ Ha) in Hx. apply idx_lt in Hx.
    pose proof (idx_app_notin _ _ _ Hb _ Hy). lia.
Qed.

(** ** C12: atomicity.  Every run's client-visible history is linearizable w.r.t. [apply]. *)
Theorem atomic f sp p re ncl s0 acts :
  Linearizable s0 (history (trace (run acts (init f sp p re ncl s0)))).
Proof.
  pose proof (run_InvA acts _ (init_InvA f sp p re ncl s0)) as HA.
  pose proof (run_InvB s0 acts _ (init_InvB f sp p re ncl s0)) as (HB & _).
  apply trace_linearizable.
  - exact (a_wf _ _ _ HA).
  - intros i. pose proof (a_tok _ _ _ HA i). lia.
  - exact (b_res _ _ _ HB).
Qed.


(** * C19: cancellation, isolation of failing calls *)

(** the reply cell of a cancellable method is closed: the next poll of its handler abandons it --
    whatever phase the method is in, nothing of the method runs any more, the reply sender is dropped,
    the guard the handler held is released, nothing else changes *)
Theorem cancel_abandons (s : sys) h :
  c_nocancel (q_call (h_req h)) = false -> is_closed s (q_cell (h_req h)) = true ->
  let i := q_cell (h_req h) in
  let e := match h_ph h with PNew => ESkip i | _ => ECancel i end in
  poll_h s h = (ev_add e (release (h_lk h) (set_slot i SDead s)), None).
Proof. intros Hc Hcl. unfold Server.poll_h. cbv zeta. rewrite Hc, Hcl. reflexivity. Qed.

Definition released (m : lockm) (s s' : sys) : Prop :=
  match m with
  | LkNone => rd s' = rd s /\ wr s' = wr s
  | LkRead => rd s' = rd s - 1 /\ wr s' = wr s
  | LkWrite => rd s' = rd s /\ wr s' = false
  end.

(** ... for the inline handler of the serve loop: the loop is back at its [select] (or past it,
    after a by-value request), with the same queue, target and logical state, and the next step of
    the loop takes the next request *)
Theorem cancel_inline (s : sys) h :
  loop s = LRun h -> c_nocancel (q_call (h_req h)) = false -> is_closed s (q_cell (h_req h)) = true ->
  let s' := loop_step s in
  loop s' = after_handler s h /\ released (h_lk h) s s' /\ queue s' = queue s /\ tasks s' = tasks s /\
  target s' = target s /\ lst s' = lst s /\ errq s' = errq s /\
  (forall j, execs j (trace s') = execs j (trace s)) /\
  (forall j, j <> q_cell (h_req h) -> get_call s' j = get_call s j).
Proof.
  intros El Hc Hcl. unfold Server.loop_step. rewrite El, (cancel_abandons s h Hc Hcl).
  unfold released. destruct (h_lk h); prj; repeat split; auto; try lia.
  all: try (intros j; destruct (h_ph h); reflexivity).
  all: intros j Hj; unfold get_call; prj; rewrite nth_error_upd_ne by lia; reflexivity.
Qed.

Theorem cancel_task (s : sys) k h :
  nth_error (tasks s) k = Some h -> c_nocancel (q_call (h_req h)) = false -> is_closed s (q_cell (h_req h)) = true ->
  let s' := task_step s k in
  tasks s' = del k (tasks s) /\ released (h_lk h) s s' /\ loop s' = loop s /\ queue s' = queue s /\
  target s' = target s /\ lst s' = lst s /\
  (forall j, execs j (trace s') = execs j (trace s)) /\
  (forall j, j <> q_cell (h_req h) -> get_call s' j = get_call s j).
Proof.
  intros Ek Hc Hcl. unfold Server.task_step. rewrite Ek, (cancel_abandons s h Hc Hcl).
  unfold released. destruct (h_lk h); prj; repeat split; auto; try lia.
  all: try (intros j; destruct (h_ph h); reflexivity).
  all: intros j Hj; unfold get_call; prj; rewrite nth_error_upd_ne by lia; reflexivity.
Qed.

(** after the loop is back at its [select] with no reply error pending, its next step takes the next request *)
Theorem idle_serves_next (s : sys) q rest :
  loop s = LIdle -> errq s = 0 -> queue s = QReq q :: rest ->
  loop_step s = dispatch (s <| queue := rest |>) q.
Proof. intros El Ee Eq. unfold Server.loop_step. rewrite El, Ee, Eq. reflexivity. Qed.

(** a [#[no_cancel]] method is never abandoned: whatever the state of its reply cell, each poll moves
    it one phase further, through its effect, to its return *)
Theorem no_cancel_runs (s : sys) h :
  c_nocancel (q_call (h_req h)) = true ->
  let i := q_cell (h_req h) in
  let c := q_call (h_req h) in
  match h_ph h with
  | PNew => forall t, target s = Some t ->
            snd (poll_h s h) = Some (mkH (h_req h) (PRun t) (h_lk h)) /\ trace (fst (poll_h s h)) = EStart i :: trace s
  | PRun t => snd (poll_h s h) = Some (mkH (h_req h) (PApplied (snd (apply t c))) (h_lk h)) /\
              trace (fst (poll_h s h)) = EExec i c (snd (apply t c)) :: trace s
  | PApplied r => snd (poll_h s h) = None /\ trace (fst (poll_h s h)) = EFinish i :: trace s /\
                  released (h_lk h) s (fst (poll_h s h))
  end.
Proof.
  intros Hc i c. subst i c. unfold Server.poll_h. cbv zeta. rewrite Hc. cbn [negb andb].
  destruct (h_ph h) as [|t|r].
  - intros t Et. rewrite Et. destruct (c_kind (q_call (h_req h))); split; reflexivity.
  - destruct (apply t (q_call (h_req h))) as [t' r]. destruct (c_kind (q_call (h_req h))); split; reflexivity.
  - unfold released. destruct (is_closed s (q_cell (h_req h))), (too_big (q_call (h_req h)) r), (h_lk h); prj; repeat split; reflexivity.
Qed.

(** no guard of the target's lock is ever leaked: in every reachable state of the shared-mut server the
    read guards held are exactly those of the live handlers, the write guard is held iff a live handler
    holds it; with no live handler the lock is free *)
Theorem no_lock_leak f sp p re ncl s0 acts :
  let s := run acts (init f sp p re ncl s0) in
  flav s = FSharedMut ->
  rd s = N.of_nat (nreads (handlers s)) /\ (wr s = true <-> (0 < nwrites (handlers s))%nat) /\
  (handlers s = [] -> rd s = 0 /\ wr s = false).
Proof.
  intros s Hf. pose proof (run_InvB s0 acts _ (init_InvB f sp p re ncl s0)) as (HB & _). fold s in HB.
  destruct (b_lock _ _ _ HB Hf) as [Hr Hw]. split; [exact Hr|]. split; [exact Hw|].
  intros E. rewrite E in Hr, Hw. cbn in Hr, Hw. split; [exact Hr|]. destruct (wr s); [|reflexivity].
  destruct Hw as [Hw _]. specialize (Hw eq_refl). lia.
Qed.

(** an undecodable request (or a call of a method the server does not know) arriving at the server:
    its own reply sender is dropped, a non-final receive error is queued, nothing else changes *)
Theorem bad_request_arrives (s : sys) k cl q :
  first_of_client (wire s) (N.to_nat k) = true -> nth_error (wire s) (N.to_nat k) = Some (cl, q) ->
  c_bad (q_call q) = true -> is_done (loop s) = false ->
  let s' := step s (ADeliverReq k) in
  queue s' = queue s ++ [QBad] /\ loop s' = loop s /\ tasks s' = tasks s /\ target s' = target s /\ lst s' = lst s /\
  trace s' = trace s /\
  (forall j, j <> q_cell q -> get_call s' j = get_call s j) /\
  (forall cr, get_call s (q_cell q) = Some cr -> exists cr', get_call s' (q_cell q) = Some cr' /\ cr_slot cr' = SDead).
Proof.
  intros Hf Hk Hb Hd. cbn [Server.step]. rewrite Hf, Hk, Hd, Hb. prj. repeat split; auto.
  - intros j Hj. unfold get_call. prj. rewrite nth_error_upd_ne by lia. reflexivity.
  - intros cr E. unfold get_call in *. prj. rewrite (nth_error_upd_eq _ _ _ _ E). eexists. split; reflexivity.
Qed.

(** ... and handled by the loop according to the policy; under Ignore and Send the loop state is
    otherwise unchanged, under Fail [serve()] ends with that error *)
Theorem bad_request_handled (s : sys) rest :
  loop s = LIdle -> errq s = 0 -> queue s = QBad :: rest ->
  loop_step s =
  match pol s with
  | PIgnore => ev_add EReqErr (s <| queue := rest |>)
  | PSend => ev_add EReqErr (s <| queue := rest |>) <| uerrs := uerrs s + 1 |>
  | PFail => finish RErrReq (ev_add EReqErr (s <| queue := rest |>))
  end.
Proof. intros El Ee Eq. unfold Server.loop_step. rewrite El, Ee, Eq. reflexivity. Qed.

(** a request of a kind the flavour does not serve is received and dropped: only its own call fails *)
Theorem unsupported_request_dropped (s : sys) q rest :
  loop s = LIdle -> errq s = 0 -> queue s = QReq q :: rest -> supports (flav s) (c_kind (q_call q)) = false ->
  loop_step s = set_slot (q_cell q) SDead (s <| queue := rest |>).
Proof. intros El Ee Eq Hs. unfold Server.loop_step, dispatch. rewrite El, Ee, Eq. prj. rewrite Hs. reflexivity. Qed.

(** ** replies that cannot be transmitted (finding F6) *)
Definition no_reply_errors (s : sys) : Prop := errq s = 0 /\ forall b, In b (sends s) -> b = false.

Lemma poll_h_no_reply_errors (s : sys) h s1 oh :
  ((forall c r, too_big c r = false) \/ reperr s = false) ->
  no_reply_errors s -> poll_h s h = (s1, oh) -> no_reply_errors s1 /\ reperr s1 = reperr s.
Proof.
  intros Hok [He Hs]. unfold Server.poll_h, no_reply_errors.
  destruct (negb (c_nocancel (q_call (h_req h))) && is_closed s (q_cell (h_req h))).
  { intros [= <- _]. destruct (h_lk h); prj; auto. }
  destruct (h_ph h) as [|t|r].
  - destruct (target s); [|intros [= <- _]; auto]. intros [= <- _]. destruct (c_kind (q_call (h_req h))); prj; auto.
  - destruct (apply t (q_call (h_req h))) as [t' r]. intros [= <- _]. destruct (c_kind (q_call (h_req h))); prj; auto.
  - intros [= <- _]. destruct (is_closed s (q_cell (h_req h))).
    { destruct (h_lk h); prj; auto. }
    destruct (too_big (q_call (h_req h)) r) eqn:Etb.
    + destruct Hok as [Hok|Hok]; [rewrite Hok in Etb; discriminate|].
      destruct (h_lk h); prj; (split; [split; [exact He|]|reflexivity]); intros b; rewrite in_app_iff; intros [H|[<-|[]]]; auto.
    + destruct (h_lk h); prj; (split; [split; [exact He|]|reflexivity]); intros b; rewrite in_app_iff; intros [H|[<-|[]]]; auto.
Qed.

Lemma finish_errq (s : sys) r : errq (finish r s) = errq s /\ sends (finish r s) = sends s /\ reperr (finish r s) = reperr s.
Proof.
  unfold finish. prj. destruct (drop_queue_spec (queue s) s) as [Hr _]. unfold rest_eq in Hr. tauto.
Qed.

Lemma step_no_reply_errors (s : sys) a :
  ((forall c r, too_big c r = false) \/ reperr s = false) ->
  no_reply_errors s -> no_reply_errors (step s a) /\ reperr (step s a) = reperr s.
Proof.
  intros Hok HN. pose proof HN as [He Hs]. unfold no_reply_errors.
  assert (Hfin : forall (X : sys) r, no_reply_errors X -> reperr X = reperr s -> no_reply_errors (finish r X) /\ reperr (finish r X) = reperr s).
  { intros X r [H1 H2] H3. destruct (finish_errq X r) as (E1 & E2 & E3). unfold no_reply_errors. rewrite E1, E2, E3. auto. }
  destruct a; cbn [Server.step].
  - destruct (client_exists s cl); prj; auto.
  - destruct (get_call s i) as [cr|]; auto. destruct (cr_st cr); auto.
    destruct (cut s || qclosed s || negb (client_live s (cr_client cr))); prj; auto.
    destruct (c_reqbig (cr_call cr)); prj; auto.
  - destruct (get_call s i) as [cr|]; auto. destruct (cr_st cr); prj; auto.
  - destruct (get_call s i) as [cr|]; auto. destruct (cr_st cr); prj; auto.
  - destruct (first_of_client (wire s) (N.to_nat k)); auto.
    destruct (nth_error (wire s) (N.to_nat k)) as [[cl q]|]; auto.
    destruct (is_done (loop s)); [|destruct (c_bad (q_call q))]; prj; auto.
  - destruct (get_call s i) as [cr|]; auto. destruct (cr_slot cr); prj; auto.
  - destruct (get_call s i) as [cr|]; auto. destruct (cr_slot cr); prj; auto.
  - destruct (get_call s i) as [cr|]; auto. destruct (cr_st cr); auto.
    destruct (cr_slot cr); try (destruct (cut s)); prj; auto.
  - prj; auto.
  - prj; auto.
  - destruct (all_dead (clients s) && negb (qclosed s) && match wire s with [] => true | _ => false end); prj; auto.
  - destruct (cut s); auto. destruct (lose_wire_spec (wire s) s) as [Hr _]. unfold rest_eq in Hr.
    destruct Hr as (_ & _ & _ & Er & _ & _ & _ & _ & _ & _ & _ & _ & _ & Es & Ee & _).
    destruct (qclosed s); prj; rewrite Ee, Es, Er; auto.
  - (* ALoop *)
    unfold Server.loop_step. destruct (loop s) as [|q m|h| |r] eqn:El; auto.
    + rewrite He. cbn. destruct (queue s) as [|[q| | |] rest]; auto.
      * unfold dispatch. prj. destruct (negb (supports (flav s) (c_kind (q_call q)))); prj; auto.
        destruct (flav s); try destruct (spawn s); prj; auto.
      * destruct (pol s); prj; auto. apply Hfin; [split|]; auto.
    + destruct m; [destruct (negb (wr s)); [destruct (spawn s)|]|destruct (negb (wr s)); [destruct (spawn s)|]
                  |destruct (negb (wr s) && (rd s =? 0))]; prj; auto.
    + destruct (poll_h s h) as [s1 oh] eqn:Ep. destruct (poll_h_no_reply_errors s h s1 oh Hok HN Ep) as [[H1 H2] H3].
      destruct oh; prj; auto.
    + rewrite He. cbn. destruct (tasks s); [destruct (sends s) eqn:Es|]; auto.
      apply Hfin; [split; [exact He|rewrite Es; intros b []]|reflexivity].
  - (* ATask *)
    unfold Server.task_step. destruct (nth_error (tasks s) (N.to_nat k)) as [h|]; auto.
    destruct (poll_h s h) as [s1 oh] eqn:Ep. destruct (poll_h_no_reply_errors s h s1 oh Hok HN Ep) as [[H1 H2] H3].
    destruct oh; prj; auto.
  - destruct (nth_error (sends s) (N.to_nat k)) as [b|] eqn:Ek; auto. prj.
    assert (b = false) as -> by (apply Hs; eapply nth_error_In; eauto).
    split; [split; [exact He|]|reflexivity]. intros b Hb. apply Hs. eapply in_del; eauto.
  - (* AStop *)
    assert (Hst : forall X : sys, errq X = errq s -> sends X = sends s -> reperr X = reperr s ->
              (errq (stop_now X) = 0 /\ (forall b, In b (sends (stop_now X)) -> b = false)) /\ reperr (stop_now X) = reperr s).
    { intros X E1 E2 E3. destruct (stop_now_spec X) as (_ & _ & _ & Er & _ & _ & _ & _ & _ & Es & Ee & _).
      rewrite Ee, Es, Er, E1, E2, E3. auto. }
    destruct (loop s) as [|q m|h| |r]; try destruct hard; auto; apply Hst; try reflexivity;
      unfold abandon; destruct (h_lk h); reflexivity.
Qed.

Lemma step_loop_other (s : sys) a : a <> ALoop -> (forall hard, a <> AStop hard) -> loop (step s a) = loop s.
Proof.
  intros Ha Hb. destruct a; cbn [Server.step]; try contradiction; try (exfalso; eapply Hb; reflexivity).
  - destruct (client_exists s cl); reflexivity.
  - destruct (get_call s i) as [cr|]; [|reflexivity]. destruct (cr_st cr); try reflexivity.
    destruct (cut s || qclosed s || negb (client_live s (cr_client cr))); [reflexivity|]. destruct (c_reqbig (cr_call cr)); reflexivity.
  - destruct (get_call s i) as [cr|]; [|reflexivity]. destruct (cr_st cr); reflexivity.
  - destruct (get_call s i) as [cr|]; [|reflexivity]. destruct (cr_st cr); reflexivity.
  - destruct (first_of_client (wire s) (N.to_nat k)); [|reflexivity].
    destruct (nth_error (wire s) (N.to_nat k)) as [[cl q]|]; [|reflexivity].
    destruct (is_done (loop s)); [|destruct (c_bad (q_call q))]; reflexivity.
  - destruct (get_call s i) as [cr|]; [|reflexivity]. destruct (cr_slot cr); reflexivity.
  - destruct (get_call s i) as [cr|]; [|reflexivity]. destruct (cr_slot cr); reflexivity.
  - destruct (get_call s i) as [cr|]; [|reflexivity]. destruct (cr_st cr); try reflexivity.
    destruct (cr_slot cr); try (destruct (cut s)); reflexivity.
  - reflexivity.
  - reflexivity.
  - destruct (all_dead (clients s) && negb (qclosed s) && match wire s with [] => true | _ => false end); reflexivity.
  - destruct (cut s); [reflexivity|]. destruct (lose_wire_spec (wire s) s) as [Hr _]. unfold rest_eq in Hr.
    destruct (qclosed s); prj; tauto.
  - unfold Server.task_step. destruct (nth_error (tasks s) (N.to_nat k)) as [h|]; [|reflexivity].
    destruct (poll_h s h) as [s1 oh] eqn:Ep. destruct (poll_h_fields _ _ _ _ Ep) as [_ El]. destruct oh; prj; exact El.
  - destruct (nth_error (sends s) (N.to_nat k)); reflexivity.
Qed.

(** [serve()] ends with a reply error only when a reply error is queued *)
Lemma loop_step_done_cause (s : sys) : loop (loop_step s) = LDone RErrReply -> loop s = LDone RErrReply \/ errq s <> 0.
Proof.
  unfold Server.loop_step. destruct (loop s) as [|q m|h| |r0] eqn:El.
  - destruct (0 <? errq s) eqn:Ee; [intros _; right; lia|].
    destruct (queue s) as [|[q| | |] rest]; try (rewrite El; discriminate).
    + unfold dispatch. prj. destruct (negb (supports (flav s) (c_kind (q_call q)))); prj; [rewrite El; discriminate|].
      destruct (flav s); try destruct (spawn s); prj; try rewrite El; discriminate.
    + destruct (pol s); prj; try (rewrite El; discriminate).
      destruct (finish_fields (ev_add EReqErr (s <| queue := rest |>)) RErrReq) as [E _]. rewrite E. discriminate.
    + prj. discriminate.
    + prj. discriminate.
  - destruct m; [destruct (negb (wr s)); [destruct (spawn s)|]|destruct (negb (wr s)); [destruct (spawn s)|]
                |destruct (negb (wr s) && (rd s =? 0))]; prj; try rewrite El; discriminate.
  - destruct (poll_h s h) as [s1 oh]. destruct oh; prj; [discriminate|].
    unfold after_handler. destruct (flav s), (c_kind (q_call (h_req h))); discriminate.
  - destruct (0 <? errq s) eqn:Ee; [intros _; right; lia|].
    destruct (tasks s); [destruct (sends s)|]; try (rewrite El; discriminate).
    destruct (finish_fields s ROk) as [E _]. rewrite E. discriminate.
  - rewrite El. auto.
Qed.

(** outside the known class (no reply exceeds the limit, or the provider does not report reply errors
    as [rfn] providers do) [serve()] never ends because a reply could not be sent *)
Theorem reply_ok_never_fails f sp p re ncl s0 acts :
  (forall c r, too_big c r = false) \/ re = false ->
  loop (run acts (init f sp p re ncl s0)) <> LDone RErrReply.
Proof.
  intros Hok.
  assert (H : forall acts (s : sys), reperr s = re -> no_reply_errors s -> loop s <> LDone RErrReply ->
            loop (run acts s) <> LDone RErrReply).
  { clear acts. induction acts as [|a t IH]; intros s Hre HN Hl; [exact Hl|].
    cbn [Server.run fold_left].
    assert (Hok' : (forall c r, too_big c r = false) \/ reperr s = false) by (rewrite Hre; exact Hok).
    destruct (step_no_reply_errors s a Hok' HN) as [HN' Hre'].
    apply IH; [congruence|exact HN'|].
    intros E. assert (Hd : {a = ALoop} + {exists hard, a = AStop hard} + {a <> ALoop /\ forall hard, a <> AStop hard}).
    { destruct a; try (right; split; [discriminate|intros; discriminate]); [left; left; reflexivity|left; right; eauto]. }
    destruct Hd as [[->|(hard & ->)]|[Hd1 Hd2]].
    - cbn [Server.step] in E. destruct (loop_step_done_cause s E) as [H|H]; [exact (Hl H)|]. destruct HN as [He _]. exact (H He).
    - (* the callee goes away: [serve()] does not return at all *)
      cbn [Server.step] in E.
      assert (Hst : forall X : sys, loop (stop_now X) <> LDone RErrReply).
      { intros X. destruct (stop_now_spec X) as (El & _). rewrite El. discriminate. }
      destruct (loop s) as [|q m|h| |r] eqn:El; try destruct hard; try (exact (Hst _ E)); rewrite ?El in E;
        try discriminate; exact (Hl E).
    - rewrite (step_loop_other s a Hd1 Hd2) in E. exact (Hl E). }
  apply H; [reflexivity|split; [reflexivity|intros b []]|discriminate].
Qed.

(** ** oversized requests (finding F14): outside the class no client handle is ever poisoned *)
Definition calls_kept (s s' : sys) : Prop :=
  forall i cr', get_call s' i = Some cr' -> exists cr, get_call s i = Some cr /\ cr_call cr' = cr_call cr.

Lemma calls_kept_refl s : calls_kept s s.
Proof. intros i cr E. eauto. Qed.
Lemma calls_kept_trans a b c : calls_kept a b -> calls_kept b c -> calls_kept a c.
Proof. intros H1 H2 i cr E. destruct (H2 i cr E) as (x & Ex & Hx). destruct (H1 i x Ex) as (y & Ey & Hy). exists y. split; congruence. Qed.
Lemma calls_kept_eq (s s' : sys) : calls s' = calls s -> calls_kept s s'.
Proof. intros E i cr. unfold get_call. rewrite E. eauto. Qed.
Lemma calls_kept_upd (s s' : sys) n f : (forall c, cr_call (f c) = cr_call c) -> calls s' = upd n f (calls s) -> calls_kept s s'.
Proof.
  intros Hf E i cr. unfold get_call. rewrite E, nth_error_upd. destruct (Nat.eqb n (N.to_nat i)); [|eauto].
  destruct (nth_error (calls s) (N.to_nat i)) as [c|]; cbn [option_map]; [|discriminate]. intros [= <-]. eauto.
Qed.
Lemma calls_kept_killed (s s' : sys) : rel_calls slot_killed s s' -> calls_kept s s'.
Proof.
  intros H i cr E. specialize (H i). rewrite E in H. destruct (get_call s i) as [c|]; [|contradiction].
  destruct H as ((_ & H) & _). eauto.
Qed.

Lemma poll_h_calls_kept (s : sys) h s1 oh : poll_h s h = (s1, oh) -> calls_kept s s1 /\ clients s1 = clients s.
Proof.
  unfold Server.poll_h.
  destruct (negb (c_nocancel (q_call (h_req h))) && is_closed s (q_cell (h_req h))).
  { intros [= <- _]. split; [|destruct (h_lk h); reflexivity]. eapply calls_kept_upd with (f := fun c => mkC _ _ _ _ _); [reflexivity|]. destruct (h_lk h); reflexivity. }
  destruct (h_ph h) as [|t|r].
  - destruct (target s); [|intros [= <- _]; split; [apply calls_kept_refl|reflexivity]].
    intros [= <- _]. split; [apply calls_kept_eq|]; destruct (c_kind (q_call (h_req h))); reflexivity.
  - destruct (apply t (q_call (h_req h))) as [t' r]. intros [= <- _]. split; [apply calls_kept_eq|]; destruct (c_kind (q_call (h_req h))); reflexivity.
  - intros [= <- _]. split; [|destruct (is_closed s (q_cell (h_req h))), (too_big (q_call (h_req h)) r), (h_lk h); reflexivity].
    destruct (is_closed s (q_cell (h_req h))), (too_big (q_call (h_req h)) r);
      (eapply calls_kept_upd with (f := fun c => mkC _ _ _ _ _); [reflexivity|]); destruct (h_lk h); reflexivity.
Qed.

Lemma finish_calls_kept (s : sys) r : calls_kept s (finish r s) /\ clients (finish r s) = clients s.
Proof.
  unfold finish. destruct (drop_queue_spec (queue s) s) as [Hr Hk]. unfold rest_eq in Hr. split; [|prj; tauto].
  eapply calls_kept_trans; [apply calls_kept_killed, Hk|]. apply calls_kept_eq. reflexivity.
Qed.

(** a step keeps the arguments of every call; a new call is the one of an [AInvoke]; a client handle is
    poisoned only by sending an oversized request *)
Lemma step_calls_clients (s : sys) a :
  (forall i cr', get_call (step s a) i = Some cr' ->
     (exists cr, get_call s i = Some cr /\ cr_call cr' = cr_call cr) \/ exists cl, a = AInvoke cl (cr_call cr')) /\
  (forall cl, nth_error (clients (step s a)) cl = Some ClPoisoned ->
     nth_error (clients s) cl = Some ClPoisoned \/ exists i cr, get_call s i = Some cr /\ c_reqbig (cr_call cr) = true).
Proof.
  assert (Hk : forall s' : sys, calls_kept s s' -> clients s' = clients s ->
            (forall i cr', get_call s' i = Some cr' ->
               (exists cr, get_call s i = Some cr /\ cr_call cr' = cr_call cr) \/ exists cl, a = AInvoke cl (cr_call cr')) /\
            (forall cl, nth_error (clients s') cl = Some ClPoisoned ->
               nth_error (clients s) cl = Some ClPoisoned \/ exists i cr, get_call s i = Some cr /\ c_reqbig (cr_call cr) = true)).
  { intros s' H1 H2. split; [intros i cr' E; left; exact (H1 i cr' E)|intros cl; rewrite H2; auto]. }
  assert (Hup : forall (s' : sys) n (f : crec -> crec), (forall c, cr_call (f c) = cr_call c) -> calls s' = upd n f (calls s) -> calls_kept s s').
  { intros s' n f Hf E. eapply calls_kept_upd; eauto. }
  destruct a; cbn [Server.step].
  - destruct (client_exists s cl); [|apply Hk; [apply calls_kept_refl|reflexivity]].
    split; [|prj; auto]. intros i cr'.
    change (get_call (ev_add (EInv (len (calls s)) cl c) (s <| calls := calls s ++ [mkC cl c CInit false SEmpty] |>)) i)
      with (get_call (s <| calls := calls s ++ [mkC cl c CInit false SEmpty] |>) i).
    rewrite get_call_new. destruct (i =? len (calls s)); [intros [= <-]; right; eauto|eauto].
  - destruct (get_call s i) as [cr|] eqn:Ecr; [|apply Hk; [apply calls_kept_refl|reflexivity]].
    destruct (cr_st cr); try (apply Hk; [apply calls_kept_refl|reflexivity]).
    destruct (cut s || qclosed s || negb (client_live s (cr_client cr))).
    { apply Hk; [|reflexivity]. eapply Hup with (f := fun c => mkC _ _ _ _ _); reflexivity. }
    destruct (c_reqbig (cr_call cr)) eqn:Eb.
    + split.
      * intros j cr' E. left. revert E.
        match goal with |- context [get_call ?X j] => change (get_call X j) with (get_call (set_slot i SDead (set_st i CWait s)) j) end.
        rewrite get_call_set_slot, get_call_set_st. destruct (i =? j); [|eauto].
        destruct (get_call s j); cbn [option_map]; [|discriminate]. intros [= <-]. eauto.
      * intros cl _. right. eauto.
    + apply Hk; [|reflexivity]. eapply Hup with (f := fun c => mkC _ _ _ _ _); reflexivity.
  - destruct (get_call s i) as [cr|]; [|apply Hk; [apply calls_kept_refl|reflexivity]].
    destruct (cr_st cr); try (apply Hk; [apply calls_kept_refl|reflexivity]);
      (apply Hk; [|reflexivity]; eapply Hup with (f := fun c => mkC _ _ _ _ _); reflexivity).
  - destruct (get_call s i) as [cr|]; [|apply Hk; [apply calls_kept_refl|reflexivity]].
    destruct (cr_st cr); try (apply Hk; [apply calls_kept_refl|reflexivity]).
    apply Hk; [|reflexivity]; eapply Hup with (f := fun c => mkC _ _ _ _ _); reflexivity.
  - destruct (first_of_client (wire s) (N.to_nat k)); [|apply Hk; [apply calls_kept_refl|reflexivity]].
    destruct (nth_error (wire s) (N.to_nat k)) as [[cl q]|]; [|apply Hk; [apply calls_kept_refl|reflexivity]].
    destruct (is_done (loop s)); [|destruct (c_bad (q_call q))]; (apply Hk; [|reflexivity]);
      try (eapply Hup with (f := fun c => mkC _ _ _ _ _); reflexivity). apply calls_kept_eq. reflexivity.
  - destruct (get_call s i) as [cr|]; [|apply Hk; [apply calls_kept_refl|reflexivity]].
    destruct (cr_slot cr); try (apply Hk; [apply calls_kept_refl|reflexivity]).
    apply Hk; [|reflexivity]; eapply Hup with (f := fun c => mkC _ _ _ _ _); reflexivity.
  - destruct (get_call s i) as [cr|]; [|apply Hk; [apply calls_kept_refl|reflexivity]].
    destruct (cr_slot cr); try (apply Hk; [apply calls_kept_refl|reflexivity]).
    apply Hk; [|reflexivity]; eapply Hup with (f := fun c => mkC _ _ _ _ _); reflexivity.
  - destruct (get_call s i) as [cr|]; [|apply Hk; [apply calls_kept_refl|reflexivity]].
    destruct (cr_st cr); try (apply Hk; [apply calls_kept_refl|reflexivity]).
    destruct (cr_slot cr); try (destruct (cut s)); try (apply Hk; [apply calls_kept_refl|reflexivity]);
      (apply Hk; [|reflexivity]; eapply Hup with (f := fun c => mkC _ _ _ _ _); reflexivity).
  - split; [intros i cr' E; left; eauto|]. prj. intros cl E. left.
    destruct (Nat.lt_ge_cases cl (length (clients s))) as [H|H].
    + now rewrite nth_error_app1 in E.
    + rewrite nth_error_app2 in E by exact H. destruct (cl - length (clients s))%nat as [|[|n]]; discriminate.
  - split; [intros i cr' E; left; eauto|]. prj. intros cl0 E. left. rewrite nth_error_upd in E.
    destruct (Nat.eqb (N.to_nat cl) cl0); [|exact E]. destruct (nth_error (clients s) cl0); discriminate.
  - destruct (all_dead (clients s) && negb (qclosed s) && match wire s with [] => true | _ => false end);
      (apply Hk; [apply calls_kept_eq|]; reflexivity).
  - destruct (cut s); [apply Hk; [apply calls_kept_refl|reflexivity]|].
    destruct (lose_wire_spec (wire s) s) as [Hr Hkk]. unfold rest_eq in Hr.
    assert (Hc : forall X : sys, calls X = map cut_cell (calls (lose_wire (wire s) s)) -> calls_kept s X).
    { intros X E. eapply calls_kept_trans; [apply calls_kept_killed, Hkk|]. intros i cr'. unfold get_call. rewrite E, nth_error_map.
      destruct (nth_error (calls (lose_wire (wire s) s)) (N.to_nat i)); cbn [option_map]; [|discriminate]. intros [= <-]. eauto. }
    destruct (qclosed s); (apply Hk; [apply Hc; reflexivity|prj; tauto]).
  - (* ALoop *)
    unfold Server.loop_step. destruct (loop s) as [|q m|h| |r].
    + destruct (0 <? errq s). { apply Hk; apply finish_calls_kept. }
      destruct (queue s) as [|[q| | |] rest]; try (apply Hk; [apply calls_kept_eq|]; reflexivity).
      * unfold dispatch. prj. destruct (negb (supports (flav s) (c_kind (q_call q)))).
        { apply Hk; [|reflexivity]. eapply Hup with (f := fun c => mkC _ _ _ _ _); reflexivity. }
        destruct (flav s); try destruct (spawn s); (apply Hk; [apply calls_kept_eq|]; reflexivity).
      * destruct (pol s); try (apply Hk; [apply calls_kept_eq|]; reflexivity).
        destruct (finish_calls_kept (ev_add EReqErr (s <| queue := rest |>)) RErrReq) as [F1 F2].
        apply Hk; [eapply calls_kept_trans; [|exact F1]; apply calls_kept_eq; reflexivity|exact F2].
    + destruct m; [destruct (negb (wr s)); [destruct (spawn s)|]|destruct (negb (wr s)); [destruct (spawn s)|]
                  |destruct (negb (wr s) && (rd s =? 0))]; (apply Hk; [apply calls_kept_eq|]; reflexivity).
    + destruct (poll_h s h) as [s1 oh] eqn:Ep. destruct (poll_h_calls_kept _ _ _ _ Ep) as [P1 P2].
      destruct oh; (apply Hk; [eapply calls_kept_trans; [exact P1|apply calls_kept_eq; reflexivity]|exact P2]).
    + destruct (0 <? errq s). { apply Hk; apply finish_calls_kept. }
      destruct (tasks s); [destruct (sends s)|]; try (apply Hk; [apply calls_kept_refl|reflexivity]).
      apply Hk; apply finish_calls_kept.
    + apply Hk; [apply calls_kept_refl|reflexivity].
  - unfold Server.task_step. destruct (nth_error (tasks s) (N.to_nat k)) as [h|]; [|apply Hk; [apply calls_kept_refl|reflexivity]].
    destruct (poll_h s h) as [s1 oh] eqn:Ep. destruct (poll_h_calls_kept _ _ _ _ Ep) as [P1 P2].
    destruct oh; (apply Hk; [eapply calls_kept_trans; [exact P1|apply calls_kept_eq; reflexivity]|exact P2]).
  - destruct (nth_error (sends s) (N.to_nat k)); (apply Hk; [apply calls_kept_eq|]; reflexivity).
  - (* AStop *)
    assert (Hst : forall X : sys, calls_kept s X -> clients X = clients s ->
              calls_kept s (stop_now X) /\ clients (stop_now X) = clients s).
    { intros X H1 H2. destruct (stop_now_spec X) as (_ & _ & _ & _ & Ec & _ & _ & _ & _ & _ & _ & _ & _ & _ & Hkk).
      split; [|congruence]. eapply calls_kept_trans; [exact H1|apply calls_kept_killed, Hkk]. }
    assert (Hst' : forall X : sys, calls_kept s X -> clients X = clients s ->
              (forall i cr', get_call (stop_now X) i = Some cr' ->
                 (exists cr, get_call s i = Some cr /\ cr_call cr' = cr_call cr) \/ exists cl, AStop hard = AInvoke cl (cr_call cr')) /\
              (forall cl, nth_error (clients (stop_now X)) cl = Some ClPoisoned ->
                 nth_error (clients s) cl = Some ClPoisoned \/ exists i cr, get_call s i = Some cr /\ c_reqbig (cr_call cr) = true)).
    { intros X H1 H2. destruct (Hst X H1 H2) as [A B]. apply Hk; assumption. }
    destruct (loop s) as [|q m|h| |r].
    + apply Hst'; [apply calls_kept_refl|reflexivity].
    + destruct hard; [|apply Hk; [apply calls_kept_refl|reflexivity]]. apply Hst'; [|reflexivity].
      eapply Hup with (f := fun c => mkC _ _ _ _ _); reflexivity.
    + destruct hard; [|apply Hk; [apply calls_kept_refl|reflexivity]]. apply Hst'.
      * eapply Hup with (f := fun c => mkC _ _ _ _ _); [reflexivity|]. unfold abandon. destruct (h_lk h); reflexivity.
      * unfold abandon. destruct (h_lk h); reflexivity.
    + destruct hard; [|apply Hk; [apply calls_kept_refl|reflexivity]]. apply Hst'; [apply calls_kept_refl|reflexivity].
    + apply Hk; [apply calls_kept_refl|reflexivity].
Qed.

Definition no_big_requests (acts : list (action Arg)) : Prop :=
  forall cl c, In (AInvoke cl c) acts -> c_reqbig c = false.

Theorem request_ok_never_poisons f sp p re ncl s0 acts :
  no_big_requests acts ->
  forall cl, nth_error (clients (run acts (init f sp p re ncl s0))) cl <> Some ClPoisoned.
Proof.
  intros Hok.
  assert (H : forall acts (s : sys), no_big_requests acts ->
            (forall i cr, get_call s i = Some cr -> c_reqbig (cr_call cr) = false) ->
            (forall cl, nth_error (clients s) cl <> Some ClPoisoned) ->
            forall cl, nth_error (clients (run acts s)) cl <> Some ClPoisoned).
  { clear acts Hok. induction acts as [|a t IH]; intros s Hok Hc Hp; [exact Hp|].
    cbn [Server.run fold_left]. destruct (step_calls_clients s a) as [S1 S2].
    apply IH.
    - intros cl c Hin. apply (Hok cl c). now right.
    - intros i cr' E. destruct (S1 i cr' E) as [(cr & Ecr & Ec)|(cl & ->)].
      + rewrite Ec. eapply Hc; eauto.
      + apply (Hok cl). now left.
    - intros cl E. destruct (S2 cl E) as [H|(i & cr & Ecr & Eb)]; [exact (Hp cl H)|].
      rewrite (Hc i cr Ecr) in Eb. discriminate. }
  apply H; auto.
  - intros i cr. unfold get_call, init. prj. destruct (N.to_nat i); discriminate.
  - intros cl. unfold init. prj. intros E. apply nth_error_In in E. apply repeat_spec in E. discriminate.
Qed.

End Proofs.
