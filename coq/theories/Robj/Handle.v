(** Handles ([remoc/src/robj/handle.rs]) over the per-multiplexer [AnyStorage]
    ([remoc/src/chmux/any_storage.rs]).

    What exists in the code and what it becomes here:
    - the value cell [AnyEntry = Arc<RwLock<Option<AnyBox>>>] is a [cell]: owner endpoint, the [TypeId]
      of the boxed value ([c_tag]), whether [into_inner] has emptied the [Option] ([c_taken]) and the
      state of the [Provider]'s watch channel ([c_prov]); cells are named by allocation order (an
      [Arc] pointer, not a UUID); the value stored in cell [v] is the number [v];
    - [Handle<T>] is a [handle]: the endpoint it lives on, the phantom type [T] ([h_tag]) and
      [State::{LocalCreated, LocalReceived, Remote}];
    - every [ChMux] has its own [AnyStorage]: a storage entry is keyed by the connection and the
      endpoint whose multiplexer holds it ([s_conn], [s_ep]) and by the UUID ([s_id]);
    - [Serialize] of a [LocalCreated] handle inserts the cell under a new UUID into the storage of the
      multiplexer the handle is sent over and spawns a task ([task]) that removes the entry again
      when the dropped-notification channel has no sender left or the provider is dropped without
      [keep]; [LocalReceived]/[Remote] handles just send their id and a clone of [dropped_tx];
    - [Deserialize] REMOVES the id from the storage of the multiplexer the message arrived on:
      found => [LocalReceived], not found => [Remote];
    - a [TransportedHandle] on its way is a [tmsg]; it keeps a [dropped_tx] alive.

    UUIDs are fresh names: the action that inserts carries the chosen id and is enabled only if the id
    was not used before (a collision of 122 random bits is outside the model).  [AForge] lets any
    endpoint put a message with an arbitrary id on any connection (an eavesdropped or guessed id).

    [h_org]/[m_org] record for which cell a handle was originally created ([None]: it stems from a
    forged message); apart from the genuine/forged distinction in the holder count no step reads
    them.  [issued] is ghost. *)
From Remoc Require Import Lib.Base.
From RecordUpdate Require Import RecordUpdate.

(** [Provider]: watch channel [(false, sender alive)], [(true, _)] after [keep], [(false, dropped)] *)
Inductive prov := PAlive | PKept | PDropped.

Record cell := mk_cell { c_owner : N; c_tag : N; c_taken : bool; c_prov : prov }.

Inductive hstate :=
| LocalCreated (v : N)
| LocalReceived (v : N) (i : N)
| Remote (i : N).

Record handle := mk_handle { h_ep : N; h_tag : N; h_st : hstate; h_live : bool; h_org : option N }.
Record entry := mk_entry { s_conn : N; s_ep : N; s_id : N; s_cell : N }.
Record tmsg := mk_tmsg { m_conn : N; m_dst : N; m_id : N; m_tag : N; m_org : option N }.
Record task := mk_task { t_conn : N; t_ep : N; t_id : N; t_cell : N }.

Record sys := mk_sys {
  cells : list cell;
  handles : list handle;       (** every handle ever made, live or dropped; a handle is named by its index *)
  storage : list entry;        (** all [AnyStorage]s together *)
  flight : list tmsg;          (** transported handles not yet deserialized, in sending order *)
  tasks : list task;           (** removal tasks spawned by [Serialize] that have not finished *)
  used : list N;               (** UUIDs drawn so far *)
  issued : list (N * N)        (** ghost: (id, cell) for every insertion ever made *)
}.

#[global] Instance eta_cell : Settable _ := settable! mk_cell <c_owner; c_tag; c_taken; c_prov>.
#[global] Instance eta_handle : Settable _ := settable! mk_handle <h_ep; h_tag; h_st; h_live; h_org>.
#[global] Instance eta_sys : Settable _ := settable! mk_sys <cells; handles; storage; flight; tasks; used; issued>.

Definition init : sys :=
  {| cells := []; handles := []; storage := []; flight := []; tasks := []; used := []; issued := [] |}.

Inductive action :=
| ANew (e t : N) (keep : bool)        (** [Handle::new] ([keep]) / [Handle::provided] on endpoint [e], value type [t] *)
| AClone (h : N)
| ADrop (h : N)
| ACast (h t : N)                     (** [cast::<t>()] *)
| ASend (h c dst i : N)               (** serialize [h] into a message for [dst] over connection [c]; the
                                          handle is dropped afterwards; [i]: the UUID [insert] draws *)
| ARecv (c e : N)                     (** endpoint [e] deserializes the next message for it on [c] *)
| AForge (c dst i t : N)              (** someone sends a handle message with id [i] *)
| ALose (c e : N)                     (** the next message for [e] on [c] is discarded undeserialized *)
| AAsRef (h : N) | AAsMut (h : N) | AIntoInner (h : N)
| AProvDrop (v : N) | AProvKeep (v : N)
| ARelease (i : N).                   (** the removal task of id [i] observes its condition and finishes *)

Inductive result :=
| RUnit
| RHandle (h : N)
| RVal (v : N)            (** [Ok]: the value of cell [v] *)
| RUnknown                (** [HandleError::Unknown] *)
| RMismatch               (** [HandleError::MismatchedType] *)
| REmpty                  (** nothing to receive *)
| RNone.                  (** action not enabled (no such live handle, id not fresh, ...) *)

Definition getN {A} (l : list A) (n : N) : option A := nth_error l (N.to_nat n).

Fixpoint upd_nat {A} (k : nat) (f : A -> A) (l : list A) : list A :=
  match l, k with
  | [], _ => []
  | x :: r, O => f x :: r
  | x :: r, S k' => x :: upd_nat k' f r
  end.
Definition updN {A} (n : N) (f : A -> A) (l : list A) : list A := upd_nat (N.to_nat n) f l.

Fixpoint take_first {A} (p : A -> bool) (l : list A) : option (A * list A) :=
  match l with
  | [] => None
  | x :: r => if p x then Some (x, r)
              else match take_first p r with Some (y, r') => Some (y, x :: r') | None => None end
  end.

Definition live_handle (s : sys) (h : N) : option handle :=
  match getN (handles s) h with
  | Some hd => if h_live hd then Some hd else None
  | None => None
  end.

Definition kill (s : sys) (h : N) : sys := s <| handles ::= updN h (fun hd => hd <| h_live := false |>) |>.

Definition st_id (x : hstate) : option N :=
  match x with LocalCreated _ => None | LocalReceived _ i | Remote i => Some i end.
Definition st_cell (x : hstate) : option N :=
  match x with LocalCreated v | LocalReceived v _ => Some v | Remote _ => None end.

(** who keeps a sender of the dropped-notification channel of id [i] alive: handles and messages
    that descend from the handle the id was made for ([h_org]/[m_org] not [None]); a forged message,
    and a handle deserialized from one, carries a channel of the forger's making *)
Definition genuine (o : option N) : bool := match o with Some _ => true | None => false end.
Definition holds (i : N) (hd : handle) : bool :=
  h_live hd && genuine (h_org hd) && match st_id (h_st hd) with Some j => j =? i | None => false end.
Definition carries (i : N) (m : tmsg) : bool := genuine (m_org m) && (m_id m =? i).
Definition holders (s : sys) (i : N) : N := len (filter (holds i) (handles s)) + len (filter (carries i) (flight s)).

Definition prov_of (s : sys) (v : N) : prov :=
  match getN (cells s) v with Some cl => c_prov cl | None => PDropped end.

(** the task's loop: [keep] seen => wait for the dropped channel only; otherwise also for the
    provider to go away *)
Definition task_enabled (s : sys) (t : task) : bool :=
  match prov_of s (t_cell t) with
  | PDropped => true
  | _ => holders s (t_id t) =? 0
  end.

Definition at_site (c e i : N) (en : entry) : bool := (s_conn en =? c) && (s_ep en =? e) && (s_id en =? i).
Definition for_ep (c e : N) (m : tmsg) : bool := (m_conn m =? c) && (m_dst m =? e).

Definition mem (i : N) (l : list N) : bool := existsb (N.eqb i) l.

(** access through a handle: [as_ref]/[as_mut] ([take = false]) and [into_inner] ([take = true]).
    [into_inner] empties the cell BEFORE the downcast, also when the type does not match. *)
Definition access (s : sys) (hd : handle) (take : bool) : sys * result :=
  match st_cell (h_st hd) with
  | None => (s, RUnknown)
  | Some v =>
      match getN (cells s) v with
      | None => (s, RUnknown)
      | Some cl =>
          if c_taken cl then (s, RUnknown)
          else
            let s' := if take then s <| cells ::= updN v (fun c => c <| c_taken := true |>) |> else s in
            (s', if c_tag cl =? h_tag hd then RVal v else RMismatch)
      end
  end.

Definition step (s : sys) (a : action) : sys * result :=
  match a with
  | ANew e t keep =>
      let v := len (cells s) in
      let h := len (handles s) in
      (s <| cells ::= fun l => l ++ [mk_cell e t false (if keep then PKept else PAlive)] |>
         <| handles ::= fun l => l ++ [mk_handle e t (LocalCreated v) true (Some v)] |>, RHandle h)
  | AClone h =>
      match live_handle s h with
      | Some hd => (s <| handles ::= fun l => l ++ [hd] |>, RHandle (len (handles s)))
      | None => (s, RNone)
      end
  | ADrop h =>
      match live_handle s h with
      | Some _ => (kill s h, RUnit)
      | None => (s, RNone)
      end
  | ACast h t =>
      match live_handle s h with
      | Some _ => (s <| handles ::= updN h (fun hd => hd <| h_tag := t |>) |>, RUnit)
      | None => (s, RNone)
      end
  | ASend h c dst i =>
      match live_handle s h with
      | None => (s, RNone)
      | Some hd =>
          match h_st hd with
          | LocalCreated v =>
              if mem i (used s) then (s, RNone)
              else
                (kill s h <| storage ::= fun l => l ++ [mk_entry c (h_ep hd) i v] |>
                          <| tasks ::= fun l => l ++ [mk_task c (h_ep hd) i v] |>
                          <| used ::= cons i |>
                          <| issued ::= cons (i, v) |>
                          <| flight ::= fun l => l ++ [mk_tmsg c dst i (h_tag hd) (h_org hd)] |>, RUnit)
          | LocalReceived _ j | Remote j =>
              (kill s h <| flight ::= fun l => l ++ [mk_tmsg c dst j (h_tag hd) (h_org hd)] |>, RUnit)
          end
      end
  | ARecv c e =>
      match take_first (for_ep c e) (flight s) with
      | None => (s, REmpty)
      | Some (m, rest) =>
          let h := len (handles s) in
          match find (at_site c e (m_id m)) (storage s) with
          | Some en =>
              (s <| flight := rest |>
                 <| storage ::= filter (fun x => negb (at_site c e (m_id m) x)) |>
                 <| handles ::= fun l => l ++ [mk_handle e (m_tag m) (LocalReceived (s_cell en) (m_id m)) true (m_org m)] |>,
               RHandle h)
          | None =>
              (s <| flight := rest |>
                 <| handles ::= fun l => l ++ [mk_handle e (m_tag m) (Remote (m_id m)) true (m_org m)] |>,
               RHandle h)
          end
      end
  | AForge c dst i t => (s <| flight ::= fun l => l ++ [mk_tmsg c dst i t None] |>, RUnit)
  | ALose c e =>
      match take_first (for_ep c e) (flight s) with
      | None => (s, REmpty)
      | Some (_, rest) => (s <| flight := rest |>, RUnit)
      end
  | AAsRef h | AAsMut h =>
      match live_handle s h with
      | Some hd => access s hd false
      | None => (s, RNone)
      end
  | AIntoInner h =>
      match live_handle s h with
      | Some hd => access (kill s h) hd true
      | None => (s, RNone)
      end
  | AProvDrop v =>
      match prov_of s v, getN (cells s) v with
      | PAlive, Some _ => (s <| cells ::= updN v (fun c => c <| c_prov := PDropped |>) |>, RUnit)
      | _, _ => (s, RNone)
      end
  | AProvKeep v =>
      match prov_of s v, getN (cells s) v with
      | PAlive, Some _ => (s <| cells ::= updN v (fun c => c <| c_prov := PKept |>) |>, RUnit)
      | _, _ => (s, RNone)
      end
  | ARelease i =>
      match find (fun t => t_id t =? i) (tasks s) with
      | Some t =>
          if task_enabled s t then
            (s <| tasks ::= filter (fun x => negb (t_id x =? i)) |>
               <| storage ::= filter (fun x => negb (at_site (t_conn t) (t_ep t) i x)) |>, RUnit)
          else (s, RNone)
      | None => (s, RNone)
      end
  end.

Fixpoint hrun (acts : list action) (s : sys) : sys * list result :=
  match acts with
  | [] => (s, [])
  | a :: r => let '(s1, o) := step s a in let '(s2, os) := hrun r s1 in (s2, o :: os)
  end.

Definition reach (s : sys) : Prop := exists acts, fst (hrun acts init) = s.

(** * Observables *)

(** the [Arc] of cell [v] still has an owner: a live handle on the owner endpoint or a storage entry *)
Definition refs_cell (v : N) (hd : handle) : bool :=
  h_live hd && match st_cell (h_st hd) with Some w => w =? v | None => false end.
Definition stored_cell (v : N) (en : entry) : bool := s_cell en =? v.
Definition referenced (s : sys) (v : N) : bool :=
  existsb (refs_cell v) (handles s) || existsb (stored_cell v) (storage s).
(** the boxed value exists: not taken out and the cell is referenced *)
Definition value_alive (s : sys) (v : N) : bool :=
  match getN (cells s) v with
  | Some cl => negb (c_taken cl) && referenced s v
  | None => false
  end.

(** no removal task can run *)
Definition quiescent (s : sys) : Prop := forall t, In t (tasks s) -> task_enabled s t = false.

(** * Big step used by the correspondence check: the operation, then every removal task that can
    finish does (a finishing task enables no other one). *)
Definition enabled_ids (s : sys) : list N := map t_id (filter (task_enabled s) (tasks s)).
Definition big_acts (s : sys) (a : action) : list action :=
  a :: map ARelease (enabled_ids (fst (step s a))).
Definition big_step (s : sys) (a : action) : sys * result :=
  let '(s', os) := hrun (big_acts s a) s in (s', match os with o :: _ => o | [] => RNone end).
