(** Confinement, type safety and release of handles, for every action list. *)
From Remoc Require Import Lib.Base Robj.Handle.
From RecordUpdate Require Import RecordUpdate.

Ltac prj :=
  cbn [cells handles storage flight tasks used issued set RecordSet.set kill
       c_owner c_tag c_taken c_prov h_ep h_tag h_st h_live h_org s_conn s_ep s_id s_cell
       m_conn m_dst m_id m_tag m_org t_conn t_ep t_id t_cell fst snd] in *.

(** * Lists *)
Lemma getN_app_l {A} (l r : list A) n x : getN l n = Some x -> getN (l ++ r) n = Some x.
Proof.
  unfold getN. intros H. rewrite nth_error_app1; [exact H|]. apply nth_error_Some. congruence.
Qed.

Lemma getN_len {A} (l : list A) x : getN (l ++ [x]) (len l) = Some x.
Proof.
  unfold getN, len. rewrite Nat2N.id. rewrite nth_error_app2 by lia. now rewrite Nat.sub_diag.
Qed.

Lemma getN_In {A} (l : list A) n x : getN l n = Some x -> In x l.
Proof. unfold getN. apply nth_error_In. Qed.

Lemma upd_nat_get {A} (f : A -> A) : forall (l : list A) k j,
  nth_error (upd_nat k f l) j = if Nat.eqb j k then option_map f (nth_error l j) else nth_error l j.
Proof.
  induction l as [|x l IH]; intros k j.
  - cbn [upd_nat]. destruct k; destruct (Nat.eqb j _); destruct j; reflexivity.
  - destruct k, j; cbn [upd_nat nth_error Nat.eqb option_map]; try reflexivity. apply IH.
Qed.

Lemma getN_updN {A} (f : A -> A) (l : list A) n m :
  getN (updN n f l) m = if m =? n then option_map f (getN l m) else getN l m.
Proof.
  unfold getN, updN. rewrite upd_nat_get.
  destruct (N.eqb_spec m n) as [->|Hne].
  - now rewrite Nat.eqb_refl.
  - destruct (Nat.eqb_spec (N.to_nat m) (N.to_nat n)) as [E|_]; [|reflexivity].
    apply N2Nat.inj in E. contradiction.
Qed.

Lemma Forall_upd_nat {A} (P : A -> Prop) (f : A -> A) : forall (l : list A) k,
  Forall P l -> (forall x, P x -> P (f x)) -> Forall P (upd_nat k f l).
Proof.
  induction l as [|x l IH]; intros k Hl Hf; destruct k; cbn [upd_nat]; auto;
    inversion Hl; subst; constructor; auto.
Qed.
Lemma Forall_updN {A} (P : A -> Prop) (f : A -> A) (l : list A) n :
  Forall P l -> (forall x, P x -> P (f x)) -> Forall P (updN n f l).
Proof. apply Forall_upd_nat. Qed.

Lemma Forall_snoc {A} (P : A -> Prop) l x : Forall P l -> P x -> Forall P (l ++ [x]).
Proof. intros. apply Forall_app. split; auto. Qed.

Lemma Forall_filter {A} (P : A -> Prop) (p : A -> bool) l : Forall P l -> Forall P (filter p l).
Proof.
  intros H. apply Forall_forall. intros x Hx. apply filter_In in Hx. destruct Hx as [Hx _].
  revert x Hx. now apply Forall_forall.
Qed.

Lemma Forall_mono {A} (P Q : A -> Prop) l : (forall x, P x -> Q x) -> Forall P l -> Forall Q l.
Proof. intros H HF. eapply Forall_impl; eauto. Qed.

Lemma take_first_spec {A} (p : A -> bool) : forall (l : list A) x r,
  take_first p l = Some (x, r) ->
  p x = true /\ In x l /\ (forall y, In y r -> In y l) /\
  (forall q : A -> bool, len (filter q l) = (if q x then 1 else 0) + len (filter q r)).
Proof.
  induction l as [|y l IH]; intros x r H; cbn [take_first] in H; [discriminate|].
  destruct (p y) eqn:Ep.
  - injection H as <- <-. repeat split; auto; [now left|intros; now right|].
    intros q. cbn [filter]. destruct (q y); rewrite ?len_cons; lia.
  - destruct (take_first p l) as [[z r']|] eqn:Et; [|discriminate]. injection H as <- <-.
    destruct (IH _ _ eq_refl) as (Hp & Hin & Hsub & Hcnt). repeat split; auto.
    + now right.
    + intros w [<-|Hw]; [now left|right; auto].
    + intros q. cbn [filter]. specialize (Hcnt q). destruct (q y); rewrite ?len_cons; lia.
Qed.

Lemma find_spec {A} (p : A -> bool) (l : list A) x : find p l = Some x -> In x l /\ p x = true.
Proof. apply find_some. Qed.

Lemma NoDup_map_in {A B} (f : A -> B) (l : list A) x y :
  NoDup (map f l) -> In x l -> In y l -> f x = f y -> x = y.
Proof.
  induction l as [|z l IH]; intros Hnd Hx Hy Hf; [destruct Hx|].
  cbn [map] in Hnd. inversion Hnd as [|? ? Hnin Hnd']; subst.
  destruct Hx as [<-|Hx], Hy as [<-|Hy]; auto.
  - exfalso. apply Hnin. rewrite Hf. now apply in_map.
  - exfalso. apply Hnin. rewrite <- Hf. now apply in_map.
Qed.

Lemma NoDup_filter_map {A B} (f : A -> B) (p : A -> bool) (l : list A) :
  NoDup (map f l) -> NoDup (map f (filter p l)).
Proof.
  induction l as [|z l IH]; intros H; cbn [filter map]; [constructor|].
  cbn [map] in H. inversion H as [|? ? Hnin Hnd]; subst. destruct (p z); auto.
  cbn [map]. constructor; auto. intros Hin. apply Hnin. apply in_map_iff in Hin.
  destruct Hin as (w & Hw & Hin). apply filter_In in Hin. apply in_map_iff. exists w. tauto.
Qed.

Lemma mem_In i l : mem i l = true <-> In i l.
Proof.
  unfold mem. rewrite existsb_exists. split.
  - intros (x & Hx & E). apply N.eqb_eq in E. now subst.
  - intros H. exists i. split; auto. apply N.eqb_refl.
Qed.

(** * The invariant *)
Definition cell_ok (s : sys) (v e : N) : Prop := exists cl, getN (cells s) v = Some cl /\ c_owner cl = e.

(** ghost origin of a handle agrees with what it refers to *)
Definition org_ok (s : sys) (x : hstate) (o : option N) : Prop :=
  forall v0, o = Some v0 ->
  match x with
  | LocalCreated v => v = v0
  | LocalReceived v i => v = v0 /\ In (i, v0) (issued s)
  | Remote i => In (i, v0) (issued s)
  end.

Definition entry_ok (s : sys) (en : entry) : Prop :=
  cell_ok s (s_cell en) (s_ep en) /\ In (s_id en, s_cell en) (issued s) /\
  In (mk_task (s_conn en) (s_ep en) (s_id en) (s_cell en)) (tasks s).
Definition handle_ok (s : sys) (hd : handle) : Prop :=
  (forall v, st_cell (h_st hd) = Some v -> cell_ok s v (h_ep hd)) /\ org_ok s (h_st hd) (h_org hd).
Definition msg_ok (s : sys) (m : tmsg) : Prop := forall v0, m_org m = Some v0 -> In (m_id m, v0) (issued s).

Record Inv (s : sys) : Prop := {
  inv_sto : Forall (entry_ok s) (storage s);
  inv_han : Forall (handle_ok s) (handles s);
  inv_fly : Forall (msg_ok s) (flight s);
  inv_fun : forall i v v', In (i, v) (issued s) -> In (i, v') (issued s) -> v = v';
  inv_used : forall i v, In (i, v) (issued s) -> In i (used s);
  inv_tid : NoDup (map t_id (tasks s));
  inv_tused : Forall (fun t => In (t_id t) (used s)) (tasks s)
}.

(** what a step may do to cells, ids and tasks as far as the per-element conditions care *)
Definition cells_ext (l l' : list cell) : Prop :=
  forall v cl, getN l v = Some cl -> exists cl', getN l' v = Some cl' /\ c_owner cl' = c_owner cl /\ c_tag cl' = c_tag cl.

Lemma cells_ext_refl l : cells_ext l l.
Proof. intros v cl H. eauto. Qed.
Lemma cells_ext_app l x : cells_ext l (l ++ [x]).
Proof. intros v cl H. exists cl. split; [now apply getN_app_l|auto]. Qed.
Lemma cells_ext_upd l n f :
  (forall c, c_owner (f c) = c_owner c /\ c_tag (f c) = c_tag c) -> cells_ext l (updN n f l).
Proof.
  intros Hf v cl H. rewrite getN_updN. destruct (v =? n).
  - rewrite H. cbn [option_map]. exists (f cl). split; auto.
  - eauto.
Qed.

Lemma cell_ok_ext s s' v e : cells_ext (cells s) (cells s') -> cell_ok s v e -> cell_ok s' v e.
Proof. intros Hx (cl & Hg & Ho). destruct (Hx _ _ Hg) as (cl' & Hg' & Ho' & _). exists cl'. split; congruence. Qed.

Lemma org_ok_ext s s' x o : incl (issued s) (issued s') -> org_ok s x o -> org_ok s' x o.
Proof.
  intros Hi H v0 E. specialize (H v0 E). destruct x; auto; try (destruct H; split; auto); try (now apply Hi).
Qed.

Lemma entry_ok_ext s s' en :
  cells_ext (cells s) (cells s') -> incl (issued s) (issued s') -> incl (tasks s) (tasks s') ->
  entry_ok s en -> entry_ok s' en.
Proof.
  intros Hc Hi Ht (H1 & H2 & H3). repeat split; [eapply cell_ok_ext; eauto|now apply Hi|now apply Ht].
Qed.
Lemma handle_ok_ext s s' hd :
  cells_ext (cells s) (cells s') -> incl (issued s) (issued s') -> handle_ok s hd -> handle_ok s' hd.
Proof.
  intros Hc Hi (H1 & H2). split; [intros v E; eapply cell_ok_ext; eauto|eapply org_ok_ext; eauto].
Qed.
Lemma msg_ok_ext s s' m : incl (issued s) (issued s') -> msg_ok s m -> msg_ok s' m.
Proof. intros Hi H v0 E. apply Hi. now apply H. Qed.

Lemma Inv_init : Inv init.
Proof. constructor; cbn; try constructor; try (intros; contradiction). Qed.

Lemma live_handle_spec s h hd : live_handle s h = Some hd -> getN (handles s) h = Some hd /\ h_live hd = true.
Proof.
  unfold live_handle. destruct (getN (handles s) h) as [x|]; [|discriminate].
  destruct (h_live x) eqn:E; [|discriminate]. intros [= <-]. auto.
Qed.

Lemma live_handle_ok s h hd : Inv s -> live_handle s h = Some hd -> handle_ok s hd.
Proof.
  intros HI H. apply live_handle_spec in H. destruct H as [H _]. apply getN_In in H.
  pose proof (inv_han s HI) as HF. rewrite Forall_forall in HF. auto.
Qed.

(** dropping a handle or changing its phantom type does not touch what the invariant says *)
Lemma handle_ok_flags s hd l t : handle_ok s hd -> handle_ok s (hd <| h_live := l |>) /\ handle_ok s (hd <| h_tag := t |>).
Proof. intros H. split; exact H. Qed.

Lemma Inv_kill s h : Inv s -> Inv (kill s h).
Proof.
  intros [H1 H2 H3 H4 H5 H6 H7]. constructor; prj; auto.
  apply Forall_updN; [exact H2|]. intros x Hx. exact Hx.
Qed.

Lemma NoDup_snoc {A} (l : list A) x : NoDup l -> ~ In x l -> NoDup (l ++ [x]).
Proof.
  induction l as [|y l IH]; intros Hnd Hnin; cbn [app]; [constructor; auto; constructor|].
  inversion Hnd as [|? ? Hy Hl]; subst. constructor.
  - intros Hin. apply in_app_or in Hin. destruct Hin as [Hin|[<-|[]]]; [auto|]. apply Hnin. now left.
  - apply IH; auto. intros Hin. apply Hnin. now right.
Qed.

Lemma Inv_cells_upd s v f :
  (forall c, c_owner (f c) = c_owner c /\ c_tag (f c) = c_tag c) -> Inv s -> Inv (s <| cells ::= updN v f |>).
Proof.
  intros Hf [H1 H2 H3 H4 H5 H6 H7]. pose proof (cells_ext_upd (cells s) v f Hf) as Hx.
  constructor; prj; auto.
  - eapply Forall_mono; [|exact H1]. intros en. apply entry_ok_ext; prj; auto using incl_refl.
  - eapply Forall_mono; [|exact H2]. intros hd. apply handle_ok_ext; prj; auto using incl_refl.
Qed.

Lemma access_state s hd take :
  fst (access s hd take) = s \/
  exists v, fst (access s hd take) = s <| cells ::= updN v (fun c => c <| c_taken := true |>) |>.
Proof.
  unfold access. destruct (st_cell (h_st hd)) as [v|]; [|now left].
  destruct (getN (cells s) v) as [cl|]; [|now left]. destruct (c_taken cl); [now left|].
  destruct take; [right; exists v; reflexivity|now left].
Qed.

Lemma Inv_access s hd take : Inv s -> Inv (fst (access s hd take)).
Proof.
  intros HI. destruct (access_state s hd take) as [->|[v ->]]; [exact HI|].
  apply Inv_cells_upd; auto.
Qed.

Lemma at_site_spec c e i en : at_site c e i en = true <-> s_conn en = c /\ s_ep en = e /\ s_id en = i.
Proof. unfold at_site. rewrite !andb_true_iff, !N.eqb_eq. tauto. Qed.

Lemma Inv_step s a : Inv s -> Inv (fst (step s a)).
Proof.
  intros HI. pose proof HI as [H1 H2 H3 H4 H5 H6 H7].
  destruct a as [e t keep|h|h|h t|h c dst i|c e|c dst i t|c e|h|h|h|v|v|i]; cbn [step].
  - (* ANew *)
    cbn [fst]. pose proof (cells_ext_app (cells s) (mk_cell e t false (if keep then PKept else PAlive))) as Hx.
    constructor; prj; auto.
    + eapply Forall_mono; [|exact H1]. intros en. apply entry_ok_ext; prj; auto using incl_refl.
    + apply Forall_snoc.
      * eapply Forall_mono; [|exact H2]. intros hd. apply handle_ok_ext; prj; auto using incl_refl.
      * split; prj.
        -- intros v [= <-]. eexists. split; [apply getN_len|reflexivity].
        -- intros v0 [= <-]. reflexivity.
  - (* AClone *)
    destruct (live_handle s h) as [hd|] eqn:El; [|exact HI]. cbn [fst].
    constructor; prj; auto. apply Forall_snoc; [exact H2|]. exact (live_handle_ok s h hd HI El).
  - (* ADrop *)
    destruct (live_handle s h); [apply Inv_kill|]; exact HI.
  - (* ACast *)
    destruct (live_handle s h); [|exact HI]. cbn [fst]. constructor; prj; auto.
    apply Forall_updN; [exact H2|]. intros x Hx. exact Hx.
  - (* ASend *)
    destruct (live_handle s h) as [hd|] eqn:El; [|exact HI].
    destruct (live_handle_ok s h hd HI El) as [Hc Ho].
    destruct (h_st hd) as [v|v j|j] eqn:Est.
    + destruct (mem i (used s)) eqn:Em; [exact HI|]. cbn [fst].
      assert (Hfresh : ~ In i (used s)) by (rewrite <- mem_In; congruence).
      constructor; prj.
      * apply Forall_snoc.
        -- eapply Forall_mono; [|exact H1]. intros en. apply entry_ok_ext; prj;
             auto using cells_ext_refl, incl_tl, incl_refl, incl_appl.
        -- repeat split; prj.
           ++ apply Hc. reflexivity.
           ++ now left.
           ++ apply in_or_app. right. now left.
      * apply Forall_updN.
        -- eapply Forall_mono; [|exact H2]. intros x. apply handle_ok_ext; prj; auto using cells_ext_refl, incl_tl, incl_refl.
        -- intros x Hx. exact Hx.
      * apply Forall_snoc.
        -- eapply Forall_mono; [|exact H3]. intros m. apply msg_ok_ext; prj; auto using incl_tl, incl_refl.
        -- intros v0 E. prj. specialize (Ho v0 E). cbn in Ho. subst. now left.
      * intros j v1 v2 [E1|I1] [E2|I2].
        -- congruence.
        -- injection E1 as <- <-. exfalso. apply Hfresh. eapply H5; eauto.
        -- injection E2 as <- <-. exfalso. apply Hfresh. eapply H5; eauto.
        -- eapply H4; eauto.
      * intros j v1 [E|I]; [injection E as <- <-; now left|right; eapply H5; eauto].
      * rewrite map_app. cbn [map]. apply NoDup_snoc; auto. intros Hin. apply Hfresh.
        apply in_map_iff in Hin. destruct Hin as (t0 & E & Ht0). cbn [t_id] in E. rewrite <- E.
        rewrite Forall_forall in H7. auto.
      * apply Forall_snoc; [|now left]. eapply Forall_mono; [|exact H7]. intros t0 Ht0. now right.
    + cbn [fst]. constructor; prj; auto.
      * apply Forall_updN; [exact H2|]. intros x Hx. exact Hx.
      * apply Forall_snoc; [exact H3|]. intros v0 E. prj. apply (Ho v0 E).
    + cbn [fst]. constructor; prj; auto.
      * apply Forall_updN; [exact H2|]. intros x Hx. exact Hx.
      * apply Forall_snoc; [exact H3|]. intros v0 E. prj. apply (Ho v0 E).
  - (* ARecv *)
    destruct (take_first (for_ep c e) (flight s)) as [[m rest]|] eqn:Et; [|exact HI].
    destruct (take_first_spec _ _ _ _ Et) as (_ & Hin & Hsub & _).
    assert (Hm : msg_ok s m) by (rewrite Forall_forall in H3; auto).
    assert (Hrest : Forall (msg_ok s) rest).
    { apply Forall_forall. intros y Hy. rewrite Forall_forall in H3. auto. }
    destruct (find (at_site c e (m_id m)) (storage s)) as [en|] eqn:Ef; cbn [fst].
    + apply find_spec in Ef. destruct Ef as [Hen Hsite]. apply at_site_spec in Hsite. destruct Hsite as (_ & Hep & Hid).
      assert (Heo : entry_ok s en) by (rewrite Forall_forall in H1; auto). destruct Heo as (Hcell & Hiss & _).
      constructor; prj; auto.
      * apply Forall_filter. exact H1.
      * apply Forall_snoc; [exact H2|]. split; prj.
        -- intros v [= <-]. now rewrite <- Hep.
        -- intros v0 E. specialize (Hm v0 E). rewrite <- Hid in Hm at 1. split; [|now rewrite <- Hid].
           eapply H4; eauto.
    + constructor; prj; auto. apply Forall_snoc; [exact H2|]. split; prj; [discriminate|].
      intros v0 E. exact (Hm v0 E).
  - (* AForge *)
    cbn [fst]. constructor; prj; auto. apply Forall_snoc; [exact H3|]. intros v0 E. discriminate.
  - (* ALose *)
    destruct (take_first (for_ep c e) (flight s)) as [[m rest]|] eqn:Et; [|exact HI].
    destruct (take_first_spec _ _ _ _ Et) as (_ & _ & Hsub & _). cbn [fst].
    constructor; prj; auto. apply Forall_forall. intros y Hy. rewrite Forall_forall in H3. exact (H3 y (Hsub y Hy)).
  - destruct (live_handle s h); [apply Inv_access|]; exact HI.
  - destruct (live_handle s h); [apply Inv_access|]; exact HI.
  - destruct (live_handle s h); [apply Inv_access, Inv_kill|]; exact HI.
  - destruct (prov_of s v); try exact HI. destruct (getN (cells s) v); [|exact HI].
    cbn [fst]. apply Inv_cells_upd; auto.
  - destruct (prov_of s v); try exact HI. destruct (getN (cells s) v); [|exact HI].
    cbn [fst]. apply Inv_cells_upd; auto.
  - (* ARelease *)
    destruct (find (fun t => t_id t =? i) (tasks s)) as [t|] eqn:Ef; [|exact HI].
    destruct (task_enabled s t); [|exact HI]. cbn [fst].
    apply find_spec in Ef. destruct Ef as [Ht Hti]. apply N.eqb_eq in Hti.
    constructor; prj; auto.
    + apply Forall_forall. intros en Hen. apply filter_In in Hen. destruct Hen as [Hen Hns].
      rewrite Forall_forall in H1. destruct (H1 en Hen) as (Ha & Hb & Hc). repeat split; auto.
      apply filter_In. split; [exact Hc|]. prj. apply negb_true_iff. apply N.eqb_neq. intros E.
      assert (mk_task (s_conn en) (s_ep en) (s_id en) (s_cell en) = t).
      { eapply NoDup_map_in; eauto. prj. congruence. }
      subst t. prj. apply negb_true_iff in Hns. rewrite <- not_true_iff_false in Hns. apply Hns.
      apply at_site_spec. auto.
    + now apply NoDup_filter_map.
    + now apply Forall_filter.
Qed.

Lemma Inv_run acts : forall s, Inv s -> Inv (fst (hrun acts s)).
Proof.
  induction acts as [|a r IH]; intros s HI; cbn [hrun]; [exact HI|].
  pose proof (Inv_step s a HI) as H1. destruct (step s a) as [s1 o]. cbn [fst] in H1.
  specialize (IH s1 H1). destruct (hrun r s1) as [s2 os]. exact IH.
Qed.

Lemma Inv_reach s : reach s -> Inv s.
Proof. intros [acts <-]. apply Inv_run, Inv_init. Qed.

(** * Confinement and type safety *)
Definition is_access (a : action) (h : N) : Prop := a = AAsRef h \/ a = AAsMut h \/ a = AIntoInner h.

Lemma access_val s hd take x : snd (access s hd take) = RVal x ->
  st_cell (h_st hd) = Some x /\
  exists cl, getN (cells s) x = Some cl /\ c_taken cl = false /\ c_tag cl = h_tag hd.
Proof.
  unfold access. destruct (st_cell (h_st hd)) as [v|]; [|discriminate].
  destruct (getN (cells s) v) as [cl|] eqn:Eg; [|discriminate].
  destruct (c_taken cl) eqn:Et; [discriminate|]. cbn [snd].
  destruct (c_tag cl =? h_tag hd) eqn:Ec; [|discriminate]. intros [= <-].
  split; [reflexivity|]. exists cl. apply N.eqb_eq in Ec. auto.
Qed.

Lemma access_step s a h : is_access a h ->
  snd (step s a) = match live_handle s h with
                   | Some hd => snd (access s hd false)
                   | None => RNone
                   end.
Proof.
  intros [->|[->| ->]]; cbn [step]; destruct (live_handle s h) as [hd|]; try reflexivity.
  unfold access. prj. destruct (st_cell (h_st hd)); [|reflexivity].
  destruct (getN (cells s) n); [|reflexivity]. destruct (c_taken c); reflexivity.
Qed.

(** A value comes out only through a live handle that sits on the endpoint owning the cell, at the
    cell's type, before the value was taken -- and it is the value the handle was made for. *)
Theorem confined s a h x :
  Inv s -> is_access a h -> snd (step s a) = RVal x ->
  exists hd cl, live_handle s h = Some hd /\ getN (cells s) x = Some cl /\
    c_owner cl = h_ep hd /\ c_tag cl = h_tag hd /\ c_taken cl = false /\
    (forall v0, h_org hd = Some v0 -> v0 = x).
Proof.
  intros HI Ha Hr. rewrite (access_step s a h Ha) in Hr.
  destruct (live_handle s h) as [hd|] eqn:El; [|discriminate].
  apply access_val in Hr. destruct Hr as (Hc & cl & Hg & Ht & Hty).
  destruct (live_handle_ok s h hd HI El) as [Hcell Horg].
  destruct (Hcell x Hc) as (cl' & Hg' & Hown). rewrite Hg in Hg'. injection Hg' as <-.
  exists hd, cl. repeat split; auto.
  intros v0 E. specialize (Horg v0 E). destruct (h_st hd); cbn [st_cell] in Hc; try discriminate;
    injection Hc as <-; [auto|destruct Horg; auto].
Qed.

(** Every other outcome of an access is one of the two errors ([RNone]: there is no such handle). *)
Theorem access_outcomes s a h : is_access a h ->
  match snd (step s a) with
  | RVal _ | RUnknown | RMismatch => live_handle s h <> None
  | RNone => live_handle s h = None
  | _ => False
  end.
Proof.
  intros Ha. rewrite (access_step s a h Ha). destruct (live_handle s h) as [hd|]; [|reflexivity].
  unfold access. destruct (st_cell (h_st hd)); [|discriminate].
  destruct (getN (cells s) n); [|discriminate]. destruct (c_taken c); [discriminate|]. cbn [snd].
  destruct (c_tag c =? h_tag hd); discriminate.
Qed.

Lemma only_access_yields_values s a x : snd (step s a) = RVal x -> exists h, is_access a h.
Proof.
  destruct a; cbn [step]; unfold is_access; eauto;
    repeat match goal with
           | |- context [match ?e with _ => _ end] => destruct e
           end; cbn [snd]; try discriminate.
Qed.

(** On any endpoint other than the one that created the value the handle is [Remote]: [Unknown]. *)
Theorem foreign_unknown s a h hd v0 cl0 :
  Inv s -> is_access a h -> live_handle s h = Some hd ->
  h_org hd = Some v0 -> getN (cells s) v0 = Some cl0 -> c_owner cl0 <> h_ep hd ->
  snd (step s a) = RUnknown.
Proof.
  intros HI Ha El Eo Eg Hne. rewrite (access_step s a h Ha), El.
  destruct (live_handle_ok s h hd HI El) as [Hcell Horg]. specialize (Horg v0 Eo).
  unfold access. destruct (h_st hd) as [v|v j|j]; cbn [st_cell]; [| |reflexivity].
  - subst v. destruct (Hcell v0 eq_refl) as (cl & Hg & Ho). congruence.
  - destruct Horg as [-> _]. destruct (Hcell v0 eq_refl) as (cl & Hg & Ho). congruence.
Qed.

(** Through a handle of another type than the value's: an error, never a value. *)
Theorem wrong_type_error s a h hd v0 cl0 :
  Inv s -> is_access a h -> live_handle s h = Some hd ->
  h_org hd = Some v0 -> getN (cells s) v0 = Some cl0 -> c_tag cl0 <> h_tag hd ->
  snd (step s a) = RUnknown \/ snd (step s a) = RMismatch.
Proof.
  intros HI Ha El Eo Eg Hne. pose proof (confined s a h) as Hc. pose proof (access_outcomes s a h Ha) as Ho.
  destruct (snd (step s a)) eqn:Er; try tauto; [|rewrite El in Ho; discriminate].
  destruct (Hc v HI Ha eq_refl) as (hd' & cl & El' & Hg & _ & Hty & _ & Horg).
  rewrite El in El'. injection El' as <-. specialize (Horg v0 Eo). subst v. congruence.
Qed.

(** [taken] is never reset *)
Lemma taken_step s a x cl : getN (cells s) x = Some cl -> c_taken cl = true ->
  exists cl', getN (cells (fst (step s a))) x = Some cl' /\ c_taken cl' = true.
Proof.
  intros Hg Ht.
  assert (Hupd : forall v f, (forall c, c_taken c = true -> c_taken (f c) = true) ->
            exists cl', getN (updN v f (cells s)) x = Some cl' /\ c_taken cl' = true).
  { intros v f Hf. rewrite getN_updN. destruct (x =? v); [rewrite Hg; cbn [option_map]|]; eauto. }
  assert (Hacc : forall s0 hd take, cells s0 = cells s ->
            exists cl', getN (cells (fst (access s0 hd take))) x = Some cl' /\ c_taken cl' = true).
  { intros s0 hd take E. destruct (access_state s0 hd take) as [->|[v ->]]; prj; rewrite E; eauto. }
  destruct a; cbn [step];
    repeat match goal with
           | |- context [access ?s0 ?hd ?tk] => apply Hacc; reflexivity
           | |- context [match ?e with _ => _ end] => destruct e
           end; prj; eauto using getN_app_l.
Qed.

Theorem taken_forever acts : forall s x cl,
  Inv s -> getN (cells s) x = Some cl -> c_taken cl = true -> ~ In (RVal x) (snd (hrun acts s)).
Proof.
  induction acts as [|a r IH]; intros s x cl HI Hg Ht; cbn [hrun]; [cbn; tauto|].
  pose proof (Inv_step s a HI) as HI1. destruct (taken_step s a x cl Hg Ht) as (cl1 & Hg1 & Ht1).
  destruct (step s a) as [s1 o] eqn:Es. cbn [fst] in *. specialize (IH s1 x cl1 HI1 Hg1 Ht1).
  destruct (hrun r s1) as [s2 os]. cbn [snd] in *. intros [E|Hin]; [|auto]. subst o.
  assert (Hr : snd (step s a) = RVal x) by now rewrite Es.
  destruct (only_access_yields_values s a x Hr) as [h Ha].
  destruct (confined s a h x HI Ha Hr) as (_ & cl' & _ & Hg' & _ & _ & Ht' & _). congruence.
Qed.

(** [into_inner] that reaches the cell empties it, whatever the type *)
Theorem into_inner_takes s h x :
  (snd (step s (AIntoInner h)) = RVal x \/ snd (step s (AIntoInner h)) = RMismatch) ->
  exists hd v cl, live_handle s h = Some hd /\ st_cell (h_st hd) = Some v /\
    getN (cells (fst (step s (AIntoInner h)))) v = Some cl /\ c_taken cl = true /\
    (snd (step s (AIntoInner h)) = RVal x -> v = x).
Proof.
  cbn [step]. destruct (live_handle s h) as [hd|]; [|intros [H|H]; discriminate].
  unfold access. prj. destruct (st_cell (h_st hd)) as [v|] eqn:Ec; [|intros [H|H]; discriminate].
  destruct (getN (cells s) v) as [cl|] eqn:Eg; [|intros [H|H]; discriminate].
  destruct (c_taken cl); [intros [H|H]; discriminate|]. prj. intros H.
  exists hd, v, (cl <| c_taken := true |>). repeat split; auto.
  - rewrite getN_updN, N.eqb_refl, Eg. reflexivity.
  - destruct (c_tag cl =? h_tag hd); [intros [= <-]; reflexivity|discriminate].
Qed.

(** * Release *)
Lemma find_In_some {A} (p : A -> bool) (l : list A) x : In x l -> p x = true -> exists y, find p l = Some y.
Proof.
  intros Hin Hp. destruct (find p l) eqn:E; [eauto|]. exfalso.
  pose proof (find_none p l E x Hin). congruence.
Qed.

Lemma find_task s i t : Inv s -> In t (tasks s) -> t_id t = i -> find (fun x => t_id x =? i) (tasks s) = Some t.
Proof.
  intros HI Hin Hid. destruct (find_In_some (fun x => t_id x =? i) (tasks s) t Hin) as [y Hy]; [now apply N.eqb_eq|].
  rewrite Hy. f_equal. apply find_spec in Hy. destruct Hy as [Hy Hyi]. apply N.eqb_eq in Hyi.
  eapply NoDup_map_in; eauto using inv_tid. congruence.
Qed.

(** While the entry of an id all of whose handles are gone, or whose provider is dropped, is still
    in a storage, its removal task exists and can finish; finishing removes the entry. *)
Theorem release_enabled s en :
  Inv s -> In en (storage s) ->
  (holders s (s_id en) = 0 \/ prov_of s (s_cell en) = PDropped) ->
  exists s', step s (ARelease (s_id en)) = (s', RUnit) /\ ~ In en (storage s') /\ incl (storage s') (storage s).
Proof.
  intros HI Hen Hc. pose proof (inv_sto s HI) as H1. rewrite Forall_forall in H1.
  destruct (H1 en Hen) as (_ & _ & Ht). set (t := mk_task (s_conn en) (s_ep en) (s_id en) (s_cell en)) in *.
  cbn [step]. rewrite (find_task s (s_id en) t HI Ht eq_refl).
  assert (He : task_enabled s t = true).
  { unfold task_enabled. subst t. prj. destruct Hc as [Hc|Hc]; [|now rewrite Hc].
    rewrite Hc. destruct (prov_of s (s_cell en)); reflexivity. }
  rewrite He. eexists. split; [reflexivity|]. prj. split.
  - intros Hin. apply filter_In in Hin. destruct Hin as [_ Hn]. apply negb_true_iff in Hn.
    subst t. prj. assert (at_site (s_conn en) (s_ep en) (s_id en) en = true) by (apply at_site_spec; auto). congruence.
  - intros x Hx. apply filter_In in Hx. tauto.
Qed.

(** Hence at quiescence every remaining entry has a holder and a provider that is not dropped. *)
Theorem quiescent_released s en :
  Inv s -> quiescent s -> In en (storage s) ->
  holders s (s_id en) <> 0 /\ prov_of s (s_cell en) <> PDropped.
Proof.
  intros HI Hq Hen. pose proof (inv_sto s HI) as H1. rewrite Forall_forall in H1.
  destruct (H1 en Hen) as (_ & _ & Ht). specialize (Hq _ Ht). unfold task_enabled in Hq. prj.
  destruct (prov_of s (s_cell en)); try discriminate; apply N.eqb_neq in Hq; split; auto; discriminate.
Qed.

(** a live handle or a message in flight that descends from the handle made for cell [v] *)
Definition descends (v : N) (o : option N) : bool := match o with Some w => w =? v | None => false end.

Lemma filter_nil_iff {A} (p : A -> bool) l : len (filter p l) = 0 <-> forall x, In x l -> p x = false.
Proof.
  induction l as [|y l IH]; cbn [filter]; [split; [intros _ x []|reflexivity]|].
  destruct (p y) eqn:E.
  - rewrite len_cons. split; [lia|]. intros H. specialize (H y (or_introl eq_refl)). congruence.
  - rewrite IH. split; intros H x; [intros [<-|Hx]; auto|intros Hx; apply H; now right].
Qed.

(** The value itself: at quiescence, once no live handle and no message in flight descends from the
    handle made for the cell and no live handle refers to the cell, the value is gone; after the
    provider was dropped only live handles on the owner endpoint itself can keep it. *)
Theorem value_released s v :
  Inv s -> quiescent s ->
  (forall hd, In hd (handles s) -> h_live hd = true -> st_cell (h_st hd) <> Some v) ->
  (prov_of s v = PDropped \/
   (forall hd, In hd (handles s) -> h_live hd = true -> descends v (h_org hd) = false) /\
   (forall m, In m (flight s) -> descends v (m_org m) = false)) ->
  value_alive s v = false.
Proof.
  intros HI Hq Hloc Hc. unfold value_alive. destruct (getN (cells s) v) as [cl|]; [|reflexivity].
  apply andb_false_iff. right. unfold referenced. apply orb_false_iff. split.
  - apply not_true_iff_false. intros Hex. apply existsb_exists in Hex. destruct Hex as (hd & Hin & Hr).
    unfold refs_cell in Hr. apply andb_true_iff in Hr. destruct Hr as [Hl Hr].
    destruct (st_cell (h_st hd)) as [w|] eqn:Ec; [|discriminate]. apply N.eqb_eq in Hr. subst w.
    exact (Hloc hd Hin Hl Ec).
  - apply not_true_iff_false. intros Hex. apply existsb_exists in Hex. destruct Hex as (en & Hin & Hr).
    unfold stored_cell in Hr. apply N.eqb_eq in Hr.
    destruct (quiescent_released s en HI Hq Hin) as [Hh Hp]. rewrite Hr in Hp.
    destruct Hc as [Hc|[Hhd Hfl]]; [contradiction|]. apply Hh. unfold holders.
    pose proof (inv_sto s HI) as H1. rewrite Forall_forall in H1. destruct (H1 en Hin) as (_ & Hiss & _). rewrite Hr in Hiss.
    assert (E1 : len (filter (holds (s_id en)) (handles s)) = 0).
    { apply filter_nil_iff. intros hd Hhin. unfold holds. destruct (h_live hd) eqn:El; [|reflexivity].
      specialize (Hhd hd Hhin El). destruct (h_org hd) as [w|] eqn:Eo; [|reflexivity]. cbn [genuine andb].
      destruct (st_id (h_st hd)) as [j|] eqn:Ej; [|reflexivity]. apply N.eqb_neq. intros ->.
      pose proof (inv_han s HI) as H2. rewrite Forall_forall in H2. destruct (H2 hd Hhin) as [_ Ho].
      specialize (Ho w Eo). cbn [descends] in Hhd. apply N.eqb_neq in Hhd. apply Hhd.
      destruct (h_st hd); cbn [st_id] in Ej; try discriminate; injection Ej as ->;
        [destruct Ho as [_ Ho]|]; eapply (inv_fun s HI); eauto. }
    assert (E2 : len (filter (carries (s_id en)) (flight s)) = 0).
    { apply filter_nil_iff. intros m Hmin. unfold carries. specialize (Hfl m Hmin).
      destruct (m_org m) as [w|] eqn:Eo; [|reflexivity]. cbn [genuine andb]. apply N.eqb_neq. intros E.
      pose proof (inv_fly s HI) as H3. rewrite Forall_forall in H3. specialize (H3 m Hmin w Eo). rewrite E in H3.
      cbn [descends] in Hfl. apply N.eqb_neq in Hfl. apply Hfl. eapply (inv_fun s HI); eauto. }
    lia.
Qed.

(** * The big step of the correspondence check ends in a quiescent state *)
Definition same_env (s s' : sys) : Prop := cells s' = cells s /\ handles s' = handles s /\ flight s' = flight s.

Lemma task_enabled_env s s' t : same_env s s' -> task_enabled s' t = task_enabled s t.
Proof. intros (E1 & E2 & E3). unfold task_enabled, prov_of, holders. now rewrite E1, E2, E3. Qed.

Lemma release_step s i :
  Inv s ->
  let s' := fst (step s (ARelease i)) in
  same_env s s' /\ incl (tasks s') (tasks s) /\
  (forall t, In t (tasks s') -> t_id t = i -> task_enabled s t = false).
Proof.
  intros HI. cbn [step]. destruct (find (fun t => t_id t =? i) (tasks s)) as [t|] eqn:Ef.
  - pose proof (find_spec _ _ _ Ef) as [Hin Hid]. apply N.eqb_eq in Hid.
    destruct (task_enabled s t) eqn:Ee; prj.
    + split; [repeat split|split].
      * intros x Hx. apply filter_In in Hx. tauto.
      * intros t' Ht' E. apply filter_In in Ht'. destruct Ht' as [_ Hn]. apply negb_true_iff, N.eqb_neq in Hn. contradiction.
    + split; [repeat split|split; [apply incl_refl|]].
      intros t' Ht' E. assert (t' = t) by (eapply NoDup_map_in; eauto using inv_tid; congruence). now subst.
  - prj. split; [repeat split|split; [apply incl_refl|]].
    intros t' Ht' E. pose proof (find_none _ _ Ef t' Ht') as Hn. apply N.eqb_neq in Hn. contradiction.
Qed.

Lemma release_all l : forall s0 s,
  Inv s -> same_env s0 s -> incl (tasks s) (tasks s0) ->
  let s' := fst (hrun (map ARelease l) s) in
  Inv s' /\ same_env s0 s' /\ incl (tasks s') (tasks s) /\
  (forall i t, In i l -> In t (tasks s') -> t_id t = i -> task_enabled s0 t = false).
Proof.
  induction l as [|i l IH]; intros s0 s HI He Hs; cbn [map hrun].
  - cbn [fst]. split; [exact HI|split; [exact He|split; [apply incl_refl|]]]. intros i t [].
  - destruct (release_step s i HI) as (He1 & Hs1 & Hp1). pose proof (Inv_step s (ARelease i) HI) as HI1.
    destruct (step s (ARelease i)) as [s1 o]. cbn [fst] in *.
    assert (He01 : same_env s0 s1).
    { destruct He as (A1 & A2 & A3), He1 as (B1 & B2 & B3). repeat split; congruence. }
    destruct (IH s0 s1 HI1 He01 (incl_tran Hs1 Hs)) as (HI2 & He2 & Hs2 & Hp2).
    destruct (hrun (map ARelease l) s1) as [s2 os]. cbn [fst] in *.
    split; [exact HI2|split; [exact He2|split]].
    + eapply incl_tran; eauto.
    + intros j t [<-|Hj] Ht E.
      * rewrite <- (task_enabled_env s0 s t He). apply Hp1; auto.
      * eapply Hp2; eauto.
Qed.

Theorem big_step_quiescent s a : Inv s -> quiescent (fst (big_step s a)) /\ Inv (fst (big_step s a)).
Proof.
  intros HI. unfold big_step, big_acts. cbn [hrun]. pose proof (Inv_step s a HI) as HI1.
  destruct (step s a) as [s1 o]. cbn [fst] in *.
  assert (He : same_env s1 s1) by (repeat split).
  destruct (release_all (enabled_ids s1) s1 s1 HI1 He (incl_refl _)) as (HI2 & He2 & Hs2 & Hp2).
  destruct (hrun (map ARelease (enabled_ids s1)) s1) as [s2 os]. cbn [fst] in *. split; [|exact HI2].
  intros t Ht. rewrite (task_enabled_env s1 s2 t He2). destruct (task_enabled s1 t) eqn:Ee; [|reflexivity].
  rewrite <- Ee. apply (Hp2 (t_id t) t); auto. unfold enabled_ids. apply in_map. apply filter_In. split; auto.
Qed.

(** the big step is a run of the small-step system *)
Lemma big_step_is_run s a : fst (big_step s a) = fst (hrun (big_acts s a) s).
Proof. unfold big_step. destruct (hrun (big_acts s a) s). reflexivity. Qed.

(** * The same for every reachable state, i.e. after every action list from the empty system *)
Section Reach.
Variable s : sys.
Hypothesis Hr : reach s.
Let HI : Inv s := Inv_reach s Hr.

Lemma r_confined a h x : is_access a h -> snd (step s a) = RVal x ->
  exists hd cl, live_handle s h = Some hd /\ getN (cells s) x = Some cl /\
    c_owner cl = h_ep hd /\ c_tag cl = h_tag hd /\ c_taken cl = false /\
    (forall v0, h_org hd = Some v0 -> v0 = x).
Proof. apply confined; exact HI. Qed.

Lemma r_foreign_unknown a h hd v0 cl0 :
  is_access a h -> live_handle s h = Some hd ->
  h_org hd = Some v0 -> getN (cells s) v0 = Some cl0 -> c_owner cl0 <> h_ep hd ->
  snd (step s a) = RUnknown.
Proof. apply foreign_unknown; exact HI. Qed.

Lemma r_wrong_type_error a h hd v0 cl0 :
  is_access a h -> live_handle s h = Some hd ->
  h_org hd = Some v0 -> getN (cells s) v0 = Some cl0 -> c_tag cl0 <> h_tag hd ->
  snd (step s a) = RUnknown \/ snd (step s a) = RMismatch.
Proof. apply wrong_type_error; exact HI. Qed.

Lemma r_taken_forever acts x cl :
  getN (cells s) x = Some cl -> c_taken cl = true -> ~ In (RVal x) (snd (hrun acts s)).
Proof. apply taken_forever; exact HI. Qed.

Lemma r_release_enabled en :
  In en (storage s) ->
  (holders s (s_id en) = 0 \/ prov_of s (s_cell en) = PDropped) ->
  exists s', step s (ARelease (s_id en)) = (s', RUnit) /\ ~ In en (storage s') /\ incl (storage s') (storage s).
Proof. apply release_enabled; exact HI. Qed.

Lemma r_quiescent_released en :
  quiescent s -> In en (storage s) ->
  holders s (s_id en) <> 0 /\ prov_of s (s_cell en) <> PDropped.
Proof. apply quiescent_released; exact HI. Qed.

Lemma r_value_released v :
  quiescent s ->
  (forall hd, In hd (handles s) -> h_live hd = true -> st_cell (h_st hd) <> Some v) ->
  (prov_of s v = PDropped \/
   (forall hd, In hd (handles s) -> h_live hd = true -> descends v (h_org hd) = false) /\
   (forall m, In m (flight s) -> descends v (m_org m) = false)) ->
  value_alive s v = false.
Proof. apply value_released; exact HI. Qed.

Lemma r_big_step a : quiescent (fst (big_step s a)) /\ reach (fst (big_step s a)).
Proof.
  split; [apply big_step_quiescent; exact HI|]. destruct Hr as [acts <-]. rewrite big_step_is_run.
  exists (acts ++ big_acts (fst (hrun acts init)) a).
  generalize (big_acts (fst (hrun acts init)) a). intros l.
  assert (Happ : forall a1 a2 s0, fst (hrun (a1 ++ a2) s0) = fst (hrun a2 (fst (hrun a1 s0)))).
  { induction a1 as [|x a1 IH]; intros a2 s0; cbn [app hrun]; [reflexivity|].
    destruct (step s0 x) as [s1 o]. specialize (IH a2 s1). destruct (hrun (a1 ++ a2) s1) as [s2 os].
    destruct (hrun a1 s1) as [s3 os3]. cbn [fst] in *. exact IH. }
  apply Happ.
Qed.
End Reach.
