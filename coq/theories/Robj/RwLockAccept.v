(** Soundness of the acceptance search of Run/RunRwLock.v: every state it keeps is reached from a
    tracked state by the user action followed by internal actions, each enabled when taken -- so an
    accepted history is a history of the small-step system the theorems quantify over. *)
From Remoc Require Import Lib.Base Robj.RwLock Robj.RwLockProofs Robj.RwLockProgress Run.RunRwLock.

Lemma internal_actions_internal s a : In a (internal_actions s) -> internal a = true.
Proof.
  unfold internal_actions. intros [<-|H]; [reflexivity|].
  apply in_app_or in H. destruct H as [H|H].
  { apply in_map_iff in H. destruct H as (k & <- & _). reflexivity. }
  apply in_app_or in H. destruct H as [H|H].
  { apply in_map_iff in H. destruct H as (k & <- & _). reflexivity. }
  apply in_concat in H. destruct H as (l & Hl & Ha). apply in_map_iff in Hl. destruct Hl as (k & <- & _).
  destruct (nth_error (caches s) k) as [k0|]; [|destruct Ha].
  unfold mon_actions in Ha. apply in_flat_map in Ha. destruct Ha as (m & _ & [<-|[<-|[]]]); reflexivity.
Qed.

Definition reach_int (fx : fixmode) (t s : state) : Prop :=
  exists acts, forallb internal acts = true /\ run_strict fx acts t = Some s.

Lemma reach_int_refl fx s : reach_int fx s s.
Proof. exists []. split; reflexivity. Qed.

Lemma reach_int_step fx t s s' :
  reach_int fx t s -> In s' (successors fx s) -> reach_int fx t s'.
Proof.
  intros (acts & Hi & Hr) Hin. unfold successors in Hin. apply in_flat_map in Hin.
  destruct Hin as (a & Ha & Hs). destruct (step fx s a) as [s1|] eqn:E; [|destruct Hs].
  destruct Hs as [<-|[]]. exists (acts ++ [a]). split.
  - rewrite forallb_app, Hi. cbn. now rewrite (internal_actions_internal _ _ Ha).
  - clear Hi. revert t Hr. induction acts as [|b acts IH]; intros t Hr; cbn [run_strict app] in *.
    + inversion Hr; subst. now rewrite E.
    + destruct (step fx t b); [apply IH; exact Hr|discriminate].
Qed.

Lemma closure_sound fx (roots : list state) : forall fuel todo seen quiet res,
  (forall s, In s todo -> exists t, In t roots /\ reach_int fx t s) ->
  (forall s, In s quiet -> exists t, In t roots /\ reach_int fx t s /\ successors fx s = []) ->
  closure fx fuel todo seen quiet = Some res ->
  forall s, In s res -> exists t, In t roots /\ reach_int fx t s /\ successors fx s = [].
Proof.
  induction fuel as [|fuel IH]; intros todo seen quiet res Ht Hq H; cbn [closure] in H; [discriminate|].
  destruct todo as [|s0 rest].
  - inversion H; subst. exact Hq.
  - destruct (mem (enc s0) seen).
    + apply (IH rest seen quiet res); auto. intros s Hs. apply Ht. now right.
    + destruct (successors fx s0) as [|s1 succ] eqn:Es.
      * apply (IH rest (enc s0 :: seen) (s0 :: quiet) res); auto.
        -- intros s Hs. apply Ht. now right.
        -- intros s [<-|Hs]; [|auto]. destruct (Ht s0 (or_introl eq_refl)) as (t & A & B). eauto.
      * apply (IH ((s1 :: succ) ++ rest) (enc s0 :: seen) quiet res); auto.
        intros s Hs. apply in_app_or in Hs. destruct Hs as [Hs|Hs]; [|apply Ht; now right].
        destruct (Ht s0 (or_introl eq_refl)) as (t & A & B). exists t. split; [exact A|].
        apply (reach_int_step fx t s0 s B). now rewrite Es.
Qed.

(** one accepted command: every state kept is quiescent and reached from a tracked state by the
    user action (a no-op if not enabled) followed by enabled internal actions *)
Theorem accept_step_sound fx states a o quiet kept s :
  accept_step fx states a o = Some (quiet, kept) -> In s kept ->
  exists t, In t states /\ reach_int fx (step' fx t a) s /\ successors fx s = [] /\ obs s = o.
Proof.
  unfold accept_step. intros H Hin.
  destruct (closure fx closure_fuel (map (fun s0 => step' fx s0 a) states) [] []) as [q|] eqn:E; [|discriminate].
  inversion H; subst quiet kept; clear H. apply filter_In in Hin. destruct Hin as [Hin Ho].
  destruct (closure_sound fx (map (fun s0 => step' fx s0 a) states) _ _ _ _ _
              (fun s Hs => ex_intro _ s (conj Hs (reach_int_refl fx s)))
              (fun s (Hs : In s []) => match Hs with end) E s Hin) as (t' & A & B & C).
  apply in_map_iff in A. destruct A as (t & <- & A). exists t. split; [exact A|]. split; [exact B|].
  split; [exact C|].
  clear -Ho. revert Ho. generalize (obs s). intros l. revert o.
  induction l as [|x l IH]; intros [|y o] H; cbn [list_eqb] in H; try discriminate; [reflexivity|].
  apply andb_prop in H. destruct H as [H1 H2]. apply N.eqb_eq in H1. subst. f_equal. now apply IH.
Qed.
